import CoxeterVerif.Lemmas.Mutable
/-!
  # C03 — mutable shapes stay coherent under any history of mutations (ConvexPolyhedron core)

  `CPState` holds the private attributes of a `ConvexPolyhedron`; `Coherent` says every cached
  field equals its recomputation from the current vertices.  The mutators modelled are
  `_rescale` (reached by the volume, surface-area and every `*_radius` setter) and the centroid
  setter, in the statement order of the Python.  `coherent_history` lifts the one-step lemmas to
  every operation sequence, of any length.  (`diagonalize_inertia`, `merge_faces`, `sort_faces`,
  `to_hoomd` and the other five classes are covered by the per-step fresh-object oracle of the
  harness, not by theorems — see the claim.)
-/
open Scalar Mut
set_option maxRecDepth 4000
noncomputable section

theorem rescale_tris (s : CPState ℝ) (k : ℝ) :
    (s.rescale k).tris = s.tris.map (Tri.map (V3.smul k)) := by
  unfold CPState.rescale CPState.tris; exact trisOf_map_smul k s.verts s.simplices

/-- **one step: `_rescale(k)`, `k > 0`, keeps every cache coherent.** -/
theorem rescale_coherent (s : CPState ℝ) {k : ℝ} (hk : 0 < k) (h : s.Coherent) :
    (s.rescale k).Coherent := by
  obtain ⟨hv, ha, _, heq, hseq⟩ := h
  have ht := rescale_tris s k
  refine ⟨?_, ?_, ?_, ?_, ?_⟩
  · rw [ht, volume_smul hk, ← hv]; rfl
  · rw [ht, surfaceArea_smul hk, ← ha]; rfl
  · rfl
  · show (s.eqN, s.eqD.map (· * k)) = CPState.findEquations (s.verts.map (V3.smul k)) s.faceHead
    unfold CPState.findEquations at heq ⊢
    simp only [Prod.mk.injEq, List.map_map] at heq ⊢
    obtain ⟨h1, h2⟩ := heq
    constructor
    · rw [h1]; apply List.map_congr_left; intro f _
      simp only [Function.comp, vget_map_smul, faceEquation_smul hk]
    · rw [h2, List.map_map]; apply List.map_congr_left; intro f _
      simp only [Function.comp, vget_map_smul, faceEquation_smul hk]
  · show (s.seqN, s.seqD.map (· * k)) = CPState.findSimplexEquations (s.rescale k).tris
    rw [ht]
    unfold CPState.findSimplexEquations at hseq ⊢
    simp only [Prod.mk.injEq, List.map_map] at hseq ⊢
    obtain ⟨h1, h2⟩ := hseq
    constructor
    · rw [h1]; apply List.map_congr_left; intro t _
      simp only [Function.comp, simplexNormal_smul hk]
    · rw [h2, List.map_map]; apply List.map_congr_left; intro t _
      have hn := simplexNormal_smul hk t
      simp only [Function.comp]
      rw [hn]
      simp only [Tri.map, V3.dot, V3.smul_x, V3.smul_y, V3.smul_z]
      ring

/-- the surface is the boundary chain of some tetrahedralised solid -/
def Closed (s : CPState ℝ) : Prop := ∃ Ts : List (Tet ℝ), ChainEq s.tris (Ts.flatMap Tet.bdry)

theorem setCentroid_tris (s : CPState ℝ) (c : V3 ℝ) (hr : InRange s.verts.length s.simplices) :
    (s.setCentroid c).tris = s.tris.map (Tri.map (· + (c - s.centroid))) := by
  unfold CPState.setCentroid CPState.tris; exact trisOf_map_add _ s.verts s.simplices hr

theorem signedVolume_translate_closed {S : List (Tri ℝ)} (hc : ∃ Ts : List (Tet ℝ), ChainEq S (Ts.flatMap Tet.bdry))
    (d : V3 ℝ) : CP.signedVolume (S.map (Tri.map (· + d))) = CP.signedVolume S := by
  obtain ⟨Ts, h⟩ := hc
  have hch := ChainEq.map (· + d) h
  rw [← flatMap_bdry_map] at hch
  rw [signedVolume_chain hch, signedVolume_chain h]
  have : (fun x : V3 ℝ => x + d) = (fun x => x - (-d)) := by
    funext x; cases x; cases d; ext <;> simp
  rw [this, vol_translate]

/-- **one step: the centroid setter keeps every cache coherent** — for a closed surface (the
volume stored before the move is the one the new centroid is computed with: correct because the
signed volume of a closed surface is translation invariant). -/
theorem setCentroid_coherent (s : CPState ℝ) (c : V3 ℝ) (h : s.Coherent)
    (hr : InRange s.verts.length s.simplices) (hc : Closed s) : (s.setCentroid c).Coherent := by
  obtain ⟨hv, ha, _, _, _⟩ := h
  have ht := setCentroid_tris s c hr
  have hvol : CP.volume (s.setCentroid c).tris = s.volume := by
    rw [ht, hv]; unfold CP.volume; rw [signedVolume_translate_closed hc]
  refine ⟨?_, ?_, ?_, ?_, ?_⟩
  · rfl
  · rw [ht, surfaceArea_translate, ← ha]; rfl
  · show CP.centroid (trisOf _ s.simplices) s.volume = CP.centroid (s.setCentroid c).tris (s.setCentroid c).volume
    have : (s.setCentroid c).volume = s.volume := hvol
    rw [this]; rfl
  · rfl
  · rfl

/-! ### histories -/

inductive Op where
  | setVolume (v : ℝ)
  | setSurfaceArea (v : ℝ)
  | setRadius (current v : ℝ)
  | setCentroid (c : V3 ℝ)

def step (s : CPState ℝ) : Op → Except String (CPState ℝ)
  | .setVolume v => s.setVolume v
  | .setSurfaceArea v => s.setSurfaceArea v
  | .setRadius cur v => s.setRadius cur v
  | .setCentroid c => .ok (s.setCentroid c)

/-- an operation that raises leaves the shape as it was -/
def apply (s : CPState ℝ) (op : Op) : CPState ℝ :=
  match step s op with
  | .ok s' => s'
  | .error _ => s

def run (s : CPState ℝ) (ops : List Op) : CPState ℝ := ops.foldl apply s

/-- a radius getter returns a positive number -/
def Op.Valid : Op → Prop
  | .setRadius cur _ => 0 < cur
  | _ => True

structure CPInv (s : CPState ℝ) : Prop where
  coh : s.Coherent
  vol : 0 < s.volume
  area : 0 < s.area
  rng : InRange s.verts.length s.simplices
  closed : Closed s

theorem rescale_inv (s : CPState ℝ) {k : ℝ} (hk : 0 < k) (h : CPInv s) : CPInv (s.rescale k) := by
  refine ⟨rescale_coherent s hk h.coh, ?_, ?_, ?_, ?_⟩
  · show 0 < s.volume * (k * k * k); have := h.vol; positivity
  · show 0 < s.area * (k * k); have := h.area; positivity
  · show InRange (s.verts.map (V3.smul k)).length s.simplices
    simpa using h.rng
  · obtain ⟨Ts, hT⟩ := h.closed
    refine ⟨Ts.map (Tet.map (V3.smul k)), ?_⟩
    rw [rescale_tris, flatMap_bdry_map]; exact ChainEq.map _ hT

theorem setterFactor_pos {deg : Nat} {cur tgt k : ℝ} (hcur : 0 < cur)
    (h : setterFactor deg cur tgt = .ok k) : 0 < k := by
  unfold setterFactor at h
  by_cases ht : (lit 0 : ℝ) < tgt
  · have ht' : (0:ℝ) < tgt := by simpa [Scalar.lit] using ht
    have hq : 0 < tgt / cur := div_pos ht' hcur
    simp only [ht, not_true_eq_false, if_false] at h
    split_ifs at h <;> injection h with h <;> subst h
    · exact cbrt_pos hq
    · exact Real.sqrt_pos.mpr hq
    · exact hq
  · rw [if_pos ht] at h; cases h

theorem apply_inv (s : CPState ℝ) (op : Op) (hop : op.Valid) (h : CPInv s) : CPInv (apply s op) := by
  unfold apply step
  cases op with
  | setVolume v =>
    simp only [CPState.setVolume]
    cases hk : setterFactor 3 s.volume v with
    | error e => simpa [hk, bind, Except.bind] using h
    | ok k => simpa [hk, bind, Except.bind, pure, Except.pure] using rescale_inv s (setterFactor_pos h.vol hk) h
  | setSurfaceArea v =>
    simp only [CPState.setSurfaceArea]
    cases hk : setterFactor 2 s.area v with
    | error e => simpa [hk, bind, Except.bind] using h
    | ok k => simpa [hk, bind, Except.bind, pure, Except.pure] using rescale_inv s (setterFactor_pos h.area hk) h
  | setRadius cur v =>
    simp only [CPState.setRadius]
    cases hk : setterFactor 1 cur v with
    | error e => simpa [hk, bind, Except.bind] using h
    | ok k => simpa [hk, bind, Except.bind, pure, Except.pure] using rescale_inv s (setterFactor_pos hop hk) h
  | setCentroid c =>
    simp only
    have hco := setCentroid_coherent s c h.coh h.rng h.closed
    have ht := setCentroid_tris s c h.rng
    refine ⟨hco, ?_, h.area, ?_, ?_⟩
    · have hvol : (s.setCentroid c).volume = s.volume := by
        rw [hco.1, ht, h.coh.1]; unfold CP.volume; rw [signedVolume_translate_closed h.closed]
      rw [hvol]; exact h.vol
    · show InRange (s.verts.map (· + (c - s.centroid))).length s.simplices
      simpa using h.rng
    · obtain ⟨Ts, hT⟩ := h.closed
      refine ⟨Ts.map (Tet.map (· + (c - s.centroid))), ?_⟩
      rw [ht, flatMap_bdry_map]; exact ChainEq.map _ hT

/-- **C03 (ConvexPolyhedron core): every history of size/centre mutations, of any length, keeps
volume, area, centroid, face equations and simplex equations equal to what a fresh computation
from the current vertices gives.** -/
theorem coherent_history (s : CPState ℝ) (ops : List Op) (hops : ∀ op ∈ ops, op.Valid) (h : CPInv s) :
    CPInv (run s ops) := by
  unfold run
  induction ops generalizing s with
  | nil => simpa using h
  | cons op ops ih =>
    simp only [List.foldl_cons]
    exact ih (apply s op) (fun o ho => hops o (List.mem_cons_of_mem _ ho))
      (apply_inv s op (hops op List.mem_cons_self) h)

/-- an operation that raises leaves the state untouched (by construction of `apply`) -/
theorem error_leaves_state (s : CPState ℝ) (op : Op) (e : String) (h : step s op = .error e) :
    apply s op = s := by unfold apply; rw [h]

/-- bad targets raise -/
theorem bad_target_raises (s : CPState ℝ) {v : ℝ} (hv : ¬ 0 < v) :
    step s (.setVolume v) = .error "ValueError" ∧ step s (.setSurfaceArea v) = .error "ValueError" := by
  have h0 : ¬ (lit 0 : ℝ) < v := by simpa [Scalar.lit] using hv
  constructor
  · show (s.setVolume v) = _
    unfold CPState.setVolume setterFactor; rw [if_pos h0]; rfl
  · show (s.setSurfaceArea v) = _
    unfold CPState.setSurfaceArea setterFactor; rw [if_pos h0]; rfl

end

/-! ### non-vacuity: the unit corner tetrahedron, with caches filled by recomputation -/
noncomputable section

def exVerts : List (V3 ℝ) := [⟨0,0,0⟩, ⟨1,0,0⟩, ⟨0,1,0⟩, ⟨0,0,1⟩]
def exSimp : List (Nat × Nat × Nat) := [(0,2,1), (0,1,3), (1,2,3), (0,3,2)]

def exState : CPState ℝ :=
  let S := trisOf exVerts exSimp
  let eq := CPState.findEquations exVerts exSimp
  let seq := CPState.findSimplexEquations S
  ⟨exVerts, exSimp, exSimp, eq.1, eq.2, seq.1, seq.2, CP.volume S, CP.surfaceArea S,
    CP.centroid S (CP.volume S)⟩

theorem exState_tris : exState.tris = (Tet.bdry ⟨⟨0,0,0⟩, ⟨1,0,0⟩, ⟨0,1,0⟩, ⟨0,0,1⟩⟩ : List (Tri ℝ)) := by
  simp [exState, CPState.tris, trisOf, exVerts, exSimp, vget, Tet.bdry]

example : CPInv exState := by
  refine ⟨⟨rfl, rfl, rfl, rfl, rfl⟩, ?_, ?_, ?_, ?_⟩
  · show 0 < CP.volume exState.tris
    rw [exState_tris]; unfold CP.volume CP.signedVolume Tet.bdry; unfold_model; norm_num
  · show 0 < CP.surfaceArea exState.tris
    rw [exState_tris]; unfold CP.surfaceArea Tet.bdry
    simp only [Scalar.sum_real, List.map_cons, List.map_nil, List.sum_cons, List.sum_nil]
    have hpos : ∀ t : Tri ℝ, 0 ≤ CP.triArea t := by
      intro t; unfold CP.triArea V3.norm
      simp only [Scalar.sqrt_real, Scalar.lit, Scalar.ofNat_real]
      positivity
    have h1 : 0 < CP.triArea (⟨⟨0,0,0⟩, ⟨0,1,0⟩, ⟨1,0,0⟩⟩ : Tri ℝ) := by
      unfold CP.triArea V3.norm; unfold_model
      simp only [Scalar.sqrt_real]; norm_num
    have := hpos ⟨⟨0,0,0⟩, ⟨1,0,0⟩, ⟨0,0,1⟩⟩
    have := hpos ⟨⟨1,0,0⟩, ⟨0,1,0⟩, ⟨0,0,1⟩⟩
    have := hpos ⟨⟨0,0,0⟩, ⟨0,0,1⟩, ⟨0,1,0⟩⟩
    linarith
  · intro s hs
    simp [exState, exSimp] at hs
    rcases hs with rfl | rfl | rfl | rfl <;> simp [exState, exVerts]
  · exact ⟨[⟨⟨0,0,0⟩, ⟨1,0,0⟩, ⟨0,1,0⟩, ⟨0,0,1⟩⟩], by rw [exState_tris]; simpa using ChainEq.refl _⟩

end
