import CoxeterVerif.Lemmas.Mutable2
import CoxeterVerif.Lemmas.Mutable3Raw
/-!
  # C03 — mutable shapes stay coherent under any history of mutations (ConvexPolyhedron core)

  `CPState` holds the private attributes of a `ConvexPolyhedron`; `Coherent` says every cached
  field equals its recomputation from the current vertices.  The mutators modelled are
  `_rescale` (reached by the volume, surface-area and every `*_radius` setter) and the centroid
  setter, in the statement order of the Python.  `coherent_history` lifts the one-step lemmas to
  every operation sequence, of any length.  The extension at the end of the file
  (`Model/Mutable2.lean`) adds `diagonalize_inertia` and `to_hoomd` (`coherent_history2`) and the
  state machines of `Polyhedron` (`ph_coherent_history`), `Polygon`/`ConvexPolygon` (`pg_history`),
  `ConvexSpheropolygon` (`spg_history`) and `ConvexSpheropolyhedron` (`sph_history`).
  The deepening part at the end (`Model/Mutable3.lean`) adds `merge_faces`, `sort_faces`, the cached
  `edges`, `_neighbors`, `_simplex_areas`, `_face_centroids` (`phf_coherent_history`, `cpf_history`,
  `phf_getters_fresh`) and the unconditional `Polyhedron` theorem `ph_coherent_history`.
-/
open Scalar Mut
set_option maxRecDepth 4000
noncomputable section

theorem rescale_tris (s : CPState ℝ) (k : ℝ) :
    (s.rescale k).tris = s.tris.map (Tri.map (V3.smul k)) := by
  unfold CPState.rescale CPState.tris; exact trisOf_map_smul k s.verts s.simplices

/-- **one step: `_rescale(k)`, `k > 0`, keeps every cache coherent.** -/
theorem rescale_coherent (s : CPState ℝ) {k : ℝ} (hk : 0 < k) (h : s.Coherent) :
    (s.rescale k).Coherent := by
  obtain ⟨hv, ha, _, heq, hseq⟩ := h
  have ht := rescale_tris s k
  refine ⟨?_, ?_, ?_, ?_, ?_⟩
  · rw [ht, volume_smul hk, ← hv]; rfl
  · rw [ht, surfaceArea_smul hk, ← ha]; rfl
  · rfl
  · show (s.eqN, s.eqD.map (· * k)) = CPState.findEquations (s.verts.map (V3.smul k)) s.faceHead
    unfold CPState.findEquations at heq ⊢
    simp only [Prod.mk.injEq, List.map_map] at heq ⊢
    obtain ⟨h1, h2⟩ := heq
    constructor
    · rw [h1]; apply List.map_congr_left; intro f _
      simp only [Function.comp, vget_map_smul, faceEquation_smul hk]
    · rw [h2, List.map_map]; apply List.map_congr_left; intro f _
      simp only [Function.comp, vget_map_smul, faceEquation_smul hk]
  · show (s.seqN, s.seqD.map (· * k)) = CPState.findSimplexEquations (s.rescale k).tris
    rw [ht]
    unfold CPState.findSimplexEquations at hseq ⊢
    simp only [Prod.mk.injEq, List.map_map] at hseq ⊢
    obtain ⟨h1, h2⟩ := hseq
    constructor
    · rw [h1]; apply List.map_congr_left; intro t _
      simp only [Function.comp, simplexNormal_smul hk]
    · rw [h2, List.map_map]; apply List.map_congr_left; intro t _
      have hn := simplexNormal_smul hk t
      simp only [Function.comp]
      rw [hn]
      simp only [Tri.map, V3.dot, V3.smul_x, V3.smul_y, V3.smul_z]
      ring

/-- the surface is the boundary chain of some tetrahedralised solid -/
def Closed (s : CPState ℝ) : Prop := ∃ Ts : List (Tet ℝ), ChainEq s.tris (Ts.flatMap Tet.bdry)

theorem setCentroid_tris (s : CPState ℝ) (c : V3 ℝ) (hr : InRange s.verts.length s.simplices) :
    (s.setCentroid c).tris = s.tris.map (Tri.map (· + (c - s.centroid))) := by
  unfold CPState.setCentroid CPState.tris; exact trisOf_map_add _ s.verts s.simplices hr

theorem signedVolume_translate_closed {S : List (Tri ℝ)} (hc : ∃ Ts : List (Tet ℝ), ChainEq S (Ts.flatMap Tet.bdry))
    (d : V3 ℝ) : CP.signedVolume (S.map (Tri.map (· + d))) = CP.signedVolume S := by
  obtain ⟨Ts, h⟩ := hc
  have hch := ChainEq.map (· + d) h
  rw [← flatMap_bdry_map] at hch
  rw [signedVolume_chain hch, signedVolume_chain h]
  have : (fun x : V3 ℝ => x + d) = (fun x => x - (-d)) := by
    funext x; cases x; cases d; ext <;> simp
  rw [this, vol_translate]

/-- **one step: the centroid setter keeps every cache coherent** — for a closed surface (the
volume stored before the move is the one the new centroid is computed with: correct because the
signed volume of a closed surface is translation invariant). -/
theorem setCentroid_coherent (s : CPState ℝ) (c : V3 ℝ) (h : s.Coherent)
    (hr : InRange s.verts.length s.simplices) (hc : Closed s) : (s.setCentroid c).Coherent := by
  obtain ⟨hv, ha, _, _, _⟩ := h
  have ht := setCentroid_tris s c hr
  have hvol : CP.volume (s.setCentroid c).tris = s.volume := by
    rw [ht, hv]; unfold CP.volume; rw [signedVolume_translate_closed hc]
  refine ⟨?_, ?_, ?_, ?_, ?_⟩
  · rfl
  · rw [ht, surfaceArea_translate, ← ha]; rfl
  · show CP.centroid (trisOf _ s.simplices) s.volume = CP.centroid (s.setCentroid c).tris (s.setCentroid c).volume
    have : (s.setCentroid c).volume = s.volume := hvol
    rw [this]; rfl
  · rfl
  · rfl

/-! ### histories -/

inductive Op where
  | setVolume (v : ℝ)
  | setSurfaceArea (v : ℝ)
  | setRadius (current v : ℝ)
  | setCentroid (c : V3 ℝ)

def step (s : CPState ℝ) : Op → Except String (CPState ℝ)
  | .setVolume v => s.setVolume v
  | .setSurfaceArea v => s.setSurfaceArea v
  | .setRadius cur v => s.setRadius cur v
  | .setCentroid c => .ok (s.setCentroid c)

/-- an operation that raises leaves the shape as it was -/
def apply (s : CPState ℝ) (op : Op) : CPState ℝ :=
  match step s op with
  | .ok s' => s'
  | .error _ => s

def run (s : CPState ℝ) (ops : List Op) : CPState ℝ := ops.foldl apply s

/-- a radius getter returns a positive number -/
def Op.Valid : Op → Prop
  | .setRadius cur _ => 0 < cur
  | _ => True

structure CPInv (s : CPState ℝ) : Prop where
  coh : s.Coherent
  vol : 0 < s.volume
  area : 0 < s.area
  rng : InRange s.verts.length s.simplices
  closed : Closed s

theorem rescale_inv (s : CPState ℝ) {k : ℝ} (hk : 0 < k) (h : CPInv s) : CPInv (s.rescale k) := by
  refine ⟨rescale_coherent s hk h.coh, ?_, ?_, ?_, ?_⟩
  · show 0 < s.volume * (k * k * k); have := h.vol; positivity
  · show 0 < s.area * (k * k); have := h.area; positivity
  · show InRange (s.verts.map (V3.smul k)).length s.simplices
    simpa using h.rng
  · obtain ⟨Ts, hT⟩ := h.closed
    refine ⟨Ts.map (Tet.map (V3.smul k)), ?_⟩
    rw [rescale_tris, flatMap_bdry_map]; exact ChainEq.map _ hT

theorem setterFactor_pos {deg : Nat} {cur tgt k : ℝ} (hcur : 0 < cur)
    (h : setterFactor deg cur tgt = .ok k) : 0 < k := by
  unfold setterFactor at h
  by_cases ht : (lit 0 : ℝ) < tgt
  · have ht' : (0:ℝ) < tgt := by simpa [Scalar.lit] using ht
    have hq : 0 < tgt / cur := div_pos ht' hcur
    simp only [ht, not_true_eq_false, if_false] at h
    split_ifs at h <;> injection h with h <;> subst h
    · exact cbrt_pos hq
    · exact Real.sqrt_pos.mpr hq
    · exact hq
  · rw [if_pos ht] at h; cases h

theorem apply_inv (s : CPState ℝ) (op : Op) (hop : op.Valid) (h : CPInv s) : CPInv (apply s op) := by
  unfold apply step
  cases op with
  | setVolume v =>
    simp only [CPState.setVolume]
    cases hk : setterFactor 3 s.volume v with
    | error e => simpa [hk, bind, Except.bind] using h
    | ok k => simpa [hk, bind, Except.bind, pure, Except.pure] using rescale_inv s (setterFactor_pos h.vol hk) h
  | setSurfaceArea v =>
    simp only [CPState.setSurfaceArea]
    cases hk : setterFactor 2 s.area v with
    | error e => simpa [hk, bind, Except.bind] using h
    | ok k => simpa [hk, bind, Except.bind, pure, Except.pure] using rescale_inv s (setterFactor_pos h.area hk) h
  | setRadius cur v =>
    simp only [CPState.setRadius]
    cases hk : setterFactor 1 cur v with
    | error e => simpa [hk, bind, Except.bind] using h
    | ok k => simpa [hk, bind, Except.bind, pure, Except.pure] using rescale_inv s (setterFactor_pos hop hk) h
  | setCentroid c =>
    simp only
    have hco := setCentroid_coherent s c h.coh h.rng h.closed
    have ht := setCentroid_tris s c h.rng
    refine ⟨hco, ?_, h.area, ?_, ?_⟩
    · have hvol : (s.setCentroid c).volume = s.volume := by
        rw [hco.1, ht, h.coh.1]; unfold CP.volume; rw [signedVolume_translate_closed h.closed]
      rw [hvol]; exact h.vol
    · show InRange (s.verts.map (· + (c - s.centroid))).length s.simplices
      simpa using h.rng
    · obtain ⟨Ts, hT⟩ := h.closed
      refine ⟨Ts.map (Tet.map (· + (c - s.centroid))), ?_⟩
      rw [ht, flatMap_bdry_map]; exact ChainEq.map _ hT

/-- **C03 (ConvexPolyhedron core): every history of size/centre mutations, of any length, keeps
volume, area, centroid, face equations and simplex equations equal to what a fresh computation
from the current vertices gives.** -/
theorem coherent_history (s : CPState ℝ) (ops : List Op) (hops : ∀ op ∈ ops, op.Valid) (h : CPInv s) :
    CPInv (run s ops) := by
  unfold run
  induction ops generalizing s with
  | nil => simpa using h
  | cons op ops ih =>
    simp only [List.foldl_cons]
    exact ih (apply s op) (fun o ho => hops o (List.mem_cons_of_mem _ ho))
      (apply_inv s op (hops op List.mem_cons_self) h)

/-- an operation that raises leaves the state untouched (by construction of `apply`) -/
theorem error_leaves_state (s : CPState ℝ) (op : Op) (e : String) (h : step s op = .error e) :
    apply s op = s := by unfold apply; rw [h]

/-- bad targets raise -/
theorem bad_target_raises (s : CPState ℝ) {v : ℝ} (hv : ¬ 0 < v) :
    step s (.setVolume v) = .error "ValueError" ∧ step s (.setSurfaceArea v) = .error "ValueError" := by
  have h0 : ¬ (lit 0 : ℝ) < v := by simpa [Scalar.lit] using hv
  constructor
  · show (s.setVolume v) = _
    unfold CPState.setVolume setterFactor; rw [if_pos h0]; rfl
  · show (s.setSurfaceArea v) = _
    unfold CPState.setSurfaceArea setterFactor; rw [if_pos h0]; rfl

end

/-! ### non-vacuity: the unit corner tetrahedron, with caches filled by recomputation -/
noncomputable section

def exVerts : List (V3 ℝ) := [⟨0,0,0⟩, ⟨1,0,0⟩, ⟨0,1,0⟩, ⟨0,0,1⟩]
def exSimp : List (Nat × Nat × Nat) := [(0,2,1), (0,1,3), (1,2,3), (0,3,2)]

def exState : CPState ℝ :=
  let S := trisOf exVerts exSimp
  let eq := CPState.findEquations exVerts exSimp
  let seq := CPState.findSimplexEquations S
  ⟨exVerts, exSimp, exSimp, eq.1, eq.2, seq.1, seq.2, CP.volume S, CP.surfaceArea S,
    CP.centroid S (CP.volume S)⟩

theorem exState_tris : exState.tris = (Tet.bdry ⟨⟨0,0,0⟩, ⟨1,0,0⟩, ⟨0,1,0⟩, ⟨0,0,1⟩⟩ : List (Tri ℝ)) := by
  simp [exState, CPState.tris, trisOf, exVerts, exSimp, vget, Tet.bdry]

theorem exState_inv : CPInv exState := by
  refine ⟨⟨rfl, rfl, rfl, rfl, rfl⟩, ?_, ?_, ?_, ?_⟩
  · show 0 < CP.volume exState.tris
    rw [exState_tris]; unfold CP.volume CP.signedVolume Tet.bdry; unfold_model; norm_num
  · show 0 < CP.surfaceArea exState.tris
    rw [exState_tris]; unfold CP.surfaceArea Tet.bdry
    simp only [Scalar.sum_real, List.map_cons, List.map_nil, List.sum_cons, List.sum_nil]
    have hpos : ∀ t : Tri ℝ, 0 ≤ CP.triArea t := by
      intro t; unfold CP.triArea V3.norm
      simp only [Scalar.sqrt_real, Scalar.lit, Scalar.ofNat_real]
      positivity
    have h1 : 0 < CP.triArea (⟨⟨0,0,0⟩, ⟨0,1,0⟩, ⟨1,0,0⟩⟩ : Tri ℝ) := by
      unfold CP.triArea V3.norm; unfold_model
      simp only [Scalar.sqrt_real]; norm_num
    have := hpos ⟨⟨0,0,0⟩, ⟨1,0,0⟩, ⟨0,0,1⟩⟩
    have := hpos ⟨⟨1,0,0⟩, ⟨0,1,0⟩, ⟨0,0,1⟩⟩
    have := hpos ⟨⟨0,0,0⟩, ⟨0,0,1⟩, ⟨0,1,0⟩⟩
    linarith
  · intro s hs
    simp [exState, exSimp] at hs
    rcases hs with rfl | rfl | rfl | rfl <;> simp [exState, exVerts]
  · exact ⟨[⟨⟨0,0,0⟩, ⟨1,0,0⟩, ⟨0,1,0⟩, ⟨0,0,1⟩⟩], by rw [exState_tris]; simpa using ChainEq.refl _⟩

end

example : CPInv exState := exState_inv

/-!
  ## Extension: `diagonalize_inertia`, `to_hoomd`, and the other vertex classes

  (`Model/Mutable2.lean`.)  External inputs of the steps: the `eigh` eigenvector matrix, the
  re-oriented simplices (`SortContract`), and getter values that are not closed forms of the model.
-/
noncomputable section

/-! ### rigid motions of a vertex list by `np.dot(vertices, Q)` -/

/-- **rigid**: for `QᵀQ = 1` all distances between vertices are preserved -/
theorem rowMul_rigid {Q : M3 ℝ} (hQ : IsOrth Q) (vs : List (V3 ℝ)) (i j : Nat) :
    V3.norm (vget (vs.map (rowMul · Q)) i - vget (vs.map (rowMul · Q)) j)
      = V3.norm (vget vs i - vget vs j) := by
  rw [vget_map_rowMul, vget_map_rowMul, rowMul_sub, hQ.norm_rowMul]

/-- the orientation determinant of any three edge vectors is multiplied by `det Q` -/
theorem rowMul_orientation (Q : M3 ℝ) (vs : List (V3 ℝ)) (a b c d : Nat) :
    let w := vs.map (rowMul · Q)
    V3.det3 (vget w b - vget w a) (vget w c - vget w a) (vget w d - vget w a)
      = mdet Q * V3.det3 (vget vs b - vget vs a) (vget vs c - vget vs a) (vget vs d - vget vs a) := by
  simp only [vget_map_rowMul, rowMul_sub, det3_rowMul]

/-- **never mirrors**: with `det Q = 1` the orientation of every vertex quadruple is preserved -/
theorem rowMul_never_mirrors {Q : M3 ℝ} (hdet : mdet Q = 1) (vs : List (V3 ℝ)) (a b c d : Nat) :
    let w := vs.map (rowMul · Q)
    V3.det3 (vget w b - vget w a) (vget w c - vget w a) (vget w d - vget w a)
      = V3.det3 (vget vs b - vget vs a) (vget vs c - vget vs a) (vget vs d - vget vs a) := by
  have := rowMul_orientation Q vs a b c d
  simp only [hdet, one_mul] at this; exact this

/-- without the handedness correction an `eigh` result of determinant −1 would mirror the shape -/
theorem rowMul_improper_mirrors {Q : M3 ℝ} (hdet : mdet Q = -1) (vs : List (V3 ℝ)) (a b c d : Nat) :
    let w := vs.map (rowMul · Q)
    V3.det3 (vget w b - vget w a) (vget w c - vget w a) (vget w d - vget w a)
      = -V3.det3 (vget vs b - vget vs a) (vget vs c - vget vs a) (vget vs d - vget vs a) := by
  have := rowMul_orientation Q vs a b c d
  simp only [hdet, neg_one_mul] at this; exact this

/-- **handedness correction**: negating the first column negates the determinant, … -/
theorem handedness_negates (Q : M3 ℝ) : mdet (negCol0 Q) = -mdet Q := mdet_negCol0 Q

/-- … so the matrix `diagonalize_inertia` uses is a proper rotation (`QᵀQ = 1`, `det Q = 1`)
whatever the handedness of the orthogonal `eigh` result. -/
theorem fixHanded_proper {P : M3 ℝ} (hP : IsOrth P) : IsOrth (fixHanded P) ∧ mdet (fixHanded P) = 1 :=
  ⟨isOrth_fixHanded hP, mdet_fixHanded hP.det_pm⟩

/-- **`diagonalize_inertia` (ConvexPolyhedron) is rigid and never mirrors**, for any orthogonal
eigenvector matrix of either handedness and whatever `_sort_simplices` does to the simplices. -/
theorem diagonalizeInertia_rigid_proper (s : CPState ℝ) {P : M3 ℝ} (hP : IsOrth P)
    (simp' : List (Nat × Nat × Nat)) :
    let w := (s.diagonalizeInertia P simp').verts
    (∀ i j, V3.norm (vget w i - vget w j) = V3.norm (vget s.verts i - vget s.verts j)) ∧
    (∀ a b c d, V3.det3 (vget w b - vget w a) (vget w c - vget w a) (vget w d - vget w a)
      = V3.det3 (vget s.verts b - vget s.verts a) (vget s.verts c - vget s.verts a)
          (vget s.verts d - vget s.verts a)) := by
  obtain ⟨ho, hd⟩ := fixHanded_proper hP
  exact ⟨fun i j => rowMul_rigid ho s.verts i j, fun a b c d => rowMul_never_mirrors hd s.verts a b c d⟩

/-! ### coherence of `diagonalize_inertia` -/

theorem rotate_tris (s : CPState ℝ) (Q : M3 ℝ) (simp' : List (Nat × Nat × Nat)) :
    (s.rotate Q simp').tris = trisOf (s.verts.map (rowMul · Q)) simp' := rfl

/-- the triangles after the step, as a 2-chain: the rotated old surface or its reverse -/
theorem rotate_chain (s : CPState ℝ) (Q : M3 ℝ) {simp' : List (Nat × Nat × Nat)}
    (hc : SortContract (s.verts.map (rowMul · Q)) s.simplices simp') :
    ChainEq (s.rotate Q simp').tris (s.tris.map (Tri.map (rowMul · Q))) ∨
    ChainEq (s.rotate Q simp').tris ((s.tris.map (Tri.map (rowMul · Q))).map Tri.rev) := by
  rw [rotate_tris]
  unfold CPState.tris
  rw [← trisOf_map_rowMul]
  rcases hc.orient with h | h
  · exact Or.inl (chainEq_even _ h)
  · exact Or.inr (chainEq_odd _ h)

theorem rotate_signedVolume (s : CPState ℝ) {Q : M3 ℝ} (hQ : IsOrth Q) {simp' : List (Nat × Nat × Nat)}
    (hc : SortContract (s.verts.map (rowMul · Q)) s.simplices simp') :
    |CP.signedVolume (s.rotate Q simp').tris| = |CP.signedVolume s.tris| := by
  have hd : |mdet Q| = 1 := by rcases hQ.det_pm with h | h <;> rw [h] <;> simp
  rcases rotate_chain s Q hc with h | h
  · rw [signedVolume_chainEq h, signedVolume_rowMul, abs_mul, hd, one_mul]
  · rw [signedVolume_chainEq h, signedVolume_map_rev, signedVolume_rowMul, abs_neg, abs_mul, hd, one_mul]

/-- **one step: `diagonalize_inertia` keeps every cache coherent** — the recomputed ones by
construction of the step, the surface area (which the method does not recompute) because a
rotation and a re-orientation of triangles preserve it. -/
theorem rotate_coherent (s : CPState ℝ) {Q : M3 ℝ} (hQ : IsOrth Q) {simp' : List (Nat × Nat × Nat)}
    (hc : SortContract (s.verts.map (rowMul · Q)) s.simplices simp') (h : s.Coherent) :
    (s.rotate Q simp').Coherent := by
  obtain ⟨_, ha, _, _, _⟩ := h
  refine ⟨rfl, ?_, rfl, rfl, rfl⟩
  show s.area = CP.surfaceArea (s.rotate Q simp').tris
  rw [rotate_tris, surfaceArea_reorient _ hc.orient, trisOf_map_rowMul, surfaceArea_rowMul hQ, ha]; rfl

/-- positively oriented closed surface: the invariant of `coherent_history` plus the outward
orientation `_sort_simplices` establishes -/
structure CPInv2 (s : CPState ℝ) : Prop where
  inv : CPInv s
  orient : 0 ≤ CP.signedVolume s.tris

theorem CPInv2.vol_eq {s : CPState ℝ} (h : CPInv2 s) : s.volume = CP.signedVolume s.tris := by
  rw [h.inv.coh.1]; unfold CP.volume; simp only [Scalar.abs_real]; exact abs_of_nonneg h.orient

theorem rotate_inv (s : CPState ℝ) {Q : M3 ℝ} (hQ : IsOrth Q) {simp' : List (Nat × Nat × Nat)}
    (hc : SortContract (s.verts.map (rowMul · Q)) s.simplices simp') (h : CPInv2 s) :
    CPInv2 (s.rotate Q simp') := by
  have hvol : (s.rotate Q simp').volume = s.volume := by
    show CP.volume (s.rotate Q simp').tris = s.volume
    rw [h.inv.coh.1]; unfold CP.volume; simp only [Scalar.abs_real]
    exact rotate_signedVolume s hQ hc
  refine ⟨⟨rotate_coherent s hQ hc h.inv.coh, ?_, h.inv.area, ?_, ?_⟩, hc.nonneg⟩
  · rw [hvol]; exact h.inv.vol
  · show InRange (s.verts.map (rowMul · Q)).length simp'
    rw [List.length_map]; exact inRange_reorient hc.orient h.inv.rng
  · obtain ⟨Ts, hT⟩ := h.inv.closed
    have hrot : ∃ Ts' : List (Tet ℝ), ChainEq (s.tris.map (Tri.map (rowMul · Q))) (Ts'.flatMap Tet.bdry) :=
      ⟨Ts.map (Tet.map (rowMul · Q)), by rw [flatMap_bdry_map]; exact ChainEq.map _ hT⟩
    rcases rotate_chain s Q hc with hch | hch
    · obtain ⟨Ts', hT'⟩ := hrot
      exact ⟨Ts', hch.trans hT'⟩
    · obtain ⟨Ts', hT'⟩ := closed_rev hrot
      exact ⟨Ts', hch.trans hT'⟩

/-- leaving the index triples as they are satisfies the contract of `_sort_simplices` for a proper
rotation of an outward oriented surface (the contract is satisfiable) -/
theorem sortContract_same (s : CPState ℝ) {Q : M3 ℝ} (hdet : mdet Q = 1) (h : 0 ≤ CP.signedVolume s.tris) :
    SortContract (s.verts.map (rowMul · Q)) s.simplices s.simplices := by
  refine ⟨Or.inl (forall₂_even_refl _), ?_⟩
  rw [trisOf_map_rowMul, signedVolume_rowMul, hdet, one_mul]; exact h

/-! ### `to_hoomd` (ConvexPolyhedron): centre, read, move back -/

theorem setCentroid_volume (s : CPState ℝ) (c : V3 ℝ) (h : CPInv s) : (s.setCentroid c).volume = s.volume := by
  show CP.volume (s.setCentroid c).tris = s.volume
  rw [setCentroid_tris s c h.rng, h.coh.1]; unfold CP.volume; rw [signedVolume_translate_closed h.closed]

/-- the centroid setter reads back: the cached centroid after `centroid = c` is `c` -/
theorem setCentroid_reads_back (s : CPState ℝ) (c : V3 ℝ) (h : CPInv2 s) : (s.setCentroid c).centroid = c := by
  show CP.centroid (trisOf (s.verts.map (· + (c - s.centroid))) s.simplices) s.volume = c
  rw [trisOf_map_add _ _ _ h.inv.rng]
  have hV := h.vol_eq
  have ht := centroid_translate_closed (S := s.tris) h.inv.closed (c - s.centroid) hV h.inv.vol.ne'
  rw [← h.inv.coh.2.2.1] at ht
  unfold CPState.tris at ht
  rw [ht]
  cases c; cases s.centroid; ext <;> simp

/-- if moving `s1` to centroid `c` lands on the vertices of a coherent `s` with the same
combinatorics, area and volume, the result is `s` -/
theorem setCentroid_eq_of (s1 s : CPState ℝ) (c : V3 ℝ)
    (hverts : s1.verts.map (· + (c - s1.centroid)) = s.verts) (hsimp : s1.simplices = s.simplices)
    (hfh : s1.faceHead = s.faceHead) (harea : s1.area = s.area) (hvol : s1.volume = s.volume)
    (hcoh : s.Coherent) : s1.setCentroid c = s := by
  obtain ⟨hv, _, hcen, heq, hseq⟩ := hcoh
  obtain ⟨verts, simplices, faceHead, eqN, eqD, seqN, seqD, volume, area, centroid⟩ := s
  obtain ⟨verts1, simplices1, faceHead1, eqN1, eqD1, seqN1, seqD1, volume1, area1, centroid1⟩ := s1
  simp only at hverts hsimp hfh harea hvol
  subst hsimp hfh harea hvol
  simp only [CPState.tris] at hv hcen heq hseq
  have e1 := congrArg Prod.fst heq
  have e2 := congrArg Prod.snd heq
  have e3 := congrArg Prod.fst hseq
  have e4 := congrArg Prod.snd hseq
  simp only at e1 e2 e3 e4
  simp only [CPState.setCentroid, hverts, CPState.mk.injEq, true_and]
  refine ⟨e1.symm, e2.symm, e3.symm, e4.symm, hv.symm, hcen.symm⟩

/-- **`to_hoomd` leaves the object exactly as it was** (over ℝ: `v − c + c = v`, and every cache
is recomputed from the restored vertices), **and hands out the centred vertices `v − c`**, with
centroid `0` and the unchanged volume. -/
theorem toHoomd_restores (s : CPState ℝ) (h : CPInv2 s) :
    s.toHoomd.2 = s ∧ s.toHoomd.1.vertices = s.verts.map (· + (V3.zero - s.centroid)) ∧
    s.toHoomd.1.centroid = V3.zero ∧ s.toHoomd.1.volume = s.volume := by
  have hc1 := setCentroid_reads_back s V3.zero h
  have hv1 := setCentroid_volume s V3.zero h.inv
  refine ⟨?_, rfl, hc1, hv1⟩
  show (s.setCentroid V3.zero).setCentroid s.centroid = s
  refine setCentroid_eq_of (s.setCentroid V3.zero) s s.centroid ?_ rfl rfl rfl hv1 h.inv.coh
  rw [hc1]
  show (s.verts.map (· + (V3.zero - s.centroid))).map (· + (s.centroid - V3.zero)) = s.verts
  rw [List.map_map]
  conv_rhs => rw [← List.map_id s.verts]
  apply List.map_congr_left
  intro v _
  exact v3_add_sub_cancel v s.centroid

/-! ### all ConvexPolyhedron mutators in one `Op2` type -/

inductive Op2 where
  | base (op : Op)
  | diagonalize (P : M3 ℝ) (simp' : List (Nat × Nat × Nat))
  | toHoomd

def step2 (s : CPState ℝ) : Op2 → Except String (CPState ℝ)
  | .base op => step s op
  | .diagonalize P simp' => .ok (s.diagonalizeInertia P simp')
  | .toHoomd => .ok s.toHoomd.2

def apply2 (s : CPState ℝ) (op : Op2) : CPState ℝ :=
  match step2 s op with
  | .ok s' => s'
  | .error _ => s

def run2 (s : CPState ℝ) (ops : List Op2) : CPState ℝ := ops.foldl apply2 s

/-- what is assumed of the external inputs of an operation, in the state it is applied to -/
def Op2.ValidAt (s : CPState ℝ) : Op2 → Prop
  | .base op => op.Valid
  | .diagonalize P simp' =>
      IsOrth P ∧ SortContract (s.verts.map (rowMul · (fixHanded P))) s.simplices simp'
  | .toHoomd => True

def ValidRun2 : CPState ℝ → List Op2 → Prop
  | _, [] => True
  | s, op :: ops => op.ValidAt s ∧ ValidRun2 (apply2 s op) ops

theorem apply2_base (s : CPState ℝ) (op : Op) : apply2 s (.base op) = apply s op := rfl

theorem rescale_orient (s : CPState ℝ) {k : ℝ} (hk : 0 < k) (h : 0 ≤ CP.signedVolume s.tris) :
    0 ≤ CP.signedVolume (s.rescale k).tris := by
  rw [rescale_tris, signedVolume_smul]; positivity

theorem apply_orient (s : CPState ℝ) (op : Op) (hop : op.Valid) (h : CPInv2 s) :
    0 ≤ CP.signedVolume (apply s op).tris := by
  unfold apply step
  cases op with
  | setVolume v =>
    simp only [CPState.setVolume]
    cases hk : setterFactor 3 s.volume v with
    | error e => simpa [hk, bind, Except.bind] using h.orient
    | ok k => simpa [hk, bind, Except.bind, pure, Except.pure] using
        rescale_orient s (setterFactor_pos h.inv.vol hk) h.orient
  | setSurfaceArea v =>
    simp only [CPState.setSurfaceArea]
    cases hk : setterFactor 2 s.area v with
    | error e => simpa [hk, bind, Except.bind] using h.orient
    | ok k => simpa [hk, bind, Except.bind, pure, Except.pure] using
        rescale_orient s (setterFactor_pos h.inv.area hk) h.orient
  | setRadius cur v =>
    simp only [CPState.setRadius]
    cases hk : setterFactor 1 cur v with
    | error e => simpa [hk, bind, Except.bind] using h.orient
    | ok k => simpa [hk, bind, Except.bind, pure, Except.pure] using
        rescale_orient s (setterFactor_pos hop hk) h.orient
  | setCentroid c =>
    simp only
    rw [setCentroid_tris s c h.inv.rng, signedVolume_translate_closed h.inv.closed]; exact h.orient

theorem apply2_inv (s : CPState ℝ) (op : Op2) (hop : op.ValidAt s) (h : CPInv2 s) : CPInv2 (apply2 s op) := by
  cases op with
  | base op => exact ⟨apply_inv s op hop h.inv, apply_orient s op hop h⟩
  | diagonalize P simp' =>
    obtain ⟨hP, hc⟩ := hop
    exact rotate_inv s (isOrth_fixHanded hP) hc h
  | toHoomd =>
    show CPInv2 s.toHoomd.2
    rw [(toHoomd_restores s h).1]; exact h

/-- **C03 (ConvexPolyhedron, all modelled mutators): every history of size / centre assignments,
`diagonalize_inertia` and `to_hoomd` calls, of any length, keeps volume, area, centroid, face
equations and simplex equations equal to their recomputation from the current vertices** (and
the surface closed, outward oriented, indices in range). -/
theorem coherent_history2 (s : CPState ℝ) (ops : List Op2) (h : CPInv2 s) (hv : ValidRun2 s ops) :
    CPInv2 (run2 s ops) := by
  unfold run2
  induction ops generalizing s with
  | nil => simpa using h
  | cons op ops ih =>
    simp only [List.foldl_cons]
    exact ih (apply2 s op) (apply2_inv s op hv.1 h) hv.2

/-- an operation that raises leaves the state untouched (by construction of `apply2`) -/
theorem history2_error_leaves_state (s : CPState ℝ) (op : Op2) (e : String) (h : step2 s op = .error e) :
    apply2 s op = s := by unfold apply2; rw [h]

/-! ### Polyhedron -/

theorem ph_rescale_coherent (s : PHState ℝ) {k : ℝ} (hk : 0 < k) (h : s.Coherent) : (s.rescale k).Coherent := by
  unfold PHState.Coherent PHState.findEquations at h ⊢
  show (s.eqN, s.eqD.map (· * k)) = CPState.findEquations (s.verts.map (V3.smul k)) (faceHeads s.faces)
  rw [findEquations_smul hk, ← h]

/-- the centroid setter and `diagonalize_inertia` end with `_find_equations()`: coherent whatever
the state before was -/
theorem ph_setCentroid_coherent (s : PHState ℝ) (cur c : V3 ℝ) : (s.setCentroid cur c).Coherent := rfl
theorem ph_rotate_coherent (s : PHState ℝ) (Q : M3 ℝ) : (s.rotate Q).Coherent := rfl

/-- **`Polyhedron.diagonalize_inertia` is rigid and never mirrors** -/
theorem ph_diagonalizeInertia_rigid_proper (s : PHState ℝ) {P : M3 ℝ} (hP : IsOrth P) :
    let w := (s.diagonalizeInertia P).verts
    (∀ i j, V3.norm (vget w i - vget w j) = V3.norm (vget s.verts i - vget s.verts j)) ∧
    (∀ a b c d, V3.det3 (vget w b - vget w a) (vget w c - vget w a) (vget w d - vget w a)
      = V3.det3 (vget s.verts b - vget s.verts a) (vget s.verts c - vget s.verts a)
          (vget s.verts d - vget s.verts a)) := by
  obtain ⟨ho, hd⟩ := fixHanded_proper hP
  exact ⟨fun i j => rowMul_rigid ho s.verts i j, fun a b c d => rowMul_never_mirrors hd s.verts a b c d⟩

/-- **`Polyhedron.to_hoomd`**: when the centroid getter reads `0` on the centred shape, the state
after equals the state before, and the vertices handed out are `v − c`. -/
theorem ph_toHoomd_restores (s : PHState ℝ) (c0 : V3 ℝ) (h : s.Coherent) :
    (s.toHoomd c0 V3.zero).2 = s ∧ (s.toHoomd c0 V3.zero).1 = s.verts.map (· + (V3.zero - c0)) := by
  refine ⟨?_, rfl⟩
  unfold PHState.Coherent at h
  obtain ⟨verts, faces, eqN, eqD⟩ := s
  have e1 := congrArg Prod.fst h
  have e2 := congrArg Prod.snd h
  simp only at e1 e2
  simp only [PHState.toHoomd, PHState.setCentroid, map_add_cancel, PHState.mk.injEq, true_and]
  exact ⟨e1.symm, e2.symm⟩

/-- … which is what any translation-equivariant centroid functional (such as the exact centroid
the getter computes) yields. -/
theorem ph_toHoomd_restores_of_equivariant (cen : List (V3 ℝ) → V3 ℝ)
    (hcen : ∀ vs d, cen (vs.map (· + d)) = cen vs + d) (s : PHState ℝ) (h : s.Coherent) :
    (s.toHoomd (cen s.verts) (cen (s.setCentroid (cen s.verts) V3.zero).verts)).2 = s := by
  have : cen (s.setCentroid (cen s.verts) V3.zero).verts = V3.zero := by
    show cen (s.verts.map (· + (V3.zero - cen s.verts))) = V3.zero
    rw [hcen]; exact v3_zero_add_neg _
  rw [this]; exact (ph_toHoomd_restores s _ h).1

inductive PHOp where
  | setVolume (v : ℝ)
  | setSurfaceArea (v : ℝ)
  | setRadius (current v : ℝ)
  | setCentroid (current c : V3 ℝ)
  | diagonalize (P : M3 ℝ)
  | toHoomd (c0 c1 : V3 ℝ)

def phStep (s : PHState ℝ) : PHOp → Except String (PHState ℝ)
  | .setVolume v => s.setVolume v
  | .setSurfaceArea v => s.setSurfaceArea v
  | .setRadius cur v => s.setRadius cur v
  | .setCentroid cur c => .ok (s.setCentroid cur c)
  | .diagonalize P => .ok (s.diagonalizeInertia P)
  | .toHoomd c0 c1 => .ok (s.toHoomd c0 c1).2

def phApply (s : PHState ℝ) (op : PHOp) : PHState ℝ :=
  match phStep s op with
  | .ok s' => s'
  | .error _ => s

def phRun (s : PHState ℝ) (ops : List PHOp) : PHState ℝ := ops.foldl phApply s

/-- the getter a size setter divides by returns a positive number in the state it is used in -/
def PHOp.ValidAt (s : PHState ℝ) : PHOp → Prop
  | .setVolume _ => 0 < s.volume
  | .setSurfaceArea _ => 0 < s.surfaceArea
  | .setRadius cur _ => 0 < cur
  | _ => True

def PHValidRun : PHState ℝ → List PHOp → Prop
  | _, [] => True
  | s, op :: ops => op.ValidAt s ∧ PHValidRun (phApply s op) ops

theorem phApply_coherent (s : PHState ℝ) (op : PHOp) (hop : op.ValidAt s) (h : s.Coherent) :
    (phApply s op).Coherent := by
  unfold phApply phStep
  cases op with
  | setVolume v =>
    simp only [PHState.setVolume]
    cases hk : setterFactor 3 s.volume v with
    | error e => simpa [hk, bind, Except.bind] using h
    | ok k => simpa [hk, bind, Except.bind, pure, Except.pure] using
        ph_rescale_coherent s (setterFactor_pos hop hk) h
  | setSurfaceArea v =>
    simp only [PHState.setSurfaceArea]
    cases hk : setterFactor 2 s.surfaceArea v with
    | error e => simpa [hk, bind, Except.bind] using h
    | ok k => simpa [hk, bind, Except.bind, pure, Except.pure] using
        ph_rescale_coherent s (setterFactor_pos hop hk) h
  | setRadius cur v =>
    simp only [PHState.setRadius]
    cases hk : setterFactor 1 cur v with
    | error e => simpa [hk, bind, Except.bind] using h
    | ok k => simpa [hk, bind, Except.bind, pure, Except.pure] using
        ph_rescale_coherent s (setterFactor_pos hop hk) h
  | setCentroid cur c => exact ph_setCentroid_coherent s cur c
  | diagonalize P => exact ph_rotate_coherent s (fixHanded P)
  | toHoomd c0 c1 => exact ph_setCentroid_coherent _ c1 c0

/-- **C03 (Polyhedron): after every history of size / centre assignments, `diagonalize_inertia`
and `to_hoomd` calls, of any length, the stored plane equations are those of the current
vertices.** (`volume`, `surface_area`, centroid and inertia are computed on demand from vertices,
faces and these equations: nothing else can lag.)
PARTIAL: positivity of the getter a size setter divides by is a hypothesis on every step of the
run (`PHValidRun`), not an invariant derived from the initial state: that the on-demand volume
`Σ(−d)A/3` and area stay positive under the translations and rotations of a history needs
closedness of the face polygons and the rotation law of the projected shoelace area, which are
not part of this state machine (for `ConvexPolyhedron`, `Polygon` and the spheropolytopes the
corresponding history theorems carry positivity as an invariant). -/
theorem ph_coherent_history_partial (s : PHState ℝ) (ops : List PHOp) (h : s.Coherent) (hv : PHValidRun s ops) :
    (phRun s ops).Coherent := by
  unfold phRun
  induction ops generalizing s with
  | nil => simpa using h
  | cons op ops ih =>
    simp only [List.foldl_cons]
    exact ih (phApply s op) (phApply_coherent s op hv.1 h) hv.2

/-- no modelled Polyhedron mutator touches the faces -/
theorem ph_faces_history (s : PHState ℝ) (ops : List PHOp) : (phRun s ops).faces = s.faces := by
  unfold phRun
  induction ops generalizing s with
  | nil => rfl
  | cons op ops ih =>
    simp only [List.foldl_cons]
    rw [ih]
    unfold phApply phStep
    cases op with
    | setVolume v =>
      simp only [PHState.setVolume]
      cases hk : setterFactor 3 s.volume v <;> simp [bind, Except.bind, pure, Except.pure, PHState.rescale]
    | setSurfaceArea v =>
      simp only [PHState.setSurfaceArea]
      cases hk : setterFactor 2 s.surfaceArea v <;> simp [bind, Except.bind, pure, Except.pure, PHState.rescale]
    | setRadius cur v =>
      simp only [PHState.setRadius]
      cases hk : setterFactor 1 cur v <;> simp [bind, Except.bind, pure, Except.pure, PHState.rescale]
    | setCentroid cur c => rfl
    | diagonalize P => rfl
    | toHoomd c0 c1 => rfl

/-! ### Polygon / ConvexPolygon -/

/-- the stored normal is perpendicular to every chord of the vertex set -/
def Mut.PGState.Planar (s : PGState ℝ) : Prop := ∀ v ∈ s.verts, ∀ w ∈ s.verts, V3.dot s.normal (v - w) = 0

theorem pg_rescale_planar (s : PGState ℝ) (k : ℝ) (h : s.Planar) : (s.rescale k).Planar := by
  intro v hv w hw
  obtain ⟨v0, hv0, rfl⟩ := List.mem_map.mp hv
  obtain ⟨w0, hw0, rfl⟩ := List.mem_map.mp hw
  have := h v0 hv0 w0 hw0
  show V3.dot s.normal (V3.smul k v0 - V3.smul k w0) = 0
  rw [v3smul_sub]
  simp only [V3.dot, V3.smul_x, V3.smul_y, V3.smul_z] at this ⊢
  linear_combination k * this

theorem pg_setCentroid_planar (s : PGState ℝ) (cur c : V3 ℝ) (h : s.Planar) : (s.setCentroid cur c).Planar := by
  intro v hv w hw
  obtain ⟨v0, hv0, rfl⟩ := List.mem_map.mp hv
  obtain ⟨w0, hw0, rfl⟩ := List.mem_map.mp hw
  have := h v0 hv0 w0 hw0
  show V3.dot s.normal (v0 + (c - cur) - (w0 + (c - cur))) = 0
  simp only [V3.dot, V3.sub_x, V3.sub_y, V3.sub_z, V3.add_x, V3.add_y, V3.add_z] at this ⊢
  linear_combination this

inductive PGOp where
  | setArea (v : ℝ)
  | setPerimeter (v : ℝ)
  | setRadius (current v : ℝ)
  | setCentroid (current c : V3 ℝ)
  | toHoomd (c0 c1 : V3 ℝ)

def pgStep (s : PGState ℝ) : PGOp → Except String (PGState ℝ)
  | .setArea v => s.setArea v
  | .setPerimeter v => s.setPerimeter v
  | .setRadius cur v => s.setRadius cur v
  | .setCentroid cur c => .ok (s.setCentroid cur c)
  | .toHoomd c0 c1 => .ok (s.toHoomd c0 c1).2

def pgApply (s : PGState ℝ) (op : PGOp) : PGState ℝ :=
  match pgStep s op with
  | .ok s' => s'
  | .error _ => s

def pgRun (s : PGState ℝ) (ops : List PGOp) : PGState ℝ := ops.foldl pgApply s

/-- what every Polygon mutator does: the vertices are moved by one map `v ↦ k·v + t` with
`k > 0` (or the state is untouched), the normal is kept -/
def PGSim (s s' : PGState ℝ) : Prop :=
  s'.normal = s.normal ∧ ∃ k : ℝ, ∃ t : V3 ℝ, 0 < k ∧ s'.verts = s.verts.map (fun v => V3.smul k v + t)

theorem pgSim_refl (s : PGState ℝ) : PGSim s s := by
  refine ⟨rfl, 1, V3.zero, one_pos, ?_⟩
  conv_lhs => rw [← List.map_id s.verts]
  apply List.map_congr_left
  intro v _; cases v; ext <;> simp

theorem pgSim_trans {a b c : PGState ℝ} (h1 : PGSim a b) (h2 : PGSim b c) : PGSim a c := by
  obtain ⟨n1, k1, t1, hk1, e1⟩ := h1
  obtain ⟨n2, k2, t2, hk2, e2⟩ := h2
  refine ⟨n2.trans n1, k2 * k1, V3.smul k2 t1 + t2, by positivity, ?_⟩
  rw [e2, e1, List.map_map]
  apply List.map_congr_left
  intro v _; cases v; cases t1; cases t2; ext <;> simp <;> ring

/-- a radius getter returns a positive number -/
def PGOp.Valid : PGOp → Prop
  | .setRadius cur _ => 0 < cur
  | _ => True

/-- the polygon lies in the plane of its stored normal and is not degenerate -/
structure PGInv (s : PGState ℝ) : Prop where
  planar : s.Planar
  area : 0 < s.area
  perimeter : 0 < s.perimeter

theorem pg_rescale_sim (s : PGState ℝ) {k : ℝ} (hk : 0 < k) : PGSim s (s.rescale k) := by
  refine ⟨rfl, k, V3.zero, hk, ?_⟩
  show s.verts.map (V3.smul k) = _
  apply List.map_congr_left
  intro v _; cases v; ext <;> simp

theorem pg_setCentroid_sim (s : PGState ℝ) (cur c : V3 ℝ) : PGSim s (s.setCentroid cur c) := by
  refine ⟨rfl, 1, c - cur, one_pos, ?_⟩
  show s.verts.map (· + (c - cur)) = _
  apply List.map_congr_left
  intro v _; cases v; ext <;> simp

theorem pg_rescale_inv (s : PGState ℝ) {k : ℝ} (hk : 0 < k) (h : PGInv s) : PGInv (s.rescale k) := by
  refine ⟨pg_rescale_planar s k h.planar, ?_, ?_⟩
  · show 0 < Poly2.area (s.verts.map (V3.smul k)) s.normal
    rw [area_smul]; have := h.area; unfold PGState.area at this; positivity
  · show 0 < Poly2.perimeter (s.verts.map (V3.smul k))
    rw [perimeter_smul hk.le]; have := h.perimeter; unfold PGState.perimeter at this; positivity

theorem pg_setCentroid_inv (s : PGState ℝ) (cur c : V3 ℝ) (h : PGInv s) : PGInv (s.setCentroid cur c) := by
  refine ⟨pg_setCentroid_planar s cur c h.planar, ?_, ?_⟩
  · show 0 < Poly2.area (s.verts.map (· + (c - cur))) s.normal
    rw [area_translate]; exact h.area
  · show 0 < Poly2.perimeter (s.verts.map (· + (c - cur)))
    rw [perimeter_translate]; exact h.perimeter

theorem pgApply_step (s : PGState ℝ) (op : PGOp) (hop : op.Valid) (h : PGInv s) :
    PGInv (pgApply s op) ∧ PGSim s (pgApply s op) := by
  unfold pgApply pgStep
  cases op with
  | setArea v =>
    simp only [PGState.setArea]
    cases hk : setterFactor 2 s.area v with
    | error e => simpa [hk, bind, Except.bind] using ⟨h, pgSim_refl s⟩
    | ok k =>
      have hk0 := setterFactor_pos h.area hk
      simpa [hk, bind, Except.bind, pure, Except.pure] using
        (⟨pg_rescale_inv s hk0 h, pg_rescale_sim s hk0⟩ : _ ∧ _)
  | setPerimeter v =>
    simp only [PGState.setPerimeter]
    cases hk : setterFactor 1 s.perimeter v with
    | error e => simpa [hk, bind, Except.bind] using ⟨h, pgSim_refl s⟩
    | ok k =>
      have hk0 := setterFactor_pos h.perimeter hk
      simpa [hk, bind, Except.bind, pure, Except.pure] using
        (⟨pg_rescale_inv s hk0 h, pg_rescale_sim s hk0⟩ : _ ∧ _)
  | setRadius cur v =>
    simp only [PGState.setRadius]
    cases hk : setterFactor 1 cur v with
    | error e => simpa [hk, bind, Except.bind] using ⟨h, pgSim_refl s⟩
    | ok k =>
      have hk0 := setterFactor_pos hop hk
      simpa [hk, bind, Except.bind, pure, Except.pure] using
        (⟨pg_rescale_inv s hk0 h, pg_rescale_sim s hk0⟩ : _ ∧ _)
  | setCentroid cur c => exact ⟨pg_setCentroid_inv s cur c h, pg_setCentroid_sim s cur c⟩
  | toHoomd c0 c1 =>
    exact ⟨pg_setCentroid_inv _ c1 c0 (pg_setCentroid_inv s c0 V3.zero h),
      pgSim_trans (pg_setCentroid_sim s c0 V3.zero) (pg_setCentroid_sim _ c1 c0)⟩

/-- **C03 / C08 (Polygon, ConvexPolygon): every history of mutations, of any length, is one
similarity `v ↦ k·v + t`, `k > 0`, of the vertex list; the stored normal is never touched and
stays perpendicular to the polygon; area and perimeter stay positive** — so a fresh polygon built
from the current vertices and the stored normal has the same plane; nothing else is stored. -/
theorem pg_history (s : PGState ℝ) (ops : List PGOp) (hops : ∀ op ∈ ops, op.Valid) (h : PGInv s) :
    PGInv (pgRun s ops) ∧ PGSim s (pgRun s ops) := by
  unfold pgRun
  induction ops generalizing s with
  | nil => exact ⟨h, pgSim_refl s⟩
  | cons op ops ih =>
    simp only [List.foldl_cons]
    obtain ⟨hp, hs⟩ := pgApply_step s op (hops op List.mem_cons_self) h
    obtain ⟨hp', hs'⟩ := ih (pgApply s op) (fun o ho => hops o (List.mem_cons_of_mem _ ho)) hp
    exact ⟨hp', pgSim_trans hs hs'⟩

/-- **`Polygon.to_hoomd`** restores the vertices exactly and hands out `v − c` -/
theorem pg_toHoomd_restores (s : PGState ℝ) (c0 : V3 ℝ) :
    (s.toHoomd c0 V3.zero).2 = s ∧ (s.toHoomd c0 V3.zero).1 = s.verts.map (· + (V3.zero - c0)) := by
  refine ⟨?_, rfl⟩
  obtain ⟨verts, normal⟩ := s
  simp only [PGState.toHoomd, PGState.setCentroid, map_add_cancel]

/-! ### ConvexSpheropolygon -/

inductive SPGOp where
  | setRadius (v : ℝ)
  | setArea (v : ℝ)
  | setPerimeter (v : ℝ)
  | toHoomd (c0 c0' : V3 ℝ)

def spgStep (s : SPGState ℝ) : SPGOp → Except String (SPGState ℝ)
  | .setRadius v => s.setRadiusAbs v
  | .setArea v => s.setArea v
  | .setPerimeter v => s.setPerimeter v
  | .toHoomd c0 c0' => .ok (s.toHoomd c0 c0').2

def spgApply (s : SPGState ℝ) (op : SPGOp) : SPGState ℝ :=
  match spgStep s op with
  | .ok s' => s'
  | .error _ => s

def spgRun (s : SPGState ℝ) (ops : List SPGOp) : SPGState ℝ := ops.foldl spgApply s

/-- non-degenerate core polygon in the plane of its normal, non-negative rounding radius -/
structure SPGInv (s : SPGState ℝ) : Prop where
  core : PGInv s.core
  radius : 0 ≤ s.radius

theorem SPGInv.area_pos {s : SPGState ℝ} (h : SPGInv s) : 0 < s.area := spg_area_pos s h.core.area h.radius
theorem SPGInv.perimeter_pos {s : SPGState ℝ} (h : SPGInv s) : 0 < s.perimeter :=
  spg_perimeter_pos s h.core.perimeter h.radius

theorem spg_rescale_inv (s : SPGState ℝ) {k : ℝ} (hk : 0 < k) (h : SPGInv s) :
    SPGInv ⟨s.core.rescale k, s.radius * k⟩ :=
  ⟨pg_rescale_inv s.core hk h.core, mul_nonneg h.radius hk.le⟩

theorem spgApply_inv (s : SPGState ℝ) (op : SPGOp) (h : SPGInv s) : SPGInv (spgApply s op) := by
  unfold spgApply spgStep
  cases op with
  | setRadius v =>
    simp only
    by_cases hv : 0 ≤ v
    · rw [spg_setRadiusAbs_ok s hv]; exact ⟨h.core, hv⟩
    · rw [spg_setRadiusAbs_bad s hv]; exact h
  | setArea v =>
    simp only [SPGState.setArea]
    cases hk : setterFactor 2 s.area v with
    | error e => simpa [hk, bind, Except.bind] using h
    | ok k =>
      have hk0 := setterFactor_pos h.area_pos hk
      simpa [hk, bind, Except.bind, spg_rescale_ok s hk0.le h.radius] using spg_rescale_inv s hk0 h
  | setPerimeter v =>
    simp only [SPGState.setPerimeter]
    cases hk : setterFactor 1 s.perimeter v with
    | error e => simpa [hk, bind, Except.bind] using h
    | ok k =>
      have hk0 := setterFactor_pos h.perimeter_pos hk
      simpa [hk, bind, Except.bind, spg_rescale_ok s hk0.le h.radius] using spg_rescale_inv s hk0 h
  | toHoomd c0 c0' => exact ⟨pg_setCentroid_inv s.core c0' c0 h.core, h.radius⟩

/-- **C03 (ConvexSpheropolygon): every history of rounding-radius / area / perimeter assignments
and `to_hoomd` calls, of any length, keeps the rounding radius non-negative and the core polygon
non-degenerate in the plane of its stored normal** (the class stores nothing else); no hypothesis
on the operations: a size setter can only raise at its own guard, before anything is modified. -/
theorem spg_history (s : SPGState ℝ) (ops : List SPGOp) (h : SPGInv s) : SPGInv (spgRun s ops) := by
  unfold spgRun
  induction ops generalizing s with
  | nil => simpa using h
  | cons op ops ih =>
    simp only [List.foldl_cons]
    exact ih (spgApply s op) (spgApply_inv s op h)

/-- **`ConvexSpheropolygon.to_hoomd` as it is**: both reads of the core's centroid getter see the
same vertices, so the "move back" is the identity — the state is unchanged — but the vertices
handed out are the stored ones, NOT centred (known finding of C19; modelled as it is). -/
theorem spg_toHoomd_identity (s : SPGState ℝ) (c0 : V3 ℝ) :
    (s.toHoomd c0 c0).2 = s ∧ (s.toHoomd c0 c0).1 = s.core.verts := by
  refine ⟨?_, rfl⟩
  obtain ⟨⟨verts, normal⟩, radius⟩ := s
  simp only [SPGState.toHoomd, PGState.setCentroid, SPGState.mk.injEq, PGState.mk.injEq, and_true]
  conv_rhs => rw [← List.map_id verts]
  apply List.map_congr_left
  intro v _
  exact v3_add_self_sub v c0

/-! ### ConvexSpheropolyhedron -/

inductive SPHOp where
  | setRadius (v : ℝ)
  | setSize (degree : Nat) (current v : ℝ)
  | toHoomd

def sphStep (s : SPHState ℝ) : SPHOp → Except String (SPHState ℝ)
  | .setRadius v => s.setRadiusAbs v
  | .setSize deg cur v => s.setSize deg cur v
  | .toHoomd => .ok s.toHoomd.2

def sphApply (s : SPHState ℝ) (op : SPHOp) : SPHState ℝ :=
  match sphStep s op with
  | .ok s' => s'
  | .error _ => s

def sphRun (s : SPHState ℝ) (ops : List SPHOp) : SPHState ℝ := ops.foldl sphApply s

structure SPHInv (s : SPHState ℝ) : Prop where
  core : CPInv2 s.core
  radius : 0 ≤ s.radius

def SPHOp.Valid : SPHOp → Prop
  | .setSize _ cur _ => 0 < cur
  | _ => True

theorem sphApply_inv (s : SPHState ℝ) (op : SPHOp) (hop : op.Valid) (h : SPHInv s) : SPHInv (sphApply s op) := by
  unfold sphApply sphStep
  cases op with
  | setRadius v =>
    simp only
    by_cases hv : 0 ≤ v
    · rw [sph_setRadiusAbs_ok s hv]; exact ⟨h.core, hv⟩
    · have : ¬ (lit 0 : ℝ) ≤ v := by simpa [Scalar.lit] using hv
      unfold SPHState.setRadiusAbs; rw [if_neg this]; exact h
  | setSize deg cur v =>
    simp only [SPHState.setSize]
    cases hk : setterFactor deg cur v with
    | error e => simpa [hk, bind, Except.bind] using h
    | ok k =>
      have hk0 := setterFactor_pos hop hk
      have hinv : SPHInv ⟨s.core.rescale k, s.radius * k⟩ :=
        ⟨⟨rescale_inv s.core hk0 h.core.inv, rescale_orient s.core hk0 h.core.orient⟩,
          mul_nonneg h.radius hk0.le⟩
      simpa [hk, bind, Except.bind, sph_rescale_ok s hk0.le h.radius] using hinv
  | toHoomd =>
    show SPHInv ⟨s.core.toHoomd.2, s.radius⟩
    rw [(toHoomd_restores s.core h.core).1]; exact h

/-- **C03 (ConvexSpheropolyhedron): every history of rounding-radius / volume / surface-area /
mean-curvature assignments and `to_hoomd` calls keeps every cache of the core polyhedron
coherent and the rounding radius non-negative.** -/
theorem sph_history (s : SPHState ℝ) (ops : List SPHOp) (hops : ∀ op ∈ ops, op.Valid) (h : SPHInv s) :
    SPHInv (sphRun s ops) := by
  unfold sphRun
  induction ops generalizing s with
  | nil => simpa using h
  | cons op ops ih =>
    simp only [List.foldl_cons]
    exact ih (sphApply s op) (fun o ho => hops o (List.mem_cons_of_mem _ ho))
      (sphApply_inv s op (hops op List.mem_cons_self) h)

/-- **`ConvexSpheropolyhedron.to_hoomd`** restores the object and hands out `v − c` -/
theorem sph_toHoomd_restores (s : SPHState ℝ) (h : SPHInv s) :
    s.toHoomd.2 = s ∧ s.toHoomd.1.vertices = s.core.verts.map (· + (V3.zero - s.core.centroid)) := by
  obtain ⟨h1, h2, _, _⟩ := toHoomd_restores s.core h.core
  refine ⟨?_, h2⟩
  show (⟨s.core.toHoomd.2, s.radius⟩ : SPHState ℝ) = s
  rw [h1]


/-! ### non-vacuity of the extension -/

/-- an `eigh`-like orthogonal matrix of the wrong handedness (a coordinate swap) -/
def exP : M3 ℝ := ⟨0, 1, 0, 1, 0, 0, 0, 0, 1⟩

theorem exP_orth : IsOrth exP := by constructor <;> norm_num [exP]

example : mdet exP = -1 ∧ mdet (fixHanded exP) = 1 ∧ IsOrth (fixHanded exP) := by
  have h : mdet exP = -1 := by norm_num [exP, mdet_eq]
  exact ⟨h, mdet_fixHanded (Or.inr h), isOrth_fixHanded exP_orth⟩

theorem exState_inv2 : CPInv2 exState := by
  refine ⟨exState_inv, ?_⟩
  rw [exState_tris]; unfold CP.signedVolume Tet.bdry; unfold_model; norm_num

/-- the hypotheses of `coherent_history2` are satisfiable on a history that uses every kind of
operation: `diagonalize_inertia` (with an improper `eigh` matrix), a size setter, a centroid
setter, `to_hoomd`. -/
example : ValidRun2 exState
    [.diagonalize exP exState.simplices, .base (.setVolume 2), .base (.setCentroid ⟨1, 2, 3⟩), .toHoomd] := by
  refine ⟨⟨exP_orth, ?_⟩, trivial, trivial, trivial, trivial⟩
  exact sortContract_same exState (fixHanded_proper exP_orth).2 exState_inv2.orient

example : CPInv2 (run2 exState
    [.diagonalize exP exState.simplices, .base (.setVolume 2), .base (.setCentroid ⟨1, 2, 3⟩), .toHoomd]) := by
  refine coherent_history2 _ _ exState_inv2 ⟨⟨exP_orth, ?_⟩, trivial, trivial, trivial, trivial⟩
  exact sortContract_same exState (fixHanded_proper exP_orth).2 exState_inv2.orient

def exFaces : List (List Nat) := [[0, 2, 1], [0, 1, 3], [1, 2, 3], [0, 3, 2]]

def exPH : PHState ℝ :=
  ⟨exVerts, exFaces, (PHState.findEquations exVerts exFaces).1, (PHState.findEquations exVerts exFaces).2⟩

example : exPH.Coherent ∧
    PHValidRun exPH [.setRadius 1 2, .setCentroid ⟨0, 0, 0⟩ ⟨1, 1, 1⟩, .diagonalize exP, .toHoomd ⟨1, 1, 1⟩ ⟨0, 0, 0⟩] :=
  ⟨rfl, one_pos, trivial, trivial, trivial, trivial⟩

def exPG : PGState ℝ := ⟨[⟨0, 0, 0⟩, ⟨1, 0, 0⟩, ⟨0, 1, 0⟩], ⟨0, 0, 1⟩⟩

theorem exPG_planar : exPG.Planar := by
  intro v hv w hw
  simp only [exPG, List.mem_cons, List.not_mem_nil, or_false] at hv hw
  rcases hv with rfl | rfl | rfl <;> rcases hw with rfl | rfl | rfl <;> simp [exPG, V3.dot]

theorem exPG_inv : PGInv exPG := by
  refine ⟨exPG_planar, ?_, ?_⟩
  · show 0 < Poly2.area exPG.verts exPG.normal
    have : Poly2.area exPG.verts exPG.normal = 1 / 2 := by
      simp only [Poly2.area, Poly2.signedArea, Poly2.argmax3, Poly2.rotl, exPG, Scalar.abs_real, abs_zero, abs_one,
        lt_irrefl, zero_lt_one, if_true, if_false, V3.norm, V3.normSq, V3.dot]
      norm_num [V3.get, Scalar.lit]
    rw [this]; norm_num
  · show 0 < Poly2.perimeter exPG.verts
    have h0 := perimeter_nonneg exPG.verts
    rcases lt_or_eq_of_le h0 with h | h
    · exact h
    · exfalso
      have : Poly2.perimeter exPG.verts = 1 + Real.sqrt 2 + 1 := by
        simp only [Poly2.perimeter, Poly2.rotl, exPG, V3.norm, V3.normSq, V3.dot]
        norm_num [Scalar.lit]
        ring
      rw [this] at h
      have := Real.sqrt_nonneg 2
      linarith

example : PGInv exPG ∧ ∀ op ∈ [PGOp.setArea 2, .setRadius 1 3, .setCentroid ⟨0, 0, 0⟩ ⟨2, 2, 0⟩], op.Valid := by
  refine ⟨exPG_inv, ?_⟩
  intro op hop
  simp only [List.mem_cons, List.not_mem_nil, or_false] at hop
  rcases hop with rfl | rfl | rfl
  · trivial
  · exact one_pos
  · trivial

example : SPGInv ⟨exPG, 1 / 2⟩ := ⟨exPG_inv, by norm_num⟩

example : SPHInv ⟨exState, 1 / 2⟩ ∧ ∀ op ∈ [SPHOp.setSize 3 1 8, .setRadius 0, .toHoomd], op.Valid := by
  refine ⟨⟨exState_inv2, by norm_num⟩, ?_⟩
  intro op hop
  simp only [List.mem_cons, List.not_mem_nil, or_false] at hop
  rcases hop with rfl | rfl | rfl
  · exact one_pos
  · trivial
  · trivial

end

noncomputable section

/-!
  ## Deepening: histories that change the combinatorics, instance-level caches, and the
  unconditional `Polyhedron` theorem

  (`Model/Mutable3.lean`, `Lemmas/Mutable3*.lean`.)
-/

/-! ### Polyhedron: positivity of the on-demand measures is an invariant -/

/-- what is assumed of the external inputs of a `Polyhedron` operation: a radius getter returns a
positive number, `eigh` returns an orthogonal matrix.  Nothing about the state. -/
def PHOp.Valid : PHOp → Prop
  | .setRadius cur _ => 0 < cur
  | .diagonalize P => IsOrth P
  | _ => True

theorem phApply_geom (s : PHState ℝ) (op : PHOp) (hop : op.Valid) (h : PHGeom s) : PHGeom (phApply s op) := by
  unfold phApply phStep
  cases op with
  | setVolume v =>
    simp only [PHState.setVolume]
    cases hk : setterFactor 3 s.volume v with
    | error e => simpa [hk, bind, Except.bind] using h
    | ok k => simpa [hk, bind, Except.bind, pure, Except.pure] using h.rescale (setterFactor_pos h.vol hk)
  | setSurfaceArea v =>
    simp only [PHState.setSurfaceArea]
    cases hk : setterFactor 2 s.surfaceArea v with
    | error e => simpa [hk, bind, Except.bind] using h
    | ok k => simpa [hk, bind, Except.bind, pure, Except.pure] using h.rescale (setterFactor_pos h.area hk)
  | setRadius cur v =>
    simp only [PHState.setRadius]
    cases hk : setterFactor 1 cur v with
    | error e => simpa [hk, bind, Except.bind] using h
    | ok k => simpa [hk, bind, Except.bind, pure, Except.pure] using h.rescale (setterFactor_pos hop hk)
  | setCentroid cur c => exact h.setCentroid cur c
  | diagonalize P => exact h.rotate (isOrth_fixHanded hop) (mdet_fixHanded hop.det_pm)
  | toHoomd c0 c1 => exact (h.setCentroid c0 V3.zero).setCentroid c1 c0

/-- **C03 (Polyhedron), unconditional form**: from a closed polyhedron with planar faces (`PHGeom`:
stored equations coherent, faces planar with unit normals, closure relation `Σ A_f n_f = 0`,
positive on-demand volume and surface area) EVERY history of size / centre assignments,
`diagonalize_inertia` and `to_hoomd` calls keeps all of that — in particular the getters the size
setters divide by stay positive (no per-step hypothesis, unlike `ph_coherent_history_partial`);
volume and area follow the motions (`k³`, `k²`, unchanged under translations and rotations). -/
theorem ph_coherent_history (s : PHState ℝ) (ops : List PHOp) (hops : ∀ op ∈ ops, op.Valid) (h : PHGeom s) :
    PHGeom (phRun s ops) := by
  unfold phRun
  induction ops generalizing s with
  | nil => simpa using h
  | cons op ops ih =>
    simp only [List.foldl_cons]
    exact ih (phApply s op) (fun o ho => hops o (List.mem_cons_of_mem _ ho))
      (phApply_geom s op (hops op List.mem_cons_self) h)

/-- the per-step hypothesis of `ph_coherent_history_partial` follows from the invariant -/
theorem phGeom_validAt {s : PHState ℝ} (h : PHGeom s) {op : PHOp} (hop : op.Valid) : op.ValidAt s := by
  cases op with
  | setVolume v => exact h.vol
  | setSurfaceArea v => exact h.area
  | setRadius cur v => exact hop
  | setCentroid cur c => trivial
  | diagonalize P => trivial
  | toHoomd c0 c1 => trivial

theorem phApply_faces (s : PHState ℝ) (op : PHOp) : (phApply s op).faces = s.faces := by
  have := ph_faces_history s [op]
  simpa [phRun] using this

/-! ### Polyhedron with faces that change, neighbours, and the cached `edges` -/

inductive PHFOp where
  | core (op : PHOp)
  | sortFaces (faces1 : List (List Nat))
  | mergeFaces (faces1 : List (List Nat))
  | readEdges

/-- one operation; a raising `sort_faces` leaves the state (guard / assertion before any
assignment in the model), a raising `merge_faces` leaves what its `except` branch rebuilds -/
def phfApply (s : PHFull ℝ) : PHFOp → PHFull ℝ
  | .core op => s.liftCore fun c => phApply c op
  | .sortFaces f1 =>
      match s.sortFaces f1 with
      | .ok s' => s'
      | .error _ => s
  | .mergeFaces f1 => (s.mergeFaces f1).1
  | .readEdges => s.readEdges.2

def phfRun (s : PHFull ℝ) (ops : List PHFOp) : PHFull ℝ := ops.foldl phfApply s

def PHFOp.ValidAt (s : PHFull ℝ) : PHFOp → Prop
  | .core op => op.ValidAt s.core
  | .sortFaces f1 => s.SortGeomOK f1
  | .mergeFaces f1 => s.SortGeomOK f1
  | .readEdges => True

def PHFValidRun : PHFull ℝ → List PHFOp → Prop
  | _, [] => True
  | s, op :: ops => op.ValidAt s ∧ PHFValidRun (phfApply s op) ops

theorem phfApply_coherent (s : PHFull ℝ) (op : PHFOp) (hop : op.ValidAt s) (h : s.Coherent) :
    (phfApply s op).Coherent := by
  cases op with
  | core op =>
    exact PHFull.liftCore_coherent (fun c => phApply c op) (phApply_faces s.core op)
      (phApply_coherent s.core op hop h.eqs) h
  | sortFaces f1 =>
    show (match s.sortFaces f1 with | .ok s' => s' | .error _ => s).Coherent
    cases hs : s.sortFaces f1 with
    | ok s' => exact PHFull.sortFaces_coherent hop hs
    | error e => exact h
  | mergeFaces f1 => exact PHFull.mergeFaces_coherent hop h
  | readEdges => exact PHFull.readEdges_coherent h

/-- **C03 (Polyhedron, every mutator and the cached `edges`)**: after any history of size / centre
assignments, `diagonalize_inertia`, `to_hoomd`, `sort_faces`, `merge_faces` calls and reads of
`edges`, the stored plane equations, the stored neighbour lists and the `edges` entry of the
instance `__dict__` (if present) equal their recomputation from the current vertices and faces.
(`SortGeomOK` is needed only in the `volume < 0` branch of `sort_faces` and holds for triangular
faces: `PHFull.sortGeomOK_of_triangles`.) -/
theorem phf_coherent_history (s : PHFull ℝ) (ops : List PHFOp) (h : s.Coherent) (hv : PHFValidRun s ops) :
    (phfRun s ops).Coherent := by
  unfold phfRun
  induction ops generalizing s with
  | nil => simpa using h
  | cons op ops ih =>
    simp only [List.foldl_cons]
    exact ih (phfApply s op) (phfApply_coherent s op hv.1 h) hv.2

/-- **every getter of a coherent `Polyhedron` returns what it returns on a freshly constructed one**
(same vertices, faces, flag): the constructor yields the same plane equations and neighbours, and
`edges` — served from the instance `__dict__` or not — is the edge list of the current faces. -/
theorem phf_getters_fresh {s : PHFull ℝ} (h : s.Coherent) :
    ∃ s0, PHFull.fresh s.core.verts s.core.faces s.conv = .ok s0 ∧ s0.core = s.core ∧
      s0.neighbors = s.neighbors ∧ s0.readEdges.1 = s.readEdges.1 ∧
      s0.core.volume = s.core.volume ∧ s0.core.surfaceArea = s.core.surfaceArea :=
  ⟨{ s with edgesCache := none }, PHFull.coherent_eq_fresh h, rfl, rfl,
    (PHFull.readEdges_value h).symm, rfl, rfl⟩

/-- … in particular after any valid history -/
theorem phf_history_getters_fresh (s : PHFull ℝ) (ops : List PHFOp) (h : s.Coherent) (hv : PHFValidRun s ops) :
    let s' := phfRun s ops
    ∃ s0, PHFull.fresh s'.core.verts s'.core.faces s'.conv = .ok s0 ∧ s0.core = s'.core ∧
      s0.neighbors = s'.neighbors ∧ s0.readEdges.1 = s'.readEdges.1 :=
  let ⟨s0, h1, h2, h3, h4, _⟩ := phf_getters_fresh (phf_coherent_history s ops h hv)
  ⟨s0, h1, h2, h3, h4⟩

/-- a raising `merge_faces` leaves a coherent `Polyhedron` exactly as it was -/
theorem phf_merge_error_leaves_state {s : PHFull ℝ} (h : s.Coherent) (f1 : List (List Nat)) (e : String)
    (he : (s.mergeFaces f1).2 = some e) : phfApply s (.mergeFaces f1) = s :=
  PHFull.mergeFaces_error_restores h he

/-- a mutator that forgets to drop the `edges` cache is NOT coherent: reversing nothing but
replacing the faces while keeping a filled cache breaks `PHFull.Coherent` (what
`self.__dict__.pop("edges", None)` in `sort_faces` is for) -/
theorem stale_edges_fails :
    ¬ (⟨⟨[], [[0, 1, 2]], [], []⟩, true, [[]], some (edgesOf [[0, 1, 2], [0, 2, 3]])⟩ : PHFull ℝ).Coherent := by
  intro h
  have := h.edges _ rfl
  revert this
  decide

/-! ### ConvexPolyhedron with faces, neighbours, cached `edges`, `_simplex_areas`, `_face_centroids` -/

structure CPFInv (s : CPFull ℝ) : Prop where
  core : CPInv2 s.core
  heads : s.core.faceHead = faceHeads s.faces
  nbrs : findNeighbors s.faces = .ok s.neighbors
  edges : ∀ e, s.edgesCache = some e → e = edgesOf s.faces

inductive CPFOp where
  | core (op : Op2)
  | sortFaces (faces1 : List (List Nat))
  | mergeFaces (faces1 : List (List Nat))
  | readEdges
  | getFaceArea
  | readFaceCentroids

def cpfApply (s : CPFull ℝ) : CPFOp → CPFull ℝ
  | .core op => s.liftCore fun c => apply2 c op
  | .sortFaces f1 =>
      match s.sortFaces f1 with
      | .ok s' => s'
      | .error _ => s
  | .mergeFaces f1 => (s.mergeFaces f1).1
  | .readEdges => s.readEdges.2
  | .getFaceArea => s.getFaceArea.2
  | .readFaceCentroids => s.readFaceCentroids.2

def cpfRun (s : CPFull ℝ) (ops : List CPFOp) : CPFull ℝ := ops.foldl cpfApply s

/-- the first three vertices of the re-ordered faces give the planes the object stores (true when
the order is unchanged — what `sort_faces` does on an object whose faces are already sorted — and
for any cyclic re-ordering of planar convex faces) -/
def HeadsAgree (s : CPFull ℝ) (f1 : List (List Nat)) : Prop :=
  CPState.findEquations s.core.verts (faceHeads f1) = CPState.findEquations s.core.verts s.core.faceHead

def CPFOp.ValidAt (s : CPFull ℝ) : CPFOp → Prop
  | .core op => op.ValidAt s.core
  | .sortFaces f1 => HeadsAgree s f1
  | .mergeFaces f1 => HeadsAgree s f1
  | _ => True

def CPFValidRun : CPFull ℝ → List CPFOp → Prop
  | _, [] => True
  | s, op :: ops => op.ValidAt s ∧ CPFValidRun (cpfApply s op) ops

theorem apply2_faceHead (s : CPState ℝ) (op : Op2) : (apply2 s op).faceHead = s.faceHead := by
  cases op with
  | base op =>
    show (apply s op).faceHead = _
    unfold apply step
    cases op with
    | setVolume v =>
      simp only [CPState.setVolume]
      cases hk : setterFactor 3 s.volume v <;> simp [bind, Except.bind, pure, Except.pure, CPState.rescale]
    | setSurfaceArea v =>
      simp only [CPState.setSurfaceArea]
      cases hk : setterFactor 2 s.area v <;> simp [bind, Except.bind, pure, Except.pure, CPState.rescale]
    | setRadius cur v =>
      simp only [CPState.setRadius]
      cases hk : setterFactor 1 cur v <;> simp [bind, Except.bind, pure, Except.pure, CPState.rescale]
    | setCentroid c => rfl
  | diagonalize P simp' => rfl
  | toHoomd => rfl

theorem cpInv2_heads {c : CPState ℝ} (h : CPInv2 c) (hd : List (Nat × Nat × Nat))
    (he : CPState.findEquations c.verts hd = CPState.findEquations c.verts c.faceHead) :
    CPInv2 { c with faceHead := hd } := by
  obtain ⟨⟨⟨c1, c2, c3, c4, c5⟩, hvol, harea, hrng, hclosed⟩, horient⟩ := h
  exact ⟨⟨⟨c1, c2, c3, c4.trans he.symm, c5⟩, hvol, harea, hrng, hclosed⟩, horient⟩

theorem cpf_sortFaces_inv {s s' : CPFull ℝ} {f1 : List (List Nat)} (hh : HeadsAgree s f1) (h : CPFInv s)
    (hs : s.sortFaces f1 = .ok s') : CPFInv s' := by
  unfold CPFull.sortFaces at hs
  cases hn : findNeighbors f1 with
  | error e => rw [hn] at hs; cases hs
  | ok nb =>
    rw [hn] at hs
    injection hs with hs; subst hs
    exact ⟨cpInv2_heads h.core _ hh, rfl, hn, fun e he => by cases he⟩

theorem cpf_mergeFaces_error_restores {s : CPFull ℝ} {f1 : List (List Nat)} {e : String} (h : CPFInv s)
    (he : (s.mergeFaces f1).2 = some e) : (s.mergeFaces f1).1 = s := by
  have hn := h.nbrs
  have heq := h.core.inv.coh.2.2.2.1
  obtain ⟨⟨verts, simplices, faceHead, eqN, eqD, seqN, seqD, volume, area, centroid⟩, faces, coplanar, nb, cache, sa, fc⟩ := s
  simp only at hn heq
  have e1 : eqN = (CPState.findEquations verts faceHead).1 := congrArg Prod.fst heq
  have e2 : eqD = (CPState.findEquations verts faceHead).2 := congrArg Prod.snd heq
  unfold CPFull.mergeFaces at he ⊢
  cases hs : CPFull.sortFaces (⟨⟨verts, simplices, faceHead, eqN, eqD, seqN, seqD, volume, area, centroid⟩, faces,
      coplanar, nb, cache, sa, fc⟩ : CPFull ℝ) f1 with
  | ok s' => rw [hs] at he; cases he
  | error e' => simp only [hn, ← e1, ← e2]

theorem cpfApply_inv (s : CPFull ℝ) (op : CPFOp) (hop : op.ValidAt s) (h : CPFInv s) : CPFInv (cpfApply s op) := by
  cases op with
  | core op =>
    refine ⟨apply2_inv s.core op hop h.core, ?_, h.nbrs, h.edges⟩
    show (apply2 s.core op).faceHead = _
    rw [apply2_faceHead]; exact h.heads
  | sortFaces f1 =>
    show CPFInv (match s.sortFaces f1 with | .ok s' => s' | .error _ => s)
    cases hs : s.sortFaces f1 with
    | ok s' => exact cpf_sortFaces_inv hop h hs
    | error e => exact h
  | mergeFaces f1 =>
    show CPFInv (s.mergeFaces f1).1
    cases he : (s.mergeFaces f1).2 with
    | some e => rw [cpf_mergeFaces_error_restores h he]; exact h
    | none =>
      unfold CPFull.mergeFaces at he ⊢
      cases hs : s.sortFaces f1 with
      | ok s' => simp only; exact cpf_sortFaces_inv hop h hs
      | error e' =>
        rw [hs] at he
        simp only at he
        split at he <;> cases he
  | readEdges =>
    show CPFInv s.readEdges.2
    unfold CPFull.readEdges
    cases hc : s.edgesCache with
    | none => exact ⟨h.core, h.heads, h.nbrs, fun e he => by injection he with he; exact he.symm⟩
    | some e => exact h
  | getFaceArea => exact ⟨h.core, h.heads, h.nbrs, h.edges⟩
  | readFaceCentroids => exact ⟨h.core, h.heads, h.nbrs, h.edges⟩

/-- **C03 (ConvexPolyhedron, every mutator and every instance-level cache)**: after any history of
size / centre assignments, `diagonalize_inertia`, `to_hoomd`, `sort_faces`, `merge_faces` (that
merges nothing: `HeadsAgree`), reads of `edges`, `get_face_area()` and `face_centroids`, all of
`CPInv2` holds for the core, `face[0:3]` of the faces are the triples the equations refer to, the
stored neighbours and the cached `edges` are those of the current faces. -/
theorem cpf_history (s : CPFull ℝ) (ops : List CPFOp) (h : CPFInv s) (hv : CPFValidRun s ops) :
    CPFInv (cpfRun s ops) := by
  unfold cpfRun
  induction ops generalizing s with
  | nil => simpa using h
  | cons op ops ih =>
    simp only [List.foldl_cons]
    exact ih (cpfApply s op) (cpfApply_inv s op hv.1 h) hv.2

/-- **`get_face_area` / `face_centroids` never serve a stored value**: what they return, and what
they leave in `_simplex_areas` / `_face_centroids`, is a function of the current vertices,
simplices and face groups only — whatever an earlier read has stored (a lazily cached variant
would return the stored list instead: see the seeded change r1-C03-2). -/
theorem cpf_reads_ignore_caches (s : CPFull ℝ) (sa : Option (List ℝ)) (fc : Option (List (V3 ℝ))) :
    ({ s with simplexAreas := sa, faceCentroids := fc } : CPFull ℝ).getFaceArea.1 = s.getFaceArea.1 ∧
    ({ s with simplexAreas := sa, faceCentroids := fc } : CPFull ℝ).readFaceCentroids.1 = s.readFaceCentroids.1 ∧
    s.getFaceArea.2.simplexAreas = some (s.core.tris.map CP.triArea) ∧
    s.readFaceCentroids.2.simplexAreas = some (s.core.tris.map CP.triArea) ∧
    s.readFaceCentroids.2.faceCentroids = some s.readFaceCentroids.1 :=
  ⟨rfl, rfl, rfl, rfl, rfl⟩

/-- the per-face areas after any history are those of the current triangles, grouped as stored -/
theorem cpf_history_faceAreas (s : CPFull ℝ) (ops : List CPFOp) :
    (cpfRun s ops).getFaceArea.1 =
      CPFull.faceAreasFrom ((cpfRun s ops).core.tris.map CP.triArea) (cpfRun s ops).coplanar
        (cpfRun s ops).faces.length := rfl

/-- **defect of /repo (known finding): the inherited `merge_faces` does not keep a ConvexPolyhedron
aligned.**  Two coplanar triangles with equal stored equations: the merge graph joins them, the
contract of the per-face ordering holds for the merged square, and afterwards there is ONE face
but still TWO plane equations and TWO coplanar-simplex groups. -/
def exMis : CPFull ℝ :=
  ⟨⟨[⟨0,0,0⟩, ⟨1,0,0⟩, ⟨1,1,0⟩, ⟨0,1,0⟩], [(0,1,2), (0,2,3)], [(0,1,2), (0,2,3)],
      [⟨0,0,1⟩, ⟨0,0,1⟩], [0, 0], [⟨0,0,1⟩, ⟨0,0,1⟩], [0, 0], 0, 1, ⟨0,0,0⟩⟩,
    [[0,1,2], [0,2,3]], [[0], [1]], [[1], [0]], none, none, none⟩

def Mut.CPFull.Aligned (s : CPFull ℝ) : Prop :=
  s.core.eqN.length = s.faces.length ∧ s.coplanar.length = s.faces.length

theorem exMis_mergeable (i j : Nat) (hi : i < 2) (hj : j < 2) :
    mergeable exMis.core.eqN exMis.core.eqD i j = true := by
  have hi' : i = 0 ∨ i = 1 := by omega
  have hj' : j = 0 ∨ j = 1 := by omega
  rcases hi' with rfl | rfl <;> rcases hj' with rfl | rfl <;>
    simp [mergeable, allclose4, closeTo, exMis, Scalar.abs_real, Scalar.lit, Scalar.ofNat_real] <;>
    simp only [Scalar.q, Scalar.ofNat_real] <;> norm_num

theorem exMis_graph : mergeGraph exMis.core.eqN exMis.core.eqD exMis.neighbors = [(0, 1), (1, 0)] := by
  have h01 := exMis_mergeable 0 1 (by norm_num) (by norm_num)
  have h10 := exMis_mergeable 1 0 (by norm_num) (by norm_num)
  show mergeGraph exMis.core.eqN exMis.core.eqD [[1], [0]] = _
  unfold mergeGraph
  have hr : List.range ([[1], [0]] : List (List Nat)).length = [0, 1] := by decide
  rw [hr]
  simp only [List.flatMap_cons, List.flatMap_nil, List.getD_cons_zero, List.getD_cons_succ, List.filter_cons,
    List.filter_nil, h01, h10, if_true, List.map_cons, List.map_nil, List.append_nil, List.cons_append,
    List.nil_append]

theorem exMis_contract : exMis.mergeLabels = [0, 0] ∧ exMis.mergeContract [[0, 1, 2, 3]] = true := by
  have hl : exMis.mergeLabels = [0, 0] := by
    unfold CPFull.mergeLabels
    rw [exMis_graph]
    decide
  refine ⟨hl, ?_⟩
  unfold CPFull.mergeContract
  rw [hl]
  decide

theorem cpf_merge_aligned_fails :
    exMis.Aligned ∧ (exMis.mergeFaces [[0, 1, 2, 3]]).2 = none ∧ ¬ (exMis.mergeFaces [[0, 1, 2, 3]]).1.Aligned := by
  refine ⟨⟨rfl, rfl⟩, ?_, ?_⟩
  · have : findNeighbors [[0, 1, 2, 3]] = .ok [[]] := by decide
    simp [CPFull.mergeFaces, CPFull.sortFaces, this]
  · have : findNeighbors [[0, 1, 2, 3]] = .ok [[]] := by decide
    simp [CPFull.mergeFaces, CPFull.sortFaces, this, CPFull.Aligned, exMis]

/-! ### non-vacuity of the deepening theorems -/

theorem exPH_geom : PHGeom exPH := by
  refine phGeom_of_raw exVerts exFaces ?_ ?_ ?_ ?_ ?_ ?_ ?_
  · decide
  · decide
  · intro f hf
    simp only [exFaces, List.mem_cons, List.not_mem_nil, or_false] at hf
    rcases hf with rfl | rfl | rfl | rfl <;>
      norm_num [rawN, vget, exVerts, V3.cross, V3.normSq, V3.dot]
  · intro f hf i hi
    simp only [exFaces, List.mem_cons, List.not_mem_nil, or_false] at hf
    rcases hf with rfl | rfl | rfl | rfl <;>
      (simp only [List.mem_cons, List.not_mem_nil, or_false] at hi
       rcases hi with rfl | rfl | rfl <;> norm_num [rawN, vget, exVerts, V3.cross, V3.dot])
  · intro f hf
    simp only [exFaces, List.mem_cons, List.not_mem_nil, or_false] at hf
    rcases hf with rfl | rfl | rfl | rfl <;>
      norm_num [rawN, vget, exVerts, V3.cross, V3.dot, Spec3.areaVector, Spec3.cyc, facePts, V3.sum, V3.add,
        V3.zero, Scalar.lit]
  · ext <;>
      norm_num [exFaces, vget, exVerts, V3.cross, Spec3.areaVector, Spec3.cyc, facePts, V3.sum, V3.add, V3.zero,
        Scalar.lit]
  · norm_num [exFaces, vget, exVerts, V3.cross, V3.dot, Spec3.areaVector, Spec3.cyc, facePts, V3.sum, V3.add, V3.zero,
      Scalar.lit]

/-- the hypotheses of `ph_coherent_history` are satisfiable: the corner tetrahedron, and a history
that uses every kind of operation (with an improper `eigh` matrix) -/
example : PHGeom exPH ∧ ∀ op ∈ [PHOp.setVolume 2, .setSurfaceArea 3, .setRadius 1 2,
    .setCentroid ⟨0, 0, 0⟩ ⟨1, 1, 1⟩, .diagonalize exP, .toHoomd ⟨1, 1, 1⟩ ⟨0, 0, 0⟩], op.Valid := by
  refine ⟨exPH_geom, ?_⟩
  intro op hop
  simp only [List.mem_cons, List.not_mem_nil, or_false] at hop
  rcases hop with rfl | rfl | rfl | rfl | rfl | rfl
  · trivial
  · trivial
  · exact one_pos
  · trivial
  · exact exP_orth
  · trivial

def exPHF : PHFull ℝ := ⟨exPH, true, [[1, 2, 3], [0, 2, 3], [0, 1, 3], [0, 1, 2]], none⟩

theorem exPHF_coherent : exPHF.Coherent := ⟨rfl, by decide, fun e he => by cases he⟩

/-- the hypotheses of `phf_coherent_history` are satisfiable on a history with reads of `edges`,
a size setter, `sort_faces` and `merge_faces` -/
example : exPHF.Coherent ∧ PHFValidRun exPHF
    [.readEdges, .core (.setRadius 1 2), .sortFaces exFaces, .readEdges, .mergeFaces exFaces, .readEdges] :=
  ⟨exPHF_coherent, trivial, one_pos, PHFull.sortGeomOK_of_triangles _ _ (by decide), trivial,
    PHFull.sortGeomOK_of_triangles _ _ (by decide), trivial, trivial⟩

def exCPF : CPFull ℝ :=
  ⟨exState, exFaces, [[0], [1], [2], [3]], [[1, 2, 3], [0, 2, 3], [0, 1, 3], [0, 1, 2]], none, none, none⟩

theorem exCPF_inv : CPFInv exCPF := ⟨exState_inv2, rfl, by decide, fun e he => by cases he⟩

/-- the hypotheses of `cpf_history` are satisfiable -/
example : CPFInv exCPF ∧ CPFValidRun exCPF
    [.sortFaces exFaces, .getFaceArea, .core (.base (.setVolume 2)), .readEdges, .readFaceCentroids] :=
  ⟨exCPF_inv, rfl, trivial, trivial, trivial, trivial, trivial⟩

/-- **the sign fix of `diagonalize_inertia` for ANY matrix** (no orthogonality assumed):
`if det(P) < 0: P[:, 0] *= -1` leaves a matrix of determinant `|det P|` — never negative; with
`IsOrth P` (so `det P = ±1`) this is `fixHanded_proper`'s `det = +1`. -/
theorem fixHanded_det_abs (P : M3 ℝ) : mdet (fixHanded P) = |mdet P| := by
  unfold fixHanded
  by_cases h : mdet P < (lit 0 : ℝ)
  · have h' : mdet P < 0 := by simpa [Scalar.lit] using h
    rw [if_pos h, mdet_negCol0, abs_of_neg h']
  · have h' : 0 ≤ mdet P := by simpa [Scalar.lit] using h
    rw [if_neg h, abs_of_nonneg h']

example : mdet (fixHanded exP) = 1 := by
  rw [fixHanded_det_abs]; norm_num [exP, mdet_eq]

/-- **certificate for the hypothesis of `ph_coherent_history`**: the decidable, sqrt-free check
`closedPolyCheck` (the driver evaluates it exactly over ℚ on the implementation's own vertices and
faces) implies the invariant `PHGeom` for the freshly constructed `Polyhedron(vertices, faces)` … -/
theorem ph_certificate_sound (verts : List (V3 ℝ)) (faces : List (List Nat))
    (h : closedPolyCheck verts faces = true) :
    PHGeom ⟨verts, faces, (PHState.findEquations verts faces).1, (PHState.findEquations verts faces).2⟩ :=
  closedPolyCheck_sound verts faces h

/-- … hence for every history from it. -/
theorem ph_history_of_certificate (verts : List (V3 ℝ)) (faces : List (List Nat))
    (h : closedPolyCheck verts faces = true) (ops : List PHOp) (hops : ∀ op ∈ ops, op.Valid) :
    PHGeom (phRun ⟨verts, faces, (PHState.findEquations verts faces).1, (PHState.findEquations verts faces).2⟩ ops) :=
  ph_coherent_history _ ops hops (closedPolyCheck_sound verts faces h)

/-- `SortGeomOK` (needed in the `volume < 0` branch of `sort_faces`) holds for faces of ANY size that
are planar and convex at their first and last corner (`FlipCond`: the raw normal at the last corner
is a negative multiple of the one at the first when the face is reversed, and the last vertex lies
in the plane of the first three) — e.g. the polygons `merge_faces` produces from coplanar triangles -/
theorem phf_sortGeomOK_of_planar_convex (s : PHFull ℝ) (faces1 : List (List Nat))
    (h : ∀ f ∈ faces1, FlipCond s.core.verts f) : s.SortGeomOK faces1 :=
  PHFull.sortGeomOK_of_planar_convex s faces1 h

/-- `FlipCond` is satisfiable: the unit square -/
example : FlipCond [⟨0, 0, 0⟩, ⟨1, 0, 0⟩, ⟨1, 1, 0⟩, ⟨0, 1, 0⟩] [0, 1, 2, 3] := by
  refine ⟨1, one_pos, ?_, ?_⟩
  · ext <;> norm_num [rawN, vget, V3.cross]
  · norm_num [rawN, vget, V3.cross, V3.dot]

end
