import CoxeterVerif.Lemmas.Mutable2
/-!
  # C08 — size setters hit their target by pure similarity; bad targets are refused

  On the `CPState` machine of `Model/Mutable.lean` (the `ConvexPolyhedron` setters) and, in the
  extension at the end of the file, on the machines of `Model/Mutable2.lean` for `Polyhedron`,
  `Polygon`/`ConvexPolygon`, `ConvexSpheropolygon`, `ConvexSpheropolyhedron`: for every positive target the property reads back exactly, the new vertices are the
  old ones times one positive factor, dimensionless descriptors are unchanged; every non-positive
  target is refused with `ValueError` and no state change.
-/
open Scalar Mut
set_option maxRecDepth 4000
noncomputable section

/-- **volume setter reads back and is a similarity** -/
theorem setVolume_reads_back (s : CPState ℝ) {v : ℝ} (hv : 0 < v) (hs : 0 < s.volume) :
    ∃ k s', 0 < k ∧ s.setVolume v = .ok s' ∧ s'.volume = v ∧
      s'.verts = s.verts.map (V3.smul k) ∧ s'.area = s.area * (k * k) := by
  have h0 : (lit 0 : ℝ) < v := by simpa [Scalar.lit] using hv
  have hq : 0 < v / s.volume := div_pos hv hs
  refine ⟨Scalar.cbrt (v / s.volume), s.rescale (Scalar.cbrt (v / s.volume)), cbrt_pos hq, ?_, ?_, rfl, rfl⟩
  · unfold CPState.setVolume setterFactor
    rw [if_neg (not_not.mpr h0)]; rfl
  · show s.volume * (Scalar.cbrt (v / s.volume) * Scalar.cbrt (v / s.volume) * Scalar.cbrt (v / s.volume)) = v
    rw [cbrt_cube hq]; field_simp

/-- **surface-area setter reads back and is a similarity** -/
theorem setSurfaceArea_reads_back (s : CPState ℝ) {v : ℝ} (hv : 0 < v) (hs : 0 < s.area) :
    ∃ k s', 0 < k ∧ s.setSurfaceArea v = .ok s' ∧ s'.area = v ∧
      s'.verts = s.verts.map (V3.smul k) ∧ s'.volume = s.volume * (k * k * k) := by
  have h0 : (lit 0 : ℝ) < v := by simpa [Scalar.lit] using hv
  have hq : 0 < v / s.area := div_pos hv hs
  refine ⟨Scalar.sqrt (v / s.area), s.rescale (Scalar.sqrt (v / s.area)), Real.sqrt_pos.mpr hq, ?_, ?_, rfl, rfl⟩
  · unfold CPState.setSurfaceArea setterFactor
    rw [if_neg (not_not.mpr h0)]; rfl
  · show s.area * (Scalar.sqrt (v / s.area) * Scalar.sqrt (v / s.area)) = v
    rw [sqrt_sq' hq]; field_simp

/-- **generic `*_radius` setters**: any length-like quantity `ρ` of the shape that is homogeneous
of degree one (`ρ (k·X) = k·ρ X`) reads back as assigned after `_rescale(value / ρ)`. -/
theorem setRadius_reads_back (s : CPState ℝ) (ρ : List (V3 ℝ) → ℝ)
    (hhom : ∀ k : ℝ, 0 < k → ∀ vs, ρ (vs.map (V3.smul k)) = k * ρ vs)
    {v : ℝ} (hv : 0 < v) (hcur : 0 < ρ s.verts) :
    ∃ k s', 0 < k ∧ s.setRadius (ρ s.verts) v = .ok s' ∧ ρ s'.verts = v ∧
      s'.verts = s.verts.map (V3.smul k) := by
  have h0 : (lit 0 : ℝ) < v := by simpa [Scalar.lit] using hv
  have hq : 0 < v / ρ s.verts := div_pos hv hcur
  refine ⟨v / ρ s.verts, s.rescale (v / ρ s.verts), hq, ?_, ?_, rfl⟩
  · unfold CPState.setRadius setterFactor
    rw [if_neg (not_not.mpr h0)]; rfl
  · show ρ (s.verts.map (V3.smul (v / ρ s.verts))) = v
    rw [hhom _ hq]; field_simp

/-- **bad targets are refused** (zero, negative — and at `Float`, where `nan > 0` is false, nan):
every size setter raises `ValueError`, and by construction of `Except` there is no new state. -/
theorem bad_target_refused (s : CPState ℝ) {v : ℝ} (hv : ¬ 0 < v) (cur : ℝ) :
    s.setVolume v = .error "ValueError" ∧ s.setSurfaceArea v = .error "ValueError" ∧
    s.setRadius cur v = .error "ValueError" := by
  have h0 : ¬ (lit 0 : ℝ) < v := by simpa [Scalar.lit] using hv
  refine ⟨?_, ?_, ?_⟩
  · unfold CPState.setVolume setterFactor; rw [if_pos h0]; rfl
  · unfold CPState.setSurfaceArea setterFactor; rw [if_pos h0]; rfl
  · unfold CPState.setRadius setterFactor; rw [if_pos h0]; rfl

/-- the guard in isolation: `setterFactor` succeeds exactly for positive targets -/
theorem setterFactor_ok_iff (deg : Nat) (cur tgt : ℝ) :
    (∃ k, setterFactor deg cur tgt = .ok k) ↔ 0 < tgt := by
  unfold setterFactor
  constructor
  · rintro ⟨k, hk⟩
    by_contra hneg
    have h0 : ¬ (lit 0 : ℝ) < tgt := by simpa [Scalar.lit] using hneg
    rw [if_pos h0] at hk; cases hk
  · intro ht
    have h0 : (lit 0 : ℝ) < tgt := by simpa [Scalar.lit] using ht
    rw [if_neg (not_not.mpr h0)]
    split_ifs <;> exact ⟨_, rfl⟩

/-- **dimensionless descriptors are preserved** by `_rescale`: the isoperimetric quotient
`36π V²/S³` of the cached volume and area is unchanged. -/
theorem rescale_preserves_iq (s : CPState ℝ) {k : ℝ} (hk : 0 < k) (hS : s.area ≠ 0) :
    36 * Real.pi * (s.rescale k).volume ^ 2 / (s.rescale k).area ^ 3
      = 36 * Real.pi * s.volume ^ 2 / s.area ^ 3 := by
  show 36 * Real.pi * (s.volume * (k * k * k)) ^ 2 / (s.area * (k * k)) ^ 3 = _
  have hk' : k ≠ 0 := hk.ne'
  field_simp

/-- the centroid setter is a pure translation of the vertices -/
theorem setCentroid_translation (s : CPState ℝ) (c : V3 ℝ) :
    (s.setCentroid c).verts = s.verts.map (· + (c - s.centroid)) := rfl

/-! ### non-vacuity -/
example : ∃ k, setterFactor 3 (2:ℝ) 16 = .ok k ∧ k * k * k = 8 := by
  refine ⟨Scalar.cbrt (16 / 2), ?_, ?_⟩
  · unfold setterFactor
    have : (lit 0 : ℝ) < 16 := by simp [Scalar.lit]
    rw [if_neg (not_not.mpr this)]; rfl
  · have := cbrt_cube (show (0:ℝ) < 16 / 2 by norm_num)
    rw [this]; norm_num

end

/-!
  ## Extension: the other vertex-based classes (`Model/Mutable2.lean`)

  Read-back theorems where the getter is a closed form of the model (`Polyhedron.volume`,
  `Polyhedron.surface_area`, `Polygon.area`, `Polygon.perimeter`, the spheropolygon's area and
  perimeter, the Steiner forms of the spheropolyhedron), generic ones (any homogeneous getter)
  elsewhere; guards; the rounding radius as a shape parameter.
-/
noncomputable section

/-! ### Polyhedron -/

theorem ph_faceAreas_rescale (s : PHState ℝ) {k : ℝ} (hk : 0 < k) :
    (s.rescale k).faceAreas = s.faceAreas.map (fun a => k * k * a) := by
  unfold PHState.faceAreas PHState.rescale
  simp only [List.map_map]
  apply List.map_congr_left
  intro f _
  exact facePolyArea_smul hk s.verts f

/-- the on-demand volume `Σ(−d)A/3` is homogeneous of degree 3 under `_rescale` -/
theorem ph_volume_rescale (s : PHState ℝ) {k : ℝ} (hk : 0 < k) :
    (s.rescale k).volume = s.volume * k ^ 3 := by
  unfold PHState.volume Poly3.volume
  rw [ph_faceAreas_rescale s hk]
  show Scalar.sum (((s.eqD.map (· * k)).zip (s.faceAreas.map fun a => k * k * a)).map _) / lit 3 = _
  simp only [Scalar.sum_real, sum_zip_volume]
  ring

theorem ph_surfaceArea_rescale (s : PHState ℝ) {k : ℝ} (hk : 0 < k) :
    (s.rescale k).surfaceArea = s.surfaceArea * k ^ 2 := by
  unfold PHState.surfaceArea
  rw [ph_faceAreas_rescale s hk]
  simp only [Scalar.sum_real]
  rw [show (fun a : ℝ => k * k * a) = (fun a => (k * k) * id a) by rfl, list_sum_map_mul, List.map_id]
  ring

/-- **`Polyhedron.volume.setter` reads back and is a similarity** -/
theorem ph_setVolume_reads_back (s : PHState ℝ) {v : ℝ} (hv : 0 < v) (hs : 0 < s.volume) :
    ∃ k s', 0 < k ∧ s.setVolume v = .ok s' ∧ s'.volume = v ∧ s'.verts = s.verts.map (V3.smul k) ∧
      s'.surfaceArea = s.surfaceArea * k ^ 2 := by
  obtain ⟨k, hk, hf, he⟩ := setterFactor_spec (Or.inr (Or.inr rfl)) hs hv
  refine ⟨k, s.rescale k, hk, ?_, ?_, rfl, ph_surfaceArea_rescale s hk⟩
  · unfold PHState.setVolume; rw [hf]; rfl
  · rw [ph_volume_rescale s hk]; exact he

/-- **`Polyhedron.surface_area.setter` reads back and is a similarity** -/
theorem ph_setSurfaceArea_reads_back (s : PHState ℝ) {v : ℝ} (hv : 0 < v) (hs : 0 < s.surfaceArea) :
    ∃ k s', 0 < k ∧ s.setSurfaceArea v = .ok s' ∧ s'.surfaceArea = v ∧ s'.verts = s.verts.map (V3.smul k) ∧
      s'.volume = s.volume * k ^ 3 := by
  obtain ⟨k, hk, hf, he⟩ := setterFactor_spec (Or.inr (Or.inl rfl)) hs hv
  refine ⟨k, s.rescale k, hk, ?_, ?_, rfl, ph_volume_rescale s hk⟩
  · unfold PHState.setSurfaceArea; rw [hf]; rfl
  · rw [ph_surfaceArea_rescale s hk]; exact he

/-- **`Polyhedron` radius setters** (circumsphere, insphere, bounding / bounded spheres): any
degree-one homogeneous functional of the vertices reads back -/
theorem ph_setRadius_reads_back (s : PHState ℝ) (ρ : List (V3 ℝ) → ℝ)
    (hhom : ∀ k : ℝ, 0 < k → ∀ vs, ρ (vs.map (V3.smul k)) = k * ρ vs)
    {v : ℝ} (hv : 0 < v) (hcur : 0 < ρ s.verts) :
    ∃ k s', 0 < k ∧ s.setRadius (ρ s.verts) v = .ok s' ∧ ρ s'.verts = v ∧
      s'.verts = s.verts.map (V3.smul k) := by
  obtain ⟨k, hk, hf, he⟩ := setterFactor_spec (Or.inl rfl) hcur hv
  refine ⟨k, s.rescale k, hk, ?_, ?_, rfl⟩
  · unfold PHState.setRadius; rw [hf]; rfl
  · show ρ (s.verts.map (V3.smul k)) = v
    rw [hhom k hk]; linarith [he, pow_one k]

theorem ph_bad_target_refused (s : PHState ℝ) {v : ℝ} (hv : ¬ 0 < v) (cur : ℝ) :
    s.setVolume v = .error "ValueError" ∧ s.setSurfaceArea v = .error "ValueError" ∧
    s.setRadius cur v = .error "ValueError" := by
  refine ⟨?_, ?_, ?_⟩
  · unfold PHState.setVolume; rw [setterFactor_bad _ _ hv]; rfl
  · unfold PHState.setSurfaceArea; rw [setterFactor_bad _ _ hv]; rfl
  · unfold PHState.setRadius; rw [setterFactor_bad _ _ hv]; rfl

/-- the isoperimetric quotient of a Polyhedron is unchanged by `_rescale` -/
theorem ph_rescale_preserves_iq (s : PHState ℝ) {k : ℝ} (hk : 0 < k) (hS : s.surfaceArea ≠ 0) :
    36 * Real.pi * (s.rescale k).volume ^ 2 / (s.rescale k).surfaceArea ^ 3
      = 36 * Real.pi * s.volume ^ 2 / s.surfaceArea ^ 3 := by
  rw [ph_volume_rescale s hk, ph_surfaceArea_rescale s hk]
  have hk' : k ≠ 0 := hk.ne'
  field_simp

/-- the Polyhedron centroid setter is a pure translation of the vertices -/
theorem ph_setCentroid_translation (s : PHState ℝ) (cur c : V3 ℝ) :
    (s.setCentroid cur c).verts = s.verts.map (· + (c - cur)) := rfl

/-! ### Polygon / ConvexPolygon -/

theorem pg_area_rescale (s : PGState ℝ) (k : ℝ) : (s.rescale k).area = s.area * k ^ 2 := by
  show Poly2.area (s.verts.map (V3.smul k)) s.normal = Poly2.area s.verts s.normal * k ^ 2
  rw [area_smul]; ring

theorem pg_perimeter_rescale (s : PGState ℝ) {k : ℝ} (hk : 0 ≤ k) : (s.rescale k).perimeter = s.perimeter * k := by
  show Poly2.perimeter (s.verts.map (V3.smul k)) = Poly2.perimeter s.verts * k
  rw [perimeter_smul hk]; ring

/-- **`Polygon.area.setter` reads back and is a similarity** -/
theorem pg_setArea_reads_back (s : PGState ℝ) {v : ℝ} (hv : 0 < v) (hs : 0 < s.area) :
    ∃ k s', 0 < k ∧ s.setArea v = .ok s' ∧ s'.area = v ∧ s'.verts = s.verts.map (V3.smul k) ∧
      s'.normal = s.normal ∧ s'.perimeter = s.perimeter * k := by
  obtain ⟨k, hk, hf, he⟩ := setterFactor_spec (Or.inr (Or.inl rfl)) hs hv
  refine ⟨k, s.rescale k, hk, ?_, ?_, rfl, rfl, pg_perimeter_rescale s hk.le⟩
  · unfold PGState.setArea; rw [hf]; rfl
  · rw [pg_area_rescale]; exact he

/-- **`Polygon.perimeter.setter` reads back and is a similarity** -/
theorem pg_setPerimeter_reads_back (s : PGState ℝ) {v : ℝ} (hv : 0 < v) (hs : 0 < s.perimeter) :
    ∃ k s', 0 < k ∧ s.setPerimeter v = .ok s' ∧ s'.perimeter = v ∧ s'.verts = s.verts.map (V3.smul k) ∧
      s'.normal = s.normal ∧ s'.area = s.area * k ^ 2 := by
  obtain ⟨k, hk, hf, he⟩ := setterFactor_spec (Or.inl rfl) hs hv
  refine ⟨k, s.rescale k, hk, ?_, ?_, rfl, rfl, pg_area_rescale s k⟩
  · unfold PGState.setPerimeter; rw [hf]; rfl
  · rw [pg_perimeter_rescale s hk.le]; linarith [he, pow_one k]

/-- **`Polygon` radius setters** (circumcircle, incircle, bounding / bounded circles) -/
theorem pg_setRadius_reads_back (s : PGState ℝ) (ρ : List (V3 ℝ) → ℝ)
    (hhom : ∀ k : ℝ, 0 < k → ∀ vs, ρ (vs.map (V3.smul k)) = k * ρ vs)
    {v : ℝ} (hv : 0 < v) (hcur : 0 < ρ s.verts) :
    ∃ k s', 0 < k ∧ s.setRadius (ρ s.verts) v = .ok s' ∧ ρ s'.verts = v ∧
      s'.verts = s.verts.map (V3.smul k) ∧ s'.normal = s.normal := by
  obtain ⟨k, hk, hf, he⟩ := setterFactor_spec (Or.inl rfl) hcur hv
  refine ⟨k, s.rescale k, hk, ?_, ?_, rfl, rfl⟩
  · unfold PGState.setRadius; rw [hf]; rfl
  · show ρ (s.verts.map (V3.smul k)) = v
    rw [hhom k hk]; linarith [he, pow_one k]

theorem pg_bad_target_refused (s : PGState ℝ) {v : ℝ} (hv : ¬ 0 < v) (cur : ℝ) :
    s.setArea v = .error "ValueError" ∧ s.setPerimeter v = .error "ValueError" ∧
    s.setRadius cur v = .error "ValueError" := by
  refine ⟨?_, ?_, ?_⟩
  · unfold PGState.setArea; rw [setterFactor_bad _ _ hv]; rfl
  · unfold PGState.setPerimeter; rw [setterFactor_bad _ _ hv]; rfl
  · unfold PGState.setRadius; rw [setterFactor_bad _ _ hv]; rfl

/-- the 2-D isoperimetric quotient `4πA/p²` is unchanged by `_rescale` -/
theorem pg_rescale_preserves_iq (s : PGState ℝ) {k : ℝ} (hk : 0 < k) (hp : s.perimeter ≠ 0) :
    4 * Real.pi * (s.rescale k).area / (s.rescale k).perimeter ^ 2 = 4 * Real.pi * s.area / s.perimeter ^ 2 := by
  rw [pg_area_rescale, pg_perimeter_rescale s hk.le]
  have hk' : k ≠ 0 := hk.ne'
  field_simp

theorem pg_setCentroid_translation (s : PGState ℝ) (cur c : V3 ℝ) :
    (s.setCentroid cur c).verts = s.verts.map (· + (c - cur)) ∧ (s.setCentroid cur c).normal = s.normal :=
  ⟨rfl, rfl⟩

/-! ### ConvexSpheropolygon -/

/-- the state `_rescale(k)` produces when it does not raise -/
def spgScaled (s : SPGState ℝ) (k : ℝ) : SPGState ℝ := ⟨s.core.rescale k, s.radius * k⟩

/-- perimeter `P + 2πr` is homogeneous of degree 1 -/
theorem spg_perimeter_rescale (s : SPGState ℝ) {k : ℝ} (hk : 0 ≤ k) :
    (spgScaled s k).perimeter = s.perimeter * k := by
  show Poly2.perimeter (s.core.verts.map (V3.smul k)) + lit 2 * Scalar.pi * (s.radius * k)
    = (Poly2.perimeter s.core.verts + lit 2 * Scalar.pi * s.radius) * k
  rw [perimeter_smul hk]; ring

/-- area `|A ± (P r + π r²)|` is homogeneous of degree 2 -/
theorem spg_area_rescale (s : SPGState ℝ) {k : ℝ} (hk : 0 < k) :
    (spgScaled s k).area = s.area * k ^ 2 := by
  have hkk : 0 < k * k := by positivity
  have hsa : (spgScaled s k).signedArea = s.signedArea * (k * k) := by
    unfold SPGState.signedArea
    simp only [spgScaled, PGState.rescale, signedArea_smul, edgeSum_smul hk.le]
    have hiff : (k * k * Poly2.signedArea s.core.verts s.core.normal < (lit 0 : ℝ)) ↔
        (Poly2.signedArea s.core.verts s.core.normal < (lit 0 : ℝ)) := by
      simp only [Scalar.lit, Scalar.ofNat_real, Nat.cast_zero]
      constructor
      · intro h; by_contra hn; have hn' := not_lt.mp hn; nlinarith [mul_nonneg hkk.le hn']
      · intro h; nlinarith
    by_cases hneg : Poly2.signedArea s.core.verts s.core.normal < (lit 0 : ℝ)
    · rw [if_pos (hiff.mpr hneg), if_pos hneg]; ring
    · rw [if_neg (fun h => hneg (hiff.mp h)), if_neg hneg]; ring
  unfold SPGState.area
  rw [hsa, Scalar.abs_real, Scalar.abs_real, abs_mul, abs_of_pos hkk]; ring

/-- **`ConvexSpheropolygon.perimeter.setter` reads back; core and rounding radius scale alike** -/
theorem spg_setPerimeter_reads_back (s : SPGState ℝ) {v : ℝ} (hv : 0 < v) (hs : 0 < s.perimeter)
    (hr : 0 ≤ s.radius) :
    ∃ k s', 0 < k ∧ s.setPerimeter v = .ok s' ∧ s'.perimeter = v ∧
      s'.core.verts = s.core.verts.map (V3.smul k) ∧ s'.radius = s.radius * k := by
  obtain ⟨k, hk, hf, he⟩ := setterFactor_spec (Or.inl rfl) hs hv
  refine ⟨k, spgScaled s k, hk, ?_, ?_, rfl, rfl⟩
  · unfold SPGState.setPerimeter; rw [hf]; exact spg_rescale_ok s hk.le hr
  · rw [spg_perimeter_rescale s hk.le]; linarith [he, pow_one k]

/-- **`ConvexSpheropolygon.area.setter` reads back; core and rounding radius scale alike** -/
theorem spg_setArea_reads_back (s : SPGState ℝ) {v : ℝ} (hv : 0 < v) (hs : 0 < s.area) (hr : 0 ≤ s.radius) :
    ∃ k s', 0 < k ∧ s.setArea v = .ok s' ∧ s'.area = v ∧
      s'.core.verts = s.core.verts.map (V3.smul k) ∧ s'.radius = s.radius * k := by
  obtain ⟨k, hk, hf, he⟩ := setterFactor_spec (Or.inr (Or.inl rfl)) hs hv
  refine ⟨k, spgScaled s k, hk, ?_, ?_, rfl, rfl⟩
  · unfold SPGState.setArea; rw [hf]; exact spg_rescale_ok s hk.le hr
  · rw [spg_area_rescale s hk]; exact he

/-- **the rounding radius is a shape parameter**: a non-negative value (zero included) reads back
and nothing else changes; a negative one is refused -/
theorem spg_setRadius_reads_back (s : SPGState ℝ) {v : ℝ} (hv : 0 ≤ v) :
    ∃ s', s.setRadiusAbs v = .ok s' ∧ s'.radius = v ∧ s'.core = s.core :=
  ⟨_, spg_setRadiusAbs_ok s hv, rfl, rfl⟩

theorem spg_bad_target_refused (s : SPGState ℝ) {v : ℝ} (hv : ¬ 0 < v) :
    s.setArea v = .error "ValueError" ∧ s.setPerimeter v = .error "ValueError" := by
  constructor
  · unfold SPGState.setArea; rw [setterFactor_bad _ _ hv]; rfl
  · unfold SPGState.setPerimeter; rw [setterFactor_bad _ _ hv]; rfl

theorem spg_negative_radius_refused (s : SPGState ℝ) {v : ℝ} (hv : v < 0) :
    s.setRadiusAbs v = .error "ValueError" := spg_setRadiusAbs_bad s (not_le.mpr hv)

/-! ### ConvexSpheropolyhedron -/

def sphScaled (s : SPHState ℝ) (k : ℝ) : SPHState ℝ := ⟨s.core.rescale k, s.radius * k⟩

/-- the Steiner forms of the getters are homogeneous (of degree 3, 2, 1) when the core's mean
curvature `h` is homogeneous of degree 1 -/
theorem sph_steiner_rescale (s : SPHState ℝ) (k h : ℝ) :
    (sphScaled s k).steinerVolume (k * h) = s.steinerVolume h * k ^ 3 ∧
    (sphScaled s k).steinerArea (k * h) = s.steinerArea h * k ^ 2 ∧
    (sphScaled s k).steinerCurvature (k * h) = s.steinerCurvature h * k := by
  refine ⟨?_, ?_, ?_⟩
  · show s.core.volume * (k * k * k) + s.core.area * (k * k) * (s.radius * k)
        + lit 4 * Scalar.pi * (k * h) * (s.radius * k * (s.radius * k))
        + q 4 3 * Scalar.pi * (s.radius * k * (s.radius * k) * (s.radius * k)) = _
    unfold SPHState.steinerVolume; ring
  · show s.core.area * (k * k) + lit 8 * Scalar.pi * (k * h) * (s.radius * k)
        + lit 4 * Scalar.pi * (s.radius * k * (s.radius * k)) = _
    unfold SPHState.steinerArea; ring
  · show k * h + s.radius * k = _
    unfold SPHState.steinerCurvature; ring

/-- **`ConvexSpheropolyhedron` volume / surface-area / mean-curvature setters**: any getter `g`
that is homogeneous of the setter's degree under `_rescale` reads back; core vertices and
rounding radius scale by the same positive factor -/
theorem sph_setSize_reads_back (s : SPHState ℝ) (g : SPHState ℝ → ℝ) {deg : Nat}
    (hdeg : deg = 1 ∨ deg = 2 ∨ deg = 3)
    (hhom : ∀ k : ℝ, 0 < k → g (sphScaled s k) = g s * k ^ deg)
    {v : ℝ} (hv : 0 < v) (hcur : 0 < g s) (hr : 0 ≤ s.radius) :
    ∃ k s', 0 < k ∧ s.setSize deg (g s) v = .ok s' ∧ g s' = v ∧
      s'.core.verts = s.core.verts.map (V3.smul k) ∧ s'.radius = s.radius * k := by
  obtain ⟨k, hk, hf, he⟩ := setterFactor_spec hdeg hcur hv
  refine ⟨k, sphScaled s k, hk, ?_, ?_, rfl, rfl⟩
  · unfold SPHState.setSize; rw [hf]; exact sph_rescale_ok s hk.le hr
  · rw [hhom k hk]; exact he

theorem sph_setRadius_reads_back (s : SPHState ℝ) {v : ℝ} (hv : 0 ≤ v) :
    ∃ s', s.setRadiusAbs v = .ok s' ∧ s'.radius = v ∧ s'.core = s.core :=
  ⟨_, sph_setRadiusAbs_ok s hv, rfl, rfl⟩

theorem sph_bad_target_refused (s : SPHState ℝ) {v : ℝ} (hv : ¬ 0 < v) (deg : Nat) (cur : ℝ) :
    s.setSize deg cur v = .error "ValueError" := by
  unfold SPHState.setSize; rw [setterFactor_bad _ _ hv]; rfl

theorem sph_negative_radius_refused (s : SPHState ℝ) {v : ℝ} (hv : v < 0) :
    s.setRadiusAbs v = .error "ValueError" := sph_setRadiusAbs_bad s (not_le.mpr hv)

/-! ### non-vacuity -/
example : ∃ k, 0 < k ∧ setterFactor 2 (3:ℝ) 12 = .ok k ∧ 3 * k ^ 2 = 12 :=
  setterFactor_spec (Or.inr (Or.inl rfl)) (by norm_num) (by norm_num)

example : (⟨⟨[⟨0, 0, 0⟩, ⟨1, 0, 0⟩, ⟨0, 1, 0⟩], ⟨0, 0, 1⟩⟩, 1 / 2⟩ : SPGState ℝ).setRadiusAbs 0
    = .ok ⟨⟨[⟨0, 0, 0⟩, ⟨1, 0, 0⟩, ⟨0, 1, 0⟩], ⟨0, 0, 1⟩⟩, 0⟩ :=
  spg_setRadiusAbs_ok _ le_rfl

end
