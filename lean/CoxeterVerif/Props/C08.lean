import CoxeterVerif.Lemmas.Mutable
/-!
  # C08 — size setters hit their target by pure similarity; bad targets are refused

  On the `CPState` machine of `Model/Mutable.lean` (the `ConvexPolyhedron` setters; the other
  classes use the same `setterFactor` guard + `_rescale` pattern, which the correspondence checks
  per setter): for every positive target the property reads back exactly, the new vertices are the
  old ones times one positive factor, dimensionless descriptors are unchanged; every non-positive
  target is refused with `ValueError` and no state change.
-/
open Scalar Mut
set_option maxRecDepth 4000
noncomputable section

/-- **volume setter reads back and is a similarity** -/
theorem setVolume_reads_back (s : CPState ℝ) {v : ℝ} (hv : 0 < v) (hs : 0 < s.volume) :
    ∃ k s', 0 < k ∧ s.setVolume v = .ok s' ∧ s'.volume = v ∧
      s'.verts = s.verts.map (V3.smul k) ∧ s'.area = s.area * (k * k) := by
  have h0 : (lit 0 : ℝ) < v := by simpa [Scalar.lit] using hv
  have hq : 0 < v / s.volume := div_pos hv hs
  refine ⟨Scalar.cbrt (v / s.volume), s.rescale (Scalar.cbrt (v / s.volume)), cbrt_pos hq, ?_, ?_, rfl, rfl⟩
  · unfold CPState.setVolume setterFactor
    rw [if_neg (not_not.mpr h0)]; rfl
  · show s.volume * (Scalar.cbrt (v / s.volume) * Scalar.cbrt (v / s.volume) * Scalar.cbrt (v / s.volume)) = v
    rw [cbrt_cube hq]; field_simp

/-- **surface-area setter reads back and is a similarity** -/
theorem setSurfaceArea_reads_back (s : CPState ℝ) {v : ℝ} (hv : 0 < v) (hs : 0 < s.area) :
    ∃ k s', 0 < k ∧ s.setSurfaceArea v = .ok s' ∧ s'.area = v ∧
      s'.verts = s.verts.map (V3.smul k) ∧ s'.volume = s.volume * (k * k * k) := by
  have h0 : (lit 0 : ℝ) < v := by simpa [Scalar.lit] using hv
  have hq : 0 < v / s.area := div_pos hv hs
  refine ⟨Scalar.sqrt (v / s.area), s.rescale (Scalar.sqrt (v / s.area)), Real.sqrt_pos.mpr hq, ?_, ?_, rfl, rfl⟩
  · unfold CPState.setSurfaceArea setterFactor
    rw [if_neg (not_not.mpr h0)]; rfl
  · show s.area * (Scalar.sqrt (v / s.area) * Scalar.sqrt (v / s.area)) = v
    rw [sqrt_sq' hq]; field_simp

/-- **generic `*_radius` setters**: any length-like quantity `ρ` of the shape that is homogeneous
of degree one (`ρ (k·X) = k·ρ X`) reads back as assigned after `_rescale(value / ρ)`. -/
theorem setRadius_reads_back (s : CPState ℝ) (ρ : List (V3 ℝ) → ℝ)
    (hhom : ∀ k : ℝ, 0 < k → ∀ vs, ρ (vs.map (V3.smul k)) = k * ρ vs)
    {v : ℝ} (hv : 0 < v) (hcur : 0 < ρ s.verts) :
    ∃ k s', 0 < k ∧ s.setRadius (ρ s.verts) v = .ok s' ∧ ρ s'.verts = v ∧
      s'.verts = s.verts.map (V3.smul k) := by
  have h0 : (lit 0 : ℝ) < v := by simpa [Scalar.lit] using hv
  have hq : 0 < v / ρ s.verts := div_pos hv hcur
  refine ⟨v / ρ s.verts, s.rescale (v / ρ s.verts), hq, ?_, ?_, rfl⟩
  · unfold CPState.setRadius setterFactor
    rw [if_neg (not_not.mpr h0)]; rfl
  · show ρ (s.verts.map (V3.smul (v / ρ s.verts))) = v
    rw [hhom _ hq]; field_simp

/-- **bad targets are refused** (zero, negative — and at `Float`, where `nan > 0` is false, nan):
every size setter raises `ValueError`, and by construction of `Except` there is no new state. -/
theorem bad_target_refused (s : CPState ℝ) {v : ℝ} (hv : ¬ 0 < v) (cur : ℝ) :
    s.setVolume v = .error "ValueError" ∧ s.setSurfaceArea v = .error "ValueError" ∧
    s.setRadius cur v = .error "ValueError" := by
  have h0 : ¬ (lit 0 : ℝ) < v := by simpa [Scalar.lit] using hv
  refine ⟨?_, ?_, ?_⟩
  · unfold CPState.setVolume setterFactor; rw [if_pos h0]; rfl
  · unfold CPState.setSurfaceArea setterFactor; rw [if_pos h0]; rfl
  · unfold CPState.setRadius setterFactor; rw [if_pos h0]; rfl

/-- the guard in isolation: `setterFactor` succeeds exactly for positive targets -/
theorem setterFactor_ok_iff (deg : Nat) (cur tgt : ℝ) :
    (∃ k, setterFactor deg cur tgt = .ok k) ↔ 0 < tgt := by
  unfold setterFactor
  constructor
  · rintro ⟨k, hk⟩
    by_contra hneg
    have h0 : ¬ (lit 0 : ℝ) < tgt := by simpa [Scalar.lit] using hneg
    rw [if_pos h0] at hk; cases hk
  · intro ht
    have h0 : (lit 0 : ℝ) < tgt := by simpa [Scalar.lit] using ht
    rw [if_neg (not_not.mpr h0)]
    split_ifs <;> exact ⟨_, rfl⟩

/-- **dimensionless descriptors are preserved** by `_rescale`: the isoperimetric quotient
`36π V²/S³` of the cached volume and area is unchanged. -/
theorem rescale_preserves_iq (s : CPState ℝ) {k : ℝ} (hk : 0 < k) (hS : s.area ≠ 0) :
    36 * Real.pi * (s.rescale k).volume ^ 2 / (s.rescale k).area ^ 3
      = 36 * Real.pi * s.volume ^ 2 / s.area ^ 3 := by
  show 36 * Real.pi * (s.volume * (k * k * k)) ^ 2 / (s.area * (k * k)) ^ 3 = _
  have hk' : k ≠ 0 := hk.ne'
  field_simp

/-- the centroid setter is a pure translation of the vertices -/
theorem setCentroid_translation (s : CPState ℝ) (c : V3 ℝ) :
    (s.setCentroid c).verts = s.verts.map (· + (c - s.centroid)) := rfl

/-! ### non-vacuity -/
example : ∃ k, setterFactor 3 (2:ℝ) 16 = .ok k ∧ k * k * k = 8 := by
  refine ⟨Scalar.cbrt (16 / 2), ?_, ?_⟩
  · unfold setterFactor
    have : (lit 0 : ℝ) < 16 := by simp [Scalar.lit]
    rw [if_neg (not_not.mpr this)]; rfl
  · have := cbrt_cube (show (0:ℝ) < 16 / 2 by norm_num)
    rw [this]; norm_num

end
