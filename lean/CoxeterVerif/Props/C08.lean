import CoxeterVerif.Lemmas.Mutable2
import CoxeterVerif.Lemmas.Setters
import CoxeterVerif.Lemmas.SettersEllip
import CoxeterVerif.Lemmas.SettersSph
import CoxeterVerif.Lemmas.SettersBalls
import CoxeterVerif.Lemmas.SettersHeap
/-!
  # C08 — size setters hit their target by pure similarity; bad targets are refused

  On the `CPState` machine of `Model/Mutable.lean` (the `ConvexPolyhedron` setters) and, in the
  extension at the end of the file, on the machines of `Model/Mutable2.lean` for `Polyhedron`,
  `Polygon`/`ConvexPolygon`, `ConvexSpheropolygon`, `ConvexSpheropolyhedron`: for every positive target the property reads back exactly, the new vertices are the
  old ones times one positive factor, dimensionless descriptors are unchanged; every non-positive
  target is refused with `ValueError` and no state change.
-/
open Scalar Mut
set_option maxRecDepth 4000
noncomputable section

/-- **volume setter reads back and is a similarity** -/
theorem setVolume_reads_back (s : CPState ℝ) {v : ℝ} (hv : 0 < v) (hs : 0 < s.volume) :
    ∃ k s', 0 < k ∧ s.setVolume v = .ok s' ∧ s'.volume = v ∧
      s'.verts = s.verts.map (V3.smul k) ∧ s'.area = s.area * (k * k) := by
  have h0 : (lit 0 : ℝ) < v := by simpa [Scalar.lit] using hv
  have hq : 0 < v / s.volume := div_pos hv hs
  refine ⟨Scalar.cbrt (v / s.volume), s.rescale (Scalar.cbrt (v / s.volume)), cbrt_pos hq, ?_, ?_, rfl, rfl⟩
  · unfold CPState.setVolume setterFactor
    rw [if_neg (not_not.mpr h0)]; rfl
  · show s.volume * (Scalar.cbrt (v / s.volume) * Scalar.cbrt (v / s.volume) * Scalar.cbrt (v / s.volume)) = v
    rw [cbrt_cube hq]; field_simp

/-- **surface-area setter reads back and is a similarity** -/
theorem setSurfaceArea_reads_back (s : CPState ℝ) {v : ℝ} (hv : 0 < v) (hs : 0 < s.area) :
    ∃ k s', 0 < k ∧ s.setSurfaceArea v = .ok s' ∧ s'.area = v ∧
      s'.verts = s.verts.map (V3.smul k) ∧ s'.volume = s.volume * (k * k * k) := by
  have h0 : (lit 0 : ℝ) < v := by simpa [Scalar.lit] using hv
  have hq : 0 < v / s.area := div_pos hv hs
  refine ⟨Scalar.sqrt (v / s.area), s.rescale (Scalar.sqrt (v / s.area)), Real.sqrt_pos.mpr hq, ?_, ?_, rfl, rfl⟩
  · unfold CPState.setSurfaceArea setterFactor
    rw [if_neg (not_not.mpr h0)]; rfl
  · show s.area * (Scalar.sqrt (v / s.area) * Scalar.sqrt (v / s.area)) = v
    rw [sqrt_sq' hq]; field_simp

/-- **generic `*_radius` setters**: any length-like quantity `ρ` of the shape that is homogeneous
of degree one (`ρ (k·X) = k·ρ X`) reads back as assigned after `_rescale(value / ρ)`. -/
theorem setRadius_reads_back (s : CPState ℝ) (ρ : List (V3 ℝ) → ℝ)
    (hhom : ∀ k : ℝ, 0 < k → ∀ vs, ρ (vs.map (V3.smul k)) = k * ρ vs)
    {v : ℝ} (hv : 0 < v) (hcur : 0 < ρ s.verts) :
    ∃ k s', 0 < k ∧ s.setRadius (ρ s.verts) v = .ok s' ∧ ρ s'.verts = v ∧
      s'.verts = s.verts.map (V3.smul k) := by
  have h0 : (lit 0 : ℝ) < v := by simpa [Scalar.lit] using hv
  have hq : 0 < v / ρ s.verts := div_pos hv hcur
  refine ⟨v / ρ s.verts, s.rescale (v / ρ s.verts), hq, ?_, ?_, rfl⟩
  · unfold CPState.setRadius setterFactor
    rw [if_neg (not_not.mpr h0)]; rfl
  · show ρ (s.verts.map (V3.smul (v / ρ s.verts))) = v
    rw [hhom _ hq]; field_simp

/-- **bad targets are refused** (zero, negative — and at `Float`, where `nan > 0` is false, nan):
every size setter raises `ValueError`, and by construction of `Except` there is no new state. -/
theorem bad_target_refused (s : CPState ℝ) {v : ℝ} (hv : ¬ 0 < v) (cur : ℝ) :
    s.setVolume v = .error "ValueError" ∧ s.setSurfaceArea v = .error "ValueError" ∧
    s.setRadius cur v = .error "ValueError" := by
  have h0 : ¬ (lit 0 : ℝ) < v := by simpa [Scalar.lit] using hv
  refine ⟨?_, ?_, ?_⟩
  · unfold CPState.setVolume setterFactor; rw [if_pos h0]; rfl
  · unfold CPState.setSurfaceArea setterFactor; rw [if_pos h0]; rfl
  · unfold CPState.setRadius setterFactor; rw [if_pos h0]; rfl

/-- the guard in isolation: `setterFactor` succeeds exactly for positive targets -/
theorem setterFactor_ok_iff (deg : Nat) (cur tgt : ℝ) :
    (∃ k, setterFactor deg cur tgt = .ok k) ↔ 0 < tgt := by
  unfold setterFactor
  constructor
  · rintro ⟨k, hk⟩
    by_contra hneg
    have h0 : ¬ (lit 0 : ℝ) < tgt := by simpa [Scalar.lit] using hneg
    rw [if_pos h0] at hk; cases hk
  · intro ht
    have h0 : (lit 0 : ℝ) < tgt := by simpa [Scalar.lit] using ht
    rw [if_neg (not_not.mpr h0)]
    split_ifs <;> exact ⟨_, rfl⟩

/-- **dimensionless descriptors are preserved** by `_rescale`: the isoperimetric quotient
`36π V²/S³` of the cached volume and area is unchanged. -/
theorem rescale_preserves_iq (s : CPState ℝ) {k : ℝ} (hk : 0 < k) (hS : s.area ≠ 0) :
    36 * Real.pi * (s.rescale k).volume ^ 2 / (s.rescale k).area ^ 3
      = 36 * Real.pi * s.volume ^ 2 / s.area ^ 3 := by
  show 36 * Real.pi * (s.volume * (k * k * k)) ^ 2 / (s.area * (k * k)) ^ 3 = _
  have hk' : k ≠ 0 := hk.ne'
  field_simp

/-- the centroid setter is a pure translation of the vertices -/
theorem setCentroid_translation (s : CPState ℝ) (c : V3 ℝ) :
    (s.setCentroid c).verts = s.verts.map (· + (c - s.centroid)) := rfl

/-! ### non-vacuity -/
example : ∃ k, setterFactor 3 (2:ℝ) 16 = .ok k ∧ k * k * k = 8 := by
  refine ⟨Scalar.cbrt (16 / 2), ?_, ?_⟩
  · unfold setterFactor
    have : (lit 0 : ℝ) < 16 := by simp [Scalar.lit]
    rw [if_neg (not_not.mpr this)]; rfl
  · have := cbrt_cube (show (0:ℝ) < 16 / 2 by norm_num)
    rw [this]; norm_num

end

/-!
  ## Extension: the other vertex-based classes (`Model/Mutable2.lean`)

  Read-back theorems where the getter is a closed form of the model (`Polyhedron.volume`,
  `Polyhedron.surface_area`, `Polygon.area`, `Polygon.perimeter`, the spheropolygon's area and
  perimeter, the Steiner forms of the spheropolyhedron), generic ones (any homogeneous getter)
  elsewhere; guards; the rounding radius as a shape parameter.
-/
noncomputable section

/-! ### Polyhedron -/

theorem ph_faceAreas_rescale (s : PHState ℝ) {k : ℝ} (hk : 0 < k) :
    (s.rescale k).faceAreas = s.faceAreas.map (fun a => k * k * a) := by
  unfold PHState.faceAreas PHState.rescale
  simp only [List.map_map]
  apply List.map_congr_left
  intro f _
  exact facePolyArea_smul hk s.verts f

/-- the on-demand volume `Σ(−d)A/3` is homogeneous of degree 3 under `_rescale` -/
theorem ph_volume_rescale (s : PHState ℝ) {k : ℝ} (hk : 0 < k) :
    (s.rescale k).volume = s.volume * k ^ 3 := by
  unfold PHState.volume Poly3.volume
  rw [ph_faceAreas_rescale s hk]
  show Scalar.sum (((s.eqD.map (· * k)).zip (s.faceAreas.map fun a => k * k * a)).map _) / lit 3 = _
  simp only [Scalar.sum_real, sum_zip_volume]
  ring

theorem ph_surfaceArea_rescale (s : PHState ℝ) {k : ℝ} (hk : 0 < k) :
    (s.rescale k).surfaceArea = s.surfaceArea * k ^ 2 := by
  unfold PHState.surfaceArea
  rw [ph_faceAreas_rescale s hk]
  simp only [Scalar.sum_real]
  rw [show (fun a : ℝ => k * k * a) = (fun a => (k * k) * id a) by rfl, list_sum_map_mul, List.map_id]
  ring

/-- **`Polyhedron.volume.setter` reads back and is a similarity** -/
theorem ph_setVolume_reads_back (s : PHState ℝ) {v : ℝ} (hv : 0 < v) (hs : 0 < s.volume) :
    ∃ k s', 0 < k ∧ s.setVolume v = .ok s' ∧ s'.volume = v ∧ s'.verts = s.verts.map (V3.smul k) ∧
      s'.surfaceArea = s.surfaceArea * k ^ 2 := by
  obtain ⟨k, hk, hf, he⟩ := setterFactor_spec (Or.inr (Or.inr rfl)) hs hv
  refine ⟨k, s.rescale k, hk, ?_, ?_, rfl, ph_surfaceArea_rescale s hk⟩
  · unfold PHState.setVolume; rw [hf]; rfl
  · rw [ph_volume_rescale s hk]; exact he

/-- **`Polyhedron.surface_area.setter` reads back and is a similarity** -/
theorem ph_setSurfaceArea_reads_back (s : PHState ℝ) {v : ℝ} (hv : 0 < v) (hs : 0 < s.surfaceArea) :
    ∃ k s', 0 < k ∧ s.setSurfaceArea v = .ok s' ∧ s'.surfaceArea = v ∧ s'.verts = s.verts.map (V3.smul k) ∧
      s'.volume = s.volume * k ^ 3 := by
  obtain ⟨k, hk, hf, he⟩ := setterFactor_spec (Or.inr (Or.inl rfl)) hs hv
  refine ⟨k, s.rescale k, hk, ?_, ?_, rfl, ph_volume_rescale s hk⟩
  · unfold PHState.setSurfaceArea; rw [hf]; rfl
  · rw [ph_surfaceArea_rescale s hk]; exact he

/-- **`Polyhedron` radius setters** (circumsphere, insphere, bounding / bounded spheres): any
degree-one homogeneous functional of the vertices reads back -/
theorem ph_setRadius_reads_back (s : PHState ℝ) (ρ : List (V3 ℝ) → ℝ)
    (hhom : ∀ k : ℝ, 0 < k → ∀ vs, ρ (vs.map (V3.smul k)) = k * ρ vs)
    {v : ℝ} (hv : 0 < v) (hcur : 0 < ρ s.verts) :
    ∃ k s', 0 < k ∧ s.setRadius (ρ s.verts) v = .ok s' ∧ ρ s'.verts = v ∧
      s'.verts = s.verts.map (V3.smul k) := by
  obtain ⟨k, hk, hf, he⟩ := setterFactor_spec (Or.inl rfl) hcur hv
  refine ⟨k, s.rescale k, hk, ?_, ?_, rfl⟩
  · unfold PHState.setRadius; rw [hf]; rfl
  · show ρ (s.verts.map (V3.smul k)) = v
    rw [hhom k hk]; linarith [he, pow_one k]

theorem ph_bad_target_refused (s : PHState ℝ) {v : ℝ} (hv : ¬ 0 < v) (cur : ℝ) :
    s.setVolume v = .error "ValueError" ∧ s.setSurfaceArea v = .error "ValueError" ∧
    s.setRadius cur v = .error "ValueError" := by
  refine ⟨?_, ?_, ?_⟩
  · unfold PHState.setVolume; rw [setterFactor_bad _ _ hv]; rfl
  · unfold PHState.setSurfaceArea; rw [setterFactor_bad _ _ hv]; rfl
  · unfold PHState.setRadius; rw [setterFactor_bad _ _ hv]; rfl

/-- the isoperimetric quotient of a Polyhedron is unchanged by `_rescale` -/
theorem ph_rescale_preserves_iq (s : PHState ℝ) {k : ℝ} (hk : 0 < k) (hS : s.surfaceArea ≠ 0) :
    36 * Real.pi * (s.rescale k).volume ^ 2 / (s.rescale k).surfaceArea ^ 3
      = 36 * Real.pi * s.volume ^ 2 / s.surfaceArea ^ 3 := by
  rw [ph_volume_rescale s hk, ph_surfaceArea_rescale s hk]
  have hk' : k ≠ 0 := hk.ne'
  field_simp

/-- the Polyhedron centroid setter is a pure translation of the vertices -/
theorem ph_setCentroid_translation (s : PHState ℝ) (cur c : V3 ℝ) :
    (s.setCentroid cur c).verts = s.verts.map (· + (c - cur)) := rfl

/-! ### Polygon / ConvexPolygon -/

theorem pg_area_rescale (s : PGState ℝ) (k : ℝ) : (s.rescale k).area = s.area * k ^ 2 := by
  show Poly2.area (s.verts.map (V3.smul k)) s.normal = Poly2.area s.verts s.normal * k ^ 2
  rw [area_smul]; ring

theorem pg_perimeter_rescale (s : PGState ℝ) {k : ℝ} (hk : 0 ≤ k) : (s.rescale k).perimeter = s.perimeter * k := by
  show Poly2.perimeter (s.verts.map (V3.smul k)) = Poly2.perimeter s.verts * k
  rw [perimeter_smul hk]; ring

/-- **`Polygon.area.setter` reads back and is a similarity** -/
theorem pg_setArea_reads_back (s : PGState ℝ) {v : ℝ} (hv : 0 < v) (hs : 0 < s.area) :
    ∃ k s', 0 < k ∧ s.setArea v = .ok s' ∧ s'.area = v ∧ s'.verts = s.verts.map (V3.smul k) ∧
      s'.normal = s.normal ∧ s'.perimeter = s.perimeter * k := by
  obtain ⟨k, hk, hf, he⟩ := setterFactor_spec (Or.inr (Or.inl rfl)) hs hv
  refine ⟨k, s.rescale k, hk, ?_, ?_, rfl, rfl, pg_perimeter_rescale s hk.le⟩
  · unfold PGState.setArea; rw [hf]; rfl
  · rw [pg_area_rescale]; exact he

/-- **`Polygon.perimeter.setter` reads back and is a similarity** -/
theorem pg_setPerimeter_reads_back (s : PGState ℝ) {v : ℝ} (hv : 0 < v) (hs : 0 < s.perimeter) :
    ∃ k s', 0 < k ∧ s.setPerimeter v = .ok s' ∧ s'.perimeter = v ∧ s'.verts = s.verts.map (V3.smul k) ∧
      s'.normal = s.normal ∧ s'.area = s.area * k ^ 2 := by
  obtain ⟨k, hk, hf, he⟩ := setterFactor_spec (Or.inl rfl) hs hv
  refine ⟨k, s.rescale k, hk, ?_, ?_, rfl, rfl, pg_area_rescale s k⟩
  · unfold PGState.setPerimeter; rw [hf]; rfl
  · rw [pg_perimeter_rescale s hk.le]; linarith [he, pow_one k]

/-- **`Polygon` radius setters** (circumcircle, incircle, bounding / bounded circles) -/
theorem pg_setRadius_reads_back (s : PGState ℝ) (ρ : List (V3 ℝ) → ℝ)
    (hhom : ∀ k : ℝ, 0 < k → ∀ vs, ρ (vs.map (V3.smul k)) = k * ρ vs)
    {v : ℝ} (hv : 0 < v) (hcur : 0 < ρ s.verts) :
    ∃ k s', 0 < k ∧ s.setRadius (ρ s.verts) v = .ok s' ∧ ρ s'.verts = v ∧
      s'.verts = s.verts.map (V3.smul k) ∧ s'.normal = s.normal := by
  obtain ⟨k, hk, hf, he⟩ := setterFactor_spec (Or.inl rfl) hcur hv
  refine ⟨k, s.rescale k, hk, ?_, ?_, rfl, rfl⟩
  · unfold PGState.setRadius; rw [hf]; rfl
  · show ρ (s.verts.map (V3.smul k)) = v
    rw [hhom k hk]; linarith [he, pow_one k]

theorem pg_bad_target_refused (s : PGState ℝ) {v : ℝ} (hv : ¬ 0 < v) (cur : ℝ) :
    s.setArea v = .error "ValueError" ∧ s.setPerimeter v = .error "ValueError" ∧
    s.setRadius cur v = .error "ValueError" := by
  refine ⟨?_, ?_, ?_⟩
  · unfold PGState.setArea; rw [setterFactor_bad _ _ hv]; rfl
  · unfold PGState.setPerimeter; rw [setterFactor_bad _ _ hv]; rfl
  · unfold PGState.setRadius; rw [setterFactor_bad _ _ hv]; rfl

/-- the 2-D isoperimetric quotient `4πA/p²` is unchanged by `_rescale` -/
theorem pg_rescale_preserves_iq (s : PGState ℝ) {k : ℝ} (hk : 0 < k) (hp : s.perimeter ≠ 0) :
    4 * Real.pi * (s.rescale k).area / (s.rescale k).perimeter ^ 2 = 4 * Real.pi * s.area / s.perimeter ^ 2 := by
  rw [pg_area_rescale, pg_perimeter_rescale s hk.le]
  have hk' : k ≠ 0 := hk.ne'
  field_simp

theorem pg_setCentroid_translation (s : PGState ℝ) (cur c : V3 ℝ) :
    (s.setCentroid cur c).verts = s.verts.map (· + (c - cur)) ∧ (s.setCentroid cur c).normal = s.normal :=
  ⟨rfl, rfl⟩

/-! ### ConvexSpheropolygon -/

/-- the state `_rescale(k)` produces when it does not raise -/
def spgScaled (s : SPGState ℝ) (k : ℝ) : SPGState ℝ := ⟨s.core.rescale k, s.radius * k⟩

/-- perimeter `P + 2πr` is homogeneous of degree 1 -/
theorem spg_perimeter_rescale (s : SPGState ℝ) {k : ℝ} (hk : 0 ≤ k) :
    (spgScaled s k).perimeter = s.perimeter * k := by
  show Poly2.perimeter (s.core.verts.map (V3.smul k)) + lit 2 * Scalar.pi * (s.radius * k)
    = (Poly2.perimeter s.core.verts + lit 2 * Scalar.pi * s.radius) * k
  rw [perimeter_smul hk]; ring

/-- area `|A ± (P r + π r²)|` is homogeneous of degree 2 -/
theorem spg_area_rescale (s : SPGState ℝ) {k : ℝ} (hk : 0 < k) :
    (spgScaled s k).area = s.area * k ^ 2 := by
  have hkk : 0 < k * k := by positivity
  have hsa : (spgScaled s k).signedArea = s.signedArea * (k * k) := by
    unfold SPGState.signedArea
    simp only [spgScaled, PGState.rescale, signedArea_smul, edgeSum_smul hk.le]
    have hiff : (k * k * Poly2.signedArea s.core.verts s.core.normal < (lit 0 : ℝ)) ↔
        (Poly2.signedArea s.core.verts s.core.normal < (lit 0 : ℝ)) := by
      simp only [Scalar.lit, Scalar.ofNat_real, Nat.cast_zero]
      constructor
      · intro h; by_contra hn; have hn' := not_lt.mp hn; nlinarith [mul_nonneg hkk.le hn']
      · intro h; nlinarith
    by_cases hneg : Poly2.signedArea s.core.verts s.core.normal < (lit 0 : ℝ)
    · rw [if_pos (hiff.mpr hneg), if_pos hneg]; ring
    · rw [if_neg (fun h => hneg (hiff.mp h)), if_neg hneg]; ring
  unfold SPGState.area
  rw [hsa, Scalar.abs_real, Scalar.abs_real, abs_mul, abs_of_pos hkk]; ring

/-- **`ConvexSpheropolygon.perimeter.setter` reads back; core and rounding radius scale alike** -/
theorem spg_setPerimeter_reads_back (s : SPGState ℝ) {v : ℝ} (hv : 0 < v) (hs : 0 < s.perimeter)
    (hr : 0 ≤ s.radius) :
    ∃ k s', 0 < k ∧ s.setPerimeter v = .ok s' ∧ s'.perimeter = v ∧
      s'.core.verts = s.core.verts.map (V3.smul k) ∧ s'.radius = s.radius * k := by
  obtain ⟨k, hk, hf, he⟩ := setterFactor_spec (Or.inl rfl) hs hv
  refine ⟨k, spgScaled s k, hk, ?_, ?_, rfl, rfl⟩
  · unfold SPGState.setPerimeter; rw [hf]; exact spg_rescale_ok s hk.le hr
  · rw [spg_perimeter_rescale s hk.le]; linarith [he, pow_one k]

/-- **`ConvexSpheropolygon.area.setter` reads back; core and rounding radius scale alike** -/
theorem spg_setArea_reads_back (s : SPGState ℝ) {v : ℝ} (hv : 0 < v) (hs : 0 < s.area) (hr : 0 ≤ s.radius) :
    ∃ k s', 0 < k ∧ s.setArea v = .ok s' ∧ s'.area = v ∧
      s'.core.verts = s.core.verts.map (V3.smul k) ∧ s'.radius = s.radius * k := by
  obtain ⟨k, hk, hf, he⟩ := setterFactor_spec (Or.inr (Or.inl rfl)) hs hv
  refine ⟨k, spgScaled s k, hk, ?_, ?_, rfl, rfl⟩
  · unfold SPGState.setArea; rw [hf]; exact spg_rescale_ok s hk.le hr
  · rw [spg_area_rescale s hk]; exact he

/-- **the rounding radius is a shape parameter**: a non-negative value (zero included) reads back
and nothing else changes; a negative one is refused -/
theorem spg_setRadius_reads_back (s : SPGState ℝ) {v : ℝ} (hv : 0 ≤ v) :
    ∃ s', s.setRadiusAbs v = .ok s' ∧ s'.radius = v ∧ s'.core = s.core :=
  ⟨_, spg_setRadiusAbs_ok s hv, rfl, rfl⟩

theorem spg_bad_target_refused (s : SPGState ℝ) {v : ℝ} (hv : ¬ 0 < v) :
    s.setArea v = .error "ValueError" ∧ s.setPerimeter v = .error "ValueError" := by
  constructor
  · unfold SPGState.setArea; rw [setterFactor_bad _ _ hv]; rfl
  · unfold SPGState.setPerimeter; rw [setterFactor_bad _ _ hv]; rfl

theorem spg_negative_radius_refused (s : SPGState ℝ) {v : ℝ} (hv : v < 0) :
    s.setRadiusAbs v = .error "ValueError" := spg_setRadiusAbs_bad s (not_le.mpr hv)

/-! ### ConvexSpheropolyhedron -/

def sphScaled (s : SPHState ℝ) (k : ℝ) : SPHState ℝ := ⟨s.core.rescale k, s.radius * k⟩

/-- the Steiner forms of the getters are homogeneous (of degree 3, 2, 1) when the core's mean
curvature `h` is homogeneous of degree 1 -/
theorem sph_steiner_rescale (s : SPHState ℝ) (k h : ℝ) :
    (sphScaled s k).steinerVolume (k * h) = s.steinerVolume h * k ^ 3 ∧
    (sphScaled s k).steinerArea (k * h) = s.steinerArea h * k ^ 2 ∧
    (sphScaled s k).steinerCurvature (k * h) = s.steinerCurvature h * k := by
  refine ⟨?_, ?_, ?_⟩
  · show s.core.volume * (k * k * k) + s.core.area * (k * k) * (s.radius * k)
        + lit 4 * Scalar.pi * (k * h) * (s.radius * k * (s.radius * k))
        + q 4 3 * Scalar.pi * (s.radius * k * (s.radius * k) * (s.radius * k)) = _
    unfold SPHState.steinerVolume; ring
  · show s.core.area * (k * k) + lit 8 * Scalar.pi * (k * h) * (s.radius * k)
        + lit 4 * Scalar.pi * (s.radius * k * (s.radius * k)) = _
    unfold SPHState.steinerArea; ring
  · show k * h + s.radius * k = _
    unfold SPHState.steinerCurvature; ring

/-- **`ConvexSpheropolyhedron` volume / surface-area / mean-curvature setters**: any getter `g`
that is homogeneous of the setter's degree under `_rescale` reads back; core vertices and
rounding radius scale by the same positive factor -/
theorem sph_setSize_reads_back (s : SPHState ℝ) (g : SPHState ℝ → ℝ) {deg : Nat}
    (hdeg : deg = 1 ∨ deg = 2 ∨ deg = 3)
    (hhom : ∀ k : ℝ, 0 < k → g (sphScaled s k) = g s * k ^ deg)
    {v : ℝ} (hv : 0 < v) (hcur : 0 < g s) (hr : 0 ≤ s.radius) :
    ∃ k s', 0 < k ∧ s.setSize deg (g s) v = .ok s' ∧ g s' = v ∧
      s'.core.verts = s.core.verts.map (V3.smul k) ∧ s'.radius = s.radius * k := by
  obtain ⟨k, hk, hf, he⟩ := setterFactor_spec hdeg hcur hv
  refine ⟨k, sphScaled s k, hk, ?_, ?_, rfl, rfl⟩
  · unfold SPHState.setSize; rw [hf]; exact sph_rescale_ok s hk.le hr
  · rw [hhom k hk]; exact he

theorem sph_setRadius_reads_back (s : SPHState ℝ) {v : ℝ} (hv : 0 ≤ v) :
    ∃ s', s.setRadiusAbs v = .ok s' ∧ s'.radius = v ∧ s'.core = s.core :=
  ⟨_, sph_setRadiusAbs_ok s hv, rfl, rfl⟩

theorem sph_bad_target_refused (s : SPHState ℝ) {v : ℝ} (hv : ¬ 0 < v) (deg : Nat) (cur : ℝ) :
    s.setSize deg cur v = .error "ValueError" := by
  unfold SPHState.setSize; rw [setterFactor_bad _ _ hv]; rfl

theorem sph_negative_radius_refused (s : SPHState ℝ) {v : ℝ} (hv : v < 0) :
    s.setRadiusAbs v = .error "ValueError" := sph_setRadiusAbs_bad s (not_le.mpr hv)

/-! ### non-vacuity -/
example : ∃ k, 0 < k ∧ setterFactor 2 (3:ℝ) 12 = .ok k ∧ 3 * k ^ 2 = 12 :=
  setterFactor_spec (Or.inr (Or.inl rfl)) (by norm_num) (by norm_num)

example : (⟨⟨[⟨0, 0, 0⟩, ⟨1, 0, 0⟩, ⟨0, 1, 0⟩], ⟨0, 0, 1⟩⟩, 1 / 2⟩ : SPGState ℝ).setRadiusAbs 0
    = .ok ⟨⟨[⟨0, 0, 0⟩, ⟨1, 0, 0⟩, ⟨0, 1, 0⟩], ⟨0, 0, 1⟩⟩, 0⟩ :=
  spg_setRadiusAbs_ok _ le_rfl

end


/-!
  ## Every settable property of every class (`Model/Setters.lean`)

  The tables `…Prop.all` enumerate what reflection finds on the ten classes (the harness compares
  them with `inspect.getmembers` on every run); `get` / `set` are the model of `getattr` /
  `setattr`.  The theorems below are quantified over the WHOLE enumeration of a class:

  * `…_set_reads_back` — positive target: the setter succeeds, the getter returns the target, and
    the new state is the old one rescaled by one positive factor (vertices `k·old`, radii / semi-axes
    `k·old`, cached measures `k³` / `k²`, normal / centre untouched) — or, for a shape parameter
    (semi-axis, rounding radius), nothing else changes;
  * `…_bad_target_refused` — zero / negative target: `ValueError`, and (an `Except` has no state
    in the error case) nothing is modified; `_rescale`'s own guarded assignments cannot fail half-way
    (`ellipse_rescale_atomic`, `ellipsoid_rescale_atomic`, `spg_rescale_ok`, `sph_rescale_ok`);
  * `…_getter_raises` — a property whose getter raises on this shape (no circumsphere, not
    implemented): a positive target re-raises that exception, nothing changes.

  Getters that are closed forms of the model state need no hypothesis (homogeneity is proved);
  external getters (`lstsq` / miniball radii) enter through `hhom`.
-/
open Setters
noncomputable section

/-! ### ConvexPolyhedron -/

/-- the cached measures are homogeneous under `_rescale` (by construction of `_rescale`) -/
theorem cp_get_rescale (ball : P3Prop → CPState ℝ → Except String ℝ) (p : P3Prop)
    (hp : p = .volume ∨ p = .surfaceArea) (s : CPState ℝ) (k : ℝ) :
    ConvexPolyhedron.get ball p (s.rescale k) = Except.map (· * k ^ p.deg) (ConvexPolyhedron.get ball p s) := by
  rcases hp with rfl | rfl
  · show Except.ok (s.volume * (k * k * k)) = Except.ok (s.volume * k ^ 3); congr 1; ring
  · show Except.ok (s.area * (k * k)) = Except.ok (s.area * k ^ 2); congr 1; ring

/-- **every scalar setter of `ConvexPolyhedron`** (volume, surface_area, circumsphere_radius,
insphere_radius, the four generic ball radii): reads back, post-state = `_rescale k`, `k > 0` -/
theorem cp_set_reads_back (ball : P3Prop → CPState ℝ → Except String ℝ) (p : P3Prop) (s : CPState ℝ)
    (hhom : ∀ k : ℝ, 0 < k → ConvexPolyhedron.get ball p (s.rescale k)
      = Except.map (· * k ^ p.deg) (ConvexPolyhedron.get ball p s))
    {cur v : ℝ} (hg : ConvexPolyhedron.get ball p s = .ok cur) (hc : 0 < cur) (hv : 0 < v) :
    ∃ k, 0 < k ∧ ConvexPolyhedron.set ball p s v = .ok (s.rescale k) ∧
      ConvexPolyhedron.get ball p (s.rescale k) = .ok v ∧
      (s.rescale k).verts = s.verts.map (V3.smul k) ∧ (s.rescale k).volume = s.volume * (k * k * k) ∧
      (s.rescale k).area = s.area * (k * k) ∧ (s.rescale k).eqN = s.eqN := by
  obtain ⟨k, hk, hf, hr⟩ := size_set_reads_back (ConvexPolyhedron.get ball p) CPState.rescale
    (P3Prop.deg_cases p) s hhom hg hc hv
  refine ⟨k, hk, ?_, hr, rfl, rfl, rfl, rfl⟩
  unfold ConvexPolyhedron.set; rw [hf]; rfl

/-- volume and surface area: no hypothesis on the getter is needed -/
theorem cp_set_measure_reads_back (ball : P3Prop → CPState ℝ → Except String ℝ) (p : P3Prop)
    (hp : p = .volume ∨ p = .surfaceArea) (s : CPState ℝ)
    {cur v : ℝ} (hg : ConvexPolyhedron.get ball p s = .ok cur) (hc : 0 < cur) (hv : 0 < v) :
    ∃ k, 0 < k ∧ ConvexPolyhedron.set ball p s v = .ok (s.rescale k) ∧
      ConvexPolyhedron.get ball p (s.rescale k) = .ok v := by
  obtain ⟨k, hk, h1, h2, _⟩ := cp_set_reads_back ball p s (fun k _ => cp_get_rescale ball p hp s k) hg hc hv
  exact ⟨k, hk, h1, h2⟩

/-- **ConvexPolyhedron: volume, surface_area and the two centred ball radii** (largest vertex
distance / smallest face distance from the cached centroid) — all four getters are closed forms
of the model state, proved homogeneous under `_rescale`; their setters read back with no
hypothesis on the getter, given only that the centroid cache is coherent (`CPState.Coherent`,
maintained by every mutator: `Props/C03`) -/
theorem cp_set_closed_reads_back (ball : P3Prop → CPState ℝ → Except String ℝ) (p : P3Prop)
    (hp : ConvexPolyhedron.IsClosedForm p) (s : CPState ℝ) (hcen : s.centroid = CP.centroid s.tris s.volume)
    {cur v : ℝ} (hg : ConvexPolyhedron.get ball p s = .ok cur) (hc : 0 < cur) (hv : 0 < v) :
    ∃ k, 0 < k ∧ ConvexPolyhedron.set ball p s v = .ok (s.rescale k) ∧
      ConvexPolyhedron.get ball p (s.rescale k) = .ok v := by
  obtain ⟨k, hk, h1, h2, _⟩ := cp_set_reads_back ball p s
    (fun k hk => ConvexPolyhedron.get_rescale_closed ball p hp s hk hcen) hg hc hv
  exact ⟨k, hk, h1, h2⟩


theorem cp_bad_target_refused (ball : P3Prop → CPState ℝ → Except String ℝ) (p : P3Prop) (s : CPState ℝ)
    {v : ℝ} (hv : ¬ 0 < v) : ConvexPolyhedron.set ball p s v = .error "ValueError" := by
  unfold ConvexPolyhedron.set; rw [factorE_bad _ _ hv]; rfl

theorem cp_getter_raises (ball : P3Prop → CPState ℝ → Except String ℝ) (p : P3Prop) (s : CPState ℝ)
    {e : String} (hg : ConvexPolyhedron.get ball p s = .error e) {v : ℝ} (hv : 0 < v) :
    ConvexPolyhedron.set ball p s v = .error e := by
  unfold ConvexPolyhedron.set; rw [hg, factorE_getter_raises _ e hv]; rfl

/-! ### Polyhedron -/

theorem ph_get_rescale (ball : P3Prop → PHState ℝ → Except String ℝ) (p : P3Prop)
    (hp : p = .volume ∨ p = .surfaceArea) (s : PHState ℝ) {k : ℝ} (hk : 0 < k) :
    Polyhedron.get ball p (s.rescale k) = Except.map (· * k ^ p.deg) (Polyhedron.get ball p s) := by
  rcases hp with rfl | rfl
  · exact congrArg Except.ok (ph_volume_rescale s hk)
  · exact congrArg Except.ok (ph_surfaceArea_rescale s hk)

theorem ph_set_reads_back (ball : P3Prop → PHState ℝ → Except String ℝ) (p : P3Prop) (s : PHState ℝ)
    (hhom : ∀ k : ℝ, 0 < k → Polyhedron.get ball p (s.rescale k)
      = Except.map (· * k ^ p.deg) (Polyhedron.get ball p s))
    {cur v : ℝ} (hg : Polyhedron.get ball p s = .ok cur) (hc : 0 < cur) (hv : 0 < v) :
    ∃ k, 0 < k ∧ Polyhedron.set ball p s v = .ok (s.rescale k) ∧ Polyhedron.get ball p (s.rescale k) = .ok v ∧
      (s.rescale k).verts = s.verts.map (V3.smul k) ∧ (s.rescale k).faces = s.faces ∧
      (s.rescale k).eqN = s.eqN ∧ (s.rescale k).volume = s.volume * k ^ 3 ∧
      (s.rescale k).surfaceArea = s.surfaceArea * k ^ 2 := by
  obtain ⟨k, hk, hf, hr⟩ := size_set_reads_back (Polyhedron.get ball p) PHState.rescale
    (P3Prop.deg_cases p) s hhom hg hc hv
  refine ⟨k, hk, ?_, hr, rfl, rfl, rfl, ph_volume_rescale s hk, ph_surfaceArea_rescale s hk⟩
  unfold Polyhedron.set; rw [hf]; rfl

theorem ph_set_measure_reads_back (ball : P3Prop → PHState ℝ → Except String ℝ) (p : P3Prop)
    (hp : p = .volume ∨ p = .surfaceArea) (s : PHState ℝ)
    {cur v : ℝ} (hg : Polyhedron.get ball p s = .ok cur) (hc : 0 < cur) (hv : 0 < v) :
    ∃ k, 0 < k ∧ Polyhedron.set ball p s v = .ok (s.rescale k) ∧ Polyhedron.get ball p (s.rescale k) = .ok v := by
  obtain ⟨k, hk, h1, h2, _⟩ := ph_set_reads_back ball p s (fun k hk => ph_get_rescale ball p hp s hk) hg hc hv
  exact ⟨k, hk, h1, h2⟩

theorem ph_bad_target_refused' (ball : P3Prop → PHState ℝ → Except String ℝ) (p : P3Prop) (s : PHState ℝ)
    {v : ℝ} (hv : ¬ 0 < v) : Polyhedron.set ball p s v = .error "ValueError" := by
  unfold Polyhedron.set; rw [factorE_bad _ _ hv]; rfl

theorem ph_getter_raises (ball : P3Prop → PHState ℝ → Except String ℝ) (p : P3Prop) (s : PHState ℝ)
    {e : String} (hg : Polyhedron.get ball p s = .error e) {v : ℝ} (hv : 0 < v) :
    Polyhedron.set ball p s v = .error e := by
  unfold Polyhedron.set; rw [hg, factorE_getter_raises _ e hv]; rfl

/-! ### Polygon / ConvexPolygon -/

theorem pg_get_rescale (ball : P2Prop → PGState ℝ → Except String ℝ) (p : P2Prop)
    (hp : p = .area ∨ p = .perimeter) (s : PGState ℝ) {k : ℝ} (hk : 0 < k) :
    Polygon.get ball p (s.rescale k) = Except.map (· * k ^ p.deg) (Polygon.get ball p s) := by
  rcases hp with rfl | rfl
  · exact congrArg Except.ok (pg_area_rescale s k)
  · show Except.ok _ = Except.ok _
    rw [pg_perimeter_rescale s hk.le]; congr 1; simp [P2Prop.deg]

theorem pg_set_reads_back (ball : P2Prop → PGState ℝ → Except String ℝ) (p : P2Prop) (s : PGState ℝ)
    (hhom : ∀ k : ℝ, 0 < k → Polygon.get ball p (s.rescale k)
      = Except.map (· * k ^ p.deg) (Polygon.get ball p s))
    {cur v : ℝ} (hg : Polygon.get ball p s = .ok cur) (hc : 0 < cur) (hv : 0 < v) :
    ∃ k, 0 < k ∧ Polygon.set ball p s v = .ok (s.rescale k) ∧ Polygon.get ball p (s.rescale k) = .ok v ∧
      (s.rescale k).verts = s.verts.map (V3.smul k) ∧ (s.rescale k).normal = s.normal ∧
      (s.rescale k).area = s.area * k ^ 2 ∧ (s.rescale k).perimeter = s.perimeter * k := by
  obtain ⟨k, hk, hf, hr⟩ := size_set_reads_back (Polygon.get ball p) PGState.rescale
    (P2Prop.deg_cases p) s hhom hg hc hv
  refine ⟨k, hk, ?_, hr, rfl, rfl, pg_area_rescale s k, pg_perimeter_rescale s hk.le⟩
  unfold Polygon.set; rw [hf]; rfl

theorem pg_set_measure_reads_back (ball : P2Prop → PGState ℝ → Except String ℝ) (p : P2Prop)
    (hp : p = .area ∨ p = .perimeter) (s : PGState ℝ)
    {cur v : ℝ} (hg : Polygon.get ball p s = .ok cur) (hc : 0 < cur) (hv : 0 < v) :
    ∃ k, 0 < k ∧ Polygon.set ball p s v = .ok (s.rescale k) ∧ Polygon.get ball p (s.rescale k) = .ok v := by
  obtain ⟨k, hk, h1, h2, _⟩ := pg_set_reads_back ball p s (fun k hk => pg_get_rescale ball p hp s hk) hg hc hv
  exact ⟨k, hk, h1, h2⟩

theorem pg_bad_target_refused' (ball : P2Prop → PGState ℝ → Except String ℝ) (p : P2Prop) (s : PGState ℝ)
    {v : ℝ} (hv : ¬ 0 < v) : Polygon.set ball p s v = .error "ValueError" := by
  unfold Polygon.set; rw [factorE_bad _ _ hv]; rfl

theorem pg_getter_raises (ball : P2Prop → PGState ℝ → Except String ℝ) (p : P2Prop) (s : PGState ℝ)
    {e : String} (hg : Polygon.get ball p s = .error e) {v : ℝ} (hv : 0 < v) :
    Polygon.set ball p s v = .error e := by
  unfold Polygon.set; rw [hg, factorE_getter_raises _ e hv]; rfl

/-! ### ConvexSpheropolygon -/

theorem spg_set_unfold (ball : SPGProp → SPGState ℝ → Except String ℝ) (p : SPGProp) (hp : p ≠ .radius)
    (s : SPGState ℝ) (v : ℝ) :
    Spheropolygon.set ball p s v = (do let k ← factorE p.deg (Spheropolygon.get ball p s) v; s.rescale k) := by
  cases p with
  | radius => exact absurd rfl hp
  | area => rfl
  | perimeter => rfl
  | ball bp => rfl

theorem spg_get_rescale (ball : SPGProp → SPGState ℝ → Except String ℝ) (p : SPGProp)
    (hp : p = .area ∨ p = .perimeter) (s : SPGState ℝ) {k : ℝ} (hk : 0 < k) :
    Spheropolygon.get ball p (spgScaled s k) = Except.map (· * k ^ p.deg) (Spheropolygon.get ball p s) := by
  rcases hp with rfl | rfl
  · exact congrArg Except.ok (spg_area_rescale s hk)
  · show Except.ok _ = Except.ok _
    rw [spg_perimeter_rescale s hk.le]; congr 1; simp [SPGProp.deg]

/-- **every size setter of `ConvexSpheropolygon`**: reads back; core vertices and rounding radius
scale by the same positive factor, the normal is untouched -/
theorem spg_set_reads_back (ball : SPGProp → SPGState ℝ → Except String ℝ) (p : SPGProp) (hp : p ≠ .radius)
    (s : SPGState ℝ) (hr : 0 ≤ s.radius)
    (hhom : ∀ k : ℝ, 0 < k → Spheropolygon.get ball p (spgScaled s k)
      = Except.map (· * k ^ p.deg) (Spheropolygon.get ball p s))
    {cur v : ℝ} (hg : Spheropolygon.get ball p s = .ok cur) (hc : 0 < cur) (hv : 0 < v) :
    ∃ k, 0 < k ∧ Spheropolygon.set ball p s v = .ok (spgScaled s k) ∧
      Spheropolygon.get ball p (spgScaled s k) = .ok v ∧
      (spgScaled s k).core.verts = s.core.verts.map (V3.smul k) ∧ (spgScaled s k).radius = s.radius * k ∧
      (spgScaled s k).core.normal = s.core.normal := by
  obtain ⟨k, hk, hf, hrb⟩ := size_set_reads_back (Spheropolygon.get ball p) spgScaled
    (SPGProp.deg_cases p) s hhom hg hc hv
  refine ⟨k, hk, ?_, hrb, rfl, rfl, rfl⟩
  rw [spg_set_unfold ball p hp, hf]; exact spg_rescale_ok s hk.le hr

theorem spg_set_measure_reads_back (ball : SPGProp → SPGState ℝ → Except String ℝ) (p : SPGProp)
    (hp : p = .area ∨ p = .perimeter) (s : SPGState ℝ) (hr : 0 ≤ s.radius)
    {cur v : ℝ} (hg : Spheropolygon.get ball p s = .ok cur) (hc : 0 < cur) (hv : 0 < v) :
    ∃ k, 0 < k ∧ Spheropolygon.set ball p s v = .ok (spgScaled s k) ∧
      Spheropolygon.get ball p (spgScaled s k) = .ok v := by
  have hne : p ≠ .radius := by rcases hp with rfl | rfl <;> simp
  obtain ⟨k, hk, h1, h2, _⟩ := spg_set_reads_back ball p hne s hr
    (fun k hk => spg_get_rescale ball p hp s hk) hg hc hv
  exact ⟨k, hk, h1, h2⟩

/-- the rounding radius: negative values refused; everything else: non-positive values refused -/
theorem spg_bad_target_refused' (ball : SPGProp → SPGState ℝ → Except String ℝ) (p : SPGProp) (s : SPGState ℝ)
    {v : ℝ} (hv : if p = .radius then v < 0 else ¬ 0 < v) :
    Spheropolygon.set ball p s v = .error "ValueError" := by
  by_cases hp : p = .radius
  · subst hp
    simp only [if_true] at hv
    exact spg_setRadiusAbs_bad s (not_le.mpr hv)
  · simp only [if_neg hp] at hv
    rw [spg_set_unfold ball p hp, factorE_bad _ _ hv]; rfl

theorem spg_getter_raises (ball : SPGProp → SPGState ℝ → Except String ℝ) (p : SPGProp) (hp : p ≠ .radius)
    (s : SPGState ℝ) {e : String} (hg : Spheropolygon.get ball p s = .error e) {v : ℝ} (hv : 0 < v) :
    Spheropolygon.set ball p s v = .error e := by
  rw [spg_set_unfold ball p hp, hg, factorE_getter_raises _ e hv]; rfl

/-! ### ConvexSpheropolyhedron: read-back through the edge-sum getters -/

theorem sphScaled_eq (s : SPHState ℝ) (k : ℝ) : sphScaled s k = Spheropolyhedron.scaled s k := rfl

/-- **`volume` / `surface_area` / `mean_curvature` setters of `ConvexSpheropolyhedron` read back
through the getters the Python evaluates** (sums of `(π − φ)·L` over the face intersections of the
current core): no homogeneity hypothesis — it is proved (`Spheropolyhedron.get_scaled`) -/
theorem sph_set_reads_back (fi : List Steiner.FaceIx) (ball : SPHProp → SPHState ℝ → Except String ℝ)
    (p : SPHProp) (hp : Spheropolyhedron.IsSize p) (s : SPHState ℝ) (hr : 0 ≤ s.radius) {cur v : ℝ}
    (hg : Spheropolyhedron.get fi ball p s = .ok cur) (hc : 0 < cur) (hv : 0 < v) :
    ∃ k, 0 < k ∧ Spheropolyhedron.set fi ball p s v = .ok (sphScaled s k) ∧
      Spheropolyhedron.get fi ball p (sphScaled s k) = .ok v ∧
      (sphScaled s k).core.verts = s.core.verts.map (V3.smul k) ∧ (sphScaled s k).radius = s.radius * k ∧
      (sphScaled s k).core.eqN = s.core.eqN := by
  obtain ⟨k, hk, h1, h2⟩ := Spheropolyhedron.set_size_reads_back fi ball p hp s hr hg hc hv
  exact ⟨k, hk, h1, h2, rfl, rfl, rfl⟩

/-- the three measures of a spheropolyhedron after `_rescale(k)`: `k³`, `k²`, `k` times the old
ones — hence `iq = 36πV²/S³` and every other ratio of matching degree is preserved -/
theorem sph_measures_rescale (fi : List Steiner.FaceIx) (ball : SPHProp → SPHState ℝ → Except String ℝ)
    (s : SPHState ℝ) {k : ℝ} (hk : 0 ≤ k) :
    Spheropolyhedron.get fi ball .volume (sphScaled s k)
      = Except.map (· * k ^ 3) (Spheropolyhedron.get fi ball .volume s) ∧
    Spheropolyhedron.get fi ball .surfaceArea (sphScaled s k)
      = Except.map (· * k ^ 2) (Spheropolyhedron.get fi ball .surfaceArea s) ∧
    Spheropolyhedron.get fi ball .meanCurvature (sphScaled s k)
      = Except.map (· * k ^ 1) (Spheropolyhedron.get fi ball .meanCurvature s) :=
  ⟨Spheropolyhedron.get_scaled fi ball .volume (Or.inl rfl) s hk,
   Spheropolyhedron.get_scaled fi ball .surfaceArea (Or.inr (Or.inl rfl)) s hk,
   Spheropolyhedron.get_scaled fi ball .meanCurvature (Or.inr (Or.inr rfl)) s hk⟩

theorem sph_iq_preserved {V S k : ℝ} (hk : 0 < k) (hS : S ≠ 0) :
    Steiner.Shape3D.iq (V * k ^ 3) (S * k ^ 2) = Steiner.Shape3D.iq V S := by
  unfold Steiner.Shape3D.iq Scalar.sqr Scalar.cube
  have hk' : k ≠ 0 := hk.ne'
  field_simp

theorem sph_bad_target_refused' (fi : List Steiner.FaceIx) (ball : SPHProp → SPHState ℝ → Except String ℝ)
    (p : SPHProp) (s : SPHState ℝ) {v : ℝ} (hv : if p = .radius then v < 0 else ¬ 0 < v) :
    Spheropolyhedron.set fi ball p s v = .error "ValueError" :=
  Spheropolyhedron.bad_target_refused fi ball p s hv

theorem sph_getter_raises (fi : List Steiner.FaceIx) (ball : SPHProp → SPHState ℝ → Except String ℝ)
    (p : SPHProp) (hp : p ≠ .radius) (s : SPHState ℝ) {e : String}
    (hg : Spheropolyhedron.get fi ball p s = .error e) {v : ℝ} (hv : 0 < v) :
    Spheropolyhedron.set fi ball p s v = .error e :=
  Spheropolyhedron.set_getter_raises fi ball p hp s hg hv

/-! ### the curved classes -/

/-- **Circle: every scalar settable property** (radius, area, perimeter, circumference, the four
ball radii) reads back, centre untouched, radius positive -/
theorem circle_set_reads_back (p : CircleProp) (s : CircleS ℝ) (hr : 0 < s.radius) {v : ℝ} (hv : 0 < v) :
    ∃ s', CircleS.set p s v = .ok s' ∧ CircleS.get p s' = .ok v ∧ s'.cen = s.cen ∧ 0 < s'.radius :=
  CircleS.set_reads_back p s hr hv

theorem circle_bad_target_refused (p : CircleProp) (s : CircleS ℝ) {v : ℝ} (hv : ¬ 0 < v) :
    CircleS.set p s v = .error "ValueError" := CircleS.bad_target_refused p s hv

theorem sphere_set_reads_back (p : SphereProp) (s : SphereS ℝ) (hr : 0 < s.radius) {v : ℝ} (hv : 0 < v) :
    ∃ s', SphereS.set p s v = .ok s' ∧ SphereS.get p s' = .ok v ∧ s'.cen = s.cen ∧ 0 < s'.radius :=
  SphereS.set_reads_back p s hr hv

theorem sphere_bad_target_refused (p : SphereProp) (s : SphereS ℝ) {v : ℝ} (hv : ¬ 0 < v) :
    SphereS.set p s v = .error "ValueError" := SphereS.bad_target_refused p s hv

/-- **Ellipse: every size setter** (area, perimeter, circumference, the four ball radii) reads
back and scales both semi-axes by one positive factor; `ellipe` is an arbitrary function -/
theorem ellipse_set_reads_back (ellipe : ℝ → ℝ) (p : EllipseProp) (hp : p.isShapeParam = false)
    (s : EllipseS ℝ) (ha : 0 < s.a) (hb : 0 < s.b)
    (hP : 0 < Curved.Ellipse.perimeter ellipe s.a s.b) {v : ℝ} (hv : 0 < v) :
    ∃ k s', 0 < k ∧ EllipseS.set ellipe p s v = .ok s' ∧ EllipseS.get ellipe p s' = .ok v ∧
      s'.a = s.a * k ∧ s'.b = s.b * k ∧ s'.cen = s.cen :=
  EllipseS.set_size_reads_back ellipe p hp s ha hb hP hv

theorem ellipse_axis_reads_back (ellipe : ℝ → ℝ) (s : EllipseS ℝ) {v : ℝ} (hv : 0 < v) :
    (∃ s', EllipseS.set ellipe .a s v = .ok s' ∧ EllipseS.get ellipe .a s' = .ok v ∧ s'.b = s.b ∧ s'.cen = s.cen) ∧
    (∃ s', EllipseS.set ellipe .b s v = .ok s' ∧ EllipseS.get ellipe .b s' = .ok v ∧ s'.a = s.a ∧ s'.cen = s.cen) :=
  EllipseS.set_shape_reads_back ellipe s hv

theorem ellipse_bad_target_refused (ellipe : ℝ → ℝ) (p : EllipseProp) (s : EllipseS ℝ) {v : ℝ} (hv : ¬ 0 < v) :
    EllipseS.set ellipe p s v = .error "ValueError" := EllipseS.bad_target_refused ellipe p s hv

theorem ellipse_rescale_atomic (s : EllipseS ℝ) (ha : 0 < s.a) (hb : 0 < s.b) (k : ℝ) :
    (∃ s', s.rescale k = .ok s') ∨ s.setA (s.a * k) = .error "ValueError" := EllipseS.rescale_atomic s ha hb k

/-- eccentricity and isoperimetric quotient of an ellipse are unchanged by every size setter -/
theorem ellipse_dimensionless (ellipe : ℝ → ℝ) {k : ℝ} (hk : 0 < k) (a b : ℝ) :
    Curved.Ellipse.eccentricity (a * k) (b * k) = Curved.Ellipse.eccentricity a b ∧
    Curved.Ellipse.iq ellipe (a * k) (b * k) = Curved.Ellipse.iq ellipe a b := EllipseS.dimensionless ellipe hk a b

/-- **Ellipsoid: every size setter** (volume, surface_area with arbitrary `ellipeinc` / `ellipkinc`,
the four ball radii) reads back and scales all three semi-axes by one positive factor -/
theorem ellipsoid_set_reads_back (einc kinc : ℝ → ℝ → ℝ) (p : EllipsoidProp) (hp : p.isShapeParam = false)
    (s : EllipsoidS ℝ) (ha : 0 < s.a) (hb : 0 < s.b) (hc : 0 < s.c)
    (hS : 0 < Curved.Ellipsoid.surfaceArea einc kinc s.a s.b s.c) {v : ℝ} (hv : 0 < v) :
    ∃ k s', 0 < k ∧ EllipsoidS.set einc kinc p s v = .ok s' ∧ EllipsoidS.get einc kinc p s' = .ok v ∧
      s'.a = s.a * k ∧ s'.b = s.b * k ∧ s'.c = s.c * k ∧ s'.cen = s.cen :=
  EllipsoidS.set_size_reads_back einc kinc p hp s ha hb hc hS hv

theorem ellipsoid_axis_reads_back (einc kinc : ℝ → ℝ → ℝ) (s : EllipsoidS ℝ) {v : ℝ} (hv : 0 < v) :
    (∃ s', EllipsoidS.set einc kinc .a s v = .ok s' ∧ EllipsoidS.get einc kinc .a s' = .ok v ∧
      s'.b = s.b ∧ s'.c = s.c ∧ s'.cen = s.cen) ∧
    (∃ s', EllipsoidS.set einc kinc .b s v = .ok s' ∧ EllipsoidS.get einc kinc .b s' = .ok v ∧
      s'.a = s.a ∧ s'.c = s.c ∧ s'.cen = s.cen) ∧
    (∃ s', EllipsoidS.set einc kinc .c s v = .ok s' ∧ EllipsoidS.get einc kinc .c s' = .ok v ∧
      s'.a = s.a ∧ s'.b = s.b ∧ s'.cen = s.cen) :=
  EllipsoidS.set_shape_reads_back einc kinc s hv

theorem ellipsoid_bad_target_refused (einc kinc : ℝ → ℝ → ℝ) (p : EllipsoidProp) (s : EllipsoidS ℝ) {v : ℝ}
    (hv : ¬ 0 < v) : EllipsoidS.set einc kinc p s v = .error "ValueError" :=
  EllipsoidS.bad_target_refused einc kinc p s hv

theorem ellipsoid_rescale_atomic (s : EllipsoidS ℝ) (ha : 0 < s.a) (hb : 0 < s.b) (hc : 0 < s.c) (k : ℝ) :
    (∃ s', s.rescale k = .ok s') ∨ s.setA (s.a * k) = .error "ValueError" :=
  EllipsoidS.rescale_atomic s ha hb hc k

theorem ellipsoid_dimensionless (einc kinc : ℝ → ℝ → ℝ) {k : ℝ} (hk : 0 < k) (a b c : ℝ) :
    Curved.Ellipsoid.iq einc kinc (a * k) (b * k) (c * k) = Curved.Ellipsoid.iq einc kinc a b c :=
  EllipsoidS.dimensionless einc kinc hk a b c

/-- centre assignment on the curved classes is a pure translation: the radii are untouched -/
theorem curved_setCentre (c : V3 ℝ) (s1 : CircleS ℝ) (s2 : SphereS ℝ) (s3 : EllipseS ℝ) (s4 : EllipsoidS ℝ) :
    ((s1.setCentre c).cen = c ∧ (s1.setCentre c).radius = s1.radius) ∧
    ((s2.setCentre c).cen = c ∧ (s2.setCentre c).radius = s2.radius) ∧
    ((s3.setCentre c).cen = c ∧ (s3.setCentre c).a = s3.a ∧ (s3.setCentre c).b = s3.b) ∧
    ((s4.setCentre c).cen = c ∧ (s4.setCentre c).a = s4.a ∧ (s4.setCentre c).b = s4.b ∧ (s4.setCentre c).c = s4.c) :=
  ⟨⟨rfl, rfl⟩, ⟨rfl, rfl⟩, ⟨rfl, rfl, rfl⟩, ⟨rfl, rfl, rfl, rfl⟩⟩

/-- the guard in isolation, with a readable getter: accepted exactly for positive targets -/
theorem factorE_accepts_iff (deg : Nat) (cur v : ℝ) : (∃ k, factorE deg (.ok cur) v = .ok k) ↔ 0 < v :=
  factorE_ok_iff deg cur v

/-! ### non-vacuity of the new theorems -/

/-- a unit circle assigned area `4π` becomes the circle of radius 2 -/
example : ∃ s', CircleS.set .area (⟨1, ⟨0, 0, 0⟩⟩ : CircleS ℝ) (4 * Real.pi) = .ok s' ∧
    CircleS.get .area s' = .ok (4 * Real.pi) :=
  let ⟨s', h1, h2, _⟩ := circle_set_reads_back .area ⟨1, ⟨0, 0, 0⟩⟩ (by norm_num) (by positivity)
  ⟨s', h1, h2⟩

/-- the 2 × 1 ellipse with `ellipe ≡ 1` (perimeter `4·max(a,b) = 8`): circumference := 16 doubles both axes -/
example : ∃ k s', 0 < k ∧ EllipseS.set (fun _ => (1:ℝ)) .circumference ⟨2, 1, ⟨0, 0, 0⟩⟩ 16 = .ok s' ∧
    s'.a = 2 * k ∧ s'.b = 1 * k := by
  have hP : 0 < Curved.Ellipse.perimeter (fun _ => (1:ℝ)) 2 1 := by
    unfold Curved.Ellipse.perimeter
    rw [Curved.sort2_real]
    simp only [Scalar.lit, Scalar.ofNat_real]; push_cast; norm_num
  obtain ⟨k, s', hk, h1, _, h3, h4, _⟩ := ellipse_set_reads_back (fun _ => (1:ℝ)) .circumference rfl
    ⟨2, 1, ⟨0, 0, 0⟩⟩ (by norm_num) (by norm_num) hP (show (0:ℝ) < 16 by norm_num)
  exact ⟨k, s', hk, h1, h3, h4⟩

/-- a spheropolyhedron without face intersections (`fi = []`): `mean_curvature = r`, and the setter
to `3` from `r = 1/2` rescales by `6` -/
example (core : CPState ℝ) (ball : SPHProp → SPHState ℝ → Except String ℝ) :
    ∃ k, 0 < k ∧ Spheropolyhedron.set [] ball .meanCurvature ⟨core, 1 / 2⟩ 3 = .ok (sphScaled ⟨core, 1 / 2⟩ k) ∧
      (1 / 2 : ℝ) * k ^ 1 = 3 := by
  have hg : Spheropolyhedron.get [] ball .meanCurvature ⟨core, 1 / 2⟩ = .ok (1 / 2 : ℝ) := by
    show Except.ok (Steiner.SpheroPolyhedron.meanCurvatureOf (1 / 2 : ℝ) []) = _
    rw [Spheropolyhedron.meanCurvatureOf_closed]; simp [Steiner.edgeSumR]
  obtain ⟨k, hk, h1, h2, _⟩ := sph_set_reads_back [] ball .meanCurvature (Or.inr (Or.inr rfl)) ⟨core, 1 / 2⟩
    (by norm_num) hg (by norm_num) (show (0:ℝ) < 3 by norm_num)
  refine ⟨k, hk, h1, ?_⟩
  have h3 := Spheropolyhedron.get_scaled [] ball .meanCurvature (Or.inr (Or.inr rfl)) ⟨core, 1 / 2⟩ hk.le
  rw [sphScaled_eq] at h2
  rw [h2, hg] at h3
  exact (Except.ok.inj h3).symm

end


/-!
  ## A setter on one shape never changes another shape or an array of the caller

  `Model/SettersHeap.lean`: arrays are objects in a heap; a world holds several shapes and the
  caller's arrays; a mutator writes attributes in place or re-binds them to FRESH arrays (the only
  vocabulary the setters of /repo use: `SettersHeap.pattern`, compared with the live objects'
  buffers on every assignment by the harness).
-/
section heap
open SettersHeap
variable {α : Type}

/-- **isolation**: when no two shapes and no shape and the caller share an array, any setter of
shape `i` leaves every other shape's arrays (addresses and contents) and every caller array
(ownership and contents) exactly as they were -/
theorem setter_isolated {w : World α} (hs : Sep w) (i : Nat) (effs : List (Eff α)) :
    (∀ j, j ≠ i → (w.step i effs).objs[j]? = w.objs[j]? ∧ (w.step i effs).view j = w.view j) ∧
    (w.step i effs).caller = w.caller ∧
    (∀ a ∈ w.caller, C16.Heap.get (w.step i effs).heap a = C16.Heap.get w.heap a) :=
  step_isolated hs i effs

/-- **the separation is an invariant** of every setter and of the caller allocating arrays -/
theorem setter_keeps_separation {w : World α} (hs : Sep w) (evs : List (Ev α)) : Sep (run w evs) :=
  run_sep hs evs

/-- **histories**: a shape no setter of the history addresses is bit-identical at the end, whatever
was done to the other shapes and whatever the caller allocated in between -/
theorem untouched_shape_unchanged {w : World α} (hs : Sep w) (evs : List (Ev α)) (j : Nat)
    (hj : ∀ e ∈ evs, ∀ i effs, e = Ev.mutate i effs → i ≠ j) : (run w evs).view j = w.view j :=
  run_untouched hs evs j hj

/-- non-vacuity: two shapes with two arrays each (addresses 0,1 and 2,3) and one caller array (4) -/
def exWorld : World Nat := ⟨[(0, [1]), (1, [1]), (2, [5]), (3, [5]), (4, [9])], 5, [[0, 1], [2, 3]], [4]⟩

theorem exWorld_sep : Sep exWorld := by
  constructor
  · intro i j fi fj hi hj hne a ha hb
    match i, j with
    | 0, 0 => exact hne rfl
    | 1, 1 => exact hne rfl
    | 0, 1 =>
      have e1 : fi = [0, 1] := by simpa [exWorld] using hi.symm
      have e2 : fj = [2, 3] := by simpa [exWorld] using hj.symm
      subst e1; subst e2
      simp only [List.mem_cons, List.not_mem_nil, or_false] at ha hb
      omega
    | 1, 0 =>
      have e1 : fi = [2, 3] := by simpa [exWorld] using hi.symm
      have e2 : fj = [0, 1] := by simpa [exWorld] using hj.symm
      subst e1; subst e2
      simp only [List.mem_cons, List.not_mem_nil, or_false] at ha hb
      omega
    | 0, j + 2 => simp [exWorld] at hj
    | 1, j + 2 => simp [exWorld] at hj
    | i + 2, _ => simp [exWorld] at hi
  · intro i fi hi a ha hc
    have hc' : a = 4 := by simpa [exWorld] using hc
    match i with
    | 0 =>
      have e1 : fi = [0, 1] := by simpa [exWorld] using hi.symm
      subst e1
      simp only [List.mem_cons, List.not_mem_nil, or_false] at ha
      omega
    | 1 =>
      have e1 : fi = [2, 3] := by simpa [exWorld] using hi.symm
      subst e1
      simp only [List.mem_cons, List.not_mem_nil, or_false] at ha
      omega
    | i + 2 => simp [exWorld] at hi
  · intro i fi hi a ha
    show a < 5
    match i with
    | 0 =>
      have e1 : fi = [0, 1] := by simpa [exWorld] using hi.symm
      subst e1
      simp only [List.mem_cons, List.not_mem_nil, or_false] at ha
      omega
    | 1 =>
      have e1 : fi = [2, 3] := by simpa [exWorld] using hi.symm
      subst e1
      simp only [List.mem_cons, List.not_mem_nil, or_false] at ha
      omega
    | i + 2 => simp [exWorld] at hi
  · intro a ha
    have : a = 4 := by simpa [exWorld] using ha
    show a < 5
    omega

/-- a `Polyhedron.centroid.setter`-like mutator of shape 0 (in place, re-bind) leaves shape 1 and
the caller's array alone -/
example : (exWorld.step 0 [.inplace [2], .rebind [2]]).view 1 = exWorld.view 1 ∧
    C16.Heap.get (exWorld.step 0 [.inplace [2], .rebind [2]]).heap 4 = [9] :=
  ⟨((setter_isolated exWorld_sep 0 _).1 1 (by decide)).2,
   (setter_isolated exWorld_sep 0 _).2.2 4 (by simp [exWorld])⟩

/-- **no setter makes two array attributes of ONE shape share a block**: in any history of setters
(in place / re-bind to fresh) and caller allocations the attributes of every shape stay pairwise
distinct arrays — so `_rescale`, which multiplies `_equations[:, 3]` and `_simplex_equations[:, 3]`
one after the other, scales every offset exactly once -/
theorem setter_keeps_attributes_distinct {w : World α} (hs : Sep w) (hd : Distinct w) (evs : List (Ev α)) :
    Distinct (run w evs) :=
  run_distinct hs hd evs

example : Distinct (run exWorld [Ev.mutate 0 [.inplace [2], .rebind [2]], Ev.alloc [7], Ev.mutate 1 [.rebind [3], .rebind [3]]]) := by
  apply setter_keeps_attributes_distinct exWorld_sep
  intro i fi hi
  match i with
  | 0 => have e : fi = [0, 1] := by simpa [exWorld] using hi.symm
         subst e; decide
  | 1 => have e : fi = [2, 3] := by simpa [exWorld] using hi.symm
         subst e; decide
  | i + 2 => simp [exWorld] at hi

end heap
