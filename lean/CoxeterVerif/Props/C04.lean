import CoxeterVerif.Lemmas.Planar
import CoxeterVerif.Lemmas.PlanarFrame
import CoxeterVerif.Lemmas.PlanarFan
import CoxeterVerif.Lemmas.PlanarIntegral
import CoxeterVerif.Lemmas.PlanarCert
import CoxeterVerif.Lemmas.PlanarFrameExists
import CoxeterVerif.Lemmas.PlanarLebesgue
/-!
  # C04 — polygon area, centroid, planar/polar moments are exact

  `w`  : the polygon's vertices in the frame in which the Python evaluates its edge sums
         (`_align_points_by_normal`: `w = align R vs`; for a polygon in the xy-plane with +z normal
         `R = 1` and `w = vs`);
  `Ts` : ANY triangulation of the region whose boundary edge chain is the polygon's cycle
         (`EdgeChainEq (cycleEdges w) (Ts.flatMap triEdges)`), with orientation sign `s`;
  "exact integrals" = sums of triangle closed forms (`Spec2`).  No bound on the number of vertices.
-/
open Scalar
set_option maxRecDepth 4000
noncomputable section

/-- the triangulation `Ts` bounds the polygon cycle `w` -/
def Triangulates (w : List (V3 ℝ)) (Ts : List (Tri ℝ)) : Prop :=
  EdgeChainEq (cycleEdges w) (Ts.flatMap triEdges)

theorem spec2_area_eq (Ts : List (Tri ℝ)) : Spec2.area Ts = (Ts.map Spec2.triArea).sum := by
  simp [Spec2.area]
theorem spec2_first_eq (Ts : List (Tri ℝ)) (i : Nat) :
    Spec2.first Ts i = (Ts.map (Spec2.triFirst · i)).sum := by simp [Spec2.first]
theorem spec2_second_eq (Ts : List (Tri ℝ)) (i j : Nat) :
    Spec2.second Ts i j = (Ts.map (Spec2.triSecond · i j)).sum := by simp [Spec2.second]

/-- **shoelace sum** = 2 × exact signed area -/
theorem polygon_shoelace_exact {w : List (V3 ℝ)} {Ts : List (Tri ℝ)} (h : Triangulates w Ts) :
    Scalar.sum (List.zipWith Poly2.delta w (Poly2.rotl 1 w)) = 2 * Spec2.area Ts := by
  rw [zipWith_rotl_eq, spec2_area_eq, ← list_sum_map_mul]
  exact sumEdges_bdry dPhi_odd dPhi_tri h

/-- **C04 signed area, xy-plane, +z normal**: the projection formula is the exact signed area
(positive exactly when the triangulation — hence the vertex cycle — is counter-clockwise). -/
theorem signedArea_xy_exact {vs : List (V3 ℝ)} {Ts : List (Tri ℝ)} (h : Triangulates vs Ts) :
    Poly2.signedArea vs ⟨0, 0, 1⟩ = Spec2.area Ts := by
  have hk : Poly2.argmax3 (0:ℝ) 0 1 = 2 := by simp [Poly2.argmax3]
  have hs := polygon_shoelace_exact h
  have key := shoelace_reindex vs
  simp only [Scalar.sum_real] at hs
  unfold Poly2.signedArea
  simp only [Scalar.sum_real, V3.norm, V3.normSq, V3.dot, Scalar.abs_real, Scalar.sqrt_real,
    Scalar.lit, Scalar.ofNat_real, abs_zero, abs_one, hk, V3.get_two, V3.get_zero, V3.get_one]
  norm_num
  rw [key, hs]; ring

/-- first-moment edge sums are 6 × the exact first moments -/
theorem polygon_first_exact {w : List (V3 ℝ)} {Ts : List (Tri ℝ)} (h : Triangulates w Ts) :
    Scalar.sum (List.zipWith (fun p q => (p.x + q.x) * Poly2.delta p q) w (Poly2.rotl 1 w))
        = 6 * Spec2.first Ts 0 ∧
    Scalar.sum (List.zipWith (fun p q => (p.y + q.y) * Poly2.delta p q) w (Poly2.rotl 1 w))
        = 6 * Spec2.first Ts 1 := by
  constructor
  · rw [zipWith_rotl_eq, spec2_first_eq, ← list_sum_map_mul]
    exact sumEdges_bdry cxPhi_odd cxPhi_tri h
  · rw [zipWith_rotl_eq, spec2_first_eq, ← list_sum_map_mul]
    exact sumEdges_bdry cyPhi_odd cyPhi_tri h

theorem mulVec_one (p : V3 ℝ) : M3.mulVec M3.one p = p := by
  cases p; simp [M3.mulVec, M3.one, Scalar.lit]
theorem align_one (vs : List (V3 ℝ)) : Poly2.align M3.one vs = vs := by
  unfold Poly2.align
  induction vs with
  | nil => rfl
  | cons a t ih => simp only [List.map_cons, mulVec_one, ih]
theorem transpose_one : M3.transpose (M3.one : M3 ℝ) = M3.one := rfl

/-- **C04 centroid, xy-plane, +z normal** (either vertex orientation; non-zero area):
in-plane centroid = exact first moment / exact area. -/
theorem centroid_xy_exact {vs : List (V3 ℝ)} {Ts : List (Tri ℝ)} (h : Triangulates vs Ts)
    (hA : Spec2.area Ts ≠ 0) :
    (Poly2.centroid vs ⟨0, 0, 1⟩ M3.one).x = Spec2.centroidX Ts ∧
    (Poly2.centroid vs ⟨0, 0, 1⟩ M3.one).y = Spec2.centroidY Ts := by
  obtain ⟨h0, h1⟩ := polygon_first_exact h
  unfold Poly2.centroid
  simp only [align_one, transpose_one, signedArea_xy_exact h, h0, h1]
  unfold Spec2.centroidX Spec2.centroidY
  simp only [M3.mulVec, M3.one, Scalar.lit, Scalar.ofNat_real]
  push_cast
  constructor <;> field_simp <;> ring

/-- second-moment edge sums -/
theorem polygon_second_exact {w : List (V3 ℝ)} {Ts : List (Tri ℝ)} (h : Triangulates w Ts) :
    Scalar.sum (List.zipWith (fun p q => Poly2.delta p q * (p.x * p.x + p.x * q.x + q.x * q.x)) w (Poly2.rotl 1 w))
        = 12 * Spec2.second Ts 0 0 ∧
    Scalar.sum (List.zipWith (fun p q => Poly2.delta p q * (p.y * p.y + p.y * q.y + q.y * q.y)) w (Poly2.rotl 1 w))
        = 12 * Spec2.second Ts 1 1 ∧
    Scalar.sum (List.zipWith (fun p q => Poly2.delta p q *
      (p.x * q.y + lit 2 * (p.x * p.y + q.x * q.y) + p.y * q.x)) w (Poly2.rotl 1 w))
        = 24 * Spec2.second Ts 0 1 := by
  refine ⟨?_, ?_, ?_⟩
  · rw [zipWith_rotl_eq, spec2_second_eq, ← list_sum_map_mul]
    exact sumEdges_bdry ixxPhi_odd ixxPhi_tri h
  · rw [zipWith_rotl_eq, spec2_second_eq, ← list_sum_map_mul]
    exact sumEdges_bdry iyyPhi_odd iyyPhi_tri h
  · rw [zipWith_rotl_eq, spec2_second_eq, ← list_sum_map_mul]
    exact sumEdges_bdry ixyPhi_odd ixyPhi_tri h

/-- all triangles of `Ts` have orientation `s` (`s = 1` counter-clockwise, `s = -1` clockwise) -/
def OrientedBy (s : ℝ) (Ts : List (Tri ℝ)) : Prop := ∀ t ∈ Ts, 0 < s * Spec2.triArea t

theorem oriented_second_nonneg {s : ℝ} {Ts : List (Tri ℝ)} (ho : OrientedBy s Ts) (i : Nat) :
    0 ≤ s * Spec2.second Ts i i := by
  rw [spec2_second_eq, ← list_sum_map_mul]
  apply List.sum_nonneg
  intro x hx
  simp only [List.mem_map] at hx
  obtain ⟨t, ht, rfl⟩ := hx
  have := ho t ht
  unfold Spec2.triSecond
  simp only [Scalar.lit, Scalar.ofNat_real]; push_cast
  have h2 : 0 ≤ t.a.get i * t.a.get i + t.b.get i * t.b.get i + t.c.get i * t.c.get i +
      (t.a.get i + t.b.get i + t.c.get i) * (t.a.get i + t.b.get i + t.c.get i) := by
    nlinarith [mul_self_nonneg (t.a.get i), mul_self_nonneg (t.b.get i), mul_self_nonneg (t.c.get i),
      mul_self_nonneg (t.a.get i + t.b.get i + t.c.get i)]
  have : s * (Spec2.triArea t / 12 * (t.a.get i * t.a.get i + t.b.get i * t.b.get i + t.c.get i * t.c.get i +
      (t.a.get i + t.b.get i + t.c.get i) * (t.a.get i + t.b.get i + t.c.get i)))
      = (s * Spec2.triArea t) / 12 * (t.a.get i * t.a.get i + t.b.get i * t.b.get i + t.c.get i * t.c.get i +
      (t.a.get i + t.b.get i + t.c.get i) * (t.a.get i + t.b.get i + t.c.get i)) := by ring
  rw [this]
  exact mul_nonneg (div_nonneg (le_of_lt ‹0 < s * Spec2.triArea t›) (by norm_num)) h2

theorem oriented_area_pos {s : ℝ} {Ts : List (Tri ℝ)} (ho : OrientedBy s Ts) (hne : Ts ≠ []) :
    0 < s * Spec2.area Ts := by
  rw [spec2_area_eq, ← list_sum_map_mul]
  apply List.sum_pos
  · intro x hx
    simp only [List.mem_map] at hx
    obtain ⟨t, ht, rfl⟩ := hx
    exact ho t ht
  · simpa using hne

/-- **C04 planar moments** (in the frame `w = align R vs`; for a polygon in the xy-plane with +z
normal that is the xy frame itself): with `s = ±1` the orientation of the vertex cycle, the
reported `(I_x, I_y, I_xy)` are the exact `∫y², ∫x², ∫xy` (`s · Spec2.second` is the unsigned
integral).  In particular the product of inertia keeps its sign. -/
theorem planarMoments_exact {vs : List (V3 ℝ)} (R : M3 ℝ) {Ts : List (Tri ℝ)} {s : ℝ}
    (hs : s = 1 ∨ s = -1) (h : Triangulates (Poly2.align R vs) Ts) (ho : OrientedBy s Ts)
    (hne : Ts ≠ []) :
    Poly2.planarMoments vs R =
      (s * Spec2.second Ts 1 1, s * Spec2.second Ts 0 0, s * Spec2.second Ts 0 1) := by
  obtain ⟨hxx, hyy, hxy⟩ := polygon_second_exact h
  have hsh := polygon_shoelace_exact h
  have hapos := oriented_area_pos ho hne
  have h00 := oriented_second_nonneg ho 0
  have h11 := oriented_second_nonneg ho 1
  unfold Poly2.planarMoments
  simp only [hxx, hyy, hxy, hsh]
  have habs : ∀ x : ℝ, 0 ≤ s * x → Scalar.abs (12 * x / lit 12) = s * x := by
    intro x hx
    simp only [Scalar.abs_real, Scalar.lit, Scalar.ofNat_real]; push_cast
    rw [show (12 * x / 12 : ℝ) = x by ring]
    rcases hs with rfl | rfl
    · simpa using hx
    · have : x ≤ 0 := by linarith
      rw [abs_of_nonpos this]; ring
  have hsign : Poly2.sign (2 * Spec2.area Ts) = s := by
    unfold Poly2.sign
    simp only [Scalar.lit, Scalar.ofNat_real]; push_cast
    rcases hs with rfl | rfl
    · have : (0:ℝ) < 2 * Spec2.area Ts := by linarith
      simp [this]
    · have : 2 * Spec2.area Ts < 0 := by linarith
      have h' : ¬ (0:ℝ) < 2 * Spec2.area Ts := by linarith
      simp [this, h']
  rw [habs _ h11, habs _ h00, hsign]
  simp only [Scalar.lit, Scalar.ofNat_real]; push_cast
  congr 2; ring

/-- **C04 polar moment** = exact `∫(x² + y²)` in the aligned frame -/
theorem polarMoment_exact {vs : List (V3 ℝ)} (R : M3 ℝ) {Ts : List (Tri ℝ)} {s : ℝ}
    (hs : s = 1 ∨ s = -1) (h : Triangulates (Poly2.align R vs) Ts) (ho : OrientedBy s Ts)
    (hne : Ts ≠ []) :
    Poly2.polarMoment vs R = s * (Spec2.second Ts 0 0 + Spec2.second Ts 1 1) := by
  unfold Poly2.polarMoment
  rw [planarMoments_exact R hs h ho hne]; ring

/-- **perimeter** does not depend on which vertex is listed first -/
theorem perimeter_rotate_invariant (vs : List (V3 ℝ)) (k : Nat) :
    Poly2.perimeter (Poly2.rotl k vs) = Poly2.perimeter vs := by
  unfold Poly2.perimeter
  simp only [Scalar.sum_real, rotl_eq_rotate, List.rotate_rotate]
  rw [show k + 1 = 1 + k by ring, ← List.rotate_rotate,
    ← List.zipWith_rotate_distrib _ vs (vs.rotate 1) k (by simp)]
  exact (List.rotate_perm _ k).sum_eq

/-! ### non-vacuity: the unit square, counter-clockwise, with its two-triangle fan -/

def exSq : List (V3 ℝ) := [⟨0,0,0⟩, ⟨1,0,0⟩, ⟨1,1,0⟩, ⟨0,1,0⟩]
def exSqT : List (Tri ℝ) := [⟨⟨0,0,0⟩, ⟨1,0,0⟩, ⟨1,1,0⟩⟩, ⟨⟨0,0,0⟩, ⟨1,1,0⟩, ⟨0,1,0⟩⟩]

example : Triangulates exSq exSqT := by
  intro φ hφ
  have c := hφ ⟨0,0,0⟩ ⟨1,1,0⟩
  simp [sumEdges, cycleEdges, exSq, exSqT, triEdges, Poly2.rotl] at c ⊢
  linarith

example : OrientedBy 1 exSqT := by
  intro t ht
  simp [exSqT] at ht
  rcases ht with rfl | rfl <;> simp [Spec2.triArea, Scalar.lit]

/-! ## Tilted planes

  From here on the polygon lies in ANY plane `n · v = d` with unit normal `n`.
  * `Spec3.areaVector vs = ½ Σ v_i × v_{i+1}`; `n · areaVector` is the signed area about `n`.
  * `Ts` : any list of 3-D triangles in the plane whose boundary edge chain is the vertex cycle
    (`Triangulates vs Ts` — the chain equation is about 3-D directed edges, so it is the same notion
    as before); "exact integrals" = `Spec3` (triangle closed forms with the triangle areas signed
    about `n`).
  * `R` : the matrix returned by `rowan.mapping.kabsch([n,-n],[ẑ,-ẑ])`, an external parameter with the
    contract `IsFrame R n` = (`RᵀR = 1`, `det R = 1`, `R n = ẑ`) that the harness checks per case.
-/

/-- all vertices lie in the plane `n · v = d` -/
def InPlane (n : V3 ℝ) (d : ℝ) (vs : List (V3 ℝ)) : Prop := ∀ v ∈ vs, V3.dot n v = d

/-- all triangles of `Ts` have orientation `s` about the normal `n` -/
def OrientedBy3 (n : V3 ℝ) (s : ℝ) (Ts : List (Tri ℝ)) : Prop := ∀ t ∈ Ts, 0 < s * Spec3.triArea n t

/-- the matrix form of the frame contract: `RᵀR = 1`, `det R = 1`, `R n = ẑ` -/
theorem isFrame_of_contract {R : M3 ℝ} {n : V3 ℝ} (h : M3.mul (M3.transpose R) R = M3.one)
    (hd : M3.det R = 1) (hz : M3.mulVec R n = ⟨0, 0, 1⟩) : IsFrame R n :=
  ⟨isRot_of_mul h hd, hz⟩

/-- the same contract as the harness evaluates it: `R Rᵀ = 1`, `det R = 1`, `R n = ẑ` -/
theorem isFrame_of_contract' {R : M3 ℝ} {n : V3 ℝ} (h : M3.mul R (M3.transpose R) = M3.one)
    (hd : M3.det R = 1) (hz : M3.mulVec R n = ⟨0, 0, 1⟩) : IsFrame R n :=
  ⟨isRot_of_mul_transpose h hd, hz⟩

/-- the component `n[argmax |n|]` by which `signed_area` divides is non-zero for a unit normal -/
theorem signedArea_divisor_ne_zero {n : V3 ℝ} (hn : V3.norm n = 1) :
    n.get (Poly2.argmax3 |n.x| |n.y| |n.z|) ≠ 0 :=
  argmax3_get_ne_zero n (by rw [normSq_of_norm_one hn]; norm_num)

/-- **C04 signed area, any plane**: for a vertex cycle in the plane `n · v = d`, `‖n‖ = 1`, the
projection-and-rescale formula of `Polygon.signed_area` returns `n · areaVector`. -/
theorem signedArea_general_exact {vs : List (V3 ℝ)} {n : V3 ℝ} {d : ℝ} (hpl : InPlane n d vs)
    (hn : V3.norm n = 1) : Poly2.signedArea vs n = V3.dot n (Spec3.areaVector vs) :=
  signedArea_eq_dot_areaVector vs n d hpl hn

/-- `n · areaVector` is the exact signed area (about `n`) of any triangulation bounded by the cycle -/
theorem areaVector_triangulation (n : V3 ℝ) {vs : List (V3 ℝ)} {Ts : List (Tri ℝ)}
    (h : Triangulates vs Ts) : V3.dot n (Spec3.areaVector vs) = Spec3.area n Ts :=
  dot_areaVector_tri n h

/-- **C04 signed area, any plane, against the triangle spec** -/
theorem signedArea_general_tri {vs : List (V3 ℝ)} {n : V3 ℝ} {d : ℝ} {Ts : List (Tri ℝ)}
    (hpl : InPlane n d vs) (hn : V3.norm n = 1) (h : Triangulates vs Ts) :
    Poly2.signedArea vs n = Spec3.area n Ts := by
  rw [signedArea_general_exact hpl hn, areaVector_triangulation n h]

theorem oriented3_area_pos {n : V3 ℝ} {s : ℝ} {Ts : List (Tri ℝ)} (ho : OrientedBy3 n s Ts)
    (hne : Ts ≠ []) : 0 < s * Spec3.area n Ts := by
  rw [Spec3.area_eq, ← list_sum_map_mul]
  apply List.sum_pos
  · intro x hx
    simp only [List.mem_map] at hx
    obtain ⟨t, ht, rfl⟩ := hx
    exact ho t ht
  · simpa using hne

/-- **sign convention**: the signed area is positive exactly when the cycle is counter-clockwise
about `n` (`s = 1`), negative when clockwise (`s = -1`). -/
theorem signedArea_general_sign {vs : List (V3 ℝ)} {n : V3 ℝ} {d s : ℝ} {Ts : List (Tri ℝ)}
    (hpl : InPlane n d vs) (hn : V3.norm n = 1) (h : Triangulates vs Ts)
    (ho : OrientedBy3 n s Ts) (hne : Ts ≠ []) : 0 < s * Poly2.signedArea vs n := by
  rw [signedArea_general_tri hpl hn h]; exact oriented3_area_pos ho hne

/-- **C04 area, any plane**: `area = |n · areaVector|`, and `= s ·` exact signed area for a cycle of
orientation `s = ±1`. -/
theorem area_general_exact {vs : List (V3 ℝ)} {n : V3 ℝ} {d : ℝ} (hpl : InPlane n d vs)
    (hn : V3.norm n = 1) : Poly2.area vs n = |V3.dot n (Spec3.areaVector vs)| := by
  unfold Poly2.area; rw [signedArea_general_exact hpl hn]; rfl

theorem area_general_tri {vs : List (V3 ℝ)} {n : V3 ℝ} {d s : ℝ} {Ts : List (Tri ℝ)}
    (hs : s = 1 ∨ s = -1) (hpl : InPlane n d vs) (hn : V3.norm n = 1) (h : Triangulates vs Ts)
    (ho : OrientedBy3 n s Ts) (hne : Ts ≠ []) : Poly2.area vs n = s * Spec3.area n Ts := by
  have hp := oriented3_area_pos ho hne
  unfold Poly2.area; rw [signedArea_general_tri hpl hn h]
  simp only [Scalar.abs_real]
  rcases hs with rfl | rfl
  · rw [abs_of_pos (by linarith)]; ring
  · rw [abs_of_neg (by linarith)]; ring

/-! ### orthogonal-frame transfer -/

/-- **shoelace sum in the aligned frame** `w = align R vs` is `2 n · areaVector vs` (no planarity
needed: cross-product covariance `R(a×b) = Ra × Rb` and `Rᵀẑ = n`). -/
theorem shoelace_frame_exact {R : M3 ℝ} {n : V3 ℝ} (hF : IsFrame R n) (vs : List (V3 ℝ)) :
    Scalar.sum (List.zipWith Poly2.delta (Poly2.align R vs) (Poly2.rotl 1 (Poly2.align R vs)))
      = 2 * V3.dot n (Spec3.areaVector vs) := by
  rw [zipWith_rotl_eq, dot_areaVector]
  unfold Poly2.align
  rw [cycleEdges_map]
  simp only [sumEdges, List.map_map, Function.comp_def, hF.delta_eq]
  rw [← list_sum_map_mul]
  congr 1
  apply List.map_congr_left
  intro e _; ring

theorem sum_z_align {R : M3 ℝ} {n : V3 ℝ} (hF : IsFrame R n) {d : ℝ} (vs : List (V3 ℝ))
    (hpl : InPlane n d vs) : ((Poly2.align R vs).map (·.z)).sum = vs.length * d := by
  unfold Poly2.align
  induction vs with
  | nil => simp
  | cons a t ih =>
    have := ih (fun v hv => hpl v (List.mem_cons_of_mem _ hv))
    simp only [List.map_cons, List.sum_cons, List.length_cons] at this ⊢
    rw [this, hF.mulVec_z, hpl a List.mem_cons_self]; push_cast; ring

theorem mulVec_sdiv (R : M3 ℝ) (v : V3 ℝ) (k : ℝ) :
    M3.mulVec R (V3.sdiv v k) = V3.sdiv (M3.mulVec R v) k := by
  ext <;> simp only [M3.mulVec, V3.sdiv_x, V3.sdiv_y, V3.sdiv_z] <;> ring

theorem triangulates_nil_area (n : V3 ℝ) {Ts : List (Tri ℝ)} (h : Triangulates [] Ts) :
    Spec3.area n Ts = 0 := by
  rw [← areaVector_triangulation n h]
  simp [Spec3.areaVector, Spec3.cyc, V3.sum, V3.dot, V3.zero, V3.sdiv, Scalar.lit]

/-- **C04 centroid, any plane** (either vertex orientation; non-zero area): the value returned by
`Polygon.centroid` — first moments in the aligned frame over the signed area, the mean height, all
rotated back with `Rᵀ` — is the exact centroid `first moment / area` of any planar triangulation
bounded by the vertex cycle; in particular it lies in the polygon's plane (`Spec3.dot_centroid`). -/
theorem centroid_general_exact {vs : List (V3 ℝ)} {n : V3 ℝ} {d : ℝ} {R : M3 ℝ} {Ts : List (Tri ℝ)}
    (hF : IsFrame R n) (hpl : InPlane n d vs) (hT : TrisInPlane n d Ts) (h : Triangulates vs Ts)
    (hA : Spec3.area n Ts ≠ 0) : Poly2.centroid vs n R = Spec3.centroid n Ts := by
  have hn := hF.norm_eq
  have hsa := signedArea_general_tri hpl hn h
  have hmap : Triangulates (Poly2.align R vs) (Ts.map (Tri.map (M3.mulVec R))) :=
    EdgeChainEq.map_vertices _ h
  obtain ⟨h0, h1⟩ := polygon_first_exact hmap
  obtain ⟨f0, f1⟩ := hF.first_eq Ts
  have hvs : vs ≠ [] := by
    rintro rfl; exact hA (triangulates_nil_area n h)
  have hlen : (vs.length : ℝ) ≠ 0 := by
    have : vs.length ≠ 0 := fun h0 => hvs (List.length_eq_zero_iff.mp h0)
    exact_mod_cast this
  have hz := sum_z_align hF vs hpl
  have hdc := Spec3.dot_centroid hT hA
  unfold Poly2.centroid
  simp only [h0, h1, hsa, f0, f1, Scalar.sum_real, hz]
  have e : (⟨6 * (M3.mulVec R (Spec3.first n Ts)).x / (lit 6 * Spec3.area n Ts),
      6 * (M3.mulVec R (Spec3.first n Ts)).y / (lit 6 * Spec3.area n Ts),
      (vs.length : ℝ) * d / Scalar.ofNat (Poly2.align R vs).length⟩ : V3 ℝ)
      = M3.mulVec R (Spec3.centroid n Ts) := by
    have hl : (Poly2.align R vs).length = vs.length := by simp [Poly2.align]
    unfold Spec3.centroid
    rw [mulVec_sdiv]
    ext
    · simp only [V3.sdiv_x, Scalar.lit, Scalar.ofNat_real]; push_cast; field_simp
    · simp only [V3.sdiv_y, Scalar.lit, Scalar.ofNat_real]; push_cast; field_simp
    · rw [← mulVec_sdiv, hF.mulVec_z]
      change _ = V3.dot n (Spec3.centroid n Ts)
      rw [hdc, hl]; simp only [Scalar.ofNat_real]; field_simp
  rw [e, hF.rot.transpose_mulVec]

/-- **C04 polar moment, any plane**: `polar_moment_inertia` (evaluated in the aligned frame) is the
exact second moment `∫|v − d n|² dA` about the axis through the origin along the normal (`d n` is
the point where that axis meets the plane). -/
theorem polarMoment_general_exact {vs : List (V3 ℝ)} {n : V3 ℝ} {d s : ℝ} {R : M3 ℝ}
    {Ts : List (Tri ℝ)} (hF : IsFrame R n) (hs : s = 1 ∨ s = -1) (hT : TrisInPlane n d Ts)
    (h : Triangulates vs Ts) (ho : OrientedBy3 n s Ts) (hne : Ts ≠ []) :
    Poly2.polarMoment vs R = s * Spec3.polarAbout n (V3.smul d n) Ts := by
  have htri : Triangulates (Poly2.align R vs) (Ts.map (Tri.map (M3.mulVec R))) :=
    EdgeChainEq.map_vertices _ h
  have hor : OrientedBy s (Ts.map (Tri.map (M3.mulVec R))) := by
    intro t' ht'
    simp only [List.mem_map] at ht'
    obtain ⟨t, ht, rfl⟩ := ht'
    rw [hF.triArea_eq]; exact ho t ht
  rw [polarMoment_exact R hs htri hor (by simpa using hne), hF.polar_axis hT]

/-! ### inertia tensor -/

theorem align_align_centred (R R2 : M3 ℝ) (c : V3 ℝ) (vs : List (V3 ℝ)) :
    Poly2.align R2 (Poly2.align R (vs.map (· - c))) = vs.map (frameMap R R2 c) := by
  simp only [Poly2.align, List.map_map]; rfl

/-- **C04 inertia tensor, any plane, any frame matrices**: for a polygon in the plane `n · v = d`
whose vertex cycle has orientation `s = ±1` about `n`, with `R` a frame for `n` and `R2` a frame for
`ẑ` (the second kabsch call inside `polar_moment_inertia`), the returned tensor is
`J·n nᵀ + A·(|c|² 1 − c cᵀ)` with `A` the exact (positive) area, `c` the exact centroid and
`J = ∫|x − c|² dA` the exact centroidal polar moment. -/
theorem inertiaTensor_general_exact {vs : List (V3 ℝ)} {n : V3 ℝ} {d s : ℝ} {R R2 : M3 ℝ}
    {Ts : List (Tri ℝ)} (hF : IsFrame R n) (hF2 : IsFrame R2 ⟨0, 0, 1⟩) (hs : s = 1 ∨ s = -1)
    (hpl : InPlane n d vs) (hT : TrisInPlane n d Ts) (h : Triangulates vs Ts)
    (ho : OrientedBy3 n s Ts) (hne : Ts ≠ []) :
    Poly2.inertiaTensor vs n R R2 =
      Spec3.axisTensor n (s * Spec3.polarAbout n (Spec3.centroid n Ts) Ts) (s * Spec3.area n Ts)
        (Spec3.centroid n Ts) := by
  have hn := hF.norm_eq
  have hpos := oriented3_area_pos ho hne
  have hA : Spec3.area n Ts ≠ 0 := by
    intro h0; rw [h0] at hpos; simp at hpos
  have hc := centroid_general_exact hF hpl hT h hA
  have harea := area_general_tri hs hpl hn h ho hne
  have hdc := Spec3.dot_centroid hT hA
  set C := Spec3.centroid n Ts with hC
  -- the polar moment evaluated by the code
  have htri : Triangulates (Poly2.align R2 (Poly2.align R (vs.map (· - C))))
      (Ts.map (Tri.map (frameMap R R2 C))) := by
    rw [align_align_centred]; exact EdgeChainEq.map_vertices _ h
  have hor : OrientedBy s (Ts.map (Tri.map (frameMap R R2 C))) := by
    intro t' ht'
    simp only [List.mem_map] at ht'
    obtain ⟨t, ht, rfl⟩ := ht'
    rw [frameMap_triArea hF hF2]; exact ho t ht
  have hj := polarMoment_exact (vs := Poly2.align R (vs.map (· - C))) R2 hs htri hor (by simpa using hne)
  have hplane : ∀ t ∈ Ts, V3.dot n (t.a - C) = 0 ∧ V3.dot n (t.b - C) = 0 ∧ V3.dot n (t.c - C) = 0 := by
    intro t ht
    obtain ⟨ha, hb, hc'⟩ := hT t ht
    simp only [V3.dot_sub_right, ha, hb, hc', hdc, sub_self, and_self]
  rw [frameMap_polar hF hF2 C Ts hplane] at hj
  unfold Poly2.inertiaTensor
  simp only [hc, hj, harea, Scalar.lit, Scalar.ofNat_real, Nat.cast_zero]
  rw [rotateTensor_axis hF]
  simp only [CP.translateInertia, Spec3.axisTensor, Scalar.lit, Scalar.ofNat_real, Nat.cast_zero]
  apply M3.ext' <;> simp only <;> ring

/-- **C04 inertia tensor, xy-plane (z = d), +z normal, `R = R2 = 1`**, against the 2-D spec:
`J_c·ẑ ẑᵀ + A·(|c|² 1 − c cᵀ)` with `J_c = ∫x² + ∫y² − A (c_x² + c_y²)` the centroidal polar moment,
`A` the (positive) area and `c = (∫x / A, ∫y / A, d)` the exact centroid. -/
theorem inertiaTensor_exact {vs : List (V3 ℝ)} {d s : ℝ} {Ts : List (Tri ℝ)} (hs : s = 1 ∨ s = -1)
    (hz : ∀ v ∈ vs, v.z = d) (hTz : ∀ t ∈ Ts, t.a.z = d ∧ t.b.z = d ∧ t.c.z = d)
    (h : Triangulates vs Ts) (ho : OrientedBy s Ts) (hne : Ts ≠ []) :
    Poly2.inertiaTensor vs ⟨0, 0, 1⟩ M3.one M3.one =
      Spec3.axisTensor ⟨0, 0, 1⟩
        (s * (Spec2.second Ts 0 0 + Spec2.second Ts 1 1
          - Spec2.area Ts * (Spec2.centroidX Ts * Spec2.centroidX Ts + Spec2.centroidY Ts * Spec2.centroidY Ts)))
        (s * Spec2.area Ts) ⟨Spec2.centroidX Ts, Spec2.centroidY Ts, d⟩ := by
  have dotz : ∀ v : V3 ℝ, V3.dot ⟨0, 0, 1⟩ v = v.z := by intro v; simp [V3.dot]
  have hpl : InPlane ⟨0, 0, 1⟩ d vs := fun v hv => by rw [dotz]; exact hz v hv
  have hT : TrisInPlane ⟨0, 0, 1⟩ d Ts := fun t ht => by simp only [dotz]; exact hTz t ht
  have ho3 : OrientedBy3 ⟨0, 0, 1⟩ s Ts := fun t ht => by rw [Spec3.triArea_z]; exact ho t ht
  have hpos := oriented_area_pos ho hne
  have hA : Spec2.area Ts ≠ 0 := by
    intro h0; rw [h0] at hpos; simp at hpos
  have hA3 : Spec3.area ⟨0, 0, 1⟩ Ts ≠ 0 := by rw [Spec3.area_z]; exact hA
  obtain ⟨fx, fy⟩ := Spec3.first_z Ts
  have hC : Spec3.centroid ⟨0, 0, 1⟩ Ts = ⟨Spec2.centroidX Ts, Spec2.centroidY Ts, d⟩ := by
    have hd := Spec3.dot_centroid hT hA3
    rw [dotz] at hd
    ext
    · simp only [Spec3.centroid, V3.sdiv_x, fx, Spec3.area_z, Spec2.centroidX]
    · simp only [Spec3.centroid, V3.sdiv_y, fy, Spec3.area_z, Spec2.centroidY]
    · exact hd
  rw [inertiaTensor_general_exact isFrame_one isFrame_one hs hpl hT h ho3 hne, hC, Spec3.area_z]
  set c : V3 ℝ := ⟨Spec2.centroidX Ts, Spec2.centroidY Ts, d⟩ with hc
  have hplane : ∀ t ∈ Ts, V3.dot ⟨0, 0, 1⟩ (t.a - c) = 0 ∧ V3.dot ⟨0, 0, 1⟩ (t.b - c) = 0 ∧
      V3.dot ⟨0, 0, 1⟩ (t.c - c) = 0 := by
    intro t ht
    obtain ⟨ha, hb, hc'⟩ := hTz t ht
    simp only [dotz, V3.sub_z, ha, hb, hc', hc, sub_self, and_self]
  have hp := frameMap_polar isFrame_one isFrame_one c Ts hplane
  rw [frameMap_one] at hp
  have h0 : Spec2.first Ts 0 = Spec2.area Ts * c.get 0 := by
    simp only [hc, V3.get_zero, Spec2.centroidX]; field_simp
  have h1 : Spec2.first Ts 1 = Spec2.area Ts * c.get 1 := by
    simp only [hc, V3.get_one, Spec2.centroidY]; field_simp
  rw [Spec2.second_centred Ts c 0 0 h0 h0, Spec2.second_centred Ts c 1 1 h1 h1] at hp
  rw [← hp]
  simp only [hc, V3.get_zero, V3.get_one]
  congr 1; ring

/-! ### perimeter -/

theorem norm_sub_comm (a b : V3 ℝ) : V3.norm (b - a) = V3.norm (a - b) := by
  unfold V3.norm V3.normSq V3.dot
  congr 1
  simp only [V3.sub_x, V3.sub_y, V3.sub_z]; ring

theorem zipWith_swap {β : Type} (f : β → β → ℝ) (hf : ∀ a b, f a b = f b a) (l l' : List β) :
    List.zipWith f l l' = List.zipWith f l' l := by
  induction l generalizing l' with
  | nil => cases l' <;> rfl
  | cons a t ih =>
    cases l' with
    | nil => rfl
    | cons b t' => simp only [List.zipWith_cons_cons, hf a b, ih t']

/-- **perimeter** does not depend on the direction in which the vertices are listed -/
theorem perimeter_reverse_invariant (vs : List (V3 ℝ)) :
    Poly2.perimeter vs.reverse = Poly2.perimeter vs := by
  rw [← perimeter_rotate_invariant vs (vs.length - 1 % vs.length)]
  unfold Poly2.perimeter
  simp only [Scalar.sum_real, rotl_eq_rotate]
  rw [List.rotate_reverse, ← List.reverse_zipWith (by simp), List.sum_reverse]
  set m := vs.length - 1 % vs.length with hm
  have hback : (vs.rotate m).rotate 1 = vs := by
    rw [List.rotate_rotate]
    rcases Nat.eq_zero_or_pos vs.length with h0 | hpos
    · rw [List.length_eq_zero_iff.mp h0]; simp
    · have : (m + 1) % vs.length = 0 := by
        rcases Nat.lt_or_ge 1 vs.length with h1 | h1
        · rw [hm, Nat.mod_eq_of_lt h1]
          have : vs.length - 1 + 1 = vs.length := by omega
          rw [this, Nat.mod_self]
        · have : vs.length = 1 := by omega
          rw [this]; exact Nat.mod_one _
      rw [← List.rotate_mod, this, List.rotate_zero]
  rw [hback]
  exact congrArg List.sum (zipWith_swap _ (fun a b => norm_sub_comm a b) _ _)

/-! ### non-vacuity: a 5 × 1 rectangle in the tilted plane `−3x + 4z = 9` (`n · v = 9/5`, not through the origin), unit normal `(−3/5, 0, 4/5)`,
counter-clockwise about the normal, with its two-triangle fan; frame `R` = rotation about `y` -/

def exTilt : List (V3 ℝ) := [⟨1,2,3⟩, ⟨5,2,6⟩, ⟨5,3,6⟩, ⟨1,3,3⟩]
def exTiltT : List (Tri ℝ) := [⟨⟨1,2,3⟩, ⟨5,2,6⟩, ⟨5,3,6⟩⟩, ⟨⟨1,2,3⟩, ⟨5,3,6⟩, ⟨1,3,3⟩⟩]
def exN : V3 ℝ := ⟨-3/5, 0, 4/5⟩
def exR : M3 ℝ := ⟨4/5, 0, 3/5, 0, 1, 0, -3/5, 0, 4/5⟩

theorem exTilt_inPlane : InPlane exN (9/5) exTilt := by
  intro v hv
  simp only [exTilt, List.mem_cons, List.not_mem_nil, or_false] at hv
  rcases hv with rfl | rfl | rfl | rfl <;> simp [exN, V3.dot] <;> norm_num

theorem exN_norm : V3.norm exN = 1 := by
  simp only [V3.norm, V3.normSq, V3.dot, exN, Scalar.sqrt_real]
  norm_num

theorem exTilt_triangulates : Triangulates exTilt exTiltT := by
  intro φ hφ
  have c := hφ ⟨1,2,3⟩ ⟨5,3,6⟩
  simp [sumEdges, cycleEdges, exTilt, exTiltT, triEdges, Poly2.rotl] at c ⊢
  linarith

theorem exTiltT_inPlane : TrisInPlane exN (9/5) exTiltT := by
  intro t ht
  simp only [exTiltT, List.mem_cons, List.not_mem_nil, or_false] at ht
  rcases ht with rfl | rfl <;> simp [exN, V3.dot] <;> norm_num

theorem exTiltT_oriented : OrientedBy3 exN 1 exTiltT := by
  intro t ht
  simp only [exTiltT, List.mem_cons, List.not_mem_nil, or_false] at ht
  rcases ht with rfl | rfl <;> simp [Spec3.triArea, exN, V3.dot, V3.cross, Scalar.lit] <;> norm_num

theorem exR_frame : IsFrame exR exN := by
  refine ⟨⟨?_, ?_, ?_, ?_, ?_, ?_, ?_⟩, ?_⟩ <;>
    simp [exR, exN, M3.det, M3.mulVec] <;> norm_num

/-- the example is not degenerate: its signed area about `exN` is `5` -/
example : Poly2.signedArea exTilt exN = 5 := by
  rw [signedArea_general_tri exTilt_inPlane exN_norm exTilt_triangulates]
  simp [Spec3.area, Spec3.triArea, exTiltT, exN, V3.dot, V3.cross, Scalar.lit]; norm_num

example : 0 < (1:ℝ) * Poly2.signedArea exTilt exN :=
  signedArea_general_sign exTilt_inPlane exN_norm exTilt_triangulates exTiltT_oriented (by simp [exTiltT])

example : Poly2.area exTilt exN = 1 * Spec3.area exN exTiltT :=
  area_general_tri (Or.inl rfl) exTilt_inPlane exN_norm exTilt_triangulates exTiltT_oriented
    (by simp [exTiltT])

example : Poly2.centroid exTilt exN exR = Spec3.centroid exN exTiltT :=
  centroid_general_exact exR_frame exTilt_inPlane exTiltT_inPlane exTilt_triangulates
    (by have := oriented3_area_pos exTiltT_oriented (by simp [exTiltT]); linarith)

/-- … and the value is the rectangle's centre `(3, 5/2, 9/2)` -/
example : Poly2.centroid exTilt exN exR = ⟨3, 5/2, 9/2⟩ := by
  rw [centroid_general_exact exR_frame exTilt_inPlane exTiltT_inPlane exTilt_triangulates
    (by have := oriented3_area_pos exTiltT_oriented (by simp [exTiltT]); linarith)]
  ext <;> simp [Spec3.centroid, Spec3.first, Spec3.area, Spec3.triFirst, Spec3.triArea, exTiltT, exN,
    V3.sum, V3.add, V3.zero, V3.dot, V3.cross, Scalar.lit] <;> norm_num

example : Poly2.polarMoment exTilt exR = 1 * Spec3.polarAbout exN (V3.smul (9/5) exN) exTiltT :=
  polarMoment_general_exact exR_frame (Or.inl rfl) exTiltT_inPlane exTilt_triangulates exTiltT_oriented
    (by simp [exTiltT])

example : Poly2.inertiaTensor exTilt exN exR M3.one =
    Spec3.axisTensor exN (1 * Spec3.polarAbout exN (Spec3.centroid exN exTiltT) exTiltT)
      (1 * Spec3.area exN exTiltT) (Spec3.centroid exN exTiltT) :=
  inertiaTensor_general_exact exR_frame isFrame_one (Or.inl rfl) exTilt_inPlane exTiltT_inPlane
    exTilt_triangulates exTiltT_oriented (by simp [exTiltT])

/-- xy-plane instance (unit square at height `z = 0`) -/
example : Poly2.inertiaTensor exSq ⟨0, 0, 1⟩ M3.one M3.one =
    Spec3.axisTensor ⟨0, 0, 1⟩
      (1 * (Spec2.second exSqT 0 0 + Spec2.second exSqT 1 1
        - Spec2.area exSqT * (Spec2.centroidX exSqT * Spec2.centroidX exSqT
            + Spec2.centroidY exSqT * Spec2.centroidY exSqT)))
      (1 * Spec2.area exSqT) ⟨Spec2.centroidX exSqT, Spec2.centroidY exSqT, 0⟩ := by
  apply inertiaTensor_exact (Or.inl rfl)
  · intro v hv
    simp only [exSq, List.mem_cons, List.not_mem_nil, or_false] at hv
    rcases hv with rfl | rfl | rfl | rfl <;> rfl
  · intro t ht
    simp only [exSqT, List.mem_cons, List.not_mem_nil, or_false] at ht
    rcases ht with rfl | rfl <;> exact ⟨rfl, rfl, rfl⟩
  · intro φ hφ
    have c := hφ ⟨0,0,0⟩ ⟨1,1,0⟩
    simp [sumEdges, cycleEdges, exSq, exSqT, triEdges, Poly2.rotl] at c ⊢
    linarith
  · intro t ht
    simp [exSqT] at ht
    rcases ht with rfl | rfl <;> simp [Spec2.triArea, Scalar.lit]
  · simp [exSqT]

example : Poly2.perimeter exTilt.reverse = Poly2.perimeter exTilt := perimeter_reverse_invariant _


/-! ## The "exact integrals" are ITERATED INTEGRALS

  `TriInt.integral2 f Ts = Σ_t J_t · ∫₀¹∫₀^{1−s} f(a + s(b−a) + u(c−a)) du ds`, `J_t = (b−a)×(c−a)` (xy-plane), and
  `TriInt.integral3 n f Ts` with `J_t = n·((b−a)×(c−a))` (any plane): the integral of `f` over the standard
  triangle pushed forward by the affine parametrisation of each triangle (`Lemmas/PlanarIntegral.lean`;
  the closed forms of `Spec/Planar.lean`, `Spec/Planar3.lean` are PROVED from Mathlib's fundamental theorem
  of calculus).  The theorems above, restated without any closed form: -/

open TriInt

theorem oriented_jac2 {s : ℝ} {Ts : List (Tri ℝ)} (ho : OrientedBy s Ts) : ∀ t ∈ Ts, 0 < s * jac2 t := by
  intro t ht; have := ho t ht; rw [jac2_eq]; linarith

theorem oriented_jac3 {n : V3 ℝ} {s : ℝ} {Ts : List (Tri ℝ)} (ho : OrientedBy3 n s Ts) :
    ∀ t ∈ Ts, 0 < s * jac3 n t := by
  intro t ht; have := ho t ht; rw [jac3_eq]; linarith

/-- shoelace sum = `2 ∫ 1 dA` -/
theorem polygon_shoelace_integral {w : List (V3 ℝ)} {Ts : List (Tri ℝ)} (h : Triangulates w Ts) :
    Scalar.sum (List.zipWith Poly2.delta w (Poly2.rotl 1 w)) = 2 * integral2 (fun _ => 1) Ts := by
  rw [polygon_shoelace_exact h, area_integral]

/-- **signed area (xy-plane)** `= ∫ 1 dA` -/
theorem signedArea_xy_integral {vs : List (V3 ℝ)} {Ts : List (Tri ℝ)} (h : Triangulates vs Ts) :
    Poly2.signedArea vs ⟨0, 0, 1⟩ = integral2 (fun _ => 1) Ts := by
  rw [signedArea_xy_exact h, area_integral]

/-- **centroid (xy-plane)** `= (∫ x dA, ∫ y dA) / ∫ 1 dA` -/
theorem centroid_xy_integral {vs : List (V3 ℝ)} {Ts : List (Tri ℝ)} (h : Triangulates vs Ts)
    (hA : integral2 (fun _ => 1) Ts ≠ 0) :
    (Poly2.centroid vs ⟨0, 0, 1⟩ M3.one).x = integral2 (fun p => p.x) Ts / integral2 (fun _ => 1) Ts ∧
    (Poly2.centroid vs ⟨0, 0, 1⟩ M3.one).y = integral2 (fun p => p.y) Ts / integral2 (fun _ => 1) Ts := by
  rw [← area_integral] at hA ⊢
  have h0 := first_integral Ts 0
  have h1 := first_integral Ts 1
  simp only [V3.get_zero, V3.get_one] at h0 h1
  rw [← h0, ← h1]
  exact centroid_xy_exact h hA

/-- **planar moments** `(I_x, I_y, I_xy) = s · (∫ y² dA, ∫ x² dA, ∫ xy dA)` in the aligned frame; `s ·` the signed
iterated integral is the unsigned one (`integral2_oriented`: every triangle enters with `|J|`). -/
theorem planarMoments_integral {vs : List (V3 ℝ)} (R : M3 ℝ) {Ts : List (Tri ℝ)} {s : ℝ}
    (hs : s = 1 ∨ s = -1) (h : Triangulates (Poly2.align R vs) Ts) (ho : OrientedBy s Ts) (hne : Ts ≠ []) :
    Poly2.planarMoments vs R =
      (s * integral2 (fun p => p.y * p.y) Ts, s * integral2 (fun p => p.x * p.x) Ts,
       s * integral2 (fun p => p.x * p.y) Ts) := by
  have h00 := second_integral Ts 0 0
  have h11 := second_integral Ts 1 1
  have h01 := second_integral Ts 0 1
  simp only [V3.get_zero, V3.get_one] at h00 h11 h01
  rw [planarMoments_exact R hs h ho hne, h00, h11, h01]

/-- … and with the absolute Jacobians spelled out -/
theorem planarMoments_integral_abs {vs : List (V3 ℝ)} (R : M3 ℝ) {Ts : List (Tri ℝ)} {s : ℝ}
    (hs : s = 1 ∨ s = -1) (h : Triangulates (Poly2.align R vs) Ts) (ho : OrientedBy s Ts) (hne : Ts ≠ []) :
    Poly2.planarMoments vs R =
      ((Ts.map (fun t => triIntegral |jac2 t| (fun p => p.y * p.y) t)).sum,
       (Ts.map (fun t => triIntegral |jac2 t| (fun p => p.x * p.x) t)).sum,
       (Ts.map (fun t => triIntegral |jac2 t| (fun p => p.x * p.y) t)).sum) := by
  rw [planarMoments_integral R hs h ho hne]
  simp only [integral2_oriented hs _ (oriented_jac2 ho)]

/-- **polar moment** `= s · ∫ (x² + y²) dA` in the aligned frame -/
theorem polarMoment_integral {vs : List (V3 ℝ)} (R : M3 ℝ) {Ts : List (Tri ℝ)} {s : ℝ}
    (hs : s = 1 ∨ s = -1) (h : Triangulates (Poly2.align R vs) Ts) (ho : OrientedBy s Ts) (hne : Ts ≠ []) :
    Poly2.polarMoment vs R = s * integral2 (fun p => p.x * p.x + p.y * p.y) Ts := by
  rw [polarMoment_exact R hs h ho hne, polar2_integral]

/-- **signed area, any plane** `= ∫ 1 dA` (signed about `n`) -/
theorem signedArea_general_integral {vs : List (V3 ℝ)} {n : V3 ℝ} {d : ℝ} {Ts : List (Tri ℝ)}
    (hpl : InPlane n d vs) (hn : V3.norm n = 1) (h : Triangulates vs Ts) :
    Poly2.signedArea vs n = integral3 n (fun _ => 1) Ts := by
  rw [signedArea_general_tri hpl hn h, area3_integral]

/-- **area, any plane** `= Σ_t |J_t| ∫∫ 1` -/
theorem area_general_integral {vs : List (V3 ℝ)} {n : V3 ℝ} {d s : ℝ} {Ts : List (Tri ℝ)}
    (hs : s = 1 ∨ s = -1) (hpl : InPlane n d vs) (hn : V3.norm n = 1) (h : Triangulates vs Ts)
    (ho : OrientedBy3 n s Ts) (hne : Ts ≠ []) :
    Poly2.area vs n = (Ts.map (fun t => triIntegral |jac3 n t| (fun _ => 1) t)).sum := by
  rw [area_general_tri hs hpl hn h ho hne, area3_integral, integral3_oriented hs n _ (oriented_jac3 ho)]

/-- **centroid, any plane**: every coordinate `= ∫ r_i dA / ∫ 1 dA` -/
theorem centroid_general_integral {vs : List (V3 ℝ)} {n : V3 ℝ} {d : ℝ} {R : M3 ℝ} {Ts : List (Tri ℝ)}
    (hF : IsFrame R n) (hpl : InPlane n d vs) (hT : TrisInPlane n d Ts) (h : Triangulates vs Ts)
    (hA : integral3 n (fun _ => 1) Ts ≠ 0) (i : Nat) :
    (Poly2.centroid vs n R).get i = integral3 n (fun p => p.get i) Ts / integral3 n (fun _ => 1) Ts := by
  rw [← area3_integral] at hA
  rw [centroid_general_exact hF hpl hT h hA, centroid3_integral]

/-- **polar moment, any plane** `= s · ∫ |r − d n|² dA` : squared distance from the normal axis through the origin -/
theorem polarMoment_general_integral {vs : List (V3 ℝ)} {n : V3 ℝ} {d s : ℝ} {R : M3 ℝ}
    {Ts : List (Tri ℝ)} (hF : IsFrame R n) (hs : s = 1 ∨ s = -1) (hT : TrisInPlane n d Ts)
    (h : Triangulates vs Ts) (ho : OrientedBy3 n s Ts) (hne : Ts ≠ []) :
    Poly2.polarMoment vs R = s * integral3 n (fun r => V3.normSq (r - V3.smul d n)) Ts := by
  rw [polarMoment_general_exact hF hs hT h ho hne, polar3_integral]

/-- **planar moments of a tilted polygon are stated w.r.t. the frame**: with `e₁, e₂` the first two rows of `R`
(the in-plane axes chosen by kabsch), `(I_x, I_y, I_xy) = s · (∫ (e₂·r)² dA, ∫ (e₁·r)² dA, ∫ (e₁·r)(e₂·r) dA)`,
integrals over the polygon in its own plane.  (They DO depend on the in-plane frame; the polar moment, the
centroid and the inertia tensor do not: `…_frame_independent` below.) -/
theorem planarMoments_frame_integral {vs : List (V3 ℝ)} {n : V3 ℝ} {s : ℝ} {R : M3 ℝ} {Ts : List (Tri ℝ)}
    (hF : IsFrame R n) (hs : s = 1 ∨ s = -1) (h : Triangulates vs Ts) (ho : OrientedBy3 n s Ts)
    (hne : Ts ≠ []) :
    Poly2.planarMoments vs R =
      (s * integral3 n (fun r => (M3.mulVec R r).y * (M3.mulVec R r).y) Ts,
       s * integral3 n (fun r => (M3.mulVec R r).x * (M3.mulVec R r).x) Ts,
       s * integral3 n (fun r => (M3.mulVec R r).x * (M3.mulVec R r).y) Ts) := by
  have htri : Triangulates (Poly2.align R vs) (Ts.map (Tri.map (M3.mulVec R))) :=
    EdgeChainEq.map_vertices _ h
  have hor : OrientedBy s (Ts.map (Tri.map (M3.mulVec R))) := by
    intro t' ht'
    simp only [List.mem_map] at ht'
    obtain ⟨t, ht, rfl⟩ := ht'
    rw [hF.triArea_eq]; exact ho t ht
  rw [planarMoments_integral R hs htri hor (by simpa using hne)]
  simp only [integral2_map_frame hF]

/-- the in-plane axes: `(R r).x = e₁ · r`, `(R r).y = e₂ · r` with `e₁, e₂` the rows of `R` -/
theorem mulVec_rows (R : M3 ℝ) (r : V3 ℝ) :
    (M3.mulVec R r).x = V3.dot ⟨R.xx, R.xy, R.xz⟩ r ∧ (M3.mulVec R r).y = V3.dot ⟨R.yx, R.yy, R.yz⟩ r :=
  ⟨rfl, rfl⟩

/-- **inertia tensor, any plane, any frame matrices** `= J n nᵀ + A (|c|² 1 − c cᵀ)` with
`A = Σ|J_t|∫∫1`, `J = Σ|J_t|∫∫|r − c|²` and `c` the exact centroid (`centroid3_integral`: `c_i = ∫r_i / ∫1`). -/
theorem inertiaTensor_general_integral {vs : List (V3 ℝ)} {n : V3 ℝ} {d s : ℝ} {R R2 : M3 ℝ}
    {Ts : List (Tri ℝ)} (hF : IsFrame R n) (hF2 : IsFrame R2 ⟨0, 0, 1⟩) (hs : s = 1 ∨ s = -1)
    (hpl : InPlane n d vs) (hT : TrisInPlane n d Ts) (h : Triangulates vs Ts)
    (ho : OrientedBy3 n s Ts) (hne : Ts ≠ []) :
    Poly2.inertiaTensor vs n R R2 =
      Spec3.axisTensor n
        (Ts.map (fun t => triIntegral |jac3 n t| (fun r => V3.normSq (r - Spec3.centroid n Ts)) t)).sum
        (Ts.map (fun t => triIntegral |jac3 n t| (fun _ => 1) t)).sum
        (Spec3.centroid n Ts) := by
  rw [inertiaTensor_general_exact hF hF2 hs hpl hT h ho hne, polar3_integral, area3_integral,
    integral3_oriented hs n _ (oriented_jac3 ho), integral3_oriented hs n _ (oriented_jac3 ho)]

/-! ## Triangulation-free statements (signed fan) and frame independence -/

/-- `d n` is a point of the plane `n · v = d` -/
theorem dot_smul_self {n : V3 ℝ} (hn : V3.normSq n = 1) (d : ℝ) : V3.dot n (V3.smul d n) = d := by
  simp only [V3.normSq, V3.dot, V3.smul_x, V3.smul_y, V3.smul_z] at hn ⊢
  linear_combination d * hn

/-- **centroid without any triangulation hypothesis**: for EVERY vertex list in the plane with non-zero
`n · areaVector`, the returned centroid is the exact centroid of the signed fan from the foot `d n` of the
normal axis. -/
theorem centroid_general_fan {vs : List (V3 ℝ)} {n : V3 ℝ} {d : ℝ} {R : M3 ℝ}
    (hF : IsFrame R n) (hpl : InPlane n d vs) (hA : V3.dot n (Spec3.areaVector vs) ≠ 0) :
    Poly2.centroid vs n R = Spec3.centroid n (fanTris (V3.smul d n) vs) := by
  have hT : TrisInPlane n d (fanTris (V3.smul d n) vs) := fan_inPlane (dot_smul_self hF.normSq_eq d) hpl
  have h : Triangulates vs (fanTris (V3.smul d n) vs) := fan_triangulates _ _
  exact centroid_general_exact hF hpl hT h (by rw [← areaVector_triangulation n h]; exact hA)

/-- **the centroid does not depend on the in-plane frame** chosen by kabsch (any two matrices meeting the
contract give the same point) — for every planar vertex list of non-zero signed area. -/
theorem centroid_frame_independent {vs : List (V3 ℝ)} {n : V3 ℝ} {d : ℝ} {R R' : M3 ℝ}
    (hF : IsFrame R n) (hF' : IsFrame R' n) (hpl : InPlane n d vs)
    (hA : V3.dot n (Spec3.areaVector vs) ≠ 0) : Poly2.centroid vs n R = Poly2.centroid vs n R' := by
  rw [centroid_general_fan hF hpl hA, centroid_general_fan hF' hpl hA]

/-- the polar moment does not depend on the in-plane frame -/
theorem polarMoment_frame_independent {vs : List (V3 ℝ)} {n : V3 ℝ} {d s : ℝ} {R R' : M3 ℝ}
    {Ts : List (Tri ℝ)} (hF : IsFrame R n) (hF' : IsFrame R' n) (hs : s = 1 ∨ s = -1)
    (hT : TrisInPlane n d Ts) (h : Triangulates vs Ts) (ho : OrientedBy3 n s Ts) (hne : Ts ≠ []) :
    Poly2.polarMoment vs R = Poly2.polarMoment vs R' := by
  rw [polarMoment_general_exact hF hs hT h ho hne, polarMoment_general_exact hF' hs hT h ho hne]

/-- **the inertia tensor does not depend on either kabsch matrix**: any frames `R, R'` of `n` and `R2, R2'` of `ẑ` -/
theorem inertiaTensor_frame_independent {vs : List (V3 ℝ)} {n : V3 ℝ} {d s : ℝ} {R R' R2 R2' : M3 ℝ}
    {Ts : List (Tri ℝ)} (hF : IsFrame R n) (hF' : IsFrame R' n) (hF2 : IsFrame R2 ⟨0, 0, 1⟩)
    (hF2' : IsFrame R2' ⟨0, 0, 1⟩) (hs : s = 1 ∨ s = -1)
    (hpl : InPlane n d vs) (hT : TrisInPlane n d Ts) (h : Triangulates vs Ts)
    (ho : OrientedBy3 n s Ts) (hne : Ts ≠ []) :
    Poly2.inertiaTensor vs n R R2 = Poly2.inertiaTensor vs n R' R2' := by
  rw [inertiaTensor_general_exact hF hF2 hs hpl hT h ho hne,
    inertiaTensor_general_exact hF' hF2' hs hpl hT h ho hne]

/-! ## `Polygon.inertia_tensor` as a state-machine step (temporary frame) -/

open PolyState

/-- **the object is restored**: after `inertia_tensor` both geometry fields are what they were -/
theorem inertiaTensorStep_restores (st : PolyState ℝ) (R R2 : M3 ℝ) :
    (inertiaTensorStep st R R2).1 = st := rfl

/-- every C04 query leaves the object state unchanged … -/
theorem observe_state (q : Query) (st : PolyState ℝ) (R R2 : M3 ℝ) : (observe q st R R2).1 = st := by
  cases q <;> rfl

/-- … so does any history of queries … -/
theorem observeAll_state (qs : List Query) (st : PolyState ℝ) (R R2 : M3 ℝ) :
    (observeAll qs st R R2).1 = st := by
  induction qs generalizing st with
  | nil => rfl
  | cons q rest ih => simp only [observeAll, observe_state, ih]

/-- … and **no query can observe the temporary frame**: in every history (any order, any repetitions, any
number of `inertia_tensor` reads in between) each answer is the one a freshly built object would give. -/
theorem observeAll_values (qs : List Query) (st : PolyState ℝ) (R R2 : M3 ℝ) :
    (observeAll qs st R R2).2 = qs.map (fun q => (observe q st R R2).2) := by
  induction qs generalizing st with
  | nil => rfl
  | cons q rest ih => simp only [observeAll, observe_state, ih, List.map_cons]

theorem v3_add_zero_sub (v c : V3 ℝ) : v + ((⟨lit 0, lit 0, lit 0⟩ : V3 ℝ) - c) = v - c := by
  ext <;> simp [V3.add_x, V3.add_y, V3.add_z, V3.sub_x, V3.sub_y, V3.sub_z, Scalar.lit] <;> ring

/-- the xy signed-area formula is half the shoelace sum, for every vertex list -/
theorem signedArea_xy_shoelace (w : List (V3 ℝ)) :
    Poly2.signedArea w ⟨0, 0, 1⟩ = (List.zipWith Poly2.delta w (Poly2.rotl 1 w)).sum / 2 := by
  have hk : Poly2.argmax3 (0:ℝ) 0 1 = 2 := by simp [Poly2.argmax3]
  have key := shoelace_reindex w
  unfold Poly2.signedArea
  simp only [Scalar.sum_real, V3.norm, V3.normSq, V3.dot, Scalar.abs_real, Scalar.sqrt_real,
    Scalar.lit, Scalar.ofNat_real, abs_zero, abs_one, hk, V3.get_two]
  norm_num
  rw [key]; ring

/-- **the area read in the temporary frame** (centred, rotated by `R`, normal `ẑ`) is the area of the polygon -/
theorem tempFrame_area {vs : List (V3 ℝ)} {n : V3 ℝ} {d : ℝ} {R : M3 ℝ} (hF : IsFrame R n)
    (hpl : InPlane n d vs) (c : V3 ℝ) :
    Poly2.area (Poly2.align R (vs.map (· - c))) ⟨0, 0, 1⟩ = Poly2.area vs n := by
  unfold Poly2.area
  rw [signedArea_xy_shoelace, ← Scalar.sum_real, shoelace_frame_exact hF, dot_areaVector_translate,
    signedArea_general_exact hpl hF.norm_eq]
  congr 1; ring

/-- **the state-machine step computes the pure function** `Poly2.inertiaTensor` (which reads the area of the
original polygon): reading `area` inside the temporary frame makes no difference. -/
theorem inertiaTensorStep_value {vs : List (V3 ℝ)} {n : V3 ℝ} {d : ℝ} {R : M3 ℝ} (R2 : M3 ℝ)
    (hF : IsFrame R n) (hpl : InPlane n d vs) :
    (inertiaTensorStep ⟨vs, n⟩ R R2).2 = Poly2.inertiaTensor vs n R R2 := by
  have hz : (⟨lit 0, lit 0, lit 1⟩ : V3 ℝ) = ⟨0, 0, 1⟩ := by
    simp [Scalar.lit]
  simp only [inertiaTensorStep, setCentroid, Poly2.inertiaTensor, v3_add_zero_sub, hz, tempFrame_area hF hpl]

/-- **`inertia_tensor` as executed (temporary frame, restore) is exact**, for any frame matrices -/
theorem inertiaTensorStep_exact {vs : List (V3 ℝ)} {n : V3 ℝ} {d s : ℝ} {R R2 : M3 ℝ}
    {Ts : List (Tri ℝ)} (hF : IsFrame R n) (hF2 : IsFrame R2 ⟨0, 0, 1⟩) (hs : s = 1 ∨ s = -1)
    (hpl : InPlane n d vs) (hT : TrisInPlane n d Ts) (h : Triangulates vs Ts)
    (ho : OrientedBy3 n s Ts) (hne : Ts ≠ []) :
    inertiaTensorStep ⟨vs, n⟩ R R2 =
      (⟨vs, n⟩, Spec3.axisTensor n (s * Spec3.polarAbout n (Spec3.centroid n Ts) Ts) (s * Spec3.area n Ts)
        (Spec3.centroid n Ts)) := by
  apply Prod.ext
  · rfl
  · rw [inertiaTensorStep_value R2 hF hpl, inertiaTensor_general_exact hF hF2 hs hpl hT h ho hne]

/-! ### non-vacuity of the new statements (the tilted 5 × 1 rectangle) -/

example : Poly2.signedArea exTilt exN = integral3 exN (fun _ => 1) exTiltT :=
  signedArea_general_integral exTilt_inPlane exN_norm exTilt_triangulates

example : Poly2.planarMoments exTilt exR =
    (1 * integral3 exN (fun r => (M3.mulVec exR r).y * (M3.mulVec exR r).y) exTiltT,
     1 * integral3 exN (fun r => (M3.mulVec exR r).x * (M3.mulVec exR r).x) exTiltT,
     1 * integral3 exN (fun r => (M3.mulVec exR r).x * (M3.mulVec exR r).y) exTiltT) :=
  planarMoments_frame_integral exR_frame (Or.inl rfl) exTilt_triangulates exTiltT_oriented (by simp [exTiltT])

/-- a second frame for the same normal: `exR` followed by a quarter turn about `ẑ` -/
def exR' : M3 ℝ := ⟨0, 1, 0, -4/5, 0, -3/5, -3/5, 0, 4/5⟩

theorem exR'_frame : IsFrame exR' exN := by
  refine ⟨⟨?_, ?_, ?_, ?_, ?_, ?_, ?_⟩, ?_⟩ <;>
    simp [exR', exN, M3.det, M3.mulVec] <;> norm_num

theorem exTilt_area_ne : V3.dot exN (Spec3.areaVector exTilt) ≠ 0 := by
  rw [areaVector_triangulation exN exTilt_triangulates]
  have := oriented3_area_pos exTiltT_oriented (by simp [exTiltT])
  linarith

example : Poly2.centroid exTilt exN exR = Poly2.centroid exTilt exN exR' :=
  centroid_frame_independent exR_frame exR'_frame exTilt_inPlane exTilt_area_ne

example : Poly2.inertiaTensor exTilt exN exR M3.one = Poly2.inertiaTensor exTilt exN exR' M3.one :=
  inertiaTensor_frame_independent exR_frame exR'_frame isFrame_one isFrame_one (Or.inl rfl) exTilt_inPlane
    exTiltT_inPlane exTilt_triangulates exTiltT_oriented (by simp [exTiltT])

example : (inertiaTensorStep ⟨exTilt, exN⟩ exR M3.one).2 = Poly2.inertiaTensor exTilt exN exR M3.one :=
  inertiaTensorStep_value M3.one exR_frame exTilt_inPlane

example : (observeAll [.inertia, .planar, .polar, .inertia, .centroid] ⟨exTilt, exN⟩ exR M3.one).2
    = [.inertia, .planar, .polar, .inertia, .centroid].map (fun q => (observe q ⟨exTilt, exN⟩ exR M3.one).2) :=
  observeAll_values _ _ _ _


/-! ## Per-run certificates (what used to be "the oracle's ear clipping is trusted")

  The driver evaluates `Spec2.triangulationCheck`, `Spec2.orientCheck`, `Spec2.flatCheck` exactly over `ℚ` on the
  oracle's own vertex cycle `w` and triangle list `Ts` (op `cert.planar`), and prints `Spec2.area/first/second`
  of the same list (op `spec.planar`, `Q` mode). -/

open CCk in
/-- **the certified oracle**: when the three checks pass, the triangle list is a positively oriented
triangulation of the cycle in the chain sense, and the rational numbers the driver prints are the ITERATED
INTEGRALS `∫1, ∫x, ∫y, ∫x², ∫y², ∫xy` over it. -/
theorem certified_oracle {w : List (V3 ℚ)} {Ts : List (Tri ℚ)}
    (hc : Spec2.triangulationCheck w Ts = true) (ho : Spec2.orientCheck Ts = true) :
    Triangulates (w.map v3OfRat) (Ts.map triOfRat) ∧ OrientedBy 1 (Ts.map triOfRat) ∧ Ts.map triOfRat ≠ [] ∧
    ((Spec2.area Ts : ℚ) : ℝ) = integral2 (fun _ => 1) (Ts.map triOfRat) ∧
    ((Spec2.first Ts 0 : ℚ) : ℝ) = integral2 (fun p => p.x) (Ts.map triOfRat) ∧
    ((Spec2.first Ts 1 : ℚ) : ℝ) = integral2 (fun p => p.y) (Ts.map triOfRat) ∧
    ((Spec2.second Ts 0 0 : ℚ) : ℝ) = integral2 (fun p => p.x * p.x) (Ts.map triOfRat) ∧
    ((Spec2.second Ts 1 1 : ℚ) : ℝ) = integral2 (fun p => p.y * p.y) (Ts.map triOfRat) ∧
    ((Spec2.second Ts 0 1 : ℚ) : ℝ) = integral2 (fun p => p.x * p.y) (Ts.map triOfRat) := by
  obtain ⟨hne, hor⟩ := PlanarCert.orientCheck_sound ho
  have f0 := first_integral (Ts.map triOfRat) 0
  have f1 := first_integral (Ts.map triOfRat) 1
  have s00 := second_integral (Ts.map triOfRat) 0 0
  have s11 := second_integral (Ts.map triOfRat) 1 1
  have s01 := second_integral (Ts.map triOfRat) 0 1
  simp only [V3.get_zero, V3.get_one] at f0 f1 s00 s11 s01
  refine ⟨PlanarCert.triangulationCheck_sound hc, hor, hne, ?_, ?_, ?_, ?_, ?_, ?_⟩
  · rw [← PlanarCert.area_ofRat, area_integral]
  · rw [← PlanarCert.first_ofRat, f0]
  · rw [← PlanarCert.first_ofRat, f1]
  · rw [← PlanarCert.second_ofRat, s00]
  · rw [← PlanarCert.second_ofRat, s11]
  · rw [← PlanarCert.second_ofRat, s01]

open CCk in
/-- **certified xy-plane polygon** (vertices = doubles = rationals, `n = +ẑ`, `R = 1`): when the checks pass on
the object's OWN stored vertex list, the model's signed area, planar moments and polar moment are exactly
the rationals printed by the driver's `Q`-mode spec — no hypothesis left for the run to trust. -/
theorem certified_xy_model {w : List (V3 ℚ)} {Ts : List (Tri ℚ)}
    (hc : Spec2.triangulationCheck w Ts = true) (ho : Spec2.orientCheck Ts = true) :
    Poly2.signedArea (w.map v3OfRat) ⟨0, 0, 1⟩ = ((Spec2.area Ts : ℚ) : ℝ) ∧
    Poly2.planarMoments (w.map v3OfRat) M3.one =
      (((Spec2.second Ts 1 1 : ℚ) : ℝ), ((Spec2.second Ts 0 0 : ℚ) : ℝ), ((Spec2.second Ts 0 1 : ℚ) : ℝ)) ∧
    Poly2.polarMoment (w.map v3OfRat) M3.one = ((Spec2.second Ts 0 0 + Spec2.second Ts 1 1 : ℚ) : ℝ) := by
  obtain ⟨hne, hor⟩ := PlanarCert.orientCheck_sound ho
  have htri : Triangulates (w.map v3OfRat) (Ts.map triOfRat) := PlanarCert.triangulationCheck_sound hc
  have htri' : Triangulates (Poly2.align M3.one (w.map v3OfRat)) (Ts.map triOfRat) := by
    rw [align_one]; exact htri
  refine ⟨?_, ?_, ?_⟩
  · rw [signedArea_xy_exact htri, PlanarCert.area_ofRat]
  · rw [planarMoments_exact M3.one (Or.inl rfl) htri' hor hne]
    simp only [one_mul, PlanarCert.second_ofRat]
  · rw [polarMoment_exact M3.one (Or.inl rfl) htri' hor hne]
    simp only [one_mul, PlanarCert.second_ofRat]
    push_cast; rfl

open CCk in
/-- certified centroid and inertia tensor of an xy-plane polygon at height `z = 0` -/
theorem certified_xy_inertia {w : List (V3 ℚ)} {Ts : List (Tri ℚ)}
    (hc : Spec2.triangulationCheck w Ts = true) (ho : Spec2.orientCheck Ts = true)
    (hf : Spec2.flatCheck w Ts = true) :
    (inertiaTensorStep ⟨w.map v3OfRat, ⟨0, 0, 1⟩⟩ M3.one M3.one).2 =
      Spec3.axisTensor ⟨0, 0, 1⟩
        (1 * (Spec2.second (Ts.map triOfRat) 0 0 + Spec2.second (Ts.map triOfRat) 1 1
          - Spec2.area (Ts.map triOfRat) * (Spec2.centroidX (Ts.map triOfRat) * Spec2.centroidX (Ts.map triOfRat)
            + Spec2.centroidY (Ts.map triOfRat) * Spec2.centroidY (Ts.map triOfRat))))
        (1 * Spec2.area (Ts.map triOfRat))
        ⟨Spec2.centroidX (Ts.map triOfRat), Spec2.centroidY (Ts.map triOfRat), 0⟩ := by
  obtain ⟨hne, hor⟩ := PlanarCert.orientCheck_sound ho
  obtain ⟨hz, hTz⟩ := PlanarCert.flatCheck_sound hf
  have htri : Triangulates (w.map v3OfRat) (Ts.map triOfRat) := PlanarCert.triangulationCheck_sound hc
  have hpl : InPlane ⟨0, 0, 1⟩ 0 (w.map v3OfRat) := fun v hv => by
    simp only [V3.dot]; rw [hz v hv]; ring
  rw [inertiaTensorStep_value M3.one isFrame_one hpl]
  exact inertiaTensor_exact (Or.inl rfl) hz hTz htri hor hne

/-- non-vacuity of the certificates: the unit square with its two-triangle fan passes all three checks -/
def exSqQ : List (V3 ℚ) := [⟨0,0,0⟩, ⟨1,0,0⟩, ⟨1,1,0⟩, ⟨0,1,0⟩]
def exSqTQ : List (Tri ℚ) := [⟨⟨0,0,0⟩, ⟨1,0,0⟩, ⟨1,1,0⟩⟩, ⟨⟨0,0,0⟩, ⟨1,1,0⟩, ⟨0,1,0⟩⟩]

example : Spec2.triangulationCheck exSqQ exSqTQ = true := by decide +kernel
example : Spec2.orientCheck exSqTQ = true := by decide +kernel
example : Spec2.flatCheck exSqQ exSqTQ = true := by decide +kernel
/-- … and a wrong "triangulation" (one triangle missing) is rejected -/
example : Spec2.triangulationCheck exSqQ (exSqTQ.take 1) = false := by decide +kernel

example : Poly2.signedArea (exSqQ.map CCk.v3OfRat) ⟨0, 0, 1⟩ = ((Spec2.area exSqTQ : ℚ) : ℝ) :=
  (certified_xy_model (by decide +kernel) (by decide +kernel)).1


/-! ## More: the contract is satisfiable for every plane; perimeter; the property's xy clause; clockwise certificates -/

/-- **for every unit normal there is a matrix meeting the kabsch contract** (Rodrigues' rotation; a half turn for
`n = −ẑ`): the hypothesis `IsFrame R n` of the theorems above is never vacuous, and by the
`…_frame_independent` theorems the values do not depend on which such matrix kabsch returns. -/
theorem frame_exists {n : V3 ℝ} (hn : V3.norm n = 1) : ∃ R, IsFrame R n := exists_frame hn

/-- **perimeter = arc length** `Σ_edges ∫₀¹ |γ_e'(t)| dt` of the closed boundary polyline -/
theorem perimeter_arclength (vs : List (V3 ℝ)) :
    Poly2.perimeter vs = ((cycleEdges vs).map (fun e => arcLength (segPt e.1 e.2))).sum :=
  perimeter_arcLength vs

theorem rotl_map {β γ : Type} (f : β → γ) (k : Nat) (l : List β) :
    Poly2.rotl k (l.map f) = (Poly2.rotl k l).map f := by
  simp only [rotl_eq_rotate, List.map_rotate]

/-- **perimeter is invariant under rigid motions** `v ↦ R v + c` (in particular: it is the same in every plane) -/
theorem perimeter_rigid_invariant {R : M3 ℝ} (hR : IsRot R) (c : V3 ℝ) (vs : List (V3 ℝ)) :
    Poly2.perimeter (vs.map (fun v => M3.mulVec R v + c)) = Poly2.perimeter vs := by
  unfold Poly2.perimeter
  rw [rotl_map, List.zipWith_map]
  congr 2
  funext a b
  have : M3.mulVec R b + c - (M3.mulVec R a + c) = M3.mulVec R (b - a) := by
    ext <;> simp only [M3.mulVec, V3.sub_x, V3.sub_y, V3.sub_z, V3.add_x, V3.add_y, V3.add_z] <;> ring
  rw [this, hR.norm_rot]

/-- **the property's last clause, verbatim**: for a polygon in the xy-plane with `+z` normal (identity frame), listed in
either direction, `(I_x, I_y, I_xy) = (∫ y² dA, ∫ x² dA, ∫ xy dA)` (unsigned: every triangle enters with `|J|`). -/
theorem planarMoments_xy_integral {vs : List (V3 ℝ)} {Ts : List (Tri ℝ)} {s : ℝ}
    (hs : s = 1 ∨ s = -1) (h : Triangulates vs Ts) (ho : OrientedBy s Ts) (hne : Ts ≠ []) :
    Poly2.planarMoments vs M3.one =
      ((Ts.map (fun t => triIntegral |jac2 t| (fun p => p.y * p.y) t)).sum,
       (Ts.map (fun t => triIntegral |jac2 t| (fun p => p.x * p.x) t)).sum,
       (Ts.map (fun t => triIntegral |jac2 t| (fun p => p.x * p.y) t)).sum) :=
  planarMoments_integral_abs M3.one hs (by rw [align_one]; exact h) ho hne

theorem triArea_rev (t : Tri ℝ) : Spec2.triArea t.rev = -Spec2.triArea t := by
  simp only [Spec2.triArea, Tri.rev, Scalar.lit, Scalar.ofNat_real]; ring

open CCk in
/-- **certified xy-plane polygon listed CLOCKWISE**: the chain certificate on the stored cycle with clockwise
triangles, the orientation certificate on the reversed triangles; the model returns the NEGATIVE area as signed
area and the same (unsigned) moments. -/
theorem certified_xy_model_cw {w : List (V3 ℚ)} {Ts : List (Tri ℚ)}
    (hc : Spec2.triangulationCheck w Ts = true) (ho : Spec2.orientCheck (Ts.map Tri.rev) = true) :
    Poly2.signedArea (w.map v3OfRat) ⟨0, 0, 1⟩ = Spec2.area (Ts.map triOfRat) ∧
    Spec2.area (Ts.map triOfRat) < 0 ∧
    Poly2.planarMoments (w.map v3OfRat) M3.one =
      (-Spec2.second (Ts.map triOfRat) 1 1, -Spec2.second (Ts.map triOfRat) 0 0,
       -Spec2.second (Ts.map triOfRat) 0 1) := by
  obtain ⟨hne, hor⟩ := PlanarCert.orientCheck_sound ho
  have htri : Triangulates (w.map v3OfRat) (Ts.map triOfRat) := PlanarCert.triangulationCheck_sound hc
  have htri' : Triangulates (Poly2.align M3.one (w.map v3OfRat)) (Ts.map triOfRat) := by
    rw [align_one]; exact htri
  have hne' : Ts.map triOfRat ≠ [] := by
    intro h0; apply hne
    simp only [List.map_eq_nil_iff] at h0 ⊢; exact h0
  have hor' : OrientedBy (-1) (Ts.map triOfRat) := by
    intro t ht
    obtain ⟨q, hq, rfl⟩ := List.mem_map.mp ht
    have := hor (triOfRat q.rev) (by
      simp only [List.map_map, List.mem_map, Function.comp]
      exact ⟨q, hq, rfl⟩)
    have e : triOfRat q.rev = (triOfRat q).rev := rfl
    rw [e, triArea_rev] at this
    linarith
  refine ⟨signedArea_xy_exact htri, ?_, ?_⟩
  · have := oriented_area_pos hor' hne'; linarith
  · rw [planarMoments_exact M3.one (Or.inr rfl) htri' hor' hne']
    simp only [neg_one_mul]

example : ∃ R, IsFrame R exN := frame_exists exN_norm
example : Poly2.perimeter (exTilt.map (fun v => M3.mulVec exR v + ⟨1, 2, 3⟩)) = Poly2.perimeter exTilt :=
  perimeter_rigid_invariant exR_frame.rot _ _


/-! ## … and the iterated integrals are LEBESGUE integrals over the triangles (subsets of `ℝ²`)

  `TriInt.triSet t` = image of the standard triangle under the affine parametrisation = the triangle as a point set;
  `∫ q in triSet t, F q` is Mathlib's Bochner/Lebesgue integral w.r.t. `volume` on `ℝ × ℝ` (Fubini + the change of
  variables formula, `Lemmas/PlanarLebesgue.lean`).  What remains unformalised is only additivity over the
  triangulation: `Σ_t ∫_{T_t} F = ∫_{polygon} F` (null overlaps / covering). -/

open MeasureTheory in
theorem sum_triIntegral_lebesgue {Ts : List (Tri ℝ)} (hJ : ∀ t ∈ Ts, jac2 t ≠ 0) (F : ℝ × ℝ → ℝ)
    (hF : Continuous F) :
    (Ts.map (fun t => triIntegral |jac2 t| (fun p => F (p.x, p.y)) t)).sum
      = (Ts.map (fun t => ∫ q in triSet t, F q)).sum := by
  congr 1
  apply List.map_congr_left
  intro t ht
  exact triIntegral_eq_lebesgue t (hJ t ht) F hF

theorem jac2_ne_of_oriented {s : ℝ} {Ts : List (Tri ℝ)} (ho : OrientedBy s Ts) : ∀ t ∈ Ts, jac2 t ≠ 0 := by
  intro t ht h0
  have := oriented_jac2 ho t ht
  rw [h0] at this; simp at this

open MeasureTheory in
/-- **the property's xy clause with Lebesgue integrals**: `(I_x, I_y, I_xy) = Σ_t (∫_{T_t} y², ∫_{T_t} x², ∫_{T_t} xy)` -/
theorem planarMoments_xy_lebesgue {vs : List (V3 ℝ)} {Ts : List (Tri ℝ)} {s : ℝ}
    (hs : s = 1 ∨ s = -1) (h : Triangulates vs Ts) (ho : OrientedBy s Ts) (hne : Ts ≠ []) :
    Poly2.planarMoments vs M3.one =
      ((Ts.map (fun t => ∫ q in triSet t, q.2 * q.2)).sum,
       (Ts.map (fun t => ∫ q in triSet t, q.1 * q.1)).sum,
       (Ts.map (fun t => ∫ q in triSet t, q.1 * q.2)).sum) := by
  have hJ := jac2_ne_of_oriented ho
  rw [planarMoments_xy_integral hs h ho hne]
  rw [← sum_triIntegral_lebesgue hJ (fun q => q.2 * q.2) (by fun_prop),
    ← sum_triIntegral_lebesgue hJ (fun q => q.1 * q.1) (by fun_prop),
    ← sum_triIntegral_lebesgue hJ (fun q => q.1 * q.2) (by fun_prop)]

open MeasureTheory in
/-- **area (xy-plane) = Σ_t Lebesgue measure of the triangles** (as `∫ 1`) -/
theorem area_xy_lebesgue {vs : List (V3 ℝ)} {Ts : List (Tri ℝ)} {s : ℝ}
    (hs : s = 1 ∨ s = -1) (h : Triangulates vs Ts) (ho : OrientedBy s Ts) (hne : Ts ≠ []) :
    Poly2.area vs ⟨0, 0, 1⟩ = (Ts.map (fun t => ∫ _q in triSet t, (1:ℝ))).sum := by
  have hJ := jac2_ne_of_oriented ho
  have hp := oriented_area_pos ho hne
  rw [← sum_triIntegral_lebesgue hJ (fun _ => 1) (by fun_prop), ← integral2_oriented hs _ (oriented_jac2 ho),
    ← area_integral]
  unfold Poly2.area
  rw [signedArea_xy_exact h]
  simp only [Scalar.abs_real]
  rcases hs with rfl | rfl
  · rw [abs_of_pos (by linarith)]; ring
  · rw [abs_of_neg (by linarith)]; ring

open MeasureTheory in
/-- **centroid (xy-plane) = (Σ_t ∫_{T_t} x, Σ_t ∫_{T_t} y) / Σ_t ∫_{T_t} 1** -/
theorem centroid_xy_lebesgue {vs : List (V3 ℝ)} {Ts : List (Tri ℝ)} {s : ℝ}
    (hs : s = 1 ∨ s = -1) (h : Triangulates vs Ts) (ho : OrientedBy s Ts) (hne : Ts ≠ []) :
    (Poly2.centroid vs ⟨0, 0, 1⟩ M3.one).x =
      (Ts.map (fun t => ∫ q in triSet t, q.1)).sum / (Ts.map (fun t => ∫ _q in triSet t, (1:ℝ))).sum ∧
    (Poly2.centroid vs ⟨0, 0, 1⟩ M3.one).y =
      (Ts.map (fun t => ∫ q in triSet t, q.2)).sum / (Ts.map (fun t => ∫ _q in triSet t, (1:ℝ))).sum := by
  have hJ := jac2_ne_of_oriented ho
  have hp := oriented_area_pos ho hne
  have hA : integral2 (fun _ => 1) Ts ≠ 0 := by
    rw [← area_integral]; intro h0; rw [h0] at hp; simp at hp
  have hs0 : s ≠ 0 := by rcases hs with rfl | rfl <;> norm_num
  obtain ⟨hx, hy⟩ := centroid_xy_integral h hA
  rw [← sum_triIntegral_lebesgue hJ (fun _ => 1) (by fun_prop),
    ← sum_triIntegral_lebesgue hJ (fun q => q.1) (by fun_prop),
    ← sum_triIntegral_lebesgue hJ (fun q => q.2) (by fun_prop),
    ← integral2_oriented hs _ (oriented_jac2 ho), ← integral2_oriented hs _ (oriented_jac2 ho),
    ← integral2_oriented hs _ (oriented_jac2 ho), hx, hy]
  constructor <;> field_simp

open MeasureTheory in
/-- **polar moment in any plane as a Lebesgue integral in the coordinates of ANY frame**: `Σ_t ∫_{R T_t} |Rᵀ(x,y,d) − d n|²` -/
theorem polarMoment_general_lebesgue {vs : List (V3 ℝ)} {n : V3 ℝ} {d s : ℝ} {R : M3 ℝ}
    {Ts : List (Tri ℝ)} (hF : IsFrame R n) (hs : s = 1 ∨ s = -1) (hT : TrisInPlane n d Ts)
    (h : Triangulates vs Ts) (ho : OrientedBy3 n s Ts) (hne : Ts ≠ []) :
    Poly2.polarMoment vs R =
      (Ts.map (fun t => ∫ q in triSet (t.map (M3.mulVec R)),
        V3.normSq (M3.mulVec (M3.transpose R) ⟨q.1, q.2, d⟩ - V3.smul d n))).sum := by
  rw [polarMoment_general_integral hF hs hT h ho hne, integral3_oriented hs n _ (oriented_jac3 ho)]
  congr 1
  apply List.map_congr_left
  intro t ht
  have hj : jac3 n t ≠ 0 := by
    intro h0; have := oriented_jac3 ho t ht; rw [h0] at this; simp at this
  refine triIntegral3_eq_lebesgue hF t (hT t ht) hj _ ?_
  simp only [V3.normSq, V3.dot, M3.mulVec, M3.transpose, V3.sub_x, V3.sub_y, V3.sub_z, V3.smul_x, V3.smul_y, V3.smul_z]
  fun_prop

end
