import CoxeterVerif.Lemmas.Planar
/-!
  # C04 — polygon area, centroid, planar/polar moments are exact

  `w`  : the polygon's vertices in the frame in which the Python evaluates its edge sums
         (`_align_points_by_normal`: `w = align R vs`; for a polygon in the xy-plane with +z normal
         `R = 1` and `w = vs`);
  `Ts` : ANY triangulation of the region whose boundary edge chain is the polygon's cycle
         (`EdgeChainEq (cycleEdges w) (Ts.flatMap triEdges)`), with orientation sign `s`;
  "exact integrals" = sums of triangle closed forms (`Spec2`).  No bound on the number of vertices.
-/
open Scalar
set_option maxRecDepth 4000
noncomputable section

/-- the triangulation `Ts` bounds the polygon cycle `w` -/
def Triangulates (w : List (V3 ℝ)) (Ts : List (Tri ℝ)) : Prop :=
  EdgeChainEq (cycleEdges w) (Ts.flatMap triEdges)

theorem spec2_area_eq (Ts : List (Tri ℝ)) : Spec2.area Ts = (Ts.map Spec2.triArea).sum := by
  simp [Spec2.area]
theorem spec2_first_eq (Ts : List (Tri ℝ)) (i : Nat) :
    Spec2.first Ts i = (Ts.map (Spec2.triFirst · i)).sum := by simp [Spec2.first]
theorem spec2_second_eq (Ts : List (Tri ℝ)) (i j : Nat) :
    Spec2.second Ts i j = (Ts.map (Spec2.triSecond · i j)).sum := by simp [Spec2.second]

/-- **shoelace sum** = 2 × exact signed area -/
theorem polygon_shoelace_exact {w : List (V3 ℝ)} {Ts : List (Tri ℝ)} (h : Triangulates w Ts) :
    Scalar.sum (List.zipWith Poly2.delta w (Poly2.rotl 1 w)) = 2 * Spec2.area Ts := by
  rw [zipWith_rotl_eq, spec2_area_eq, ← list_sum_map_mul]
  exact sumEdges_bdry dPhi_odd dPhi_tri h

/-- **C04 signed area, xy-plane, +z normal**: the projection formula is the exact signed area
(positive exactly when the triangulation — hence the vertex cycle — is counter-clockwise). -/
theorem signedArea_xy_exact {vs : List (V3 ℝ)} {Ts : List (Tri ℝ)} (h : Triangulates vs Ts) :
    Poly2.signedArea vs ⟨0, 0, 1⟩ = Spec2.area Ts := by
  have hk : Poly2.argmax3 (0:ℝ) 0 1 = 2 := by simp [Poly2.argmax3]
  have hs := polygon_shoelace_exact h
  have key := shoelace_reindex vs
  simp only [Scalar.sum_real] at hs
  unfold Poly2.signedArea
  simp only [Scalar.sum_real, V3.norm, V3.normSq, V3.dot, Scalar.abs_real, Scalar.sqrt_real,
    Scalar.lit, Scalar.ofNat_real, abs_zero, abs_one, hk, V3.get_two, V3.get_zero, V3.get_one]
  norm_num
  rw [key, hs]; ring

/-- first-moment edge sums are 6 × the exact first moments -/
theorem polygon_first_exact {w : List (V3 ℝ)} {Ts : List (Tri ℝ)} (h : Triangulates w Ts) :
    Scalar.sum (List.zipWith (fun p q => (p.x + q.x) * Poly2.delta p q) w (Poly2.rotl 1 w))
        = 6 * Spec2.first Ts 0 ∧
    Scalar.sum (List.zipWith (fun p q => (p.y + q.y) * Poly2.delta p q) w (Poly2.rotl 1 w))
        = 6 * Spec2.first Ts 1 := by
  constructor
  · rw [zipWith_rotl_eq, spec2_first_eq, ← list_sum_map_mul]
    exact sumEdges_bdry cxPhi_odd cxPhi_tri h
  · rw [zipWith_rotl_eq, spec2_first_eq, ← list_sum_map_mul]
    exact sumEdges_bdry cyPhi_odd cyPhi_tri h

theorem mulVec_one (p : V3 ℝ) : M3.mulVec M3.one p = p := by
  cases p; simp [M3.mulVec, M3.one, Scalar.lit]
theorem align_one (vs : List (V3 ℝ)) : Poly2.align M3.one vs = vs := by
  unfold Poly2.align
  induction vs with
  | nil => rfl
  | cons a t ih => simp only [List.map_cons, mulVec_one, ih]
theorem transpose_one : M3.transpose (M3.one : M3 ℝ) = M3.one := rfl

/-- **C04 centroid, xy-plane, +z normal** (either vertex orientation; non-zero area):
in-plane centroid = exact first moment / exact area. -/
theorem centroid_xy_exact {vs : List (V3 ℝ)} {Ts : List (Tri ℝ)} (h : Triangulates vs Ts)
    (hA : Spec2.area Ts ≠ 0) :
    (Poly2.centroid vs ⟨0, 0, 1⟩ M3.one).x = Spec2.centroidX Ts ∧
    (Poly2.centroid vs ⟨0, 0, 1⟩ M3.one).y = Spec2.centroidY Ts := by
  obtain ⟨h0, h1⟩ := polygon_first_exact h
  unfold Poly2.centroid
  simp only [align_one, transpose_one, signedArea_xy_exact h, h0, h1]
  unfold Spec2.centroidX Spec2.centroidY
  simp only [M3.mulVec, M3.one, Scalar.lit, Scalar.ofNat_real]
  push_cast
  constructor <;> field_simp <;> ring

/-- second-moment edge sums -/
theorem polygon_second_exact {w : List (V3 ℝ)} {Ts : List (Tri ℝ)} (h : Triangulates w Ts) :
    Scalar.sum (List.zipWith (fun p q => Poly2.delta p q * (p.x * p.x + p.x * q.x + q.x * q.x)) w (Poly2.rotl 1 w))
        = 12 * Spec2.second Ts 0 0 ∧
    Scalar.sum (List.zipWith (fun p q => Poly2.delta p q * (p.y * p.y + p.y * q.y + q.y * q.y)) w (Poly2.rotl 1 w))
        = 12 * Spec2.second Ts 1 1 ∧
    Scalar.sum (List.zipWith (fun p q => Poly2.delta p q *
      (p.x * q.y + lit 2 * (p.x * p.y + q.x * q.y) + p.y * q.x)) w (Poly2.rotl 1 w))
        = 24 * Spec2.second Ts 0 1 := by
  refine ⟨?_, ?_, ?_⟩
  · rw [zipWith_rotl_eq, spec2_second_eq, ← list_sum_map_mul]
    exact sumEdges_bdry ixxPhi_odd ixxPhi_tri h
  · rw [zipWith_rotl_eq, spec2_second_eq, ← list_sum_map_mul]
    exact sumEdges_bdry iyyPhi_odd iyyPhi_tri h
  · rw [zipWith_rotl_eq, spec2_second_eq, ← list_sum_map_mul]
    exact sumEdges_bdry ixyPhi_odd ixyPhi_tri h

/-- all triangles of `Ts` have orientation `s` (`s = 1` counter-clockwise, `s = -1` clockwise) -/
def OrientedBy (s : ℝ) (Ts : List (Tri ℝ)) : Prop := ∀ t ∈ Ts, 0 < s * Spec2.triArea t

theorem oriented_second_nonneg {s : ℝ} {Ts : List (Tri ℝ)} (ho : OrientedBy s Ts) (i : Nat) :
    0 ≤ s * Spec2.second Ts i i := by
  rw [spec2_second_eq, ← list_sum_map_mul]
  apply List.sum_nonneg
  intro x hx
  simp only [List.mem_map] at hx
  obtain ⟨t, ht, rfl⟩ := hx
  have := ho t ht
  unfold Spec2.triSecond
  simp only [Scalar.lit, Scalar.ofNat_real]; push_cast
  have h2 : 0 ≤ t.a.get i * t.a.get i + t.b.get i * t.b.get i + t.c.get i * t.c.get i +
      (t.a.get i + t.b.get i + t.c.get i) * (t.a.get i + t.b.get i + t.c.get i) := by
    nlinarith [mul_self_nonneg (t.a.get i), mul_self_nonneg (t.b.get i), mul_self_nonneg (t.c.get i),
      mul_self_nonneg (t.a.get i + t.b.get i + t.c.get i)]
  have : s * (Spec2.triArea t / 12 * (t.a.get i * t.a.get i + t.b.get i * t.b.get i + t.c.get i * t.c.get i +
      (t.a.get i + t.b.get i + t.c.get i) * (t.a.get i + t.b.get i + t.c.get i)))
      = (s * Spec2.triArea t) / 12 * (t.a.get i * t.a.get i + t.b.get i * t.b.get i + t.c.get i * t.c.get i +
      (t.a.get i + t.b.get i + t.c.get i) * (t.a.get i + t.b.get i + t.c.get i)) := by ring
  rw [this]
  exact mul_nonneg (div_nonneg (le_of_lt ‹0 < s * Spec2.triArea t›) (by norm_num)) h2

theorem oriented_area_pos {s : ℝ} {Ts : List (Tri ℝ)} (ho : OrientedBy s Ts) (hne : Ts ≠ []) :
    0 < s * Spec2.area Ts := by
  rw [spec2_area_eq, ← list_sum_map_mul]
  apply List.sum_pos
  · intro x hx
    simp only [List.mem_map] at hx
    obtain ⟨t, ht, rfl⟩ := hx
    exact ho t ht
  · simpa using hne

/-- **C04 planar moments** (in the frame `w = align R vs`; for a polygon in the xy-plane with +z
normal that is the xy frame itself): with `s = ±1` the orientation of the vertex cycle, the
reported `(I_x, I_y, I_xy)` are the exact `∫y², ∫x², ∫xy` (`s · Spec2.second` is the unsigned
integral).  In particular the product of inertia keeps its sign. -/
theorem planarMoments_exact {vs : List (V3 ℝ)} (R : M3 ℝ) {Ts : List (Tri ℝ)} {s : ℝ}
    (hs : s = 1 ∨ s = -1) (h : Triangulates (Poly2.align R vs) Ts) (ho : OrientedBy s Ts)
    (hne : Ts ≠ []) :
    Poly2.planarMoments vs R =
      (s * Spec2.second Ts 1 1, s * Spec2.second Ts 0 0, s * Spec2.second Ts 0 1) := by
  obtain ⟨hxx, hyy, hxy⟩ := polygon_second_exact h
  have hsh := polygon_shoelace_exact h
  have hapos := oriented_area_pos ho hne
  have h00 := oriented_second_nonneg ho 0
  have h11 := oriented_second_nonneg ho 1
  unfold Poly2.planarMoments
  simp only [hxx, hyy, hxy, hsh]
  have habs : ∀ x : ℝ, 0 ≤ s * x → Scalar.abs (12 * x / lit 12) = s * x := by
    intro x hx
    simp only [Scalar.abs_real, Scalar.lit, Scalar.ofNat_real]; push_cast
    rw [show (12 * x / 12 : ℝ) = x by ring]
    rcases hs with rfl | rfl
    · simpa using hx
    · have : x ≤ 0 := by linarith
      rw [abs_of_nonpos this]; ring
  have hsign : Poly2.sign (2 * Spec2.area Ts) = s := by
    unfold Poly2.sign
    simp only [Scalar.lit, Scalar.ofNat_real]; push_cast
    rcases hs with rfl | rfl
    · have : (0:ℝ) < 2 * Spec2.area Ts := by linarith
      simp [this]
    · have : 2 * Spec2.area Ts < 0 := by linarith
      have h' : ¬ (0:ℝ) < 2 * Spec2.area Ts := by linarith
      simp [this, h']
  rw [habs _ h11, habs _ h00, hsign]
  simp only [Scalar.lit, Scalar.ofNat_real]; push_cast
  congr 2; ring

/-- **C04 polar moment** = exact `∫(x² + y²)` in the aligned frame -/
theorem polarMoment_exact {vs : List (V3 ℝ)} (R : M3 ℝ) {Ts : List (Tri ℝ)} {s : ℝ}
    (hs : s = 1 ∨ s = -1) (h : Triangulates (Poly2.align R vs) Ts) (ho : OrientedBy s Ts)
    (hne : Ts ≠ []) :
    Poly2.polarMoment vs R = s * (Spec2.second Ts 0 0 + Spec2.second Ts 1 1) := by
  unfold Poly2.polarMoment
  rw [planarMoments_exact R hs h ho hne]; ring

/-- **perimeter** does not depend on which vertex is listed first -/
theorem perimeter_rotate_invariant (vs : List (V3 ℝ)) (k : Nat) :
    Poly2.perimeter (Poly2.rotl k vs) = Poly2.perimeter vs := by
  unfold Poly2.perimeter
  simp only [Scalar.sum_real, rotl_eq_rotate, List.rotate_rotate]
  rw [show k + 1 = 1 + k by ring, ← List.rotate_rotate,
    ← List.zipWith_rotate_distrib _ vs (vs.rotate 1) k (by simp)]
  exact (List.rotate_perm _ k).sum_eq

/-! ### non-vacuity: the unit square, counter-clockwise, with its two-triangle fan -/

def exSq : List (V3 ℝ) := [⟨0,0,0⟩, ⟨1,0,0⟩, ⟨1,1,0⟩, ⟨0,1,0⟩]
def exSqT : List (Tri ℝ) := [⟨⟨0,0,0⟩, ⟨1,0,0⟩, ⟨1,1,0⟩⟩, ⟨⟨0,0,0⟩, ⟨1,1,0⟩, ⟨0,1,0⟩⟩]

example : Triangulates exSq exSqT := by
  intro φ hφ
  have c := hφ ⟨0,0,0⟩ ⟨1,1,0⟩
  simp [sumEdges, cycleEdges, exSq, exSqT, triEdges, Poly2.rotl] at c ⊢
  linarith

example : OrientedBy 1 exSqT := by
  intro t ht
  simp [exSqT] at ht
  rcases ht with rfl | rfl <;> simp [Spec2.triArea, Scalar.lit]

end
