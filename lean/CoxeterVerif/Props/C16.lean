import CoxeterVerif.Lemmas.HeapRefine
import CoxeterVerif.Lemmas.HeapRounded
import CoxeterVerif.Lemmas.HeapCtor
import CoxeterVerif.Lemmas.HeapCtorObs
import CoxeterVerif.Lemmas.HeapLawful
import CoxeterVerif.Lemmas.HeapLawfulPolygon
/-!
  # C16 — queries are free of side effects

  Model: the heap machine `Model/Heap.lean` (arrays are objects; getters hand out the live array;
  `+=` writes in place; `self._x = …` re-binds), meaning: `Spec/Heap.lean` (the clauses of the
  property and a value semantics `Spec.answer` with no heap at all).

  All statements are over ℝ, for every state of every one of the ten classes, every array size,
  every query (every getter name, every `to_json` attribute list, every file type, every
  argument array) and every history of queries. Hypotheses:
  * `Spec.WF s` — array ids in use are allocated and the vertex array is not also another attribute;
  * `Spec.Coherent M s` — the caches (`_equations`, `_simplex_equations`, `_centroid`, `_volume`,
    cached `edges`) hold what the code would recompute (property C03);
  * `Spec.Lawful M` — the centroid getters commute with translations (C09) and the signed
    volume is translation invariant. Needed only where the code moves the shape and moves it back
    by `+= old_centroid − centroid` (`to_hoomd`); over ℝ that is exact, in floating point it is
    exact only up to the rounding of the centroid getter (the harness measures this).
  `query_footprint` needs none of the last two and holds bit for bit.
-/
open C16 Scalar
set_option maxRecDepth 4000

/-! ## one query -/

/-- **Footprint (bitwise).** The only array that existed before the query and that the query may
write is the live vertex array. Every other array — the caller's arguments, everything handed out
earlier, the constructor's inputs — is never written, at no intermediate step, whatever the
external functions do. -/
theorem query_footprint (M : Meas ℝ) (q : Query) (s : St ℝ) (hw : Spec.WF s) (i : Nat) (hi : i < s.next)
    (hv : i ≠ s.fVerts) : (run M q s).1.get i = s.get i :=
  (step_frame M q s hw).1.get_eq i hi hv

/-- **Identity of the vertex array.** No query re-binds `_vertices`: the array the caller got
from `.vertices` is still THE vertex array afterwards. -/
theorem query_keeps_vertices_attached (M : Meas ℝ) (q : Query) (s : St ℝ) (hw : Spec.WF s) :
    Spec.VerticesAttached s (run M q s).1 :=
  (step_frame M q s hw).1.fVerts

/-- **C16 observables.** Every query leaves every observable of the shape unchanged
(`+δ−δ` on the vertex array is exact over ℝ). -/
theorem query_preserves_observables (M : Meas ℝ) (hL : Spec.Lawful M) (q : Query) (s : St ℝ)
    (hI : Spec.Inv M s) : Spec.SameObservables s (run M q s).1 :=
  (step_refines M hL q s hI.wf hI.coh).obs

/-- the hypotheses hold again after the query (so histories can be chained) -/
theorem query_preserves_inv (M : Meas ℝ) (hL : Spec.Lawful M) (q : Query) (s : St ℝ) (hI : Spec.Inv M s)
    (ha : ArgsOk s q) : Spec.Inv M (run M q s).1 := by
  have hr := step_refines M hL q s hI.wf hI.coh
  exact ⟨run_wf M q s hI.wf ha,
    coherent_of_obs hI.coh hr.obs (step_frame M q s hI.wf).1.cls hr.edges⟩

/-- every array that existed before holds the same values afterwards -/
theorem query_preserves_arrays (M : Meas ℝ) (hL : Spec.Lawful M) (q : Query) (s : St ℝ) (hI : Spec.Inv M s)
    (i : Nat) (hi : i < s.next) : (run M q s).1.get i = s.get i :=
  stable_get (step_frame M q s hI.wf).1 (step_refines M hL q s hI.wf hI.coh).obs i hi

/-- **C16 arguments.** The caller's argument arrays (those of this call and of earlier calls) hold
the same values afterwards — and by `query_footprint` they are never even written unless the
caller passed the shape's own vertex array. -/
theorem query_preserves_args (M : Meas ℝ) (hL : Spec.Lawful M) (q : Query) (s : St ℝ) (hI : Spec.Inv M s)
    (ha : ArgsOk s q) :
    Spec.ArgsUnchanged s (run M q s).1 ∧ ∀ a, a ∈ q.argIds → Spec.SameAt s (run M q s).1 a :=
  ⟨fun i hi => query_preserves_arrays M hL q s hI i (hI.wf.args i hi),
   fun a h => query_preserves_arrays M hL q s hI a (ha a h)⟩

/-- **C16 hand-outs.** Every array handed out earlier holds the same values afterwards, and the
vertex array among them is still the shape's live vertex array. -/
theorem query_preserves_handed_out (M : Meas ℝ) (hL : Spec.Lawful M) (q : Query) (s : St ℝ)
    (hI : Spec.Inv M s) : Spec.HandedUnchanged s (run M q s).1 ∧ Spec.VerticesAttached s (run M q s).1 :=
  ⟨fun i hi => query_preserves_arrays M hL q s hI i (hI.wf.handed i hi),
   query_keeps_vertices_attached M q s hI.wf⟩

/-- **The heap program computes the value semantics.** What the caller receives (contents of the
returned arrays, floats, exception kind) is `Spec.answer`: a function of the observables and of
the argument's contents only. -/
theorem query_answer_spec (M : Meas ℝ) (hL : Spec.Lawful M) (q : Query) (s : St ℝ) (hI : Spec.Inv M s) :
    answerOf (run M q s) = Spec.answer M s.cls (observe s) (q.argOf s) q :=
  (step_refines M hL q s hI.wf hI.coh).ans

/-- **C16 repetition.** Repeating a query returns the same answer. -/
theorem query_idempotent (M : Meas ℝ) (hL : Spec.Lawful M) (q : Query) (s : St ℝ) (hI : Spec.Inv M s)
    (ha : ArgsOk s q) : answerOf (run M q (run M q s).1) = answerOf (run M q s) := by
  have hI' := query_preserves_inv M hL q s hI ha
  have ho := query_preserves_observables M hL q s hI
  have hcls : (run M q s).1.cls = s.cls := (step_frame M q s hI.wf).1.cls
  have harg : q.argOf (run M q s).1 = q.argOf s := by
    cases q with
    | withArg name a => exact query_preserves_arrays M hL _ s hI a (ha a (by simp [Query.argIds]))
    | _ => rfl
  rw [query_answer_spec M hL q _ hI', query_answer_spec M hL q s hI, hcls, ho, harg]

/-! ## histories -/

/-- what a history of queries guarantees about the state it ends in -/
structure Reach (s t : St ℝ) : Prop where
  next_le : s.next ≤ t.next
  fVerts : t.fVerts = s.fVerts
  cls : t.cls = s.cls
  obs : observe t = observe s
  get_eq : ∀ i, i < s.next → t.get i = s.get i

theorem Reach.refl (s : St ℝ) : Reach s s := ⟨Nat.le_refl _, rfl, rfl, rfl, fun _ _ => rfl⟩
theorem Reach.trans {s t u : St ℝ} (h1 : Reach s t) (h2 : Reach t u) : Reach s u :=
  ⟨Nat.le_trans h1.next_le h2.next_le, h2.fVerts.trans h1.fVerts, h2.cls.trans h1.cls, h2.obs.trans h1.obs,
    fun i hi => (h2.get_eq i (Nat.lt_of_lt_of_le hi h1.next_le)).trans (h1.get_eq i hi)⟩

theorem reach_run (M : Meas ℝ) (hL : Spec.Lawful M) (q : Query) (s : St ℝ) (hI : Spec.Inv M s) :
    Reach s (run M q s).1 :=
  ⟨(step_frame M q s hI.wf).1.next_le, (step_frame M q s hI.wf).1.fVerts, (step_frame M q s hI.wf).1.cls,
    query_preserves_observables M hL q s hI, query_preserves_arrays M hL q s hI⟩

/-- **Every history.** After any sequence of queries (whose argument arrays existed beforehand):
the hypotheses still hold, the observables are unchanged, the vertex array is still attached,
and every array that existed before (arguments, hand-outs) holds the same values. -/
theorem queries_preserve (M : Meas ℝ) (hL : Spec.Lawful M) :
    ∀ (qs : List Query) (s : St ℝ), Spec.Inv M s → (∀ q, q ∈ qs → ArgsOk s q) →
      Spec.Inv M (runAll M qs s) ∧ Reach s (runAll M qs s) := by
  intro qs
  induction qs with
  | nil => intro s hI _; exact ⟨hI, Reach.refl s⟩
  | cons q qs ih =>
    intro s hI ha
    have h1 := reach_run M hL q s hI
    have hI1 := query_preserves_inv M hL q s hI (ha q (List.mem_cons_self ..))
    obtain ⟨hI2, h2⟩ := ih (run M q s).1 hI1
      (fun q' hq' a h => Nat.lt_of_lt_of_le (ha q' (List.mem_cons_of_mem _ hq') a h) h1.next_le)
    exact ⟨hI2, h1.trans h2⟩

theorem queries_preserve_observables (M : Meas ℝ) (hL : Spec.Lawful M) (qs : List Query) (s : St ℝ)
    (hI : Spec.Inv M s) (ha : ∀ q, q ∈ qs → ArgsOk s q) : Spec.SameObservables s (runAll M qs s) :=
  (queries_preserve M hL qs s hI ha).2.obs

theorem queries_preserve_args_and_handed_out (M : Meas ℝ) (hL : Spec.Lawful M) (qs : List Query) (s : St ℝ)
    (hI : Spec.Inv M s) (ha : ∀ q, q ∈ qs → ArgsOk s q) :
    Spec.ArgsUnchanged s (runAll M qs s) ∧ Spec.HandedUnchanged s (runAll M qs s) ∧
    Spec.VerticesAttached s (runAll M qs s) ∧
    ∀ q a, q ∈ qs → a ∈ q.argIds → Spec.SameAt s (runAll M qs s) a := by
  obtain ⟨_, h⟩ := queries_preserve M hL qs s hI ha
  exact ⟨fun i hi => h.get_eq i (hI.wf.args i hi), fun i hi => h.get_eq i (hI.wf.handed i hi), h.fVerts,
    fun q a hq hqa => h.get_eq a (ha q hq a hqa)⟩

/-- a query gives the same answer after any history as before it -/
theorem query_answer_independent_of_history (M : Meas ℝ) (hL : Spec.Lawful M) (qs : List Query) (q : Query)
    (s : St ℝ) (hI : Spec.Inv M s) (ha : ∀ q', q' ∈ qs → ArgsOk s q') (haq : ArgsOk s q) :
    answerOf (run M q (runAll M qs s)) = answerOf (run M q s) := by
  obtain ⟨hI', h⟩ := queries_preserve M hL qs s hI ha
  have harg : q.argOf (runAll M qs s) = q.argOf s := by
    cases q with
    | withArg name a => exact h.get_eq a (haq a (by simp [Query.argIds]))
    | _ => rfl
  rw [query_answer_spec M hL q _ hI', query_answer_spec M hL q s hI, h.cls, h.obs, harg]

/-! ## every sequence of queries refines the value semantics; the order does not matter -/

/-- **Refinement for histories.** The answers a caller collects over ANY sequence of queries (the full
alphabet: every getter, `to_json` list, `get_face_area`, `to_hoomd`, `save`, queries with arguments) are
the value semantics evaluated at the INITIAL observables: `runAnswers = map (Spec.answer …)`. No
answer depends on its position in the sequence or on what was asked before. -/
theorem queries_answers_spec (M : Meas ℝ) (hL : Spec.Lawful M) :
    ∀ (qs : List Query) (s : St ℝ), Spec.Inv M s → (∀ q, q ∈ qs → ArgsOk s q) →
      runAnswers M qs s = qs.map fun q => Spec.answer M s.cls (observe s) (q.argOf s) q := by
  intro qs
  induction qs with
  | nil => intro s _ _; rfl
  | cons q qs ih =>
    intro s hI ha
    have h1 := reach_run M hL q s hI
    have hI1 := query_preserves_inv M hL q s hI (ha q (List.mem_cons_self ..))
    have ha1 : ∀ q', q' ∈ qs → ArgsOk (run M q s).1 q' :=
      fun q' hq' a h => Nat.lt_of_lt_of_le (ha q' (List.mem_cons_of_mem _ hq') a h) h1.next_le
    have hrest := ih (run M q s).1 hI1 ha1
    show answerOf (run M q s) :: runAnswers M qs (run M q s).1 = _
    rw [hrest, query_answer_spec M hL q s hI, h1.cls, h1.obs]
    simp only [List.map_cons, List.cons.injEq, true_and]
    refine List.map_congr_left ?_
    intro q' hq'
    have harg : q'.argOf (run M q s).1 = q'.argOf s := by
      cases q' with
      | withArg name a =>
        exact h1.get_eq a (ha _ (List.mem_cons_of_mem _ hq') a (by simp [Query.argIds]))
      | _ => rfl
    rw [harg]

/-- **Ordered pairs.** For any two queries `q₁`, `q₂`: the answer of `q₂` asked right after `q₁` is the
answer of `q₂` asked alone. -/
theorem query_pair_order_independent (M : Meas ℝ) (hL : Spec.Lawful M) (q1 q2 : Query) (s : St ℝ)
    (hI : Spec.Inv M s) (h1 : ArgsOk s q1) (h2 : ArgsOk s q2) :
    answerOf (run M q2 (run M q1 s).1) = answerOf (run M q2 s) :=
  query_answer_independent_of_history M hL [q1] q2 s hI
    (fun q hq => by simp only [List.mem_cons, List.not_mem_nil, or_false] at hq; subst hq; exact h1) h2

/-- **Queries commute.** Both answers and the observables afterwards are the same whichever of two
queries is asked first. -/
theorem queries_commute (M : Meas ℝ) (hL : Spec.Lawful M) (q1 q2 : Query) (s : St ℝ)
    (hI : Spec.Inv M s) (h1 : ArgsOk s q1) (h2 : ArgsOk s q2) :
    answerOf (run M q2 (run M q1 s).1) = answerOf (run M q2 s) ∧
    answerOf (run M q1 (run M q2 s).1) = answerOf (run M q1 s) ∧
    observe (runAll M [q1, q2] s) = observe (runAll M [q2, q1] s) := by
  refine ⟨query_pair_order_independent M hL q1 q2 s hI h1 h2, query_pair_order_independent M hL q2 q1 s hI h2 h1, ?_⟩
  have a12 : ∀ q, q ∈ [q1, q2] → ArgsOk s q := by
    intro q hq; simp only [List.mem_cons, List.not_mem_nil, or_false] at hq
    rcases hq with rfl | rfl <;> assumption
  have a21 : ∀ q, q ∈ [q2, q1] → ArgsOk s q := by
    intro q hq; simp only [List.mem_cons, List.not_mem_nil, or_false] at hq
    rcases hq with rfl | rfl <;> assumption
  rw [queries_preserve_observables M hL _ s hI a12, queries_preserve_observables M hL _ s hI a21]

/-- **Any re-ordering.** Permuting a sequence of queries permutes the (query, answer) pairs and does
nothing else. -/
theorem queries_answers_perm (M : Meas ℝ) (hL : Spec.Lawful M) (qs qs' : List Query) (hp : qs.Perm qs') (s : St ℝ)
    (hI : Spec.Inv M s) (ha : ∀ q, q ∈ qs → ArgsOk s q) :
    (qs.zip (runAnswers M qs s)).Perm (qs'.zip (runAnswers M qs' s)) := by
  have ha' : ∀ q, q ∈ qs' → ArgsOk s q := fun q hq => ha q (hp.mem_iff.mpr hq)
  rw [queries_answers_spec M hL qs s hI ha, queries_answers_spec M hL qs' s hI ha']
  have e : ∀ l : List Query, l.zip (l.map fun q => Spec.answer M s.cls (observe s) (q.argOf s) q)
      = l.map fun q => (q, Spec.answer M s.cls (observe s) (q.argOf s) q) := by
    intro l
    induction l with
    | nil => rfl
    | cons a l ih => simp only [List.map_cons, List.zip_cons_cons, ih]
  rw [e, e]
  exact hp.map _

/-! ## what is handed out live, what is detached -/

/-- `.vertices` hands out the live array (the documented behaviour the other theorems protect) -/
theorem vertices_getter_is_live (M : Meas ℝ) (s : St ℝ) (hk : s.cls.kind ≠ .curved) :
    (run M (.get .vertices) s).2.rets = [⟨0, s.fVerts⟩] ∧ (run M (.get .vertices) s).1.fVerts = s.fVerts := by
  simp [run, step, getter, hk, ret1]

theorem toHoomd_rets_new (M : Meas ℝ) (s : St ℝ) (hcls : s.cls ≠ .spheropolygon) :
    ∀ r, r ∈ (toHoomd M s).2.rets → s.next ≤ r.id := by
  have f1 := (setCentroid_frame M s V3.zero).next_le
  have cen_new : s.cls.kind = .convex ∨ s.cls.kind = .curved → s.next ≤ (setCentroid M s V3.zero).fCen := by
    intro hk
    unfold setCentroid
    rcases hk with hk | hk <;> rw [hk]
    · show s.next ≤ s.next + 1 + 1; omega
    · exact Nat.le_refl _
  intro r hr
  unfold toHoomd at hr
  cases hc : s.cls <;> rw [hc] at hr <;> simp only [] at hr
  · simp [raise] at hr
  · simp [raise] at hr
  · simp only [curvedToHoomd, List.mem_cons, List.not_mem_nil, or_false] at hr
    rcases hr with rfl | rfl
    · exact cen_new (Or.inr (by rw [hc]; rfl))
    · exact f1
  · simp only [curvedToHoomd, List.mem_cons, List.not_mem_nil, or_false] at hr
    rcases hr with rfl | rfl
    · exact cen_new (Or.inr (by rw [hc]; rfl))
    · exact f1
  · have n3 := polygonInertia_next M ((setCentroid M s V3.zero).alloc (v3l (pubCentroid M (setCentroid M s V3.zero))))
    have r3 := polygonInertia_ret M ((setCentroid M s V3.zero).alloc (v3l (pubCentroid M (setCentroid M s V3.zero))))
    have h3 := (polygonInertiaHead_frame M ((setCentroid M s V3.zero).alloc
      (v3l (pubCentroid M (setCentroid M s V3.zero))))).next_le
    simp only [St.next_alloc] at h3
    simp only [polygonToHoomd, List.mem_cons, List.not_mem_nil, or_false] at hr
    rcases hr with rfl | rfl | rfl
    · show s.next ≤ (polygonInertia M _).1.next; omega
    · exact f1
    · show s.next ≤ (polygonInertia M _).2; omega
  · have n3 := polygonInertia_next M ((setCentroid M s V3.zero).alloc (v3l (pubCentroid M (setCentroid M s V3.zero))))
    have r3 := polygonInertia_ret M ((setCentroid M s V3.zero).alloc (v3l (pubCentroid M (setCentroid M s V3.zero))))
    have h3 := (polygonInertiaHead_frame M ((setCentroid M s V3.zero).alloc
      (v3l (pubCentroid M (setCentroid M s V3.zero))))).next_le
    simp only [St.next_alloc] at h3
    simp only [polygonToHoomd, List.mem_cons, List.not_mem_nil, or_false] at hr
    rcases hr with rfl | rfl | rfl
    · show s.next ≤ (polygonInertia M _).1.next; omega
    · exact f1
    · show s.next ≤ (polygonInertia M _).2; omega
  · exact absurd hc hcls
  · have hk : s.cls.kind = .poly := by rw [hc]; rfl
    simp only [polyhedronToHoomd, hk, if_true, List.mem_cons, List.not_mem_nil, or_false] at hr
    rcases hr with rfl | rfl | rfl
    · show s.next ≤ (polyhedronInertia M _).1.next; simp only [polyhedronInertia_next, St.next_alloc]; omega
    · exact f1
    · show s.next ≤ (polyhedronInertia M _).2; simp only [polyhedronInertia_ret, St.next_alloc]; omega
  · have hk : ¬ s.cls.kind = .poly := by rw [hc]; simp [Cls.kind]
    simp only [polyhedronToHoomd, hk, if_false, List.mem_cons, List.not_mem_nil, or_false] at hr
    rcases hr with rfl | rfl | rfl
    · show s.next ≤ (polyhedronInertia M _).1.next; simp only [polyhedronInertia_next]; omega
    · exact cen_new (Or.inl (by rw [hc]; rfl))
    · show s.next ≤ (polyhedronInertia M _).2; simp only [polyhedronInertia_ret]; omega
  · simp only [spheropolyhedronToHoomd, List.mem_cons, List.not_mem_nil, or_false] at hr
    subst hr
    exact f1

/-- **`to_hoomd` returns detached arrays** (every class except the spheropolygon): each returned
array was created by this call; changing the shape afterwards — `shape.centroid = value` by the
caller, or any history of queries — does not change what the caller holds. -/
theorem to_hoomd_result_detached (M : Meas ℝ) (hL : Spec.Lawful M) (s : St ℝ) (hI : Spec.Inv M s)
    (hcls : s.cls ≠ .spheropolygon) (r : Ret) (hr : r ∈ (run M .toHoomd s).2.rets) :
    s.next ≤ r.id ∧
    (∀ v, (callerSetsCentroid M (run M .toHoomd s).1 v).get r.id = (run M .toHoomd s).1.get r.id) ∧
    (∀ qs, (∀ q, q ∈ qs → ArgsOk s q) →
      (runAll M qs (run M .toHoomd s).1).get r.id = (run M .toHoomd s).1.get r.id) := by
  have hnew := toHoomd_rets_new M s hcls r hr
  obtain ⟨hf, hlt⟩ := step_frame M .toHoomd s hI.wf
  have hlt' : r.id < (run M .toHoomd s).1.next := hlt r hr
  have hne : r.id ≠ (run M .toHoomd s).1.fVerts := by
    have : (run M .toHoomd s).1.fVerts = s.fVerts := hf.fVerts
    rw [this]; have := hI.wf.verts; omega
  refine ⟨hnew, fun v => (setCentroid_frame M _ v).get_eq _ hlt' hne, fun qs ha => ?_⟩
  have hI' := query_preserves_inv M hL .toHoomd s hI (fun a h => by simp [Query.argIds] at h)
  exact (queries_preserve M hL qs _ hI'
    (fun q hq a h => Nat.lt_of_lt_of_le (ha q hq a h) hf.next_le)).2.get_eq _ hlt'

/-- `ConvexSpheropolygon.to_hoomd` AS CODED returns the live vertex array -/
theorem spheropolygon_to_hoomd_returns_live (M : Meas ℝ) (s : St ℝ) (hcls : s.cls = .spheropolygon) :
    (run M .toHoomd s).2.rets = [⟨0, s.fVerts⟩] ∧ (run M .toHoomd s).1.fVerts = s.fVerts := by
  have e : toHoomd M s = spheropolygonToHoomd M s := by unfold toHoomd; rw [hcls]
  refine ⟨by simp [run, step, e, spheropolygonToHoomd], ?_⟩
  show (toHoomd M s).1.fVerts = _
  rw [e]
  exact (setCentroid_frame M s _).fVerts

/-- `Polygon.inertia_tensor` re-binds `_normal` to a copy: an array obtained earlier from `.normal`
keeps its values (`query_footprint`) but is no longer the shape's `_normal`. Harmless — nothing
writes a normal in place — and outside what C16 states; recorded because the harness observes it. -/
theorem polygon_inertia_rebinds_normal (M : Meas ℝ) (s : St ℝ) (hw : Spec.WF s)
    (hcls : s.cls = .polygon ∨ s.cls = .convexPolygon) :
    (run M (.get .inertiaTensor) s).1.fNormal ≠ s.fNormal ∧
    (run M (.get .inertiaTensor) s).1.get (run M (.get .inertiaTensor) s).1.fNormal = s.get s.fNormal := by
  have hk : s.cls.kind = .planar := by rcases hcls with h | h <;> rw [h] <;> rfl
  have e1 : (getter M .inertiaTensor s).1 = (polygonInertia M s).1 := by
    rcases hcls with h | h <;> simp [getter, h]
  have e : (run M (.get .inertiaTensor) s).1.fNormal = s.next + 1 := by
    show (getter M .inertiaTensor s).1.fNormal = _
    rw [e1]; rfl
  have ho : (polygonInertia M s).1.get (polygonInertia M s).1.fNormal = s.get s.fNormal :=
    congrArg Obs.normal (observe_polygonInertia M s hw hk)
  refine ⟨by rw [e]; have := hw.normal.1; omega, ?_⟩
  show (getter M .inertiaTensor s).1.get (getter M .inertiaTensor s).1.fNormal = _
  rw [e1]; exact ho

/-! ## a concrete heap -/

noncomputable section
/-- externals for the examples: the centroid is the first vertex (it commutes with translations),
unit volume, everything else returns its input or nothing -/
def C16.Ex.M : Meas ℝ where
  cen := fun vs _ => match vs with | x :: y :: z :: _ => ⟨x, y, z⟩ | _ => V3.zero
  cenV := fun _ vs => match vs with | x :: y :: z :: _ => ⟨x, y, z⟩ | _ => V3.zero
  vol := fun _ => 1
  eqs := fun _ => []
  seqs := fun _ => []
  rot := fun _ vs => vs
  gather := fun vs => vs
  tensor2 := fun _ _ _ => []
  tensor3 := fun _ _ => []
  value := fun _ _ => []
  withArg := fun _ _ a => a
  prep := fun _ _ a => a
  stl := fun _ c => c

theorem C16.Ex.lawful : Spec.Lawful M where
  cen_shift := by
    intro δ vs n h
    match vs, h with
    | x :: y :: z :: r, _ => simp [M, shiftRows]; ext <;> simp
  cenV_shift := by
    intro δ vs h
    match vs, h with
    | x :: y :: z :: r, _ => simp [M, shiftRows]; ext <;> simp
  vol_shift := fun _ _ => rfl

/-- a 2 × 1 rectangle far from the origin: array 0 = `_vertices`, 1 = `_normal`; the caller already
holds the vertex array (0) and the normal (1) and owns the argument array 5 -/
def C16.Ex.polygon : St ℝ where
  heap := [(0, [10, 20, 5, 12, 20, 5, 12, 21, 5, 10, 21, 5]), (1, [0, 0, 1]), (2, []), (3, []), (4, []),
           (5, [11, 20.5, 5])]
  next := 6
  cls := .polygon
  fVerts := 0
  fNormal := 1
  fCen := 2
  fEqs := 3
  fSeqs := 4
  volume := 0
  consts := []
  cAreas := none
  cFaceCen := none
  cEdges := none
  handed := [0, 1]
  args := [5]

theorem C16.Ex.polygon_inv : Spec.Inv M polygon where
  wf := by
    refine ⟨by decide, by decide, by decide, by decide, by decide, ?_, ?_, ?_, ?_, ?_⟩ <;>
      simp [polygon]
  coh := by
    refine ⟨fun _ => ?_, fun h => ?_, fun h => ?_, fun h => ?_, fun h => ?_, fun h => ?_, fun i h => ?_⟩
    · simp [polygon, St.get, Heap.get]
    · simp [polygon, Cls.kind] at h
    · simp [polygon, Cls.kind] at h
    · simp [polygon, Cls.kind] at h
    · simp [polygon, Cls.kind] at h
    · simp [polygon, Cls.kind] at h
    · simp [polygon] at h

/-- a tetrahedron far from the origin as a `ConvexPolyhedron`: array 2 is the `_centroid` cache
(coherent with `M`: the first vertex), `_volume = 1`; the caller holds vertices and centroid -/
def C16.Ex.convex : St ℝ where
  heap := [(0, [7, 8, 9, 8, 8, 9, 7, 9, 9, 7, 8, 10]), (1, []), (2, [7, 8, 9]), (3, []), (4, [])]
  next := 5
  cls := .convexPolyhedron
  fVerts := 0
  fNormal := 1
  fCen := 2
  fEqs := 3
  fSeqs := 4
  volume := 1
  consts := []
  cAreas := none
  cFaceCen := none
  cEdges := none
  handed := [0, 2]
  args := []

theorem C16.Ex.convex_inv : Spec.Inv M convex where
  wf := by
    refine ⟨by decide, by decide, by decide, by decide, by decide, ?_, ?_, ?_, ?_, ?_⟩ <;>
      simp [convex]
  coh := by
    refine ⟨fun _ => ?_, fun _ => ?_, fun _ => ?_, fun _ => ?_, fun _ => ?_, fun h => ?_, fun i h => ?_⟩
    · simp [convex, St.get, Heap.get]
    · simp [convex, St.get, Heap.get, M]
    · simp [convex, St.get, Heap.get, M]
    · simp [convex, M]
    · simp [convex, St.get, Heap.get, M, v3l]
    · simp [convex, Cls.kind] at h
    · simp [convex] at h

/-- a sphere of radius 2 centred at (5, 6, 7): array 2 is the centre -/
def C16.Ex.sphere : St ℝ :=
  { convex with heap := [(0, []), (1, []), (2, [5, 6, 7]), (3, []), (4, [])], cls := .sphere, consts := [2],
                handed := [2] }

theorem C16.Ex.sphere_inv : Spec.Inv M sphere where
  wf := by
    refine ⟨by decide, by decide, by decide, by decide, by decide, ?_, ?_, ?_, ?_, ?_⟩ <;>
      simp [sphere, convex]
  coh := by
    refine ⟨fun h => ?_, fun h => ?_, fun h => ?_, fun h => ?_, fun h => ?_, fun _ => ⟨⟨5, 6, 7⟩, ?_⟩, fun i h => ?_⟩
    · simp [sphere, Cls.kind] at h
    · simp [sphere, Cls.kind] at h
    · simp [sphere, Cls.kind] at h
    · simp [sphere, Cls.kind] at h
    · simp [sphere, Cls.kind] at h
    · simp [sphere, convex, St.get, Heap.get, v3l]
    · simp [sphere, convex] at h
end

open C16.Ex in
/-- the rectangle: `to_hoomd`, then `inertia_tensor`, then `is_inside(arg 5)`, then `to_hoomd` again leave
observables, argument and hand-outs alone -/
example : Spec.SameObservables polygon
      (runAll M [.toHoomd, .get .inertiaTensor, .withArg "is_inside" 5, .toHoomd] polygon) ∧
    Spec.ArgsUnchanged polygon (runAll M [.toHoomd, .get .inertiaTensor, .withArg "is_inside" 5, .toHoomd] polygon) ∧
    Spec.HandedUnchanged polygon (runAll M [.toHoomd, .get .inertiaTensor, .withArg "is_inside" 5, .toHoomd] polygon) ∧
    Spec.VerticesAttached polygon (runAll M [.toHoomd, .get .inertiaTensor, .withArg "is_inside" 5, .toHoomd] polygon) := by
  have ha : ∀ q, q ∈ [Query.toHoomd, .get .inertiaTensor, .withArg "is_inside" 5, .toHoomd] → ArgsOk polygon q := by
    intro q hq a h
    simp only [List.mem_cons, List.not_mem_nil, or_false] at hq
    rcases hq with rfl | rfl | rfl | rfl <;> simp [Query.argIds] at h
    subst h; decide
  obtain ⟨h1, h2, h3, _⟩ := queries_preserve_args_and_handed_out M lawful _ polygon polygon_inv ha
  exact ⟨queries_preserve_observables M lawful _ polygon polygon_inv ha, h1, h2, h3⟩

open C16.Ex in
example : answerOf (run M .toHoomd (run M .toHoomd polygon).1) = answerOf (run M .toHoomd polygon) :=
  query_idempotent M lawful .toHoomd polygon polygon_inv (fun a h => by simp [Query.argIds] at h)

open C16.Ex in
/-- after `inertia_tensor` the normal the caller holds (array 1) is no longer `_normal` (now array 7) -/
example : (run M (.get .inertiaTensor) polygon).1.fNormal = 7 ∧
    (run M (.get .inertiaTensor) polygon).1.fVerts = 0 := ⟨rfl, rfl⟩

open C16.Ex in
/-- the tetrahedron: `to_hoomd`, `face_centroids`, `save("STL")`, `edges`, `to_json([vertices, centroid,
inertia_tensor])`, `to_hoomd` in a row -/
example : Spec.SameObservables convex (runAll M [.toHoomd, .get .faceCentroids, .save 2, .get .edges,
      .toJson [.vertices, .centroid, .inertiaTensor], .toHoomd] convex) ∧
    Spec.HandedUnchanged convex (runAll M [.toHoomd, .get .faceCentroids, .save 2, .get .edges,
      .toJson [.vertices, .centroid, .inertiaTensor], .toHoomd] convex) := by
  have ha : ∀ q, q ∈ [Query.toHoomd, .get .faceCentroids, .save 2, .get .edges,
      .toJson [.vertices, .centroid, .inertiaTensor], .toHoomd] → ArgsOk convex q := by
    intro q hq a h
    simp only [List.mem_cons, List.not_mem_nil, or_false] at hq
    rcases hq with rfl | rfl | rfl | rfl | rfl | rfl <;> simp [Query.argIds] at h
  exact ⟨queries_preserve_observables M lawful _ convex convex_inv ha,
    (queries_preserve_args_and_handed_out M lawful _ convex convex_inv ha).2.1⟩

open C16.Ex in
/-- the sphere: what `to_hoomd` returned survives `sphere.centroid = (1, 1, 1)` -/
example (r : Ret) (hr : r ∈ (run M .toHoomd sphere).2.rets) :
    (callerSetsCentroid M (run M .toHoomd sphere).1 ⟨1, 1, 1⟩).get r.id = (run M .toHoomd sphere).1.get r.id :=
  (to_hoomd_result_detached M lawful sphere sphere_inv (by simp [sphere]) r hr).2.1 _

/-! ### why `Lawful` is needed: the mechanism of the floating-point drift -/

/-- **Where `Polygon.to_hoomd` leaves the vertices, for ANY centroid getter**: displaced by
`(0 − c₀) + (c₀ − c₁)` where `c₀` is the centroid read at the start and `c₁` the centroid the getter
reports for the centred polygon. Over ℝ with an equivariant getter `c₁ = 0 + …` cancels
(`query_preserves_observables`); in floating point `c₁` is the getter's rounding error and the shape
is left displaced by it (known finding `…to_hoomd:drift-beyond-last-digit`). -/
theorem polygon_to_hoomd_displacement (M : Meas ℝ) (s : St ℝ) (hw : Spec.WF s)
    (hcls : s.cls = .polygon ∨ s.cls = .convexPolygon) :
    (run M .toHoomd s).1.get s.fVerts =
      shiftRows ((V3.zero - M.cen (s.get s.fVerts) (s.get s.fNormal)) +
          (M.cen (s.get s.fVerts) (s.get s.fNormal) -
            M.cen (shiftRows (V3.zero - M.cen (s.get s.fVerts) (s.get s.fNormal)) (s.get s.fVerts)) (s.get s.fNormal)))
        (s.get s.fVerts) := by
  have hk : s.cls.kind = .planar := by rcases hcls with h | h <;> rw [h] <;> rfl
  have e : toHoomd M s = polygonToHoomd M s := by
    unfold toHoomd; rcases hcls with h | h <;> rw [h]
  have ho := congrArg Obs.verts (polygonToHoomd_observe M s hw hk)
  have hv : (polygonToHoomd M s).1.fVerts = s.fVerts := (polygonToHoomd_frame M s).1.fVerts
  show (toHoomd M s).1.get s.fVerts = _
  rw [e]
  have hl : (polygonToHoomd M s).1.get s.fVerts = (observe (polygonToHoomd M s).1).verts := by
    show _ = (polygonToHoomd M s).1.get (polygonToHoomd M s).1.fVerts
    rw [hv]
  rw [hl, ho]
  simp only [Spec.moved, Spec.centroidOf, hk]
  rw [shiftRows_shiftRows]
  rfl

/-- a centroid "getter" that does not commute with translations: twice the first vertex -/
noncomputable def C16.Ex.M2 : Meas ℝ :=
  { C16.Ex.M with cen := fun vs _ => match vs with | x :: y :: z :: _ => ⟨2 * x, 2 * y, 2 * z⟩ | _ => V3.zero }

open C16.Ex in
/-- **Without an equivariant centroid getter the property fails**: with `M2` the rectangle comes back
from `to_hoomd` displaced (first coordinate 10 ↦ 30). `Spec.Lawful` cannot be dropped from
`query_preserves_observables`. -/
theorem to_hoomd_without_equivariant_centroid_fails :
    ¬ ∀ (M' : Meas ℝ) (s : St ℝ), Spec.Inv M' s → Spec.SameObservables s (run M' .toHoomd s).1 := by
  intro h
  have hI : Spec.Inv M2 polygon := ⟨polygon_inv.wf, by
    refine ⟨fun _ => ?_, fun h => ?_, fun h => ?_, fun h => ?_, fun h => ?_, fun h => ?_, fun i h => ?_⟩
    · simp [polygon, St.get, Heap.get]
    all_goals simp [polygon, Cls.kind] at h⟩
  have h1 := congrArg Obs.verts (h M2 polygon hI)
  have h2 := polygon_to_hoomd_displacement M2 polygon polygon_inv.wf (Or.inl rfl)
  have hv : (run M2 .toHoomd polygon).1.fVerts = polygon.fVerts :=
    query_keeps_vertices_attached M2 .toHoomd polygon polygon_inv.wf
  have h3 : (run M2 .toHoomd polygon).1.get polygon.fVerts = polygon.get polygon.fVerts := by
    rw [← hv]; exact h1
  rw [h2] at h3
  simp [polygon, St.get, Heap.get, M2, M, shiftRows] at h3
  norm_num at h3

/-- the same rectangle as the core of a spheropolygon -/
noncomputable def C16.Ex.spheropolygon : St ℝ := { C16.Ex.polygon with cls := .spheropolygon }

open C16.Ex in
/-- **`ConvexSpheropolygon.to_hoomd` does not return a detached array**: what the caller received is
the live vertex array, so a later `shape.centroid = (0, 0, 0)` changes it (the first coordinate
10 becomes 0). Known finding of C19 (`ConvexSpheropolygon.to_hoomd`), seen from C16's side. -/
theorem to_hoomd_result_detached_spheropolygon_fails :
    ¬ ∀ (r : Ret), r ∈ (run M .toHoomd spheropolygon).2.rets →
        ∀ v, (callerSetsCentroid M (run M .toHoomd spheropolygon).1 v).get r.id
          = (run M .toHoomd spheropolygon).1.get r.id := by
  intro h
  have h0 := h ⟨0, 0⟩ (by simp [run, step, toHoomd, spheropolygon, spheropolygonToHoomd, polygon]) V3.zero
  have e1 : (run M .toHoomd spheropolygon).1.get 0 = [10, 20, 5, 12, 20, 5, 12, 21, 5, 10, 21, 5] := by
    simp [run, step, toHoomd, spheropolygon, spheropolygonToHoomd, polygon, setCentroid, pubCentroid, Cls.kind, M,
      St.write, St.get, Heap.set, Heap.get, shiftRows]
  have e2 : (callerSetsCentroid M (run M .toHoomd spheropolygon).1 V3.zero).get 0
      = [0, 0, 0, 2, 0, 0, 2, 1, 0, 0, 1, 0] := by
    simp [callerSetsCentroid, run, step, toHoomd, spheropolygon, spheropolygonToHoomd, polygon, setCentroid,
      pubCentroid, Cls.kind, M, St.write, St.get, Heap.set, Heap.get, shiftRows]
    norm_num
  rw [e1, e2] at h0
  simp at h0

/-! ## any scalar arithmetic: footprint of a history, and the last-digit clause of `to_hoomd` -/

/-- **Footprint of any history in any arithmetic** (`ℝ`, `ℚ`, `Float`, rounded reals), with no
hypothesis on the external functions: arrays other than the live vertex array that existed before are
bit for bit what they were, `_vertices` is still the same array, an array that was no attribute of
the shape is none afterwards. -/
theorem queries_footprint_any_scalar {α : Type} [Scalar α] (M : Meas α) (qs : List Query) (s : St α)
    (hw : Spec.WF s) (ha : ∀ q, q ∈ qs → ArgsOk s q) :
    Spec.VerticesAttached s (runAll M qs s) ∧
    (∀ i, i < s.next → i ≠ s.fVerts → (runAll M qs s).get i = s.get i) ∧
    (∀ i, i < s.next → Spec.Detached s i → Spec.Detached (runAll M qs s) i) :=
  ⟨(runAll_footprint M qs s hw ha).fVerts, (runAll_footprint M qs s hw ha).get_eq,
    (runAll_footprint M qs s hw ha).detached⟩

/-- **What `to_hoomd` does to the live vertex array, in any arithmetic and for any centroid getter**
(`Polygon`, `ConvexPolygon`, `Polyhedron`, `ConvexPolyhedron`, `ConvexSpheropolyhedron`; every array
size): each coordinate `x` of column `k` becomes `roundTrip c₀ₖ c₁ₖ x = (x + (0 − c₀ₖ)) + (c₀ₖ − c₁ₖ)`,
`c₀` the centroid the caller reads before, `c₁` the centroid read from the centred shape. At `Float`
this is the statement the harness checks bit for bit against the real object. -/
theorem to_hoomd_position_any_scalar {α : Type} [Scalar α] (M : Meas α) (s : St α) (hw : Spec.WF s)
    (hcls : MovesVerts s.cls) :
    (run M .toHoomd s).1.get s.fVerts =
      mapRows (roundTrip (pubCentroid M s).x (pubCentroid M (setCentroid M s V3.zero)).x)
        (roundTrip (pubCentroid M s).y (pubCentroid M (setCentroid M s V3.zero)).y)
        (roundTrip (pubCentroid M s).z (pubCentroid M (setCentroid M s V3.zero)).z) (s.get s.fVerts) :=
  toHoomd_verts_gen M s hw hcls

/-- over ℝ the round trip subtracts exactly what the centroid getter reports for the centred shape -/
theorem roundTrip_real (c0 c1 x : ℝ) : roundTrip c0 c1 x = x - c1 := by
  simp only [roundTrip, Scalar.ofNat_real, Nat.cast_zero]
  show x + (0 - c0) + (c0 - c1) = x - c1
  ring

/-- **Exact arithmetic, any getter, all five classes**: the shape comes back displaced by `−c₁`
(generalises `polygon_to_hoomd_displacement`); with a translation-equivariant getter `c₁ = 0`
(`query_preserves_observables`). -/
theorem to_hoomd_displacement (M : Meas ℝ) (s : St ℝ) (hw : Spec.WF s) (hcls : MovesVerts s.cls) :
    (run M .toHoomd s).1.get s.fVerts =
      mapRows (· - (pubCentroid M (setCentroid M s V3.zero)).x) (· - (pubCentroid M (setCentroid M s V3.zero)).y)
        (· - (pubCentroid M (setCentroid M s V3.zero)).z) (s.get s.fVerts) := by
  rw [to_hoomd_position_any_scalar M s hw hcls]
  congr 1 <;> funext x <;> exact roundTrip_real _ _ x

/-- **The last-digit clause, as a theorem about rounded arithmetic.** Run the machine over the reals
with EVERY arithmetic operation rounded by an arbitrary `rnd` of relative error `u ≤ 1/4` (binary64:
`u = 2⁻⁵³`; `to_hoomd`'s two `+=` use only `+` and `−`, for which this holds for all finite results),
with ANY centroid getter. After `to_hoomd` every coordinate of the live vertex array is within

    `C + 11 · u · S`

of its value before, where `C` bounds the components of `c₁` (the centroid the getter reports for the
centred shape) and `S` bounds the coordinates, `c₀` and `c₁`. `11 u S` is last-digit rounding; `C` is 0
for an exactly equivariant getter and otherwise the getter's rounding error — the whole content of the
known finding `<Class>.to_hoomd:drift-beyond-last-digit`. -/
theorem to_hoomd_drift_rounded (rnd : ℝ → ℝ) (u : ℝ) (hu0 : 0 ≤ u) (hu : u ≤ 1 / 4) (hr : RelErr rnd u)
    (M : Meas (Rounded rnd)) (s : St (Rounded rnd)) (hw : Spec.WF s) (hcls : MovesVerts s.cls) (C S : ℝ)
    (hC : |(pubCentroid M (setCentroid M s V3.zero)).x.val| ≤ C ∧
          |(pubCentroid M (setCentroid M s V3.zero)).y.val| ≤ C ∧
          |(pubCentroid M (setCentroid M s V3.zero)).z.val| ≤ C)
    (hCS : C ≤ S)
    (h0 : |(pubCentroid M s).x.val| ≤ S ∧ |(pubCentroid M s).y.val| ≤ S ∧ |(pubCentroid M s).z.val| ≤ S)
    (hS : ∀ x, x ∈ s.get s.fVerts → |x.val| ≤ S) :
    EntriesRel (fun x x' => |x'.val - x.val| ≤ C + 11 * u * S) (s.get s.fVerts)
      ((run M .toHoomd s).1.get s.fVerts) := by
  rw [to_hoomd_position_any_scalar M s hw hcls]
  have hC0 : 0 ≤ C := le_trans (abs_nonneg _) hC.1
  have hS0 : 0 ≤ S := le_trans hC0 hCS
  have one : ∀ (c0 c1 x : Rounded rnd), |c0.val| ≤ S → |c1.val| ≤ C → |x.val| ≤ S →
      |(roundTrip c0 c1 x).val - x.val| ≤ C + 11 * u * S := by
    intro c0 c1 x a0 a1 ax
    rw [Rounded.roundTrip_val]
    have := round_trip_le_closed rnd u hu0 hu hr x.val c0.val c1.val S ax a0 (le_trans a1 hCS)
    linarith
  refine entriesRel_mapRows _ _ _ _ ?_ _ ?_
  · intro x
    have : 0 ≤ 11 * u * S := by positivity
    simp only [sub_self, abs_zero]
    linarith
  · intro x hx
    exact ⟨one _ _ x h0.1 hC.1 (hS x hx), one _ _ x h0.2.1 hC.2.1 (hS x hx), one _ _ x h0.2.2 hC.2.2 (hS x hx)⟩

/-- the hypothesis of `to_hoomd_drift_rounded` is satisfiable non-trivially: rounding to multiples of
`1/1024` towards zero on [1, 2)… — here the simplest instance, exact arithmetic (`u = 0`), for which the
bound reads `|x' − x| ≤ C` -/
example : RelErr (fun t => t) 0 := fun t => by simp

/-- a rounding that is not the identity: halving the mantissa step is modelled by `rnd t = t·(1 + 1/8)`,
relative error `1/8` -/
example : RelErr (fun t => t * (1 + 1 / 8)) (1 / 8) := fun t => by
  have : t * (1 + 1 / 8) - t = t * (1 / 8) := by ring
  rw [this, abs_mul, abs_of_pos (by norm_num : (0:ℝ) < 1 / 8)]
  linarith [mul_comm |t| (1 / 8 : ℝ)]

/-! ## constructors: the caller's arrays -/

/-- **Constructors copy.** On the accepting path of the constructor of every class (vertices given as
`(N,3)` or `(N,2)`, with or without a `normal`, curved shapes with a `center`): the object is well
formed, NO attribute is bound to an array the caller passed, and the caller's arrays hold what they
held. Any scalar type. -/
theorem constructor_detaches {α : Type} [Scalar α] (cls : Cls) (c : CtorIn α) (h : Heap α) (next : Nat)
    (hc : c.Ok cls next) :
    Spec.WF (construct cls c h next) ∧ (construct cls c h next).args = c.callerIds cls ∧
    ∀ i, i ∈ c.callerIds cls →
      Spec.Detached (construct cls c h next) i ∧ (construct cls c h next).get i = Heap.get h i :=
  ⟨(construct_built cls c h next hc).wf, (construct_built cls c h next hc).args,
    fun i hi => ⟨(construct_built cls c h next hc).detached i (hc i hi),
      (construct_built cls c h next hc).get_eq i (hc i hi)⟩⟩

/-- **Caller-owned arrays are never written.** Whatever the caller passed to the constructor is, after
ANY history of queries, in ANY arithmetic (`Float` included), with ANY external functions, bit for bit
what it was — and still shares nothing with the shape. -/
theorem caller_arrays_never_written {α : Type} [Scalar α] (M : Meas α) (cls : Cls) (c : CtorIn α) (h : Heap α)
    (next : Nat) (hc : c.Ok cls next) (qs : List Query)
    (ha : ∀ q, q ∈ qs → ArgsOk (construct cls c h next) q) :
    ∀ i, i ∈ c.callerIds cls →
      (runAll M qs (construct cls c h next)).get i = Heap.get h i ∧
      Spec.Detached (runAll M qs (construct cls c h next)) i := by
  intro i hi
  have b := construct_built cls c h next hc
  have hlt : i < (construct cls c h next).next := Nat.lt_of_lt_of_le (hc i hi) b.next_le
  have hd := b.detached i (hc i hi)
  obtain ⟨_, hget, hdet⟩ := queries_footprint_any_scalar M qs _ b.wf ha
  exact ⟨(hget i hlt hd.1).trans (b.get_eq i (hc i hi)), hdet i hlt hd⟩

/-- **A freshly constructed object satisfies the hypotheses of every theorem above**, provided what the
external routines returned during construction (Qhull's facets, volume, the computed centroid) is what
the code would recompute from the vertices (`CtorAgrees`: coherence at birth, property C03). -/
theorem constructed_object_inv (M : Meas ℝ) (cls : Cls) (c : CtorIn ℝ) (h : Heap ℝ) (next : Nat)
    (hc : c.Ok cls next) (ha : CtorAgrees M cls c h) : Spec.Inv M (construct cls c h next) :=
  ⟨(construct_built cls c h next hc).wf, construct_coherent M cls c h next hc ha⟩

/-- **From the constructor's arguments to every answer, with no heap in between.** For every class, every
input accepted by its constructor and every sequence of queries: the observables stay what the constructor
made of the CONTENTS of the caller's arrays (`constructObs`: padded with a zero column for `(N,2)` input,
reordered for the convex planar classes, the normal normalised), each answer is the value semantics at
those observables, and the caller's arrays are bit for bit what they were. -/
theorem constructed_object_histories (M : Meas ℝ) (hL : Spec.Lawful M) (cls : Cls) (c : CtorIn ℝ) (h : Heap ℝ)
    (next : Nat) (hc : c.Ok cls next) (ha : CtorAgrees M cls c h) (qs : List Query)
    (hq : ∀ q, q ∈ qs → ArgsOk (construct cls c h next) q) :
    observe (runAll M qs (construct cls c h next)) = constructObs cls c h ∧
    runAnswers M qs (construct cls c h next) =
      qs.map (fun q => Spec.answer M cls (constructObs cls c h) (q.argOf (construct cls c h next)) q) ∧
    ∀ i, i ∈ c.callerIds cls → (runAll M qs (construct cls c h next)).get i = Heap.get h i := by
  have hI := constructed_object_inv M cls c h next hc ha
  refine ⟨?_, ?_, fun i hi => (caller_arrays_never_written M cls c h next hc qs hq i hi).1⟩
  · rw [queries_preserve_observables M hL qs _ hI hq, observe_construct cls c h next hc]
  · rw [queries_answers_spec M hL qs _ hI hq, observe_construct cls c h next hc, construct_cls]

noncomputable section
/-- the caller's `(4,3)` float64 array (id 0) and `normal` (id 1) -/
def C16.Ex.callerHeap : Heap ℝ := [(0, [10, 20, 5, 12, 20, 5, 12, 21, 5, 10, 21, 5]), (1, [0, 0, 2])]

def C16.Ex.ctorIn : CtorIn ℝ where
  verts := 0
  twoCols := false
  normal := some 1
  center := 0
  consts := []
  computedNormal := [0, 0, 1]
  order := fun vs => vs
  eqs := []
  seqs := []
  cen := []
  volume := 0
end

open C16.Ex in
/-- `ConvexPolygon(verts, normal=n)`, then `to_hoomd`, `inertia_tensor`, `to_json([...])`, `to_hoomd`: the
caller's two arrays are what they were and share nothing with the polygon -/
example : ∀ i, i ∈ [0, 1] →
    (runAll M [.toHoomd, .get .inertiaTensor, .toJson [.vertices, .normal, .inertiaTensor], .toHoomd]
      (construct .convexPolygon ctorIn callerHeap 2)).get i = Heap.get callerHeap i ∧
    Spec.Detached (runAll M [.toHoomd, .get .inertiaTensor, .toJson [.vertices, .normal, .inertiaTensor], .toHoomd]
      (construct .convexPolygon ctorIn callerHeap 2)) i :=
  caller_arrays_never_written M .convexPolygon ctorIn callerHeap 2
    (by intro i hi; simp [CtorIn.callerIds, Cls.kind, ctorIn] at hi; rcases hi with rfl | rfl <;> decide) _
    (by
      intro q hq a h
      simp only [List.mem_cons, List.not_mem_nil, or_false] at hq
      rcases hq with rfl | rfl | rfl | rfl <;> simp [Query.argIds] at h)

open C16.Ex in
/-- the normalised copy: `_normal` of the constructed polygon is a NEW array holding `n/|n|` -/
example : (construct .polygon ctorIn callerHeap 2).get (construct .polygon ctorIn callerHeap 2).fNormal = [0, 0, 1] ∧
    (construct .polygon ctorIn callerHeap 2).get 1 = [0, 0, 2] := by
  constructor
  · simp [construct, constructPlanar, ctorNormal, ctorVerts, ctorIn, blank, St.alloc, St.write, St.setNormal,
      St.setVerts, St.get, Heap.set, Heap.get, callerHeap, normalise]
  · simp [construct, constructPlanar, ctorNormal, ctorVerts, ctorIn, blank, St.alloc, St.write, St.setNormal,
      St.setVerts, St.get, Heap.set, Heap.get, callerHeap]

open C16.Ex in
/-- `constructed_object_histories` applies to `ConvexPolygon(verts, normal=n)` of the example -/
example : CtorAgrees M .convexPolygon ctorIn callerHeap where
  verts := fun _ => by simp [constructObs, Cls.kind, ctorVertsVal, ctorIn, callerHeap, Heap.get]
  eqs := fun h => by simp [Cls.kind] at h
  seqs := fun h => by simp [Cls.kind] at h
  volume := fun h => by simp [Cls.kind] at h
  cen := fun h => by simp [Cls.kind] at h
  centre := fun h => by simp [Cls.kind] at h

/-- the object `Polygon.__init__` WOULD build if `np.array(vertices, …)` were `np.asarray(vertices, …)`
and the caller passed an `(N,3)` float64 C-contiguous array: `_vertices` IS the caller's array -/
noncomputable def C16.Ex.aliased : St ℝ :=
  constructPlanarNoCopy C16.Ex.ctorIn (blank .polygon C16.Ex.callerHeap 2 [] [0])

open C16.Ex in
theorem C16.Ex.aliased_wf : Spec.WF aliased := by
  refine ⟨by decide, by decide, by decide, by decide, by decide, ?_, ?_, ?_, ?_, ?_⟩ <;>
    simp [aliased, constructPlanarNoCopy, blank, St.alloc, St.setVerts, St.setNormal]

open C16.Ex in
/-- **Without the copy in the constructor the property fails** (the exact-arithmetic shadow of what
happens in floating point): the caller's array is an attribute of the shape, and with a centroid
getter that is not exactly translation-equivariant `to_hoomd` — a query — changes the caller's array
(first coordinate 10 ↦ 30). `caller_arrays_never_written` rests on `np.array` copying. -/
theorem construct_without_copy_fails :
    ¬ (Spec.Detached aliased 0) ∧
    ¬ ∀ (M' : Meas ℝ), (run M' .toHoomd aliased).1.get 0 = Heap.get callerHeap 0 := by
  refine ⟨fun h => h.1 rfl, fun h => ?_⟩
  have h2 := polygon_to_hoomd_displacement M2 aliased aliased_wf (Or.inl rfl)
  have h3 : (run M2 .toHoomd aliased).1.get aliased.fVerts = Heap.get callerHeap 0 := h M2
  rw [h2] at h3
  simp [aliased, constructPlanarNoCopy, blank, St.alloc, St.setVerts, St.setNormal, St.get, Heap.set, Heap.get,
    callerHeap, ctorIn, M2, M, shiftRows] at h3
  norm_num at h3

/-! ### the rounded-arithmetic theorem on a concrete shape -/
noncomputable section
theorem C16.Ex.sub_x {α} [Scalar α] (u v : V3 α) : (u - v).x = u.x - v.x := rfl
theorem C16.Ex.sub_y {α} [Scalar α] (u v : V3 α) : (u - v).y = u.y - v.y := rfl
theorem C16.Ex.sub_z {α} [Scalar α] (u v : V3 α) : (u - v).z = u.z - v.z := rfl
/-- a coarse rounding: every result 1/8 too large in magnitude -/
def C16.Ex.r8 : ℝ → ℝ := fun t => t * (1 + 1 / 8)

def C16.Ex.MR : Meas (Rounded r8) where
  cen := fun vs _ => match vs with | x :: y :: z :: _ => ⟨x, y, z⟩ | _ => V3.zero
  cenV := fun _ vs => match vs with | x :: y :: z :: _ => ⟨x, y, z⟩ | _ => V3.zero
  vol := fun _ => lit 1
  eqs := fun _ => []
  seqs := fun _ => []
  rot := fun _ vs => vs
  gather := fun vs => vs
  tensor2 := fun _ _ _ => []
  tensor3 := fun _ _ => []
  value := fun _ _ => []
  withArg := fun _ _ a => a
  prep := fun _ _ a => a
  stl := fun _ c => c

def C16.Ex.polyR : St (Rounded r8) where
  heap := [(0, [⟨8⟩, ⟨16⟩, ⟨4⟩, ⟨10⟩, ⟨16⟩, ⟨4⟩, ⟨10⟩, ⟨17⟩, ⟨4⟩]), (1, [⟨0⟩, ⟨0⟩, ⟨1⟩]), (2, []), (3, []), (4, [])]
  next := 5
  cls := .polygon
  fVerts := 0
  fNormal := 1
  fCen := 2
  fEqs := 3
  fSeqs := 4
  volume := ⟨0⟩
  consts := []
  cAreas := none
  cFaceCen := none
  cEdges := none
  handed := [0]
  args := []

open C16.Ex in
/-- `to_hoomd_drift_rounded` on a concrete triangle at (8,16,4) with a coarse rounding (every result 1/8 too
large, `u = 1/8`) and the first-vertex centroid getter: `c₁ = (−1.125, −2.25, −0.5625)`, `C = 3`, `S = 17` -/
example : EntriesRel (fun x x' => |x'.val - x.val| ≤ 3 + 11 * (1 / 8) * 17) (polyR.get polyR.fVerts)
    ((run MR .toHoomd polyR).1.get polyR.fVerts) := by
  refine to_hoomd_drift_rounded r8 (1 / 8) (by norm_num) (by norm_num) ?_ MR polyR ?_ (Or.inl rfl) 3 17 ?_ (by norm_num) ?_ ?_
  · intro t
    have : r8 t - t = t * (1 / 8) := by unfold r8; ring
    rw [this, abs_mul, abs_of_pos (by norm_num : (0:ℝ) < 1 / 8)]
    linarith [mul_comm |t| (1 / 8 : ℝ)]
  · refine ⟨by decide, by decide, by decide, by decide, by decide, ?_, ?_, ?_, ?_, ?_⟩ <;> simp [polyR]
  · simp [pubCentroid, setCentroid, polyR, Cls.kind, MR, St.write, St.get, Heap.set, Heap.get, shiftRows, V3.zero, r8, sub_x, sub_y, sub_z]
    norm_num [abs_le]
  · simp [pubCentroid, polyR, Cls.kind, MR, St.get, Heap.get]
    norm_num [abs_le]
  · intro x hx
    simp [polyR, St.get, Heap.get] at hx
    rcases hx with rfl | rfl | rfl | rfl | rfl | rfl | rfl | rfl | rfl <;> norm_num [abs_le]
end

/-! ## `Spec.Lawful` discharged for the concrete getter models of C01, C02, C04

`polygonMeas M0 frame`, `polyhedronMeas M0 simp`, `convexMeas M0 simp` (Lemmas/HeapLawful*.lean) are externals
whose centroid / volume functions ARE the measure models of C04 (`Poly2.centroid`), C02 (`Poly3.centroid` of the
gathered surface) and C01 (`CP.volume`, `CP.centroid`) on every array that carries the certificate those
properties need and that their drivers evaluate per run (planar cycle + triangulation + non-zero area; closed
surface bounding tetrahedra + non-zero / positive volume) — `polygonMeas_cen`, `polyhedronMeas_cen`,
`convexMeas_vol`, `convexMeas_cenV`. `lawful_polygon`, `lawful_polyhedron`, `lawful_convex_polyhedron` prove
`Spec.Lawful` for them outright (from C04's `centroid_general_exact`, C02's `poly_centroid_exact`, C01's
`cp_volume_exact` / `cp_centroid_exact` and the translation laws of the exact moments), so every theorem above
holds for them with no hypothesis on the externals' behaviour under translation. -/

/-- what every history guarantees once `Lawful` is known (packaging of the theorems above) -/
theorem lawful_histories (M : Meas ℝ) (hL : Spec.Lawful M) (qs : List Query) (s : St ℝ) (hI : Spec.Inv M s)
    (ha : ∀ q, q ∈ qs → ArgsOk s q) :
    Spec.SameObservables s (runAll M qs s) ∧
    runAnswers M qs s = qs.map (fun q => Spec.answer M s.cls (observe s) (q.argOf s) q) ∧
    Spec.ArgsUnchanged s (runAll M qs s) ∧ Spec.HandedUnchanged s (runAll M qs s) ∧
    Spec.VerticesAttached s (runAll M qs s) :=
  ⟨queries_preserve_observables M hL qs s hI ha, queries_answers_spec M hL qs s hI ha,
    (queries_preserve_args_and_handed_out M hL qs s hI ha).1, (queries_preserve_args_and_handed_out M hL qs s hI ha).2.1,
    (queries_preserve_args_and_handed_out M hL qs s hI ha).2.2.1⟩

/-- `to_hoomd` puts every coordinate back exactly (over ℝ) once `Lawful` is known -/
theorem lawful_to_hoomd_exact (M : Meas ℝ) (hL : Spec.Lawful M) (s : St ℝ) (hI : Spec.Inv M s) :
    (run M .toHoomd s).1.get s.fVerts = s.get s.fVerts := by
  have ho := congrArg Obs.verts (query_preserves_observables M hL .toHoomd s hI)
  have hv : (run M .toHoomd s).1.fVerts = s.fVerts := query_keeps_vertices_attached M .toHoomd s hI.wf
  have : (observe (run M .toHoomd s).1).verts = (run M .toHoomd s).1.get s.fVerts := by
    show (run M .toHoomd s).1.get (run M .toHoomd s).1.fVerts = _
    rw [hv]
  rw [← this]; exact ho

/-- **Polygon / ConvexPolygon / ConvexSpheropolygon with C04's centroid getter**: every history of queries
leaves the observables alone, answers by the value semantics, leaves arguments and hand-outs alone — no
assumption about the getter. -/
theorem polygon_histories (M0 : Meas ℝ) (frame : V3 ℝ → M3 ℝ) (qs : List Query) (s : St ℝ)
    (hI : Spec.Inv (polygonMeas M0 frame) s) (ha : ∀ q, q ∈ qs → ArgsOk s q) :
    Spec.SameObservables s (runAll (polygonMeas M0 frame) qs s) ∧
    runAnswers (polygonMeas M0 frame) qs s
      = qs.map (fun q => Spec.answer (polygonMeas M0 frame) s.cls (observe s) (q.argOf s) q) ∧
    Spec.ArgsUnchanged s (runAll (polygonMeas M0 frame) qs s) ∧
    Spec.HandedUnchanged s (runAll (polygonMeas M0 frame) qs s) ∧
    Spec.VerticesAttached s (runAll (polygonMeas M0 frame) qs s) :=
  lawful_histories _ (lawful_polygon M0 frame) qs s hI ha

/-- **Polyhedron with C02's centroid getter** -/
theorem polyhedron_histories (M0 : Meas ℝ) (simp : List (Nat × Nat × Nat)) (qs : List Query) (s : St ℝ)
    (hI : Spec.Inv (polyhedronMeas M0 simp) s) (ha : ∀ q, q ∈ qs → ArgsOk s q) :
    Spec.SameObservables s (runAll (polyhedronMeas M0 simp) qs s) ∧
    runAnswers (polyhedronMeas M0 simp) qs s
      = qs.map (fun q => Spec.answer (polyhedronMeas M0 simp) s.cls (observe s) (q.argOf s) q) ∧
    Spec.ArgsUnchanged s (runAll (polyhedronMeas M0 simp) qs s) ∧
    Spec.HandedUnchanged s (runAll (polyhedronMeas M0 simp) qs s) ∧
    Spec.VerticesAttached s (runAll (polyhedronMeas M0 simp) qs s) :=
  lawful_histories _ (lawful_polyhedron M0 simp) qs s hI ha

/-- **ConvexPolyhedron / ConvexSpheropolyhedron with C01's volume and centroid getters** -/
theorem convex_polyhedron_histories (M0 : Meas ℝ) (simp : List (Nat × Nat × Nat)) (qs : List Query) (s : St ℝ)
    (hI : Spec.Inv (convexMeas M0 simp) s) (ha : ∀ q, q ∈ qs → ArgsOk s q) :
    Spec.SameObservables s (runAll (convexMeas M0 simp) qs s) ∧
    runAnswers (convexMeas M0 simp) qs s
      = qs.map (fun q => Spec.answer (convexMeas M0 simp) s.cls (observe s) (q.argOf s) q) ∧
    Spec.ArgsUnchanged s (runAll (convexMeas M0 simp) qs s) ∧
    Spec.HandedUnchanged s (runAll (convexMeas M0 simp) qs s) ∧
    Spec.VerticesAttached s (runAll (convexMeas M0 simp) qs s) :=
  lawful_histories _ (lawful_convex_polyhedron M0 simp) qs s hI ha

/-- **`to_hoomd` is exact over ℝ for the three concrete getter models**: the displacement `−c₁` of
`to_hoomd_displacement` vanishes, with nothing assumed about the getters. -/
theorem to_hoomd_exact_concrete (M0 : Meas ℝ) (frame : V3 ℝ → M3 ℝ) (simp : List (Nat × Nat × Nat)) (s : St ℝ) :
    (Spec.Inv (polygonMeas M0 frame) s →
      (run (polygonMeas M0 frame) .toHoomd s).1.get s.fVerts = s.get s.fVerts) ∧
    (Spec.Inv (polyhedronMeas M0 simp) s →
      (run (polyhedronMeas M0 simp) .toHoomd s).1.get s.fVerts = s.get s.fVerts) ∧
    (Spec.Inv (convexMeas M0 simp) s →
      (run (convexMeas M0 simp) .toHoomd s).1.get s.fVerts = s.get s.fVerts) :=
  ⟨lawful_to_hoomd_exact _ (lawful_polygon M0 frame) s, lawful_to_hoomd_exact _ (lawful_polyhedron M0 simp) s,
    lawful_to_hoomd_exact _ (lawful_convex_polyhedron M0 simp) s⟩

/-- the centroid a caller reads from a certified polygon IS C04's getter model -/
theorem polygon_pubCentroid_is_model (M0 : Meas ℝ) (frame : V3 ℝ → M3 ℝ) (s : St ℝ) (hk : s.cls.kind = .planar)
    (hc : PlanarCert (frame (l3v (s.get s.fNormal))) (l3v (s.get s.fNormal)) (rowsOf (s.get s.fVerts))) :
    pubCentroid (polygonMeas M0 frame) s
      = Poly2.centroid (rowsOf (s.get s.fVerts)) (l3v (s.get s.fNormal)) (frame (l3v (s.get s.fNormal))) := by
  unfold pubCentroid; rw [hk]; exact polygonMeas_cen M0 frame _ _ hc

/-- the centroid a caller reads from a certified polyhedron IS C02's getter model -/
theorem polyhedron_pubCentroid_is_model (M0 : Meas ℝ) (simp : List (Nat × Nat × Nat)) (s : St ℝ) (hk : s.cls.kind = .poly)
    (hc : SolidCert simp false (rowsOf (s.get s.fVerts))) :
    pubCentroid (polyhedronMeas M0 simp) s = Poly3.centroid (Mut.trisOf (rowsOf (s.get s.fVerts)) simp) := by
  unfold pubCentroid; rw [hk]; exact polyhedronMeas_cen M0 simp _ _ hc

/-- `Coherent` for a certified convex polyhedron says exactly: `_volume` and `_centroid` hold C01's
`CP.volume` / `CP.centroid` of the gathered surface -/
theorem convex_coherent_is_model (M0 : Meas ℝ) (simp : List (Nat × Nat × Nat)) (s : St ℝ) (hk : s.cls.kind = .convex)
    (hI : Spec.Inv (convexMeas M0 simp) s) (hc : SolidCert simp true (rowsOf (s.get s.fVerts))) :
    s.volume = CP.volume (Mut.trisOf (rowsOf (s.get s.fVerts)) simp) ∧
    s.get s.fCen = v3l (CP.centroid (Mut.trisOf (rowsOf (s.get s.fVerts)) simp) s.volume) := by
  refine ⟨?_, ?_⟩
  · rw [hI.coh.volume hk]; exact convexMeas_vol M0 simp _ hc
  · rw [hI.coh.cen hk]; congr 1; exact convexMeas_cenV M0 simp _ _ hc

/-! ### the certificate and the hypotheses are satisfiable: C04's unit square as a `Polygon` on the heap -/
noncomputable section
/-- C04's unit square `exSq` as the `(4,3)` vertex array (id 0), normal (0,0,1) (id 1) -/
def C16.Ex.square : St ℝ :=
  { C16.Ex.polygon with heap := [(0, [0, 0, 0, 1, 0, 0, 1, 1, 0, 0, 1, 0]), (1, [0, 0, 1]), (2, []), (3, []), (4, [])],
                        next := 5, handed := [0, 1], args := [] }

theorem C16.Ex.square_cert : PlanarCert (M3.one : M3 ℝ) ⟨0, 0, 1⟩ exSq := by
  refine ⟨0, exSqT, ⟨isRot_one, by simp [M3.mulVec, M3.one, Scalar.lit]⟩, ?_, ?_, ?_, ?_⟩
  · intro v hv
    simp only [exSq, List.mem_cons, List.not_mem_nil, or_false] at hv
    rcases hv with rfl | rfl | rfl | rfl <;> simp [V3.dot]
  · intro t ht
    simp only [exSqT, List.mem_cons, List.not_mem_nil, or_false] at ht
    rcases ht with rfl | rfl <;> simp [V3.dot]
  · intro φ hφ
    have c := hφ ⟨0,0,0⟩ ⟨1,1,0⟩
    simp [sumEdges, cycleEdges, exSq, exSqT, triEdges, Poly2.rotl] at c ⊢
    linarith
  · simp only [Spec3.area, exSqT]; unfold Spec3.triArea; unfold_model; norm_num

theorem C16.Ex.square_inv : Spec.Inv (polygonMeas C16.Ex.M (fun _ => M3.one)) C16.Ex.square where
  wf := by
    refine ⟨by decide, by decide, by decide, by decide, by decide, ?_, ?_, ?_, ?_, ?_⟩ <;>
      simp [C16.Ex.square, C16.Ex.polygon]
  coh := by
    refine ⟨fun _ => ?_, fun h => ?_, fun h => ?_, fun h => ?_, fun h => ?_, fun h => ?_, fun i h => ?_⟩
    · simp [C16.Ex.square, C16.Ex.polygon, St.get, Heap.get]
    all_goals simp [C16.Ex.square, C16.Ex.polygon, Cls.kind] at h
end

open C16.Ex in
/-- on the unit square the centroid the caller reads is C04's `Poly2.centroid exSq (0,0,1) 1`, and
`to_hoomd`, `inertia_tensor`, `to_hoomd` leave it exactly where it was -/
example :
    pubCentroid (polygonMeas M (fun _ => M3.one)) square = Poly2.centroid exSq ⟨0, 0, 1⟩ M3.one ∧
    Spec.SameObservables square (runAll (polygonMeas M (fun _ => M3.one)) [.toHoomd, .get .inertiaTensor, .toHoomd] square) ∧
    (run (polygonMeas M (fun _ => M3.one)) .toHoomd square).1.get square.fVerts = square.get square.fVerts := by
  have hrows : rowsOf (square.get square.fVerts) = exSq := by
    simp [square, polygon, St.get, Heap.get, rowsOf, exSq]
  have hn : l3v (square.get square.fNormal) = (⟨0, 0, 1⟩ : V3 ℝ) := by
    simp [square, polygon, St.get, Heap.get, l3v]
  refine ⟨?_, (polygon_histories M _ _ square square_inv ?_).1, (to_hoomd_exact_concrete M _ [] square).1 square_inv⟩
  · have := polygon_pubCentroid_is_model M (fun _ => M3.one) square rfl (by rw [hrows, hn]; exact square_cert)
    rw [this, hrows, hn]
  · intro q hq a h
    simp only [List.mem_cons, List.not_mem_nil, or_false] at hq
    rcases hq with rfl | rfl | rfl <;> simp [Query.argIds] at h
