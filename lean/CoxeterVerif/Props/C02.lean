import CoxeterVerif.Lemmas.Polyhedron
import CoxeterVerif.Lemmas.PolytriBoundary
import CoxeterVerif.Lemmas.PolytriFan
import CoxeterVerif.Lemmas.PolytriWinding
import CoxeterVerif.Lemmas.PolytriCount
import CoxeterVerif.Lemmas.PolyhedronFaces
import CoxeterVerif.Props.C04
/-!
  # C02 — general (non-convex) polyhedron volume, centroid, inertia are exact

  `S`  : the surface triangulation the Python integrates over (polytri output of every face);
  `Ts` : ANY tetrahedralisation of the solid with boundary chain `S` — the solid may be convex,
         star-shaped, U/C-shaped or of genus 1; nothing is assumed about visibility from a point.
-/
open Scalar
set_option maxRecDepth 8000
noncomputable section

theorem eb_vol_sum {S : List (Tri ℝ)} {Ts : List (Tet ℝ)} (h : ChainEq S (Ts.flatMap Tet.bdry)) :
    Scalar.sum (S.map fun t => (Poly3.eberlyTerm t).1) = 6 * Spec.vol Ts := by
  have := sumOver_bdry ebVolPhi_oddCyclic ebVolPhi_tet h
  rw [Spec.vol_eq, ← list_sum_map_mul, ← this]
  simp only [Scalar.sum_real, sumOver]; rfl

theorem eb_cen_sum {S : List (Tri ℝ)} {Ts : List (Tet ℝ)} (h : ChainEq S (Ts.flatMap Tet.bdry))
    (i : Nat) (hi : i < 3) :
    (V3.sum (S.map fun t => (Poly3.eberlyTerm t).2)).get i = 24 * (Spec.first Ts).get i := by
  have := sumOver_bdry (ebCenPhi_oddCyclic i hi) (ebCenPhi_tet i hi) h
  rw [first_get Ts i hi, ← list_sum_map_mul, ← this]
  cases3 i
  · simp only [V3.get_zero, V3.sum_x, sumOver, List.map_map]; rfl
  · simp only [V3.get_one, V3.sum_y, sumOver, List.map_map]; rfl
  · simp only [V3.get_two, V3.sum_z, sumOver, List.map_map]; rfl

/-- **C02 centroid (Eberly).** For every closed surface that bounds a tetrahedralised solid of
non-zero volume — convex or not, star-shaped or not, any genus — the mesh centroid formula
returns first moment / volume. -/
theorem poly_centroid_exact {S : List (Tri ℝ)} {Ts : List (Tet ℝ)}
    (h : ChainEq S (Ts.flatMap Tet.bdry)) (hv : Spec.vol Ts ≠ 0) :
    Poly3.centroid S = Spec.centroid Ts := by
  apply V3.ext_get
  intro i hi
  have hc := eb_cen_sum h i hi
  have hvol := eb_vol_sum h
  unfold Poly3.centroid Spec.centroid
  cases3 i <;>
    simp only [V3.get_zero, V3.get_one, V3.get_two, V3.sdiv_x, V3.sdiv_y, V3.sdiv_z, Scalar.lit,
      Scalar.ofNat_real] at hc ⊢ <;>
    rw [hc, hvol] <;> push_cast <;> field_simp <;> ring

/-! ### inertia (Kallay, signed determinants) -/

theorem kal_sum {S : List (Tri ℝ)} {Ts : List (Tet ℝ)} (c : V3 ℝ)
    (h : ChainEq S (Ts.flatMap Tet.bdry)) (i j : Nat) (hi : i < 3) (hj : j < 3) :
    sumOver (kalPhi i j) (S.map (Tri.map (· - c))) = Spec.second (Ts.map (Tet.map (· - c))) i j := by
  have hch := ChainEq.map (· - c) h
  rw [← flatMap_bdry_map] at hch
  rw [sumOver_bdry (kalPhi_oddCyclic i j hi hj) (kalPhi_tet i j hi hj) hch, Spec.second_eq]

theorem zipWith_map_self {β γ : Type} (f : β → γ) (g : γ → β → ℝ) (l : List β) :
    List.zipWith g (l.map f) l = l.map fun t => g (f t) t := by
  induction l with
  | nil => rfl
  | cons a l ih => simp [ih]

theorem kallay_add (w : ℝ) (t : Tri ℝ) (f g : V3 ℝ → ℝ) :
    Poly3.kallay w t (fun p => f p + g p) = Poly3.kallay w t f + Poly3.kallay w t g := by
  unfold Poly3.kallay; ring

theorem kallay_negmul (w : ℝ) (t : Tri ℝ) (f g : V3 ℝ → ℝ) :
    Poly3.kallay w t (fun p => -(f p) * g p) = -Poly3.kallay w t (fun p => f p * g p) := by
  unfold Poly3.kallay; ring

theorem kallay_sum_add (L : List (Tri ℝ)) (w : Tri ℝ → ℝ) (f g : V3 ℝ → ℝ) :
    (L.map fun t => Poly3.kallay (w t) t (fun p => f p + g p)).sum
      = (L.map fun t => Poly3.kallay (w t) t f).sum + (L.map fun t => Poly3.kallay (w t) t g).sum := by
  simp only [kallay_add]
  induction L with
  | nil => simp
  | cons a L ih => simp only [List.map_cons, List.sum_cons, ih]; ring

theorem kallay_sum_negmul (L : List (Tri ℝ)) (w : Tri ℝ → ℝ) (f g : V3 ℝ → ℝ) :
    (L.map fun t => Poly3.kallay (w t) t (fun p => -(f p) * g p)).sum
      = -(L.map fun t => Poly3.kallay (w t) t (fun p => f p * g p)).sum := by
  simp only [kallay_negmul]
  induction L with
  | nil => simp
  | cons a L ih => simp only [List.map_cons, List.sum_cons, ih]; ring

/-- sum of the Kallay terms of the monomial `x_i x_j` with signed determinants -/
def K (L : List (Tri ℝ)) (i j : Nat) : ℝ :=
  (L.map fun t => Poly3.kallay (V3.det3 t.a t.b t.c / lit 6) t (fun p => p.get i * p.get j)).sum

theorem K_eq_sumOver (L : List (Tri ℝ)) (i j : Nat) : K L i j = sumOver (kalPhi i j) L := rfl

/-- the model's centred tensor, for an outward oriented surface, in terms of the six sums `K` -/
theorem inertiaCentred_eq (S : List (Tri ℝ)) (c : V3 ℝ)
    (hpos : 0 < CP.signedVolume (S.map (Tri.map (· - c)))) :
    Poly3.inertiaCentred S c =
      let L := S.map (Tri.map (· - c))
      ⟨K L 1 1 + K L 2 2, -(K L 0 1), -(K L 0 2),
       -(K L 0 1), K L 0 0 + K L 2 2, -(K L 1 2),
       -(K L 0 2), -(K L 1 2), K L 0 0 + K L 1 1⟩ := by
  have hpos' : lit 0 < Scalar.sum ((S.map (Tri.map (· - c))).map fun t => V3.det3 t.a t.b t.c / lit 6) := by
    simpa [CP.signedVolume, Scalar.lit] using hpos
  unfold Poly3.inertiaCentred
  simp only [if_pos hpos']
  set L := S.map (Tri.map (· - c)) with hL
  have hz : ∀ f : V3 ℝ → ℝ,
      Scalar.sum (List.zipWith (fun v t => Poly3.kallay (v * lit 1) t f)
        (L.map fun t => V3.det3 t.a t.b t.c / lit 6) L)
      = (L.map fun t => Poly3.kallay (V3.det3 t.a t.b t.c / lit 6) t f).sum := by
    intro f
    rw [Scalar.sum_real, zipWith_map_self]
    congr 1
    apply List.map_congr_left
    intro t _
    simp only [Scalar.lit, Scalar.ofNat_real]; push_cast; rw [mul_one]
  simp only [hz]
  have a_xx := kallay_sum_add L (fun t => V3.det3 t.a t.b t.c / lit 6) (fun p => p.y * p.y) (fun p => p.z * p.z)
  have a_yy := kallay_sum_add L (fun t => V3.det3 t.a t.b t.c / lit 6) (fun p => p.x * p.x) (fun p => p.z * p.z)
  have a_zz := kallay_sum_add L (fun t => V3.det3 t.a t.b t.c / lit 6) (fun p => p.x * p.x) (fun p => p.y * p.y)
  have n_xy := kallay_sum_negmul L (fun t => V3.det3 t.a t.b t.c / lit 6) (fun p => p.x) (fun p => p.y)
  have n_xz := kallay_sum_negmul L (fun t => V3.det3 t.a t.b t.c / lit 6) (fun p => p.x) (fun p => p.z)
  have n_yz := kallay_sum_negmul L (fun t => V3.det3 t.a t.b t.c / lit 6) (fun p => p.y) (fun p => p.z)
  rw [a_xx, a_yy, a_zz, n_xy, n_xz, n_yz]
  simp only [K, V3.get_zero, V3.get_one, V3.get_two]

/-- **C02 inertia tensor (Kallay).** For every outward oriented closed surface bounding a
tetrahedralised solid of positive volume, the signed-tetrahedron integration about the centroid,
shifted by the parallel-axis theorem, is the exact inertia tensor about the origin. No
star-shapedness is needed (this is what the absolute value in the unrepaired code broke). -/
theorem poly_inertia_exact {S : List (Tri ℝ)} {Ts : List (Tet ℝ)}
    (h : ChainEq S (Ts.flatMap Tet.bdry)) (hpos : 0 < Spec.vol Ts) :
    Poly3.inertia S (Spec.centroid Ts) (Spec.vol Ts) = Spec.inertia Ts := by
  have hv : Spec.vol Ts ≠ 0 := hpos.ne'
  have htot : CP.signedVolume (S.map (Tri.map (· - Spec.centroid Ts))) = Spec.vol Ts := by
    have hch := ChainEq.map (· - Spec.centroid Ts) h
    rw [← flatMap_bdry_map] at hch
    rw [signedVolume_chain hch, vol_translate]
  have k := fun i j hi hj => kal_sum (Spec.centroid Ts) h i j hi hj
  have s := fun i j hi hj => second_centred Ts i j hi hj hv
  unfold Poly3.inertia CP.translateInertia
  rw [inertiaCentred_eq S _ (by rw [htot]; exact hpos)]
  simp only [K_eq_sumOver, k 0 0 (by omega) (by omega), k 1 1 (by omega) (by omega),
    k 2 2 (by omega) (by omega), k 0 1 (by omega) (by omega), k 0 2 (by omega) (by omega),
    k 1 2 (by omega) (by omega), s 0 0 (by omega) (by omega), s 1 1 (by omega) (by omega),
    s 2 2 (by omega) (by omega), s 0 1 (by omega) (by omega), s 0 2 (by omega) (by omega),
    s 1 2 (by omega) (by omega)]
  apply M3.ext' <;> simp only [Spec.inertia, V3.dot, V3.get_zero, V3.get_one, V3.get_two, Scalar.lit,
    Scalar.ofNat_real] <;> push_cast <;> ring

/-! ### volume = Σ (−d_i)·A_i / 3 -/

/-- one face as the volume formula sees it: plane offset `d`, reported area `A`, unit normal `n`,
and a fan `F` of triangles covering the face. -/
structure FaceData where
  n : V3 ℝ
  d : ℝ
  A : ℝ
  F : List (Tri ℝ)

/-- the face is planar with exact normal and area: every fan triangle's normal vector is a
multiple `λ_t • n` of the stored normal, its first vertex lies on the plane `n·v + d = 0`, and
the multiples add up to twice the reported area. -/
structure FaceData.Exact (f : FaceData) : Prop where
  lam : ∃ lam : Tri ℝ → ℝ, (∀ t ∈ f.F, t.nvec = V3.smul (lam t) f.n ∧ V3.dot f.n t.a + f.d = 0) ∧
          (f.F.map lam).sum = 2 * f.A

theorem det_eq_dot_nvec (t : Tri ℝ) : V3.det3 t.a t.b t.c = V3.dot t.a t.nvec := by
  obtain ⟨⟨ax,ay,az⟩,⟨bx,b_y,bz⟩,⟨cx,cy,cz⟩⟩ := t
  unfold_model; ring

/-- **C02 volume.** If every face is planar with exact unit normal and exact area (C04 in the
face's plane), then `Σ(−d_i)A_i/3` is the signed-tetrahedron volume of the surface, hence (by
`cp_volume_exact`) the exact volume of any solid it bounds. -/
theorem poly_volume_exact (faces : List FaceData) (hex : ∀ f ∈ faces, f.Exact) :
    Poly3.volume (faces.map fun f => (f.d, f.A)) = CP.signedVolume (faces.flatMap (·.F)) := by
  unfold Poly3.volume CP.signedVolume
  simp only [Scalar.sum_real, List.map_map, Scalar.lit, Scalar.ofNat_real]
  induction faces with
  | nil => simp
  | cons f fs ih =>
    have ih' := ih (fun g hg => hex g (List.mem_cons_of_mem _ hg))
    simp only [List.map_cons, List.sum_cons, List.flatMap_cons, List.map_append, List.sum_append,
      Function.comp] at ih' ⊢
    obtain ⟨lam, hl, hsum⟩ := (hex f (List.mem_cons_self)).lam
    have hface : (f.F.map fun t => V3.det3 t.a t.b t.c / ((6:ℕ):ℝ)).sum = (-f.d) * f.A / 3 := by
      have : ∀ t ∈ f.F, V3.det3 t.a t.b t.c / ((6:ℕ):ℝ) = (-f.d) / 6 * lam t := by
        intro t ht
        obtain ⟨h1, h2⟩ := hl t ht
        rw [det_eq_dot_nvec, h1]
        simp only [V3.dot, V3.smul_x, V3.smul_y, V3.smul_z] at h2 ⊢
        push_cast
        have : t.a.x * f.n.x + t.a.y * f.n.y + t.a.z * f.n.z = -f.d := by linarith
        calc (t.a.x * (lam t * f.n.x) + t.a.y * (lam t * f.n.y) + t.a.z * (lam t * f.n.z)) / 6
            = lam t * (t.a.x * f.n.x + t.a.y * f.n.y + t.a.z * f.n.z) / 6 := by ring
          _ = -f.d / 6 * lam t := by rw [this]; ring
      rw [List.map_congr_left this, list_sum_map_mul, hsum]; ring
    rw [hface]
    have : ((-f.d) * f.A + (fs.map fun f => (-f.d) * f.A).sum) / ((3:ℕ):ℝ)
        = (-f.d) * f.A / 3 + (fs.map fun f => (-f.d) * f.A).sum / ((3:ℕ):ℝ) := by push_cast; ring
    rw [← ih']; push_cast; ring

/-! ### non-vacuity -/

def exTetC02 : Tet ℝ := ⟨⟨1,1,1⟩, ⟨2,1,1⟩, ⟨1,2,1⟩, ⟨1,1,2⟩⟩

example : ChainEq exTetC02.bdry ([exTetC02].flatMap Tet.bdry) ∧ 0 < Spec.vol [exTetC02] := by
  constructor
  · simpa using ChainEq.refl _
  · unfold Spec.vol Spec.tetVol exTetC02; unfold_model; norm_num

/-! ### the surface triangulation: `polytri.triangulate` output bounds the face polygon

  `Polytri.triangulate` is the executable model of `coxeter/extern/polytri/polytri.py::triangulate`
  (compared triangle by triangle with the Python on every check run). The theorems below hold for
  polygons with ANY number of vertices: they are proved by induction on the fuel of the ear
  clipping loop (`Polytri.loop_boundary` in `Lemmas/PolytriBoundary.lean`).
-/

/-- **C02 ear clipping, boundary chain (with vertex count).** Whenever the ear clipping succeeds,
the directed boundary of the emitted triangles plus the edge cycle of the leftover vertices `rest`
is chain-equal to the polygon's own directed edge cycle. The leftover is either at most two
vertices (regular exit) or satisfies the model's degenerate-remainder exit test (no ear left and
`|Σ p_k × p_{k+1}|² ≤ 1e-12 |normal|²`). Every clipped vertex accounts for at most one triangle,
and `rest` is a sub-list of the polygon's vertices (at least two of them if the polygon has two). -/
theorem polytri_boundary_count (poly : List (V3 ℝ)) (tris : List (Tri ℝ))
    (h : Polytri.triangulate poly = .ok tris) :
    ∃ rest : List (V3 ℝ),
      EdgeChainEq (cycleEdges poly) (tris.flatMap triEdges ++ cycleEdges rest) ∧
      (rest.length ≤ 2 ∨ Polytri.restDegenerate (Polytri.newell poly) rest) ∧
      tris.length + rest.length ≤ poly.length ∧
      (2 ≤ poly.length → 2 ≤ rest.length) ∧
      rest.Sublist poly := by
  unfold Polytri.triangulate at h
  simp only [] at h
  split_ifs at h
  obtain ⟨new, rest, hnew, hp⟩ := Polytri.loop_boundary _ _ _ _ _ _ h
  simp only [List.reverse_nil, List.nil_append] at hnew
  subst hnew
  exact ⟨rest, hp.chain, hp.exit, hp.count, hp.two, hp.sub⟩

/-- **C02 ear clipping, boundary chain.** -/
theorem polytri_boundary (poly : List (V3 ℝ)) (tris : List (Tri ℝ))
    (h : Polytri.triangulate poly = .ok tris) :
    ∃ rest : List (V3 ℝ),
      EdgeChainEq (cycleEdges poly) (tris.flatMap triEdges ++ cycleEdges rest) ∧
      (rest.length ≤ 2 ∨ Polytri.restDegenerate (Polytri.newell poly) rest) := by
  obtain ⟨rest, h1, h2, _⟩ := polytri_boundary_count poly tris h
  exact ⟨rest, h1, h2⟩

/-- an `n`-gon yields at most `n − 2` triangles -/
theorem polytri_length_le (poly : List (V3 ℝ)) (tris : List (Tri ℝ))
    (h : Polytri.triangulate poly = .ok tris) : tris.length ≤ poly.length - 2 := by
  unfold Polytri.triangulate at h
  simp only [] at h
  split_ifs at h
  obtain ⟨new, rest, hnew, hp⟩ := Polytri.loop_boundary _ _ _ _ _ _ h
  simp only [List.reverse_nil, List.nil_append] at hnew
  subst hnew
  exact hp.le

/-- a leftover of at most two vertices is the zero chain: `(a,b),(b,a)` cancel and the loop edge
`(a,a)` has odd-functional value 0 -/
theorem triangulates_of_short_rest {poly rest : List (V3 ℝ)} {tris : List (Tri ℝ)}
    (h : EdgeChainEq (cycleEdges poly) (tris.flatMap triEdges ++ cycleEdges rest))
    (hr : rest.length ≤ 2) : Triangulates poly tris := by
  have := h.trans (EdgeChainEq.append_left _ (cycleEdges_short hr))
  simpa [Triangulates] using this

/-- **C02 ear clipping triangulates the face.** If the ear clipping of an `n`-gon succeeds with
`n − 2` triangles (the regular exit: no degenerate remainder, no duplicate vertex skipped), then
the triangles' boundary chain IS the polygon's edge cycle — the hypothesis `Triangulates` of the
C04 area/centroid/moment theorems, and (face by face) the surface chain `S` the volume, centroid
and inertia theorems above integrate over. -/
theorem polytri_triangulates (poly : List (V3 ℝ)) (tris : List (Tri ℝ))
    (h : Polytri.triangulate poly = .ok tris) (hn : poly.length ≤ tris.length + 2) :
    Triangulates poly tris := by
  obtain ⟨rest, hc, _, hcount, _, _⟩ := polytri_boundary_count poly tris h
  exact triangulates_of_short_rest hc (by omega)

/-- **C02 ear clipping preserves the vector area up to the exit tolerance.** In every successful
run (regular or degenerate-remainder exit) the polygon's `Σ p × q` over its edge cycle equals the
sum of the emitted triangles' `Σ p × q` (twice their vector areas) plus a defect `d` with
`|d|² ≤ 1e-12 |normal|²`; `d = 0` on the regular exit. -/
theorem polytri_area_defect (poly : List (V3 ℝ)) (tris : List (Tri ℝ))
    (h : Polytri.triangulate poly = .ok tris) :
    ∃ d : V3 ℝ,
      (∀ c, sumEdges (Polytri.crossPhi c) (cycleEdges poly)
          = (tris.map fun t => sumEdges (Polytri.crossPhi c) (triEdges t)).sum + d.get c) ∧
      V3.dot d d ≤ (lit 1 / lit 1000000000000) * V3.dot (Polytri.newell poly) (Polytri.newell poly) := by
  obtain ⟨rest, hc, hex⟩ := polytri_boundary poly tris h
  have key : ∀ c, sumEdges (Polytri.crossPhi c) (cycleEdges poly)
      = (tris.map fun t => sumEdges (Polytri.crossPhi c) (triEdges t)).sum
        + sumEdges (Polytri.crossPhi c) (cycleEdges rest) := by
    intro c
    rw [hc _ (Polytri.crossPhi_odd c), sumEdges_append, sumEdges_flatMap]
  rcases hex with hshort | hdeg
  · refine ⟨V3.zero, fun c => ?_, ?_⟩
    · rw [key c, cycleEdges_short hshort _ (Polytri.crossPhi_odd c)]
      simp only [V3.get, V3.zero, Scalar.lit, Scalar.ofNat_real]; split_ifs <;> simp [sumEdges]
    · have : 0 ≤ V3.dot (Polytri.newell poly) (Polytri.newell poly) := by
        simp only [V3.dot]; nlinarith [mul_self_nonneg (Polytri.newell poly).x,
          mul_self_nonneg (Polytri.newell poly).y, mul_self_nonneg (Polytri.newell poly).z]
      simp only [V3.dot, V3.zero, Scalar.lit, Scalar.ofNat_real] at this ⊢
      push_cast; nlinarith
  · exact ⟨Polytri.restVec rest, fun c => by rw [key c, Polytri.restVec_get], hdeg⟩

theorem crossPhi_tri (t : Tri ℝ) (c : Nat) :
    sumEdges (Polytri.crossPhi c) (triEdges t) = t.nvec.get c := by
  obtain ⟨⟨ax, ay, az⟩, ⟨bx, b_y, bz⟩, ⟨cx, cy, cz⟩⟩ := t
  simp only [sumEdges, triEdges, Polytri.crossPhi, Tri.nvec, V3.cross, V3.get, List.map_cons,
    List.map_nil, List.sum_cons, List.sum_nil, V3.sub_x, V3.sub_y, V3.sub_z]
  split_ifs <;> ring

/-- **C02 ear clipping preserves the Newell normal (vector area).** In every successful run the
triangle normal vectors `(b−a)×(c−a)` (twice the vector areas) add up to minus the Newell vector
`calculate_normal_3d` computed for the polygon (which is `−Σ p_k × p_{k+1}`), up to a defect `d`
with `|d|² ≤ 1e-12 |normal|²` — the tolerance of the degenerate-remainder exit. -/
theorem polytri_normal_preserved (poly : List (V3 ℝ)) (tris : List (Tri ℝ))
    (h : Polytri.triangulate poly = .ok tris) :
    ∃ d : V3 ℝ,
      (∀ c, (tris.map fun t => t.nvec.get c).sum + d.get c = -(Polytri.newell poly).get c) ∧
      V3.dot d d ≤ (lit 1 / lit 1000000000000) * V3.dot (Polytri.newell poly) (Polytri.newell poly) := by
  obtain ⟨d, hd, hb⟩ := polytri_area_defect poly tris h
  refine ⟨d, fun c => ?_, hb⟩
  rw [Polytri.newell_get, neg_neg, hd c]
  simp only [crossPhi_tri]

/-- on the regular exit (`n − 2` triangles) the normal is preserved exactly -/
theorem polytri_normal_exact (poly : List (V3 ℝ)) (tris : List (Tri ℝ))
    (h : Polytri.triangulate poly = .ok tris) (hn : poly.length ≤ tris.length + 2) (c : Nat) :
    (tris.map fun t => t.nvec.get c).sum = -(Polytri.newell poly).get c := by
  have ht := polytri_triangulates poly tris h hn
  rw [Polytri.newell_get, neg_neg, ht _ (Polytri.crossPhi_odd c), sumEdges_flatMap]
  simp only [crossPhi_tri]

/-! #### non-vacuity: the model's ear clipping of the unit square, evaluated over ℝ -/

theorem newell_exSq : Polytri.newell exSq = ⟨0, 0, -2⟩ := by
  simp [Polytri.newell, Polytri.newell.go, exSq, V3.zero, Scalar.lit]
  norm_num

theorem polytri_exSq_step1 (fuel : Nat) :
    Polytri.loop (⟨0, 0, -2⟩ : V3 ℝ) (fuel + 1) #[⟨0,0,0⟩, ⟨1,0,0⟩, ⟨1,1,0⟩, ⟨0,1,0⟩] 0 []
      = Polytri.loop ⟨0, 0, -2⟩ fuel #[⟨0,0,0⟩, ⟨1,1,0⟩, ⟨0,1,0⟩] 0 [⟨⟨0,0,0⟩, ⟨1,0,0⟩, ⟨1,1,0⟩⟩] := by
  rw [Polytri.loop]
  simp only [Nat.zero_add, Polytri.getLoop4, Polytri.others4, List.size_toArray, List.length_cons,
    List.length_nil]
  rw [Polytri.erase4]
  norm_num [Polytri.veq, Polytri.anyPointInTriangle, V3.cross, V3.dot, V3.det3, Scalar.lit, Scalar.eqb]

theorem polytri_exSq_step2 (fuel : Nat) (acc : List (Tri ℝ)) :
    Polytri.loop (⟨0, 0, -2⟩ : V3 ℝ) (fuel + 1) #[⟨0,0,0⟩, ⟨1,1,0⟩, ⟨0,1,0⟩] 0 acc
      = Polytri.loop ⟨0, 0, -2⟩ fuel #[⟨0,0,0⟩, ⟨0,1,0⟩] 0 (⟨⟨0,0,0⟩, ⟨1,1,0⟩, ⟨0,1,0⟩⟩ :: acc) := by
  rw [Polytri.loop]
  simp only [Nat.zero_add, Polytri.getLoop3, Polytri.others3, List.size_toArray, List.length_cons,
    List.length_nil]
  rw [Polytri.erase3]
  norm_num [Polytri.veq, Polytri.anyPointInTriangle, V3.cross, V3.dot, V3.det3, Scalar.lit, Scalar.eqb]

/-- the model clips the counter-clockwise unit square into the fan `exSqT` of C04 -/
theorem polytri_exSq : Polytri.triangulate exSq = .ok exSqT := by
  unfold Polytri.triangulate
  simp only [newell_exSq]
  have hd : Polytri.degenerate exSq (⟨0, 0, -2⟩ : V3 ℝ) = false := by
    simp [Polytri.degenerate, Polytri.edgeSq, Polytri.edgeSq.go, exSq, V3.dot, Scalar.lit]
    norm_num
  rw [hd]
  simp only [exSq, List.length_cons, List.length_nil]
  norm_num only
  rw [show (32 : Nat) = 29 + 1 + 1 + 1 from rfl, polytri_exSq_step1, polytri_exSq_step2, Polytri.loop]
  simp [exSqT]

/-- hypotheses of `polytri_boundary`, `polytri_length_le`, `polytri_triangulates` are met -/
example : Polytri.triangulate exSq = .ok exSqT ∧ exSq.length ≤ exSqT.length + 2 :=
  ⟨polytri_exSq, by simp [exSq, exSqT]⟩

example : Triangulates exSq exSqT :=
  polytri_triangulates _ _ polytri_exSq (by simp [exSq, exSqT])

/-! ### deepening round: orientation, termination, success and failure of the ear clipping -/

/-- **every emitted triangle passed the ear test**: `dot(normal, (c−b)×(b−a)) > 1e-6 |normal|²`
with `normal = calculate_normal_3d(polygon)`, for polygons of any length and whatever exit the loop
took. -/
theorem polytri_oriented (poly : List (V3 ℝ)) (tris : List (Tri ℝ))
    (h : Polytri.triangulate poly = .ok tris) : ∀ t ∈ tris, Polytri.EarTest (Polytri.newell poly) t := by
  unfold Polytri.triangulate at h
  simp only [] at h
  split_ifs at h
  exact Polytri.loop_oriented _ _ _ _ _ _ h (by simp)

/-- the triangles' vertices are vertices of the polygon -/
theorem polytri_vertices_mem (poly : List (V3 ℝ)) (tris : List (Tri ℝ))
    (h : Polytri.triangulate poly = .ok tris) : ∀ t ∈ tris, t.a ∈ poly ∧ t.b ∈ poly ∧ t.c ∈ poly := by
  unfold Polytri.triangulate at h
  simp only [] at h
  split_ifs at h
  exact Polytri.loop_mem _ poly _ _ _ _ _ h (by simp) (by simp)

/-- **positive orientation**: every emitted triangle is counter-clockwise about the polygon's own
vector area `Σ p×q = −newell`, with more than `1e-6` of its size: `n · nvec(t) > 0` for every
negative multiple `n` of the Newell vector (in particular the polygon's unit normal). -/
theorem polytri_positive (poly : List (V3 ℝ)) (tris : List (Tri ℝ))
    (h : Polytri.triangulate poly = .ok tris) {n : V3 ℝ} {k : ℝ} (hk : k < 0)
    (hn : n = V3.smul k (Polytri.newell poly)) : OrientedBy3 n 1 tris := by
  intro t ht
  have he := (Polytri.earTest_iff _ t.a t.b t.c).mp (polytri_oriented poly tris h t ht)
  have hK : 0 ≤ (lit 1 / lit 1000000 : ℝ) * V3.dot (Polytri.newell poly) (Polytri.newell poly) := by
    simp only [Scalar.lit, Scalar.ofNat_real, V3.dot]
    nlinarith [mul_self_nonneg (Polytri.newell poly).x, mul_self_nonneg (Polytri.newell poly).y,
      mul_self_nonneg (Polytri.newell poly).z]
  have hpos : 0 < Polytri.o3 (Polytri.newell poly) t.a t.b t.c := lt_of_le_of_lt hK he
  have : Spec3.triArea n t = (-k) * Polytri.o3 (Polytri.newell poly) t.a t.b t.c / 2 := by
    rw [hn]; simp only [Spec3.triArea, Polytri.o3, V3.dot, V3.smul_x, V3.smul_y, V3.smul_z, Scalar.lit,
      Scalar.ofNat_real]; push_cast; ring
  rw [one_mul, this]
  have : 0 < (-k) * Polytri.o3 (Polytri.newell poly) t.a t.b t.c := mul_pos (by linarith) hpos
  linarith

/-- **the triangle areas add up to the polygon's area**: for a planar polygon with unit normal `n`
opposite to the Newell vector, clipped into `n − 2` triangles, `Polygon.area` (projection shoelace,
`Poly2.area`) equals the sum of the triangles' areas, each of which is positive. -/
theorem polytri_area_sum (poly : List (V3 ℝ)) (tris : List (Tri ℝ))
    (h : Polytri.triangulate poly = .ok tris) (hcount : poly.length ≤ tris.length + 2)
    {n : V3 ℝ} {d k : ℝ} (hpl : InPlane n d poly) (hunit : V3.norm n = 1) (hk : k < 0)
    (hn : n = V3.smul k (Polytri.newell poly)) (hne : tris ≠ []) :
    Poly2.area poly n = Spec3.area n tris ∧ Poly2.signedArea poly n = Spec3.area n tris ∧
      ∀ t ∈ tris, 0 < Spec3.triArea n t := by
  have ht := polytri_triangulates poly tris h hcount
  have ho := polytri_positive poly tris h hk hn
  refine ⟨?_, signedArea_general_tri hpl hunit ht, fun t hT => by simpa using ho t hT⟩
  have := area_general_tri (Or.inl rfl) hpl hunit ht ho hne
  simpa using this

/-- **the winding sum of `Polygon.is_inside` is additive over the ear clipping**: in any planar frame
`g`, the polygon's half-turn sum about any point equals the sum of the half-turn sums round the emitted
triangles (each of which is `2` inside / `0` outside a positively oriented triangle by C06's
`winding_triangle`). -/
theorem polytri_winding (poly : List (V3 ℝ)) (tris : List (Tri ℝ))
    (h : Polytri.triangulate poly = .ok tris) (hcount : poly.length ≤ tris.length + 2)
    (g : V3 ℝ → Inside2D.P2 ℝ) (p : Inside2D.P2 ℝ) :
    Inside2D.Polygon.halfTurnSum (poly.map g) p
      = (tris.map fun t => Inside2D.Polygon.halfTurn p (g t.a) (g t.b)
          + Inside2D.Polygon.halfTurn p (g t.b) (g t.c) + Inside2D.Polygon.halfTurn p (g t.c) (g t.a)).sum :=
  Polytri.halfTurnSum_additive g p poly tris (polytri_triangulates poly tris h hcount)

/-- **termination / error kinds**: the model never runs out of the fuel `n² + 2n + 8` it is given;
its only error is the Python's `ValueError` ("No normal found" / "Triangulation failed"). -/
theorem polytri_error_kind (poly : List (V3 ℝ)) (e : String)
    (h : Polytri.triangulate poly = .error e) : e = "ValueError" := by
  unfold Polytri.triangulate at h
  simp only [] at h
  split_ifs at h
  · exact (Except.error.inj h).symm
  · refine Polytri.loop_error_kind _ _ _ _ _ _ (Nat.zero_le _) ?_ h
    simp only [List.size_toArray]; omega

/-- **success on fan-clippable polygons**: if the polygon is not degenerate for `calculate_normal_3d`,
lies in a plane orthogonal to its Newell vector `N`, and every triangle `(p₀, p_j, p_k)`, `j < k`,
through its first vertex is counter-clockwise with `o3 > 1e-6 |N|²` (more than `1e-6` of the polygon's
area), the ear clipping returns the fan from `p₀` — `n − 2` triangles, never an error. -/
theorem polytri_fan_ok (a : V3 ℝ) (l : List (V3 ℝ)) (d : ℝ)
    (hd : Polytri.degenerate (a :: l) (Polytri.newell (a :: l)) = false)
    (hpl : InPlane (Polytri.newell (a :: l)) d (a :: l))
    (hmar : Polytri.FanMargin (Polytri.newell (a :: l)) a l) :
    Polytri.triangulate (a :: l) = .ok (Polytri.fan a l) := by
  have hK : 0 < V3.dot (Polytri.newell (a :: l)) (Polytri.newell (a :: l)) := by
    unfold Polytri.degenerate at hd
    simp only [decide_eq_false_iff_not, not_le] at hd
    refine lt_of_le_of_lt ?_ hd
    simp only [Scalar.lit, Scalar.ofNat_real]
    have : 0 ≤ Polytri.edgeSq (a :: l) * Polytri.edgeSq (a :: l) := mul_self_nonneg _
    push_cast; nlinarith
  exact Polytri.triangulate_fan a l hd (Polytri.fanOK_of_margin a l d hK hpl hmar)

/-- **never an error for a strictly convex face (with margin)**: every ordered vertex triple
counter-clockwise with more than `1e-6` of the polygon's area. -/
theorem polytri_convex_ok (a : V3 ℝ) (l : List (V3 ℝ)) (d : ℝ)
    (hd : Polytri.degenerate (a :: l) (Polytri.newell (a :: l)) = false)
    (hpl : InPlane (Polytri.newell (a :: l)) d (a :: l))
    (hconv : Polytri.ConvexMargin (Polytri.newell (a :: l)) (a :: l)) :
    ∃ tris, Polytri.triangulate (a :: l) = .ok tris ∧ (a :: l).length ≤ tris.length + 2 ∧
      Triangulates (a :: l) tris :=
  ⟨Polytri.fan a l, polytri_fan_ok a l d hd hpl hconv.fan,
    by rw [Polytri.fan_length]; simp only [List.length_cons]; omega, Polytri.fan_chain a l⟩

/-- **the failure exit**: a polygon (≥ 3 vertices, not degenerate for `calculate_normal_3d`) none of
whose corners is clippable — no adjacent duplicate; every corner below the ear threshold
`1e-6 |N|²` or blocked by another vertex — and whose vector area is not negligible makes
`triangulate` raise `ValueError("Triangulation failed")`.  A strictly convex polygon with all corner
triangles ≤ `1e-6` of its area (regular `n`-gon, `n ≥ 350`) is in this class (notes/C02.md, D1:
the driver evaluates the model exactly over ℚ on that witness in every run); `polytri_stuck_example` is a
small kernel-checked instance. -/
theorem polytri_stuck_fails (poly : List (V3 ℝ)) (h3 : 3 ≤ poly.length)
    (hd : Polytri.degenerate poly (Polytri.newell poly) = false)
    (hun : ∀ j, j < poly.length → Polytri.Unclippable (Polytri.newell poly) poly.toArray j)
    (hnd : ¬ Polytri.restDegenerate (Polytri.newell poly) poly) :
    Polytri.triangulate poly = .error "ValueError" := by
  unfold Polytri.triangulate
  simp only [hd, Bool.false_eq_true, if_false]
  refine Polytri.loop_stuck _ _ _ _ _ (by simpa using h3) (Nat.zero_le _) ?_ ?_ (by simpa using hnd)
  · simp only [List.size_toArray]
    have : 0 ≤ poly.length * poly.length := Nat.zero_le _
    omega
  · intro j _ hj; exact hun j (by simpa using hj)

/-! #### non-vacuity: the unit square meets the hypotheses of `polytri_fan_ok` / `polytri_convex_ok` -/

theorem exSq_degenerate : Polytri.degenerate exSq (Polytri.newell exSq) = false := by
  rw [newell_exSq]
  simp [Polytri.degenerate, Polytri.edgeSq, Polytri.edgeSq.go, exSq, V3.dot, Scalar.lit]
  norm_num

theorem exSq_convexMargin : Polytri.ConvexMargin (Polytri.newell exSq) exSq := by
  rw [newell_exSq]
  simp only [exSq, Polytri.ConvexMargin, Polytri.FanMargin, List.pairwise_cons, List.mem_cons,
    List.not_mem_nil, or_false, forall_eq_or_imp, forall_eq, List.Pairwise.nil, and_true,
    IsEmpty.forall_iff, implies_true]
  simp only [Polytri.o3, V3.dot, V3.cross, V3.sub_x, V3.sub_y, V3.sub_z, Scalar.lit, Scalar.ofNat_real]
  norm_num

theorem exSq_inPlane : InPlane (Polytri.newell exSq) 0 exSq := by
  rw [newell_exSq]
  intro v hv
  simp only [exSq, List.mem_cons, List.not_mem_nil, or_false] at hv
  rcases hv with rfl | rfl | rfl | rfl <;> simp [V3.dot]

example : ∃ tris, Polytri.triangulate exSq = .ok tris ∧ exSq.length ≤ tris.length + 2 ∧
    Triangulates exSq tris :=
  polytri_convex_ok _ _ 0 exSq_degenerate exSq_inPlane exSq_convexMargin

/-- the hypotheses of `polytri_oriented`, `polytri_positive`, `polytri_area_sum` are met by the square
(normal `ẑ = −½ · newell`) -/
example : OrientedBy3 (⟨0, 0, 1⟩ : V3 ℝ) 1 exSqT :=
  polytri_positive exSq exSqT polytri_exSq (k := -1/2) (by norm_num)
    (by rw [newell_exSq]; ext <;> simp [V3.smul])

/-! ### deepening round: the volume formula from the faces (no per-face exactness hypothesis) -/

/-- a certified face whose triangulation is the ear clipping's own output:
planar (stated with the first corner's cross product), `vs'` a rotation of `vs`, clipped into
`n − 2` triangles -/
structure ClippedFace (f : Poly3.FaceCert) : Prop where
  plane : ∀ v ∈ f.vs, V3.dot f.cc v = V3.dot f.cc f.v0
  rot : f.vs' ~r f.vs
  clip : Polytri.triangulate f.vs = .ok f.T
  count : f.vs.length ≤ f.T.length + 2

theorem ClippedFace.valid {f : Poly3.FaceCert} (h : ClippedFace f) : f.Valid where
  plane := h.plane
  rot := h.rot
  tri := polytri_triangulates f.vs f.T h.clip h.count
  triPlane := fun t ht => by
    obtain ⟨ha, hb, hc⟩ := polytri_vertices_mem f.vs f.T h.clip t ht
    exact ⟨h.plane _ ha, h.plane _ hb, h.plane _ hc⟩

/-- **C02 volume, from the faces.** For faces that are planar, have a non-reflex first corner
(`cc · areaVector > 0`: the first corner turns the way the polygon does), keep their cyclic order under
`_reorder_verts` and are clipped into `n − 2` triangles, `Σ (−d_i) A_i / 3` — with `d_i` from
`_find_equations` and `A_i` from `get_face_area` — is the exact volume of ANY tetrahedralised solid
bounded by the clipped surface. No hypothesis on the values of `d_i`, `A_i` is left. -/
theorem poly_volume_exact_faces (faces : List Poly3.FaceCert) (hc : ∀ f ∈ faces, ClippedFace f)
    (hccw : ∀ f ∈ faces, 0 < V3.dot f.cc (Spec3.areaVector f.vs))
    {Ts : List (Tet ℝ)} (hch : ChainEq (faces.flatMap (·.T)) (Ts.flatMap Tet.bdry)) :
    Poly3.volumeOf (faces.map (·.vs)) (faces.map Poly3.FaceCert.A) = Spec.vol Ts := by
  rw [Poly3.volumeOf_eq, Poly3.volume_faces faces (fun f hf => (hc f hf).valid) hccw,
    signedVolume_chain hch]

/-- **C02, the object level.** `Poly3.observe` is the model of what a `Polyhedron` reports
(`volume`, `surface_area`, `get_face_area()`, `centroid`, `inertia_tensor`, with their error paths),
from the faces' vertex lists and the external data of `get_face_area`.  If `get_face_area` does not
raise, every face is planar with a non-reflex first corner, keeps its cyclic order and is clipped into
`n − 2` triangles, and the clipped surface bounds a tetrahedralised solid of positive volume, then the
reported volume, centroid and inertia tensor are the exact integrals, and the face areas are the
`|n · areaVector|` of the faces. -/
theorem polyhedron_observe_exact (faces : List Poly3.FaceCert) (areas : List ℝ)
    (hA : Poly3.faceAreas (faces.map Poly3.FaceCert.datum) = .ok areas)
    (hc : ∀ f ∈ faces, ClippedFace f)
    (hccw : ∀ f ∈ faces, 0 < V3.dot f.cc (Spec3.areaVector f.vs))
    {Ts : List (Tet ℝ)} (hch : ChainEq (faces.flatMap (·.T)) (Ts.flatMap Tet.bdry))
    (hpos : 0 < Spec.vol Ts) :
    Poly3.observe (faces.map Poly3.FaceCert.datum)
      = ⟨.ok (Spec.vol Ts, Poly3.surfaceArea areas, areas), .ok (Spec.centroid Ts),
          .ok (Spec.inertia Ts)⟩ ∧ areas = faces.map Poly3.FaceCert.A := by
  have hareas := Poly3.faceAreas_ok hA
  have hS := Poly3.surfaceTriangulation_ok (faces := faces) (fun f hf => (hc f hf).clip)
  have hvol := poly_volume_exact_faces faces hc hccw hch
  have hcen := poly_centroid_exact hch hpos.ne'
  have hmap : (faces.map Poly3.FaceCert.datum).map (·.1) = faces.map (·.vs) := by
    simp [List.map_map, Function.comp_def, Poly3.FaceCert.datum]
  refine ⟨?_, hareas⟩
  unfold Poly3.observe
  simp only [hmap, hA, hS, hareas, hvol, hcen, poly_inertia_exact hch hpos]

/-- the stored normal of a face with a REFLEX first corner points the wrong way: its volume term
changes sign (C09's `normal-from-reflex-first-corner`; unreachable for `volume` in the Python because
`get_face_area` rejects non-convex faces, but `_equations` / `normals` carry it) -/
theorem face_term_reflex_fails {f : Poly3.FaceCert} (h : ClippedFace f)
    (hcw : V3.dot f.cc (Spec3.areaVector f.vs) < 0) :
    (-f.d) * f.A / 3 = -(f.T.map fun t => V3.det3 t.a t.b t.c / 6).sum :=
  Poly3.face_volume_term_reflex h.valid hcw


/-- **soundness of the per-face certificate** the driver evaluates exactly over ℚ on the
implementation's own vertices (`poly.facecert`): it yields the hypotheses `ClippedFace` and
`cc · areaVector > 0` of `poly_volume_exact_faces` / `polyhedron_observe_exact` (with `vs' = vs`:
the harness checks separately that `ConvexPolygon` kept the vertex order). -/
theorem faceCheck_sound (vs : List (V3 ℝ)) (hull : Nat) (h : Poly3.faceCheck vs = true) :
    ∃ T, ClippedFace ⟨vs, vs, T, hull⟩ ∧
      0 < V3.dot (Poly3.cornerCross vs) (Spec3.areaVector vs) := by
  unfold Poly3.faceCheck at h
  simp only [Bool.and_eq_true] at h
  obtain ⟨⟨hp, hc⟩, hk⟩ := h
  unfold Poly3.clipCheck at hk
  split at hk
  · rename_i T hT
    refine ⟨T, ⟨?_, List.IsRotated.refl _, hT, of_decide_eq_true hk⟩, ?_⟩
    · intro v hv
      unfold Poly3.planarCheck at hp
      simp only [List.all_eq_true] at hp
      exact of_decide_eq_true (hp v hv)
    · unfold Poly3.ccwCheck at hc
      simpa [Scalar.lit] using of_decide_eq_true hc
  · cases hk

example : Poly3.faceCheck exSq = true := by
  unfold Poly3.faceCheck Poly3.clipCheck
  rw [polytri_exSq]
  simp [Poly3.planarCheck, Poly3.ccwCheck, Poly3.cornerCross, Spec3.areaVector, Spec3.cyc, exSq, exSqT,
    V3.cross, V3.dot, V3.sum, V3.add, V3.zero, Scalar.lit, Scalar.eqb]

/-- **the coplanarity test of `get_face_area` (as repaired by 744f807) never rejects an exactly planar
face**, whatever its size and position: `|(v − v₀)·n| = 0 ≤ 1e-4 · extent`. (Defect D2 — the absolute `atol`
of `np.isclose(n·v, d, 1e-4)` rejecting large faces near the origin — was floating point only; the relative
test has no absolute threshold left.) -/
theorem face_coplanar_test_passes (n : V3 ℝ) (vs : List (V3 ℝ))
    (h : ∀ v ∈ vs, V3.dot (v - vs.getD 0 V3.zero) n = 0) :
    Poly3.coplanar n vs (Scalar.q 1 10000) = true :=
  Poly3.coplanar_of_planar n vs _ (by simp only [Scalar.q, Scalar.ofNat_real]; positivity) h

example : Poly3.coplanar (⟨0, 0, 1⟩ : V3 ℝ) exSq (Scalar.q 1 10000) = true :=
  face_coplanar_test_passes _ _ (by
    intro v hv
    simp only [exSq, List.mem_cons, List.not_mem_nil, or_false] at hv
    rcases hv with rfl | rfl | rfl | rfl <;> simp [exSq, V3.dot])

/-! #### non-vacuity of `polytri_stuck_fails` -/

def exStuck : List (V3 ℝ) := [⟨2,1,0⟩, ⟨4,1,0⟩, ⟨0,3,0⟩, ⟨0,1,0⟩, ⟨3,1,0⟩]

theorem newell_exStuck : Polytri.newell exStuck = ⟨0, 0, -8⟩ := by
  simp [Polytri.newell, Polytri.newell.go, exStuck, V3.zero, Scalar.lit]
  norm_num

theorem getLoop5 (a b c d e : V3 ℝ) :
    Polytri.getLoop #[a, b, c, d, e] 0 = a ∧ Polytri.getLoop #[a, b, c, d, e] 1 = b ∧
    Polytri.getLoop #[a, b, c, d, e] 2 = c ∧ Polytri.getLoop #[a, b, c, d, e] 3 = d ∧
    Polytri.getLoop #[a, b, c, d, e] 4 = e ∧ Polytri.getLoop #[a, b, c, d, e] 5 = a ∧
    Polytri.getLoop #[a, b, c, d, e] 6 = b :=
  ⟨rfl, rfl, rfl, rfl, rfl, by simp [Polytri.getLoop], by simp [Polytri.getLoop]⟩

theorem others5 (a b c d e : V3 ℝ) :
    Polytri.others #[a, b, c, d, e] 0 = [d, e] ∧ Polytri.others #[a, b, c, d, e] 1 = [a, e] ∧
    Polytri.others #[a, b, c, d, e] 2 = [a, b] ∧ Polytri.others #[a, b, c, d, e] 3 = [b, c] ∧
    Polytri.others #[a, b, c, d, e] 4 = [c, d] := by
  refine ⟨?_, ?_, ?_, ?_, ?_⟩ <;> simp [Polytri.others]

theorem exStuck_unclippable : ∀ j, j < exStuck.length →
    Polytri.Unclippable (Polytri.newell exStuck) exStuck.toArray j := by
  rw [newell_exStuck]
  intro j hj
  simp only [exStuck, List.length_cons, List.length_nil] at hj
  obtain ⟨g0, g1, g2, g3, g4, g5, g6⟩ := getLoop5 (⟨2,1,0⟩ : V3 ℝ) ⟨4,1,0⟩ ⟨0,3,0⟩ ⟨0,1,0⟩ ⟨3,1,0⟩
  obtain ⟨o0, o1, o2, o3, o4⟩ := others5 (⟨2,1,0⟩ : V3 ℝ) ⟨4,1,0⟩ ⟨0,3,0⟩ ⟨0,1,0⟩ ⟨3,1,0⟩
  have harr : exStuck.toArray = #[⟨2,1,0⟩, ⟨4,1,0⟩, ⟨0,3,0⟩, ⟨0,1,0⟩, ⟨3,1,0⟩] := rfl
  rw [harr]
  interval_cases j
  · refine ⟨?_, fun _ => ?_⟩
    · rw [g0, g1, g2]; norm_num [Polytri.veq, Scalar.eqb]
    · rw [g0, g1, g2, o0]
      norm_num [Polytri.anyPointInTriangle, V3.cross, V3.det3, V3.dot, Scalar.lit]
  · refine ⟨?_, fun _ => ?_⟩
    · rw [g1, g2, g3]; norm_num [Polytri.veq, Scalar.eqb]
    · rw [g1, g2, g3, o1]
      norm_num [Polytri.anyPointInTriangle, V3.cross, V3.det3, V3.dot, Scalar.lit]
  · refine ⟨?_, fun _ => ?_⟩
    · rw [g2, g3, g4]; norm_num [Polytri.veq, Scalar.eqb]
    · rw [g2, g3, g4, o2]
      norm_num [Polytri.anyPointInTriangle, V3.cross, V3.det3, V3.dot, Scalar.lit]
  · refine ⟨?_, fun h => ?_⟩
    · rw [g3, g4, g5]; norm_num [Polytri.veq, Scalar.eqb]
    · exfalso; revert h
      simp only [Polytri.EarTest, Polytri.corner, g3, g4, g5]
      norm_num [V3.cross, V3.dot, Scalar.lit]
  · refine ⟨?_, fun h => ?_⟩
    · rw [g4, g5, g6]; norm_num [Polytri.veq, Scalar.eqb]
    · exfalso; revert h
      simp only [Polytri.EarTest, Polytri.corner, g4, g5, g6]
      norm_num [V3.cross, V3.dot, Scalar.lit]

/-- the hypotheses of `polytri_stuck_fails` are met by a pentagon of area 4 with a zero-width spike
(`(3,1)` lies on the edge `(2,1)–(4,1)`): three corners pass the ear test but are blocked by a vertex on their
boundary, two are straight — the model (like the Python) raises -/
theorem polytri_stuck_example : Polytri.triangulate exStuck = .error "ValueError" := by
  apply polytri_stuck_fails exStuck (by simp [exStuck])
  · rw [newell_exStuck]
    simp [Polytri.degenerate, Polytri.edgeSq, Polytri.edgeSq.go, exStuck, V3.dot, Scalar.lit]
    norm_num
  · exact exStuck_unclippable
  · rw [newell_exStuck]
    unfold Polytri.restDegenerate
    have hv : Polytri.restVec exStuck = ⟨0, 0, 8⟩ := by
      apply V3.ext_get
      intro i hi
      rw [Polytri.restVec_get]
      cases3 i <;>
        (simp [sumEdges, cycleEdges_eq, exStuck, Polytri.crossPhi, V3.cross, V3.get] <;> norm_num)
    rw [hv]
    norm_num [V3.dot, Scalar.lit]

/-! ### deepening round: the ear clipping's output is a partition of the face (count = winding number) -/

/-- **C02 ear clipping: number of triangles containing a point = winding number of the polygon.**
`R` is any frame for the polygon's unit normal `n` (a negative multiple of the Newell vector), `g` rotates
into that frame and drops `z` — what `Polygon.is_inside` does. For every point `p` on none of the closed
edges of the emitted triangles, the number of triangles strictly containing `p` equals the winding number
`Polygon.is_inside` computes for the polygon about `p`. So for a simple polygon (winding number 1 inside, 0
outside) exactly one triangle contains each interior point and none an exterior one: the `n − 2` triangles
do not overlap and cover exactly the face. -/
theorem polytri_count_eq_winding (poly : List (V3 ℝ)) (tris : List (Tri ℝ))
    (h : Polytri.triangulate poly = .ok tris) (hcount : poly.length ≤ tris.length + 2)
    {R : M3 ℝ} {n : V3 ℝ} {k : ℝ} (hR : Inside2D.IsFrame R n) (hk : k < 0)
    (hn : n = V3.smul k (Polytri.newell poly)) (p : Inside2D.P2 ℝ)
    (hoff : ∀ t ∈ tris, Spec.In2D.onBoundary
      (Polytri.proj2 (fun v => Inside2D.proj (Inside2D.rotate R v)) t) p = false) :
    Inside2D.Polygon.windingNumber (poly.map fun v => Inside2D.proj (Inside2D.rotate R v)) p
      = (Spec.In2D.count (tris.map (Polytri.proj2 fun v => Inside2D.proj (Inside2D.rotate R v))) p : Int) := by
  apply Polytri.count_eq_winding _ p poly tris (polytri_triangulates poly tris h hcount) _ hoff
  intro t ht
  rw [Inside2D.orient_rotate hR]
  have := polytri_positive poly tris h hk hn t ht
  simp only [one_mul, Spec3.triArea, Scalar.lit, Scalar.ofNat_real] at this
  unfold Spec.In2D.orient3
  push_cast at this
  linarith

/-- no two emitted triangles overlap where the polygon winds once -/
theorem polytri_no_overlap (poly : List (V3 ℝ)) (tris : List (Tri ℝ))
    (h : Polytri.triangulate poly = .ok tris) (hcount : poly.length ≤ tris.length + 2)
    {R : M3 ℝ} {n : V3 ℝ} {k : ℝ} (hR : Inside2D.IsFrame R n) (hk : k < 0)
    (hn : n = V3.smul k (Polytri.newell poly)) (p : Inside2D.P2 ℝ)
    (hoff : ∀ t ∈ tris, Spec.In2D.onBoundary
      (Polytri.proj2 (fun v => Inside2D.proj (Inside2D.rotate R v)) t) p = false)
    (hw : Inside2D.Polygon.windingNumber (poly.map fun v => Inside2D.proj (Inside2D.rotate R v)) p ≤ 1) :
    Spec.In2D.count (tris.map (Polytri.proj2 fun v => Inside2D.proj (Inside2D.rotate R v))) p ≤ 1 := by
  have := polytri_count_eq_winding poly tris h hcount hR hk hn p hoff
  omega

theorem frame_id_z : Inside2D.IsFrame (⟨1, 0, 0, 0, 1, 0, 0, 0, 1⟩ : M3 ℝ) ⟨0, 0, 1⟩ := by
  refine ⟨⟨?_, ?_, ?_, ?_, ?_, ?_⟩, ?_, ?_⟩ <;> norm_num [Inside2D.det3, Inside2D.rotate]

/-- non-vacuity: the unit square, the point `(1/2, 1/3)` -/
example : Inside2D.Polygon.windingNumber
      (exSq.map fun v => Inside2D.proj (Inside2D.rotate (⟨1, 0, 0, 0, 1, 0, 0, 0, 1⟩ : M3 ℝ) v)) ⟨1/2, 1/3⟩
    = (Spec.In2D.count (exSqT.map (Polytri.proj2 fun v =>
        Inside2D.proj (Inside2D.rotate (⟨1, 0, 0, 0, 1, 0, 0, 0, 1⟩ : M3 ℝ) v))) ⟨1/2, 1/3⟩ : Int) := by
  apply polytri_count_eq_winding exSq exSqT polytri_exSq (by simp [exSq, exSqT]) frame_id_z
    (k := -1/2) (by norm_num) (by rw [newell_exSq]; ext <;> simp [V3.smul])
  intro t ht
  simp only [exSqT, List.mem_cons, List.not_mem_nil, or_false] at ht
  rcases ht with rfl | rfl <;>
    norm_num [Polytri.proj2, Inside2D.proj, Inside2D.rotate, Spec.In2D.onBoundary, Spec.In2D.onSegment,
      Spec.In2D.orient, Spec.In2D.dot2, Scalar.lit, Scalar.eqb]

end
