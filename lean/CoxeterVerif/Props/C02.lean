import CoxeterVerif.Lemmas.Polyhedron
import CoxeterVerif.Lemmas.PolytriBoundary
import CoxeterVerif.Props.C04
/-!
  # C02 — general (non-convex) polyhedron volume, centroid, inertia are exact

  `S`  : the surface triangulation the Python integrates over (polytri output of every face);
  `Ts` : ANY tetrahedralisation of the solid with boundary chain `S` — the solid may be convex,
         star-shaped, U/C-shaped or of genus 1; nothing is assumed about visibility from a point.
-/
open Scalar
set_option maxRecDepth 8000
noncomputable section

theorem eb_vol_sum {S : List (Tri ℝ)} {Ts : List (Tet ℝ)} (h : ChainEq S (Ts.flatMap Tet.bdry)) :
    Scalar.sum (S.map fun t => (Poly3.eberlyTerm t).1) = 6 * Spec.vol Ts := by
  have := sumOver_bdry ebVolPhi_oddCyclic ebVolPhi_tet h
  rw [Spec.vol_eq, ← list_sum_map_mul, ← this]
  simp only [Scalar.sum_real, sumOver]; rfl

theorem eb_cen_sum {S : List (Tri ℝ)} {Ts : List (Tet ℝ)} (h : ChainEq S (Ts.flatMap Tet.bdry))
    (i : Nat) (hi : i < 3) :
    (V3.sum (S.map fun t => (Poly3.eberlyTerm t).2)).get i = 24 * (Spec.first Ts).get i := by
  have := sumOver_bdry (ebCenPhi_oddCyclic i hi) (ebCenPhi_tet i hi) h
  rw [first_get Ts i hi, ← list_sum_map_mul, ← this]
  cases3 i
  · simp only [V3.get_zero, V3.sum_x, sumOver, List.map_map]; rfl
  · simp only [V3.get_one, V3.sum_y, sumOver, List.map_map]; rfl
  · simp only [V3.get_two, V3.sum_z, sumOver, List.map_map]; rfl

/-- **C02 centroid (Eberly).** For every closed surface that bounds a tetrahedralised solid of
non-zero volume — convex or not, star-shaped or not, any genus — the mesh centroid formula
returns first moment / volume. -/
theorem poly_centroid_exact {S : List (Tri ℝ)} {Ts : List (Tet ℝ)}
    (h : ChainEq S (Ts.flatMap Tet.bdry)) (hv : Spec.vol Ts ≠ 0) :
    Poly3.centroid S = Spec.centroid Ts := by
  apply V3.ext_get
  intro i hi
  have hc := eb_cen_sum h i hi
  have hvol := eb_vol_sum h
  unfold Poly3.centroid Spec.centroid
  cases3 i <;>
    simp only [V3.get_zero, V3.get_one, V3.get_two, V3.sdiv_x, V3.sdiv_y, V3.sdiv_z, Scalar.lit,
      Scalar.ofNat_real] at hc ⊢ <;>
    rw [hc, hvol] <;> push_cast <;> field_simp <;> ring

/-! ### inertia (Kallay, signed determinants) -/

theorem kal_sum {S : List (Tri ℝ)} {Ts : List (Tet ℝ)} (c : V3 ℝ)
    (h : ChainEq S (Ts.flatMap Tet.bdry)) (i j : Nat) (hi : i < 3) (hj : j < 3) :
    sumOver (kalPhi i j) (S.map (Tri.map (· - c))) = Spec.second (Ts.map (Tet.map (· - c))) i j := by
  have hch := ChainEq.map (· - c) h
  rw [← flatMap_bdry_map] at hch
  rw [sumOver_bdry (kalPhi_oddCyclic i j hi hj) (kalPhi_tet i j hi hj) hch, Spec.second_eq]

theorem zipWith_map_self {β γ : Type} (f : β → γ) (g : γ → β → ℝ) (l : List β) :
    List.zipWith g (l.map f) l = l.map fun t => g (f t) t := by
  induction l with
  | nil => rfl
  | cons a l ih => simp [ih]

theorem kallay_add (w : ℝ) (t : Tri ℝ) (f g : V3 ℝ → ℝ) :
    Poly3.kallay w t (fun p => f p + g p) = Poly3.kallay w t f + Poly3.kallay w t g := by
  unfold Poly3.kallay; ring

theorem kallay_negmul (w : ℝ) (t : Tri ℝ) (f g : V3 ℝ → ℝ) :
    Poly3.kallay w t (fun p => -(f p) * g p) = -Poly3.kallay w t (fun p => f p * g p) := by
  unfold Poly3.kallay; ring

theorem kallay_sum_add (L : List (Tri ℝ)) (w : Tri ℝ → ℝ) (f g : V3 ℝ → ℝ) :
    (L.map fun t => Poly3.kallay (w t) t (fun p => f p + g p)).sum
      = (L.map fun t => Poly3.kallay (w t) t f).sum + (L.map fun t => Poly3.kallay (w t) t g).sum := by
  simp only [kallay_add]
  induction L with
  | nil => simp
  | cons a L ih => simp only [List.map_cons, List.sum_cons, ih]; ring

theorem kallay_sum_negmul (L : List (Tri ℝ)) (w : Tri ℝ → ℝ) (f g : V3 ℝ → ℝ) :
    (L.map fun t => Poly3.kallay (w t) t (fun p => -(f p) * g p)).sum
      = -(L.map fun t => Poly3.kallay (w t) t (fun p => f p * g p)).sum := by
  simp only [kallay_negmul]
  induction L with
  | nil => simp
  | cons a L ih => simp only [List.map_cons, List.sum_cons, ih]; ring

/-- sum of the Kallay terms of the monomial `x_i x_j` with signed determinants -/
def K (L : List (Tri ℝ)) (i j : Nat) : ℝ :=
  (L.map fun t => Poly3.kallay (V3.det3 t.a t.b t.c / lit 6) t (fun p => p.get i * p.get j)).sum

theorem K_eq_sumOver (L : List (Tri ℝ)) (i j : Nat) : K L i j = sumOver (kalPhi i j) L := rfl

/-- the model's centred tensor, for an outward oriented surface, in terms of the six sums `K` -/
theorem inertiaCentred_eq (S : List (Tri ℝ)) (c : V3 ℝ)
    (hpos : 0 < CP.signedVolume (S.map (Tri.map (· - c)))) :
    Poly3.inertiaCentred S c =
      let L := S.map (Tri.map (· - c))
      ⟨K L 1 1 + K L 2 2, -(K L 0 1), -(K L 0 2),
       -(K L 0 1), K L 0 0 + K L 2 2, -(K L 1 2),
       -(K L 0 2), -(K L 1 2), K L 0 0 + K L 1 1⟩ := by
  have hpos' : lit 0 < Scalar.sum ((S.map (Tri.map (· - c))).map fun t => V3.det3 t.a t.b t.c / lit 6) := by
    simpa [CP.signedVolume, Scalar.lit] using hpos
  unfold Poly3.inertiaCentred
  simp only [if_pos hpos']
  set L := S.map (Tri.map (· - c)) with hL
  have hz : ∀ f : V3 ℝ → ℝ,
      Scalar.sum (List.zipWith (fun v t => Poly3.kallay (v * lit 1) t f)
        (L.map fun t => V3.det3 t.a t.b t.c / lit 6) L)
      = (L.map fun t => Poly3.kallay (V3.det3 t.a t.b t.c / lit 6) t f).sum := by
    intro f
    rw [Scalar.sum_real, zipWith_map_self]
    congr 1
    apply List.map_congr_left
    intro t _
    simp only [Scalar.lit, Scalar.ofNat_real]; push_cast; rw [mul_one]
  simp only [hz]
  have a_xx := kallay_sum_add L (fun t => V3.det3 t.a t.b t.c / lit 6) (fun p => p.y * p.y) (fun p => p.z * p.z)
  have a_yy := kallay_sum_add L (fun t => V3.det3 t.a t.b t.c / lit 6) (fun p => p.x * p.x) (fun p => p.z * p.z)
  have a_zz := kallay_sum_add L (fun t => V3.det3 t.a t.b t.c / lit 6) (fun p => p.x * p.x) (fun p => p.y * p.y)
  have n_xy := kallay_sum_negmul L (fun t => V3.det3 t.a t.b t.c / lit 6) (fun p => p.x) (fun p => p.y)
  have n_xz := kallay_sum_negmul L (fun t => V3.det3 t.a t.b t.c / lit 6) (fun p => p.x) (fun p => p.z)
  have n_yz := kallay_sum_negmul L (fun t => V3.det3 t.a t.b t.c / lit 6) (fun p => p.y) (fun p => p.z)
  rw [a_xx, a_yy, a_zz, n_xy, n_xz, n_yz]
  simp only [K, V3.get_zero, V3.get_one, V3.get_two]

/-- **C02 inertia tensor (Kallay).** For every outward oriented closed surface bounding a
tetrahedralised solid of positive volume, the signed-tetrahedron integration about the centroid,
shifted by the parallel-axis theorem, is the exact inertia tensor about the origin. No
star-shapedness is needed (this is what the absolute value in the unrepaired code broke). -/
theorem poly_inertia_exact {S : List (Tri ℝ)} {Ts : List (Tet ℝ)}
    (h : ChainEq S (Ts.flatMap Tet.bdry)) (hpos : 0 < Spec.vol Ts) :
    Poly3.inertia S (Spec.centroid Ts) (Spec.vol Ts) = Spec.inertia Ts := by
  have hv : Spec.vol Ts ≠ 0 := hpos.ne'
  have htot : CP.signedVolume (S.map (Tri.map (· - Spec.centroid Ts))) = Spec.vol Ts := by
    have hch := ChainEq.map (· - Spec.centroid Ts) h
    rw [← flatMap_bdry_map] at hch
    rw [signedVolume_chain hch, vol_translate]
  have k := fun i j hi hj => kal_sum (Spec.centroid Ts) h i j hi hj
  have s := fun i j hi hj => second_centred Ts i j hi hj hv
  unfold Poly3.inertia CP.translateInertia
  rw [inertiaCentred_eq S _ (by rw [htot]; exact hpos)]
  simp only [K_eq_sumOver, k 0 0 (by omega) (by omega), k 1 1 (by omega) (by omega),
    k 2 2 (by omega) (by omega), k 0 1 (by omega) (by omega), k 0 2 (by omega) (by omega),
    k 1 2 (by omega) (by omega), s 0 0 (by omega) (by omega), s 1 1 (by omega) (by omega),
    s 2 2 (by omega) (by omega), s 0 1 (by omega) (by omega), s 0 2 (by omega) (by omega),
    s 1 2 (by omega) (by omega)]
  apply M3.ext' <;> simp only [Spec.inertia, V3.dot, V3.get_zero, V3.get_one, V3.get_two, Scalar.lit,
    Scalar.ofNat_real] <;> push_cast <;> ring

/-! ### volume = Σ (−d_i)·A_i / 3 -/

/-- one face as the volume formula sees it: plane offset `d`, reported area `A`, unit normal `n`,
and a fan `F` of triangles covering the face. -/
structure FaceData where
  n : V3 ℝ
  d : ℝ
  A : ℝ
  F : List (Tri ℝ)

/-- the face is planar with exact normal and area: every fan triangle's normal vector is a
multiple `λ_t • n` of the stored normal, its first vertex lies on the plane `n·v + d = 0`, and
the multiples add up to twice the reported area. -/
structure FaceData.Exact (f : FaceData) : Prop where
  lam : ∃ lam : Tri ℝ → ℝ, (∀ t ∈ f.F, t.nvec = V3.smul (lam t) f.n ∧ V3.dot f.n t.a + f.d = 0) ∧
          (f.F.map lam).sum = 2 * f.A

theorem det_eq_dot_nvec (t : Tri ℝ) : V3.det3 t.a t.b t.c = V3.dot t.a t.nvec := by
  obtain ⟨⟨ax,ay,az⟩,⟨bx,b_y,bz⟩,⟨cx,cy,cz⟩⟩ := t
  unfold_model; ring

/-- **C02 volume.** If every face is planar with exact unit normal and exact area (C04 in the
face's plane), then `Σ(−d_i)A_i/3` is the signed-tetrahedron volume of the surface, hence (by
`cp_volume_exact`) the exact volume of any solid it bounds. -/
theorem poly_volume_exact (faces : List FaceData) (hex : ∀ f ∈ faces, f.Exact) :
    Poly3.volume (faces.map fun f => (f.d, f.A)) = CP.signedVolume (faces.flatMap (·.F)) := by
  unfold Poly3.volume CP.signedVolume
  simp only [Scalar.sum_real, List.map_map, Scalar.lit, Scalar.ofNat_real]
  induction faces with
  | nil => simp
  | cons f fs ih =>
    have ih' := ih (fun g hg => hex g (List.mem_cons_of_mem _ hg))
    simp only [List.map_cons, List.sum_cons, List.flatMap_cons, List.map_append, List.sum_append,
      Function.comp] at ih' ⊢
    obtain ⟨lam, hl, hsum⟩ := (hex f (List.mem_cons_self)).lam
    have hface : (f.F.map fun t => V3.det3 t.a t.b t.c / ((6:ℕ):ℝ)).sum = (-f.d) * f.A / 3 := by
      have : ∀ t ∈ f.F, V3.det3 t.a t.b t.c / ((6:ℕ):ℝ) = (-f.d) / 6 * lam t := by
        intro t ht
        obtain ⟨h1, h2⟩ := hl t ht
        rw [det_eq_dot_nvec, h1]
        simp only [V3.dot, V3.smul_x, V3.smul_y, V3.smul_z] at h2 ⊢
        push_cast
        have : t.a.x * f.n.x + t.a.y * f.n.y + t.a.z * f.n.z = -f.d := by linarith
        calc (t.a.x * (lam t * f.n.x) + t.a.y * (lam t * f.n.y) + t.a.z * (lam t * f.n.z)) / 6
            = lam t * (t.a.x * f.n.x + t.a.y * f.n.y + t.a.z * f.n.z) / 6 := by ring
          _ = -f.d / 6 * lam t := by rw [this]; ring
      rw [List.map_congr_left this, list_sum_map_mul, hsum]; ring
    rw [hface]
    have : ((-f.d) * f.A + (fs.map fun f => (-f.d) * f.A).sum) / ((3:ℕ):ℝ)
        = (-f.d) * f.A / 3 + (fs.map fun f => (-f.d) * f.A).sum / ((3:ℕ):ℝ) := by push_cast; ring
    rw [← ih']; push_cast; ring

/-! ### non-vacuity -/

def exTetC02 : Tet ℝ := ⟨⟨1,1,1⟩, ⟨2,1,1⟩, ⟨1,2,1⟩, ⟨1,1,2⟩⟩

example : ChainEq exTetC02.bdry ([exTetC02].flatMap Tet.bdry) ∧ 0 < Spec.vol [exTetC02] := by
  constructor
  · simpa using ChainEq.refl _
  · unfold Spec.vol Spec.tetVol exTetC02; unfold_model; norm_num

/-! ### the surface triangulation: `polytri.triangulate` output bounds the face polygon

  `Polytri.triangulate` is the executable model of `coxeter/extern/polytri/polytri.py::triangulate`
  (compared triangle by triangle with the Python on every check run). The theorems below hold for
  polygons with ANY number of vertices: they are proved by induction on the fuel of the ear
  clipping loop (`Polytri.loop_boundary` in `Lemmas/PolytriBoundary.lean`).
-/

/-- **C02 ear clipping, boundary chain (with vertex count).** Whenever the ear clipping succeeds,
the directed boundary of the emitted triangles plus the edge cycle of the leftover vertices `rest`
is chain-equal to the polygon's own directed edge cycle. The leftover is either at most two
vertices (regular exit) or satisfies the model's degenerate-remainder exit test (no ear left and
`|Σ p_k × p_{k+1}|² ≤ 1e-12 |normal|²`). Every clipped vertex accounts for at most one triangle,
and `rest` is a sub-list of the polygon's vertices (at least two of them if the polygon has two). -/
theorem polytri_boundary_count (poly : List (V3 ℝ)) (tris : List (Tri ℝ))
    (h : Polytri.triangulate poly = .ok tris) :
    ∃ rest : List (V3 ℝ),
      EdgeChainEq (cycleEdges poly) (tris.flatMap triEdges ++ cycleEdges rest) ∧
      (rest.length ≤ 2 ∨ Polytri.restDegenerate (Polytri.newell poly) rest) ∧
      tris.length + rest.length ≤ poly.length ∧
      (2 ≤ poly.length → 2 ≤ rest.length) ∧
      rest.Sublist poly := by
  unfold Polytri.triangulate at h
  simp only [] at h
  split_ifs at h
  obtain ⟨new, rest, hnew, hp⟩ := Polytri.loop_boundary _ _ _ _ _ _ h
  simp only [List.reverse_nil, List.nil_append] at hnew
  subst hnew
  exact ⟨rest, hp.chain, hp.exit, hp.count, hp.two, hp.sub⟩

/-- **C02 ear clipping, boundary chain.** -/
theorem polytri_boundary (poly : List (V3 ℝ)) (tris : List (Tri ℝ))
    (h : Polytri.triangulate poly = .ok tris) :
    ∃ rest : List (V3 ℝ),
      EdgeChainEq (cycleEdges poly) (tris.flatMap triEdges ++ cycleEdges rest) ∧
      (rest.length ≤ 2 ∨ Polytri.restDegenerate (Polytri.newell poly) rest) := by
  obtain ⟨rest, h1, h2, _⟩ := polytri_boundary_count poly tris h
  exact ⟨rest, h1, h2⟩

/-- an `n`-gon yields at most `n − 2` triangles -/
theorem polytri_length_le (poly : List (V3 ℝ)) (tris : List (Tri ℝ))
    (h : Polytri.triangulate poly = .ok tris) : tris.length ≤ poly.length - 2 := by
  unfold Polytri.triangulate at h
  simp only [] at h
  split_ifs at h
  obtain ⟨new, rest, hnew, hp⟩ := Polytri.loop_boundary _ _ _ _ _ _ h
  simp only [List.reverse_nil, List.nil_append] at hnew
  subst hnew
  exact hp.le

/-- a leftover of at most two vertices is the zero chain: `(a,b),(b,a)` cancel and the loop edge
`(a,a)` has odd-functional value 0 -/
theorem triangulates_of_short_rest {poly rest : List (V3 ℝ)} {tris : List (Tri ℝ)}
    (h : EdgeChainEq (cycleEdges poly) (tris.flatMap triEdges ++ cycleEdges rest))
    (hr : rest.length ≤ 2) : Triangulates poly tris := by
  have := h.trans (EdgeChainEq.append_left _ (cycleEdges_short hr))
  simpa [Triangulates] using this

/-- **C02 ear clipping triangulates the face.** If the ear clipping of an `n`-gon succeeds with
`n − 2` triangles (the regular exit: no degenerate remainder, no duplicate vertex skipped), then
the triangles' boundary chain IS the polygon's edge cycle — the hypothesis `Triangulates` of the
C04 area/centroid/moment theorems, and (face by face) the surface chain `S` the volume, centroid
and inertia theorems above integrate over. -/
theorem polytri_triangulates (poly : List (V3 ℝ)) (tris : List (Tri ℝ))
    (h : Polytri.triangulate poly = .ok tris) (hn : poly.length ≤ tris.length + 2) :
    Triangulates poly tris := by
  obtain ⟨rest, hc, _, hcount, _, _⟩ := polytri_boundary_count poly tris h
  exact triangulates_of_short_rest hc (by omega)

/-- **C02 ear clipping preserves the vector area up to the exit tolerance.** In every successful
run (regular or degenerate-remainder exit) the polygon's `Σ p × q` over its edge cycle equals the
sum of the emitted triangles' `Σ p × q` (twice their vector areas) plus a defect `d` with
`|d|² ≤ 1e-12 |normal|²`; `d = 0` on the regular exit. -/
theorem polytri_area_defect (poly : List (V3 ℝ)) (tris : List (Tri ℝ))
    (h : Polytri.triangulate poly = .ok tris) :
    ∃ d : V3 ℝ,
      (∀ c, sumEdges (Polytri.crossPhi c) (cycleEdges poly)
          = (tris.map fun t => sumEdges (Polytri.crossPhi c) (triEdges t)).sum + d.get c) ∧
      V3.dot d d ≤ (lit 1 / lit 1000000000000) * V3.dot (Polytri.newell poly) (Polytri.newell poly) := by
  obtain ⟨rest, hc, hex⟩ := polytri_boundary poly tris h
  have key : ∀ c, sumEdges (Polytri.crossPhi c) (cycleEdges poly)
      = (tris.map fun t => sumEdges (Polytri.crossPhi c) (triEdges t)).sum
        + sumEdges (Polytri.crossPhi c) (cycleEdges rest) := by
    intro c
    rw [hc _ (Polytri.crossPhi_odd c), sumEdges_append, sumEdges_flatMap]
  rcases hex with hshort | hdeg
  · refine ⟨V3.zero, fun c => ?_, ?_⟩
    · rw [key c, cycleEdges_short hshort _ (Polytri.crossPhi_odd c)]
      simp only [V3.get, V3.zero, Scalar.lit, Scalar.ofNat_real]; split_ifs <;> simp [sumEdges]
    · have : 0 ≤ V3.dot (Polytri.newell poly) (Polytri.newell poly) := by
        simp only [V3.dot]; nlinarith [mul_self_nonneg (Polytri.newell poly).x,
          mul_self_nonneg (Polytri.newell poly).y, mul_self_nonneg (Polytri.newell poly).z]
      simp only [V3.dot, V3.zero, Scalar.lit, Scalar.ofNat_real] at this ⊢
      push_cast; nlinarith
  · exact ⟨Polytri.restVec rest, fun c => by rw [key c, Polytri.restVec_get], hdeg⟩

theorem crossPhi_tri (t : Tri ℝ) (c : Nat) :
    sumEdges (Polytri.crossPhi c) (triEdges t) = t.nvec.get c := by
  obtain ⟨⟨ax, ay, az⟩, ⟨bx, b_y, bz⟩, ⟨cx, cy, cz⟩⟩ := t
  simp only [sumEdges, triEdges, Polytri.crossPhi, Tri.nvec, V3.cross, V3.get, List.map_cons,
    List.map_nil, List.sum_cons, List.sum_nil, V3.sub_x, V3.sub_y, V3.sub_z]
  split_ifs <;> ring

/-- **C02 ear clipping preserves the Newell normal (vector area).** In every successful run the
triangle normal vectors `(b−a)×(c−a)` (twice the vector areas) add up to minus the Newell vector
`calculate_normal_3d` computed for the polygon (which is `−Σ p_k × p_{k+1}`), up to a defect `d`
with `|d|² ≤ 1e-12 |normal|²` — the tolerance of the degenerate-remainder exit. -/
theorem polytri_normal_preserved (poly : List (V3 ℝ)) (tris : List (Tri ℝ))
    (h : Polytri.triangulate poly = .ok tris) :
    ∃ d : V3 ℝ,
      (∀ c, (tris.map fun t => t.nvec.get c).sum + d.get c = -(Polytri.newell poly).get c) ∧
      V3.dot d d ≤ (lit 1 / lit 1000000000000) * V3.dot (Polytri.newell poly) (Polytri.newell poly) := by
  obtain ⟨d, hd, hb⟩ := polytri_area_defect poly tris h
  refine ⟨d, fun c => ?_, hb⟩
  rw [Polytri.newell_get, neg_neg, hd c]
  simp only [crossPhi_tri]

/-- on the regular exit (`n − 2` triangles) the normal is preserved exactly -/
theorem polytri_normal_exact (poly : List (V3 ℝ)) (tris : List (Tri ℝ))
    (h : Polytri.triangulate poly = .ok tris) (hn : poly.length ≤ tris.length + 2) (c : Nat) :
    (tris.map fun t => t.nvec.get c).sum = -(Polytri.newell poly).get c := by
  have ht := polytri_triangulates poly tris h hn
  rw [Polytri.newell_get, neg_neg, ht _ (Polytri.crossPhi_odd c), sumEdges_flatMap]
  simp only [crossPhi_tri]

/-! #### non-vacuity: the model's ear clipping of the unit square, evaluated over ℝ -/

theorem newell_exSq : Polytri.newell exSq = ⟨0, 0, -2⟩ := by
  simp [Polytri.newell, Polytri.newell.go, exSq, V3.zero, Scalar.lit]
  norm_num

theorem polytri_exSq_step1 (fuel : Nat) :
    Polytri.loop (⟨0, 0, -2⟩ : V3 ℝ) (fuel + 1) #[⟨0,0,0⟩, ⟨1,0,0⟩, ⟨1,1,0⟩, ⟨0,1,0⟩] 0 []
      = Polytri.loop ⟨0, 0, -2⟩ fuel #[⟨0,0,0⟩, ⟨1,1,0⟩, ⟨0,1,0⟩] 0 [⟨⟨0,0,0⟩, ⟨1,0,0⟩, ⟨1,1,0⟩⟩] := by
  rw [Polytri.loop]
  simp only [Nat.zero_add, Polytri.getLoop4, Polytri.others4, List.size_toArray, List.length_cons,
    List.length_nil]
  rw [Polytri.erase4]
  norm_num [Polytri.veq, Polytri.anyPointInTriangle, V3.cross, V3.dot, V3.det3, Scalar.lit, Scalar.eqb]

theorem polytri_exSq_step2 (fuel : Nat) (acc : List (Tri ℝ)) :
    Polytri.loop (⟨0, 0, -2⟩ : V3 ℝ) (fuel + 1) #[⟨0,0,0⟩, ⟨1,1,0⟩, ⟨0,1,0⟩] 0 acc
      = Polytri.loop ⟨0, 0, -2⟩ fuel #[⟨0,0,0⟩, ⟨0,1,0⟩] 0 (⟨⟨0,0,0⟩, ⟨1,1,0⟩, ⟨0,1,0⟩⟩ :: acc) := by
  rw [Polytri.loop]
  simp only [Nat.zero_add, Polytri.getLoop3, Polytri.others3, List.size_toArray, List.length_cons,
    List.length_nil]
  rw [Polytri.erase3]
  norm_num [Polytri.veq, Polytri.anyPointInTriangle, V3.cross, V3.dot, V3.det3, Scalar.lit, Scalar.eqb]

/-- the model clips the counter-clockwise unit square into the fan `exSqT` of C04 -/
theorem polytri_exSq : Polytri.triangulate exSq = .ok exSqT := by
  unfold Polytri.triangulate
  simp only [newell_exSq]
  have hd : Polytri.degenerate exSq (⟨0, 0, -2⟩ : V3 ℝ) = false := by
    simp [Polytri.degenerate, Polytri.edgeSq, Polytri.edgeSq.go, exSq, V3.dot, Scalar.lit]
    norm_num
  rw [hd]
  simp only [exSq, List.length_cons, List.length_nil]
  norm_num only
  rw [show (32 : Nat) = 29 + 1 + 1 + 1 from rfl, polytri_exSq_step1, polytri_exSq_step2, Polytri.loop]
  simp [exSqT]

/-- hypotheses of `polytri_boundary`, `polytri_length_le`, `polytri_triangulates` are met -/
example : Polytri.triangulate exSq = .ok exSqT ∧ exSq.length ≤ exSqT.length + 2 :=
  ⟨polytri_exSq, by simp [exSq, exSqT]⟩

example : Triangulates exSq exSqT :=
  polytri_triangulates _ _ polytri_exSq (by simp [exSq, exSqT])

end
