import CoxeterVerif.Lemmas.Steiner
/-!
  # C11 — rounded shapes obey the Steiner formulas; curvature descriptors match their definitions

  All statements are over ℝ and for ALL core data: any list `es` of edges `(L, φ)` (any number of
  them, any lengths, any angles), any core volume `V`, area `S`, polygon vertex list `vs`, signed
  core area `a`, and any radius `r` (`r ≥ 0` is needed only for the planar `area = |·|`).
  `M` is always the MODEL'S OWN `CP.meanCurvatureOf` of the same edge list, i.e. what
  `ConvexPolyhedron.mean_curvature` computes; the right-hand sides are the independent definitions
  of `Spec/Steiner.lean`.

  Trusted (not proved here): Steiner's theorem itself and `∫H dA = ½ Σ L·(π − φ)` for a convex
  polytope — both recorded in `Spec/Steiner.lean`.  With C01 (`V`, `S` exact) they are the only
  unproved ingredients of the property.
-/
open Scalar Steiner
set_option linter.unnecessarySeqFocus false
noncomputable section

/-! ### convex polyhedron: mean curvature and dihedral angle -/

/-- **mean_curvature = Σ L·(exterior angle) / 8π**, i.e. the normalised `(½ Σ L θ)/(4π)` of the spec. -/
theorem cp_mean_curvature_def (es : List (ℝ × ℝ)) :
    CP.meanCurvatureOf es = SteinerSpec.meanCurvature es := by
  rw [meanCurvatureOf_eq]
  unfold SteinerSpec.meanCurvature SteinerSpec.normalise SteinerSpec.integratedMeanCurvature
  rw [spec_edgeSum_eq]
  simp only [Scalar.lit, Scalar.ofNat_real, Scalar.pi_real]
  have := pi_ne_zero
  push_cast; field_simp; ring

/-- the code's dihedral angle is `π − arccos(n₁·n₂)` for ALL normals (no unit hypothesis) -/
theorem dihedral_arccos (n1 n2 : V3 ℝ) :
    CP.dihedralAngle n1 n2 = Real.pi - Real.arccos (V3.dot n1 n2) := by
  unfold CP.dihedralAngle
  have h : V3.dot (-n1) n2 = -(V3.dot n1 n2) := by
    simp only [V3.dot, V3.neg_x, V3.neg_y, V3.neg_z]; ring
  rw [h, Scalar.acos_real, arccos_clip, Real.arccos_neg]

/-- **get_dihedral = π − ∠(n₁, n₂)** for unit normals (what `_equations[:, :3]` holds). -/
theorem dihedral_def (n1 n2 : V3 ℝ) (h1 : V3.norm n1 = 1) (h2 : V3.norm n2 = 1) :
    CP.dihedralAngle n1 n2 = SteinerSpec.dihedral n1 n2 := by
  rw [dihedral_arccos]
  unfold SteinerSpec.dihedral SteinerSpec.angle
  rw [h1, h2]; simp

/-- `get_dihedral(a, b)` returns the angle exactly when `b ∈ neighbors[a]` … -/
theorem getDihedral_ok (normals : List (V3 ℝ)) (nb : List (List Nat)) (a b : Nat) (na : List Nat)
    (n1 n2 : V3 ℝ) (hna : nb[a]? = some na) (hb : b ∈ na) (h1 : normals[a]? = some n1)
    (h2 : normals[b]? = some n2) :
    CP.getDihedral normals nb a b = .ok (CP.dihedralAngle n1 n2) := by
  unfold CP.getDihedral
  simp only [hna, h1, h2, List.contains_iff_mem.mpr hb]
  rfl

/-- … and raises `ValueError` on a pair of faces that are not neighbours. -/
theorem getDihedral_raises (normals : List (V3 ℝ)) (nb : List (List Nat)) (a b : Nat) (na : List Nat)
    (hna : nb[a]? = some na) (hb : b ∉ na) :
    CP.getDihedral normals nb a b = .error "ValueError" := by
  unfold CP.getDihedral
  have : na.contains b = false := by
    cases h : na.contains b with
    | false => rfl
    | true => exact absurd (List.contains_iff_mem.mp h) hb
  simp only [hna, this]
  rfl

/-! ### spheropolyhedron -/

/-- **Steiner volume.** `volume = V + S r + 4π M r² + (4/3)π r³`. -/
theorem sphero_volume_steiner (V S r : ℝ) (es : List (ℝ × ℝ)) :
    SpheroPolyhedron.volumeOf V S r es
      = SteinerSpec.statedVolume V S (CP.meanCurvatureOf es) r := by
  unfold SpheroPolyhedron.volumeOf SteinerSpec.statedVolume
  rw [vCyl_eq, meanCurvatureOf_eq]
  simp only [Scalar.lit, Scalar.q, Scalar.cube, Scalar.ofNat_real, Scalar.pi_real]
  have := pi_ne_zero
  push_cast; field_simp; ring

/-- **Steiner surface area.** `surface_area = S + 8π M r + 4π r²`. -/
theorem sphero_area_steiner (S r : ℝ) (es : List (ℝ × ℝ)) :
    SpheroPolyhedron.surfaceAreaOf S r es
      = SteinerSpec.statedArea S (CP.meanCurvatureOf es) r := by
  unfold SpheroPolyhedron.surfaceAreaOf SteinerSpec.statedArea
  rw [aCyl_eq, meanCurvatureOf_eq]
  simp only [Scalar.lit, Scalar.sqr, Scalar.ofNat_real, Scalar.pi_real]
  have := pi_ne_zero
  push_cast; field_simp; ring

/-- **mean curvature of the rounded solid** `= M + r`. -/
theorem sphero_mean_curvature (r : ℝ) (es : List (ℝ × ℝ)) :
    SpheroPolyhedron.meanCurvatureOf r es
      = SteinerSpec.statedMeanCurvature (CP.meanCurvatureOf es) r := rfl

/-- the property's polynomials in `M` are Steiner's classical ones in `H = ∫H dA = 4π M`
(so the spec's constants `4π`, `8π`, `4/3 π` are the classical `1`, `2`, `4π/3`) -/
theorem stated_eq_classical (V S H r : ℝ) :
    SteinerSpec.statedVolume V S (SteinerSpec.normalise H) r = SteinerSpec.steinerVolume V S H r ∧
    SteinerSpec.statedArea S (SteinerSpec.normalise H) r = SteinerSpec.steinerArea S H r ∧
    SteinerSpec.statedMeanCurvature (SteinerSpec.normalise H) r
      = SteinerSpec.normalise (SteinerSpec.steinerIntegratedMeanCurvature H r) := by
  have := pi_ne_zero
  refine ⟨?_, ?_, ?_⟩ <;>
    simp only [SteinerSpec.statedVolume, SteinerSpec.steinerVolume, SteinerSpec.statedArea,
      SteinerSpec.steinerArea, SteinerSpec.statedMeanCurvature, SteinerSpec.normalise,
      SteinerSpec.steinerIntegratedMeanCurvature, Scalar.lit, Scalar.ofNat_real, Scalar.pi_real] <;>
    push_cast <;> field_simp <;> ring

/-- Steiner volume/area/curvature in the classical form, `H = ½ Σ L(π−φ)` of the same edges -/
theorem sphero_steiner_classical (V S r : ℝ) (es : List (ℝ × ℝ)) :
    SpheroPolyhedron.volumeOf V S r es
        = SteinerSpec.steinerVolume V S (SteinerSpec.integratedMeanCurvature es) r ∧
    SpheroPolyhedron.surfaceAreaOf S r es
        = SteinerSpec.steinerArea S (SteinerSpec.integratedMeanCurvature es) r := by
  have h := stated_eq_classical V S (SteinerSpec.integratedMeanCurvature es) r
  constructor
  · rw [sphero_volume_steiner, cp_mean_curvature_def]; exact h.1
  · rw [sphero_area_steiner, cp_mean_curvature_def]; exact h.2.1

/-- **r = 0**: every quantity of the rounded solid coincides with the core's. -/
theorem sphero_radius_zero (V S : ℝ) (es : List (ℝ × ℝ)) :
    SpheroPolyhedron.volumeOf V S 0 es = V ∧ SpheroPolyhedron.surfaceAreaOf S 0 es = S ∧
    SpheroPolyhedron.meanCurvatureOf 0 es = CP.meanCurvatureOf es := by
  refine ⟨?_, ?_, ?_⟩
  · rw [sphero_volume_steiner]; unfold SteinerSpec.statedVolume; simp
  · rw [sphero_area_steiner]; unfold SteinerSpec.statedArea; simp
  · rw [sphero_mean_curvature]; unfold SteinerSpec.statedMeanCurvature; simp

/-! the same through the `Except` wrappers that mirror the Python properties: whenever
`ConvexPolyhedron.mean_curvature` of the core returns `M` … -/

theorem edgeTerms_of_meanCurvature {c : Core ℝ} {M : ℝ} (hM : CP.meanCurvature c = .ok M) :
    ∃ es, CP.edgeTerms c = .ok es ∧ M = CP.meanCurvatureOf es := by
  unfold CP.meanCurvature at hM
  cases h : CP.edgeTerms c with
  | error e => rw [h] at hM; cases hM
  | ok es => rw [h] at hM; refine ⟨es, rfl, ?_⟩; cases hM; rfl

/-- … the three `ConvexSpheropolyhedron` properties return the Steiner values in that `M`. -/
theorem sphero_steiner_core (c : Core ℝ) (r M : ℝ) (hM : CP.meanCurvature c = .ok M) :
    SpheroPolyhedron.volume c r = .ok (SteinerSpec.statedVolume c.volume c.area M r) ∧
    SpheroPolyhedron.surfaceArea c r = .ok (SteinerSpec.statedArea c.area M r) ∧
    SpheroPolyhedron.meanCurvature c r = .ok (SteinerSpec.statedMeanCurvature M r) := by
  obtain ⟨es, hes, rfl⟩ := edgeTerms_of_meanCurvature hM
  unfold SpheroPolyhedron.volume SpheroPolyhedron.surfaceArea SpheroPolyhedron.meanCurvature
  rw [hes]
  refine ⟨?_, ?_, ?_⟩
  · rw [← sphero_volume_steiner]; rfl
  · rw [← sphero_area_steiner]; rfl
  · rw [← sphero_mean_curvature]; rfl

theorem edgeTerms_ok (c : Core ℝ) (h : c.WellFormed) : CP.edgeTerms c = .ok (c.fi.map c.edgeOf) := by
  unfold CP.edgeTerms
  apply mapM_ok_of_forall
  intro f hf
  obtain ⟨hi, hj, h0, h1⟩ := h f hf
  obtain ⟨na, hna, hmem⟩ := foldl_nbStep_mem c.fi (List.replicate c.normals.length []) f hf
    (by simpa using hi)
  rw [← findNeighbors_eq] at hna
  unfold CP.edgeTerm
  rw [getDihedral_ok c.normals _ f.i f.j na (c.normals.getD f.i V3.zero) (c.normals.getD f.j V3.zero)
    hna hmem (by simp [List.getD, hi]) (by simp [List.getD, hj])]
  unfold CP.edgeLength
  simp only [List.getElem?_eq_getElem h0, List.getElem?_eq_getElem h1]
  simp [Core.edgeOf, List.getD, h0, h1]


/-- for a well-formed core the Python properties never raise and satisfy Steiner unconditionally -/
theorem sphero_steiner_wellformed (c : Core ℝ) (h : c.WellFormed) (r : ℝ) :
    ∃ M, CP.meanCurvature c = .ok M ∧
      SpheroPolyhedron.volume c r = .ok (SteinerSpec.statedVolume c.volume c.area M r) ∧
      SpheroPolyhedron.surfaceArea c r = .ok (SteinerSpec.statedArea c.area M r) ∧
      SpheroPolyhedron.meanCurvature c r = .ok (SteinerSpec.statedMeanCurvature M r) := by
  have hM : CP.meanCurvature c = .ok (CP.meanCurvatureOf (c.fi.map c.edgeOf)) := by
    unfold CP.meanCurvature; rw [edgeTerms_ok c h]; rfl
  exact ⟨_, hM, sphero_steiner_core c r _ hM⟩

/-- if the core's `mean_curvature` raises, the rounded properties raise the same error -/
theorem sphero_raises_core (c : Core ℝ) (r : ℝ) (e : String) (hM : CP.meanCurvature c = .error e) :
    SpheroPolyhedron.volume c r = .error e ∧ SpheroPolyhedron.surfaceArea c r = .error e ∧
    SpheroPolyhedron.meanCurvature c r = .error e := by
  unfold CP.meanCurvature at hM
  unfold SpheroPolyhedron.volume SpheroPolyhedron.surfaceArea SpheroPolyhedron.meanCurvature
  cases h : CP.edgeTerms c with
  | ok es => rw [h] at hM; cases hM
  | error e' => rw [h] at hM; cases hM; exact ⟨rfl, rfl, rfl⟩

/-! ### spheropolygon -/

/-- **planar Steiner area**, either orientation of the core: `area = |a| + P r + π r²` where `a`
is the core's signed area and `P` the model's own `Polygon.perimeter`. -/
theorem spheropolygon_area_steiner (vs : List (V3 ℝ)) (a r : ℝ) (hr : 0 ≤ r) :
    SpheroPolygon.area vs a r = SteinerSpec.steinerArea2 |a| (Polygon.perimeter vs) r := by
  unfold SpheroPolygon.area SpheroPolygon.signedArea SteinerSpec.steinerArea2
  rw [edgeLengthSum_eq_perimeter]
  have hP := perimeter_nonneg vs
  have hs : 0 ≤ Polygon.perimeter vs * r + Real.pi * r * r := by
    have := Real.pi_pos; positivity
  simp only [Scalar.lit, Scalar.ofNat_real, Scalar.pi_real, Scalar.abs_real, Nat.cast_zero]
  split_ifs with h
  · rw [abs_of_neg h, abs_of_nonpos (by linarith)]; ring
  · rw [not_lt] at h
    rw [abs_of_nonneg h, abs_of_nonneg (by linarith)]; ring

/-- signed area keeps the sign of the core: `±(|a| + P r + π r²)` -/
theorem spheropolygon_signed_area_steiner (vs : List (V3 ℝ)) (a r : ℝ) :
    SpheroPolygon.signedArea vs a r =
      if a < 0 then -(SteinerSpec.steinerArea2 (-a) (Polygon.perimeter vs) r)
      else SteinerSpec.steinerArea2 a (Polygon.perimeter vs) r := by
  unfold SpheroPolygon.signedArea SteinerSpec.steinerArea2
  rw [edgeLengthSum_eq_perimeter]
  simp only [Scalar.lit, Scalar.ofNat_real, Scalar.pi_real, Nat.cast_zero]
  split_ifs <;> ring

/-- **planar Steiner perimeter** `= P + 2π r`. -/
theorem spheropolygon_perimeter (vs : List (V3 ℝ)) (r : ℝ) :
    SpheroPolygon.perimeter vs r = SteinerSpec.steinerPerimeter2 (Polygon.perimeter vs) r := rfl

/-- **r = 0** in the plane: signed area, area and perimeter are the core's. -/
theorem spheropolygon_radius_zero (vs : List (V3 ℝ)) (a : ℝ) :
    SpheroPolygon.signedArea vs a 0 = a ∧ SpheroPolygon.area vs a 0 = |a| ∧
    SpheroPolygon.perimeter vs 0 = Polygon.perimeter vs := by
  have h1 : SpheroPolygon.signedArea vs a 0 = a := by
    rw [spheropolygon_signed_area_steiner]; unfold SteinerSpec.steinerArea2
    split_ifs <;> simp
  refine ⟨h1, ?_, ?_⟩
  · unfold SpheroPolygon.area; rw [h1]; rfl
  · rw [spheropolygon_perimeter]; unfold SteinerSpec.steinerPerimeter2
    simp

/-- the radius setters accept exactly `r ≥ 0` -/
theorem setRadius_spec (r : ℝ) :
    (0 ≤ r → setRadius r = .ok r) ∧ (r < 0 → setRadius r = .error "ValueError") := by
  unfold setRadius
  simp only [Scalar.lit, Scalar.ofNat_real, Nat.cast_zero]
  constructor
  · intro h; rw [if_pos h]; rfl
  · intro h; rw [if_neg (not_le.mpr h)]; rfl

/-! ### descriptors -/

/-- **tau** `= (area of the sphere of radius M) / S = 4π M² / S`. -/
theorem tau_def (M S : ℝ) : CP.tauOf M S = SteinerSpec.tau M S := by
  unfold CP.tauOf SteinerSpec.tau SteinerSpec.sphereArea
  simp only [Scalar.lit, Scalar.ofNat_real, Scalar.pi_real]; ring

/-- **asphericity** `= M S / 3V`. -/
theorem asphericity_def (M S V : ℝ) : CP.asphericityOf M S V = SteinerSpec.asphericity M S V := rfl

/-- **iq (3-D)** `36π V²/S³ = (V / volume of the sphere with the same surface area)²`. -/
theorem iq_def (V S : ℝ) (hS : 0 < S) : Shape3D.iq V S = SteinerSpec.iq3 V S := by
  unfold Shape3D.iq SteinerSpec.iq3 SteinerSpec.ballVolume SteinerSpec.radiusOfArea
  simp only [Scalar.lit, Scalar.sqr, Scalar.cube, Scalar.ofNat_real, Scalar.pi_real, Scalar.sqrt_real]
  have hpi := Real.pi_pos
  have hq : 0 < S / (((4 : ℕ) : ℝ) * Real.pi) := by positivity
  set ρ := Real.sqrt (S / (((4 : ℕ) : ℝ) * Real.pi)) with hρdef
  have hρ : ρ * ρ = S / (((4 : ℕ) : ℝ) * Real.pi) := Real.mul_self_sqrt hq.le
  have hρpos : 0 < ρ := Real.sqrt_pos.mpr hq
  have h6 : (ρ * ρ * ρ) * (ρ * ρ * ρ) = (S / (((4 : ℕ) : ℝ) * Real.pi)) ^ 3 := by
    rw [← hρ]; ring
  have hne : ρ * ρ * ρ ≠ 0 := by positivity
  rw [div_mul_div_comm]
  have hden : ((4 : ℕ) : ℝ) / ((3 : ℕ) : ℝ) * Real.pi * (ρ * ρ * ρ) *
      (((4 : ℕ) : ℝ) / ((3 : ℕ) : ℝ) * Real.pi * (ρ * ρ * ρ))
      = (16 / 9) * Real.pi ^ 2 * ((ρ * ρ * ρ) * (ρ * ρ * ρ)) := by push_cast; ring
  rw [hden, h6]
  push_cast
  field_simp
  ring

/-- **iq (2-D)** `4π A / P² = A / (area of the circle with the same perimeter)`. -/
theorem iq2_def (A P : ℝ) (hP : P ≠ 0) : Shape2D.iq A P = SteinerSpec.iq2 A P := by
  unfold Shape2D.iq SteinerSpec.iq2 SteinerSpec.discArea SteinerSpec.radiusOfPerimeter
  simp only [Scalar.lit, Scalar.sqr, Scalar.ofNat_real, Scalar.pi_real]
  have := pi_ne_zero
  push_cast; field_simp; ring

/-- normalisations are pinned by the ball of radius `ρ`: with `S = 4πρ²`, `V = 4/3πρ³`, `H = 4πρ`
the model gives `M = ρ`, `τ = 1`, asphericity `= 1`, `IQ = 1` (a changed constant breaks this). -/
theorem descriptors_ball (ρ : ℝ) (hρ : 0 < ρ) :
    SteinerSpec.normalise (4 * Real.pi * ρ) = ρ ∧
    CP.tauOf ρ (SteinerSpec.sphereArea ρ) = 1 ∧
    CP.asphericityOf ρ (SteinerSpec.sphereArea ρ) (SteinerSpec.ballVolume ρ) = 1 ∧
    Shape3D.iq (SteinerSpec.ballVolume ρ) (SteinerSpec.sphereArea ρ) = 1 ∧
    Shape2D.iq (SteinerSpec.discArea ρ) (SteinerSpec.circlePerimeter ρ) = 1 := by
  have hpi := Real.pi_pos
  have hne := pi_ne_zero
  have hρ' := hρ.ne'
  refine ⟨?_, ?_, ?_, ?_, ?_⟩ <;>
    simp only [SteinerSpec.normalise, CP.tauOf, CP.asphericityOf, Shape3D.iq, Shape2D.iq,
      SteinerSpec.sphereArea, SteinerSpec.ballVolume, SteinerSpec.discArea,
      SteinerSpec.circlePerimeter, Scalar.lit, Scalar.sqr, Scalar.cube, Scalar.ofNat_real,
      Scalar.pi_real] <;>
    push_cast <;> field_simp <;> ring

/-! ### non-vacuity: the cube `[-1,1]³` (12 edges of length 2, all dihedral angles π/2) -/

def c11_cubeEdges : List (ℝ × ℝ) := List.replicate 12 (2, Real.pi / 2)

/-- `M = 3/2` for the cube of side 2 -/
example : CP.meanCurvatureOf c11_cubeEdges = 3 / 2 := by
  rw [meanCurvatureOf_eq]
  have := pi_ne_zero
  simp only [c11_cubeEdges, edgeSumR, List.replicate, List.map_cons, List.map_nil, List.sum_cons,
    List.sum_nil]
  field_simp; ring

/-- the rounded cube of side 2: `8 + 24 r + 6π r² + 4/3 π r³` and `24 + 12π r + 4π r²` -/
example (r : ℝ) :
    SpheroPolyhedron.volumeOf 8 24 r c11_cubeEdges = 8 + 24 * r + 6 * Real.pi * r ^ 2 + 4 / 3 * Real.pi * r ^ 3 ∧
    SpheroPolyhedron.surfaceAreaOf 24 r c11_cubeEdges = 24 + 12 * Real.pi * r + 4 * Real.pi * r ^ 2 := by
  have hM : CP.meanCurvatureOf c11_cubeEdges = 3 / 2 := by
    rw [meanCurvatureOf_eq]
    have := pi_ne_zero
    simp only [c11_cubeEdges, edgeSumR, List.replicate, List.map_cons, List.map_nil, List.sum_cons,
      List.sum_nil]
    field_simp; ring
  rw [sphero_volume_steiner, sphero_area_steiner, hM]
  unfold SteinerSpec.statedVolume SteinerSpec.statedArea
  simp only [Scalar.lit, Scalar.ofNat_real, Scalar.pi_real]
  constructor <;> push_cast <;> ring

def c11_cubeCore : Core ℝ where
  vertices := [⟨-1,-1,-1⟩, ⟨-1,-1,1⟩, ⟨-1,1,-1⟩, ⟨-1,1,1⟩, ⟨1,-1,-1⟩, ⟨1,-1,1⟩, ⟨1,1,-1⟩, ⟨1,1,1⟩]
  normals := [⟨0,0,-1⟩, ⟨0,-1,0⟩, ⟨1,0,0⟩, ⟨-1,0,0⟩, ⟨0,1,0⟩, ⟨0,0,1⟩]
  fi := [⟨0,1,4,0⟩, ⟨0,2,4,6⟩, ⟨0,3,0,2⟩, ⟨0,4,6,2⟩, ⟨1,2,4,5⟩, ⟨1,3,0,1⟩, ⟨1,5,5,1⟩, ⟨2,4,6,7⟩,
         ⟨2,5,7,5⟩, ⟨3,4,2,3⟩, ⟨3,5,3,1⟩, ⟨4,5,3,7⟩]
  volume := 8
  area := 24

example : c11_cubeCore.WellFormed := by
  intro f hf
  simp only [c11_cubeCore, List.mem_cons, List.not_mem_nil, or_false] at hf
  rcases hf with rfl | rfl | rfl | rfl | rfl | rfl | rfl | rfl | rfl | rfl | rfl | rfl <;>
    simp [c11_cubeCore]

example : c11_cubeCore.fi.map c11_cubeCore.edgeOf = c11_cubeEdges := by
  simp only [c11_cubeCore, Core.edgeOf, c11_cubeEdges, List.map_cons, List.map_nil, List.replicate,
    dihedral_arccos, V3.norm, V3.normSq, V3.dot, V3.sub_x, V3.sub_y, V3.sub_z, Scalar.sqrt_real]
  norm_num [List.getD, sqrt4, Real.arccos_zero]
  ring


/-- the whole cube through the `Except` wrappers: `mean_curvature` returns `3/2` -/
example : CP.meanCurvature c11_cubeCore = .ok (CP.meanCurvatureOf c11_cubeEdges) := by
  have h : c11_cubeCore.WellFormed := by
    intro f hf
    simp only [c11_cubeCore, List.mem_cons, List.not_mem_nil, or_false] at hf
    rcases hf with rfl | rfl | rfl | rfl | rfl | rfl | rfl | rfl | rfl | rfl | rfl | rfl <;>
      simp [c11_cubeCore]
  have he : c11_cubeCore.fi.map c11_cubeCore.edgeOf = c11_cubeEdges := by
    simp only [c11_cubeCore, Core.edgeOf, c11_cubeEdges, List.map_cons, List.map_nil, List.replicate,
      dihedral_arccos, V3.norm, V3.normSq, V3.dot, V3.sub_x, V3.sub_y, V3.sub_z, Scalar.sqrt_real]
    norm_num [List.getD, sqrt4, Real.arccos_zero]
    ring
  unfold CP.meanCurvature; rw [edgeTerms_ok _ h, he]; rfl

/-- two adjacent cube faces: unit normals `e_x`, `e_y` meet at `π/2` -/
example : CP.dihedralAngle (⟨1, 0, 0⟩ : V3 ℝ) ⟨0, 1, 0⟩ = Real.pi / 2 := by
  rw [dihedral_arccos]
  simp [V3.dot, Real.arccos_zero]; ring

example : V3.norm (⟨1, 0, 0⟩ : V3 ℝ) = 1 := by
  simp [V3.norm, V3.normSq, V3.dot]

/-- hypotheses of `dihedral_def` hold for the unit normals of two adjacent cube faces -/
example : CP.dihedralAngle (⟨1, 0, 0⟩ : V3 ℝ) ⟨0, 1, 0⟩ = SteinerSpec.dihedral ⟨1, 0, 0⟩ ⟨0, 1, 0⟩ :=
  dihedral_def _ _ (by simp [V3.norm, V3.normSq, V3.dot]) (by simp [V3.norm, V3.normSq, V3.dot])

/-- the neighbour lists `_find_neighbors` builds for the cube; opposite faces 0 and 5 are not
neighbours, so `get_dihedral(0, 5)` raises `ValueError`, while `get_dihedral(0, 1)` returns -/
example : CP.findNeighbors 6 c11_cubeCore.fi =
    [[1, 2, 3, 4], [0, 2, 3, 5], [0, 1, 4, 5], [0, 1, 4, 5], [0, 2, 3, 5], [1, 2, 3, 4]] := by decide

example : CP.getDihedral c11_cubeCore.normals (CP.findNeighbors 6 c11_cubeCore.fi) 0 5
    = .error "ValueError" :=
  getDihedral_raises _ _ 0 5 [1, 2, 3, 4] (by decide) (by decide)

example : CP.getDihedral c11_cubeCore.normals (CP.findNeighbors 6 c11_cubeCore.fi) 0 1
    = .ok (CP.dihedralAngle ⟨0, 0, -1⟩ ⟨0, -1, 0⟩) :=
  getDihedral_ok _ _ 0 1 [1, 2, 3, 4] _ _ (by decide) (by decide) rfl rfl

/-- descriptors of the cube of side 2 (`V = 8`, `S = 24`) and the square of side 2 -/
example : Shape3D.iq (8 : ℝ) 24 = SteinerSpec.iq3 8 24 := iq_def 8 24 (by norm_num)
example : Shape2D.iq (4 : ℝ) 8 = SteinerSpec.iq2 4 8 := iq2_def 4 8 (by norm_num)

/-- a spherosquare: core `[0,2]²` given clockwise (`a = −4`), `r = 1/2`: area `4 + 8·½ + π/4` -/
def c11_squareCw : List (V3 ℝ) := [⟨0,0,0⟩, ⟨0,2,0⟩, ⟨2,2,0⟩, ⟨2,0,0⟩]

example :
    SpheroPolygon.area c11_squareCw (-4) (1/2)
      = SteinerSpec.steinerArea2 4 (Polygon.perimeter c11_squareCw) (1/2) := by
  rw [spheropolygon_area_steiner _ _ _ (by norm_num)]; norm_num

end
