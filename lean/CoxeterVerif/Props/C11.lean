import CoxeterVerif.Lemmas.Steiner
import CoxeterVerif.Lemmas.SteinerTurn
import CoxeterVerif.Lemmas.SteinerDescriptors
import CoxeterVerif.Lemmas.SteinerBoxMeasure
import CoxeterVerif.Lemmas.SteinerPrismMeasure
/-!
  # C11 — rounded shapes obey the Steiner formulas; curvature descriptors match their definitions

  All statements are over ℝ and for ALL core data: any list `es` of edges `(L, φ)` (any number of
  them, any lengths, any angles), any core volume `V`, area `S`, polygon vertex list `vs`, signed
  core area `a`, and any radius `r` (`r ≥ 0` is needed only for the planar `area = |·|`).
  `M` is always the MODEL'S OWN `CP.meanCurvatureOf` of the same edge list, i.e. what
  `ConvexPolyhedron.mean_curvature` computes; the right-hand sides are the independent definitions
  of `Spec/Steiner.lean`.

  Trusted (not proved here): Steiner's theorem itself and `∫H dA = ½ Σ L·(π − φ)` for a convex
  polytope — both recorded in `Spec/Steiner.lean`.  With C01 (`V`, `S` exact) they are the only
  unproved ingredients of the property.
-/
open Scalar Steiner
set_option linter.unnecessarySeqFocus false
noncomputable section

/-! ### convex polyhedron: mean curvature and dihedral angle -/

/-- **mean_curvature = Σ L·(exterior angle) / 8π**, i.e. the normalised `(½ Σ L θ)/(4π)` of the spec. -/
theorem cp_mean_curvature_def (es : List (ℝ × ℝ)) :
    CP.meanCurvatureOf es = SteinerSpec.meanCurvature es := by
  rw [meanCurvatureOf_eq]
  unfold SteinerSpec.meanCurvature SteinerSpec.normalise SteinerSpec.integratedMeanCurvature
  rw [spec_edgeSum_eq]
  simp only [Scalar.lit, Scalar.ofNat_real, Scalar.pi_real]
  have := pi_ne_zero
  push_cast; field_simp; ring

/-- the code's dihedral angle is `π − arccos(n₁·n₂)` for ALL normals (no unit hypothesis) -/
theorem dihedral_arccos (n1 n2 : V3 ℝ) :
    CP.dihedralAngle n1 n2 = Real.pi - Real.arccos (V3.dot n1 n2) := by
  unfold CP.dihedralAngle
  have h : V3.dot (-n1) n2 = -(V3.dot n1 n2) := by
    simp only [V3.dot, V3.neg_x, V3.neg_y, V3.neg_z]; ring
  rw [h, Scalar.acos_real, arccos_clip, Real.arccos_neg]

/-- **get_dihedral = π − ∠(n₁, n₂)** for unit normals (what `_equations[:, :3]` holds). -/
theorem dihedral_def (n1 n2 : V3 ℝ) (h1 : V3.norm n1 = 1) (h2 : V3.norm n2 = 1) :
    CP.dihedralAngle n1 n2 = SteinerSpec.dihedral n1 n2 := by
  rw [dihedral_arccos]
  unfold SteinerSpec.dihedral SteinerSpec.angle
  rw [h1, h2]; simp

/-- `get_dihedral(a, b)` returns the angle exactly when `b ∈ neighbors[a]` … -/
theorem getDihedral_ok (normals : List (V3 ℝ)) (nb : List (List Nat)) (a b : Nat) (na : List Nat)
    (n1 n2 : V3 ℝ) (hna : nb[a]? = some na) (hb : b ∈ na) (h1 : normals[a]? = some n1)
    (h2 : normals[b]? = some n2) :
    CP.getDihedral normals nb a b = .ok (CP.dihedralAngle n1 n2) := by
  unfold CP.getDihedral
  simp only [hna, h1, h2, List.contains_iff_mem.mpr hb]
  rfl

/-- … and raises `ValueError` on a pair of faces that are not neighbours. -/
theorem getDihedral_raises (normals : List (V3 ℝ)) (nb : List (List Nat)) (a b : Nat) (na : List Nat)
    (hna : nb[a]? = some na) (hb : b ∉ na) :
    CP.getDihedral normals nb a b = .error "ValueError" := by
  unfold CP.getDihedral
  have : na.contains b = false := by
    cases h : na.contains b with
    | false => rfl
    | true => exact absurd (List.contains_iff_mem.mp h) hb
  simp only [hna, this]
  rfl

/-! ### spheropolyhedron -/

/-- **Steiner volume.** `volume = V + S r + 4π M r² + (4/3)π r³`. -/
theorem sphero_volume_steiner (V S r : ℝ) (es : List (ℝ × ℝ)) :
    SpheroPolyhedron.volumeOf V S r es
      = SteinerSpec.statedVolume V S (CP.meanCurvatureOf es) r := by
  unfold SpheroPolyhedron.volumeOf SteinerSpec.statedVolume
  rw [vCyl_eq, meanCurvatureOf_eq]
  simp only [Scalar.lit, Scalar.q, Scalar.cube, Scalar.ofNat_real, Scalar.pi_real]
  have := pi_ne_zero
  push_cast; field_simp; ring

/-- **Steiner surface area.** `surface_area = S + 8π M r + 4π r²`. -/
theorem sphero_area_steiner (S r : ℝ) (es : List (ℝ × ℝ)) :
    SpheroPolyhedron.surfaceAreaOf S r es
      = SteinerSpec.statedArea S (CP.meanCurvatureOf es) r := by
  unfold SpheroPolyhedron.surfaceAreaOf SteinerSpec.statedArea
  rw [aCyl_eq, meanCurvatureOf_eq]
  simp only [Scalar.lit, Scalar.sqr, Scalar.ofNat_real, Scalar.pi_real]
  have := pi_ne_zero
  push_cast; field_simp; ring

/-- **mean curvature of the rounded solid** `= M + r`. -/
theorem sphero_mean_curvature (r : ℝ) (es : List (ℝ × ℝ)) :
    SpheroPolyhedron.meanCurvatureOf r es
      = SteinerSpec.statedMeanCurvature (CP.meanCurvatureOf es) r := rfl

/-- the property's polynomials in `M` are Steiner's classical ones in `H = ∫H dA = 4π M`
(so the spec's constants `4π`, `8π`, `4/3 π` are the classical `1`, `2`, `4π/3`) -/
theorem stated_eq_classical (V S H r : ℝ) :
    SteinerSpec.statedVolume V S (SteinerSpec.normalise H) r = SteinerSpec.steinerVolume V S H r ∧
    SteinerSpec.statedArea S (SteinerSpec.normalise H) r = SteinerSpec.steinerArea S H r ∧
    SteinerSpec.statedMeanCurvature (SteinerSpec.normalise H) r
      = SteinerSpec.normalise (SteinerSpec.steinerIntegratedMeanCurvature H r) := by
  have := pi_ne_zero
  refine ⟨?_, ?_, ?_⟩ <;>
    simp only [SteinerSpec.statedVolume, SteinerSpec.steinerVolume, SteinerSpec.statedArea,
      SteinerSpec.steinerArea, SteinerSpec.statedMeanCurvature, SteinerSpec.normalise,
      SteinerSpec.steinerIntegratedMeanCurvature, Scalar.lit, Scalar.ofNat_real, Scalar.pi_real] <;>
    push_cast <;> field_simp <;> ring

/-- Steiner volume/area/curvature in the classical form, `H = ½ Σ L(π−φ)` of the same edges -/
theorem sphero_steiner_classical (V S r : ℝ) (es : List (ℝ × ℝ)) :
    SpheroPolyhedron.volumeOf V S r es
        = SteinerSpec.steinerVolume V S (SteinerSpec.integratedMeanCurvature es) r ∧
    SpheroPolyhedron.surfaceAreaOf S r es
        = SteinerSpec.steinerArea S (SteinerSpec.integratedMeanCurvature es) r := by
  have h := stated_eq_classical V S (SteinerSpec.integratedMeanCurvature es) r
  constructor
  · rw [sphero_volume_steiner, cp_mean_curvature_def]; exact h.1
  · rw [sphero_area_steiner, cp_mean_curvature_def]; exact h.2.1

/-- **r = 0**: every quantity of the rounded solid coincides with the core's. -/
theorem sphero_radius_zero (V S : ℝ) (es : List (ℝ × ℝ)) :
    SpheroPolyhedron.volumeOf V S 0 es = V ∧ SpheroPolyhedron.surfaceAreaOf S 0 es = S ∧
    SpheroPolyhedron.meanCurvatureOf 0 es = CP.meanCurvatureOf es := by
  refine ⟨?_, ?_, ?_⟩
  · rw [sphero_volume_steiner]; unfold SteinerSpec.statedVolume; simp
  · rw [sphero_area_steiner]; unfold SteinerSpec.statedArea; simp
  · rw [sphero_mean_curvature]; unfold SteinerSpec.statedMeanCurvature; simp

/-! the same through the `Except` wrappers that mirror the Python properties: whenever
`ConvexPolyhedron.mean_curvature` of the core returns `M` … -/

theorem edgeTerms_of_meanCurvature {c : Core ℝ} {M : ℝ} (hM : CP.meanCurvature c = .ok M) :
    ∃ es, CP.edgeTerms c = .ok es ∧ M = CP.meanCurvatureOf es := by
  unfold CP.meanCurvature at hM
  cases h : CP.edgeTerms c with
  | error e => rw [h] at hM; cases hM
  | ok es => rw [h] at hM; refine ⟨es, rfl, ?_⟩; cases hM; rfl

/-- … the three `ConvexSpheropolyhedron` properties return the Steiner values in that `M`. -/
theorem sphero_steiner_core (c : Core ℝ) (r M : ℝ) (hM : CP.meanCurvature c = .ok M) :
    SpheroPolyhedron.volume c r = .ok (SteinerSpec.statedVolume c.volume c.area M r) ∧
    SpheroPolyhedron.surfaceArea c r = .ok (SteinerSpec.statedArea c.area M r) ∧
    SpheroPolyhedron.meanCurvature c r = .ok (SteinerSpec.statedMeanCurvature M r) := by
  obtain ⟨es, hes, rfl⟩ := edgeTerms_of_meanCurvature hM
  unfold SpheroPolyhedron.volume SpheroPolyhedron.surfaceArea SpheroPolyhedron.meanCurvature
  rw [hes]
  refine ⟨?_, ?_, ?_⟩
  · rw [← sphero_volume_steiner]; rfl
  · rw [← sphero_area_steiner]; rfl
  · rw [← sphero_mean_curvature]; rfl

theorem edgeTerms_ok (c : Core ℝ) (h : c.WellFormed) : CP.edgeTerms c = .ok (c.fi.map c.edgeOf) := by
  unfold CP.edgeTerms
  apply mapM_ok_of_forall
  intro f hf
  obtain ⟨hi, hj, h0, h1⟩ := h f hf
  obtain ⟨na, hna, hmem⟩ := foldl_nbStep_mem c.fi (List.replicate c.normals.length []) f hf
    (by simpa using hi)
  rw [← findNeighbors_eq] at hna
  unfold CP.edgeTerm
  rw [getDihedral_ok c.normals _ f.i f.j na (c.normals.getD f.i V3.zero) (c.normals.getD f.j V3.zero)
    hna hmem (by simp [List.getD, hi]) (by simp [List.getD, hj])]
  unfold CP.edgeLength
  simp only [List.getElem?_eq_getElem h0, List.getElem?_eq_getElem h1]
  simp [Core.edgeOf, List.getD, h0, h1]


/-- for a well-formed core the Python properties never raise and satisfy Steiner unconditionally -/
theorem sphero_steiner_wellformed (c : Core ℝ) (h : c.WellFormed) (r : ℝ) :
    ∃ M, CP.meanCurvature c = .ok M ∧
      SpheroPolyhedron.volume c r = .ok (SteinerSpec.statedVolume c.volume c.area M r) ∧
      SpheroPolyhedron.surfaceArea c r = .ok (SteinerSpec.statedArea c.area M r) ∧
      SpheroPolyhedron.meanCurvature c r = .ok (SteinerSpec.statedMeanCurvature M r) := by
  have hM : CP.meanCurvature c = .ok (CP.meanCurvatureOf (c.fi.map c.edgeOf)) := by
    unfold CP.meanCurvature; rw [edgeTerms_ok c h]; rfl
  exact ⟨_, hM, sphero_steiner_core c r _ hM⟩

/-- if the core's `mean_curvature` raises, the rounded properties raise the same error -/
theorem sphero_raises_core (c : Core ℝ) (r : ℝ) (e : String) (hM : CP.meanCurvature c = .error e) :
    SpheroPolyhedron.volume c r = .error e ∧ SpheroPolyhedron.surfaceArea c r = .error e ∧
    SpheroPolyhedron.meanCurvature c r = .error e := by
  unfold CP.meanCurvature at hM
  unfold SpheroPolyhedron.volume SpheroPolyhedron.surfaceArea SpheroPolyhedron.meanCurvature
  cases h : CP.edgeTerms c with
  | ok es => rw [h] at hM; cases hM
  | error e' => rw [h] at hM; cases hM; exact ⟨rfl, rfl, rfl⟩

/-! ### spheropolygon -/

/-- **planar Steiner area**, either orientation of the core: `area = |a| + P r + π r²` where `a`
is the core's signed area and `P` the model's own `Polygon.perimeter`. -/
theorem spheropolygon_area_steiner (vs : List (V3 ℝ)) (a r : ℝ) (hr : 0 ≤ r) :
    SpheroPolygon.area vs a r = SteinerSpec.steinerArea2 |a| (Polygon.perimeter vs) r := by
  unfold SpheroPolygon.area SpheroPolygon.signedArea SteinerSpec.steinerArea2
  rw [edgeLengthSum_eq_perimeter]
  have hP := perimeter_nonneg vs
  have hs : 0 ≤ Polygon.perimeter vs * r + Real.pi * r * r := by
    have := Real.pi_pos; positivity
  simp only [Scalar.lit, Scalar.ofNat_real, Scalar.pi_real, Scalar.abs_real, Nat.cast_zero]
  split_ifs with h
  · rw [abs_of_neg h, abs_of_nonpos (by linarith)]; ring
  · rw [not_lt] at h
    rw [abs_of_nonneg h, abs_of_nonneg (by linarith)]; ring

/-- signed area keeps the sign of the core: `±(|a| + P r + π r²)` -/
theorem spheropolygon_signed_area_steiner (vs : List (V3 ℝ)) (a r : ℝ) :
    SpheroPolygon.signedArea vs a r =
      if a < 0 then -(SteinerSpec.steinerArea2 (-a) (Polygon.perimeter vs) r)
      else SteinerSpec.steinerArea2 a (Polygon.perimeter vs) r := by
  unfold SpheroPolygon.signedArea SteinerSpec.steinerArea2
  rw [edgeLengthSum_eq_perimeter]
  simp only [Scalar.lit, Scalar.ofNat_real, Scalar.pi_real, Nat.cast_zero]
  split_ifs <;> ring

/-- **planar Steiner perimeter** `= P + 2π r`. -/
theorem spheropolygon_perimeter (vs : List (V3 ℝ)) (r : ℝ) :
    SpheroPolygon.perimeter vs r = SteinerSpec.steinerPerimeter2 (Polygon.perimeter vs) r := rfl

/-- **r = 0** in the plane: signed area, area and perimeter are the core's. -/
theorem spheropolygon_radius_zero (vs : List (V3 ℝ)) (a : ℝ) :
    SpheroPolygon.signedArea vs a 0 = a ∧ SpheroPolygon.area vs a 0 = |a| ∧
    SpheroPolygon.perimeter vs 0 = Polygon.perimeter vs := by
  have h1 : SpheroPolygon.signedArea vs a 0 = a := by
    rw [spheropolygon_signed_area_steiner]; unfold SteinerSpec.steinerArea2
    split_ifs <;> simp
  refine ⟨h1, ?_, ?_⟩
  · unfold SpheroPolygon.area; rw [h1]; rfl
  · rw [spheropolygon_perimeter]; unfold SteinerSpec.steinerPerimeter2
    simp

/-- the radius setters accept exactly `r ≥ 0` -/
theorem setRadius_spec (r : ℝ) :
    (0 ≤ r → setRadius r = .ok r) ∧ (r < 0 → setRadius r = .error "ValueError") := by
  unfold setRadius
  simp only [Scalar.lit, Scalar.ofNat_real, Nat.cast_zero]
  constructor
  · intro h; rw [if_pos h]; rfl
  · intro h; rw [if_neg (not_le.mpr h)]; rfl

/-! ### descriptors -/

/-- **tau** `= (area of the sphere of radius M) / S = 4π M² / S`. -/
theorem tau_def (M S : ℝ) : CP.tauOf M S = SteinerSpec.tau M S := by
  unfold CP.tauOf SteinerSpec.tau SteinerSpec.sphereArea
  simp only [Scalar.lit, Scalar.ofNat_real, Scalar.pi_real]; ring

/-- **asphericity** `= M S / 3V`. -/
theorem asphericity_def (M S V : ℝ) : CP.asphericityOf M S V = SteinerSpec.asphericity M S V := rfl

/-- **iq (3-D)** `36π V²/S³ = (V / volume of the sphere with the same surface area)²`. -/
theorem iq_def (V S : ℝ) (hS : 0 < S) : Shape3D.iq V S = SteinerSpec.iq3 V S := by
  unfold Shape3D.iq SteinerSpec.iq3 SteinerSpec.ballVolume SteinerSpec.radiusOfArea
  simp only [Scalar.lit, Scalar.sqr, Scalar.cube, Scalar.ofNat_real, Scalar.pi_real, Scalar.sqrt_real]
  have hpi := Real.pi_pos
  have hq : 0 < S / (((4 : ℕ) : ℝ) * Real.pi) := by positivity
  set ρ := Real.sqrt (S / (((4 : ℕ) : ℝ) * Real.pi)) with hρdef
  have hρ : ρ * ρ = S / (((4 : ℕ) : ℝ) * Real.pi) := Real.mul_self_sqrt hq.le
  have hρpos : 0 < ρ := Real.sqrt_pos.mpr hq
  have h6 : (ρ * ρ * ρ) * (ρ * ρ * ρ) = (S / (((4 : ℕ) : ℝ) * Real.pi)) ^ 3 := by
    rw [← hρ]; ring
  have hne : ρ * ρ * ρ ≠ 0 := by positivity
  rw [div_mul_div_comm]
  have hden : ((4 : ℕ) : ℝ) / ((3 : ℕ) : ℝ) * Real.pi * (ρ * ρ * ρ) *
      (((4 : ℕ) : ℝ) / ((3 : ℕ) : ℝ) * Real.pi * (ρ * ρ * ρ))
      = (16 / 9) * Real.pi ^ 2 * ((ρ * ρ * ρ) * (ρ * ρ * ρ)) := by push_cast; ring
  rw [hden, h6]
  push_cast
  field_simp
  ring

/-- **iq (2-D)** `4π A / P² = A / (area of the circle with the same perimeter)`. -/
theorem iq2_def (A P : ℝ) (hP : P ≠ 0) : Shape2D.iq A P = SteinerSpec.iq2 A P := by
  unfold Shape2D.iq SteinerSpec.iq2 SteinerSpec.discArea SteinerSpec.radiusOfPerimeter
  simp only [Scalar.lit, Scalar.sqr, Scalar.ofNat_real, Scalar.pi_real]
  have := pi_ne_zero
  push_cast; field_simp; ring

/-- normalisations are pinned by the ball of radius `ρ`: with `S = 4πρ²`, `V = 4/3πρ³`, `H = 4πρ`
the model gives `M = ρ`, `τ = 1`, asphericity `= 1`, `IQ = 1` (a changed constant breaks this). -/
theorem descriptors_ball (ρ : ℝ) (hρ : 0 < ρ) :
    SteinerSpec.normalise (4 * Real.pi * ρ) = ρ ∧
    CP.tauOf ρ (SteinerSpec.sphereArea ρ) = 1 ∧
    CP.asphericityOf ρ (SteinerSpec.sphereArea ρ) (SteinerSpec.ballVolume ρ) = 1 ∧
    Shape3D.iq (SteinerSpec.ballVolume ρ) (SteinerSpec.sphereArea ρ) = 1 ∧
    Shape2D.iq (SteinerSpec.discArea ρ) (SteinerSpec.circlePerimeter ρ) = 1 := by
  have hpi := Real.pi_pos
  have hne := pi_ne_zero
  have hρ' := hρ.ne'
  refine ⟨?_, ?_, ?_, ?_, ?_⟩ <;>
    simp only [SteinerSpec.normalise, CP.tauOf, CP.asphericityOf, Shape3D.iq, Shape2D.iq,
      SteinerSpec.sphereArea, SteinerSpec.ballVolume, SteinerSpec.discArea,
      SteinerSpec.circlePerimeter, Scalar.lit, Scalar.sqr, Scalar.cube, Scalar.ofNat_real,
      Scalar.pi_real] <;>
    push_cast <;> field_simp <;> ring

/-! ### non-vacuity: the cube `[-1,1]³` (12 edges of length 2, all dihedral angles π/2) -/

def c11_cubeEdges : List (ℝ × ℝ) := List.replicate 12 (2, Real.pi / 2)

/-- `M = 3/2` for the cube of side 2 -/
example : CP.meanCurvatureOf c11_cubeEdges = 3 / 2 := by
  rw [meanCurvatureOf_eq]
  have := pi_ne_zero
  simp only [c11_cubeEdges, edgeSumR, List.replicate, List.map_cons, List.map_nil, List.sum_cons,
    List.sum_nil]
  field_simp; ring

/-- the rounded cube of side 2: `8 + 24 r + 6π r² + 4/3 π r³` and `24 + 12π r + 4π r²` -/
example (r : ℝ) :
    SpheroPolyhedron.volumeOf 8 24 r c11_cubeEdges = 8 + 24 * r + 6 * Real.pi * r ^ 2 + 4 / 3 * Real.pi * r ^ 3 ∧
    SpheroPolyhedron.surfaceAreaOf 24 r c11_cubeEdges = 24 + 12 * Real.pi * r + 4 * Real.pi * r ^ 2 := by
  have hM : CP.meanCurvatureOf c11_cubeEdges = 3 / 2 := by
    rw [meanCurvatureOf_eq]
    have := pi_ne_zero
    simp only [c11_cubeEdges, edgeSumR, List.replicate, List.map_cons, List.map_nil, List.sum_cons,
      List.sum_nil]
    field_simp; ring
  rw [sphero_volume_steiner, sphero_area_steiner, hM]
  unfold SteinerSpec.statedVolume SteinerSpec.statedArea
  simp only [Scalar.lit, Scalar.ofNat_real, Scalar.pi_real]
  constructor <;> push_cast <;> ring

def c11_cubeCore : Core ℝ where
  vertices := [⟨-1,-1,-1⟩, ⟨-1,-1,1⟩, ⟨-1,1,-1⟩, ⟨-1,1,1⟩, ⟨1,-1,-1⟩, ⟨1,-1,1⟩, ⟨1,1,-1⟩, ⟨1,1,1⟩]
  normals := [⟨0,0,-1⟩, ⟨0,-1,0⟩, ⟨1,0,0⟩, ⟨-1,0,0⟩, ⟨0,1,0⟩, ⟨0,0,1⟩]
  fi := [⟨0,1,4,0⟩, ⟨0,2,4,6⟩, ⟨0,3,0,2⟩, ⟨0,4,6,2⟩, ⟨1,2,4,5⟩, ⟨1,3,0,1⟩, ⟨1,5,5,1⟩, ⟨2,4,6,7⟩,
         ⟨2,5,7,5⟩, ⟨3,4,2,3⟩, ⟨3,5,3,1⟩, ⟨4,5,3,7⟩]
  volume := 8
  area := 24

example : c11_cubeCore.WellFormed := by
  intro f hf
  simp only [c11_cubeCore, List.mem_cons, List.not_mem_nil, or_false] at hf
  rcases hf with rfl | rfl | rfl | rfl | rfl | rfl | rfl | rfl | rfl | rfl | rfl | rfl <;>
    simp [c11_cubeCore]

example : c11_cubeCore.fi.map c11_cubeCore.edgeOf = c11_cubeEdges := by
  simp only [c11_cubeCore, Core.edgeOf, c11_cubeEdges, List.map_cons, List.map_nil, List.replicate,
    dihedral_arccos, V3.norm, V3.normSq, V3.dot, V3.sub_x, V3.sub_y, V3.sub_z, Scalar.sqrt_real]
  norm_num [List.getD, sqrt4, Real.arccos_zero]
  ring


/-- the whole cube through the `Except` wrappers: `mean_curvature` returns `3/2` -/
example : CP.meanCurvature c11_cubeCore = .ok (CP.meanCurvatureOf c11_cubeEdges) := by
  have h : c11_cubeCore.WellFormed := by
    intro f hf
    simp only [c11_cubeCore, List.mem_cons, List.not_mem_nil, or_false] at hf
    rcases hf with rfl | rfl | rfl | rfl | rfl | rfl | rfl | rfl | rfl | rfl | rfl | rfl <;>
      simp [c11_cubeCore]
  have he : c11_cubeCore.fi.map c11_cubeCore.edgeOf = c11_cubeEdges := by
    simp only [c11_cubeCore, Core.edgeOf, c11_cubeEdges, List.map_cons, List.map_nil, List.replicate,
      dihedral_arccos, V3.norm, V3.normSq, V3.dot, V3.sub_x, V3.sub_y, V3.sub_z, Scalar.sqrt_real]
    norm_num [List.getD, sqrt4, Real.arccos_zero]
    ring
  unfold CP.meanCurvature; rw [edgeTerms_ok _ h, he]; rfl

/-- two adjacent cube faces: unit normals `e_x`, `e_y` meet at `π/2` -/
example : CP.dihedralAngle (⟨1, 0, 0⟩ : V3 ℝ) ⟨0, 1, 0⟩ = Real.pi / 2 := by
  rw [dihedral_arccos]
  simp [V3.dot, Real.arccos_zero]; ring

example : V3.norm (⟨1, 0, 0⟩ : V3 ℝ) = 1 := by
  simp [V3.norm, V3.normSq, V3.dot]

/-- hypotheses of `dihedral_def` hold for the unit normals of two adjacent cube faces -/
example : CP.dihedralAngle (⟨1, 0, 0⟩ : V3 ℝ) ⟨0, 1, 0⟩ = SteinerSpec.dihedral ⟨1, 0, 0⟩ ⟨0, 1, 0⟩ :=
  dihedral_def _ _ (by simp [V3.norm, V3.normSq, V3.dot]) (by simp [V3.norm, V3.normSq, V3.dot])

/-- the neighbour lists `_find_neighbors` builds for the cube; opposite faces 0 and 5 are not
neighbours, so `get_dihedral(0, 5)` raises `ValueError`, while `get_dihedral(0, 1)` returns -/
example : CP.findNeighbors 6 c11_cubeCore.fi =
    [[1, 2, 3, 4], [0, 2, 3, 5], [0, 1, 4, 5], [0, 1, 4, 5], [0, 2, 3, 5], [1, 2, 3, 4]] := by decide

example : CP.getDihedral c11_cubeCore.normals (CP.findNeighbors 6 c11_cubeCore.fi) 0 5
    = .error "ValueError" :=
  getDihedral_raises _ _ 0 5 [1, 2, 3, 4] (by decide) (by decide)

example : CP.getDihedral c11_cubeCore.normals (CP.findNeighbors 6 c11_cubeCore.fi) 0 1
    = .ok (CP.dihedralAngle ⟨0, 0, -1⟩ ⟨0, -1, 0⟩) :=
  getDihedral_ok _ _ 0 1 [1, 2, 3, 4] _ _ (by decide) (by decide) rfl rfl

/-- descriptors of the cube of side 2 (`V = 8`, `S = 24`) and the square of side 2 -/
example : Shape3D.iq (8 : ℝ) 24 = SteinerSpec.iq3 8 24 := iq_def 8 24 (by norm_num)
example : Shape2D.iq (4 : ℝ) 8 = SteinerSpec.iq2 4 8 := iq2_def 4 8 (by norm_num)

/-- a spherosquare: core `[0,2]²` given clockwise (`a = −4`), `r = 1/2`: area `4 + 8·½ + π/4` -/
def c11_squareCw : List (V3 ℝ) := [⟨0,0,0⟩, ⟨0,2,0⟩, ⟨2,2,0⟩, ⟨2,0,0⟩]

example :
    SpheroPolygon.area c11_squareCw (-4) (1/2)
      = SteinerSpec.steinerArea2 4 (Polygon.perimeter c11_squareCw) (1/2) := by
  rw [spheropolygon_area_steiner _ _ _ (by norm_num)]; norm_num


/-! ## Deepening round

### (1) the planar Steiner clause from the decomposition, with `Σ exterior angles = 2π` PROVED -/

/-- **the exterior (turning) angles of a strictly convex counter-clockwise polygon add up to `2π`**
— for every number of vertices `≥ 3`; `allCcw` is the decidable check the driver evaluates exactly
over ℚ on the implementation's stored vertices. -/
theorem polygon_exterior_angles_sum (vs : List (ℝ × ℝ)) (h3 : 3 ≤ vs.length)
    (h : SteinerSpec.allCcw vs = true) : SteinerSpec.turnSum vs = 2 * Real.pi :=
  turnSum_of_allCcw vs h3 h

/-- **planar Steiner formulas from the decomposition** polygon ∪ edge rectangles ∪ vertex sectors:
the rectangles contribute `P r`, the sectors (opening angle = exterior angle) one full disc. -/
theorem planar_steiner_decomposition (A r : ℝ) (vs : List (ℝ × ℝ)) (h3 : 3 ≤ vs.length)
    (h : SteinerSpec.allCcw vs = true) :
    SteinerSpec.parallelArea2 A vs r = SteinerSpec.steinerArea2 A (SteinerSpec.perimeter2 vs) r ∧
    SteinerSpec.parallelPerimeter2 vs r = SteinerSpec.steinerPerimeter2 (SteinerSpec.perimeter2 vs) r := by
  have ht := polygon_exterior_angles_sum vs h3 h
  unfold SteinerSpec.turnSum at ht
  unfold SteinerSpec.parallelArea2 SteinerSpec.parallelPerimeter2 SteinerSpec.steinerArea2
    SteinerSpec.steinerPerimeter2 SteinerSpec.perimeter2
  rw [stripSum_eq, sectorSum_eq, arcSum_eq, ht]
  simp only [Scalar.lit, Scalar.ofNat_real, Scalar.pi_real]
  constructor <;> push_cast <;> ring

/-- the planar polygon `vs` as the model stores it (`z = 0`) -/
def c11_embed (vs : List (ℝ × ℝ)) : List (V3 ℝ) := vs.map fun p => ⟨p.1, p.2, 0⟩

theorem c11_zipWith_pathLen : ∀ (t : List (ℝ × ℝ)) (a x : ℝ × ℝ),
    (List.zipWith (fun w v : V3 ℝ => V3.norm (w - v)) (c11_embed (t ++ [x])) (c11_embed (a :: t))).sum
      = SteinerSpec.pathLen (a :: t ++ [x])
  | [], a, x => by
    simp [c11_embed, SteinerSpec.pathLen, SteinerSpec.norm2, SteinerSpec.dot2, SteinerSpec.sub2, V3.norm,
      V3.normSq, V3.dot]
  | b :: t, a, x => by
    have ih := c11_zipWith_pathLen t b x
    simp only [c11_embed, List.map_cons, List.cons_append, List.zipWith_cons_cons, List.sum_cons,
      SteinerSpec.pathLen] at ih ⊢
    rw [ih]
    simp [SteinerSpec.norm2, SteinerSpec.dot2, SteinerSpec.sub2, V3.norm, V3.normSq, V3.dot]

/-- the model's `Polygon.perimeter` of the embedded polygon is the spec's planar perimeter -/
theorem c11_perimeter_embed (vs : List (ℝ × ℝ)) :
    Polygon.perimeter (c11_embed vs) = SteinerSpec.perimeter2 vs := by
  unfold Polygon.perimeter SteinerSpec.perimeter2 SteinerSpec.closeEdges
  cases vs with
  | nil => simp [c11_embed, roll, SteinerSpec.pathLen]
  | cons a t =>
    rw [Scalar.sum_real]
    have : roll (c11_embed (a :: t)) = c11_embed (t ++ [a]) := by simp [c11_embed, roll]
    rw [this]
    simpa using c11_zipWith_pathLen t a a

/-- **the model's spheropolygon area and perimeter ARE the sums of the pieces of the parallel body**
for every strictly convex counter-clockwise core in the plane (`a` = the core's signed area) -/
theorem spheropolygon_decomposition (vs : List (ℝ × ℝ)) (a r : ℝ) (hr : 0 ≤ r) (h3 : 3 ≤ vs.length)
    (h : SteinerSpec.allCcw vs = true) :
    SpheroPolygon.area (c11_embed vs) a r = SteinerSpec.parallelArea2 |a| vs r ∧
    SpheroPolygon.perimeter (c11_embed vs) r = SteinerSpec.parallelPerimeter2 vs r := by
  obtain ⟨h1, h2⟩ := planar_steiner_decomposition |a| r vs h3 h
  rw [h1, h2, spheropolygon_area_steiner _ _ _ hr, spheropolygon_perimeter, c11_perimeter_embed]
  exact ⟨rfl, rfl⟩

def c11_unitSquare : List (ℝ × ℝ) := [(0, 0), (1, 0), (1, 1), (0, 1)]

theorem c11_unitSquare_ccw : SteinerSpec.allCcw c11_unitSquare = true := by
  simp [c11_unitSquare, SteinerSpec.allCcw, SteinerSpec.pairsAll, SteinerSpec.ccw, SteinerSpec.cross2,
    SteinerSpec.sub2]

example : SteinerSpec.turnSum c11_unitSquare = 2 * Real.pi :=
  polygon_exterior_angles_sum _ (by simp [c11_unitSquare]) c11_unitSquare_ccw

example (r : ℝ) (hr : 0 ≤ r) :
    SpheroPolygon.area (c11_embed c11_unitSquare) 1 r = SteinerSpec.parallelArea2 |1| c11_unitSquare r :=
  (spheropolygon_decomposition _ 1 r hr (by simp [c11_unitSquare]) c11_unitSquare_ccw).1

/-! ### (1') Steiner's formula for a rectangle and a box as a theorem about LEBESGUE MEASURE

`Steiner.BoxMeasure.parallel2/3 K r` is the Minkowski sum of `K` with the closed Euclidean disc/ball
of radius `r`; `MeasureTheory.volume` is Lebesgue measure on `ℝ × ℝ` / `ℝ × ℝ × ℝ`. -/

open Steiner.BoxMeasure in
/-- **planar Steiner formula, measured**: the model's `ConvexSpheropolygon.area` of the rectangle
`[0,a]×[0,b]` (core area `ab`) is the Lebesgue measure of its `r`-neighbourhood. -/
theorem steiner_rect_measure (a b r : ℝ) (ha : 0 ≤ a) (hb : 0 ≤ b) (hr : 0 ≤ r) :
    MeasureTheory.volume (parallel2 (rect a b) r)
      = ENNReal.ofReal (SpheroPolygon.area (c11_embed [(0, 0), (a, 0), (a, b), (0, b)]) (a * b) r) := by
  rw [volume_parallel_rect a b r ha hb hr, spheropolygon_area_steiner _ _ _ hr, c11_perimeter_embed]
  congr 1
  have hP : SteinerSpec.perimeter2 [(0, 0), (a, 0), (a, b), (0, b)] = 2 * (a + b) := by
    simp only [SteinerSpec.perimeter2, SteinerSpec.closeEdges, List.take, List.cons_append, List.nil_append,
      SteinerSpec.pathLen, SteinerSpec.norm2, SteinerSpec.dot2, SteinerSpec.sub2, Scalar.sqrt_real,
      Scalar.lit, Scalar.ofNat_real]
    have e1 : Real.sqrt ((a - 0) * (a - 0) + (0 - 0) * (0 - 0)) = a := by
      rw [show (a - 0) * (a - 0) + (0 - 0) * (0 - 0) = a ^ 2 by ring]; exact Real.sqrt_sq ha
    have e2 : Real.sqrt ((a - a) * (a - a) + (b - 0) * (b - 0)) = b := by
      rw [show (a - a) * (a - a) + (b - 0) * (b - 0) = b ^ 2 by ring]; exact Real.sqrt_sq hb
    have e3 : Real.sqrt ((0 - a) * (0 - a) + (b - b) * (b - b)) = a := by
      rw [show (0 - a) * (0 - a) + (b - b) * (b - b) = a ^ 2 by ring]; exact Real.sqrt_sq ha
    have e4 : Real.sqrt ((0 - 0) * (0 - 0) + (0 - b) * (0 - b)) = b := by
      rw [show (0 - 0) * (0 - 0) + (0 - b) * (0 - b) = b ^ 2 by ring]; exact Real.sqrt_sq hb
    rw [e1, e2, e3, e4]; push_cast; ring
  rw [hP, abs_of_nonneg (mul_nonneg ha hb)]
  unfold SteinerSpec.steinerArea2
  simp only [Scalar.pi_real]; ring

/-- the loop data of a box `a × b × c`: four edges of each length, all dihedral angles `π/2` -/
def c11_boxEdges (a b c : ℝ) : List (ℝ × ℝ) :=
  List.replicate 4 (a, Real.pi / 2) ++ List.replicate 4 (b, Real.pi / 2) ++ List.replicate 4 (c, Real.pi / 2)

theorem c11_boxEdges_sum (a b c : ℝ) : edgeSumR (c11_boxEdges a b c) = 2 * Real.pi * (a + b + c) := by
  simp only [c11_boxEdges, edgeSumR, List.replicate, List.map_cons, List.map_nil, List.sum_cons,
    List.sum_nil, List.cons_append, List.nil_append]
  ring

open Steiner.BoxMeasure in
/-- **spatial Steiner formula, measured**: the model's `ConvexSpheropolyhedron.volume` on the core data
of the box `[0,a]×[0,b]×[0,c]` is the Lebesgue measure of its `r`-neighbourhood. -/
theorem steiner_box_measure (a b c r : ℝ) (ha : 0 ≤ a) (hb : 0 ≤ b) (hc : 0 ≤ c) (hr : 0 ≤ r) :
    MeasureTheory.volume (parallel3 (box a b c) r)
      = ENNReal.ofReal (SpheroPolyhedron.volumeOf (a * b * c) (2 * (a * b + b * c + c * a)) r
          (c11_boxEdges a b c)) := by
  rw [volume_parallel_box a b c r ha hb hc hr, volumeOf_eq, c11_boxEdges_sum]
  congr 1; ring

/-- the full core record of the box `[0,a]×[0,b]×[0,c]` as the implementation builds it for a cube
(vertex order `itertools.product`, the six outward normals, the twelve face intersections) -/
def c11_boxCore (a b c : ℝ) : Core ℝ where
  vertices := [⟨0,0,0⟩, ⟨0,0,c⟩, ⟨0,b,0⟩, ⟨0,b,c⟩, ⟨a,0,0⟩, ⟨a,0,c⟩, ⟨a,b,0⟩, ⟨a,b,c⟩]
  normals := [⟨0,0,-1⟩, ⟨0,-1,0⟩, ⟨1,0,0⟩, ⟨-1,0,0⟩, ⟨0,1,0⟩, ⟨0,0,1⟩]
  fi := [⟨0,1,4,0⟩, ⟨0,2,4,6⟩, ⟨0,3,0,2⟩, ⟨0,4,6,2⟩, ⟨1,2,4,5⟩, ⟨1,3,0,1⟩, ⟨1,5,5,1⟩, ⟨2,4,6,7⟩,
         ⟨2,5,7,5⟩, ⟨3,4,2,3⟩, ⟨3,5,3,1⟩, ⟨4,5,3,7⟩]
  volume := a * b * c
  area := 2 * (a * b + b * c + c * a)

theorem c11_boxCore_wf (a b c : ℝ) : (c11_boxCore a b c).WellFormed := by
  intro f hf
  simp only [c11_boxCore, List.mem_cons, List.not_mem_nil, or_false] at hf
  rcases hf with rfl | rfl | rfl | rfl | rfl | rfl | rfl | rfl | rfl | rfl | rfl | rfl <;>
    simp [c11_boxCore]

/-- the `(L, φ)` the loops of `volume` / `surface_area` / `mean_curvature` see on that core, in loop order -/
def c11_boxLoop (a b c : ℝ) : List (ℝ × ℝ) :=
  [(a, Real.pi / 2), (b, Real.pi / 2), (b, Real.pi / 2), (a, Real.pi / 2), (c, Real.pi / 2), (c, Real.pi / 2),
   (a, Real.pi / 2), (c, Real.pi / 2), (b, Real.pi / 2), (c, Real.pi / 2), (b, Real.pi / 2), (a, Real.pi / 2)]

theorem c11_boxCore_edgeTerms (a b c : ℝ) (ha : 0 ≤ a) (hb : 0 ≤ b) (hc : 0 ≤ c) :
    CP.edgeTerms (c11_boxCore a b c) = .ok (c11_boxLoop a b c) := by
  rw [edgeTerms_ok _ (c11_boxCore_wf a b c)]
  have sa : Real.sqrt (a * a) = a := Real.sqrt_mul_self ha
  have sb : Real.sqrt (b * b) = b := Real.sqrt_mul_self hb
  have sc : Real.sqrt (c * c) = c := Real.sqrt_mul_self hc
  simp only [c11_boxCore, Core.edgeOf, c11_boxLoop, List.map_cons, List.map_nil,
    dihedral_arccos, V3.norm, V3.normSq, V3.dot, V3.sub_x, V3.sub_y, V3.sub_z, Scalar.sqrt_real]
  norm_num [List.getD, Real.arccos_zero, sa, sb, sc]
  ring

open Steiner.BoxMeasure in
/-- **the whole model pipeline on a box is the measured parallel body**: `_find_neighbors`, the
neighbour test of `get_dihedral`, `acos(clip(−n₁·n₂))`, the edge lengths and the three-term sum of
`ConvexSpheropolyhedron.volume`, run on the core record of `[0,a]×[0,b]×[0,c]`, return a number whose
`ENNReal.ofReal` is the Lebesgue measure of the `r`-neighbourhood of the box. -/
theorem steiner_box_measure_core (a b c r : ℝ) (ha : 0 ≤ a) (hb : 0 ≤ b) (hc : 0 ≤ c) (hr : 0 ≤ r) :
    ∃ v, SpheroPolyhedron.volume (c11_boxCore a b c) r = .ok v ∧
      MeasureTheory.volume (parallel3 (box a b c) r) = ENNReal.ofReal v := by
  refine ⟨SpheroPolyhedron.volumeOf (a * b * c) (2 * (a * b + b * c + c * a)) r (c11_boxLoop a b c), ?_, ?_⟩
  · unfold SpheroPolyhedron.volume
    rw [c11_boxCore_edgeTerms a b c ha hb hc]; rfl
  · rw [volume_parallel_box a b c r ha hb hc hr, volumeOf_eq]
    congr 1
    simp only [c11_boxLoop, edgeSumR, List.map_cons, List.map_nil, List.sum_cons, List.sum_nil]
    ring

/-- for a box the trusted `H = ½ Σ L θ` is what the measured Steiner polynomial contains:
`M = (a + b + c)/4`, i.e. `H = 4πM = π (a + b + c)` is the `r²` coefficient of the measured volume -/
theorem box_mean_curvature (a b c : ℝ) : CP.meanCurvatureOf (c11_boxEdges a b c) = (a + b + c) / 4 := by
  rw [meanCurvatureOf_eq, c11_boxEdges_sum]
  have := pi_ne_zero
  field_simp; ring

/-- the loop data of a right prism of height `h` over a polygon whose edges have lengths `L_i` and
whose vertices have exterior angles `θ_i` (`base = [(L_i, θ_i)]`): one vertical edge per vertex
(length `h`, dihedral `π − θ_i`), and every base edge twice (top and bottom, dihedral `π/2`) -/
def c11_prismEdges (h : ℝ) (base : List (ℝ × ℝ)) : List (ℝ × ℝ) :=
  base.map (fun e => (h, Real.pi - e.2)) ++ base.map (fun e => (e.1, Real.pi / 2))
    ++ base.map (fun e => (e.1, Real.pi / 2))

theorem c11_prismEdges_sum (h : ℝ) (base : List (ℝ × ℝ)) :
    edgeSumR (c11_prismEdges h base)
      = h * (base.map Prod.snd).sum + Real.pi * (base.map Prod.fst).sum := by
  unfold c11_prismEdges edgeSumR
  simp only [List.map_append, List.sum_append, List.map_map]
  induction base with
  | nil => simp
  | cons e t ih =>
    simp only [List.map_cons, List.sum_cons, Function.comp] at ih ⊢
    linarith

open Steiner.BoxMeasure in
/-- **spatial Steiner formula for every right prism, relative to the planar formula of its base**:
if the planar parallel bodies of `K` (sublevel sets of the squared distance `g`) have area
`A + Pρ + πρ²`, and the base polygon's exterior angles add up to `2π`
(`polygon_exterior_angles_sum`) and its edge lengths to `P`, then the model's
`ConvexSpheropolyhedron.volume` on the prism's core data (`V = hA`, `S = 2A + hP`, the prism's
edge list) IS the Lebesgue measure of the `r`-neighbourhood of `[0,h] × K`.  In particular the
trusted `H = ½ Σ L·θ` is the measured `r²` coefficient for every such prism. -/
theorem steiner_prism_measure (K : Set (ℝ × ℝ)) (g : ℝ × ℝ → ℝ) (hg : Measurable g) (hg0 : ∀ q, 0 ≤ g q)
    (hK : ∀ ρ, 0 ≤ ρ → parallel2 K ρ = {q | g q ≤ ρ ^ 2})
    (A P : ℝ) (hA : 0 ≤ A) (hP : 0 ≤ P)
    (hSt : ∀ ρ, 0 ≤ ρ → MeasureTheory.volume (parallel2 K ρ) = ENNReal.ofReal (A + P * ρ + Real.pi * ρ ^ 2))
    (base : List (ℝ × ℝ)) (hθ : (base.map Prod.snd).sum = 2 * Real.pi) (hL : (base.map Prod.fst).sum = P)
    (h r : ℝ) (hh : 0 ≤ h) (hr : 0 ≤ r) :
    MeasureTheory.volume (parallel3 (prism h K) r)
      = ENNReal.ofReal (SpheroPolyhedron.volumeOf (h * A) (2 * A + h * P) r (c11_prismEdges h base)) := by
  rw [volume_parallel_prism K g hg hg0 hK A P hA hP hSt h r hh hr, volumeOf_eq, c11_prismEdges_sum, hθ, hL]
  congr 1; ring

open Steiner.BoxMeasure in
/-- the hypotheses of `steiner_prism_measure` are satisfiable: the rectangle `[0,a]×[0,b]` as base -/
example (a b h r : ℝ) (ha : 0 ≤ a) (hb : 0 ≤ b) (hh : 0 ≤ h) (hr : 0 ≤ r) :
    MeasureTheory.volume (parallel3 (prism h (rect a b)) r)
      = ENNReal.ofReal (SpheroPolyhedron.volumeOf (h * (a * b)) (2 * (a * b) + h * (2 * (a + b))) r
          (c11_prismEdges h [(a, Real.pi / 2), (b, Real.pi / 2), (a, Real.pi / 2), (b, Real.pi / 2)])) :=
  steiner_prism_measure (rect a b) (fun q => dist1 a q.1 ^ 2 + dist1 b q.2 ^ 2)
    ((((measurable_dist1 a).comp measurable_fst).pow_const 2).add
      (((measurable_dist1 b).comp measurable_snd).pow_const 2))
    (fun q => add_nonneg (sq_nonneg _) (sq_nonneg _))
    (fun ρ _ => parallel2_rect a b ρ ha hb) (a * b) (2 * (a + b)) (mul_nonneg ha hb) (by positivity)
    (fun ρ hρ => by rw [volume_parallel_rect a b ρ ha hb hρ])
    _ (by simp; ring) (by simp; ring) h r hh hr

/-- Steiner's area polynomial is the derivative in `r` of the volume polynomial (and the planar
perimeter that of the planar area) — the surface clause follows the volume clause -/
theorem steiner_area_is_derivative (V S H A P r : ℝ) :
    HasDerivAt (fun t => SteinerSpec.steinerVolume V S H t) (SteinerSpec.steinerArea S H r) r ∧
    HasDerivAt (fun t => SteinerSpec.steinerArea2 A P t) (SteinerSpec.steinerPerimeter2 P r) r := by
  have h1 : HasDerivAt (fun t : ℝ => t) 1 r := hasDerivAt_id r
  have h2 := h1.mul h1
  have h3 := h2.mul h1
  constructor
  · have := (((hasDerivAt_const r V).add (h1.const_mul S)).add (h2.const_mul H)).add
      (h3.const_mul (4 * Real.pi / 3))
    refine (this.congr_of_eventuallyEq (Filter.Eventually.of_forall fun t => ?_)).congr_deriv ?_
    · simp only [SteinerSpec.steinerVolume, Scalar.lit, Scalar.ofNat_real, Scalar.pi_real, Pi.add_apply,
        Pi.mul_apply]
      push_cast; ring
    · simp only [SteinerSpec.steinerArea, Scalar.lit, Scalar.ofNat_real, Scalar.pi_real, Pi.mul_apply]
      push_cast; ring
  · have := ((hasDerivAt_const r A).add (h1.const_mul P)).add (h2.const_mul Real.pi)
    refine (this.congr_of_eventuallyEq (Filter.Eventually.of_forall fun t => ?_)).congr_deriv ?_
    · simp only [SteinerSpec.steinerArea2, Scalar.pi_real, Pi.add_apply, Pi.mul_apply]
    · simp only [SteinerSpec.steinerPerimeter2, Scalar.lit, Scalar.ofNat_real, Scalar.pi_real]
      push_cast; ring

/-! ### (1'') the vertex pieces of the spatial parallel body add up to one ball -/

/-- **the exterior solid angles (angular defects `2π − Σ face angles`) of a convex polytope add up to
`4π`** — from the exterior-angle theorem for every face (each a strictly convex polygon in its own
plane) and Euler's formula on the counts, both decidable checks the driver runs on the
implementation's own faces.  (Trusted: Girard — the exterior solid angle IS the angular defect.) -/
theorem vertex_caps_sum (nV : Nat) (faces : List (List (ℝ × ℝ)))
    (hf : ∀ f ∈ faces, 3 ≤ f.length ∧ SteinerSpec.allCcw f = true)
    (he : SteinerSpec.eulerOk nV (faces.map List.length) = true) :
    SteinerSpec.capAngleSum nV faces = 4 * Real.pi := capAngleSum_eq nV faces hf he

theorem c11_wedgeSums (r : ℝ) : ∀ es : List (ℝ × ℝ),
    SteinerSpec.wedgeVolumeSum r es = r * r / 2 * edgeSumR es ∧
    SteinerSpec.wedgeAreaSum r es = r * edgeSumR es
  | [] => by simp [SteinerSpec.wedgeVolumeSum, SteinerSpec.wedgeAreaSum, edgeSumR]
  | e :: es => by
    obtain ⟨h1, h2⟩ := c11_wedgeSums r es
    simp only [SteinerSpec.wedgeVolumeSum, SteinerSpec.wedgeAreaSum, h1, h2, SteinerSpec.wedgeVolume,
      SteinerSpec.wedgeArea, SteinerSpec.sectorArea, SteinerSpec.arcLength, SteinerSpec.exterior, edgeSumR,
      List.map_cons, List.sum_cons, Scalar.lit, Scalar.ofNat_real, Scalar.pi_real]
    constructor <;> push_cast <;> ring

/-- **spatial Steiner formulas from the decomposition** core ∪ face slabs ∪ edge wedges ∪ vertex
pieces, and the model's `ConvexSpheropolyhedron.volume` / `surface_area` ARE those sums: the wedges
give `H r²` with `H = ½ Σ L θ`, the vertex pieces one full ball (`vertex_caps_sum`). -/
theorem spatial_steiner_decomposition (V S r : ℝ) (es : List (ℝ × ℝ)) (nV : Nat)
    (faces : List (List (ℝ × ℝ))) (hf : ∀ f ∈ faces, 3 ≤ f.length ∧ SteinerSpec.allCcw f = true)
    (he : SteinerSpec.eulerOk nV (faces.map List.length) = true) :
    SteinerSpec.parallelVolume3 V S es nV faces r
        = SteinerSpec.steinerVolume V S (SteinerSpec.integratedMeanCurvature es) r ∧
    SteinerSpec.parallelArea3 S es nV faces r
        = SteinerSpec.steinerArea S (SteinerSpec.integratedMeanCurvature es) r ∧
    SpheroPolyhedron.volumeOf V S r es = SteinerSpec.parallelVolume3 V S es nV faces r ∧
    SpheroPolyhedron.surfaceAreaOf S r es = SteinerSpec.parallelArea3 S es nV faces r := by
  have hc := vertex_caps_sum nV faces hf he
  obtain ⟨w1, w2⟩ := c11_wedgeSums r es
  have hV : SteinerSpec.parallelVolume3 V S es nV faces r
      = SteinerSpec.steinerVolume V S (SteinerSpec.integratedMeanCurvature es) r := by
    unfold SteinerSpec.parallelVolume3 SteinerSpec.capVolume SteinerSpec.steinerVolume
      SteinerSpec.integratedMeanCurvature
    rw [hc, w1, spec_edgeSum_eq]
    simp only [Scalar.lit, Scalar.ofNat_real, Scalar.pi_real]
    push_cast; ring
  have hA : SteinerSpec.parallelArea3 S es nV faces r
      = SteinerSpec.steinerArea S (SteinerSpec.integratedMeanCurvature es) r := by
    unfold SteinerSpec.parallelArea3 SteinerSpec.capArea SteinerSpec.steinerArea
      SteinerSpec.integratedMeanCurvature
    rw [hc, w2, spec_edgeSum_eq]
    simp only [Scalar.lit, Scalar.ofNat_real, Scalar.pi_real]
    push_cast; ring
  obtain ⟨c1, c2⟩ := sphero_steiner_classical V S r es
  exact ⟨hV, hA, by rw [c1, hV], by rw [c2, hA]⟩

/-- non-vacuity: the six unit-square faces and eight vertices of a cube -/
example : SteinerSpec.capAngleSum 8 (List.replicate 6 c11_unitSquare) = 4 * Real.pi :=
  vertex_caps_sum 8 _ (by
    intro f hf
    rw [List.eq_of_mem_replicate hf]
    exact ⟨by simp [c11_unitSquare], c11_unitSquare_ccw⟩) (by decide)

/-! ### (2) the dihedral angle without `acos` -/

/-- `atan2(|n₁×n₂|, −n₁·n₂)` of ANY non-zero outward normals is the spec's dihedral angle: the
harness' independent oracle (exact rational facet normals, no normalisation, no `acos`) computes
the angle of `dihedral_def` -/
theorem dihedral_atan2_def (n1 n2 : V3 ℝ) (h1 : V3.norm n1 ≠ 0) (h2 : V3.norm n2 ≠ 0) :
    SteinerSpec.dihedralAtan2 n1 n2 = SteinerSpec.dihedral n1 n2 :=
  dihedralAtan2_eq n1 n2 h1 h2

/-- for unit normals the code's `acos` form and the `atan2` form agree -/
theorem dihedral_code_eq_atan2 (n1 n2 : V3 ℝ) (h1 : V3.norm n1 = 1) (h2 : V3.norm n2 = 1) :
    CP.dihedralAngle n1 n2 = SteinerSpec.dihedralAtan2 n1 n2 := by
  rw [dihedral_def n1 n2 h1 h2, dihedral_atan2_def n1 n2 (by rw [h1]; norm_num) (by rw [h2]; norm_num)]

example : SteinerSpec.dihedralAtan2 (⟨1, 0, 0⟩ : V3 ℝ) ⟨0, 1, 0⟩ = SteinerSpec.dihedral ⟨1, 0, 0⟩ ⟨0, 1, 0⟩ :=
  dihedral_atan2_def _ _ (by simp [V3.norm, V3.normSq, V3.dot]) (by simp [V3.norm, V3.normSq, V3.dot])

/-! ### (3) descriptors: similarity invariance; `iq ≤ 1` where elementary

`iq ≤ 1` for every convex body is the isoperimetric inequality; it is NOT proved (not in Mathlib).
-/

/-- **similarity invariance** of `tau`, `asphericity`, `iq` (3-D) and `iq` (2-D): a uniform rescaling
by `k ≠ 0` (`M → kM`, `S → k²S`, `V → k³V`, `A → k²A`, `P → kP`) leaves them unchanged -/
theorem descriptors_similarity (M S V A P k : ℝ) (hk : k ≠ 0) :
    CP.tauOf (k * M) (S * k ^ 2) = CP.tauOf M S ∧
    CP.asphericityOf (k * M) (S * k ^ 2) (V * k ^ 3) = CP.asphericityOf M S V ∧
    Shape3D.iq (V * k ^ 3) (S * k ^ 2) = Shape3D.iq V S ∧
    Shape2D.iq (A * k ^ 2) (P * k) = Shape2D.iq A P :=
  ⟨tauOf_scale M S k hk, asphericityOf_scale M S V k hk, iq3_scale V S k hk, iq2_scale A P k hk⟩

/-- the same through `ConvexPolyhedron._rescale(k)` on the core record (vertices × k, `_volume × k³`,
`_area × k²`, normals and faces kept): `mean_curvature × k`, the three descriptors unchanged,
errors preserved -/
theorem descriptors_rescale_core (c : Core ℝ) (k : ℝ) (hk : 0 < k) :
    CP.meanCurvature (c.rescale k) = (CP.meanCurvature c).map (k * ·) ∧
    CP.tau (c.rescale k) = CP.tau c ∧ CP.asphericity (c.rescale k) = CP.asphericity c ∧
    CP.iq (c.rescale k) = CP.iq c :=
  descriptors_rescale c k hk

/-- **isoperimetric inequality for boxes** (AM–GM): `IQ ≤ π/6 < 1` -/
theorem iq_box_le_one (a b c : ℝ) (ha : 0 < a) (hb : 0 < b) (hc : 0 < c) :
    Shape3D.iq (a * b * c) (2 * (a * b + b * c + c * a)) ≤ Real.pi / 6 ∧
    Shape3D.iq (a * b * c) (2 * (a * b + b * c + c * a)) < 1 :=
  ⟨iq_box_le a b c ha hb hc, iq_box_lt_one a b c ha hb hc⟩

/-- **isoperimetric inequality for rectangles**: `IQ ≤ π/4` -/
theorem iq2_rect_le_one (a b : ℝ) (ha : 0 < a) (hb : 0 < b) :
    Shape2D.iq (a * b) (2 * (a + b)) ≤ Real.pi / 4 := iq2_rect_le a b ha hb

/-- **isoperimetric inequality for regular polygons** (`x = π/n`, area `n/2 R² sin 2x`, perimeter
`2nR sin x`): `IQ = x / tan x ≤ 1` -/
theorem iq2_regular_polygon_le_one (n R x : ℝ) (hn : 0 < n) (hR : 0 < R) (hx0 : 0 < x)
    (hx1 : x < Real.pi / 2) (hnx : n * x = Real.pi) :
    Shape2D.iq (n / 2 * R ^ 2 * Real.sin (2 * x)) (2 * n * R * Real.sin x) ≤ 1 :=
  iq2_regular_le_one n R x hn hR hx0 hx1 hnx

example : Shape2D.iq (4 / 2 * 1 ^ 2 * Real.sin (2 * (Real.pi / 4))) (2 * 4 * 1 * Real.sin (Real.pi / 4)) ≤ 1 :=
  iq2_regular_polygon_le_one 4 1 (Real.pi / 4) (by norm_num) one_pos (by have := Real.pi_pos; positivity)
    (by have := Real.pi_pos; linarith) (by ring)

/-- **rounding keeps the planar isoperimetric deficit** `P² − 4πA`; hence the rounded polygon
satisfies `iq ≤ 1` exactly when its core does -/
theorem spheropolygon_isoperimetric (A P r : ℝ) (hP : 0 < P) (hr : 0 ≤ r) :
    (SteinerSpec.steinerPerimeter2 P r) ^ 2 - 4 * Real.pi * SteinerSpec.steinerArea2 A P r
        = P ^ 2 - 4 * Real.pi * A ∧
    (Shape2D.iq (SteinerSpec.steinerArea2 A P r) (SteinerSpec.steinerPerimeter2 P r) ≤ 1 ↔
      Shape2D.iq A P ≤ 1) :=
  ⟨isoperimetric_deficit_rounding A P r, iq2_rounded_le_one_iff A P r hP hr⟩

/-- **rounding never lowers the isoperimetric quotient**: for a core satisfying the isoperimetric
inequality `4πA ≤ P²`, `iq` of the spheropolygon is monotone in the rounding radius, starts at the core's
own value and stays `≤ 1` (closed form `1 − (P² − 4πA)/P_r²`).  Used by the harness as the law
`c11.iqmono` on the implementation's `ConvexSpheropolygon.iq` through the radius setter. -/
theorem spheropolygon_iq_mono (A P r r' : ℝ) (hP : 0 < P) (hr : 0 ≤ r) (hrr : r ≤ r')
    (hiso : 4 * Real.pi * A ≤ P ^ 2) :
    Shape2D.iq A P ≤ Shape2D.iq (SteinerSpec.steinerArea2 A P r) (SteinerSpec.steinerPerimeter2 P r) ∧
    Shape2D.iq (SteinerSpec.steinerArea2 A P r) (SteinerSpec.steinerPerimeter2 P r) ≤
      Shape2D.iq (SteinerSpec.steinerArea2 A P r') (SteinerSpec.steinerPerimeter2 P r') ∧
    Shape2D.iq (SteinerSpec.steinerArea2 A P r') (SteinerSpec.steinerPerimeter2 P r') ≤ 1 := by
  refine ⟨?_, iq2_rounded_mono A P r r' hP hr hrr hiso, ?_⟩
  · have h := iq2_rounded_mono A P 0 r hP le_rfl hr hiso
    rwa [(steiner2_zero A P).1, (steiner2_zero A P).2] at h
  · rw [iq2_rounded_eq A P r' hP (le_trans hr hrr)]
    have : 0 ≤ (P ^ 2 - 4 * Real.pi * A) / (SteinerSpec.steinerPerimeter2 P r') ^ 2 :=
      div_nonneg (by linarith) (by positivity)
    linarith

/-- non-vacuity: the unit square (`A = 1`, `P = 4`) meets the hypothesis -/
example : 4 * Real.pi * 1 ≤ (4 : ℝ) ^ 2 := by have := Real.pi_le_four; nlinarith

/-! ### (4) histories: radius setter, `_rescale`, size setters in any order -/

/-- **every history of a spheropolyhedron** (radius / volume / surface-area / mean-curvature setters
and `_rescale(k > 0)` in any order and number): if it runs through, the object reached is the initial
core uniformly rescaled by some `K > 0` with a radius `≥ 0`; its `mean_curvature` is `K·M₀`, its three
measures are the Steiner polynomials of ITS CURRENT core, and `tau`, `asphericity`, `iq` of the core
are those of the initial core. -/
theorem sphero_history_steiner (s0 s : SpheroPolyhedron.State ℝ) (h0 : SpheroPolyhedron.Good s0)
    (ops : List (SpheroPolyhedron.Op ℝ)) (hv : ∀ op ∈ ops, op.Valid) (hrun : s0.run ops = .ok s) :
    ∃ K M0, 0 < K ∧ 0 ≤ s.radius ∧ s.core = s0.core.rescale K ∧
      CP.meanCurvature s0.core = .ok M0 ∧ CP.meanCurvature s.core = .ok (K * M0) ∧
      SpheroPolyhedron.volume s.core s.radius
        = .ok (SteinerSpec.statedVolume s.core.volume s.core.area (K * M0) s.radius) ∧
      SpheroPolyhedron.surfaceArea s.core s.radius
        = .ok (SteinerSpec.statedArea s.core.area (K * M0) s.radius) ∧
      SpheroPolyhedron.meanCurvature s.core s.radius
        = .ok (SteinerSpec.statedMeanCurvature (K * M0) s.radius) ∧
      s.core.volume = s0.core.volume * K ^ 3 ∧ s.core.area = s0.core.area * K ^ 2 ∧
      CP.tau s.core = CP.tau s0.core ∧ CP.asphericity s.core = CP.asphericity s0.core ∧
      CP.iq s.core = CP.iq s0.core := by
  obtain ⟨K, hK, hc, hg⟩ := SpheroPolyhedron.run_good ops s0 s h0 hv hrun
  obtain ⟨es0, hes0, _⟩ := h0.es
  have hM0 : CP.meanCurvature s0.core = .ok (CP.meanCurvatureOf es0) := by
    unfold CP.meanCurvature; rw [hes0]; rfl
  obtain ⟨d1, d2, d3, d4⟩ := descriptors_rescale_core s0.core K hK
  have hM : CP.meanCurvature s.core = .ok (K * CP.meanCurvatureOf es0) := by
    rw [hc, d1, hM0]; rfl
  obtain ⟨v1, v2, v3⟩ := sphero_steiner_core s.core s.radius _ hM
  refine ⟨K, _, hK, hg.rad, hc, hM0, hM, v1, v2, v3, ?_, ?_, ?_, ?_, ?_⟩
  · rw [hc]; simp only [Core.rescale, Scalar.cube]; ring
  · rw [hc]; simp only [Core.rescale, Scalar.sqr]; ring
  · rw [hc, d2]
  · rw [hc, d3]
  · rw [hc, d4]

/-- **every history of a spheropolygon** (radius / area / perimeter setters and `_rescale(k > 0)`): the
stored vertices are the initial ones × `K > 0`; the sign split of `signed_area` is the one of the
INITIAL core (either orientation), and area / perimeter are the planar Steiner polynomials of the
current core `(|a₀| K², K P₀)`.  `polyArea` is `Polygon.signed_area` as a function of the stored
vertices, assumed homogeneous of degree 2 (`Poly2.signedArea_scale` for the model of C04). -/
theorem spheropolygon_history_sign (polyArea : List (V3 ℝ) → ℝ) (hhom : SpheroPolygon.Hom2 polyArea)
    (s0 s : SpheroPolygon.State ℝ) (h0 : SpheroPolygon.Good polyArea s0)
    (ops : List (SpheroPolygon.Op ℝ)) (hv : ∀ op ∈ ops, op.Valid) (hrun : s0.run polyArea ops = .ok s) :
    ∃ K, 0 < K ∧ 0 ≤ s.radius ∧ s.vertices = s0.vertices.map (scaleV K) ∧
      s.signedArea polyArea =
        (if polyArea s0.vertices < 0 then
          -(SteinerSpec.steinerArea2 (-(polyArea s0.vertices) * K ^ 2) (K * Polygon.perimeter s0.vertices) s.radius)
        else SteinerSpec.steinerArea2 (polyArea s0.vertices * K ^ 2) (K * Polygon.perimeter s0.vertices) s.radius) ∧
      s.area polyArea
        = SteinerSpec.steinerArea2 (|polyArea s0.vertices| * K ^ 2) (K * Polygon.perimeter s0.vertices) s.radius ∧
      s.perimeter = SteinerSpec.steinerPerimeter2 (K * Polygon.perimeter s0.vertices) s.radius := by
  obtain ⟨K, hK, hvs, hg⟩ := SpheroPolygon.run_good hhom ops s0 s h0 hv hrun
  have ha : polyArea s.vertices = K ^ 2 * polyArea s0.vertices := by rw [hvs, hhom]
  have hP : Polygon.perimeter s.vertices = K * Polygon.perimeter s0.vertices := by
    rw [hvs, SpheroPolygon.perimeter_scale, abs_of_pos hK]
  have hK2 : 0 < K ^ 2 := by positivity
  refine ⟨K, hK, hg.rad, hvs, ?_, ?_, ?_⟩
  · unfold SpheroPolygon.State.signedArea
    rw [spheropolygon_signed_area_steiner, ha, hP]
    by_cases hneg : polyArea s0.vertices < 0
    · rw [if_pos (by nlinarith), if_pos hneg]; congr 2; ring
    · rw [if_neg (by rw [not_lt] at hneg ⊢; positivity), if_neg hneg]; congr 1; ring
  · unfold SpheroPolygon.State.area
    rw [spheropolygon_area_steiner _ _ _ hg.rad, ha, hP, abs_mul, abs_of_pos hK2]; congr 1; ring
  · unfold SpheroPolygon.State.perimeter
    rw [spheropolygon_perimeter, hP]

/-- the same with `polygon.signed_area` := the model of `Polygon.signed_area` of C04 (`Poly2.signedArea`,
any stored normal `n`): its homogeneity is PROVED (`poly2_signedArea_hom`), so no hypothesis on the core
area function remains — this is the function the driver runs in the history correspondence op
`c11.hist2` -/
theorem spheropolygon_history_sign_c04 (n : V3 ℝ) (s0 s : SpheroPolygon.State ℝ)
    (h0 : SpheroPolygon.Good (fun vs => Poly2.signedArea vs n) s0)
    (ops : List (SpheroPolygon.Op ℝ)) (hv : ∀ op ∈ ops, op.Valid)
    (hrun : s0.run (fun vs => Poly2.signedArea vs n) ops = .ok s) :
    ∃ K, 0 < K ∧ 0 ≤ s.radius ∧ s.vertices = s0.vertices.map (scaleV K) ∧
      (Poly2.signedArea s0.vertices n < 0 → s.signedArea (fun vs => Poly2.signedArea vs n) < 0) ∧
      (0 < Poly2.signedArea s0.vertices n → 0 < s.signedArea (fun vs => Poly2.signedArea vs n)) ∧
      s.area (fun vs => Poly2.signedArea vs n)
        = SteinerSpec.steinerArea2 (|Poly2.signedArea s0.vertices n| * K ^ 2)
            (K * Polygon.perimeter s0.vertices) s.radius ∧
      s.perimeter = SteinerSpec.steinerPerimeter2 (K * Polygon.perimeter s0.vertices) s.radius := by
  obtain ⟨K, hK, hr, hvs, hsg, har, hpe⟩ :=
    spheropolygon_history_sign _ (SpheroPolygon.poly2_signedArea_hom n) s0 s h0 ops hv hrun
  have hpi := Real.pi_pos
  have hP := h0.per
  have hK2 : 0 < K ^ 2 := by positivity
  have hrest : 0 ≤ K * Polygon.perimeter s0.vertices * s.radius + Real.pi * (s.radius * s.radius) := by
    have := hP.le; positivity
  refine ⟨K, hK, hr, hvs, ?_, ?_, har, hpe⟩
  · intro hneg
    rw [hsg, if_pos hneg]
    unfold SteinerSpec.steinerArea2
    simp only [Scalar.pi_real]
    nlinarith
  · intro hpos
    rw [hsg, if_neg (not_lt.mpr hpos.le)]
    unfold SteinerSpec.steinerArea2
    simp only [Scalar.pi_real]
    nlinarith

/-! non-vacuity of the history theorems: the rounded cube `[-1,1]³`, `r = ½`, after
`volume = 20; radius = 0.3; surface_area = 3`, and a clockwise spherosquare -/

theorem c11_cube_wf : c11_cubeCore.WellFormed := by
  intro f hf
  simp only [c11_cubeCore, List.mem_cons, List.not_mem_nil, or_false] at hf
  rcases hf with rfl | rfl | rfl | rfl | rfl | rfl | rfl | rfl | rfl | rfl | rfl | rfl <;>
    simp [c11_cubeCore]

theorem c11_cube_edgeTerms : CP.edgeTerms c11_cubeCore = .ok c11_cubeEdges := by
  have he : c11_cubeCore.fi.map c11_cubeCore.edgeOf = c11_cubeEdges := by
    simp only [c11_cubeCore, Core.edgeOf, c11_cubeEdges, List.map_cons, List.map_nil, List.replicate,
      dihedral_arccos, V3.norm, V3.normSq, V3.dot, V3.sub_x, V3.sub_y, V3.sub_z, Scalar.sqrt_real]
    norm_num [List.getD, sqrt4, Real.arccos_zero]
    ring
  rw [edgeTerms_ok _ c11_cube_wf, he]

theorem c11_cube_good : SpheroPolyhedron.Good ⟨c11_cubeCore, 1 / 2⟩ := by
  refine ⟨⟨c11_cubeEdges, c11_cube_edgeTerms, ?_⟩, by norm_num [c11_cubeCore], by norm_num [c11_cubeCore],
    by norm_num⟩
  have := Real.pi_pos
  simp only [c11_cubeEdges, edgeSumR, List.replicate, List.map_cons, List.map_nil, List.sum_cons,
    List.sum_nil]
  nlinarith

example (s : SpheroPolyhedron.State ℝ)
    (h : (⟨c11_cubeCore, 1 / 2⟩ : SpheroPolyhedron.State ℝ).run
      [.setVolume 20, .setRadius (3 / 10), .setSurfaceArea 3] = .ok s) :
    ∃ K M0, 0 < K ∧ 0 ≤ s.radius ∧ s.core = c11_cubeCore.rescale K ∧ CP.meanCurvature c11_cubeCore = .ok M0 ∧
      SpheroPolyhedron.volume s.core s.radius
        = .ok (SteinerSpec.statedVolume s.core.volume s.core.area (K * M0) s.radius) := by
  obtain ⟨K, M0, h1, h2, h3, h4, _, h6, _⟩ :=
    sphero_history_steiner _ s c11_cube_good _ (by intro op hop; cases op <;> simp_all [SpheroPolyhedron.Op.Valid]) h
  exact ⟨K, M0, h1, h2, h3, h4, h6⟩

/-- a clockwise spherosquare (`a₀ = −4`) stays clockwise through `area = 10; radius = 1; perimeter = 3` -/
theorem c11_squareCw_good : SpheroPolygon.Good SpheroPolygon.xyArea ⟨c11_squareCw, 1 / 2⟩ := by
  refine ⟨?_, ?_, by norm_num⟩
  · simp [SpheroPolygon.xyArea, c11_squareCw, roll]
  · simp only [Polygon.perimeter, c11_squareCw, roll, List.cons_append, List.nil_append,
      List.zipWith_cons_cons, List.zipWith_nil_right, Scalar.sum_real, List.sum_cons, List.sum_nil,
      V3.norm, V3.normSq, V3.dot, V3.sub_x, V3.sub_y, V3.sub_z, Scalar.sqrt_real]
    norm_num [sqrt4]

example (s : SpheroPolygon.State ℝ)
    (h : (⟨c11_squareCw, 1 / 2⟩ : SpheroPolygon.State ℝ).run SpheroPolygon.xyArea
      [.setArea 10, .setRadius 1, .setPerimeter 3] = .ok s) :
    s.signedArea SpheroPolygon.xyArea < 0 := by
  obtain ⟨K, hK, hr, _, hs, _⟩ := spheropolygon_history_sign _ SpheroPolygon.xyArea_hom _ s c11_squareCw_good _
    (by intro op hop; cases op <;> simp_all [SpheroPolygon.Op.Valid]) h
  have ha : SpheroPolygon.xyArea c11_squareCw = -4 := by
    simp [SpheroPolygon.xyArea, c11_squareCw, roll]; norm_num
  have hP := c11_squareCw_good.per
  simp only [ha] at hs
  rw [hs, if_pos (by norm_num)]
  unfold SteinerSpec.steinerArea2
  simp only [Scalar.pi_real]
  have := Real.pi_pos
  have : 0 < K ^ 2 := by positivity
  have : 0 ≤ K * Polygon.perimeter c11_squareCw * s.radius := by
    have := hP.le; positivity
  have : 0 ≤ Real.pi * (s.radius * s.radius) := by positivity
  nlinarith

end
