import CoxeterVerif.Lemmas.CovariancePolytri
import CoxeterVerif.Lemmas.CovarianceInside3D
import CoxeterVerif.Lemmas.CovarianceInside2D
import CoxeterVerif.Lemmas.CovarianceCircle
import CoxeterVerif.Lemmas.CovarianceBalls
import CoxeterVerif.Lemmas.CovarianceDts
import CoxeterVerif.Lemmas.CovarianceFF
import CoxeterVerif.Lemmas.CovarianceSteiner
import CoxeterVerif.Lemmas.CovarianceTol
import CoxeterVerif.Props.C01
import CoxeterVerif.Props.C02
import CoxeterVerif.Props.C14
/-!
  # C09 — results are covariant under rotation, translation, scaling and relabelling

  Models: `CP` (ConvexPolyhedron measures), `Poly3` + `Polytri` (Polyhedron measures, ear clipping),
  `Poly2` (Polygon measures) — the models of C01/C02/C04, unchanged.  Transformations of the input:

  * `scS k S`, `scV k vs`   uniform scaling `x ↦ k x`   of a triangle list / a vertex list,
  * `addS t S`, `addT t Ts` translation `x ↦ x + t`,
  * `rotS R S`, `rotT R Ts` rotation `x ↦ R x`, `R : M3 ℝ` nine reals with `IsRot R`
                            (`RᵀR = 1` as six equations, `det R = 1`),
  * `ChainEq`, `List.Perm`, `Tri.rot`, `Poly2.rotl k`   relabellings.

  All statements are over ℝ, for every list (no bound on the number of vertices / triangles /
  tetrahedra).  What is TERM-WISE true is stated for every list `S`; translation and rotation
  covariance of the *surface* formulas for volume, centroid (and, for rotations, the inertia sums,
  whose summands use component-wise products) is not term-wise true — see
  `translate_termwise_fails` — and is obtained, for every surface that bounds a tetrahedralised
  solid (`ChainEq S (Ts.flatMap Tet.bdry)`), from the exactness theorems of C01/C02 and the
  transformation laws of the exact integrals (`Spec.*_add`, `IsRot.*_rot`, `Spec.*_scale`).
-/
open Scalar
set_option maxRecDepth 8000
noncomputable section

abbrev rotS (R : M3 ℝ) (S : List (Tri ℝ)) : List (Tri ℝ) := S.map (Tri.map (M3.mulVec R))

/-! ## 1. Scaling: lengths × k, areas × k², volumes × k³, inertia × k⁵ (polygons: × k⁴) -/

/-- **C09 scaling, volume.** `k³` for every real `k` (the signed volume changes sign with `k`) and
for the reported absolute volume when `k ≥ 0`. -/
theorem scale_cp_volume (k : ℝ) (S : List (Tri ℝ)) :
    CP.signedVolume (scS k S) = k ^ 3 * CP.signedVolume S ∧
    (0 ≤ k → CP.volume (scS k S) = k ^ 3 * CP.volume S) :=
  ⟨CP.signedVolume_scale k S, fun hk => CP.volume_scale hk S⟩

/-- **C09 scaling, surface area** (`k ≥ 0`). -/
theorem scale_cp_area {k : ℝ} (hk : 0 ≤ k) (S : List (Tri ℝ)) :
    CP.surfaceArea (scS k S) = k ^ 2 * CP.surfaceArea S := CP.surfaceArea_scale hk S

/-- **C09 scaling, centroid**: with the volume the code itself stores, the centroid of the scaled
surface is the scaled centroid (`k > 0`). -/
theorem scale_cp_centroid {k : ℝ} (hk : 0 < k) (S : List (Tri ℝ)) :
    CP.centroid (scS k S) (CP.volume (scS k S)) = V3.smul k (CP.centroid S (CP.volume S)) := by
  rw [CP.volume_scale hk.le, CP.centroid_scale hk.ne']

/-- **C09 scaling, inertia tensor**: `k⁵` with the code's own centroid and volume (`k > 0`);
term-wise, for every list of triangles (degenerate ones included). -/
theorem scale_cp_inertia {k : ℝ} (hk : 0 < k) (S : List (Tri ℝ)) :
    CP.inertia (scS k S) (CP.centroid (scS k S) (CP.volume (scS k S))) (CP.volume (scS k S))
      = M3.smulR (k ^ 5) (CP.inertia S (CP.centroid S (CP.volume S)) (CP.volume S)) := by
  rw [scale_cp_centroid hk, CP.volume_scale hk.le, CP.inertia_scale hk]

/-- **C09 scaling, general polyhedron**: Eberly centroid × k (`k ≠ 0`), Kallay inertia × k⁵
(`k > 0`; the global sign `np.sign(np.sum(volumes))` is scale free). -/
theorem scale_poly3 {k : ℝ} (hk : 0 < k) (S : List (Tri ℝ)) (v : ℝ) :
    Poly3.centroid (scS k S) = V3.smul k (Poly3.centroid S) ∧
    Poly3.inertia (scS k S) (Poly3.centroid (scS k S)) (k ^ 3 * v)
      = M3.smulR (k ^ 5) (Poly3.inertia S (Poly3.centroid S) v) := by
  refine ⟨Poly3.centroid_scale hk.ne' S, ?_⟩
  rw [Poly3.centroid_scale hk.ne', Poly3.inertia_scale hk]

/-- **C09 scaling, polygon**: signed area and area × k², perimeter × |k|, centroid × k, planar and
polar moments × k⁴ (`k ≠ 0`), for every vertex list, every normal and alignment matrix. -/
theorem scale_polygon {k : ℝ} (hk : k ≠ 0) (vs : List (V3 ℝ)) (n : V3 ℝ) (R : M3 ℝ) :
    Poly2.signedArea (scV k vs) n = k ^ 2 * Poly2.signedArea vs n ∧
    Poly2.area (scV k vs) n = k ^ 2 * Poly2.area vs n ∧
    Poly2.perimeter (scV k vs) = |k| * Poly2.perimeter vs ∧
    Poly2.centroid (scV k vs) n R = V3.smul k (Poly2.centroid vs n R) ∧
    Poly2.planarMoments (scV k vs) R =
      (k ^ 4 * (Poly2.planarMoments vs R).1, k ^ 4 * (Poly2.planarMoments vs R).2.1,
       k ^ 4 * (Poly2.planarMoments vs R).2.2) ∧
    Poly2.polarMoment (scV k vs) R = k ^ 4 * Poly2.polarMoment vs R :=
  ⟨Poly2.signedArea_scale vs n, Poly2.area_scale vs n, Poly2.perimeter_scale k vs,
   Poly2.centroid_scale hk vs n R, Poly2.planarMoments_scale hk vs R, Poly2.polarMoment_scale hk vs R⟩

theorem translateInertia_scale4 (k : ℝ) (d : V3 ℝ) (I : M3 ℝ) (v : ℝ) :
    CP.translateInertia (V3.smul k d) (M3.smulR (k ^ 4) I) (k ^ 2 * v) =
      M3.smulR (k ^ 4) (CP.translateInertia d I v) := by
  unfold CP.translateInertia
  apply M3.ext' <;> simp only [M3.smulR, V3.dot, V3.smul_x, V3.smul_y, V3.smul_z, Scalar.lit, Scalar.ofNat_real] <;>
    push_cast <;> ring

/-- **C09 scaling, polygon inertia tensor**: × k⁴ (area moment; `k ≠ 0`). -/
theorem scale_polygon_inertia {k : ℝ} (hk : k ≠ 0) (vs : List (V3 ℝ)) (n : V3 ℝ) (R R2 : M3 ℝ) :
    Poly2.inertiaTensor (scV k vs) n R R2 = M3.smulR (k ^ 4) (Poly2.inertiaTensor vs n R R2) := by
  unfold Poly2.inertiaTensor
  simp only [Poly2.centroid_scale hk, Poly2.area_scale]
  have h1 : (scV k vs).map (· - V3.smul k (Poly2.centroid vs n R)) = scV k (vs.map (· - Poly2.centroid vs n R)) := by
    simp only [scV, List.map_map]
    apply List.map_congr_left
    intro p _
    simp only [Function.comp, V3.smul_sub]
  rw [h1, Poly2.align_scale, Poly2.polarMoment_scale hk, ← translateInertia_scale4]
  congr 1
  simp only [Poly2.rotateTensor, M3.mul, M3.transpose, M3.smulR, Scalar.lit, Scalar.ofNat_real]
  apply M3.ext' <;> simp only [] <;> push_cast <;> ring

/-- **C09 scaling, ear clipping.** With the thresholds as repaired (all relative), every decision
of `polytri.triangulate` is scale free, so triangulating the scaled polygon gives the scaled
triangles in the same order — or the same error — for every polygon and every `k ≠ 0`:
in particular a face that triangulates at size 1 triangulates at size 10⁻³ and 10³. -/
theorem scale_polytri {k : ℝ} (hk : k ≠ 0) (poly : List (V3 ℝ)) :
    Polytri.triangulate (scV k poly) = Polytri.mapRes k (Polytri.triangulate poly) :=
  Polytri.triangulate_scale hk poly

/-- the individual homogeneity facts behind `scale_polytri`: Newell normal (degree 2), zero-normal
test, ear test `dot > 1e-6 |normal|²` (degree 4 on both sides), closed point-in-ear test. -/
theorem scale_polytri_decisions {k : ℝ} (hk : k ≠ 0) (poly : List (V3 ℝ)) (normal a b c : V3 ℝ)
    (pts : List (V3 ℝ)) :
    Polytri.newell (scV k poly) = V3.smul (k ^ 2) (Polytri.newell poly) ∧
    Polytri.degenerate (scV k poly) (V3.smul (k ^ 2) normal) = Polytri.degenerate poly normal ∧
    (Polytri.earTest (V3.smul (k ^ 2) normal) (V3.smul k a) (V3.smul k b) (V3.smul k c)
      ↔ Polytri.earTest normal a b c) ∧
    Polytri.anyPointInTriangle (V3.smul k a) (V3.smul k b) (V3.smul k c) (scV k pts)
      = Polytri.anyPointInTriangle a b c pts :=
  ⟨Polytri.newell_scale k poly, Polytri.degenerate_scale hk poly normal,
   Polytri.earTest_scale hk normal a b c, Polytri.anyPointInTriangle_scale hk a b c pts⟩

/-- **C09 scaling, exact integrals** (what the models are compared with): degrees 3, 4, 5. -/
theorem scale_spec (k : ℝ) (Ts : List (Tet ℝ)) :
    Spec.vol (scT k Ts) = k ^ 3 * Spec.vol Ts ∧
    Spec.first (scT k Ts) = V3.smul (k ^ 4) (Spec.first Ts) ∧
    (∀ i j, Spec.second (scT k Ts) i j = k ^ 5 * Spec.second Ts i j) ∧
    Spec.inertia (scT k Ts) = M3.smulR (k ^ 5) (Spec.inertia Ts) :=
  ⟨Spec.vol_scale k Ts, Spec.first_scale k Ts, Spec.second_scale k Ts, Spec.inertia_scale k Ts⟩

/-! ## 2. Translation -/

/-- **C09 translation, exact integrals**: volume invariant, first moment `+ vol · t`, second
moments by the parallel-axis polynomial, centroid moves with the solid, inertia tensor about the
origin = tensor about the (unchanged) centroidal frame shifted to the moved centroid. -/
theorem translate_spec (Ts : List (Tet ℝ)) (t : V3 ℝ) :
    Spec.vol (addT t Ts) = Spec.vol Ts ∧
    Spec.first (addT t Ts) = Spec.first Ts + V3.smul (Spec.vol Ts) t ∧
    (∀ i j, i < 3 → j < 3 → Spec.second (addT t Ts) i j =
      Spec.second Ts i j + t.get i * (Spec.first Ts).get j + t.get j * (Spec.first Ts).get i
        + t.get i * t.get j * Spec.vol Ts) ∧
    (Spec.vol Ts ≠ 0 → Spec.centroid (addT t Ts) = Spec.centroid Ts + t) ∧
    (Spec.vol Ts ≠ 0 → Spec.inertia (addT t Ts) = CP.translateInertia (Spec.centroid Ts + t)
      (Spec.inertia (Ts.map (Tet.map (· - Spec.centroid Ts)))) (Spec.vol Ts)) :=
  ⟨Spec.vol_add Ts t, Spec.first_add Ts t, fun i j hi hj => Spec.second_add Ts t i j hi hj,
   Spec.centroid_add Ts t, Spec.inertia_add Ts t⟩

theorem chain_add {S : List (Tri ℝ)} {Ts : List (Tet ℝ)} (t : V3 ℝ)
    (h : ChainEq S (Ts.flatMap Tet.bdry)) : ChainEq (addS t S) ((addT t Ts).flatMap Tet.bdry) := by
  have := ChainEq.map (· + t) h
  rwa [← flatMap_bdry_map] at this

/-- **C09 translation, convex polyhedron volume and centroid**: for every surface bounding a
solid the signed volume is unchanged and the centroid moves by `t`. -/
theorem translate_cp {S : List (Tri ℝ)} {Ts : List (Tet ℝ)} (t : V3 ℝ)
    (h : ChainEq S (Ts.flatMap Tet.bdry)) (hpos : 0 < Spec.vol Ts) :
    CP.signedVolume (addS t S) = CP.signedVolume S ∧
    CP.centroid (addS t S) (CP.volume (addS t S)) = CP.centroid S (CP.volume S) + t := by
  have hpos' : 0 < Spec.vol (addT t Ts) := by rw [Spec.vol_add]; exact hpos
  refine ⟨?_, ?_⟩
  · rw [cp_volume_exact (chain_add t h), cp_volume_exact h, Spec.vol_add]
  · rw [cp_centroid_exact (chain_add t h) hpos', cp_centroid_exact h hpos, Spec.centroid_add Ts t hpos.ne']

/-- **term-wise translation covariance of the surface formulas is FALSE**: for a single triangle
(an open surface) the signed-volume sum changes under a translation.  Hence the `ChainEq`
hypothesis of `translate_cp` cannot be dropped. -/
theorem translate_termwise_fails :
    ¬ (∀ (S : List (Tri ℝ)) (t : V3 ℝ), CP.signedVolume (addS t S) = CP.signedVolume S) := by
  intro h
  have := h [⟨⟨1,0,0⟩, ⟨0,1,0⟩, ⟨0,0,1⟩⟩] ⟨1,0,0⟩
  simp only [CP.signedVolume, addS, List.map_cons, List.map_nil] at this
  revert this
  unfold_model
  norm_num

/-- **C09 translation, inertia tensor (both polyhedron classes)**: the tensor about the centroid is
term-wise invariant when the centroid moves with the shape, so the reported tensor about the
origin differs exactly by the parallel-axis shift to the new centroid. -/
theorem translate_inertia (S : List (Tri ℝ)) (c t : V3 ℝ) (v : ℝ) :
    CP.inertia (addS t S) (c + t) v = CP.translateInertia (c + t) (CP.inertiaCentred S c) v ∧
    Poly3.inertia (addS t S) (c + t) v = CP.translateInertia (c + t) (Poly3.inertiaCentred S c) v := by
  unfold CP.inertia Poly3.inertia
  rw [CP.inertiaCentred_add, Poly3.inertiaCentred_add]
  exact ⟨rfl, rfl⟩

/-- with the code's own centroid and volume, for a surface bounding a solid -/
theorem translate_cp_inertia {S : List (Tri ℝ)} {Ts : List (Tet ℝ)} (t : V3 ℝ)
    (h : ChainEq S (Ts.flatMap Tet.bdry)) (hpos : 0 < Spec.vol Ts) :
    CP.inertia (addS t S) (CP.centroid (addS t S) (CP.volume (addS t S))) (CP.volume (addS t S))
      = CP.translateInertia (CP.centroid S (CP.volume S) + t)
          (CP.inertiaCentred S (CP.centroid S (CP.volume S))) (CP.volume S) := by
  have hv : CP.volume (addS t S) = CP.volume S := by
    unfold CP.volume; rw [(translate_cp t h hpos).1]
  rw [(translate_cp t h hpos).2, hv]
  exact (translate_inertia S _ t _).1

/-- **C09 translation, general polyhedron**: Eberly centroid moves with the mesh (any closed
surface bounding a solid of non-zero volume, convex or not). -/
theorem translate_poly3_centroid {S : List (Tri ℝ)} {Ts : List (Tet ℝ)} (t : V3 ℝ)
    (h : ChainEq S (Ts.flatMap Tet.bdry)) (hv : Spec.vol Ts ≠ 0) :
    Poly3.centroid (addS t S) = Poly3.centroid S + t := by
  have hv' : Spec.vol (addT t Ts) ≠ 0 := by rw [Spec.vol_add]; exact hv
  rw [poly_centroid_exact (chain_add t h) hv', poly_centroid_exact h hv, Spec.centroid_add Ts t hv]

/-- **C09 translation, polygon**: perimeter (term-wise) and signed area / area (the summands change,
their sum round the closed vertex cycle does not) are invariant under every translation, for every
vertex list and every stored normal / projection axis. -/
theorem translate_polygon (t : V3 ℝ) (vs : List (V3 ℝ)) (n : V3 ℝ) :
    Poly2.perimeter (addV t vs) = Poly2.perimeter vs ∧
    Poly2.signedArea (addV t vs) n = Poly2.signedArea vs n ∧
    Poly2.area (addV t vs) n = Poly2.area vs n := by
  refine ⟨Poly2.perimeter_add t vs, Poly2.signedArea_add t vs n, ?_⟩
  unfold Poly2.area; rw [Poly2.signedArea_add]

/-! ## 3. Relabelling: simplex order, vertex order inside a simplex, cyclic shift of a polygon -/

theorem chainEq_map_rot (S : List (Tri ℝ)) : ChainEq (S.map Tri.rot) S := by
  intro φ hφ
  simp only [sumOver, List.map_map]
  congr 1
  exact List.map_congr_left (fun t _ => hφ.rot t)

/-- **C09 relabelling, convex polyhedron**: permuting the simplices or cyclically shifting the
vertices of every simplex leaves volume and centroid unchanged (instances of
`cp_volume_order_independent`, `cp_centroid_order_independent` of C01). -/
theorem relabel_cp (S S' : List (Tri ℝ)) (hp : S.Perm S') (v : ℝ) :
    CP.signedVolume S = CP.signedVolume S' ∧ CP.centroid S v = CP.centroid S' v ∧
    CP.signedVolume (S.map Tri.rot) = CP.signedVolume S ∧
    CP.centroid (S.map Tri.rot) v = CP.centroid S v :=
  ⟨cp_volume_order_independent (ChainEq.perm hp), cp_centroid_order_independent (ChainEq.perm hp) v,
   cp_volume_order_independent (chainEq_map_rot S), cp_centroid_order_independent (chainEq_map_rot S) v⟩

/-- the six quadrature sums of the inertia loop depend on the surface as a chain only
(non-degenerate triangles): the missing order-independence corollary of C01 for the inertia. -/
theorem relabel_cp_inertia {S S' : List (Tri ℝ)} (h : ChainEq S S') (c : V3 ℝ)
    (hnd : ∀ t ∈ S, V3.norm t.nvec ≠ 0) (hnd' : ∀ t ∈ S', V3.norm t.nvec ≠ 0) :
    CP.inertiaCentred S c = CP.inertiaCentred S' c := by
  have hch := ChainEq.map (· - c) h
  have inn : ∀ s0 s1, s0 < s1 → s1 < 3 →
      ((S.map (CP.simplexData c)).map fun d => CP.innTerm d.1 d.2.1 d.2.2 s0 s1).sum
        = ((S'.map (CP.simplexData c)).map fun d => CP.innTerm d.1 d.2.1 d.2.2 s0 s1).sum := by
    intro s0 s1 h0 h1
    have e : ∀ L : List (Tri ℝ), (∀ t ∈ L, V3.norm t.nvec ≠ 0) →
        ((L.map (CP.simplexData c)).map fun d => CP.innTerm d.1 d.2.1 d.2.2 s0 s1).sum
          = sumOver (innPhi s0 s1) (L.map (Tri.map (· - c))) := by
      intro L hL
      simp only [sumOver, List.map_map]
      congr 1
      apply List.map_congr_left
      intro t ht
      exact innTerm_eq t c (hL t ht) s0 s1
    rw [e S hnd, e S' hnd']
    exact hch _ (innPhi_oddCyclic s0 s1 h0 h1)
  have inm : ∀ s0 s1, s0 < s1 → s1 < 3 →
      ((S.map (CP.simplexData c)).map fun d => CP.inmTerm d.1 d.2.1 d.2.2 s0 s1).sum
        = ((S'.map (CP.simplexData c)).map fun d => CP.inmTerm d.1 d.2.1 d.2.2 s0 s1).sum := by
    intro s0 s1 h0 h1
    have e : ∀ L : List (Tri ℝ), (∀ t ∈ L, V3.norm t.nvec ≠ 0) →
        ((L.map (CP.simplexData c)).map fun d => CP.inmTerm d.1 d.2.1 d.2.2 s0 s1).sum
          = sumOver (inmPhi s0 s1) (L.map (Tri.map (· - c))) := by
      intro L hL
      simp only [sumOver, List.map_map]
      congr 1
      apply List.map_congr_left
      intro t ht
      exact inmTerm_eq t c (hL t ht) s0 s1
    rw [e S hnd, e S' hnd']
    exact hch _ (inmPhi_oddCyclic s0 s1 h0 h1)
  rw [CP.inertiaCentred_eq, CP.inertiaCentred_eq]
  simp only [inn 1 2 (by omega) (by omega), inn 0 2 (by omega) (by omega), inn 0 1 (by omega) (by omega),
    inm 0 1 (by omega) (by omega), inm 0 2 (by omega) (by omega), inm 1 2 (by omega) (by omega)]

/-- **C09 relabelling, general polyhedron**: the Eberly centroid depends on the surface as a chain
only — face order, cyclic shift of a face's vertex list (which changes the fan polytri emits) and
any re-triangulation of the faces give the same centroid. -/
theorem relabel_poly3_centroid {S S' : List (Tri ℝ)} (h : ChainEq S S') :
    Poly3.centroid S = Poly3.centroid S' := by
  unfold Poly3.centroid
  have hv : Scalar.sum (S.map fun t => (Poly3.eberlyTerm t).1) = Scalar.sum (S'.map fun t => (Poly3.eberlyTerm t).1) := by
    simp only [Scalar.sum_real]; exact h _ ebVolPhi_oddCyclic
  have hc : V3.sum (S.map fun t => (Poly3.eberlyTerm t).2) = V3.sum (S'.map fun t => (Poly3.eberlyTerm t).2) := by
    apply V3.ext_get
    intro i hi
    have := h _ (ebCenPhi_oddCyclic i hi)
    cases3 i
    · simp only [V3.get_zero, V3.sum_x, List.map_map]; exact this
    · simp only [V3.get_one, V3.sum_y, List.map_map]; exact this
    · simp only [V3.get_two, V3.sum_z, List.map_map]; exact this
  rw [hv, hc]

/-- **C09 relabelling, polygon**: starting the vertex list at another vertex (`np.roll`) changes
none of signed area, perimeter, centroid, planar moments. -/
theorem relabel_polygon (vs : List (V3 ℝ)) (n : V3 ℝ) (R : M3 ℝ) (k : Nat) :
    Poly2.signedArea (Poly2.rotl k vs) n = Poly2.signedArea vs n ∧
    Poly2.perimeter (Poly2.rotl k vs) = Poly2.perimeter vs ∧
    Poly2.centroid (Poly2.rotl k vs) n R = Poly2.centroid vs n R ∧
    Poly2.planarMoments (Poly2.rotl k vs) R = Poly2.planarMoments vs R :=
  ⟨Poly2.signedArea_rotl vs n k, Poly2.perimeter_rotl vs k, Poly2.centroid_rotl vs n R k,
   Poly2.planarMoments_rotl vs R k⟩

/-! ## 4. Rotation (component form) -/

/-- **C09 rotation, vector algebra**: for `R` with `RᵀR = 1`, `det R = 1`:
`det(Ra, Rb, Rc) = det(a, b, c)`, `Ra × Rb = R (a × b)`, `Ra · Rb = a · b`, `|Ra| = |a|`. -/
theorem rot_vectors {R : M3 ℝ} (h : IsRot R) (a b c : V3 ℝ) :
    V3.det3 (M3.mulVec R a) (M3.mulVec R b) (M3.mulVec R c) = V3.det3 a b c ∧
    V3.cross (M3.mulVec R a) (M3.mulVec R b) = M3.mulVec R (V3.cross a b) ∧
    V3.dot (M3.mulVec R a) (M3.mulVec R b) = V3.dot a b ∧
    V3.norm (M3.mulVec R a) = V3.norm a :=
  ⟨h.det3_rot a b c, h.cross_rot a b, h.dot_rot a b, h.norm_rot a⟩

/-- **C09 rotation, exact integrals**: tetrahedron volume and total volume invariant, first moment
and centroid rotate, second moments `M ↦ R M Rᵀ`, trace invariant, inertia `I ↦ R I Rᵀ`. -/
theorem rot_spec {R : M3 ℝ} (h : IsRot R) (Ts : List (Tet ℝ)) :
    (∀ T, Spec.tetVol (T.map (M3.mulVec R)) = Spec.tetVol T) ∧
    Spec.vol (rotT R Ts) = Spec.vol Ts ∧
    Spec.first (rotT R Ts) = M3.mulVec R (Spec.first Ts) ∧
    Spec.centroid (rotT R Ts) = M3.mulVec R (Spec.centroid Ts) ∧
    Spec.secondM (rotT R Ts) = Poly2.rotateTensor R (Spec.secondM Ts) ∧
    M3.trace (Spec.secondM (rotT R Ts)) = M3.trace (Spec.secondM Ts) ∧
    Spec.inertia (rotT R Ts) = Poly2.rotateTensor R (Spec.inertia Ts) :=
  ⟨h.tetVol_rot, h.vol_rot Ts, h.first_rot Ts, h.centroid_rot Ts, h.secondM_rot Ts,
   h.second_trace_rot Ts, h.inertia_rot Ts⟩

/-- **C09 rotation, term-wise invariants of the convex-polyhedron model**: signed volume, triangle
areas and hence the surface area, for every list of triangles. -/
theorem rot_cp_volume_area {R : M3 ℝ} (h : IsRot R) (S : List (Tri ℝ)) :
    CP.signedVolume (rotS R S) = CP.signedVolume S ∧ CP.surfaceArea (rotS R S) = CP.surfaceArea S := by
  refine ⟨?_, ?_⟩
  · simp only [CP.signedVolume, rotS, List.map_map]
    congr 1
    apply List.map_congr_left
    intro t _
    simp only [Function.comp, Tri.map, h.det3_rot]
  · simp only [CP.surfaceArea, rotS, List.map_map]
    congr 1
    apply List.map_congr_left
    intro t _
    simp only [Function.comp, CP.triArea, Tri.map, ← mulVec_sub, h.cross_rot, h.norm_rot]

theorem chain_rot {S : List (Tri ℝ)} {Ts : List (Tet ℝ)} (R : M3 ℝ)
    (h : ChainEq S (Ts.flatMap Tet.bdry)) : ChainEq (rotS R S) ((rotT R Ts).flatMap Tet.bdry) := by
  have := ChainEq.map (M3.mulVec R) h
  rwa [← flatMap_bdry_map] at this

/-- **C09 rotation, convex polyhedron centroid.** The summands `n · ((a+b)² + (b+c)² + (a+c)²)`
are component-wise products and are NOT rotation covariant term by term; for a surface bounding a
solid the centroid nevertheless rotates with the shape. -/
theorem rot_cp_centroid {R : M3 ℝ} (hR : IsRot R) {S : List (Tri ℝ)} {Ts : List (Tet ℝ)}
    (h : ChainEq S (Ts.flatMap Tet.bdry)) (hpos : 0 < Spec.vol Ts) :
    CP.centroid (rotS R S) (CP.volume (rotS R S)) = M3.mulVec R (CP.centroid S (CP.volume S)) := by
  have hpos' : 0 < Spec.vol (rotT R Ts) := by rw [hR.vol_rot]; exact hpos
  rw [cp_centroid_exact (chain_rot R h) hpos', cp_centroid_exact h hpos, hR.centroid_rot]

theorem nvec_rot {R : M3 ℝ} (hR : IsRot R) (t : Tri ℝ) :
    (t.map (M3.mulVec R)).nvec = M3.mulVec R t.nvec := by
  simp only [Tri.nvec, Tri.map, ← mulVec_sub, hR.cross_rot]

/-- **C09 rotation, convex polyhedron inertia tensor**: `I ↦ R I Rᵀ` for every surface of
non-degenerate triangles bounding a solid of positive volume (through `cp_inertia_exact'`). -/
theorem rot_cp_inertia {R : M3 ℝ} (hR : IsRot R) {S : List (Tri ℝ)} {Ts : List (Tet ℝ)}
    (h : ChainEq S (Ts.flatMap Tet.bdry)) (hnd : ∀ t ∈ S, V3.norm t.nvec ≠ 0) (hpos : 0 < Spec.vol Ts) :
    CP.inertia (rotS R S) (CP.centroid (rotS R S) (CP.volume (rotS R S))) (CP.volume (rotS R S))
      = Poly2.rotateTensor R (CP.inertia S (CP.centroid S (CP.volume S)) (CP.volume S)) := by
  have hpos' : 0 < Spec.vol (rotT R Ts) := by rw [hR.vol_rot]; exact hpos
  have hnd' : ∀ t ∈ rotS R S, V3.norm t.nvec ≠ 0 := by
    intro t ht
    simp only [rotS, List.mem_map] at ht
    obtain ⟨u, hu, rfl⟩ := ht
    rw [nvec_rot hR, hR.norm_rot]; exact hnd u hu
  rw [cp_inertia_exact' (chain_rot R h) hnd' hpos', cp_inertia_exact' h hnd hpos, hR.inertia_rot]

/-- **C09 rotation, general polyhedron**: Eberly centroid rotates with the mesh; Kallay inertia
`I ↦ R I Rᵀ` (exact centroid and volume as in `poly_inertia_exact`). -/
theorem rot_poly3 {R : M3 ℝ} (hR : IsRot R) {S : List (Tri ℝ)} {Ts : List (Tet ℝ)}
    (h : ChainEq S (Ts.flatMap Tet.bdry)) (hpos : 0 < Spec.vol Ts) :
    Poly3.centroid (rotS R S) = M3.mulVec R (Poly3.centroid S) ∧
    Poly3.inertia (rotS R S) (Poly3.centroid (rotS R S)) (Spec.vol Ts)
      = Poly2.rotateTensor R (Poly3.inertia S (Poly3.centroid S) (Spec.vol Ts)) := by
  have hpos' : 0 < Spec.vol (rotT R Ts) := by rw [hR.vol_rot]; exact hpos
  have hc : Poly3.centroid (rotS R S) = M3.mulVec R (Poly3.centroid S) := by
    rw [poly_centroid_exact (chain_rot R h) hpos'.ne', poly_centroid_exact h hpos.ne', hR.centroid_rot]
  refine ⟨hc, ?_⟩
  have e1 := poly_inertia_exact (chain_rot R h) hpos'
  have e2 := poly_inertia_exact h hpos
  rw [hR.vol_rot] at e1
  rw [poly_centroid_exact (chain_rot R h) hpos'.ne', e1, poly_centroid_exact h hpos.ne', e2, hR.inertia_rot]

/-- **C09 rotation, polygon perimeter** (term-wise). -/
theorem rot_polygon_perimeter {R : M3 ℝ} (hR : IsRot R) (vs : List (V3 ℝ)) :
    Poly2.perimeter (vs.map (M3.mulVec R)) = Poly2.perimeter vs := by
  unfold Poly2.perimeter
  simp only [Poly2.rotl_map, List.zipWith_map_left, List.zipWith_map_right, ← mulVec_sub, hR.norm_rot]

/-! ### an axis-aligned shape behaves like its rotated copy -/

/-- component `j` of twice the vector area `Σ v_i × v_{i+1}` in the form `Polygon.signed_area`
evaluates it for the projection axis `j` -/
def areaVec2 (vs : List (V3 ℝ)) (j : Nat) : ℝ :=
  (List.zipWith (fun (ab : V3 ℝ × V3 ℝ) c => ab.2.get ((j + 1) % 3) * (c.get ((j + 2) % 3) - ab.1.get ((j + 2) % 3)))
    (vs.zip (Poly2.rotl 1 vs)) (Poly2.rotl 2 vs)).sum

/-- **`signed_area` does not depend on which projection axis `argmax |n|` selects.** If the
polygon's vector area is `a · n` (it is planar with normal direction `n`), then whichever axis
the `argmax` picks (ties, axis-aligned normals and generic normals alike) the result is
`a · |n|`, provided only that the selected component of `n` is not zero (true for the argmax of
a non-zero vector).  So a polygon in a coordinate plane and its rotated copy get the same area. -/
theorem signedArea_axis_free (vs : List (V3 ℝ)) (n : V3 ℝ) (a : ℝ)
    (hA : ∀ j, j < 3 → areaVec2 vs j = 2 * a * n.get j)
    (hk : n.get (Poly2.argmax3 (Scalar.abs n.x) (Scalar.abs n.y) (Scalar.abs n.z)) ≠ 0) :
    Poly2.signedArea vs n = a * V3.norm ⟨Scalar.abs n.x, Scalar.abs n.y, Scalar.abs n.z⟩ := by
  unfold Poly2.signedArea
  simp only [Scalar.sum_real]
  set k := Poly2.argmax3 (Scalar.abs n.x) (Scalar.abs n.y) (Scalar.abs n.z) with hkdef
  have hk3 : k < 3 := by
    rw [hkdef]; unfold Poly2.argmax3; split_ifs <;> omega
  have := hA k hk3
  unfold areaVec2 at this
  rw [this]
  simp only [Scalar.lit, Scalar.ofNat_real]; push_cast
  field_simp

/-- **`distance_to_surface`: the `slope = 0`, `slope = ∞` and generic branches agree with the
rotated copy.**  Rotate the edge `p1 → p2` and the ray direction by the same in-plane angle `α`:
whatever branches the two edges fall into (an exactly horizontal or vertical edge versus its
generic rotated copy), the coded formulas return the same distance — both equal the parameter
`d0` at which the ray meets the edge's supporting line (`cpoly_edge_dts_eq` of C14). -/
theorem dts_branches_agree (p1 p2 : P2 ℝ) (a α d0 : ℝ) (hd0 : 0 < d0)
    (hcr : Spec.cross p1 p2 ≠ 0) (hline : Spec.onLine (Spec.rayPoint d0 a) p1 p2)
    (hcos : p1.x ≠ p2.x → p1.y ≠ p2.y → Real.cos a ≠ 0)
    (hcos' : Real.cos (a + α) ≠ 0) :
    let rot := fun p : P2 ℝ => (⟨p.x * Real.cos α - p.y * Real.sin α, p.x * Real.sin α + p.y * Real.cos α⟩ : P2 ℝ)
    DTS.edgeDist (DTS.mkEdge (rot p1) (rot p2)) (a + α) = DTS.edgeDist (DTS.mkEdge p1 p2) a := by
  intro rot
  have hsc := sin_mul_self_add_cos_mul_self α
  rw [cpoly_edge_dts_eq p1 p2 a d0 hd0 hcr hline hcos]
  apply cpoly_edge_dts_eq (rot p1) (rot p2) (a + α) d0 hd0
  · have : Spec.cross (rot p1) (rot p2) = Spec.cross p1 p2 := by
      simp only [Spec.cross, rot]
      linear_combination (p1.x * p2.y - p1.y * p2.x) * hsc
    rw [this]; exact hcr
  · unfold Spec.onLine Spec.rayPoint at hline ⊢
    simp only [Spec.cross, P2.sub_x, P2.sub_y, Scalar.lit, Scalar.ofNat_real, Scalar.sin_real,
      Scalar.cos_real, Nat.cast_zero, rot, Real.cos_add, Real.sin_add] at hline ⊢
    linear_combination (Real.sin α * Real.sin α + Real.cos α * Real.cos α) * hline
  · intro _ _; exact hcos'


/-! ## 5. The other model functions under a proper similarity `g : x ↦ k R x + t`

`Sim` (`Lemmas/CovarianceSim.lean`) is the group of the property statement as one object: `g.pt` acts on points,
`g.vec` on differences, `g.dir` on unit normals; `g.Proper` = `0 < k` ∧ `IsRot R`.  The generators
`Sim.scaling k`, `Sim.translation t`, `Sim.rotation R` are proper (for `k > 0`, `IsRot R`), so every statement
below contains the pure rotation, translation and scaling laws and all their compositions. -/

/-- **C09, convex containment**: plane rows move as `(n, d) ↦ (R n, k d − (R n)·t)`, every point–plane distance is
multiplied by `k`, and `ConvexPolyhedron.is_inside` (single point and NumPy batch) is invariant — for every
list of planes and points. -/
theorem inside_convex_sim {g : Sim} (hg : g.Proper) (eqs : List (Inside3D.Plane ℝ)) (p : V3 ℝ) (pts : List (V3 ℝ)) :
    Inside3D.CP.planeDists (eqs.map g.plane) (g.pt p) = (Inside3D.CP.planeDists eqs p).map (g.k * ·) ∧
    Inside3D.CP.isInside1 (eqs.map g.plane) (g.pt p) = Inside3D.CP.isInside1 eqs p ∧
    Inside3D.CP.isInside (eqs.map g.plane) (pts.map g.pt) = Inside3D.CP.isInside eqs pts :=
  ⟨Sim.planeDists hg eqs p, Sim.cp_isInside1 hg eqs p, Sim.cp_isInside hg eqs pts⟩

/-- **C09, general-polyhedron containment (decision)**: for every closed surface bounding a tetrahedralised
solid and every query point in general position (`offCone`, hypotheses on `x` only), `Polyhedron.is_inside`
gives the same answer for `g(x), g(p)` — under rotations too, although the coded winding summand is made of
coordinate signs (`inside_poly_summand_rot_fails`). -/
theorem inside_poly_sim {g : Sim} (hg : g.Proper) {S : List (Tri ℝ)} {Ts : List (Tet ℝ)}
    (h : ChainEq S (Ts.flatMap Tet.bdry))
    (hor : ∀ T ∈ Ts, 0 ≤ Spec.In3D.orient T.a T.b T.c T.d) (p : V3 ℝ) (hoff : Spec.In3D.offCone Ts p = true) :
    Inside3D.Poly.isInside1 (S.map g.tri) (g.pt p) = Inside3D.Poly.isInside1 S p :=
  Sim.poly_isInside1 hg h hor p hoff

/-- the winding summand is invariant under translations and positive scalings for EVERY triangle and point -/
theorem inside_poly_summand_trans_scale {k : ℝ} (hk : 0 < k) (t p : V3 ℝ) (u : Tri ℝ) :
    Inside3D.Poly.contribution (V3.smul k p + t) (u.map fun x => V3.smul k x + t) = Inside3D.Poly.contribution p u :=
  Inside3D.Poly.contribution_trans_scale hk t p u

/-- **…and is NOT rotation invariant term by term** (quarter turn about `z`, one triangle) -/
theorem inside_poly_summand_rot_fails :
    ¬ (∀ (R : M3 ℝ), IsRot R → ∀ (p : V3 ℝ) (u : Tri ℝ),
        Inside3D.Poly.contribution (M3.mulVec R p) (u.map (M3.mulVec R)) = Inside3D.Poly.contribution p u) :=
  Inside3D.Poly.contribution_rot_fails

/-- **C09, sphere / ellipsoid / spheropolyhedron containment**: sphere under every proper similarity; ellipsoid
(axis-aligned model) under translations, positive scalings and the quarter turn that swaps two semi-axes;
spheropolyhedron (core planes, candidate faces, extruded prisms, cylinders, caps) under every proper similarity
with the rounding radius scaled along. -/
theorem inside_round_sim {g : Sim} (hg : g.Proper) (r : ℝ) (c p : V3 ℝ) {k : ℝ} (hk : 0 < k) (t : V3 ℝ)
    (a b c' : ℝ) (cen : V3 ℝ) (eqs : List (Inside3D.Plane ℝ)) (faces : List (List (V3 ℝ)))
    (extruded : List (List (Inside3D.Plane ℝ))) :
    Inside3D.Sphere.isInside1 (g.k * r) (g.pt c) (g.pt p) = Inside3D.Sphere.isInside1 r c p ∧
    Inside3D.Ellipsoid.isInside1 (k * a) (k * b) (k * c') (V3.smul k cen + t) (V3.smul k p + t)
      = Inside3D.Ellipsoid.isInside1 a b c' cen p ∧
    Inside3D.Ellipsoid.isInside1 b a c' ⟨-cen.y, cen.x, cen.z⟩ ⟨-p.y, p.x, p.z⟩ = Inside3D.Ellipsoid.isInside1 a b c' cen p ∧
    Inside3D.Sphero.isInside1 (g.k * r) (eqs.map g.plane) (faces.map (List.map g.pt))
        (extruded.map (List.map g.plane)) (g.pt p) = Inside3D.Sphero.isInside1 r eqs faces extruded p :=
  ⟨Sim.sphere_isInside1 hg r c p, Sim.ellipsoid_isInside1 hk t a b c' cen p,
   Sim.ellipsoid_isInside1_quarter a b c' cen p, Sim.sphero_isInside1 hg r eqs faces extruded p⟩

/-- **C09, `Polygon.is_inside` (decision)**: invariant under every proper similarity of SPACE — the polygon may
leave its plane, the stored normal becomes `R n`, and Kabsch may return any frame `K'` for the new normal — for every
simple polygon that is the boundary chain of a consistently oriented triangulation and every point whose projection
is off the triangle edges (hypotheses of C06's `polygon_inside3_iff`, on `x` only). -/
theorem inside_polygon_sim {g : Sim} (hg : g.Proper) {K K' : M3 ℝ} {n : V3 ℝ}
    (hK : Inside2D.IsFrame K n) (hK' : Inside2D.IsFrame K' (g.dir n))
    {verts : List (V3 ℝ)} {Ts : List (Spec.In2D.Tri3 ℝ)} {p : V3 ℝ}
    (hchain : Inside2D.EdgeChainEq3 (Inside2D.edges verts) (Ts.flatMap Spec.In2D.Tri3.bdry))
    (hor : (∀ t ∈ Ts, 0 < Spec.In2D.orient3 n t.a t.b t.c) ∨ (∀ t ∈ Ts, Spec.In2D.orient3 n t.a t.b t.c < 0))
    (hoff : ∀ t ∈ Ts, Spec.In2D.onBoundary3 n t p = false) :
    Inside2D.Polygon.isInside K' (verts.map g.pt) [g.pt p] = Inside2D.Polygon.isInside K verts [p] :=
  Sim.polygon_isInside hg hK hK' hchain hor hoff

/-- the half-turn summand of `Polygon.is_inside` (coordinate signs with the `x = 0` tie rule) is invariant under
in-plane translations and positive scalings for every edge and point — and hence so is the decision in the frame — -/
theorem inside_polygon_summand_trans_scale {k : ℝ} (hk : 0 < k) (t p a b : Inside2D.P2 ℝ) (vs : List (Inside2D.P2 ℝ)) :
    Inside2D.Polygon.halfTurn ⟨k * p.x + t.x, k * p.y + t.y⟩ ⟨k * a.x + t.x, k * a.y + t.y⟩ ⟨k * b.x + t.x, k * b.y + t.y⟩
      = Inside2D.Polygon.halfTurn p a b ∧
    Inside2D.Polygon.isInsideRot (vs.map fun v => (⟨k * v.x + t.x, k * v.y + t.y⟩ : Inside2D.P2 ℝ))
        ⟨k * p.x + t.x, k * p.y + t.y⟩ = Inside2D.Polygon.isInsideRot vs p :=
  ⟨Inside2D.Polygon.halfTurn_trans_scale hk t p a b, Inside2D.Polygon.isInsideRot_trans_scale hk t vs p⟩

/-- **…but NOT under rotations of the plane, term by term** (quarter turn, one edge): like in 3-D, rotation invariance
is a property of the sum round a closed polygon only (`inside_polygon_sim`). -/
theorem inside_polygon_summand_rot_fails :
    ¬ (∀ p a b : Inside2D.P2 ℝ, Inside2D.Polygon.halfTurn ⟨-p.y, p.x⟩ ⟨-a.y, a.x⟩ ⟨-b.y, b.x⟩
        = Inside2D.Polygon.halfTurn p a b) :=
  Inside2D.Polygon.halfTurn_rot_fails

/-- **C09, `Circle.is_inside`** (C06's model, as repaired in bab419e: `isclose(z, 0, atol = 1e-8 · radius)`): covariant
under EVERY similarity that keeps the `z` direction — rotation about `z`, any translation, any positive scale — for
every point of space, in the plane or off it. -/
theorem inside_circle_sim {g : Sim} (hg : g.Proper) (hz : Inside2D.KeepsZ g) (r : ℝ) (c p : V3 ℝ) :
    Inside2D.Circle.isInside1 (g.k * r) (g.pt c) (g.pt p) = Inside2D.Circle.isInside1 r c p :=
  Inside2D.circle_isInside1_sim_full hg hz r c p

/-- **`Ellipse.is_inside`** (C06's model, `atol = 1e-8 · max(a, b)`; still the coded one-sided box test): covariant
under every translation and positive scaling, every point of space. -/
theorem inside_ellipse_sim {k : ℝ} (hk : 0 < k) (t : V3 ℝ) (a b : ℝ) (c p : V3 ℝ) :
    Inside2D.Ellipse.isInside1 (k * a) (k * b) (V3.smul k c + t) (V3.smul k p + t) = Inside2D.Ellipse.isInside1 a b c p :=
  Inside2D.ellipse_isInside1_trans_scale_full hk t a b c p

/-- the quarter turn mapping the ellipse `(a, b)` to `(b, a)` does NOT preserve the coded box test (C06 finding) -/
theorem inside_ellipse_quarter_fails :
    ¬ (∀ (a b : ℝ) (c p : V3 ℝ),
        Inside2D.Ellipse.isInside1 b a ⟨-c.y, c.x, c.z⟩ ⟨-p.y, p.x, p.z⟩ = Inside2D.Ellipse.isInside1 a b c p) :=
  Inside2D.ellipse_isInside1_quarter_fails

/-- **the expression BEFORE bab419e** (`Inside2D.circleInsideAbs`: absolute `np.isclose(z, 0)`), kept as the statement
of what the oracle's corpus case guards against: covariant exactly when the out-of-plane offset and its image are on
the same side of `1e-8` — in particular for `|dz| ≤ 1e-8·min(1, 1/k)` or `|dz| > 1e-8·max(1, 1/k)` — -/
theorem inside_circle_old_window_partial {g : Sim} (hg : g.Proper) (hz : Inside2D.KeepsZ g) (r : ℝ) (c p : V3 ℝ)
    (h : |(p - c).z| ≤ 1 / 100000000 * Min.min 1 (1 / g.k) ∨ 1 / 100000000 * Max.max 1 (1 / g.k) < |(p - c).z|) :
    Inside2D.circleInsideAbs (g.k * r) (g.pt c) (g.pt p) = Inside2D.circleInsideAbs r c p :=
  Inside2D.circle_isInside1_sim hg hz r c p (Inside2D.isclose_window_scale hg.kpos h)

/-- **…and not in general** (unit circle, point `2·10⁻⁸` above the centre, scale `1/10`) -/
theorem inside_circle_old_scale_fails :
    ¬ (∀ (k : ℝ), 0 < k → ∀ (r : ℝ) (c p : V3 ℝ),
        Inside2D.circleInsideAbs (k * r) (V3.smul k c) (V3.smul k p) = Inside2D.circleInsideAbs r c p) :=
  Inside2D.circle_inside_scale_fails

/-- **C09, centred balls**: `minimal_centered_bounding_*`, `maximal_centered_bounded_sphere` (with its
`ValueError`), `maximal_centered_bounded_circle`: centre moves with the shape, radius × k, same error. -/
theorem balls_centred_sim {g : Sim} (hg : g.Proper) (verts : List (V3 ℝ)) (c : V3 ℝ) (eqs : List (V3 ℝ × ℝ)) :
    Balls.minimalCenteredBounding (verts.map g.pt) (g.pt c) = Balls.mapRes g (Balls.minimalCenteredBounding verts c) ∧
    Balls.maximalCenteredBoundedSphere (eqs.map (Balls.planeB g)) (g.pt c)
      = Balls.mapRes g (Balls.maximalCenteredBoundedSphere eqs c) ∧
    Balls.maximalCenteredBoundedCircle (verts.map g.pt) (g.pt c)
      = Balls.mapRes g (Balls.maximalCenteredBoundedCircle verts c) :=
  ⟨Balls.minimalCenteredBounding_sim hg verts c, Balls.maximalCenteredBoundedSphere_sim hg eqs c,
   Balls.maximalCenteredBoundedCircle_sim hg verts c⟩

/-- **C09, circum- and in-balls**: with the least-squares solution and residual of the moved system (the residual
acquires `k⁴` / `k²`: `Balls.sumSq_circum_sim`, `Balls.sumSq_in_sim`) the decision ball / `RuntimeError` /
`ValueError` is the same and the ball moves with the shape: the repaired guards `atol = 1e-8·size²` are scale free. -/
theorem balls_circum_in_sim {g : Sim} (hg : g.Proper) (verts : List (V3 ℝ)) (hne : verts ≠ []) (n x : V3 ℝ) (r : ℝ)
    (resids : List ℝ) (thr : Nat) :
    Balls.circumsphere (verts.map g.pt) (g.vec x) (resids.map (g.k ^ 4 * ·)) = Balls.mapRes g (Balls.circumsphere verts x resids) ∧
    Balls.circumcircle (verts.map g.pt) (g.dir n) (g.vec x) (resids.map (g.k ^ 4 * ·))
      = Balls.mapRes g (Balls.circumcircle verts n x resids) ∧
    Balls.inBall thr (verts.map g.pt) (g.pt x) (g.k * r) (resids.map (g.k ^ 2 * ·))
      = Balls.mapRes g (Balls.inBall thr verts x r resids) ∧
    Balls.sumSq (Balls.circumSystemSphere (verts.map g.pt)) (g.vec x) r
      = g.k ^ 4 * Balls.sumSq (Balls.circumSystemSphere verts) x r :=
  ⟨Balls.circumsphere_sim hg verts hne x resids, Balls.circumcircle_sim hg verts hne n x resids,
   Balls.inBall_sim hg thr verts hne x r resids, Balls.sumSq_circum_sim hg verts x r⟩

/-- **C09, verification of miniball's answer** (`_is_minimal_bounding_ball`): containment slack, boundary band and
the `nnls` residual are relative — the test is invariant under every proper similarity. -/
theorem balls_minimal_check_sim {g : Sim} (hg : g.Proper) (τc τb τr : ℝ)
    (nnls nnls' : List (V3 ℝ) → V3 ℝ → ℝ → List ℝ × ℝ) (points : List (V3 ℝ)) (c : V3 ℝ) (r2 : ℝ)
    (hn : (nnls' ((Balls.onBoundary τb points c r2).map g.pt) (g.pt c) (g.k ^ 2 * r2)).2
            = (nnls (Balls.onBoundary τb points c r2) c r2).2) :
    Balls.isMinimalBoundingBallTol τc τb τr nnls' (points.map g.pt) (g.pt c) (g.k ^ 2 * r2)
      = Balls.isMinimalBoundingBallTol τc τb τr nnls points c r2 :=
  Balls.isMinimalBoundingBallTol_sim hg τc τb τr nnls nnls' points c r2 hn

/-- **C09, `ConvexPolygon.distance_to_surface`, the whole function**: for every strictly convex
counter-clockwise polygon, every centre strictly inside and every angle, the moved polygon at the shifted angle
returns `k` times the distance — start vertex, angular bin and formula branch (slope 0 / ∞ / generic) may all
differ between `x` and `g(x)`. -/
theorem dts_polygon_sim (g : Sim2) (hk : 0 < g.k) (V : List (P2 ℝ)) (c : P2 ℝ) (θ : ℝ) (hne : V ≠ [])
    (hconv : Spec.strictConvexCCW V) (hin : Spec.strictlyInsideCCW V c)
    (hcos : ∀ e ∈ Spec.edgesOf V, e.1.x ≠ e.2.x → e.1.y ≠ e.2.y → Real.cos θ ≠ 0)
    (hcos' : ∀ e ∈ Spec.edgesOf (V.map g.act), e.1.x ≠ e.2.x → e.1.y ≠ e.2.y → Real.cos (θ + g.α) ≠ 0) :
    DTS.cpolyDtsFrom M2.id false (V.map g.act) (g.act c) (θ + g.α)
      = (DTS.cpolyDtsFrom M2.id false V c θ).map (g.k * ·) :=
  g.dts_sim hk V c θ hne hconv hin hcos hcos'

/-- **C09, form factor under rotation** `F_{RP}(Rq) = F_P(q)`: every edge term is invariant; polygon (planar,
unit normal; both branches, the projection axis of `signed_area` may change), polyhedron (planar faces with unit
normals), sphere. -/
theorem ff_rot {R : M3 ℝ} (hR : IsRot R) (v0 : V3 ℝ) (rest : List (V3 ℝ)) (n qv : V3 ℝ) (rho : ℝ)
    (hplanar : ∀ v ∈ v0 :: rest, V3.dot (v - v0) n = 0) (hunit : V3.dot n n = 1)
    (faces : List (FF.Face ℝ)) (vol r : ℝ) (c : V3 ℝ)
    (hf : ∀ f ∈ faces, V3.norm f.normal = 1 ∧ ∃ v0 rest, f.verts = v0 :: rest ∧
      ∀ v ∈ v0 :: rest, V3.dot (v - v0) f.normal = 0) :
    (∀ qp qsq vw, FF.edgeTerm (M3.mulVec R n) (M3.mulVec R qp) qsq (Prod.map (M3.mulVec R) (M3.mulVec R) vw)
      = FF.edgeTerm n qp qsq vw) ∧
    FF.signedArea ((v0 :: rest).map (M3.mulVec R)) (M3.mulVec R n) = FF.signedArea (v0 :: rest) n ∧
    FF.polygonFF ((v0 :: rest).map (M3.mulVec R)) (M3.mulVec R n) (M3.mulVec R qv) rho = FF.polygonFF (v0 :: rest) n qv rho ∧
    FF.polyhedronFF (faces.map (FF.Face.rot R)) vol (M3.mulVec R qv) rho = FF.polyhedronFF faces vol qv rho ∧
    FF.sphereFF r (M3.mulVec R c) (M3.mulVec R qv) rho = FF.sphereFF r c qv rho :=
  ⟨fun qp qsq vw => FF.edgeTerm_rot hR n qp qsq vw, FF.signedArea_rot hR v0 rest n hplanar hunit,
   FF.polygonFF_rot hR v0 rest n qv rho hplanar hunit, FF.polyhedronFF_rot hR faces vol qv rho hf,
   FF.sphereFF_rot hR r c qv rho⟩

/-- **C09, form factor under scaling** `F_{sP}(q/s) = s^d F_P(q)` (`d = 2` polygon, `3` polyhedron / sphere),
`_partial`: provided `|q|²` (and, for polygons / faces, the in-plane `|q∥|²`) and the same divided by `s²` are on
the same side of the absolute switch `np.isclose(q², 0)`. -/
theorem ff_scale_partial {s : ℝ} (hs : 0 < s) (vs : List (V3 ℝ)) (n qv : V3 ℝ) (rho r : ℝ) (c : V3 ℝ)
    (faces : List (FF.Face ℝ)) (vol : ℝ)
    (hwinP : FF.isCloseZero (V3.dot (FF.project n qv) (FF.project n qv) / s ^ 2)
              = FF.isCloseZero (V3.dot (FF.project n qv) (FF.project n qv)))
    (hwinS : FF.isCloseZero (V3.dot qv qv / s ^ 2) = FF.isCloseZero (V3.dot qv qv))
    (hf : ∀ f ∈ faces, FF.isCloseZero (V3.dot (FF.project (V3.sdiv f.normal (V3.norm f.normal)) qv)
                (FF.project (V3.sdiv f.normal (V3.norm f.normal)) qv) / s ^ 2)
              = FF.isCloseZero (V3.dot (FF.project (V3.sdiv f.normal (V3.norm f.normal)) qv)
                (FF.project (V3.sdiv f.normal (V3.norm f.normal)) qv))) :
    FF.polygonFF (vs.map (V3.smul s)) n (V3.smul (1 / s) qv) rho = Cx.smul (s ^ 2) (FF.polygonFF vs n qv rho) ∧
    FF.polyhedronFF (faces.map (FF.Face.scale s)) (s ^ 3 * vol) (V3.smul (1 / s) qv) rho
      = Cx.smul (s ^ 3) (FF.polyhedronFF faces vol qv rho) ∧
    FF.sphereFF (s * r) (V3.smul s c) (V3.smul (1 / s) qv) rho = Cx.smul (s ^ 3) (FF.sphereFF r c qv rho) :=
  ⟨FF.polygonFF_scale hs vs n qv rho hwinP, FF.polyhedronFF_scale hs faces vol qv rho hwinS hf,
   FF.sphereFF_scale hs r c qv rho hwinS⟩

/-- **the absolute `isclose(q², 0)` window breaks scale covariance for EVERY sphere** whenever `q` is outside the
window and `q/s` inside (known finding); witness in the property's range: unit sphere, `|q| = 0.05`, `s = 1000`. -/
theorem ff_scale_window_fails {s : ℝ} (hs : 0 < s) (r : ℝ) (qv : V3 ℝ) (hr : 0 < r)
    (hout : FF.isCloseZero (V3.dot qv qv) = false) (hin : FF.isCloseZero (V3.dot qv qv / s ^ 2) = true) :
    ¬ (FF.sphereFF (s * r) (V3.smul s ⟨0, 0, 0⟩) (V3.smul (1 / s) qv) 1
        = Cx.smul (s ^ 3) (FF.sphereFF r ⟨0, 0, 0⟩ qv 1)) :=
  FF.sphereFF_scale_window_fails hs r qv hr hout hin

theorem ff_scale_fails :
    ¬ (FF.sphereFF ((1000:ℝ) * 1) (V3.smul 1000 ⟨0, 0, 0⟩) (V3.smul (1 / 1000) ⟨3 / 100, 4 / 100, 0⟩) 1
        = Cx.smul (1000 ^ 3) (FF.sphereFF 1 ⟨0, 0, 0⟩ ⟨3 / 100, 4 / 100, 0⟩ 1)) :=
  FF.sphereFF_scale_fails

/-- **C09, Steiner quantities**: every loop item `(L, φ)` of the curvature code becomes `(k L, φ)` (same
`IndexError` / `ValueError` otherwise); mean curvature × k; spheropolyhedron volume × k³, surface area × k², mean
curvature × k with the rounding radius × k; spheropolygon perimeter × k, area × k². -/
theorem steiner_sim {g : Sim} (hg : g.Proper) (c : Steiner.Core ℝ) (r : ℝ) (vs : List (V3 ℝ)) (polyArea : ℝ) :
    Steiner.CP.edgeTerms (Steiner.simCore g c) = Steiner.mapOk (Steiner.simEdges g.k) (Steiner.CP.edgeTerms c) ∧
    Steiner.CP.meanCurvature (Steiner.simCore g c) = Steiner.mapOk (g.k * ·) (Steiner.CP.meanCurvature c) ∧
    Steiner.SpheroPolyhedron.volume (Steiner.simCore g c) (g.k * r)
      = Steiner.mapOk (g.k ^ 3 * ·) (Steiner.SpheroPolyhedron.volume c r) ∧
    Steiner.SpheroPolyhedron.surfaceArea (Steiner.simCore g c) (g.k * r)
      = Steiner.mapOk (g.k ^ 2 * ·) (Steiner.SpheroPolyhedron.surfaceArea c r) ∧
    Steiner.SpheroPolyhedron.meanCurvature (Steiner.simCore g c) (g.k * r)
      = Steiner.mapOk (g.k * ·) (Steiner.SpheroPolyhedron.meanCurvature c r) ∧
    Steiner.SpheroPolygon.perimeter (vs.map g.pt) (g.k * r) = g.k * Steiner.SpheroPolygon.perimeter vs r ∧
    Steiner.SpheroPolygon.area (vs.map g.pt) (g.k ^ 2 * polyArea) (g.k * r)
      = g.k ^ 2 * Steiner.SpheroPolygon.area vs polyArea r :=
  ⟨Steiner.edgeTerms_sim hg c, Steiner.meanCurvature_sim hg c, (Steiner.sphero_sim hg c r).1,
   (Steiner.sphero_sim hg c r).2.1, (Steiner.sphero_sim hg c r).2.2, (Steiner.spheropolygon_sim hg vs polyArea r).1,
   (Steiner.spheropolygon_sim hg vs polyArea r).2.2⟩

/-- **dimensionless descriptors are invariant** (`tau`, `asphericity`, `iq` in 3-D and 2-D) -/
theorem descriptors_sim {k : ℝ} (hk : k ≠ 0) (mc A V P : ℝ) :
    Steiner.CP.tauOf (k * mc) (k ^ 2 * A) = Steiner.CP.tauOf mc A ∧
    Steiner.CP.asphericityOf (k * mc) (k ^ 2 * A) (k ^ 3 * V) = Steiner.CP.asphericityOf mc A V ∧
    Steiner.Shape3D.iq (k ^ 3 * V) (k ^ 2 * A) = Steiner.Shape3D.iq V A ∧
    Steiner.Shape2D.iq (k ^ 2 * A) (k * P) = Steiner.Shape2D.iq A P :=
  Steiner.descriptors_sim hk mc A V P

/-! ## 6. Tolerances: the repaired ones are covariant; the absolute ones still in the Python (and the two repaired here, as regression statements) with their exact ranges and witnesses of failure -/

/-- **`Polygon.__init__`, every geometric decision is covariant** (C15's model, coplanarity test as repaired in
744f807): the first-corner normal rotates with the shape, the orthogonality test of a supplied normal is invariant, and
the coplanarity test `|(v − v₀)·n| ≤ ptol · max‖w − v₀‖` gives the same answer for `g(x)` — for EVERY vertex list
(planar or not), normal and tolerance.  (Simplicity: `edgesOK_similarity` of C15.) -/
theorem ctor_decisions_sim {g : Sim} (hg : g.Proper) (verts : List (V3 ℝ)) (h3 : 3 ≤ verts.length)
    (computed : Option (V3 ℝ)) (nv n : V3 ℝ) (ptol : ℝ) :
    C15.cornerNormal (verts.map g.pt) = (C15.cornerNormal verts).map g.dir ∧
    C15.chooseNormal (computed.map g.dir) (some (g.dir nv)) =
      (match C15.chooseNormal computed (some nv) with
       | .ok o => .ok (o.map g.dir)
       | .error e => .error e) ∧
    C15.coplanarRel (g.dir n) (verts.map g.pt) ptol = C15.coplanarRel n verts ptol ∧
    C15.planarExtent (verts.map g.pt) = g.k * C15.planarExtent verts :=
  ⟨C15.cornerNormal_sim hg verts h3, C15.chooseNormal_sim hg computed nv, C15.coplanarRel_sim hg n verts ptol,
   C15.planarExtent_sim hg verts (by intro h; rw [h] at h3; simp at h3)⟩

/-- **the coplanarity loop BEFORE 744f807** (`C15.coplanar`: `np.isclose(n·v, d, planar_tolerance)`, kept in C15's
model as a regression witness), exact range: at scale `k` a polygon passed iff every out-of-plane deviation was
`≤ 1e-8/k + ptol·|d|` (`d` = distance of the plane from the ORIGIN) — -/
theorem ctor_coplanar_old_scale_iff {k : ℝ} (hk : 0 < k) (n : V3 ℝ) (verts : List (V3 ℝ)) (hne : verts ≠ []) (ptol : ℝ) :
    C15.coplanar n (verts.map (V3.smul k)) ptol = true ↔
      ∀ v ∈ verts, |V3.dot n v - V3.dot n (verts.getD 0 V3.zero)|
        ≤ 1 / 100000000 / k + ptol * |V3.dot n (verts.getD 0 V3.zero)| :=
  C15.coplanar_scale_iff hk n verts hne ptol

/-- **…hence neither scale nor translation covariant**: the quadrilateral bent by `10⁻⁷` of its size was rejected at
size 1 at the origin, accepted at size `10⁻²`, and accepted one unit away from the origin (what the oracle's
float32-polygon corpus case guards against). -/
theorem ctor_coplanar_old_scale_fails :
    ¬ (∀ (k : ℝ), 0 < k → ∀ (n : V3 ℝ) (verts : List (V3 ℝ)) (ptol : ℝ),
        C15.coplanar n (verts.map (V3.smul k)) ptol = C15.coplanar n verts ptol) := C15.coplanar_scale_fails

theorem ctor_coplanar_old_translate_fails :
    ¬ (∀ (t n : V3 ℝ) (verts : List (V3 ℝ)) (ptol : ℝ),
        C15.coplanar n (verts.map (· + t)) ptol = C15.coplanar n verts ptol) := C15.coplanar_translate_fails

/-- **`merge_faces(atol=1e-8, rtol=1e-5)`**: exact form of the decision at scale `k`; coplanar neighbours (equal
rows) are merged at every scale. -/
theorem merge_allclose_scale {k : ℝ} (hk : 0 < k) (atol rtol : ℝ) (ha : 0 ≤ atol) (hr : 0 ≤ rtol) (n1 n2 : V3 ℝ)
    (d1 d2 : ℝ) :
    (Struct.allclose atol rtol (n1, k * d1) (n2, k * d2) = true ↔
      (Struct.isclose n1.x n2.x rtol atol = true ∧ Struct.isclose n1.y n2.y rtol atol = true ∧
        Struct.isclose n1.z n2.z rtol atol = true ∧ |d1 - d2| ≤ atol / k + rtol * |d2|)) ∧
    Struct.allclose atol rtol (n1, k * d1) (n1, k * d1) = true :=
  ⟨Struct.allclose_scale_iff hk atol rtol n1 n2 d1 d2, Struct.allclose_self_scale atol rtol ha hr n1 d1⟩

theorem merge_allclose_scale_fails :
    ¬ (∀ (k : ℝ), 0 < k → ∀ (n1 n2 : V3 ℝ) (d1 d2 : ℝ),
        Struct.allclose (1 / 100000000) (1 / 100000) (n1, k * d1) (n2, k * d2)
          = Struct.allclose (1 / 100000000) (1 / 100000) (n1, d1) (n2, d2)) := Struct.allclose_scale_fails

theorem merge_allclose_translate_fails :
    ¬ (∀ (t : V3 ℝ) (n1 n2 : V3 ℝ) (d1 d2 : ℝ),
        Struct.allclose (1 / 100000000) (1 / 100000) (n1, d1 - V3.dot n1 t) (n2, d2 - V3.dot n2 t)
          = Struct.allclose (1 / 100000000) (1 / 100000) (n1, d1) (n2, d2)) := Struct.allclose_translate_fails

/-- **`_combine_simplices(tol=2e-15)`**: identical rows are combined and rows whose normals differ by `tol` in a
component are kept apart at EVERY scale (what Qhull's output consists of); in general the decision is scale
dependent. -/
theorem combine_simplices_scale {tol : ℝ} (ht : 0 < tol) (e : Struct.Eqn ℝ) (n1 n2 : V3 ℝ) (d1 d2 k : ℝ)
    (h : tol ≤ |n1.x - n2.x| ∨ tol ≤ |n1.y - n2.y| ∨ tol ≤ |n1.z - n2.z|) :
    Struct.eqClose tol e e = true ∧ Struct.eqClose tol (n1, k * d1) (n2, k * d2) = false :=
  ⟨Struct.eqClose_self ht e, Struct.eqClose_scale_of_normals n1 n2 d1 d2 h k⟩

theorem combine_simplices_scale_fails :
    ¬ (∀ (k : ℝ), 0 < k → ∀ (n1 n2 : V3 ℝ) (d1 d2 : ℝ),
        Struct.eqClose (2 / 1000000000000000) (n1, k * d1) (n2, k * d2)
          = Struct.eqClose (2 / 1000000000000000) (n1, d1) (n2, d2)) := Struct.eqClose_scale_fails

/-! ## non-vacuity -/

/-- the unit square, counter-clockwise in the xy-plane -/
def exSq9 : List (V3 ℝ) := [⟨0,0,0⟩, ⟨1,0,0⟩, ⟨1,1,0⟩, ⟨0,1,0⟩]

/-- a proper rotation that is not a signed permutation: about the z-axis with cos = 3/5, sin = 4/5 -/
def exRot : M3 ℝ := ⟨3/5, -4/5, 0, 4/5, 3/5, 0, 0, 0, 1⟩

example : IsRot exRot := by
  constructor <;> simp only [exRot, M3.det] <;> norm_num

/-- the hypotheses of the chain-based theorems hold for the unit tetrahedron of C01, and for its
rotated, translated copy -/
example : ChainEq (rotS exRot exT.bdry) ((rotT exRot [exT]).flatMap Tet.bdry) ∧
    ChainEq (addS ⟨1, 2, 3⟩ exT.bdry) ((addT ⟨1, 2, 3⟩ [exT]).flatMap Tet.bdry) ∧ 0 < Spec.vol [exT] := by
  have h0 : ChainEq exT.bdry ([exT].flatMap Tet.bdry) := by simpa using ChainEq.refl _
  refine ⟨chain_rot exRot h0, chain_add _ h0, ?_⟩
  unfold Spec.vol Spec.tetVol exT; unfold_model; norm_num

/-- `signedArea_axis_free`: the unit square in the xy-plane (normal exactly `ẑ`, the `argmax`
tie-free axis-aligned case) meets the hypotheses with `a = 1` -/
example : (∀ j, j < 3 → areaVec2 exSq9 j = 2 * 1 * (⟨0, 0, 1⟩ : V3 ℝ).get j) ∧
    (⟨0, 0, 1⟩ : V3 ℝ).get (Poly2.argmax3 (Scalar.abs (0:ℝ)) (Scalar.abs (0:ℝ)) (Scalar.abs (1:ℝ))) ≠ 0 := by
  refine ⟨?_, ?_⟩
  · intro j hj
    cases3 j <;> simp [areaVec2, exSq9, Poly2.rotl, V3.get] <;> norm_num
  · simp [Poly2.argmax3, V3.get]

/-- `dts_branches_agree`: the horizontal edge y = 1 (slope-0 branch), the ray at 90° and its copy
rotated by any `α` with `cos(π/2 + α) ≠ 0` (e.g. α = 1) -/
example : Spec.cross (⟨1, 1⟩ : P2 ℝ) ⟨-1, 1⟩ ≠ 0 ∧
    Spec.onLine (Spec.rayPoint 1 (Real.pi / 2)) (⟨1, 1⟩ : P2 ℝ) ⟨-1, 1⟩ := by
  refine ⟨?_, ?_⟩
  · simp [Spec.cross]
  · simp [Spec.onLine, Spec.rayPoint, Spec.cross, Scalar.lit]

/-- scaling by 10⁻³: the model's ear clipping of the (scaled) unit square succeeds exactly when
that of the unit square does (the defect repaired in /repo made the left side an error) -/
example : Polytri.triangulate (scV (1/1000) exSq9) = Polytri.mapRes (1/1000) (Polytri.triangulate exSq9) :=
  scale_polytri (by norm_num) exSq9

/-- the three generators of the property statement are proper similarities; so is their composition
`x ↦ 2 · exRot x + (1, 2, 3)` -/
example : (Sim.scaling 2).Proper ∧ (Sim.translation ⟨1, 2, 3⟩).Proper ∧ (Sim.rotation exRot).Proper ∧
    (⟨2, exRot, ⟨1, 2, 3⟩⟩ : Sim).Proper := by
  have h : IsRot exRot := by constructor <;> simp only [exRot, M3.det] <;> norm_num
  exact ⟨Sim.scaling_proper (by norm_num), Sim.translation_proper _, Sim.rotation_proper h, ⟨by norm_num, h⟩⟩

/-- `inside_poly_sim`: its hypotheses hold for the unit tetrahedron of C01 and the point `(1/5, 1/5, 1/5)` -/
example : ChainEq exT.bdry ([exT].flatMap Tet.bdry) ∧ (∀ T ∈ [exT], 0 ≤ Spec.In3D.orient T.a T.b T.c T.d) ∧
    Spec.In3D.offCone [exT] ⟨1/5, 1/5, 1/5⟩ = true := by
  refine ⟨by simpa using ChainEq.refl _, ?_, ?_⟩
  · intro T hT
    simp only [List.mem_singleton] at hT; subst hT
    unfold Spec.In3D.orient exT; unfold_model; norm_num
  · unfold Spec.In3D.offCone Spec.In3D.offApex Spec.In3D.inTet Spec.In3D.bary Spec.In3D.orient exT
    simp only [List.all_cons, List.all_nil, Bool.and_true]
    unfold_model
    norm_num [Scalar.eqb]

/-- `dts_polygon_sim`: the axis-aligned rectangle `[-2,2] × [-1,1]` (all four edges in the slope-0 / slope-∞
branches) measured from `(1/2, 1/4)`, and its copy rotated by `α = 1`, scaled by 3 and moved (all four edges in the
generic branch): the hypotheses on `x` hold for every `θ` -/
example : Spec.strictConvexCCW [(⟨2, -1⟩ : P2 ℝ), ⟨2, 1⟩, ⟨-2, 1⟩, ⟨-2, -1⟩] ∧
    Spec.strictlyInsideCCW [(⟨2, -1⟩ : P2 ℝ), ⟨2, 1⟩, ⟨-2, 1⟩, ⟨-2, -1⟩] ⟨1/2, 1/4⟩ ∧
    (0:ℝ) < (⟨3, 1, ⟨5, -7⟩⟩ : Sim2).k := by
  refine ⟨⟨by simp; norm_num, ?_⟩, ?_, by norm_num⟩
  · intro e he w hw h1 h2
    simp only [Spec.edgesOf, List.drop_succ_cons, List.drop_zero, List.take_succ_cons, List.take_zero,
      List.cons_append, List.nil_append, List.zip_cons_cons, List.zip_nil_right, List.mem_cons,
      List.not_mem_nil, or_false] at he hw
    rcases he with rfl | rfl | rfl | rfl <;> rcases hw with rfl | rfl | rfl | rfl <;>
      first
        | exact absurd rfl h1
        | exact absurd rfl h2
        | (simp [Spec.cross, Scalar.lit]; try norm_num)
  · intro e he
    simp only [Spec.edgesOf, List.drop_succ_cons, List.drop_zero, List.take_succ_cons, List.take_zero,
      List.cons_append, List.nil_append, List.zip_cons_cons, List.zip_nil_right, List.mem_cons,
      List.not_mem_nil, or_false] at he
    rcases he with rfl | rfl | rfl | rfl <;> (simp [Spec.cross, Scalar.lit]; try norm_num)

/-- `ff_rot`: the unit square in the xy-plane with normal `ẑ` is planar with unit normal -/
example : (∀ v ∈ exSq9, V3.dot (v - (⟨0, 0, 0⟩ : V3 ℝ)) ⟨0, 0, 1⟩ = 0) ∧ V3.dot (⟨0, 0, 1⟩ : V3 ℝ) ⟨0, 0, 1⟩ = 1 := by
  refine ⟨?_, by simp [V3.dot]⟩
  intro v hv
  simp only [exSq9, List.mem_cons, List.not_mem_nil, or_false] at hv
  rcases hv with rfl | rfl | rfl | rfl <;> simp [V3.dot]

/-- `inside_polygon_sim`: its hypotheses hold for C06's unit square in the plane `z = 2` seen with the normal `−ẑ`
(Kabsch frame `diag(−1, 1, −1)`), triangulated by a diagonal, and the point `(1/2, 1/3, 2)` -/
example : Inside2D.IsFrame (⟨-1, 0, 0, 0, 1, 0, 0, 0, -1⟩ : M3 ℝ) ⟨0, 0, -1⟩ ∧
    Inside2D.EdgeChainEq3 (Inside2D.edges sq3) (sq3Ts.flatMap Spec.In2D.Tri3.bdry) ∧
    (∀ t ∈ sq3Ts, Spec.In2D.orient3 ⟨0, 0, -1⟩ t.a t.b t.c < 0) ∧
    (∀ t ∈ sq3Ts, Spec.In2D.onBoundary3 ⟨0, 0, -1⟩ t ⟨1/2, 1/3, 2⟩ = false) := by
  refine ⟨frame_minus_z, sq3_chain, ?_, ?_⟩
  · intro t ht
    simp only [sq3Ts, List.mem_cons, List.not_mem_nil, or_false] at ht
    rcases ht with rfl | rfl <;> norm_num [Spec.In2D.orient3, V3.dot, V3.cross]
  · intro t ht
    simp only [sq3Ts, List.mem_cons, List.not_mem_nil, or_false] at ht
    rcases ht with rfl | rfl <;>
      simp only [Spec.In2D.onBoundary3, Spec.In2D.onSegment3, Spec.In2D.orient3, Spec.In2D.dot3, V3.dot, V3.cross,
        Inside2D.eqb_real, Scalar.lit, Scalar.ofNat_real, V3.sub_x, V3.sub_y, V3.sub_z] <;> norm_num

end
