import CoxeterVerif.Lemmas.CovariancePolytri
import CoxeterVerif.Props.C01
import CoxeterVerif.Props.C02
import CoxeterVerif.Props.C14
/-!
  # C09 — results are covariant under rotation, translation, scaling and relabelling

  Models: `CP` (ConvexPolyhedron measures), `Poly3` + `Polytri` (Polyhedron measures, ear clipping),
  `Poly2` (Polygon measures) — the models of C01/C02/C04, unchanged.  Transformations of the input:

  * `scS k S`, `scV k vs`   uniform scaling `x ↦ k x`   of a triangle list / a vertex list,
  * `addS t S`, `addT t Ts` translation `x ↦ x + t`,
  * `rotS R S`, `rotT R Ts` rotation `x ↦ R x`, `R : M3 ℝ` nine reals with `IsRot R`
                            (`RᵀR = 1` as six equations, `det R = 1`),
  * `ChainEq`, `List.Perm`, `Tri.rot`, `Poly2.rotl k`   relabellings.

  All statements are over ℝ, for every list (no bound on the number of vertices / triangles /
  tetrahedra).  What is TERM-WISE true is stated for every list `S`; translation and rotation
  covariance of the *surface* formulas for volume, centroid (and, for rotations, the inertia sums,
  whose summands use component-wise products) is not term-wise true — see
  `translate_termwise_fails` — and is obtained, for every surface that bounds a tetrahedralised
  solid (`ChainEq S (Ts.flatMap Tet.bdry)`), from the exactness theorems of C01/C02 and the
  transformation laws of the exact integrals (`Spec.*_add`, `IsRot.*_rot`, `Spec.*_scale`).
-/
open Scalar
set_option maxRecDepth 8000
noncomputable section

abbrev rotS (R : M3 ℝ) (S : List (Tri ℝ)) : List (Tri ℝ) := S.map (Tri.map (M3.mulVec R))

/-! ## 1. Scaling: lengths × k, areas × k², volumes × k³, inertia × k⁵ (polygons: × k⁴) -/

/-- **C09 scaling, volume.** `k³` for every real `k` (the signed volume changes sign with `k`) and
for the reported absolute volume when `k ≥ 0`. -/
theorem scale_cp_volume (k : ℝ) (S : List (Tri ℝ)) :
    CP.signedVolume (scS k S) = k ^ 3 * CP.signedVolume S ∧
    (0 ≤ k → CP.volume (scS k S) = k ^ 3 * CP.volume S) :=
  ⟨CP.signedVolume_scale k S, fun hk => CP.volume_scale hk S⟩

/-- **C09 scaling, surface area** (`k ≥ 0`). -/
theorem scale_cp_area {k : ℝ} (hk : 0 ≤ k) (S : List (Tri ℝ)) :
    CP.surfaceArea (scS k S) = k ^ 2 * CP.surfaceArea S := CP.surfaceArea_scale hk S

/-- **C09 scaling, centroid**: with the volume the code itself stores, the centroid of the scaled
surface is the scaled centroid (`k > 0`). -/
theorem scale_cp_centroid {k : ℝ} (hk : 0 < k) (S : List (Tri ℝ)) :
    CP.centroid (scS k S) (CP.volume (scS k S)) = V3.smul k (CP.centroid S (CP.volume S)) := by
  rw [CP.volume_scale hk.le, CP.centroid_scale hk.ne']

/-- **C09 scaling, inertia tensor**: `k⁵` with the code's own centroid and volume (`k > 0`);
term-wise, for every list of triangles (degenerate ones included). -/
theorem scale_cp_inertia {k : ℝ} (hk : 0 < k) (S : List (Tri ℝ)) :
    CP.inertia (scS k S) (CP.centroid (scS k S) (CP.volume (scS k S))) (CP.volume (scS k S))
      = M3.smulR (k ^ 5) (CP.inertia S (CP.centroid S (CP.volume S)) (CP.volume S)) := by
  rw [scale_cp_centroid hk, CP.volume_scale hk.le, CP.inertia_scale hk]

/-- **C09 scaling, general polyhedron**: Eberly centroid × k (`k ≠ 0`), Kallay inertia × k⁵
(`k > 0`; the global sign `np.sign(np.sum(volumes))` is scale free). -/
theorem scale_poly3 {k : ℝ} (hk : 0 < k) (S : List (Tri ℝ)) (v : ℝ) :
    Poly3.centroid (scS k S) = V3.smul k (Poly3.centroid S) ∧
    Poly3.inertia (scS k S) (Poly3.centroid (scS k S)) (k ^ 3 * v)
      = M3.smulR (k ^ 5) (Poly3.inertia S (Poly3.centroid S) v) := by
  refine ⟨Poly3.centroid_scale hk.ne' S, ?_⟩
  rw [Poly3.centroid_scale hk.ne', Poly3.inertia_scale hk]

/-- **C09 scaling, polygon**: signed area and area × k², perimeter × |k|, centroid × k, planar and
polar moments × k⁴ (`k ≠ 0`), for every vertex list, every normal and alignment matrix. -/
theorem scale_polygon {k : ℝ} (hk : k ≠ 0) (vs : List (V3 ℝ)) (n : V3 ℝ) (R : M3 ℝ) :
    Poly2.signedArea (scV k vs) n = k ^ 2 * Poly2.signedArea vs n ∧
    Poly2.area (scV k vs) n = k ^ 2 * Poly2.area vs n ∧
    Poly2.perimeter (scV k vs) = |k| * Poly2.perimeter vs ∧
    Poly2.centroid (scV k vs) n R = V3.smul k (Poly2.centroid vs n R) ∧
    Poly2.planarMoments (scV k vs) R =
      (k ^ 4 * (Poly2.planarMoments vs R).1, k ^ 4 * (Poly2.planarMoments vs R).2.1,
       k ^ 4 * (Poly2.planarMoments vs R).2.2) ∧
    Poly2.polarMoment (scV k vs) R = k ^ 4 * Poly2.polarMoment vs R :=
  ⟨Poly2.signedArea_scale vs n, Poly2.area_scale vs n, Poly2.perimeter_scale k vs,
   Poly2.centroid_scale hk vs n R, Poly2.planarMoments_scale hk vs R, Poly2.polarMoment_scale hk vs R⟩

theorem translateInertia_scale4 (k : ℝ) (d : V3 ℝ) (I : M3 ℝ) (v : ℝ) :
    CP.translateInertia (V3.smul k d) (M3.smulR (k ^ 4) I) (k ^ 2 * v) =
      M3.smulR (k ^ 4) (CP.translateInertia d I v) := by
  unfold CP.translateInertia
  apply M3.ext' <;> simp only [M3.smulR, V3.dot, V3.smul_x, V3.smul_y, V3.smul_z, Scalar.lit, Scalar.ofNat_real] <;>
    push_cast <;> ring

/-- **C09 scaling, polygon inertia tensor**: × k⁴ (area moment; `k ≠ 0`). -/
theorem scale_polygon_inertia {k : ℝ} (hk : k ≠ 0) (vs : List (V3 ℝ)) (n : V3 ℝ) (R R2 : M3 ℝ) :
    Poly2.inertiaTensor (scV k vs) n R R2 = M3.smulR (k ^ 4) (Poly2.inertiaTensor vs n R R2) := by
  unfold Poly2.inertiaTensor
  simp only [Poly2.centroid_scale hk, Poly2.area_scale]
  have h1 : (scV k vs).map (· - V3.smul k (Poly2.centroid vs n R)) = scV k (vs.map (· - Poly2.centroid vs n R)) := by
    simp only [scV, List.map_map]
    apply List.map_congr_left
    intro p _
    simp only [Function.comp, V3.smul_sub]
  rw [h1, Poly2.align_scale, Poly2.polarMoment_scale hk, ← translateInertia_scale4]
  congr 1
  simp only [Poly2.rotateTensor, M3.mul, M3.transpose, M3.smulR, Scalar.lit, Scalar.ofNat_real]
  apply M3.ext' <;> simp only [] <;> push_cast <;> ring

/-- **C09 scaling, ear clipping.** With the thresholds as repaired (all relative), every decision
of `polytri.triangulate` is scale free, so triangulating the scaled polygon gives the scaled
triangles in the same order — or the same error — for every polygon and every `k ≠ 0`:
in particular a face that triangulates at size 1 triangulates at size 10⁻³ and 10³. -/
theorem scale_polytri {k : ℝ} (hk : k ≠ 0) (poly : List (V3 ℝ)) :
    Polytri.triangulate (scV k poly) = Polytri.mapRes k (Polytri.triangulate poly) :=
  Polytri.triangulate_scale hk poly

/-- the individual homogeneity facts behind `scale_polytri`: Newell normal (degree 2), zero-normal
test, ear test `dot > 1e-6 |normal|²` (degree 4 on both sides), closed point-in-ear test. -/
theorem scale_polytri_decisions {k : ℝ} (hk : k ≠ 0) (poly : List (V3 ℝ)) (normal a b c : V3 ℝ)
    (pts : List (V3 ℝ)) :
    Polytri.newell (scV k poly) = V3.smul (k ^ 2) (Polytri.newell poly) ∧
    Polytri.degenerate (scV k poly) (V3.smul (k ^ 2) normal) = Polytri.degenerate poly normal ∧
    (Polytri.earTest (V3.smul (k ^ 2) normal) (V3.smul k a) (V3.smul k b) (V3.smul k c)
      ↔ Polytri.earTest normal a b c) ∧
    Polytri.anyPointInTriangle (V3.smul k a) (V3.smul k b) (V3.smul k c) (scV k pts)
      = Polytri.anyPointInTriangle a b c pts :=
  ⟨Polytri.newell_scale k poly, Polytri.degenerate_scale hk poly normal,
   Polytri.earTest_scale hk normal a b c, Polytri.anyPointInTriangle_scale hk a b c pts⟩

/-- **C09 scaling, exact integrals** (what the models are compared with): degrees 3, 4, 5. -/
theorem scale_spec (k : ℝ) (Ts : List (Tet ℝ)) :
    Spec.vol (scT k Ts) = k ^ 3 * Spec.vol Ts ∧
    Spec.first (scT k Ts) = V3.smul (k ^ 4) (Spec.first Ts) ∧
    (∀ i j, Spec.second (scT k Ts) i j = k ^ 5 * Spec.second Ts i j) ∧
    Spec.inertia (scT k Ts) = M3.smulR (k ^ 5) (Spec.inertia Ts) :=
  ⟨Spec.vol_scale k Ts, Spec.first_scale k Ts, Spec.second_scale k Ts, Spec.inertia_scale k Ts⟩

/-! ## 2. Translation -/

/-- **C09 translation, exact integrals**: volume invariant, first moment `+ vol · t`, second
moments by the parallel-axis polynomial, centroid moves with the solid, inertia tensor about the
origin = tensor about the (unchanged) centroidal frame shifted to the moved centroid. -/
theorem translate_spec (Ts : List (Tet ℝ)) (t : V3 ℝ) :
    Spec.vol (addT t Ts) = Spec.vol Ts ∧
    Spec.first (addT t Ts) = Spec.first Ts + V3.smul (Spec.vol Ts) t ∧
    (∀ i j, i < 3 → j < 3 → Spec.second (addT t Ts) i j =
      Spec.second Ts i j + t.get i * (Spec.first Ts).get j + t.get j * (Spec.first Ts).get i
        + t.get i * t.get j * Spec.vol Ts) ∧
    (Spec.vol Ts ≠ 0 → Spec.centroid (addT t Ts) = Spec.centroid Ts + t) ∧
    (Spec.vol Ts ≠ 0 → Spec.inertia (addT t Ts) = CP.translateInertia (Spec.centroid Ts + t)
      (Spec.inertia (Ts.map (Tet.map (· - Spec.centroid Ts)))) (Spec.vol Ts)) :=
  ⟨Spec.vol_add Ts t, Spec.first_add Ts t, fun i j hi hj => Spec.second_add Ts t i j hi hj,
   Spec.centroid_add Ts t, Spec.inertia_add Ts t⟩

theorem chain_add {S : List (Tri ℝ)} {Ts : List (Tet ℝ)} (t : V3 ℝ)
    (h : ChainEq S (Ts.flatMap Tet.bdry)) : ChainEq (addS t S) ((addT t Ts).flatMap Tet.bdry) := by
  have := ChainEq.map (· + t) h
  rwa [← flatMap_bdry_map] at this

/-- **C09 translation, convex polyhedron volume and centroid**: for every surface bounding a
solid the signed volume is unchanged and the centroid moves by `t`. -/
theorem translate_cp {S : List (Tri ℝ)} {Ts : List (Tet ℝ)} (t : V3 ℝ)
    (h : ChainEq S (Ts.flatMap Tet.bdry)) (hpos : 0 < Spec.vol Ts) :
    CP.signedVolume (addS t S) = CP.signedVolume S ∧
    CP.centroid (addS t S) (CP.volume (addS t S)) = CP.centroid S (CP.volume S) + t := by
  have hpos' : 0 < Spec.vol (addT t Ts) := by rw [Spec.vol_add]; exact hpos
  refine ⟨?_, ?_⟩
  · rw [cp_volume_exact (chain_add t h), cp_volume_exact h, Spec.vol_add]
  · rw [cp_centroid_exact (chain_add t h) hpos', cp_centroid_exact h hpos, Spec.centroid_add Ts t hpos.ne']

/-- **term-wise translation covariance of the surface formulas is FALSE**: for a single triangle
(an open surface) the signed-volume sum changes under a translation.  Hence the `ChainEq`
hypothesis of `translate_cp` cannot be dropped. -/
theorem translate_termwise_fails :
    ¬ (∀ (S : List (Tri ℝ)) (t : V3 ℝ), CP.signedVolume (addS t S) = CP.signedVolume S) := by
  intro h
  have := h [⟨⟨1,0,0⟩, ⟨0,1,0⟩, ⟨0,0,1⟩⟩] ⟨1,0,0⟩
  simp only [CP.signedVolume, addS, List.map_cons, List.map_nil] at this
  revert this
  unfold_model
  norm_num

/-- **C09 translation, inertia tensor (both polyhedron classes)**: the tensor about the centroid is
term-wise invariant when the centroid moves with the shape, so the reported tensor about the
origin differs exactly by the parallel-axis shift to the new centroid. -/
theorem translate_inertia (S : List (Tri ℝ)) (c t : V3 ℝ) (v : ℝ) :
    CP.inertia (addS t S) (c + t) v = CP.translateInertia (c + t) (CP.inertiaCentred S c) v ∧
    Poly3.inertia (addS t S) (c + t) v = CP.translateInertia (c + t) (Poly3.inertiaCentred S c) v := by
  unfold CP.inertia Poly3.inertia
  rw [CP.inertiaCentred_add, Poly3.inertiaCentred_add]
  exact ⟨rfl, rfl⟩

/-- with the code's own centroid and volume, for a surface bounding a solid -/
theorem translate_cp_inertia {S : List (Tri ℝ)} {Ts : List (Tet ℝ)} (t : V3 ℝ)
    (h : ChainEq S (Ts.flatMap Tet.bdry)) (hpos : 0 < Spec.vol Ts) :
    CP.inertia (addS t S) (CP.centroid (addS t S) (CP.volume (addS t S))) (CP.volume (addS t S))
      = CP.translateInertia (CP.centroid S (CP.volume S) + t)
          (CP.inertiaCentred S (CP.centroid S (CP.volume S))) (CP.volume S) := by
  have hv : CP.volume (addS t S) = CP.volume S := by
    unfold CP.volume; rw [(translate_cp t h hpos).1]
  rw [(translate_cp t h hpos).2, hv]
  exact (translate_inertia S _ t _).1

/-- **C09 translation, general polyhedron**: Eberly centroid moves with the mesh (any closed
surface bounding a solid of non-zero volume, convex or not). -/
theorem translate_poly3_centroid {S : List (Tri ℝ)} {Ts : List (Tet ℝ)} (t : V3 ℝ)
    (h : ChainEq S (Ts.flatMap Tet.bdry)) (hv : Spec.vol Ts ≠ 0) :
    Poly3.centroid (addS t S) = Poly3.centroid S + t := by
  have hv' : Spec.vol (addT t Ts) ≠ 0 := by rw [Spec.vol_add]; exact hv
  rw [poly_centroid_exact (chain_add t h) hv', poly_centroid_exact h hv, Spec.centroid_add Ts t hv]

/-- **C09 translation, polygon**: perimeter (term-wise) and signed area / area (the summands change,
their sum round the closed vertex cycle does not) are invariant under every translation, for every
vertex list and every stored normal / projection axis. -/
theorem translate_polygon (t : V3 ℝ) (vs : List (V3 ℝ)) (n : V3 ℝ) :
    Poly2.perimeter (addV t vs) = Poly2.perimeter vs ∧
    Poly2.signedArea (addV t vs) n = Poly2.signedArea vs n ∧
    Poly2.area (addV t vs) n = Poly2.area vs n := by
  refine ⟨Poly2.perimeter_add t vs, Poly2.signedArea_add t vs n, ?_⟩
  unfold Poly2.area; rw [Poly2.signedArea_add]

/-! ## 3. Relabelling: simplex order, vertex order inside a simplex, cyclic shift of a polygon -/

theorem chainEq_map_rot (S : List (Tri ℝ)) : ChainEq (S.map Tri.rot) S := by
  intro φ hφ
  simp only [sumOver, List.map_map]
  congr 1
  exact List.map_congr_left (fun t _ => hφ.rot t)

/-- **C09 relabelling, convex polyhedron**: permuting the simplices or cyclically shifting the
vertices of every simplex leaves volume and centroid unchanged (instances of
`cp_volume_order_independent`, `cp_centroid_order_independent` of C01). -/
theorem relabel_cp (S S' : List (Tri ℝ)) (hp : S.Perm S') (v : ℝ) :
    CP.signedVolume S = CP.signedVolume S' ∧ CP.centroid S v = CP.centroid S' v ∧
    CP.signedVolume (S.map Tri.rot) = CP.signedVolume S ∧
    CP.centroid (S.map Tri.rot) v = CP.centroid S v :=
  ⟨cp_volume_order_independent (ChainEq.perm hp), cp_centroid_order_independent (ChainEq.perm hp) v,
   cp_volume_order_independent (chainEq_map_rot S), cp_centroid_order_independent (chainEq_map_rot S) v⟩

/-- the six quadrature sums of the inertia loop depend on the surface as a chain only
(non-degenerate triangles): the missing order-independence corollary of C01 for the inertia. -/
theorem relabel_cp_inertia {S S' : List (Tri ℝ)} (h : ChainEq S S') (c : V3 ℝ)
    (hnd : ∀ t ∈ S, V3.norm t.nvec ≠ 0) (hnd' : ∀ t ∈ S', V3.norm t.nvec ≠ 0) :
    CP.inertiaCentred S c = CP.inertiaCentred S' c := by
  have hch := ChainEq.map (· - c) h
  have inn : ∀ s0 s1, s0 < s1 → s1 < 3 →
      ((S.map (CP.simplexData c)).map fun d => CP.innTerm d.1 d.2.1 d.2.2 s0 s1).sum
        = ((S'.map (CP.simplexData c)).map fun d => CP.innTerm d.1 d.2.1 d.2.2 s0 s1).sum := by
    intro s0 s1 h0 h1
    have e : ∀ L : List (Tri ℝ), (∀ t ∈ L, V3.norm t.nvec ≠ 0) →
        ((L.map (CP.simplexData c)).map fun d => CP.innTerm d.1 d.2.1 d.2.2 s0 s1).sum
          = sumOver (innPhi s0 s1) (L.map (Tri.map (· - c))) := by
      intro L hL
      simp only [sumOver, List.map_map]
      congr 1
      apply List.map_congr_left
      intro t ht
      exact innTerm_eq t c (hL t ht) s0 s1
    rw [e S hnd, e S' hnd']
    exact hch _ (innPhi_oddCyclic s0 s1 h0 h1)
  have inm : ∀ s0 s1, s0 < s1 → s1 < 3 →
      ((S.map (CP.simplexData c)).map fun d => CP.inmTerm d.1 d.2.1 d.2.2 s0 s1).sum
        = ((S'.map (CP.simplexData c)).map fun d => CP.inmTerm d.1 d.2.1 d.2.2 s0 s1).sum := by
    intro s0 s1 h0 h1
    have e : ∀ L : List (Tri ℝ), (∀ t ∈ L, V3.norm t.nvec ≠ 0) →
        ((L.map (CP.simplexData c)).map fun d => CP.inmTerm d.1 d.2.1 d.2.2 s0 s1).sum
          = sumOver (inmPhi s0 s1) (L.map (Tri.map (· - c))) := by
      intro L hL
      simp only [sumOver, List.map_map]
      congr 1
      apply List.map_congr_left
      intro t ht
      exact inmTerm_eq t c (hL t ht) s0 s1
    rw [e S hnd, e S' hnd']
    exact hch _ (inmPhi_oddCyclic s0 s1 h0 h1)
  rw [CP.inertiaCentred_eq, CP.inertiaCentred_eq]
  simp only [inn 1 2 (by omega) (by omega), inn 0 2 (by omega) (by omega), inn 0 1 (by omega) (by omega),
    inm 0 1 (by omega) (by omega), inm 0 2 (by omega) (by omega), inm 1 2 (by omega) (by omega)]

/-- **C09 relabelling, general polyhedron**: the Eberly centroid depends on the surface as a chain
only — face order, cyclic shift of a face's vertex list (which changes the fan polytri emits) and
any re-triangulation of the faces give the same centroid. -/
theorem relabel_poly3_centroid {S S' : List (Tri ℝ)} (h : ChainEq S S') :
    Poly3.centroid S = Poly3.centroid S' := by
  unfold Poly3.centroid
  have hv : Scalar.sum (S.map fun t => (Poly3.eberlyTerm t).1) = Scalar.sum (S'.map fun t => (Poly3.eberlyTerm t).1) := by
    simp only [Scalar.sum_real]; exact h _ ebVolPhi_oddCyclic
  have hc : V3.sum (S.map fun t => (Poly3.eberlyTerm t).2) = V3.sum (S'.map fun t => (Poly3.eberlyTerm t).2) := by
    apply V3.ext_get
    intro i hi
    have := h _ (ebCenPhi_oddCyclic i hi)
    cases3 i
    · simp only [V3.get_zero, V3.sum_x, List.map_map]; exact this
    · simp only [V3.get_one, V3.sum_y, List.map_map]; exact this
    · simp only [V3.get_two, V3.sum_z, List.map_map]; exact this
  rw [hv, hc]

/-- **C09 relabelling, polygon**: starting the vertex list at another vertex (`np.roll`) changes
none of signed area, perimeter, centroid, planar moments. -/
theorem relabel_polygon (vs : List (V3 ℝ)) (n : V3 ℝ) (R : M3 ℝ) (k : Nat) :
    Poly2.signedArea (Poly2.rotl k vs) n = Poly2.signedArea vs n ∧
    Poly2.perimeter (Poly2.rotl k vs) = Poly2.perimeter vs ∧
    Poly2.centroid (Poly2.rotl k vs) n R = Poly2.centroid vs n R ∧
    Poly2.planarMoments (Poly2.rotl k vs) R = Poly2.planarMoments vs R :=
  ⟨Poly2.signedArea_rotl vs n k, Poly2.perimeter_rotl vs k, Poly2.centroid_rotl vs n R k,
   Poly2.planarMoments_rotl vs R k⟩

/-! ## 4. Rotation (component form) -/

/-- **C09 rotation, vector algebra**: for `R` with `RᵀR = 1`, `det R = 1`:
`det(Ra, Rb, Rc) = det(a, b, c)`, `Ra × Rb = R (a × b)`, `Ra · Rb = a · b`, `|Ra| = |a|`. -/
theorem rot_vectors {R : M3 ℝ} (h : IsRot R) (a b c : V3 ℝ) :
    V3.det3 (M3.mulVec R a) (M3.mulVec R b) (M3.mulVec R c) = V3.det3 a b c ∧
    V3.cross (M3.mulVec R a) (M3.mulVec R b) = M3.mulVec R (V3.cross a b) ∧
    V3.dot (M3.mulVec R a) (M3.mulVec R b) = V3.dot a b ∧
    V3.norm (M3.mulVec R a) = V3.norm a :=
  ⟨h.det3_rot a b c, h.cross_rot a b, h.dot_rot a b, h.norm_rot a⟩

/-- **C09 rotation, exact integrals**: tetrahedron volume and total volume invariant, first moment
and centroid rotate, second moments `M ↦ R M Rᵀ`, trace invariant, inertia `I ↦ R I Rᵀ`. -/
theorem rot_spec {R : M3 ℝ} (h : IsRot R) (Ts : List (Tet ℝ)) :
    (∀ T, Spec.tetVol (T.map (M3.mulVec R)) = Spec.tetVol T) ∧
    Spec.vol (rotT R Ts) = Spec.vol Ts ∧
    Spec.first (rotT R Ts) = M3.mulVec R (Spec.first Ts) ∧
    Spec.centroid (rotT R Ts) = M3.mulVec R (Spec.centroid Ts) ∧
    Spec.secondM (rotT R Ts) = Poly2.rotateTensor R (Spec.secondM Ts) ∧
    M3.trace (Spec.secondM (rotT R Ts)) = M3.trace (Spec.secondM Ts) ∧
    Spec.inertia (rotT R Ts) = Poly2.rotateTensor R (Spec.inertia Ts) :=
  ⟨h.tetVol_rot, h.vol_rot Ts, h.first_rot Ts, h.centroid_rot Ts, h.secondM_rot Ts,
   h.second_trace_rot Ts, h.inertia_rot Ts⟩

/-- **C09 rotation, term-wise invariants of the convex-polyhedron model**: signed volume, triangle
areas and hence the surface area, for every list of triangles. -/
theorem rot_cp_volume_area {R : M3 ℝ} (h : IsRot R) (S : List (Tri ℝ)) :
    CP.signedVolume (rotS R S) = CP.signedVolume S ∧ CP.surfaceArea (rotS R S) = CP.surfaceArea S := by
  refine ⟨?_, ?_⟩
  · simp only [CP.signedVolume, rotS, List.map_map]
    congr 1
    apply List.map_congr_left
    intro t _
    simp only [Function.comp, Tri.map, h.det3_rot]
  · simp only [CP.surfaceArea, rotS, List.map_map]
    congr 1
    apply List.map_congr_left
    intro t _
    simp only [Function.comp, CP.triArea, Tri.map, ← mulVec_sub, h.cross_rot, h.norm_rot]

theorem chain_rot {S : List (Tri ℝ)} {Ts : List (Tet ℝ)} (R : M3 ℝ)
    (h : ChainEq S (Ts.flatMap Tet.bdry)) : ChainEq (rotS R S) ((rotT R Ts).flatMap Tet.bdry) := by
  have := ChainEq.map (M3.mulVec R) h
  rwa [← flatMap_bdry_map] at this

/-- **C09 rotation, convex polyhedron centroid.** The summands `n · ((a+b)² + (b+c)² + (a+c)²)`
are component-wise products and are NOT rotation covariant term by term; for a surface bounding a
solid the centroid nevertheless rotates with the shape. -/
theorem rot_cp_centroid {R : M3 ℝ} (hR : IsRot R) {S : List (Tri ℝ)} {Ts : List (Tet ℝ)}
    (h : ChainEq S (Ts.flatMap Tet.bdry)) (hpos : 0 < Spec.vol Ts) :
    CP.centroid (rotS R S) (CP.volume (rotS R S)) = M3.mulVec R (CP.centroid S (CP.volume S)) := by
  have hpos' : 0 < Spec.vol (rotT R Ts) := by rw [hR.vol_rot]; exact hpos
  rw [cp_centroid_exact (chain_rot R h) hpos', cp_centroid_exact h hpos, hR.centroid_rot]

theorem nvec_rot {R : M3 ℝ} (hR : IsRot R) (t : Tri ℝ) :
    (t.map (M3.mulVec R)).nvec = M3.mulVec R t.nvec := by
  simp only [Tri.nvec, Tri.map, ← mulVec_sub, hR.cross_rot]

/-- **C09 rotation, convex polyhedron inertia tensor**: `I ↦ R I Rᵀ` for every surface of
non-degenerate triangles bounding a solid of positive volume (through `cp_inertia_exact'`). -/
theorem rot_cp_inertia {R : M3 ℝ} (hR : IsRot R) {S : List (Tri ℝ)} {Ts : List (Tet ℝ)}
    (h : ChainEq S (Ts.flatMap Tet.bdry)) (hnd : ∀ t ∈ S, V3.norm t.nvec ≠ 0) (hpos : 0 < Spec.vol Ts) :
    CP.inertia (rotS R S) (CP.centroid (rotS R S) (CP.volume (rotS R S))) (CP.volume (rotS R S))
      = Poly2.rotateTensor R (CP.inertia S (CP.centroid S (CP.volume S)) (CP.volume S)) := by
  have hpos' : 0 < Spec.vol (rotT R Ts) := by rw [hR.vol_rot]; exact hpos
  have hnd' : ∀ t ∈ rotS R S, V3.norm t.nvec ≠ 0 := by
    intro t ht
    simp only [rotS, List.mem_map] at ht
    obtain ⟨u, hu, rfl⟩ := ht
    rw [nvec_rot hR, hR.norm_rot]; exact hnd u hu
  rw [cp_inertia_exact' (chain_rot R h) hnd' hpos', cp_inertia_exact' h hnd hpos, hR.inertia_rot]

/-- **C09 rotation, general polyhedron**: Eberly centroid rotates with the mesh; Kallay inertia
`I ↦ R I Rᵀ` (exact centroid and volume as in `poly_inertia_exact`). -/
theorem rot_poly3 {R : M3 ℝ} (hR : IsRot R) {S : List (Tri ℝ)} {Ts : List (Tet ℝ)}
    (h : ChainEq S (Ts.flatMap Tet.bdry)) (hpos : 0 < Spec.vol Ts) :
    Poly3.centroid (rotS R S) = M3.mulVec R (Poly3.centroid S) ∧
    Poly3.inertia (rotS R S) (Poly3.centroid (rotS R S)) (Spec.vol Ts)
      = Poly2.rotateTensor R (Poly3.inertia S (Poly3.centroid S) (Spec.vol Ts)) := by
  have hpos' : 0 < Spec.vol (rotT R Ts) := by rw [hR.vol_rot]; exact hpos
  have hc : Poly3.centroid (rotS R S) = M3.mulVec R (Poly3.centroid S) := by
    rw [poly_centroid_exact (chain_rot R h) hpos'.ne', poly_centroid_exact h hpos.ne', hR.centroid_rot]
  refine ⟨hc, ?_⟩
  have e1 := poly_inertia_exact (chain_rot R h) hpos'
  have e2 := poly_inertia_exact h hpos
  rw [hR.vol_rot] at e1
  rw [poly_centroid_exact (chain_rot R h) hpos'.ne', e1, poly_centroid_exact h hpos.ne', e2, hR.inertia_rot]

/-- **C09 rotation, polygon perimeter** (term-wise). -/
theorem rot_polygon_perimeter {R : M3 ℝ} (hR : IsRot R) (vs : List (V3 ℝ)) :
    Poly2.perimeter (vs.map (M3.mulVec R)) = Poly2.perimeter vs := by
  unfold Poly2.perimeter
  simp only [Poly2.rotl_map, List.zipWith_map_left, List.zipWith_map_right, ← mulVec_sub, hR.norm_rot]

/-! ### an axis-aligned shape behaves like its rotated copy -/

/-- component `j` of twice the vector area `Σ v_i × v_{i+1}` in the form `Polygon.signed_area`
evaluates it for the projection axis `j` -/
def areaVec2 (vs : List (V3 ℝ)) (j : Nat) : ℝ :=
  (List.zipWith (fun (ab : V3 ℝ × V3 ℝ) c => ab.2.get ((j + 1) % 3) * (c.get ((j + 2) % 3) - ab.1.get ((j + 2) % 3)))
    (vs.zip (Poly2.rotl 1 vs)) (Poly2.rotl 2 vs)).sum

/-- **`signed_area` does not depend on which projection axis `argmax |n|` selects.** If the
polygon's vector area is `a · n` (it is planar with normal direction `n`), then whichever axis
the `argmax` picks (ties, axis-aligned normals and generic normals alike) the result is
`a · |n|`, provided only that the selected component of `n` is not zero (true for the argmax of
a non-zero vector).  So a polygon in a coordinate plane and its rotated copy get the same area. -/
theorem signedArea_axis_free (vs : List (V3 ℝ)) (n : V3 ℝ) (a : ℝ)
    (hA : ∀ j, j < 3 → areaVec2 vs j = 2 * a * n.get j)
    (hk : n.get (Poly2.argmax3 (Scalar.abs n.x) (Scalar.abs n.y) (Scalar.abs n.z)) ≠ 0) :
    Poly2.signedArea vs n = a * V3.norm ⟨Scalar.abs n.x, Scalar.abs n.y, Scalar.abs n.z⟩ := by
  unfold Poly2.signedArea
  simp only [Scalar.sum_real]
  set k := Poly2.argmax3 (Scalar.abs n.x) (Scalar.abs n.y) (Scalar.abs n.z) with hkdef
  have hk3 : k < 3 := by
    rw [hkdef]; unfold Poly2.argmax3; split_ifs <;> omega
  have := hA k hk3
  unfold areaVec2 at this
  rw [this]
  simp only [Scalar.lit, Scalar.ofNat_real]; push_cast
  field_simp

/-- **`distance_to_surface`: the `slope = 0`, `slope = ∞` and generic branches agree with the
rotated copy.**  Rotate the edge `p1 → p2` and the ray direction by the same in-plane angle `α`:
whatever branches the two edges fall into (an exactly horizontal or vertical edge versus its
generic rotated copy), the coded formulas return the same distance — both equal the parameter
`d0` at which the ray meets the edge's supporting line (`cpoly_edge_dts_eq` of C14). -/
theorem dts_branches_agree (p1 p2 : P2 ℝ) (a α d0 : ℝ) (hd0 : 0 < d0)
    (hcr : Spec.cross p1 p2 ≠ 0) (hline : Spec.onLine (Spec.rayPoint d0 a) p1 p2)
    (hcos : p1.x ≠ p2.x → p1.y ≠ p2.y → Real.cos a ≠ 0)
    (hcos' : Real.cos (a + α) ≠ 0) :
    let rot := fun p : P2 ℝ => (⟨p.x * Real.cos α - p.y * Real.sin α, p.x * Real.sin α + p.y * Real.cos α⟩ : P2 ℝ)
    DTS.edgeDist (DTS.mkEdge (rot p1) (rot p2)) (a + α) = DTS.edgeDist (DTS.mkEdge p1 p2) a := by
  intro rot
  have hsc := sin_mul_self_add_cos_mul_self α
  rw [cpoly_edge_dts_eq p1 p2 a d0 hd0 hcr hline hcos]
  apply cpoly_edge_dts_eq (rot p1) (rot p2) (a + α) d0 hd0
  · have : Spec.cross (rot p1) (rot p2) = Spec.cross p1 p2 := by
      simp only [Spec.cross, rot]
      linear_combination (p1.x * p2.y - p1.y * p2.x) * hsc
    rw [this]; exact hcr
  · unfold Spec.onLine Spec.rayPoint at hline ⊢
    simp only [Spec.cross, P2.sub_x, P2.sub_y, Scalar.lit, Scalar.ofNat_real, Scalar.sin_real,
      Scalar.cos_real, Nat.cast_zero, rot, Real.cos_add, Real.sin_add] at hline ⊢
    linear_combination (Real.sin α * Real.sin α + Real.cos α * Real.cos α) * hline
  · intro _ _; exact hcos'

/-! ## non-vacuity -/

/-- the unit square, counter-clockwise in the xy-plane -/
def exSq9 : List (V3 ℝ) := [⟨0,0,0⟩, ⟨1,0,0⟩, ⟨1,1,0⟩, ⟨0,1,0⟩]

/-- a proper rotation that is not a signed permutation: about the z-axis with cos = 3/5, sin = 4/5 -/
def exRot : M3 ℝ := ⟨3/5, -4/5, 0, 4/5, 3/5, 0, 0, 0, 1⟩

example : IsRot exRot := by
  constructor <;> simp only [exRot, M3.det] <;> norm_num

/-- the hypotheses of the chain-based theorems hold for the unit tetrahedron of C01, and for its
rotated, translated copy -/
example : ChainEq (rotS exRot exT.bdry) ((rotT exRot [exT]).flatMap Tet.bdry) ∧
    ChainEq (addS ⟨1, 2, 3⟩ exT.bdry) ((addT ⟨1, 2, 3⟩ [exT]).flatMap Tet.bdry) ∧ 0 < Spec.vol [exT] := by
  have h0 : ChainEq exT.bdry ([exT].flatMap Tet.bdry) := by simpa using ChainEq.refl _
  refine ⟨chain_rot exRot h0, chain_add _ h0, ?_⟩
  unfold Spec.vol Spec.tetVol exT; unfold_model; norm_num

/-- `signedArea_axis_free`: the unit square in the xy-plane (normal exactly `ẑ`, the `argmax`
tie-free axis-aligned case) meets the hypotheses with `a = 1` -/
example : (∀ j, j < 3 → areaVec2 exSq9 j = 2 * 1 * (⟨0, 0, 1⟩ : V3 ℝ).get j) ∧
    (⟨0, 0, 1⟩ : V3 ℝ).get (Poly2.argmax3 (Scalar.abs (0:ℝ)) (Scalar.abs (0:ℝ)) (Scalar.abs (1:ℝ))) ≠ 0 := by
  refine ⟨?_, ?_⟩
  · intro j hj
    cases3 j <;> simp [areaVec2, exSq9, Poly2.rotl, V3.get] <;> norm_num
  · simp [Poly2.argmax3, V3.get]

/-- `dts_branches_agree`: the horizontal edge y = 1 (slope-0 branch), the ray at 90° and its copy
rotated by any `α` with `cos(π/2 + α) ≠ 0` (e.g. α = 1) -/
example : Spec.cross (⟨1, 1⟩ : P2 ℝ) ⟨-1, 1⟩ ≠ 0 ∧
    Spec.onLine (Spec.rayPoint 1 (Real.pi / 2)) (⟨1, 1⟩ : P2 ℝ) ⟨-1, 1⟩ := by
  refine ⟨?_, ?_⟩
  · simp [Spec.cross]
  · simp [Spec.onLine, Spec.rayPoint, Spec.cross, Scalar.lit]

/-- scaling by 10⁻³: the model's ear clipping of the (scaled) unit square succeeds exactly when
that of the unit square does (the defect repaired in /repo made the left side an error) -/
example : Polytri.triangulate (scV (1/1000) exSq9) = Polytri.mapRes (1/1000) (Polytri.triangulate exSq9) :=
  scale_polytri (by norm_num) exSq9

end
