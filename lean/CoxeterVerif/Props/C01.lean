import CoxeterVerif.Lemmas.Solid
/-!
  # C01 — convex polyhedron volume, centroid, inertia are exact; order independent

  `S`  : the surface triangles `vertices[simplices]` the Python sums over (any number of them);
  `Ts` : ANY tetrahedralisation of the solid whose boundary chain is `S` (`ChainEq`);
  the "exact integrals" are the sums of tetrahedron closed forms (`Spec.vol/first/second`).
  All statements are over ℝ and unbounded in the number of vertices, faces and tetrahedra.
-/
open Scalar
set_option maxRecDepth 4000
noncomputable section

/-- **C01 volume.** The signed-tetrahedron sum equals the exact volume. -/
theorem cp_volume_exact {S : List (Tri ℝ)} {Ts : List (Tet ℝ)}
    (h : ChainEq S (Ts.flatMap Tet.bdry)) : CP.signedVolume S = Spec.vol Ts :=
  signedVolume_chain h

/-- the reported (absolute) volume, for an outward oriented surface -/
theorem cp_abs_volume_exact {S : List (Tri ℝ)} {Ts : List (Tet ℝ)}
    (h : ChainEq S (Ts.flatMap Tet.bdry)) (hpos : 0 ≤ Spec.vol Ts) : CP.volume S = Spec.vol Ts := by
  unfold CP.volume; rw [cp_volume_exact h]; simpa using hpos

theorem centroid_sum_get (S : List (Tri ℝ)) (i : Nat) (hi : i < 3) :
    (V3.sum (S.map CP.centroidTerm)).get i = sumOver (cenPhi i) S := by
  cases3 i
  · simp only [V3.get_zero, V3.sum_x, sumOver, List.map_map]; rfl
  · simp only [V3.get_one, V3.sum_y, sumOver, List.map_map]; rfl
  · simp only [V3.get_two, V3.sum_z, sumOver, List.map_map]; rfl

/-- the surface sum of the curl-theorem centroid is 48 × the exact first moment -/
theorem centroid_sum_exact {S : List (Tri ℝ)} {Ts : List (Tet ℝ)}
    (h : ChainEq S (Ts.flatMap Tet.bdry)) (i : Nat) (hi : i < 3) :
    (V3.sum (S.map CP.centroidTerm)).get i = 48 * (Spec.first Ts).get i := by
  rw [centroid_sum_get S i hi, sumOver_bdry (cenPhi_oddCyclic i hi) (cenPhi_tet i hi) h,
    first_get Ts i hi, list_sum_map_mul]

/-- **C01 centroid.** For an outward oriented surface (positive volume) the curl-theorem
centroid equals first moment / volume. -/
theorem cp_centroid_exact {S : List (Tri ℝ)} {Ts : List (Tet ℝ)}
    (h : ChainEq S (Ts.flatMap Tet.bdry)) (hpos : 0 < Spec.vol Ts) :
    CP.centroid S (CP.volume S) = Spec.centroid Ts := by
  rw [cp_abs_volume_exact h hpos.le]
  apply V3.ext_get
  intro i hi
  have hs := centroid_sum_exact h i hi
  have hv : Spec.vol Ts ≠ 0 := hpos.ne'
  unfold CP.centroid Spec.centroid
  cases3 i <;>
    simp only [V3.get_zero, V3.get_one, V3.get_two, V3.smul_x, V3.smul_y, V3.smul_z, V3.sdiv_x,
      V3.sdiv_y, V3.sdiv_z, Scalar.lit, Scalar.ofNat_real] at hs ⊢ <;>
    rw [hs] <;> push_cast <;> field_simp

/-! ### inertia -/

theorem innTerm_eq (t : Tri ℝ) (c : V3 ℝ) (hnd : V3.norm t.nvec ≠ 0) (s0 s1 : Nat) :
    CP.innTerm (CP.simplexNormal t) (CP.triArea (t.map (· - c)) * lit 2) (t.map (· - c)) s0 s1
      = innPhi s0 s1 (t.map (· - c)) := by
  unfold CP.innTerm innPhi
  rw [triArea_two, nvec_map_sub, simplexNormal_get t hnd, simplexNormal_get t hnd]

theorem inmTerm_eq (t : Tri ℝ) (c : V3 ℝ) (hnd : V3.norm t.nvec ≠ 0) (s0 s1 : Nat) :
    CP.inmTerm (CP.simplexNormal t) (CP.triArea (t.map (· - c)) * lit 2) (t.map (· - c)) s0 s1
      = inmPhi s0 s1 (t.map (· - c)) := by
  unfold CP.inmTerm inmPhi
  rw [triArea_two, nvec_map_sub, mul_assoc, mul_assoc, simplexNormal_get t hnd,
    simplexNormal_get t hnd]

theorem inn_sum_exact {S : List (Tri ℝ)} {Ts : List (Tet ℝ)} (c : V3 ℝ)
    (h : ChainEq S (Ts.flatMap Tet.bdry)) (hnd : ∀ t ∈ S, V3.norm t.nvec ≠ 0)
    (s0 s1 : Nat) (h0 : s0 < s1) (h1 : s1 < 3) :
    ((S.map fun t => (CP.simplexNormal t, CP.triArea (t.map (· - c)) * lit 2, t.map (· - c))).map
        fun d => CP.innTerm d.1 d.2.1 d.2.2 s0 s1).sum
      = 6 * (Spec.second (Ts.map (Tet.map (· - c))) s0 s0 + Spec.second (Ts.map (Tet.map (· - c))) s1 s1) := by
  have hch := ChainEq.map (· - c) h
  rw [← flatMap_bdry_map] at hch
  have := sumOver_bdry (innPhi_oddCyclic s0 s1 h0 h1) (innPhi_tet s0 s1 h0 h1) hch
  rw [Spec.second_eq, Spec.second_eq, ← list_sum_map_lin, ← this]
  simp only [sumOver, List.map_map, Function.comp_def]
  congr 1
  apply List.map_congr_left
  intro t ht
  exact innTerm_eq t c (hnd t ht) s0 s1

theorem inm_sum_exact {S : List (Tri ℝ)} {Ts : List (Tet ℝ)} (c : V3 ℝ)
    (h : ChainEq S (Ts.flatMap Tet.bdry)) (hnd : ∀ t ∈ S, V3.norm t.nvec ≠ 0)
    (s0 s1 : Nat) (h0 : s0 < s1) (h1 : s1 < 3) :
    ((S.map fun t => (CP.simplexNormal t, CP.triArea (t.map (· - c)) * lit 2, t.map (· - c))).map
        fun d => CP.inmTerm d.1 d.2.1 d.2.2 s0 s1).sum
      = 8 * Spec.second (Ts.map (Tet.map (· - c))) s0 s1 := by
  have hch := ChainEq.map (· - c) h
  rw [← flatMap_bdry_map] at hch
  have := sumOver_bdry (inmPhi_oddCyclic s0 s1 h0 h1) (inmPhi_tet s0 s1 h0 h1) hch
  rw [Spec.second_eq, ← list_sum_map_mul, ← this]
  simp only [sumOver, List.map_map, Function.comp_def]
  congr 1
  apply List.map_congr_left
  intro t ht
  exact inmTerm_eq t c (hnd t ht) s0 s1

/-- **C01 inertia tensor.** For every surface `S` of non-degenerate triangles that is the boundary
chain of a tetrahedralisation `Ts` of non-zero volume, the 4-point-quadrature tensor about the
centroid, shifted by the parallel-axis theorem, equals the exact inertia tensor about the origin. -/
theorem cp_inertia_exact {S : List (Tri ℝ)} {Ts : List (Tet ℝ)}
    (h : ChainEq S (Ts.flatMap Tet.bdry)) (hnd : ∀ t ∈ S, V3.norm t.nvec ≠ 0)
    (hv : Spec.vol Ts ≠ 0) :
    CP.inertia S (Spec.centroid Ts) (Spec.vol Ts) = Spec.inertia Ts := by
  have e01 := inm_sum_exact (Spec.centroid Ts) h hnd 0 1 (by omega) (by omega)
  have e02 := inm_sum_exact (Spec.centroid Ts) h hnd 0 2 (by omega) (by omega)
  have e12 := inm_sum_exact (Spec.centroid Ts) h hnd 1 2 (by omega) (by omega)
  have n12 := inn_sum_exact (Spec.centroid Ts) h hnd 1 2 (by omega) (by omega)
  have n02 := inn_sum_exact (Spec.centroid Ts) h hnd 0 2 (by omega) (by omega)
  have n01 := inn_sum_exact (Spec.centroid Ts) h hnd 0 1 (by omega) (by omega)
  have s00 := second_centred Ts 0 0 (by omega) (by omega) hv
  have s11 := second_centred Ts 1 1 (by omega) (by omega) hv
  have s22 := second_centred Ts 2 2 (by omega) (by omega) hv
  have s01 := second_centred Ts 0 1 (by omega) (by omega) hv
  have s02 := second_centred Ts 0 2 (by omega) (by omega) hv
  have s12 := second_centred Ts 1 2 (by omega) (by omega) hv
  simp only [V3.get_zero, V3.get_one, V3.get_two] at s00 s11 s22 s01 s02 s12
  unfold CP.inertia CP.translateInertia CP.inertiaCentred Spec.inertia
  simp only [Scalar.sum_real]
  apply M3.ext' <;> simp only [e01, e02, e12, n12, n02, n01, s00, s11, s22, s01, s02, s12] <;>
    simp only [V3.dot, Scalar.lit, Scalar.ofNat_real] <;> push_cast <;> ring

/-- with the model's own centroid and volume (what the Python stores) -/
theorem cp_inertia_exact' {S : List (Tri ℝ)} {Ts : List (Tet ℝ)}
    (h : ChainEq S (Ts.flatMap Tet.bdry)) (hnd : ∀ t ∈ S, V3.norm t.nvec ≠ 0)
    (hpos : 0 < Spec.vol Ts) :
    CP.inertia S (CP.centroid S (CP.volume S)) (CP.volume S) = Spec.inertia Ts := by
  rw [cp_centroid_exact h hpos, cp_abs_volume_exact h hpos.le]
  exact cp_inertia_exact h hnd hpos.ne'

/-- **C01 order independence.** Volume, centroid sum and every quadrature sum depend only on the
surface as a chain: permuting the simplices, rotating a simplex, or re-triangulating
(any `ChainEq` surface) leaves the signed volume unchanged; likewise for the other measures
through the `_exact` theorems above. -/
theorem cp_volume_order_independent {S S' : List (Tri ℝ)} (h : ChainEq S S') :
    CP.signedVolume S = CP.signedVolume S' := by
  rw [signedVolume_eq_sumOver, signedVolume_eq_sumOver]; exact h _ volPhi_oddCyclic

theorem cp_centroid_order_independent {S S' : List (Tri ℝ)} (h : ChainEq S S') (v : ℝ) :
    CP.centroid S v = CP.centroid S' v := by
  unfold CP.centroid
  congr 1
  apply V3.ext_get
  intro i hi
  rw [centroid_sum_get S i hi, centroid_sum_get S' i hi]
  exact h _ (cenPhi_oddCyclic i hi)

/-! ### non-vacuity: a concrete tetrahedron and a two-tetrahedron bipyramid meet the hypotheses -/

def exT : Tet ℝ := ⟨⟨0,0,0⟩, ⟨1,0,0⟩, ⟨0,1,0⟩, ⟨0,0,1⟩⟩
def exT2 : Tet ℝ := ⟨⟨0,0,0⟩, ⟨0,1,0⟩, ⟨1,0,0⟩, ⟨0,0,-1⟩⟩

example : ChainEq exT.bdry ([exT].flatMap Tet.bdry) := by simpa using ChainEq.refl _

example : Spec.vol [exT] = 1 / 6 := by
  unfold Spec.vol Spec.tetVol exT; unfold_model; norm_num

/-- the bipyramid surface (6 outer triangles) is the boundary chain of its two tetrahedra:
the shared face cancels. -/
example :
    ChainEq
      [⟨⟨0,0,0⟩,⟨1,0,0⟩,⟨0,0,1⟩⟩, ⟨⟨1,0,0⟩,⟨0,1,0⟩,⟨0,0,1⟩⟩, ⟨⟨0,0,0⟩,⟨0,0,1⟩,⟨0,1,0⟩⟩,
       ⟨⟨0,0,0⟩,⟨0,0,-1⟩,⟨1,0,0⟩⟩, ⟨⟨0,1,0⟩,⟨1,0,0⟩,⟨0,0,-1⟩⟩, ⟨⟨0,0,0⟩,⟨0,1,0⟩,⟨0,0,-1⟩⟩]
      ([exT, exT2].flatMap Tet.bdry) := by
  intro φ hφ
  have r := hφ.rot; have v := hφ.rev
  simp only [sumOver, exT, exT2, List.flatMap_cons, List.flatMap_nil, Tet.bdry, List.map_cons,
    List.map_nil, List.sum_cons, List.sum_nil, List.append_nil, List.cons_append, List.nil_append]
  have c1 := v ⟨⟨0,0,0⟩,⟨1,0,0⟩,⟨0,1,0⟩⟩
  have c2 := r ⟨⟨0,1,0⟩,⟨1,0,0⟩,⟨0,0,0⟩⟩
  have c3 := r ⟨⟨1,0,0⟩,⟨0,0,0⟩,⟨0,1,0⟩⟩
  simp only [Tri.rev, Tri.rot] at c1 c2 c3
  linarith [c1, c2, c3]

end

/-! ### per-face area: coplanar, consistently oriented simplices -/
noncomputable section

/-- **C01 per-face area.** If the simplices grouped into one face are coplanar and consistently
oriented — every simplex normal vector `(b−a)×(c−a)` is a non-negative multiple `λ_t • u` of one
unit vector `u` — then the reported face area (sum of simplex areas, `get_face_area`) equals half
the length of the face's area vector `Σ_t (b−a)×(c−a)`, i.e. the exact area of the planar polygon
whatever its triangulation. -/
theorem cp_face_area_exact (simps : List (Tri ℝ)) (u : V3 ℝ) (hu : V3.norm u = 1)
    (lam : Tri ℝ → ℝ) (hlam : ∀ t ∈ simps, 0 ≤ lam t ∧ t.nvec = V3.smul (lam t) u) :
    CP.faceArea simps = V3.norm (V3.sum (simps.map Tri.nvec)) / 2 := by
  have hnorm_smul : ∀ k : ℝ, 0 ≤ k → V3.norm (V3.smul k u) = k := by
    intro k hk
    unfold V3.norm V3.normSq V3.dot at hu ⊢
    simp only [V3.smul_x, V3.smul_y, V3.smul_z, Scalar.sqrt_real] at hu ⊢
    rw [show k * u.x * (k * u.x) + k * u.y * (k * u.y) + k * u.z * (k * u.z)
        = k ^ 2 * (u.x * u.x + u.y * u.y + u.z * u.z) by ring,
      Real.sqrt_mul (by positivity), Real.sqrt_sq hk, hu, mul_one]
  have harea : ∀ t ∈ simps, CP.triArea t = lam t / 2 := by
    intro t ht
    obtain ⟨h0, hn⟩ := hlam t ht
    have := triArea_two t
    simp only [Scalar.lit, Scalar.ofNat_real] at this
    rw [hn, hnorm_smul _ h0] at this
    push_cast at this; linarith
  have hsum : V3.sum (simps.map Tri.nvec) = V3.smul ((simps.map lam).sum) u := by
    clear harea
    induction simps with
    | nil => ext <;> simp [V3.sum]
    | cons t ts ih =>
      have ih' := ih (fun s hs => hlam s (List.mem_cons_of_mem _ hs))
      have ht := (hlam t List.mem_cons_self).2
      simp only [List.map_cons, List.sum_cons, V3.sum, List.foldr_cons] at ih' ⊢
      rw [ih', ht]
      ext <;> simp only [V3.smul_x, V3.smul_y, V3.smul_z] <;>
        first | (show (V3.add _ _).x = _; simp only [V3.add, V3.smul]; ring)
              | (show (V3.add _ _).y = _; simp only [V3.add, V3.smul]; ring)
              | (show (V3.add _ _).z = _; simp only [V3.add, V3.smul]; ring)
  have hnn : 0 ≤ (simps.map lam).sum := by
    apply List.sum_nonneg
    intro x hx
    obtain ⟨t, ht, rfl⟩ := List.mem_map.mp hx
    exact (hlam t ht).1
  rw [hsum, hnorm_smul _ hnn]
  unfold CP.faceArea
  simp only [Scalar.sum_real]
  rw [List.map_congr_left harea]
  clear hsum harea hnn hlam
  induction simps with
  | nil => simp
  | cons t ts ih => simp only [List.map_cons, List.sum_cons, ih]; ring

end
