import CoxeterVerif.Lemmas.Solid
import CoxeterVerif.Lemmas.ChainCheck
import CoxeterVerif.Lemmas.SolidIntegral
import CoxeterVerif.Lemmas.SolidHistory
import CoxeterVerif.Lemmas.SolidLebesgue
/-!
  # C01 — convex polyhedron volume, centroid, inertia are exact; order independent

  `S`  : the surface triangles `vertices[simplices]` the Python sums over (any number of them);
  `Ts` : ANY tetrahedralisation of the solid whose boundary chain is `S` (`ChainEq`);
  the "exact integrals" are the sums of tetrahedron closed forms (`Spec.vol/first/second`).
  All statements are over ℝ and unbounded in the number of vertices, faces and tetrahedra.

  The hypothesis `ChainEq S (Ts.flatMap Tet.bdry)` is CHECKED on every run: `chainCheck`
  (`Model/ChainCheck.lean`, run by the driver in ℚ) is sound (`chainCheck_rat_sound`), a closed
  surface bounds its cone from any apex (`cone_closed`), and `cp_measures_exact_checked` states the
  exactness theorems directly in terms of what the driver evaluates.  Per-face area/centroid are
  exact and independent of the triangulation of the face (`cp_face_centroid_exact`,
  `cp_face_centroid_retriangulation`), the surface area is the sum of the face areas.

  Deepening round 2:
  * the tetrahedron closed forms of the spec are no longer trusted: `Lemmas/SolidIntegral.lean` proves from Mathlib's
    interval integral that `Spec.tetVol/tetFirst/tetSecond` ARE the iterated integrals of `1`, `x_i`, `x_i x_j` over the
    tetrahedron (affine image of the standard simplex, Jacobian determinant), and `cp_volume_integral`,
    `cp_centroid_integral`, `cp_inertia_integral`, `cp_measures_integral_checked` state the exactness theorems with
    `Σ_T ∫_T · dV` on the right-hand side;
  * the STATE part of the property (`_consume_hull`, `_rescale`, `centroid.setter`): `cp_construct_exact`,
    `cp_history_exact`, `cp_history_exact_checked` — after construction and after any sequence of size / centroid
    setters the CACHED volume and centroid and the inertia tensor computed from the cached simplex normals are the
    exact integrals over the CURRENT solid, the cached area is the area of the current surface;
  * the integrals are LEBESGUE integrals over the tetrahedra as subsets of `ℝ³` (`Lemmas/SolidLebesgue.lean`: Fubini on the
    standard simplex + Mathlib's change of variables with `det = det(B−A, C−A, D−A)`): `cp_volume_lebesgue`,
    `cp_centroid_lebesgue`, `cp_inertia_lebesgue`, `cp_measures_lebesgue_checked`, `cp_history_lebesgue`;
  * `cp_surface_area_eq_sum_faces_checked`: the partition hypothesis is a Boolean the driver evaluates
    (`CP.groupsPartition`) on the implementation's own `_coplanar_simplices`; `combineSimplices_cover`.
-/
open Scalar
set_option maxRecDepth 4000
noncomputable section

/-- **C01 volume.** The signed-tetrahedron sum equals the exact volume. -/
theorem cp_volume_exact {S : List (Tri ℝ)} {Ts : List (Tet ℝ)}
    (h : ChainEq S (Ts.flatMap Tet.bdry)) : CP.signedVolume S = Spec.vol Ts :=
  signedVolume_chain h

/-- the reported (absolute) volume, for an outward oriented surface -/
theorem cp_abs_volume_exact {S : List (Tri ℝ)} {Ts : List (Tet ℝ)}
    (h : ChainEq S (Ts.flatMap Tet.bdry)) (hpos : 0 ≤ Spec.vol Ts) : CP.volume S = Spec.vol Ts := by
  unfold CP.volume; rw [cp_volume_exact h]; simpa using hpos

theorem centroid_sum_get (S : List (Tri ℝ)) (i : Nat) (hi : i < 3) :
    (V3.sum (S.map CP.centroidTerm)).get i = sumOver (cenPhi i) S := by
  cases3 i
  · simp only [V3.get_zero, V3.sum_x, sumOver, List.map_map]; rfl
  · simp only [V3.get_one, V3.sum_y, sumOver, List.map_map]; rfl
  · simp only [V3.get_two, V3.sum_z, sumOver, List.map_map]; rfl

/-- the surface sum of the curl-theorem centroid is 48 × the exact first moment -/
theorem centroid_sum_exact {S : List (Tri ℝ)} {Ts : List (Tet ℝ)}
    (h : ChainEq S (Ts.flatMap Tet.bdry)) (i : Nat) (hi : i < 3) :
    (V3.sum (S.map CP.centroidTerm)).get i = 48 * (Spec.first Ts).get i := by
  rw [centroid_sum_get S i hi, sumOver_bdry (cenPhi_oddCyclic i hi) (cenPhi_tet i hi) h,
    first_get Ts i hi, list_sum_map_mul]

/-- **C01 centroid.** For an outward oriented surface (positive volume) the curl-theorem
centroid equals first moment / volume. -/
theorem cp_centroid_exact {S : List (Tri ℝ)} {Ts : List (Tet ℝ)}
    (h : ChainEq S (Ts.flatMap Tet.bdry)) (hpos : 0 < Spec.vol Ts) :
    CP.centroid S (CP.volume S) = Spec.centroid Ts := by
  rw [cp_abs_volume_exact h hpos.le]
  apply V3.ext_get
  intro i hi
  have hs := centroid_sum_exact h i hi
  have hv : Spec.vol Ts ≠ 0 := hpos.ne'
  unfold CP.centroid Spec.centroid
  cases3 i <;>
    simp only [V3.get_zero, V3.get_one, V3.get_two, V3.smul_x, V3.smul_y, V3.smul_z, V3.sdiv_x,
      V3.sdiv_y, V3.sdiv_z, Scalar.lit, Scalar.ofNat_real] at hs ⊢ <;>
    rw [hs] <;> push_cast <;> field_simp

/-! ### inertia -/

theorem innTerm_eq (t : Tri ℝ) (c : V3 ℝ) (hnd : V3.norm t.nvec ≠ 0) (s0 s1 : Nat) :
    CP.innTerm (CP.simplexNormal t) (CP.triArea (t.map (· - c)) * lit 2) (t.map (· - c)) s0 s1
      = innPhi s0 s1 (t.map (· - c)) := by
  unfold CP.innTerm innPhi
  rw [triArea_two, nvec_map_sub, simplexNormal_get t hnd, simplexNormal_get t hnd]

theorem inmTerm_eq (t : Tri ℝ) (c : V3 ℝ) (hnd : V3.norm t.nvec ≠ 0) (s0 s1 : Nat) :
    CP.inmTerm (CP.simplexNormal t) (CP.triArea (t.map (· - c)) * lit 2) (t.map (· - c)) s0 s1
      = inmPhi s0 s1 (t.map (· - c)) := by
  unfold CP.inmTerm inmPhi
  rw [triArea_two, nvec_map_sub, mul_assoc, mul_assoc, simplexNormal_get t hnd,
    simplexNormal_get t hnd]

theorem inn_sum_exact {S : List (Tri ℝ)} {Ts : List (Tet ℝ)} (c : V3 ℝ)
    (h : ChainEq S (Ts.flatMap Tet.bdry)) (hnd : ∀ t ∈ S, V3.norm t.nvec ≠ 0)
    (s0 s1 : Nat) (h0 : s0 < s1) (h1 : s1 < 3) :
    ((S.map fun t => (CP.simplexNormal t, CP.triArea (t.map (· - c)) * lit 2, t.map (· - c))).map
        fun d => CP.innTerm d.1 d.2.1 d.2.2 s0 s1).sum
      = 6 * (Spec.second (Ts.map (Tet.map (· - c))) s0 s0 + Spec.second (Ts.map (Tet.map (· - c))) s1 s1) := by
  have hch := ChainEq.map (· - c) h
  rw [← flatMap_bdry_map] at hch
  have := sumOver_bdry (innPhi_oddCyclic s0 s1 h0 h1) (innPhi_tet s0 s1 h0 h1) hch
  rw [Spec.second_eq, Spec.second_eq, ← list_sum_map_lin, ← this]
  simp only [sumOver, List.map_map, Function.comp_def]
  congr 1
  apply List.map_congr_left
  intro t ht
  exact innTerm_eq t c (hnd t ht) s0 s1

theorem inm_sum_exact {S : List (Tri ℝ)} {Ts : List (Tet ℝ)} (c : V3 ℝ)
    (h : ChainEq S (Ts.flatMap Tet.bdry)) (hnd : ∀ t ∈ S, V3.norm t.nvec ≠ 0)
    (s0 s1 : Nat) (h0 : s0 < s1) (h1 : s1 < 3) :
    ((S.map fun t => (CP.simplexNormal t, CP.triArea (t.map (· - c)) * lit 2, t.map (· - c))).map
        fun d => CP.inmTerm d.1 d.2.1 d.2.2 s0 s1).sum
      = 8 * Spec.second (Ts.map (Tet.map (· - c))) s0 s1 := by
  have hch := ChainEq.map (· - c) h
  rw [← flatMap_bdry_map] at hch
  have := sumOver_bdry (inmPhi_oddCyclic s0 s1 h0 h1) (inmPhi_tet s0 s1 h0 h1) hch
  rw [Spec.second_eq, ← list_sum_map_mul, ← this]
  simp only [sumOver, List.map_map, Function.comp_def]
  congr 1
  apply List.map_congr_left
  intro t ht
  exact inmTerm_eq t c (hnd t ht) s0 s1

/-- **C01 inertia tensor.** For every surface `S` of non-degenerate triangles that is the boundary
chain of a tetrahedralisation `Ts` of non-zero volume, the 4-point-quadrature tensor about the
centroid, shifted by the parallel-axis theorem, equals the exact inertia tensor about the origin. -/
theorem cp_inertia_exact {S : List (Tri ℝ)} {Ts : List (Tet ℝ)}
    (h : ChainEq S (Ts.flatMap Tet.bdry)) (hnd : ∀ t ∈ S, V3.norm t.nvec ≠ 0)
    (hv : Spec.vol Ts ≠ 0) :
    CP.inertia S (Spec.centroid Ts) (Spec.vol Ts) = Spec.inertia Ts := by
  have e01 := inm_sum_exact (Spec.centroid Ts) h hnd 0 1 (by omega) (by omega)
  have e02 := inm_sum_exact (Spec.centroid Ts) h hnd 0 2 (by omega) (by omega)
  have e12 := inm_sum_exact (Spec.centroid Ts) h hnd 1 2 (by omega) (by omega)
  have n12 := inn_sum_exact (Spec.centroid Ts) h hnd 1 2 (by omega) (by omega)
  have n02 := inn_sum_exact (Spec.centroid Ts) h hnd 0 2 (by omega) (by omega)
  have n01 := inn_sum_exact (Spec.centroid Ts) h hnd 0 1 (by omega) (by omega)
  have s00 := second_centred Ts 0 0 (by omega) (by omega) hv
  have s11 := second_centred Ts 1 1 (by omega) (by omega) hv
  have s22 := second_centred Ts 2 2 (by omega) (by omega) hv
  have s01 := second_centred Ts 0 1 (by omega) (by omega) hv
  have s02 := second_centred Ts 0 2 (by omega) (by omega) hv
  have s12 := second_centred Ts 1 2 (by omega) (by omega) hv
  simp only [V3.get_zero, V3.get_one, V3.get_two] at s00 s11 s22 s01 s02 s12
  unfold CP.inertia CP.translateInertia CP.inertiaCentred Spec.inertia
  simp only [Scalar.sum_real]
  apply M3.ext' <;> simp only [e01, e02, e12, n12, n02, n01, s00, s11, s22, s01, s02, s12] <;>
    simp only [V3.dot, Scalar.lit, Scalar.ofNat_real] <;> push_cast <;> ring

/-- with the model's own centroid and volume (what the Python stores) -/
theorem cp_inertia_exact' {S : List (Tri ℝ)} {Ts : List (Tet ℝ)}
    (h : ChainEq S (Ts.flatMap Tet.bdry)) (hnd : ∀ t ∈ S, V3.norm t.nvec ≠ 0)
    (hpos : 0 < Spec.vol Ts) :
    CP.inertia S (CP.centroid S (CP.volume S)) (CP.volume S) = Spec.inertia Ts := by
  rw [cp_centroid_exact h hpos, cp_abs_volume_exact h hpos.le]
  exact cp_inertia_exact h hnd hpos.ne'

/-- **C01 order independence.** Volume, centroid sum and every quadrature sum depend only on the
surface as a chain: permuting the simplices, rotating a simplex, or re-triangulating
(any `ChainEq` surface) leaves the signed volume unchanged; likewise for the other measures
through the `_exact` theorems above. -/
theorem cp_volume_order_independent {S S' : List (Tri ℝ)} (h : ChainEq S S') :
    CP.signedVolume S = CP.signedVolume S' := by
  rw [signedVolume_eq_sumOver, signedVolume_eq_sumOver]; exact h _ volPhi_oddCyclic

theorem cp_centroid_order_independent {S S' : List (Tri ℝ)} (h : ChainEq S S') (v : ℝ) :
    CP.centroid S v = CP.centroid S' v := by
  unfold CP.centroid
  congr 1
  apply V3.ext_get
  intro i hi
  rw [centroid_sum_get S i hi, centroid_sum_get S' i hi]
  exact h _ (cenPhi_oddCyclic i hi)

theorem inn_sum_phi (S : List (Tri ℝ)) (c : V3 ℝ) (hnd : ∀ t ∈ S, V3.norm t.nvec ≠ 0) (s0 s1 : Nat) :
    ((S.map fun t => (CP.simplexNormal t, CP.triArea (t.map (· - c)) * lit 2, t.map (· - c))).map
        fun d => CP.innTerm d.1 d.2.1 d.2.2 s0 s1).sum
      = sumOver (innPhi s0 s1) (S.map (Tri.map (· - c))) := by
  simp only [sumOver, List.map_map, Function.comp_def]
  congr 1
  apply List.map_congr_left
  intro t ht
  exact innTerm_eq t c (hnd t ht) s0 s1

theorem inm_sum_phi (S : List (Tri ℝ)) (c : V3 ℝ) (hnd : ∀ t ∈ S, V3.norm t.nvec ≠ 0) (s0 s1 : Nat) :
    ((S.map fun t => (CP.simplexNormal t, CP.triArea (t.map (· - c)) * lit 2, t.map (· - c))).map
        fun d => CP.inmTerm d.1 d.2.1 d.2.2 s0 s1).sum
      = sumOver (inmPhi s0 s1) (S.map (Tri.map (· - c))) := by
  simp only [sumOver, List.map_map, Function.comp_def]
  congr 1
  apply List.map_congr_left
  intro t ht
  exact inmTerm_eq t c (hnd t ht) s0 s1

/-- **C01 order independence, inertia tensor.** -/
theorem cp_inertia_order_independent {S S' : List (Tri ℝ)} (h : ChainEq S S')
    (hnd : ∀ t ∈ S, V3.norm t.nvec ≠ 0) (hnd' : ∀ t ∈ S', V3.norm t.nvec ≠ 0) (c : V3 ℝ) (v : ℝ) :
    CP.inertia S c v = CP.inertia S' c v := by
  have hc := ChainEq.map (· - c) h
  have n (s0 s1 : Nat) (h0 : s0 < s1) (h1 : s1 < 3) := hc _ (innPhi_oddCyclic s0 s1 h0 h1)
  have m (s0 s1 : Nat) (h0 : s0 < s1) (h1 : s1 < 3) := hc _ (inmPhi_oddCyclic s0 s1 h0 h1)
  unfold CP.inertia CP.inertiaCentred
  simp only [Scalar.sum_real, inn_sum_phi S c hnd, inm_sum_phi S c hnd, inn_sum_phi S' c hnd', inm_sum_phi S' c hnd',
    n 1 2 (by omega) (by omega), n 0 2 (by omega) (by omega), n 0 1 (by omega) (by omega),
    m 0 1 (by omega) (by omega), m 0 2 (by omega) (by omega), m 1 2 (by omega) (by omega)]
/-- the surface area does not depend on the order of the simplices -/
theorem cp_surface_area_order_independent {S S' : List (Tri ℝ)} (h : S.Perm S') :
    CP.surfaceArea S = CP.surfaceArea S' := by
  unfold CP.surfaceArea; rw [Scalar.sum_real, Scalar.sum_real]; exact (h.map CP.triArea).sum_eq

/-! ### non-vacuity: a concrete tetrahedron and a two-tetrahedron bipyramid meet the hypotheses -/

def exT : Tet ℝ := ⟨⟨0,0,0⟩, ⟨1,0,0⟩, ⟨0,1,0⟩, ⟨0,0,1⟩⟩
def exT2 : Tet ℝ := ⟨⟨0,0,0⟩, ⟨0,1,0⟩, ⟨1,0,0⟩, ⟨0,0,-1⟩⟩

example : ChainEq exT.bdry ([exT].flatMap Tet.bdry) := by simpa using ChainEq.refl _

example : Spec.vol [exT] = 1 / 6 := by
  unfold Spec.vol Spec.tetVol exT; unfold_model; norm_num

/-- the bipyramid surface (6 outer triangles) is the boundary chain of its two tetrahedra:
the shared face cancels. -/
example :
    ChainEq
      [⟨⟨0,0,0⟩,⟨1,0,0⟩,⟨0,0,1⟩⟩, ⟨⟨1,0,0⟩,⟨0,1,0⟩,⟨0,0,1⟩⟩, ⟨⟨0,0,0⟩,⟨0,0,1⟩,⟨0,1,0⟩⟩,
       ⟨⟨0,0,0⟩,⟨0,0,-1⟩,⟨1,0,0⟩⟩, ⟨⟨0,1,0⟩,⟨1,0,0⟩,⟨0,0,-1⟩⟩, ⟨⟨0,0,0⟩,⟨0,1,0⟩,⟨0,0,-1⟩⟩]
      ([exT, exT2].flatMap Tet.bdry) := by
  intro φ hφ
  have r := hφ.rot; have v := hφ.rev
  simp only [sumOver, exT, exT2, List.flatMap_cons, List.flatMap_nil, Tet.bdry, List.map_cons,
    List.map_nil, List.sum_cons, List.sum_nil, List.append_nil, List.cons_append, List.nil_append]
  have c1 := v ⟨⟨0,0,0⟩,⟨1,0,0⟩,⟨0,1,0⟩⟩
  have c2 := r ⟨⟨0,1,0⟩,⟨1,0,0⟩,⟨0,0,0⟩⟩
  have c3 := r ⟨⟨1,0,0⟩,⟨0,0,0⟩,⟨0,1,0⟩⟩
  simp only [Tri.rev, Tri.rot] at c1 c2 c3
  linarith [c1, c2, c3]

end

/-! ### per-face area: coplanar, consistently oriented simplices -/
noncomputable section

/-- **C01 per-face area.** If the simplices grouped into one face are coplanar and consistently
oriented — every simplex normal vector `(b−a)×(c−a)` is a non-negative multiple `λ_t • u` of one
unit vector `u` — then the reported face area (sum of simplex areas, `get_face_area`) equals half
the length of the face's area vector `Σ_t (b−a)×(c−a)`, i.e. the exact area of the planar polygon
whatever its triangulation. -/
theorem cp_face_area_exact (simps : List (Tri ℝ)) (u : V3 ℝ) (hu : V3.norm u = 1)
    (lam : Tri ℝ → ℝ) (hlam : ∀ t ∈ simps, 0 ≤ lam t ∧ t.nvec = V3.smul (lam t) u) :
    CP.faceArea simps = V3.norm (V3.sum (simps.map Tri.nvec)) / 2 := by
  have hnorm_smul : ∀ k : ℝ, 0 ≤ k → V3.norm (V3.smul k u) = k := by
    intro k hk
    unfold V3.norm V3.normSq V3.dot at hu ⊢
    simp only [V3.smul_x, V3.smul_y, V3.smul_z, Scalar.sqrt_real] at hu ⊢
    rw [show k * u.x * (k * u.x) + k * u.y * (k * u.y) + k * u.z * (k * u.z)
        = k ^ 2 * (u.x * u.x + u.y * u.y + u.z * u.z) by ring,
      Real.sqrt_mul (by positivity), Real.sqrt_sq hk, hu, mul_one]
  have harea : ∀ t ∈ simps, CP.triArea t = lam t / 2 := by
    intro t ht
    obtain ⟨h0, hn⟩ := hlam t ht
    have := triArea_two t
    simp only [Scalar.lit, Scalar.ofNat_real] at this
    rw [hn, hnorm_smul _ h0] at this
    push_cast at this; linarith
  have hsum : V3.sum (simps.map Tri.nvec) = V3.smul ((simps.map lam).sum) u := by
    clear harea
    induction simps with
    | nil => ext <;> simp [V3.sum]
    | cons t ts ih =>
      have ih' := ih (fun s hs => hlam s (List.mem_cons_of_mem _ hs))
      have ht := (hlam t List.mem_cons_self).2
      simp only [List.map_cons, List.sum_cons, V3.sum, List.foldr_cons] at ih' ⊢
      rw [ih', ht]
      ext <;> simp only [V3.smul_x, V3.smul_y, V3.smul_z] <;>
        first | (show (V3.add _ _).x = _; simp only [V3.add, V3.smul]; ring)
              | (show (V3.add _ _).y = _; simp only [V3.add, V3.smul]; ring)
              | (show (V3.add _ _).z = _; simp only [V3.add, V3.smul]; ring)
  have hnn : 0 ≤ (simps.map lam).sum := by
    apply List.sum_nonneg
    intro x hx
    obtain ⟨t, ht, rfl⟩ := List.mem_map.mp hx
    exact (hlam t ht).1
  rw [hsum, hnorm_smul _ hnn]
  unfold CP.faceArea
  simp only [Scalar.sum_real]
  rw [List.map_congr_left harea]
  clear hsum harea hnn hlam
  induction simps with
  | nil => simp
  | cons t ts ih => simp only [List.map_cons, List.sum_cons, ih]; ring

end

/-! ### the chain hypothesis is checkable: soundness of `chainCheck` / `closedCheck` -/
noncomputable section
open CCk

/-- **Soundness of the chain checker over ℝ.** If the cancellation checker accepts `S`, `T` then
they are equal as 2-chains — the hypothesis of every `_exact` theorem above is decidable-by-certificate. -/
theorem chainCheck_sound {S T : List (Tri ℝ)} (h : ChainCheck.chainCheck S T = true) : ChainEq S T := by
  have := chainCheck_sound_gen eqb_real_sound id h
  simpa [triTo_id] using this

/-- **Soundness of the chain checker as the driver runs it** (`Q` mode, exact rationals — the exact
values of the doubles of the run): acceptance gives `ChainEq` of the real triangles. -/
theorem chainCheck_rat_sound {S T : List (Tri ℚ)} (h : ChainCheck.chainCheck S T = true) :
    ChainEq (S.map triOfRat) (T.map triOfRat) :=
  chainCheck_sound_gen eqb_rat_sound v3OfRat h

/-- the form the driver op `chain.check` evaluates: `S` against the boundary of tetrahedra `Ts` -/
theorem chainCheck_tets_rat_sound {S : List (Tri ℚ)} {Ts : List (Tet ℚ)}
    (h : ChainCheck.chainCheck S (Ts.flatMap Tet.bdry) = true) :
    ChainEq (S.map triOfRat) ((Ts.map tetOfRat).flatMap Tet.bdry) := by
  have := chainCheck_rat_sound h
  unfold triOfRat at this
  rwa [flatMap_bdry_tetTo] at this

/-- **Per-run tie, volume.** When `chain.check` answers `true` on the run's `S`, `Ts`, the model's
signed volume of the (real) surface equals the exact volume of the (real) tetrahedra. -/
theorem cp_volume_exact_checked {S : List (Tri ℚ)} {Ts : List (Tet ℚ)}
    (h : ChainCheck.chainCheck S (Ts.flatMap Tet.bdry) = true) :
    CP.signedVolume (S.map triOfRat) = Spec.vol (Ts.map tetOfRat) :=
  cp_volume_exact (chainCheck_tets_rat_sound h)

/-- **Per-run tie, volume / centroid / inertia.** All three hypotheses are the Booleans / the sign
the driver op `chain.check` evaluates exactly in ℚ on the run's own `S`, `Ts`: chain equality by
cancellation, exact non-degeneracy of every simplex, positive exact volume. -/
theorem cp_measures_exact_checked {S : List (Tri ℚ)} {Ts : List (Tet ℚ)}
    (h : ChainCheck.chainCheck S (Ts.flatMap Tet.bdry) = true)
    (hnd : ChainCheck.nondegCheck S = true) (hpos : 0 < Spec.vol Ts) :
    CP.volume (S.map triOfRat) = Spec.vol (Ts.map tetOfRat) ∧
    CP.centroid (S.map triOfRat) (CP.volume (S.map triOfRat)) = Spec.centroid (Ts.map tetOfRat) ∧
    CP.inertia (S.map triOfRat) (CP.centroid (S.map triOfRat) (CP.volume (S.map triOfRat)))
        (CP.volume (S.map triOfRat)) = Spec.inertia (Ts.map tetOfRat) := by
  have hc := chainCheck_tets_rat_sound h
  have hp : 0 < Spec.vol (Ts.map tetOfRat) := by
    rw [vol_ofRat]; exact_mod_cast hpos
  exact ⟨cp_abs_volume_exact hc hp.le, cp_centroid_exact hc hp,
    cp_inertia_exact' hc (nondegCheck_rat_sound hnd) hp⟩

/-- soundness of the closed-surface checker over ℝ and as the driver runs it -/
theorem closedCheck_sound {S : List (Tri ℝ)} (h : ChainCheck.closedCheck S = true) : ClosedSurface S := by
  have := cancelEdges_sound eqb_real_sound id _ _ h
  rw [flatMap_edgesOf_triTo] at this
  simpa [triTo_id, ClosedSurface] using this

theorem closedCheck_rat_sound {S : List (Tri ℚ)} (h : ChainCheck.closedCheck S = true) :
    ClosedSurface (S.map triOfRat) := by
  have := cancelEdges_sound eqb_rat_sound v3OfRat _ _ h
  rw [flatMap_edgesOf_triTo] at this
  exact this

/-! ### the cone over a closed surface -/

/-- **cone_closed.** A closed oriented surface `S` (directed edges cancel) is the boundary chain of
the cone tetrahedra `(p, a, b, c)` from ANY apex `p`: the inner faces `(p, x, y)` cancel in pairs. -/
theorem cone_closed {S : List (Tri ℝ)} (h : ClosedSurface S) (p : V3 ℝ) :
    ChainEq S ((ChainCheck.cone p S).flatMap Tet.bdry) := by
  intro φ hφ
  have hodd : OddEdge (fun e : Edge => φ ⟨p, e.1, e.2⟩) := fun x y => oddCyclic_swap hφ p x y
  have h0 := h _ hodd
  rw [sumOver_cone hφ p S, h0]
  simp [sumEdges]

/-- checker form: what the driver's `closedCheck` certifies for the run's surface -/
theorem cone_closed_checked {S : List (Tri ℚ)} (h : ChainCheck.closedCheck S = true) (p : V3 ℝ) :
    ChainEq (S.map triOfRat) ((ChainCheck.cone p (S.map triOfRat)).flatMap Tet.bdry) :=
  cone_closed (closedCheck_rat_sound h) p

/-- for a closed surface the signed volume IS the volume of the cone from any apex
(in particular it does not depend on the apex) -/
theorem cp_volume_cone {S : List (Tri ℝ)} (h : ClosedSurface S) (p : V3 ℝ) :
    CP.signedVolume S = Spec.vol (ChainCheck.cone p S) :=
  cp_volume_exact (cone_closed h p)

/-! non-vacuity: the tetrahedron surface is accepted by both checkers (evaluated in ℚ) -/

def exTq : Tet ℚ := ⟨⟨0,0,0⟩, ⟨1,0,0⟩, ⟨0,1,0⟩, ⟨0,0,1⟩⟩

example : ChainCheck.closedCheck exTq.bdry = true := by decide +kernel
example : ChainCheck.chainCheck exTq.bdry
    ((ChainCheck.cone ⟨1/4, 1/4, 1/4⟩ exTq.bdry).flatMap Tet.bdry) = true := by decide +kernel
example : ClosedSurface (exTq.bdry.map triOfRat) := closedCheck_rat_sound (by decide +kernel)
example : ChainCheck.nondegCheck exTq.bdry = true := by decide +kernel
example : (0 : ℚ) < Spec.vol (ChainCheck.cone ⟨1/4, 1/4, 1/4⟩ exTq.bdry) := by decide +kernel

end
/-! ### per-face centroid and area through the face's boundary edges -/
noncomputable section
open CCk

/-- **C01 per-face area, boundary form.** Under the hypotheses of `cp_face_area_exact`, the
reported face area is half the shoelace sum over ANY edge chain `E` equal to the boundary of the
face's simplices (e.g. the polygon's own cycle of edges) — independent of the triangulation. -/
theorem cp_face_area_boundary (simps : List (Tri ℝ)) (u o : V3 ℝ) (hu : V3.norm u = 1)
    (lam : Tri ℝ → ℝ) (hlam : ∀ t ∈ simps, 0 ≤ lam t ∧ t.nvec = V3.smul (lam t) u)
    (E : List Edge) (hE : EdgeChainEq (simps.flatMap triEdges) E) :
    CP.faceArea simps = FacePlane.area2 u o E / 2 := by
  have hA : FacePlane.area2 u o E = (simps.map lam).sum := by
    unfold FacePlane.area2
    rw [Scalar.sum_real]
    change sumEdges (FacePlane.edgeCross u o) E = _
    rw [← hE _ (edgeCross_odd u o), sumEdges_flatMap]
    congr 1
    apply List.map_congr_left
    intro t ht
    rw [edgeCross_tri, dot_nvec_of_lam hu (hlam t ht).2]
  rw [hA]
  unfold CP.faceArea
  rw [Scalar.sum_real, List.map_congr_left (fun t ht => triArea_of_lam hu (hlam t ht).1 (hlam t ht).2)]
  clear hA hE hlam
  induction simps with
  | nil => simp
  | cons t ts ih => simp only [List.map_cons, List.sum_cons, ih]; ring

/-- **C01 per-face centroid.** If the simplices of one face are consistently oriented
(`(b−a)×(c−a) = λ_t•u`, `λ_t ≥ 0`, `|u| = 1`) and lie in the plane `u·(x−o) = 0`, then the
area-weighted mean of simplex centroids (`_find_face_centroids`) equals the textbook boundary
formula for the centroid of the planar polygon, evaluated on ANY edge chain `E` equal to the
boundary of the simplices — for tilted planes as well as axis-parallel ones. -/
theorem cp_face_centroid_exact (simps : List (Tri ℝ)) (u o : V3 ℝ) (hu : V3.norm u = 1)
    (lam : Tri ℝ → ℝ) (hlam : ∀ t ∈ simps, 0 ≤ lam t ∧ t.nvec = V3.smul (lam t) u)
    (hplane : ∀ t ∈ simps, V3.dot u (t.a - o) = 0 ∧ V3.dot u (t.b - o) = 0 ∧ V3.dot u (t.c - o) = 0)
    (E : List Edge) (hE : EdgeChainEq (simps.flatMap triEdges) E) :
    CP.faceCentroid simps = FacePlane.centroid u o E := by
  have hA : FacePlane.area2 u o E = (simps.map lam).sum := by
    unfold FacePlane.area2
    rw [Scalar.sum_real]
    change sumEdges (FacePlane.edgeCross u o) E = _
    rw [← hE _ (edgeCross_odd u o), sumEdges_flatMap]
    congr 1
    apply List.map_congr_left
    intro t ht
    rw [edgeCross_tri, dot_nvec_of_lam hu (hlam t ht).2]
  have hM : ∀ i, i < 3 → (FacePlane.moment u o E).get i
      = (simps.map fun t => lam t * (t.a + t.b + t.c).get i).sum := by
    intro i hi
    unfold FacePlane.moment
    rw [v3_sum_get _ i hi, List.map_map]
    have : ((fun v : V3 ℝ => v.get i) ∘ fun e : Edge => V3.smul (FacePlane.edgeCross u o e) (o + e.1 + e.2))
        = faceMomentPhi u o i := by
      funext e; simp only [Function.comp, faceMomentPhi, v3_smul_get _ _ i hi]
    rw [this]
    change sumEdges (faceMomentPhi u o i) E = _
    rw [← hE _ (faceMomentPhi_odd u o i hi), sumEdges_flatMap]
    congr 1
    apply List.map_congr_left
    intro t ht
    obtain ⟨ha, hb, hc⟩ := hplane t ht
    rw [faceMomentPhi_tri u o i hi t ha hb hc, dot_nvec_of_lam hu (hlam t ht).2]
  have hareas : (simps.map CP.triArea).sum = (simps.map lam).sum / 2 := by
    rw [List.map_congr_left (fun t ht => triArea_of_lam hu (hlam t ht).1 (hlam t ht).2)]
    clear hA hM hE hlam hplane
    induction simps with
    | nil => simp
    | cons t ts ih => simp only [List.map_cons, List.sum_cons, ih]; ring
  have hnum : ∀ i, i < 3 →
      (V3.sum (simps.map fun t => V3.smul (CP.triArea t) (V3.sdiv (t.a + t.b + t.c) (lit 3)))).get i
        = (simps.map fun t => lam t * (t.a + t.b + t.c).get i).sum / 6 := by
    intro i hi
    rw [v3_sum_get _ i hi, List.map_map]
    have : ∀ t ∈ simps, ((fun v : V3 ℝ => v.get i) ∘
        fun t => V3.smul (CP.triArea t) (V3.sdiv (t.a + t.b + t.c) (lit 3))) t
        = (1 / 6) * (lam t * (t.a + t.b + t.c).get i) := by
      intro t ht
      simp only [Function.comp, v3_smul_get _ _ i hi, v3_sdiv_get _ _ i hi,
        triArea_of_lam hu (hlam t ht).1 (hlam t ht).2, Scalar.lit, Scalar.ofNat_real]
      push_cast; ring
    rw [List.map_congr_left this, list_sum_map_mul]; ring
  apply V3.ext_get
  intro i hi
  unfold CP.faceCentroid FacePlane.centroid
  simp only [Scalar.sum_real]
  rw [v3_sdiv_get _ _ i hi, v3_sdiv_get _ _ i hi, hnum i hi, hareas, hM i hi, hA]
  simp only [Scalar.lit, Scalar.ofNat_real]
  push_cast
  by_cases h0 : (simps.map lam).sum = 0
  · simp [h0]
  · field_simp; ring

/-- **Face centroid and area do not depend on the triangulation of the face**: two simplex
lists in the same plane, with the same orientation and the same boundary edge chain report the
same centroid (the diagonals Qhull happens to choose inside a non-triangular facet are immaterial). -/
theorem cp_face_centroid_retriangulation (simps simps' : List (Tri ℝ)) (u o : V3 ℝ)
    (hu : V3.norm u = 1) (lam lam' : Tri ℝ → ℝ)
    (hlam : ∀ t ∈ simps, 0 ≤ lam t ∧ t.nvec = V3.smul (lam t) u)
    (hlam' : ∀ t ∈ simps', 0 ≤ lam' t ∧ t.nvec = V3.smul (lam' t) u)
    (hplane : ∀ t ∈ simps, V3.dot u (t.a - o) = 0 ∧ V3.dot u (t.b - o) = 0 ∧ V3.dot u (t.c - o) = 0)
    (hplane' : ∀ t ∈ simps', V3.dot u (t.a - o) = 0 ∧ V3.dot u (t.b - o) = 0 ∧ V3.dot u (t.c - o) = 0)
    (hE : EdgeChainEq (simps.flatMap triEdges) (simps'.flatMap triEdges)) :
    CP.faceCentroid simps = CP.faceCentroid simps' ∧ CP.faceArea simps = CP.faceArea simps' := by
  constructor
  · rw [cp_face_centroid_exact simps u o hu lam hlam hplane _ hE,
      cp_face_centroid_exact simps' u o hu lam' hlam' hplane' _ (EdgeChainEq.refl _)]
  · rw [cp_face_area_boundary simps u o hu lam hlam _ hE,
      cp_face_area_boundary simps' u o hu lam' hlam' _ (EdgeChainEq.refl _)]

/-! non-vacuity: the unit square at height 1 split along either diagonal -/

def sqA : List (Tri ℝ) := [⟨⟨0,0,1⟩,⟨1,0,1⟩,⟨1,1,1⟩⟩, ⟨⟨0,0,1⟩,⟨1,1,1⟩,⟨0,1,1⟩⟩]
def sqB : List (Tri ℝ) := [⟨⟨0,0,1⟩,⟨1,0,1⟩,⟨0,1,1⟩⟩, ⟨⟨1,0,1⟩,⟨1,1,1⟩,⟨0,1,1⟩⟩]

example : V3.norm (⟨0,0,1⟩ : V3 ℝ) = 1 := by
  unfold V3.norm V3.normSq; unfold_model; norm_num

example : ∀ t ∈ sqA, 0 ≤ (fun _ => (1:ℝ)) t ∧ t.nvec = V3.smul ((fun _ => (1:ℝ)) t) ⟨0,0,1⟩ := by
  intro t ht
  simp only [sqA, List.mem_cons, List.not_mem_nil, or_false] at ht
  rcases ht with rfl | rfl <;> refine ⟨by norm_num, ?_⟩ <;> ext <;> unfold_model <;> norm_num

example : ∀ t ∈ sqB, V3.dot (⟨0,0,1⟩ : V3 ℝ) (t.a - ⟨0,0,1⟩) = 0 ∧ V3.dot (⟨0,0,1⟩ : V3 ℝ) (t.b - ⟨0,0,1⟩) = 0
    ∧ V3.dot (⟨0,0,1⟩ : V3 ℝ) (t.c - ⟨0,0,1⟩) = 0 := by
  intro t ht
  simp only [sqB, List.mem_cons, List.not_mem_nil, or_false] at ht
  rcases ht with rfl | rfl <;> refine ⟨?_, ?_, ?_⟩ <;> unfold_model <;> norm_num

example : EdgeChainEq (sqA.flatMap triEdges) (sqB.flatMap triEdges) := by
  intro φ hφ
  have h1 := hφ (⟨0,0,1⟩ : V3 ℝ) ⟨1,1,1⟩
  have h2 := hφ (⟨1,0,1⟩ : V3 ℝ) ⟨0,1,1⟩
  simp only [sumEdges, sqA, sqB, triEdges, List.flatMap_cons, List.flatMap_nil, List.map_cons, List.map_nil,
    List.sum_cons, List.sum_nil, List.append_nil, List.cons_append, List.nil_append]
  linarith

/-! non-vacuity on a tilted face: unit normal `(3/5, 0, 4/5)`, plane through the origin -/
def tiltU : V3 ℝ := ⟨3/5, 0, 4/5⟩
def tiltT : Tri ℝ := ⟨⟨0,0,0⟩, ⟨4,0,-3⟩, ⟨0,1,0⟩⟩

example : V3.norm tiltU = 1 := by
  unfold V3.norm V3.normSq tiltU; unfold_model; norm_num

example : 0 ≤ (5:ℝ) ∧ tiltT.nvec = V3.smul 5 tiltU := by
  refine ⟨by norm_num, ?_⟩
  unfold tiltT tiltU; ext <;> unfold_model <;> norm_num

example : V3.dot tiltU (tiltT.a - ⟨0,0,0⟩) = 0 ∧ V3.dot tiltU (tiltT.b - ⟨0,0,0⟩) = 0
    ∧ V3.dot tiltU (tiltT.c - ⟨0,0,0⟩) = 0 := by
  unfold tiltT tiltU; refine ⟨?_, ?_, ?_⟩ <;> unfold_model <;> norm_num

/-! ### total surface area -/

/-- **C01 surface area = Σ face areas** whenever the face groups partition the simplices
(`_coplanar_simplices` is a partition of `range(len(simplices))`). -/
theorem cp_surface_area_eq_sum_faces (S : List (Tri ℝ)) (faces : List (List (Tri ℝ)))
    (hpart : S.Perm faces.flatten) : CP.surfaceArea S = (faces.map CP.faceArea).sum := by
  unfold CP.surfaceArea
  rw [Scalar.sum_real, (hpart.map CP.triArea).sum_eq]
  clear hpart
  induction faces with
  | nil => simp
  | cons f fs ih =>
    simp only [List.flatten_cons, List.map_append, List.sum_append, List.map_cons, List.sum_cons, ih]
    unfold CP.faceArea; rw [Scalar.sum_real]

/-- **C01 surface area is exact**: if moreover every face group is coplanar and consistently
oriented, the reported surface area is `Σ_faces |area vector of the face| / 2`. -/
theorem cp_surface_area_exact (S : List (Tri ℝ)) (faces : List (List (Tri ℝ)))
    (hpart : S.Perm faces.flatten)
    (hfaces : ∀ f ∈ faces, ∃ (u : V3 ℝ) (lam : Tri ℝ → ℝ), V3.norm u = 1 ∧
      ∀ t ∈ f, 0 ≤ lam t ∧ t.nvec = V3.smul (lam t) u) :
    CP.surfaceArea S = (faces.map fun f => V3.norm (V3.sum (f.map Tri.nvec)) / 2).sum := by
  rw [cp_surface_area_eq_sum_faces S faces hpart]
  congr 1
  apply List.map_congr_left
  intro f hf
  obtain ⟨u, lam, hu, hl⟩ := hfaces f hf
  exact cp_face_area_exact f u hu lam hl

example : sqA.Perm [[sqA[1]], [sqA[0]]].flatten := by
  simp only [sqA, List.flatten_cons, List.flatten_nil, List.getElem_cons_zero, List.getElem_cons_succ,
    List.singleton_append, List.append_nil]
  exact List.Perm.swap _ _ _

end

/-! ### exactness against iterated integrals (no trusted closed form) -/
noncomputable section
open SolidInt

/-- **C01 volume = ∫ 1 dV.** The signed-tetrahedron sum over the surface equals the sum over the tetrahedra of the
iterated integral of `1` (`SolidInt.tetInt`: Jacobian determinant × `∫₀¹∫₀^{1−s}∫₀^{1−s−t} · du dt ds`). -/
theorem cp_volume_integral {S : List (Tri ℝ)} {Ts : List (Tet ℝ)}
    (h : ChainEq S (Ts.flatMap Tet.bdry)) : CP.signedVolume S = solidInt Ts (fun _ => 1) := by
  rw [cp_volume_exact h, vol_eq_solidInt]

/-- **C01 centroid = ∫ x dV / ∫ 1 dV.** -/
theorem cp_centroid_integral {S : List (Tri ℝ)} {Ts : List (Tet ℝ)}
    (h : ChainEq S (Ts.flatMap Tet.bdry)) (hpos : 0 < Spec.vol Ts) :
    CP.centroid S (CP.volume S) = centroidInt Ts := by
  rw [cp_centroid_exact h hpos, centroid_eq_centroidInt]

/-- **C01 inertia tensor = ∫ (|x|² δ_ij − x_i x_j) dV**, with the model's own centroid and volume. -/
theorem cp_inertia_integral {S : List (Tri ℝ)} {Ts : List (Tet ℝ)}
    (h : ChainEq S (Ts.flatMap Tet.bdry)) (hnd : ∀ t ∈ S, V3.norm t.nvec ≠ 0) (hpos : 0 < Spec.vol Ts) :
    CP.inertia S (CP.centroid S (CP.volume S)) (CP.volume S) = inertiaInt Ts := by
  rw [cp_inertia_exact' h hnd hpos, inertia_eq_inertiaInt]

/-- **Per-run tie against the integrals.** From the three facts the driver op `chain.check` decides exactly in ℚ on
the run's own simplices and cone: reported volume, centroid and inertia tensor of the real surface are the integrals
over the real tetrahedra. -/
theorem cp_measures_integral_checked {S : List (Tri ℚ)} {Ts : List (Tet ℚ)}
    (h : ChainCheck.chainCheck S (Ts.flatMap Tet.bdry) = true)
    (hnd : ChainCheck.nondegCheck S = true) (hpos : 0 < Spec.vol Ts) :
    CP.volume (S.map CCk.triOfRat) = solidInt (Ts.map CCk.tetOfRat) (fun _ => 1) ∧
    CP.centroid (S.map CCk.triOfRat) (CP.volume (S.map CCk.triOfRat)) = centroidInt (Ts.map CCk.tetOfRat) ∧
    CP.inertia (S.map CCk.triOfRat) (CP.centroid (S.map CCk.triOfRat) (CP.volume (S.map CCk.triOfRat)))
        (CP.volume (S.map CCk.triOfRat)) = inertiaInt (Ts.map CCk.tetOfRat) := by
  obtain ⟨h1, h2, h3⟩ := cp_measures_exact_checked h hnd hpos
  exact ⟨by rw [h1, vol_eq_solidInt], by rw [h2, centroid_eq_centroidInt], by rw [h3, inertia_eq_inertiaInt]⟩

/-- non-vacuity and a sanity value: the unit corner tetrahedron has `∫ 1 = 1/6`, `∫ x = 1/24`, `∫ x² = 1/60`,
`∫ x y = 1/120` -/
example : tetInt exT (fun _ => 1) = 1 / 6 ∧ tetInt exT (fun x => x.get 0) = 1 / 24 ∧
    tetInt exT (fun x => x.get 0 * x.get 0) = 1 / 60 ∧ tetInt exT (fun x => x.get 0 * x.get 1) = 1 / 120 := by
  refine ⟨?_, ?_, ?_, ?_⟩
  · rw [tetInt_one]; unfold Spec.tetVol exT; unfold_model; norm_num
  · rw [tetInt_coord]; unfold Spec.tetFirst Spec.tetVol Spec.tetSum exT; unfold_model; norm_num
  · rw [tetInt_coord_mul]; unfold Spec.tetSecond Spec.tetVol Spec.tetSum exT; unfold_model; norm_num
  · rw [tetInt_coord_mul]; unfold Spec.tetSecond Spec.tetVol Spec.tetSum exT; unfold_model; norm_num

end

/-! ### the state part: caches after construction and after any history of mutators -/
noncomputable section
open SolidInt CPH Mut

/-- what the getters return when the caches describe the solid `Ts`: `volume`, `centroid` (stored values),
`inertia_tensor` (current vertices, STORED simplex normals / centroid / volume) are the exact integrals over `Ts`,
`surface_area` (stored) is the area of the current surface triangles. -/
theorem cp_state_exact {s : CPState ℝ} {Ts : List (Tet ℝ)} (h : MeasInv s Ts) :
    s.volume = solidInt Ts (fun _ => 1) ∧ s.centroid = centroidInt Ts ∧
    inertiaTensor s = inertiaInt Ts ∧ s.area = CP.surfaceArea s.tris := by
  refine ⟨by rw [h.vol, vol_eq_solidInt], by rw [h.cen, centroid_eq_centroidInt], ?_, h.area⟩
  unfold inertiaTensor CP.inertiaWith
  rw [h.seqN, inertiaCentredWith_fresh, h.cen, h.vol, ← inertia_eq_inertiaInt]
  exact cp_inertia_exact h.chain h.nd h.pos.ne'

/-- **C01 state, construction.** `_consume_hull` + `_sort_simplices`: when the oriented simplices bound a
tetrahedralisation `Ts` of positive volume, are non-degenerate, and Qhull's `hull.area` is the area of its own
triangulation (per-run contract, checked by the harness), the freshly built object reports the exact integrals.
Qhull's `hull.volume` needs NO contract: `_calculate_signed_volume` overwrites it before anyone reads it. -/
theorem cp_construct_exact (verts : List (V3 ℝ)) (simplices faceHead : List (Nat × Nat × Nat))
    (eqN : List (V3 ℝ)) (eqD : List ℝ) (hullVolume hullArea : ℝ) (Ts : List (Tet ℝ))
    (hch : ChainEq (trisOf verts simplices) (Ts.flatMap Tet.bdry)) (hpos : 0 < Spec.vol Ts)
    (hnd : ∀ t ∈ trisOf verts simplices, V3.norm t.nvec ≠ 0) (hr : InRange verts.length simplices)
    (harea : hullArea = CP.surfaceArea (trisOf verts simplices)) :
    let s := construct verts simplices faceHead eqN eqD hullVolume hullArea
    s.volume = solidInt Ts (fun _ => 1) ∧ s.centroid = centroidInt Ts ∧
    inertiaTensor s = inertiaInt Ts ∧ s.area = CP.surfaceArea s.tris :=
  cp_state_exact (construct_inv verts simplices faceHead eqN eqD hullVolume hullArea Ts hch hpos hnd hr harea)

/-- **C01 state, any history.** After ANY sequence (of any length) of `volume` / `surface_area` / `*_radius`
setters (all through `_rescale`, which updates `_volume`, `_area` incrementally by `k³`, `k²`) and `centroid`
setters — raising ones included, they leave the object alone — the cached volume and centroid and the inertia
tensor computed from the cached normals are the exact integrals over the CURRENT solid `runTets s ops Ts` (the
initial tetrahedra moved by the same scalings / translations), and the cached area is the area of the current
surface.  Only hypothesis on the history: the value a radius getter hands to its setter is positive. -/
theorem cp_history_exact {s : CPState ℝ} {Ts : List (Tet ℝ)} (h : MeasInv s Ts) (ops : List (MOp ℝ))
    (hv : ∀ op ∈ ops, op.Valid) :
    let s' := run s ops
    let Ts' := runTets s ops Ts
    s'.volume = solidInt Ts' (fun _ => 1) ∧ s'.centroid = centroidInt Ts' ∧
    inertiaTensor s' = inertiaInt Ts' ∧ s'.area = CP.surfaceArea s'.tris :=
  cp_state_exact (run_inv ops h hv)

/-- the same from the freshly constructed object, with the hypotheses in the form the driver decides them in ℚ
(`chain.check` on the run's simplices `S` and the cone `Ts` over them) -/
theorem cp_history_exact_checked {S : List (Tri ℚ)} {Tq : List (Tet ℚ)}
    (hc : ChainCheck.chainCheck S (Tq.flatMap Tet.bdry) = true)
    (hnd : ChainCheck.nondegCheck S = true) (hpos : 0 < Spec.vol Tq)
    (verts : List (V3 ℝ)) (simplices faceHead : List (Nat × Nat × Nat)) (eqN : List (V3 ℝ)) (eqD : List ℝ)
    (hullVolume hullArea : ℝ)
    (hS : trisOf verts simplices = S.map CCk.triOfRat) (hr : InRange verts.length simplices)
    (harea : hullArea = CP.surfaceArea (trisOf verts simplices))
    (ops : List (MOp ℝ)) (hv : ∀ op ∈ ops, op.Valid) :
    let s0 := construct verts simplices faceHead eqN eqD hullVolume hullArea
    let s' := run s0 ops
    let Ts' := runTets s0 ops (Tq.map CCk.tetOfRat)
    s'.volume = solidInt Ts' (fun _ => 1) ∧ s'.centroid = centroidInt Ts' ∧
    inertiaTensor s' = inertiaInt Ts' ∧ s'.area = CP.surfaceArea s'.tris := by
  have hch := chainCheck_tets_rat_sound hc
  have hp : 0 < Spec.vol (Tq.map CCk.tetOfRat) := by rw [CCk.vol_ofRat]; exact_mod_cast hpos
  have hn := CCk.nondegCheck_rat_sound hnd
  rw [← hS] at hch hn
  exact cp_history_exact
    (construct_inv verts simplices faceHead eqN eqD hullVolume hullArea _ hch hp hn hr harea) ops hv

/-- the centroid setter does what it says, at any point of a history -/
theorem cp_setCentroid_exact {s : CPState ℝ} {Ts : List (Tet ℝ)} (h : MeasInv s Ts) (c : V3 ℝ) :
    (s.setCentroid c).centroid = c ∧ centroidInt (shiftTets (c - s.centroid) Ts) = c := by
  have h1 := setCentroid_centroid h c
  exact ⟨h1, by rw [← centroid_eq_centroidInt, ← (setCentroid_inv h c).cen, h1]⟩

/-! non-vacuity: the unit corner tetrahedron, built and then resized / moved -/

def exVerts01 : List (V3 ℝ) := [⟨0,0,0⟩, ⟨1,0,0⟩, ⟨0,1,0⟩, ⟨0,0,1⟩]
def exSimp01 : List (Nat × Nat × Nat) := [(0,2,1), (0,1,3), (1,2,3), (0,3,2)]

theorem exTris01 : trisOf exVerts01 exSimp01 = exT.bdry := by
  simp [trisOf, exVerts01, exSimp01, vget, Tet.bdry, exT]

theorem exInv01 : MeasInv (construct exVerts01 exSimp01 exSimp01 [] [] 0 (CP.surfaceArea exT.bdry)) [exT] := by
  apply construct_inv
  · rw [exTris01]; simpa using ChainEq.refl _
  · unfold Spec.vol Spec.tetVol exT; unfold_model; norm_num
  · rw [exTris01]
    intro t ht
    have hn : ∀ x y z : ℝ, x * x + y * y + z * z ≠ 0 → V3.norm (⟨x, y, z⟩ : V3 ℝ) ≠ 0 := by
      intro x y z h
      unfold V3.norm V3.normSq V3.dot
      simp only [Scalar.sqrt_real]
      intro h0
      rw [Real.sqrt_eq_zero'] at h0
      have : 0 ≤ x * x + y * y + z * z := by nlinarith [mul_self_nonneg x, mul_self_nonneg y, mul_self_nonneg z]
      exact h (le_antisymm h0 this)
    simp only [Tet.bdry, exT, List.mem_cons, List.not_mem_nil, or_false] at ht
    rcases ht with rfl | rfl | rfl | rfl <;> unfold Tri.nvec V3.cross <;>
      simp only [V3.sub_x, V3.sub_y, V3.sub_z] <;> apply hn <;> norm_num
  · intro s hs
    simp [exSimp01] at hs
    rcases hs with rfl | rfl | rfl | rfl <;> simp [exVerts01]
  · rw [exTris01]

def exOps01 : List (MOp ℝ) := [.setVolume 8, .setCentroid ⟨5, 5, 5⟩, .setSurfaceArea 1, .setVolume (-1)]

example :
    (run (construct exVerts01 exSimp01 exSimp01 [] [] 0 (CP.surfaceArea exT.bdry)) exOps01).volume
      = solidInt (runTets (construct exVerts01 exSimp01 exSimp01 [] [] 0 (CP.surfaceArea exT.bdry)) exOps01 [exT])
          (fun _ => 1) :=
  (cp_history_exact exInv01 exOps01 (by
    intro op hop
    simp only [exOps01, List.mem_cons, List.not_mem_nil, or_false] at hop
    rcases hop with rfl | rfl | rfl | rfl <;> trivial)).1

end

/-! ### the face groups: `_combine_simplices` and the partition the per-face measures rely on -/
noncomputable section

/-- soundness of the partition check the driver runs on the implementation's `_coplanar_simplices` -/
theorem groupsPartition_sound {n : Nat} {groups : List (List Nat)} (h : CP.groupsPartition n groups = true) :
    (List.range n).Perm groups.flatten := List.isPerm_iff.mp h

theorem faceSimplices_range (S : List (Tri ℝ)) : CP.faceSimplices S (List.range S.length) = S := by
  unfold CP.faceSimplices
  apply List.ext_getElem
  · simp
  · intro i h1 h2
    simp only [List.length_map, List.length_range] at h1
    simp [List.getD, h1]

/-- **C01 surface area = Σ face areas, checked form**: the hypothesis is the Boolean `CP.groupsPartition` (the face
groups partition the simplex indices), evaluated per run on `_coplanar_simplices`. -/
theorem cp_surface_area_eq_sum_faces_checked (S : List (Tri ℝ)) (groups : List (List Nat))
    (h : CP.groupsPartition S.length groups = true) :
    CP.surfaceArea S = (groups.map fun g => CP.faceArea (CP.faceSimplices S g)).sum := by
  have hp := (groupsPartition_sound h).map fun i => S.getD i ⟨V3.zero, V3.zero, V3.zero⟩
  have h1 := faceSimplices_range S
  unfold CP.faceSimplices at h1
  rw [h1, List.map_flatten] at hp
  have hp' : S.Perm (groups.map (CP.faceSimplices S)).flatten := hp
  rw [cp_surface_area_eq_sum_faces S (groups.map (CP.faceSimplices S)) hp', List.map_map]; rfl

/-- every simplex lands in a face: with a positive tolerance each index belongs to (at least) one group of
`_combine_simplices`, whatever Qhull's equations are -/
theorem combineSimplices_cover {tol : ℝ} (htol : 0 < tol) (eqs : List (V3 ℝ × ℝ)) (i : Nat) (hi : i < eqs.length) :
    ∃ g ∈ CP.combineSimplices tol eqs, i ∈ g := by
  have hclose : ∀ e : V3 ℝ × ℝ, CP.eqClose tol e e = true := by
    intro e; simp [CP.eqClose, htol]
  have hrow : i ∈ ((eqs.zipIdx.filter fun p => CP.eqClose tol eqs[i] p.1).map (·.2)) := by
    rw [List.mem_map]
    refine ⟨(eqs[i], i), ?_, rfl⟩
    rw [List.mem_filter]
    refine ⟨?_, hclose _⟩
    rw [List.mem_zipIdx_iff_getElem?]
    simp [hi]
  refine ⟨_, ?_, hrow⟩
  unfold CP.combineSimplices
  rw [List.mem_mergeSort, List.mem_eraseDups]
  unfold CP.coplanarRows
  rw [List.mem_map]
  exact ⟨eqs[i], List.getElem_mem hi, rfl⟩

example : CP.groupsPartition 4 [[0, 2], [1], [3]] = true := by decide
example : CP.groupsPartition 4 [[0, 2], [2, 3], [1]] = false := by decide

end

/-! ### exactness against Lebesgue integrals over the tetrahedra as subsets of ℝ³ -/
noncomputable section
open SolidInt MeasureTheory

/-- **C01 volume = Σ_T λ³(T).** For a surface that bounds positively oriented tetrahedra, the signed-tetrahedron sum
is the sum of the Lebesgue measures of the tetrahedra `tetSet T = {convex combinations of the four vertices} ⊂ ℝ³`. -/
theorem cp_volume_lebesgue {S : List (Tri ℝ)} {Ts : List (Tet ℝ)}
    (h : ChainEq S (Ts.flatMap Tet.bdry)) (hpos : ∀ T ∈ Ts, 0 < tetJac T) :
    CP.signedVolume S = (Ts.map fun T => volume.real (tetSet T)).sum := by
  rw [cp_volume_integral h, solidInt_eq_lebInt Ts hpos _ continuous_const, lebInt_one]

/-- with arbitrary orientations every tetrahedron enters with its orientation sign -/
theorem cp_volume_lebesgue_signed {S : List (Tri ℝ)} {Ts : List (Tet ℝ)}
    (h : ChainEq S (Ts.flatMap Tet.bdry)) (hnd : ∀ T ∈ Ts, tetJac T ≠ 0) :
    CP.signedVolume S = (Ts.map fun T => SignType.sign (tetJac T) * volume.real (tetSet T)).sum := by
  rw [cp_volume_integral h, solidInt_eq_signed_lebesgue Ts hnd _ continuous_const]
  congr 1; apply List.map_congr_left; intro T _; simp

theorem vol_pos_of_posTets {Ts : List (Tet ℝ)} (hne : Ts ≠ []) (hpos : ∀ T ∈ Ts, 0 < tetJac T) : 0 < Spec.vol Ts := by
  rw [Spec.vol_eq]
  cases Ts with
  | nil => exact absurd rfl hne
  | cons T Ts =>
    simp only [List.map_cons, List.sum_cons]
    have h1 : 0 < Spec.tetVol T := by rw [tetVol_eq_jac]; have := hpos T List.mem_cons_self; positivity
    have h2 : 0 ≤ (Ts.map Spec.tetVol).sum := by
      apply List.sum_nonneg
      intro x hx
      obtain ⟨U, hU, rfl⟩ := List.mem_map.mp hx
      rw [tetVol_eq_jac]; have := hpos U (List.mem_cons_of_mem _ hU); positivity
    linarith

/-- **C01 centroid = Σ_T ∫_T x dλ³ / Σ_T ∫_T 1 dλ³.** -/
theorem cp_centroid_lebesgue {S : List (Tri ℝ)} {Ts : List (Tet ℝ)}
    (h : ChainEq S (Ts.flatMap Tet.bdry)) (hne : Ts ≠ []) (hpos : ∀ T ∈ Ts, 0 < tetJac T) :
    CP.centroid S (CP.volume S) = centroidLeb Ts := by
  rw [cp_centroid_integral h (vol_pos_of_posTets hne hpos), centroidInt_eq_centroidLeb Ts hpos]

/-- **C01 inertia tensor = Σ_T ∫_T (|x|² δ_ij − x_i x_j) dλ³.** -/
theorem cp_inertia_lebesgue {S : List (Tri ℝ)} {Ts : List (Tet ℝ)}
    (h : ChainEq S (Ts.flatMap Tet.bdry)) (hnd : ∀ t ∈ S, V3.norm t.nvec ≠ 0) (hne : Ts ≠ [])
    (hpos : ∀ T ∈ Ts, 0 < tetJac T) :
    CP.inertia S (CP.centroid S (CP.volume S)) (CP.volume S) = inertiaLeb Ts := by
  rw [cp_inertia_integral h hnd (vol_pos_of_posTets hne hpos), inertiaInt_eq_inertiaLeb Ts hpos]

/-- soundness of the orientation check the driver runs in ℚ -/
theorem posTetsCheck_rat_sound {Ts : List (Tet ℚ)} (h : CPH.posTetsCheck Ts = true) :
    ∀ T ∈ Ts.map CCk.tetOfRat, 0 < tetJac T := by
  intro T hT
  obtain ⟨U, hU, rfl⟩ := List.mem_map.mp hT
  unfold CPH.posTetsCheck at h
  rw [List.all_eq_true] at h
  have hq := of_decide_eq_true (h U hU)
  have hq' : (0 : ℚ) < Spec.tetVol U := by
    have e : (Scalar.lit 0 : ℚ) = 0 := by show ((0 : ℕ) : ℚ) = 0; simp
    rw [e] at hq; exact hq
  have hr : (0 : ℝ) < Spec.tetVol (CCk.tetOfRat U) := by rw [CCk.tetVol_ofRat]; exact_mod_cast hq'
  rw [tetVol_eq_jac] at hr
  linarith

/-- **Per-run tie against Lebesgue integrals.** From the four facts the driver decides exactly in ℚ on the run's own
simplices `S` and cone tetrahedra `Ts` (`chain.check`, `tets.positive`): reported volume, centroid and inertia tensor of
the real surface are sums of Lebesgue integrals over the real tetrahedra as subsets of `ℝ³`. -/
theorem cp_measures_lebesgue_checked {S : List (Tri ℚ)} {Ts : List (Tet ℚ)}
    (h : ChainCheck.chainCheck S (Ts.flatMap Tet.bdry) = true)
    (hnd : ChainCheck.nondegCheck S = true) (hpos : 0 < Spec.vol Ts) (hor : CPH.posTetsCheck Ts = true) :
    CP.volume (S.map CCk.triOfRat) = ((Ts.map CCk.tetOfRat).map fun T => volume.real (tetSet T)).sum ∧
    CP.centroid (S.map CCk.triOfRat) (CP.volume (S.map CCk.triOfRat)) = centroidLeb (Ts.map CCk.tetOfRat) ∧
    CP.inertia (S.map CCk.triOfRat) (CP.centroid (S.map CCk.triOfRat) (CP.volume (S.map CCk.triOfRat)))
        (CP.volume (S.map CCk.triOfRat)) = inertiaLeb (Ts.map CCk.tetOfRat) := by
  obtain ⟨h1, h2, h3⟩ := cp_measures_integral_checked h hnd hpos
  have hp := posTetsCheck_rat_sound hor
  exact ⟨by rw [h1, solidInt_eq_lebInt _ hp _ continuous_const, lebInt_one],
    by rw [h2, centroidInt_eq_centroidLeb _ hp], by rw [h3, inertiaInt_eq_inertiaLeb _ hp]⟩

/-- **State part against Lebesgue integrals**: when the caches describe a solid of positively oriented tetrahedra, the
getters return Lebesgue integrals over them. (Scalings by `k > 0` and translations keep the orientation, so this holds
along every history that starts from positively oriented tetrahedra: `posTets_run`.) -/
theorem cp_state_lebesgue {s : Mut.CPState ℝ} {Ts : List (Tet ℝ)} (h : CPH.MeasInv s Ts)
    (hpos : ∀ T ∈ Ts, 0 < tetJac T) :
    s.volume = (Ts.map fun T => volume.real (tetSet T)).sum ∧ s.centroid = centroidLeb Ts ∧
    CPH.inertiaTensor s = inertiaLeb Ts := by
  obtain ⟨h1, h2, h3, _⟩ := cp_state_exact h
  exact ⟨by rw [h1, solidInt_eq_lebInt _ hpos _ continuous_const, lebInt_one],
    by rw [h2, centroidInt_eq_centroidLeb _ hpos], by rw [h3, inertiaInt_eq_inertiaLeb _ hpos]⟩

example : 0 < tetJac exT := by unfold tetJac exT; unfold_model; norm_num
example : CPH.posTetsCheck [exTq] = true := by decide +kernel

end

/-! ### Lebesgue form along histories: similarities with positive factor keep every tetrahedron positively oriented -/
noncomputable section
open SolidInt CPH Mut MeasureTheory

theorem tetJac_smul (k : ℝ) (T : Tet ℝ) : tetJac (T.map (V3.smul k)) = k * k * k * tetJac T := by
  obtain ⟨⟨ax,ay,az⟩,⟨bx,b_y,bz⟩,⟨cx,cy,cz⟩,⟨dx,dy,dz⟩⟩ := T
  unfold tetJac; unfold_model; ring

theorem tetJac_add (d : V3 ℝ) (T : Tet ℝ) : tetJac (T.map (· + d)) = tetJac T := by
  obtain ⟨⟨ax,ay,az⟩,⟨bx,b_y,bz⟩,⟨cx,cy,cz⟩,⟨dx,dy,dz⟩⟩ := T
  obtain ⟨d1,d2,d3⟩ := d
  unfold tetJac; unfold_model; ring

theorem posTets_scale {k : ℝ} (hk : 0 < k) {Ts : List (Tet ℝ)} (h : ∀ T ∈ Ts, 0 < tetJac T) :
    ∀ T ∈ scaleTets k Ts, 0 < tetJac T := by
  intro T hT
  obtain ⟨U, hU, rfl⟩ := List.mem_map.mp hT
  rw [tetJac_smul]; have := h U hU; positivity

theorem posTets_shift (d : V3 ℝ) {Ts : List (Tet ℝ)} (h : ∀ T ∈ Ts, 0 < tetJac T) :
    ∀ T ∈ shiftTets d Ts, 0 < tetJac T := by
  intro T hT
  obtain ⟨U, hU, rfl⟩ := List.mem_map.mp hT
  rw [tetJac_add]; exact h U hU

/-- one operation keeps the orientation of every tetrahedron -/
theorem posTets_move {s : CPState ℝ} {Ts : List (Tet ℝ)} (hi : MeasInv s Ts) (op : MOp ℝ) (hop : op.Valid)
    (h : ∀ T ∈ Ts, 0 < tetJac T) : ∀ T ∈ moveTets s op Ts, 0 < tetJac T := by
  unfold moveTets
  cases op with
  | setVolume v =>
    cases hk : setterFactor 3 s.volume v with
    | error e => simpa [hk] using h
    | ok k => simpa [hk] using posTets_scale (setterFactor_pos' hi.vol_pos hk) h
  | setSurfaceArea v =>
    cases hk : setterFactor 2 s.area v with
    | error e => simpa [hk] using h
    | ok k => simpa [hk] using posTets_scale (setterFactor_pos' hi.area_pos hk) h
  | setRadius cur v =>
    cases hk : setterFactor 1 cur v with
    | error e => simpa [hk] using h
    | ok k => simpa [hk] using posTets_scale (setterFactor_pos' hop hk) h
  | setCentroid c => exact posTets_shift _ h

theorem posTets_run (ops : List (MOp ℝ)) : ∀ {s : CPState ℝ} {Ts : List (Tet ℝ)}, MeasInv s Ts →
    (∀ op ∈ ops, op.Valid) → (∀ T ∈ Ts, 0 < tetJac T) → ∀ T ∈ runTets s ops Ts, 0 < tetJac T := by
  induction ops with
  | nil => intro s Ts _ _ h; exact h
  | cons op ops ih =>
    intro s Ts hi hv h
    have hop := hv op List.mem_cons_self
    exact ih (apply_inv hi op hop) (fun o ho => hv o (List.mem_cons_of_mem _ ho)) (posTets_move hi op hop h)

/-- **C01 state, any history, Lebesgue form.** -/
theorem cp_history_lebesgue {s : CPState ℝ} {Ts : List (Tet ℝ)} (h : MeasInv s Ts) (hpos : ∀ T ∈ Ts, 0 < tetJac T)
    (ops : List (MOp ℝ)) (hv : ∀ op ∈ ops, op.Valid) :
    (run s ops).volume = ((runTets s ops Ts).map fun T => volume.real (tetSet T)).sum ∧
    (run s ops).centroid = centroidLeb (runTets s ops Ts) ∧
    inertiaTensor (run s ops) = inertiaLeb (runTets s ops Ts) :=
  cp_state_lebesgue (run_inv ops h hv) (posTets_run ops h hv hpos)

example : ∀ T ∈ [exT], 0 < tetJac T := by
  intro T hT; simp only [List.mem_cons, List.not_mem_nil, or_false] at hT; subst hT
  unfold tetJac exT; unfold_model; norm_num

end
