import CoxeterVerif.Lemmas.Inside3DBox
import CoxeterVerif.Lemmas.Inside3DGlue
/-!
  # C05 — 3-D point containment equals exact membership

  Model: `Model/Inside3D.lean` (`Inside3D.CP/Poly/Sphere/Ellipsoid/Sphero.isInside`), specification:
  `Spec/Inside3D.lean` (`MemHull` = explicit convex weights, `inTets` = union of closed tetrahedra,
  `rayWinding` = signed ray-crossing number, `inBall`, `inEllipsoid`, `MemSphero`).  All statements are
  over ℝ and for lists of any length (any number of planes, vertices, triangles, tetrahedra, points).

  * convex polyhedron : `cp_inside_of_mem_hull`, `cp_planeDist_le_of_mem_hull` (hull ⊆ accepted set, from
    the Qhull contract, exact or with slack η), `cp_outside_of_rejected(_margin)`;
    `cp_mem_hull_of_inner_side` (a closed face structure has no missing facet: strictly inside all
    triangle planes ⇒ explicit convex weights), `cp_mem_hull_of_inside_cert` (accepted with margin ⇒ in
    the hull, relative to the decidable certificate `facetCert` that the driver evaluates exactly over ℚ
    on the implementation's own equations, vertices and faces), `cp_mem_hull_of_cover`;
  * sphere / ellipsoid : `sphere_inside_iff`, `ellipsoid_inside_iff`;
  * spheropolyhedron : `sphero_cylinder_sound`, `sphero_cap_sound`, `sphero_prism_sound`,
    `sphero_inside_sound_partial`, `far_cert_sound`, `plane_cert_sound`; in exact arithmetic with exact
    planes (`SpheroExact`): `sphero_inside_sound`, `sphero_inside_complete`, `sphero_inside_iff`
    (accepted ⇔ distance to the core ≤ r, boundary included); `cp_inside_iff_hull` (`ExactFacets`);
  * winding number : `winding_contribution_rot/rev`, `winding_chain_invariant`, `winding_additive`,
    `poly_tet_winding` (the single-tetrahedron lemma, ANY coordinates), `poly_winding_eq_signed_count`,
    `poly_inside_iff` (+ `_checked`), `poly_inside_iff_ray` (+ `_checked`: any closed surface, signed
    ray-crossing number), `rayWinding_apex_indep`, `poly_inside_iff_winding` (apex-free form);
  * batch = map of single-point results : `cp/poly/sphere/ellipsoid/sphero_batch_eq_map_single`.
-/
open Scalar Inside3D Spec.In3D
set_option maxRecDepth 4000
noncomputable section

/-! ### convex polyhedron -/

/-- **C05 (convex, hull ⊆ accepted set).** If every vertex satisfies every plane inequality (the
Qhull contract, checked per run) then every convex combination of the vertices is accepted. -/
theorem cp_inside_of_mem_hull (eqs : List (Plane ℝ)) (V : List (V3 ℝ)) (p : V3 ℝ)
    (hq : ∀ e ∈ eqs, ∀ v ∈ V, CP.planeDist e v ≤ 0) (hp : MemHull V p) :
    CP.isInside1 eqs p = true := by
  obtain ⟨ws, hlen, ⟨hw, hs⟩, rfl⟩ := hp
  simp only [Scalar.lit, Scalar.ofNat_real, Scalar.sum_real, Nat.cast_zero, Nat.cast_one] at hw hs
  unfold CP.isInside1 CP.planeDists
  rw [List.all_eq_true]
  intro d hd
  obtain ⟨e, he, rfl⟩ := List.mem_map.mp hd
  rw [decide_eq_true_iff]
  simp only [Scalar.lit, Scalar.ofNat_real, Nat.cast_zero]
  rw [planeDist_comb e ws V hlen, hs]
  have := sum_zipWith_nonpos (CP.planeDist e) ws V hw (hq e he)
  linarith

/-- contrapositive: a rejected point is outside the hull -/
theorem cp_outside_of_rejected (eqs : List (Plane ℝ)) (V : List (V3 ℝ)) (p : V3 ℝ)
    (hq : ∀ e ∈ eqs, ∀ v ∈ V, CP.planeDist e v ≤ 0) (hrej : CP.isInside1 eqs p = false) :
    ¬ MemHull V p := by
  intro h
  rw [cp_inside_of_mem_hull eqs V p hq h] at hrej
  exact Bool.noConfusion hrej

/-- the unit cube `[0,1]³`: its six planes and eight vertices meet the contract -/
def cubeEqs : List (Plane ℝ) :=
  [⟨⟨-1, 0, 0⟩, 0⟩, ⟨⟨1, 0, 0⟩, -1⟩, ⟨⟨0, -1, 0⟩, 0⟩, ⟨⟨0, 1, 0⟩, -1⟩, ⟨⟨0, 0, -1⟩, 0⟩, ⟨⟨0, 0, 1⟩, -1⟩]
def cubeV : List (V3 ℝ) :=
  [⟨0,0,0⟩, ⟨1,0,0⟩, ⟨0,1,0⟩, ⟨1,1,0⟩, ⟨0,0,1⟩, ⟨1,0,1⟩, ⟨0,1,1⟩, ⟨1,1,1⟩]

example : ∀ e ∈ cubeEqs, ∀ v ∈ cubeV, CP.planeDist e v ≤ 0 := by
  intro e he v hv
  simp only [cubeEqs, cubeV, List.mem_cons, List.not_mem_nil, or_false] at he hv
  rcases he with rfl | rfl | rfl | rfl | rfl | rfl <;>
    rcases hv with rfl | rfl | rfl | rfl | rfl | rfl | rfl | rfl <;>
    simp only [CP.planeDist, V3.dot] <;> norm_num

example : MemHull cubeV ⟨1/2, 1/4, 1/4⟩ := by
  refine ⟨[1/2, 1/4, 0, 0, 0, 0, 0, 1/4], rfl, ⟨?_, ?_⟩, ?_⟩
  · intro w hw
    simp only [List.mem_cons, List.not_mem_nil, or_false] at hw
    simp only [Scalar.lit, Scalar.ofNat_real]
    rcases hw with rfl | rfl | rfl | rfl | rfl | rfl | rfl | rfl <;> norm_num
  · simp only [Scalar.sum_real, Scalar.lit, Scalar.ofNat_real]; norm_num
  · simp only [cubeV, comb]; ext <;> norm_num

example : CP.isInside1 cubeEqs ⟨3/2, 1/4, 1/4⟩ = false := by
  simp only [CP.isInside1, CP.planeDists, cubeEqs, CP.planeDist, V3.dot, List.map_cons, List.map_nil,
    List.all_cons, List.all_nil, Scalar.lit, Scalar.ofNat_real]
  norm_num

/-- a closed non-degenerate tetrahedron consists of convex combinations of its vertices:
explicit barycentric weights -/
theorem tet_mem_hull_of_inTet (T : Tet ℝ) (p : V3 ℝ) (h : inTet T p = true) :
    MemHull [T.a, T.b, T.c, T.d] p := memHull_tet_of_inTet T p h

/-- **C05 (convex, accepted set ⊆ hull) from a covering by tetrahedra.**  If the accepted region is
covered by tetrahedra spanned by vertices, every accepted point has explicit convex weights.  (The
covering hypothesis is PROVED from the closedness of the face structure in
`cp_mem_hull_of_inner_side` / `cp_mem_hull_of_inside_cert` below.) -/
theorem cp_mem_hull_of_cover (eqs : List (Plane ℝ)) (V : List (V3 ℝ)) (Ts : List (Tet ℝ))
    (hV : ∀ T ∈ Ts, T.a ∈ V ∧ T.b ∈ V ∧ T.c ∈ V ∧ T.d ∈ V)
    (hcomplete : ∀ p, CP.isInside1 eqs p = true → inTets Ts p = true)
    (p : V3 ℝ) (hp : CP.isInside1 eqs p = true) : MemHull V p := by
  have h := hcomplete p hp
  simp only [inTets, List.any_eq_true] at h
  obtain ⟨T, hT, hin⟩ := h
  obtain ⟨ws, hlen, ⟨hw, hs⟩, hc⟩ := tet_mem_hull_of_inTet T p hin
  simp only [Scalar.lit, Scalar.ofNat_real, Scalar.sum_real, Nat.cast_zero, Nat.cast_one] at hw hs
  rw [← hc]
  obtain ⟨ha, hb, hc', hd⟩ := hV T hT
  refine memHull_comb ws [T.a, T.b, T.c, T.d] hlen hw hs ?_
  intro q hq
  simp only [List.mem_cons, List.not_mem_nil, or_false] at hq
  rcases hq with rfl | rfl | rfl | rfl
  exacts [memHull_of_mem ha, memHull_of_mem hb, memHull_of_mem hc', memHull_of_mem hd]

/-- the hypotheses are satisfiable: the unit tetrahedron with its four planes -/
def tetT : Tet ℝ := ⟨⟨0,0,0⟩, ⟨1,0,0⟩, ⟨0,1,0⟩, ⟨0,0,1⟩⟩
def tetEqs : List (Plane ℝ) := [⟨⟨-1,0,0⟩, 0⟩, ⟨⟨0,-1,0⟩, 0⟩, ⟨⟨0,0,-1⟩, 0⟩, ⟨⟨1,1,1⟩, -1⟩]

example : ∀ p, CP.isInside1 tetEqs p = true → inTets [tetT] p = true := by
  intro ⟨x, y, z⟩ h
  simp only [CP.isInside1, CP.planeDists, tetEqs, CP.planeDist, V3.dot, List.map_cons, List.map_nil,
    List.all_cons, List.all_nil, Scalar.lit, Scalar.ofNat_real, Bool.and_true, Bool.and_eq_true,
    decide_eq_true_iff, Nat.cast_zero] at h
  simp only [inTets, List.any_cons, List.any_nil, Bool.or_false, inTet, bary, tetT, orient,
    List.all_cons, List.all_nil, Bool.and_true, Bool.or_eq_true, Bool.and_eq_true, decide_eq_true_iff]
  unfold_model
  left
  refine ⟨by norm_num, ?_, ?_, ?_, ?_⟩ <;> nlinarith [h.1, h.2.1, h.2.2.1, h.2.2.2]

/-- **C05 (convex, hull ⊆ accepted set, with slack).**  If every vertex satisfies every plane
inequality up to `η` (what floating-point Qhull output guarantees; the driver computes the exact `η`),
every convex combination of the vertices satisfies every plane inequality up to `η`. -/
theorem cp_planeDist_le_of_mem_hull (eqs : List (Plane ℝ)) (V : List (V3 ℝ)) (η : ℝ) (p : V3 ℝ)
    (hq : ∀ e ∈ eqs, ∀ v ∈ V, CP.planeDist e v ≤ η) (hp : MemHull V p) :
    ∀ d ∈ CP.planeDists eqs p, d ≤ η := by
  obtain ⟨ws, hlen, ⟨hw, hs⟩, rfl⟩ := hp
  simp only [Scalar.lit, Scalar.ofNat_real, Scalar.sum_real, Nat.cast_zero, Nat.cast_one] at hw hs
  intro d hd
  obtain ⟨e, he, rfl⟩ := List.mem_map.mp hd
  rw [planeDist_comb e ws V hlen, hs]
  have := sum_zipWith_le (CP.planeDist e) η ws V hlen hw (hq e he)
  rw [hs] at this
  linarith

/-- contrapositive: a point violating one plane inequality by more than `η` is outside the hull -/
theorem cp_outside_of_rejected_margin (eqs : List (Plane ℝ)) (V : List (V3 ℝ)) (η : ℝ) (p : V3 ℝ)
    (hq : ∀ e ∈ eqs, ∀ v ∈ V, CP.planeDist e v ≤ η) (hrej : ∃ d ∈ CP.planeDists eqs p, η < d) :
    ¬ MemHull V p := by
  intro h
  obtain ⟨d, hd, hlt⟩ := hrej
  have := cp_planeDist_le_of_mem_hull eqs V η p hq h d hd
  linarith

/-- **C05 (convex, no facet is missing).**  `S` = the faces of the polyhedron cut into triangles:
a closed oriented surface (`ClosedSurface`, decided by `closedCheck`) with vertices in `V`; `o` any
point of the hull off the plane of one triangle.  Every point lying strictly on the inner side of the
plane of every triangle of `S` has explicit convex weights over `V`.
(Proof: the single-tetrahedron winding lemma + independence of the winding sum from the cone apex.) -/
theorem cp_mem_hull_of_inner_side (V : List (V3 ℝ)) {S : List (Tri ℝ)} (hcl : CCk.ClosedSurface S)
    (hV : ∀ t ∈ S, t.a ∈ V ∧ t.b ∈ V ∧ t.c ∈ V)
    (o : V3 ℝ) (ho : MemHull V o) {t1 : Tri ℝ} (ht1 : t1 ∈ S) (h1 : orient o t1.a t1.b t1.c ≠ 0)
    (p : V3 ℝ) (hp : ∀ t ∈ S, 0 < orient p t.a t.b t.c) : MemHull V p :=
  memHull_of_inner_side V hcl hV o ho ht1 h1 p hp

/-- the model's plane list built from the rational equations the driver read -/
def planesOfRat (eqs : List (V3 ℚ × ℚ)) : List (Plane ℝ) :=
  eqs.map fun e => ⟨CCk.v3OfRat e.1, (e.2 : ℝ)⟩

/-- **C05 (convex, accepted with margin ⇒ in the hull) — certificate form.**  `facetCert` is the
decidable certificate of `Spec/Inside3D.lean`, evaluated by the driver exactly over ℚ on the
implementation's own `_equations`, `vertices` and `faces` (fan-triangulated), with the harness's
margin `m` and box radius `R`.  If it holds, EVERY real point of the box `|p − o|∞ ≤ R` all of whose
plane distances (as the model computes them) are `< −m` is a convex combination of the vertices.
This replaces the facet-completeness hypothesis of `cp_mem_hull_of_cover`. -/
theorem cp_mem_hull_of_inside_cert (V : List (V3 ℚ)) (eqs : List (V3 ℚ × ℚ)) (ws : List ℚ)
    (F : List (Tri ℚ × V3 ℚ × ℚ)) (m R : ℚ) (hcert : facetCert V eqs ws F m R = true)
    (p : V3 ℝ) (hx : |p.x - ((comb ws V).x : ℝ)| ≤ R) (hy : |p.y - ((comb ws V).y : ℝ)| ≤ R)
    (hz : |p.z - ((comb ws V).z : ℝ)| ≤ R)
    (hp : ∀ d ∈ CP.planeDists (planesOfRat eqs) p, d < -(m : ℝ)) :
    MemHull (V.map CCk.v3OfRat) p := by
  refine facetCert_rat_sound V eqs ws F m R hcert p hx hy hz ?_
  intro e he
  apply hp
  unfold CP.planeDists planesOfRat
  rw [List.map_map]
  exact List.mem_map.mpr ⟨e, he, rfl⟩

/-- the certificate on the unit cube (exact data: margin 0), evaluated in ℚ by the kernel -/
def cubeVq : List (V3 ℚ) :=
  [⟨0,0,0⟩, ⟨1,0,0⟩, ⟨0,1,0⟩, ⟨1,1,0⟩, ⟨0,0,1⟩, ⟨1,0,1⟩, ⟨0,1,1⟩, ⟨1,1,1⟩]
def cubeEqsq : List (V3 ℚ × ℚ) :=
  [(⟨-1, 0, 0⟩, 0), (⟨1, 0, 0⟩, -1), (⟨0, -1, 0⟩, 0), (⟨0, 1, 0⟩, -1), (⟨0, 0, -1⟩, 0), (⟨0, 0, 1⟩, -1)]
def cubeWq : List ℚ := [1/8, 1/8, 1/8, 1/8, 1/8, 1/8, 1/8, 1/8]
def cubeFq : List (Tri ℚ × V3 ℚ × ℚ) :=
  [ (⟨⟨0,0,0⟩, ⟨0,0,1⟩, ⟨0,1,1⟩⟩, ⟨-1,0,0⟩, 0), (⟨⟨0,0,0⟩, ⟨0,1,1⟩, ⟨0,1,0⟩⟩, ⟨-1,0,0⟩, 0),
    (⟨⟨1,0,0⟩, ⟨1,1,0⟩, ⟨1,1,1⟩⟩, ⟨1,0,0⟩, -1), (⟨⟨1,0,0⟩, ⟨1,1,1⟩, ⟨1,0,1⟩⟩, ⟨1,0,0⟩, -1),
    (⟨⟨0,0,0⟩, ⟨1,0,0⟩, ⟨1,0,1⟩⟩, ⟨0,-1,0⟩, 0), (⟨⟨0,0,0⟩, ⟨1,0,1⟩, ⟨0,0,1⟩⟩, ⟨0,-1,0⟩, 0),
    (⟨⟨0,1,0⟩, ⟨0,1,1⟩, ⟨1,1,1⟩⟩, ⟨0,1,0⟩, -1), (⟨⟨0,1,0⟩, ⟨1,1,1⟩, ⟨1,1,0⟩⟩, ⟨0,1,0⟩, -1),
    (⟨⟨0,0,0⟩, ⟨0,1,0⟩, ⟨1,1,0⟩⟩, ⟨0,0,-1⟩, 0), (⟨⟨0,0,0⟩, ⟨1,1,0⟩, ⟨1,0,0⟩⟩, ⟨0,0,-1⟩, 0),
    (⟨⟨0,0,1⟩, ⟨1,0,1⟩, ⟨1,1,1⟩⟩, ⟨0,0,1⟩, -1), (⟨⟨0,0,1⟩, ⟨1,1,1⟩, ⟨0,1,1⟩⟩, ⟨0,0,1⟩, -1) ]

example : facetCert cubeVq cubeEqsq cubeWq cubeFq 0 2 = true := by decide +kernel

/-- … hence every point strictly accepted by the cube's six planes has explicit convex weights -/
example : MemHull (cubeVq.map CCk.v3OfRat) ⟨1/3, 1/5, 6/7⟩ := by
  apply cp_mem_hull_of_inside_cert cubeVq cubeEqsq cubeWq cubeFq 0 2 (by decide +kernel)
  · have : ((comb cubeWq cubeVq).x : ℝ) = 1/2 := by
      have h : (comb cubeWq cubeVq).x = 1/2 := by decide +kernel
      rw [h]; norm_num
    rw [this]; norm_num [abs_le]
  · have : ((comb cubeWq cubeVq).y : ℝ) = 1/2 := by
      have h : (comb cubeWq cubeVq).y = 1/2 := by decide +kernel
      rw [h]; norm_num
    rw [this]; norm_num [abs_le]
  · have : ((comb cubeWq cubeVq).z : ℝ) = 1/2 := by
      have h : (comb cubeWq cubeVq).z = 1/2 := by decide +kernel
      rw [h]; norm_num
    rw [this]; norm_num [abs_le]
  · intro d hd
    simp only [CP.planeDists, planesOfRat, cubeEqsq, List.map_cons, List.map_nil, List.mem_cons,
      List.not_mem_nil, or_false, CP.planeDist, V3.dot, CCk.v3OfRat] at hd
    rcases hd with rfl | rfl | rfl | rfl | rfl | rfl <;> norm_num

/-- **C05 (convex polyhedron, exact arithmetic): accepted ⇔ in the hull, boundary points included.**
`ExactFacets eqs V` (Lemmas/Inside3DSphero.lean): every vertex satisfies every plane inequality; the
faces cut into triangles form a closed oriented surface with vertices in `V`, each triangle lying
exactly in a plane of `eqs`; some point of the hull is strictly inside everything.  (For rounded
Qhull planes use the margin form `cp_mem_hull_of_inside_cert`.) -/
theorem cp_inside_iff_hull {eqs : List (Plane ℝ)} {V : List (V3 ℝ)} (h : ExactFacets eqs V) (p : V3 ℝ) :
    CP.isInside1 eqs p = true ↔ MemHull V p :=
  cp_inside_iff_hull_exact h p

/-- closed form of `cp_mem_hull_of_inner_side`: `0 ≤ orient p t` for all triangles suffices -/
theorem cp_mem_hull_of_inner_side_closed (V : List (V3 ℝ)) {S : List (Tri ℝ)} (hcl : CCk.ClosedSurface S)
    (hne : S ≠ []) (hV : ∀ t ∈ S, t.a ∈ V ∧ t.b ∈ V ∧ t.c ∈ V)
    (o : V3 ℝ) (hoV : MemHull V o) (ho : ∀ t ∈ S, 0 < orient o t.a t.b t.c)
    (p : V3 ℝ) (hp : ∀ t ∈ S, 0 ≤ orient p t.a t.b t.c) : MemHull V p :=
  memHull_of_inner_side_closed V hcl hne hV o hoV ho p hp

/-- the hypotheses are satisfiable: the unit tetrahedron with its four exact planes -/
def tetQ : Tet ℚ := ⟨⟨0,0,0⟩, ⟨1,0,0⟩, ⟨0,1,0⟩, ⟨0,0,1⟩⟩
def tetVr : List (V3 ℝ) := [⟨0,0,0⟩, ⟨1,0,0⟩, ⟨0,1,0⟩, ⟨0,0,1⟩]

example : ExactFacets tetEqs tetVr := by
  have hcl : CCk.ClosedSurface (tetQ.bdry.map CCk.triOfRat) := closedCheck_rat_sound' (by decide +kernel)
  have hS : tetQ.bdry.map CCk.triOfRat =
      [⟨⟨0,0,0⟩, ⟨0,1,0⟩, ⟨1,0,0⟩⟩, ⟨⟨0,0,0⟩, ⟨1,0,0⟩, ⟨0,0,1⟩⟩, ⟨⟨1,0,0⟩, ⟨0,1,0⟩, ⟨0,0,1⟩⟩,
        ⟨⟨0,0,0⟩, ⟨0,0,1⟩, ⟨0,1,0⟩⟩] := by
    simp [tetQ, Tet.bdry, CCk.triOfRat, CCk.triTo, CCk.v3OfRat]
  rw [hS] at hcl
  refine ⟨?_, ⟨1/4, 1/4, 1/4⟩,
    [(⟨⟨0,0,0⟩, ⟨0,1,0⟩, ⟨1,0,0⟩⟩, ⟨⟨0,0,-1⟩, 0⟩), (⟨⟨0,0,0⟩, ⟨1,0,0⟩, ⟨0,0,1⟩⟩, ⟨⟨0,-1,0⟩, 0⟩),
     (⟨⟨1,0,0⟩, ⟨0,1,0⟩, ⟨0,0,1⟩⟩, ⟨⟨1,1,1⟩, -1⟩), (⟨⟨0,0,0⟩, ⟨0,0,1⟩, ⟨0,1,0⟩⟩, ⟨⟨-1,0,0⟩, 0⟩)],
    ?_, by simp, by simpa using hcl, ?_⟩
  · intro e he v hv
    simp only [tetEqs, tetVr, List.mem_cons, List.not_mem_nil, or_false] at he hv
    rcases he with rfl | rfl | rfl | rfl <;> rcases hv with rfl | rfl | rfl | rfl <;>
      simp only [CP.planeDist, V3.dot] <;> norm_num
  · refine ⟨[1/4, 1/4, 1/4, 1/4], rfl, ⟨?_, ?_⟩, ?_⟩
    · intro w hw
      simp only [List.mem_cons, List.not_mem_nil, or_false] at hw
      simp only [Scalar.lit, Scalar.ofNat_real]
      rcases hw with rfl | rfl | rfl | rfl <;> norm_num
    · simp only [Scalar.sum_real, Scalar.lit, Scalar.ofNat_real]; norm_num
    · simp only [tetVr, comb]; ext <;> norm_num
  · intro f hf
    simp only [List.mem_cons, List.not_mem_nil, or_false] at hf
    rcases hf with rfl | rfl | rfl | rfl <;>
      refine ⟨by simp [tetEqs], ⟨by simp [tetVr], by simp [tetVr], by simp [tetVr]⟩, ?_, ?_, ?_, ?_, ?_⟩ <;>
      simp only [orient, CP.planeDist, V3.dot, V3.det3, V3.cross, V3.sub_x, V3.sub_y, V3.sub_z] <;> norm_num

/-! ### sphere, ellipsoid -/

/-- **C05 (sphere).** `‖p − c‖ ≤ r` ⇔ `|p − c|² ≤ r²` for a non-negative radius -/
theorem sphere_inside_iff (r : ℝ) (hr : 0 ≤ r) (c p : V3 ℝ) :
    Sphere.isInside1 r c p = true ↔ inBall r c p = true := by
  unfold Sphere.isInside1 inBall distSq V3.norm
  rw [decide_eq_true_iff, decide_eq_true_iff, Scalar.sqrt_real, Real.sqrt_le_iff]
  constructor
  · rintro ⟨_, h⟩; nlinarith [h]
  · intro h; exact ⟨hr, by nlinarith [h]⟩

example : Sphere.isInside1 (2 : ℝ) ⟨1, 0, 0⟩ ⟨2, 1, 1⟩ = true := by
  rw [sphere_inside_iff 2 (by norm_num)]
  simp only [inBall, distSq, V3.normSq, V3.dot, V3.sub_x, V3.sub_y, V3.sub_z]
  norm_num

/-- **C05 (ellipsoid).** norm of the scaled vector `≤ 1` ⇔ `Σ ((p−c)_i/a_i)² ≤ 1` (positive axes) -/
theorem ellipsoid_inside_iff (a b c : ℝ) (ha : 0 < a) (hb : 0 < b) (hc : 0 < c) (cen p : V3 ℝ) :
    Ellipsoid.isInside1 a b c cen p = true ↔ inEllipsoid a b c cen p = true := by
  unfold Ellipsoid.isInside1 inEllipsoid V3.norm
  simp only
  rw [decide_eq_true_iff, decide_eq_true_iff, Scalar.sqrt_real, Real.sqrt_le_iff]
  have e : V3.normSq (⟨(p - cen).x / a, (p - cen).y / b, (p - cen).z / c⟩ : V3 ℝ) =
      sqr (p - cen).x / sqr a + sqr (p - cen).y / sqr b + sqr (p - cen).z / sqr c := by
    simp only [V3.normSq, V3.dot, Scalar.sqr]
    field_simp
  rw [e]
  simp only [Scalar.lit, Scalar.ofNat_real, Nat.cast_one]
  constructor
  · rintro ⟨_, h⟩; simpa using h
  · intro h; exact ⟨by norm_num, by simpa using h⟩

/-- the one-sided box test (the defect of the 2-D `Ellipse`) is NOT what `Ellipsoid` does:
the point (−5,−5,−5) is rejected -/
example : Ellipsoid.isInside1 (1 : ℝ) 2 3 ⟨0, 0, 0⟩ ⟨-5, -5, -5⟩ = false := by
  rw [Bool.eq_false_iff]
  intro hh
  have h := (ellipsoid_inside_iff 1 2 3 (by norm_num) (by norm_num) (by norm_num) ⟨0,0,0⟩ ⟨-5,-5,-5⟩).mp hh
  simp only [inEllipsoid, V3.sub_x, V3.sub_y, V3.sub_z, Scalar.sqr, Scalar.lit, Scalar.ofNat_real] at h
  norm_num at h

/-! ### spheropolyhedron: the rounded branches -/

/-- **C05 (spheropolyhedron, edge cylinder).** A point accepted by the cylinder test of the edge
`s → e` is within `r` of an explicit point of that edge, hence of the core when `s, e ∈ V`. -/
theorem sphero_cylinder_sound (V : List (V3 ℝ)) (r : ℝ) (p s e : V3 ℝ) (hs : s ∈ V) (he : e ∈ V)
    (h : Sphero.inCylinder r p s e = true) : MemSphero V r p := by
  unfold Sphero.inCylinder at h
  simp only [Bool.and_eq_true, decide_eq_true_iff, Scalar.lit, Scalar.ofNat_real, Nat.cast_zero] at h
  obtain ⟨⟨hdist, h0⟩, hL⟩ := h
  set len := V3.norm (e - s) with hlen
  set t := V3.dot (p - s) (V3.sdiv (e - s) len) with ht
  have hlen0 : 0 ≤ len := by rw [hlen]; unfold V3.norm; exact Real.sqrt_nonneg _
  have hlam0 : 0 ≤ t / len := div_nonneg h0 hlen0
  have hlam1 : t / len ≤ 1 := by
    rcases hlen0.lt_or_eq with hpos | hz
    · rw [div_le_one hpos]; exact hL
    · rw [← hz]; simp
  refine ⟨V3.smul (1 - t / len) s + V3.smul (t / len) e, memHull_segment hs he _ hlam0 hlam1, ?_⟩
  unfold V3.norm at hdist
  rw [Scalar.sqrt_real, Real.sqrt_le_iff] at hdist
  have hkey : distSq p (V3.smul (1 - t / len) s + V3.smul (t / len) e) =
      V3.normSq ((p - s) - V3.smul t (V3.sdiv (e - s) len)) := by
    obtain ⟨px, py, pz⟩ := p; obtain ⟨sx, sy, sz⟩ := s; obtain ⟨ex, ey, ez⟩ := e
    simp only [distSq, V3.normSq, V3.dot, V3.sub_x, V3.sub_y, V3.sub_z, V3.add_x, V3.add_y, V3.add_z,
      V3.smul_x, V3.smul_y, V3.smul_z, V3.sdiv_x, V3.sdiv_y, V3.sdiv_z]
    ring
  rw [hkey]; nlinarith [hdist.2]

/-- **C05 (spheropolyhedron, vertex cap).** A point accepted by the cap test of the vertex `s ∈ V`
is within `r` of the core. -/
theorem sphero_cap_sound (V : List (V3 ℝ)) (r : ℝ) (p s : V3 ℝ) (hs : s ∈ V)
    (h : Sphero.inCap r p s = true) : MemSphero V r p := by
  unfold Sphero.inCap V3.norm at h
  rw [decide_eq_true_iff, Scalar.sqrt_real, Real.sqrt_le_iff] at h
  exact ⟨s, memHull_of_mem hs, by unfold distSq; nlinarith [h.2]⟩

example : Sphero.inCylinder (1:ℝ) ⟨1/2, 1/2, 0⟩ ⟨0, 0, 0⟩ ⟨1, 0, 0⟩ = true := by
  have h1 : V3.norm ((⟨1, 0, 0⟩ : V3 ℝ) - ⟨0, 0, 0⟩) = 1 := by
    simp [V3.norm, V3.normSq, V3.dot]
  simp only [Sphero.inCylinder, h1, Bool.and_eq_true, decide_eq_true_iff, Scalar.lit, Scalar.ofNat_real]
  refine ⟨⟨?_, ?_⟩, ?_⟩
  · simp only [V3.norm, Scalar.sqrt_real, Real.sqrt_le_iff, V3.normSq, V3.dot, V3.sub_x, V3.sub_y, V3.sub_z,
      V3.smul_x, V3.smul_y, V3.smul_z, V3.sdiv_x, V3.sdiv_y, V3.sdiv_z]
    norm_num
  · simp only [V3.dot, V3.sub_x, V3.sub_y, V3.sub_z, V3.sdiv_x, V3.sdiv_y, V3.sdiv_z]; norm_num
  · simp only [V3.dot, V3.sub_x, V3.sub_y, V3.sub_z, V3.sdiv_x, V3.sdiv_y, V3.sdiv_z]; norm_num

example : Sphero.inCap (1:ℝ) ⟨1/2, 0, 0⟩ ⟨0, 0, 0⟩ = true := by
  simp only [Sphero.inCap, V3.norm, Scalar.sqrt_real, decide_eq_true_iff, Real.sqrt_le_iff, V3.normSq, V3.dot,
    V3.sub_x, V3.sub_y, V3.sub_z]
  norm_num

/-- the point is in the closed core: within `0 ≤ r` of itself -/
theorem sphero_core_sound (V : List (V3 ℝ)) (r : ℝ) (p : V3 ℝ) (hp : MemHull V p) : MemSphero V r p :=
  ⟨p, hp, by simp only [distSq, V3.normSq, V3.dot, V3.sub_x, V3.sub_y, V3.sub_z]; nlinarith [mul_self_nonneg r]⟩

/-- **C05 (spheropolyhedron, extruded prism — geometric half).** Every convex combination of the
prism's vertices `(base − r·n) ∪ (base + r·n)` with `|n| ≤ 1` is within `r` of an explicit point of
the core.  (That a point accepted by the prism's Qhull planes IS such a combination is the
facet-completeness fact of `cp_mem_hull_of_inside_partial`.) -/
theorem sphero_prism_sound (V : List (V3 ℝ)) (r : ℝ) (n : V3 ℝ) (hn : V3.normSq n ≤ 1)
    (base : List (V3 ℝ)) (hb : ∀ v ∈ base, v ∈ V) (p : V3 ℝ)
    (hp : MemHull (Sphero.prismVertices r n base) p) : MemSphero V r p := by
  obtain ⟨ws, hlen, ⟨hw, hs⟩, rfl⟩ := hp
  simp only [Scalar.lit, Scalar.ofNat_real, Scalar.sum_real, Nat.cast_zero, Nat.cast_one] at hw hs
  unfold Sphero.prismVertices at hlen ⊢
  simp only [List.length_append, List.length_map] at hlen
  set w1 := ws.take base.length with hw1
  set w2 := ws.drop base.length with hw2
  have hsplit : ws = w1 ++ w2 := (List.take_append_drop _ _).symm
  have l1 : w1.length = base.length := by rw [hw1, List.length_take]; omega
  have l2 : w2.length = base.length := by rw [hw2, List.length_drop]; omega
  have n1 : ∀ w ∈ w1, 0 ≤ w := fun w h => hw w (List.mem_of_mem_take h)
  have n2 : ∀ w ∈ w2, 0 ≤ w := fun w h => hw w (List.mem_of_mem_drop h)
  have hsum : w1.sum + w2.sum = 1 := by rw [← List.sum_append, ← hsplit, hs]
  have s2 : 0 ≤ w2.sum := sum_nonneg_of_forall n2
  have s1 : 0 ≤ w1.sum := sum_nonneg_of_forall n1
  have hsub : (base.map fun v => v - V3.smul r n) = base.map fun v => v + V3.smul (-r) n := by
    apply List.map_congr_left; intro v _; ext <;> simp <;> ring
  have hcomb : comb ws ((base.map fun v => v - V3.smul r n) ++ base.map fun v => v + V3.smul r n) =
      comb (List.zipWith (· + ·) w1 w2) base + V3.smul (w2.sum - w1.sum) (V3.smul r n) := by
    rw [hsplit, comb_append w1 w2 _ _ (by simp [l1]), hsub, comb_map_add _ w1 base l1,
      comb_map_add _ w2 base l2, comb_zipWith_add w1 w2 base l1 l2]
    ext <;> simp <;> ring
  have hq : MemHull V (comb (List.zipWith (· + ·) w1 w2) base) := by
    apply memHull_comb
    · simp [l1, l2]
    · intro u hu
      obtain ⟨i, hi, rfl⟩ := List.getElem_of_mem hu
      simp only [List.getElem_zipWith]
      exact add_nonneg (n1 _ (List.getElem_mem _)) (n2 _ (List.getElem_mem _))
    · rw [sum_zipWith_add w1 w2 (l1.trans l2.symm), hsum]
    · intro q hq; exact memHull_of_mem (hb q hq)
  refine ⟨_, hq, ?_⟩
  rw [hcomb]
  have hd : distSq (comb (List.zipWith (· + ·) w1 w2) base + V3.smul (w2.sum - w1.sum) (V3.smul r n))
      (comb (List.zipWith (· + ·) w1 w2) base) =
        ((w2.sum - w1.sum) * r) * ((w2.sum - w1.sum) * r) * V3.normSq n := by
    generalize comb (List.zipWith (· + ·) w1 w2) base = q
    obtain ⟨qx, qy, qz⟩ := q; obtain ⟨nx, ny, nz⟩ := n
    simp only [distSq, V3.normSq, V3.dot, V3.sub_x, V3.sub_y, V3.sub_z, V3.add_x, V3.add_y, V3.add_z,
      V3.smul_x, V3.smul_y, V3.smul_z]
    ring
  rw [hd]
  have hnn : 0 ≤ V3.normSq n := by
    simp only [V3.normSq, V3.dot]
    exact add_nonneg (add_nonneg (mul_self_nonneg _) (mul_self_nonneg _)) (mul_self_nonneg _)
  have hk : ((w2.sum - w1.sum) * r) * ((w2.sum - w1.sum) * r) ≤ r * r := by
    have h1 : (w2.sum - w1.sum) * (w2.sum - w1.sum) ≤ 1 := by nlinarith
    nlinarith [mul_self_nonneg r, mul_nonneg (mul_self_nonneg r) (sub_nonneg.mpr h1)]
  calc ((w2.sum - w1.sum) * r) * ((w2.sum - w1.sum) * r) * V3.normSq n ≤ (r * r) * V3.normSq n :=
        mul_le_mul_of_nonneg_right hk hnn
    _ ≤ r * r * 1 := mul_le_mul_of_nonneg_left hn (mul_self_nonneg r)
    _ = r * r := by ring

/-- a one-vertex "face" extruded along `ẑ` by `r = 1`: the midpoint of the upper half is accepted -/
example : MemSphero [(⟨0,0,0⟩ : V3 ℝ)] 1 ⟨0, 0, 1/2⟩ := by
  apply sphero_prism_sound [⟨0,0,0⟩] 1 ⟨0,0,1⟩ (by simp [V3.normSq, V3.dot]) [⟨0,0,0⟩] (fun v hv => hv)
  refine ⟨[1/4, 3/4], rfl, ⟨?_, ?_⟩, ?_⟩
  · intro w hw
    simp only [List.mem_cons, List.not_mem_nil, or_false] at hw
    simp only [Scalar.lit, Scalar.ofNat_real]
    rcases hw with rfl | rfl <;> norm_num
  · simp only [Scalar.sum_real, Scalar.lit, Scalar.ofNat_real]; norm_num
  · simp only [Sphero.prismVertices, List.map_cons, List.map_nil, List.cons_append, List.nil_append, comb]
    ext <;> norm_num

/-- **C05 (spheropolyhedron, soundness) — partial.**  Every point accepted by `is_inside` is within
`r` of the core, PROVIDED (i) the core test is complete (`hcore`, see
`cp_mem_hull_of_inside_partial`) and (ii) the extruded-prism test is sound (`hprism`; the prisms'
plane equations come from Qhull — see `sphero_prism_sound` for the geometric half).  The cylinder
and cap branches need no hypothesis.  (Completeness — every point within `r` is accepted — is not
proved; it is the oracle's job.) -/
theorem sphero_inside_sound_partial (V : List (V3 ℝ)) (r : ℝ) (eqs : List (Plane ℝ))
    (faces : List (List (V3 ℝ))) (extruded : List (List (Plane ℝ))) (p : V3 ℝ)
    (hfaces : ∀ f ∈ faces, ∀ v ∈ f, v ∈ V)
    (hcore : CP.isInside1 eqs p = true → MemHull V p)
    (hprism : ∀ pr ∈ extruded, CP.isInside1 pr p = true → MemSphero V r p)
    (h : Sphero.isInside1 r eqs faces extruded p = true) : MemSphero V r p := by
  unfold Sphero.isInside1 at h
  rw [Bool.or_eq_true] at h
  rcases h with h | h
  · exact sphero_core_sound V r p (hcore h)
  · rw [List.any_eq_true] at h
    obtain ⟨⟨cand, prism, fp⟩, hmem, hc⟩ := h
    simp only [Bool.and_eq_true] at hc
    have hmem2 := (List.of_mem_zip hmem).2
    have hpr : prism ∈ extruded := (List.of_mem_zip hmem2).1
    have hfp : fp ∈ faces := (List.of_mem_zip hmem2).2
    have hchk := hc.2
    unfold Sphero.checkFace at hchk
    split at hchk
    · rename_i h1; exact hprism prism hpr h1
    · simp only at hchk
      split at hchk
      · rename_i h2
        rw [List.any_eq_true] at h2
        obtain ⟨⟨s, e⟩, hse, hcyl⟩ := h2
        have hs := (List.of_mem_zip hse).1
        have he := mem_roll (List.of_mem_zip hse).2
        exact sphero_cylinder_sound V r p s e (hfaces fp hfp s hs) (hfaces fp hfp e he) hcyl
      · rw [List.any_eq_true] at hchk
        obtain ⟨s, hs, hcap⟩ := hchk
        exact sphero_cap_sound V r p s (hfaces fp hfp s hs) hcap

/-! spheropolyhedron, completeness of the individual branches (the geometric statement "every point
within `r` of the core falls into one of them" is NOT proved; it is the oracle's job) -/

/-- a point of the core (explicit convex weights, Qhull contract) is accepted, whatever `r` -/
theorem sphero_accepts_core (V : List (V3 ℝ)) (r : ℝ) (eqs : List (Plane ℝ)) (faces : List (List (V3 ℝ)))
    (extruded : List (List (Plane ℝ))) (p : V3 ℝ)
    (hq : ∀ e ∈ eqs, ∀ v ∈ V, CP.planeDist e v ≤ 0) (hp : MemHull V p) :
    Sphero.isInside1 r eqs faces extruded p = true := by
  unfold Sphero.isInside1
  rw [cp_inside_of_mem_hull eqs V p hq hp, Bool.true_or]

/-- the three branches of `check_face` -/
theorem sphero_checkFace_of_prism (r : ℝ) (prism : List (Plane ℝ)) (fp : List (V3 ℝ)) (p : V3 ℝ)
    (h : CP.isInside1 prism p = true) : Sphero.checkFace r prism fp p = true := by
  unfold Sphero.checkFace; rw [if_pos h]

theorem sphero_checkFace_of_cylinder (r : ℝ) (prism : List (Plane ℝ)) (fp : List (V3 ℝ)) (p s e : V3 ℝ)
    (hse : (s, e) ∈ fp.zip (roll fp)) (h : Sphero.inCylinder r p s e = true) :
    Sphero.checkFace r prism fp p = true := by
  have hany : ((fp.zip (roll fp)).any fun se => Sphero.inCylinder r p se.1 se.2) = true := by
    rw [List.any_eq_true]; exact ⟨(s, e), hse, h⟩
  unfold Sphero.checkFace
  by_cases h1 : CP.isInside1 prism p = true
  · rw [if_pos h1]
  · rw [if_neg h1]; simp only [hany, if_true]

theorem sphero_checkFace_of_cap (r : ℝ) (prism : List (Plane ℝ)) (fp : List (V3 ℝ)) (p s : V3 ℝ)
    (hs : s ∈ fp) (h : Sphero.inCap r p s = true) : Sphero.checkFace r prism fp p = true := by
  have hany : (fp.any fun s => Sphero.inCap r p s) = true := by
    rw [List.any_eq_true]; exact ⟨s, hs, h⟩
  unfold Sphero.checkFace
  by_cases h1 : CP.isInside1 prism p = true
  · rw [if_pos h1]
  · rw [if_neg h1]
    by_cases h2 : ((fp.zip (roll fp)).any fun se => Sphero.inCylinder r p se.1 se.2) = true
    · simp only [h2, if_true]
    · simp only [h2, hany]; rfl

/-- a candidate face (`0 < dist ≤ r`) whose `check_face` succeeds makes the point accepted -/
theorem sphero_accepts_of_candidate (r : ℝ) (eqs : List (Plane ℝ)) (faces : List (List (V3 ℝ)))
    (extruded : List (List (Plane ℝ))) (p : V3 ℝ) (c : Bool × List (Plane ℝ) × List (V3 ℝ))
    (hc : c ∈ ((CP.planeDists eqs p).map (Sphero.toCheck r)).zip (extruded.zip faces))
    (h1 : c.1 = true) (h2 : Sphero.checkFace r c.2.1 c.2.2 p = true) :
    Sphero.isInside1 r eqs faces extruded p = true := by
  unfold Sphero.isInside1
  rw [Bool.or_eq_true]; right
  rw [List.any_eq_true]
  exact ⟨c, hc, by rw [h1, h2]; rfl⟩

/-! ### spheropolyhedron with an exactly described core: accepted ⇔ within `r` of the core -/

/-- **C05 (spheropolyhedron, soundness — no `hcore` / `hprism`).**  `SpheroExact V r Fs`
(Lemmas/Inside3DSphero3.lean): `0 ≤ r`; the core's planes/vertices and (for `r > 0`) every extruded
prism's planes/vertices are exact facet structures (`ExactFacets`); unit normals; every face lists
exactly the vertices on its plane, and two faces with different planes share at most the two ends of
one edge (a consecutive pair of the face's cyclic order).  Every accepted point is within `r` of the core. -/
theorem sphero_inside_sound {V : List (V3 ℝ)} {r : ℝ} {Fs : List FaceData} (hS : SpheroExact V r Fs)
    (p : V3 ℝ)
    (h : Sphero.isInside1 r (Fs.map (·.plane)) (Fs.map (·.pts)) (Fs.map (·.prism)) p = true) :
    MemSphero V r p := by
  obtain ⟨_, hEx, hF, _⟩ := hS
  rw [isInside1_faces, Bool.or_eq_true] at h
  rcases h with h | h
  · exact sphero_core_sound V r p ((cp_inside_iff_hull_exact hEx p).mp h)
  · rw [List.any_eq_true] at h
    obtain ⟨f, hf, hc⟩ := h
    rw [Bool.and_eq_true] at hc
    obtain ⟨hcand, hchk⟩ := hc
    obtain ⟨hn, hpts, _, hprism⟩ := hF f hf
    have hrpos : 0 < r := by
      unfold Sphero.toCheck at hcand
      simp only [Bool.and_eq_true, decide_eq_true_iff, Bool.not_eq_true', decide_eq_false_iff_not, not_le,
        Scalar.lit, Scalar.ofNat_real, Nat.cast_zero] at hcand
      linarith [hcand.1, hcand.2]
    unfold Sphero.checkFace at hchk
    split at hchk
    · rename_i h1
      have hmem := (cp_inside_iff_hull_exact (hprism hrpos) p).mp h1
      exact sphero_prism_sound V r f.plane.n hn.le f.pts (fun v hv => (hpts v hv).1) p hmem
    · simp only at hchk
      split at hchk
      · rename_i h2
        rw [List.any_eq_true] at h2
        obtain ⟨⟨s, e⟩, hse, hcyl⟩ := h2
        have hs := (List.of_mem_zip hse).1
        have he := mem_roll (List.of_mem_zip hse).2
        exact sphero_cylinder_sound V r p s e (hpts s hs).1 (hpts e he).1 hcyl
      · rw [List.any_eq_true] at hchk
        obtain ⟨s, hs, hcap⟩ := hchk
        exact sphero_cap_sound V r p s (hpts s hs).1 hcap

/-- **C05 (spheropolyhedron, completeness).**  Every point within `r` of the core is accepted (no
nearest-point projection needed: walk from any core point within `r` towards `p`; the exit point lies
on a face that `p` sees; then either the foot of `p` is in that face — prism — or a second walk inside
the face plane ends on one of its edges — cylinder or cap). -/
theorem sphero_inside_complete {V : List (V3 ℝ)} {r : ℝ} {Fs : List FaceData} (hS : SpheroExact V r Fs)
    (p : V3 ℝ) (h : MemSphero V r p) :
    Sphero.isInside1 r (Fs.map (·.plane)) (Fs.map (·.pts)) (Fs.map (·.prism)) p = true :=
  sphero_complete hS p h

/-- **C05 (spheropolyhedron): accepted ⇔ distance to the core at most `r`**, in exact arithmetic with
exact planes, boundary points included. -/
theorem sphero_inside_iff {V : List (V3 ℝ)} {r : ℝ} {Fs : List FaceData} (hS : SpheroExact V r Fs)
    (p : V3 ℝ) :
    Sphero.isInside1 r (Fs.map (·.plane)) (Fs.map (·.pts)) (Fs.map (·.prism)) p = true ↔ MemSphero V r p :=
  ⟨sphero_inside_sound hS p, sphero_inside_complete hS p⟩

def cornerQ : Tet ℚ := ⟨⟨0,0,0⟩, ⟨1/2,0,0⟩, ⟨0,1/3,0⟩, ⟨0,0,1/6⟩⟩
def cornerV : List (V3 ℝ) := [⟨0,0,0⟩, ⟨1/2,0,0⟩, ⟨0,1/3,0⟩, ⟨0,0,1/6⟩]
def cornerFs : List FaceData :=
  [⟨⟨⟨0,0,-1⟩, 0⟩, [], [⟨0,0,0⟩, ⟨0,1/3,0⟩, ⟨1/2,0,0⟩]⟩,
   ⟨⟨⟨0,-1,0⟩, 0⟩, [], [⟨0,0,0⟩, ⟨1/2,0,0⟩, ⟨0,0,1/6⟩]⟩,
   ⟨⟨⟨-1,0,0⟩, 0⟩, [], [⟨0,0,0⟩, ⟨0,0,1/6⟩, ⟨0,1/3,0⟩]⟩,
   ⟨⟨⟨2/7,3/7,6/7⟩, -1/7⟩, [], [⟨1/2,0,0⟩, ⟨0,1/3,0⟩, ⟨0,0,1/6⟩]⟩]

/-- the hypotheses are satisfiable: the corner tetrahedron `(0,0,0), (1/2,0,0), (0,1/3,0), (0,0,1/6)` (its slanted face
has the rational unit normal `(2,3,6)/7`) with rounding radius `0` -/
theorem corner_exactFacets : ExactFacets (cornerFs.map (·.plane)) cornerV := by
  have hcl : CCk.ClosedSurface (cornerQ.bdry.map CCk.triOfRat) := closedCheck_rat_sound' (by decide +kernel)
  have hS : cornerQ.bdry.map CCk.triOfRat =
      [⟨⟨0,0,0⟩, ⟨0,1/3,0⟩, ⟨1/2,0,0⟩⟩, ⟨⟨0,0,0⟩, ⟨1/2,0,0⟩, ⟨0,0,1/6⟩⟩, ⟨⟨1/2,0,0⟩, ⟨0,1/3,0⟩, ⟨0,0,1/6⟩⟩,
        ⟨⟨0,0,0⟩, ⟨0,0,1/6⟩, ⟨0,1/3,0⟩⟩] := by
    simp [cornerQ, Tet.bdry, CCk.triOfRat, CCk.triTo, CCk.v3OfRat]
  rw [hS] at hcl
  refine ⟨?_, ⟨1/8, 1/12, 1/24⟩,
    [(⟨⟨0,0,0⟩, ⟨0,1/3,0⟩, ⟨1/2,0,0⟩⟩, ⟨⟨0,0,-1⟩, 0⟩), (⟨⟨0,0,0⟩, ⟨1/2,0,0⟩, ⟨0,0,1/6⟩⟩, ⟨⟨0,-1,0⟩, 0⟩),
     (⟨⟨1/2,0,0⟩, ⟨0,1/3,0⟩, ⟨0,0,1/6⟩⟩, ⟨⟨2/7,3/7,6/7⟩, -1/7⟩), (⟨⟨0,0,0⟩, ⟨0,0,1/6⟩, ⟨0,1/3,0⟩⟩, ⟨⟨-1,0,0⟩, 0⟩)],
    ?_, by simp, by simpa using hcl, ?_⟩
  · intro e he v hv
    simp only [cornerFs, cornerV, List.map_cons, List.map_nil, List.mem_cons, List.not_mem_nil, or_false] at he hv
    rcases he with rfl | rfl | rfl | rfl <;> rcases hv with rfl | rfl | rfl | rfl <;>
      simp only [CP.planeDist, V3.dot] <;> norm_num
  · refine ⟨[1/4, 1/4, 1/4, 1/4], rfl, ⟨?_, ?_⟩, ?_⟩
    · intro w hw
      simp only [List.mem_cons, List.not_mem_nil, or_false] at hw
      simp only [Scalar.lit, Scalar.ofNat_real]
      rcases hw with rfl | rfl | rfl | rfl <;> norm_num
    · simp only [Scalar.sum_real, Scalar.lit, Scalar.ofNat_real]; norm_num
    · simp only [cornerV, comb]; ext <;> norm_num
  · intro f hf
    simp only [List.mem_cons, List.not_mem_nil, or_false] at hf
    rcases hf with rfl | rfl | rfl | rfl <;>
      refine ⟨by simp [cornerFs], ⟨by simp [cornerV], by simp [cornerV], by simp [cornerV]⟩, ?_, ?_, ?_, ?_, ?_⟩ <;>
      simp only [orient, CP.planeDist, V3.dot, V3.det3, V3.cross, V3.sub_x, V3.sub_y, V3.sub_z] <;> norm_num

theorem corner_spheroExact : SpheroExact cornerV 0 cornerFs := by
  refine ⟨le_refl _, corner_exactFacets, ?_, ?_⟩
  · intro f hf
    simp only [cornerFs, List.mem_cons, List.not_mem_nil, or_false] at hf
    rcases hf with rfl | rfl | rfl | rfl <;>
    refine ⟨by simp only [V3.normSq, V3.dot]; norm_num, ?_, ?_, fun h => absurd h (lt_irrefl _)⟩
    all_goals
      first
      | (intro v hv
         simp only [List.mem_cons, List.not_mem_nil, or_false] at hv
         rcases hv with rfl | rfl | rfl <;>
           exact ⟨by simp [cornerV], by simp only [CP.planeDist, V3.dot]; norm_num⟩)
      | (intro v hv h0
         simp only [cornerV, List.mem_cons, List.not_mem_nil, or_false] at hv
         rcases hv with rfl | rfl | rfl | rfl <;>
           first
           | (exfalso; revert h0; norm_num [CP.planeDist, V3.dot]; done)
           | simp)
  · intro f hf g hg hne
    simp only [cornerFs, List.mem_cons, List.not_mem_nil, or_false] at hf hg
    rcases hf with rfl | rfl | rfl | rfl <;> rcases hg with rfl | rfl | rfl | rfl
    all_goals
      first
      | exact absurd rfl hne
      | (refine ⟨(_, _), List.mem_cons_self, ?_⟩
         intro v hv h1 h2
         simp only [cornerV, List.mem_cons, List.not_mem_nil, or_false] at hv
         rcases hv with rfl | rfl | rfl | rfl <;>
           first
           | (left; rfl) | (right; rfl)
           | (exfalso; revert h1 h2; norm_num [CP.planeDist, V3.dot]; done))
      | (refine ⟨(_, _), List.mem_cons_of_mem _ List.mem_cons_self, ?_⟩
         intro v hv h1 h2
         simp only [cornerV, List.mem_cons, List.not_mem_nil, or_false] at hv
         rcases hv with rfl | rfl | rfl | rfl <;>
           first
           | (left; rfl) | (right; rfl)
           | (exfalso; revert h1 h2; norm_num [CP.planeDist, V3.dot]; done))
      | (refine ⟨(_, _), List.mem_cons_of_mem _ (List.mem_cons_of_mem _ List.mem_cons_self), ?_⟩
         intro v hv h1 h2
         simp only [cornerV, List.mem_cons, List.not_mem_nil, or_false] at hv
         rcases hv with rfl | rfl | rfl | rfl <;>
           first
           | (left; rfl) | (right; rfl)
           | (exfalso; revert h1 h2; norm_num [CP.planeDist, V3.dot]; done))

example (p : V3 ℝ) :
    Sphero.isInside1 0 (cornerFs.map (·.plane)) (cornerFs.map (·.pts)) (cornerFs.map (·.prism)) p = true ↔
      MemSphero cornerV 0 p :=
  sphero_inside_iff corner_spheroExact p

/-! ### the structural hypotheses are decidable: checkers evaluated exactly over ℚ by the driver -/

/-- **Soundness of `exactFacetsCheck`** (Spec/Inside3DCheck.lean; driver op `spec.in3.exactfacets`) -/
theorem exactFacetsCheck_sound (V : List (V3 ℚ)) (eqs : List (V3 ℚ × ℚ)) (ws : List ℚ)
    (F : List (Tri ℚ × V3 ℚ × ℚ)) (h : exactFacetsCheck V eqs ws F = true) :
    ExactFacets (eqs.map planeR) (V.map CCk.v3OfRat) :=
  exactFacetsCheck_rat_sound V eqs ws F h

/-- **Soundness of `spheroExactCheck`** (driver op `spec.in3.spheroexact`) -/
theorem spheroExactCheck_sound (V : List (V3 ℚ)) (r : ℚ) (Fs : List (FaceC ℚ)) (ws : List ℚ)
    (F : List (Tri ℚ × V3 ℚ × ℚ)) (h : spheroExactCheck V r Fs ws F = true) :
    SpheroExact (V.map CCk.v3OfRat) (r : ℝ) (Fs.map faceR) :=
  spheroExactCheck_rat_sound V r Fs ws F h

/-- per-run form of `cp_inside_iff_hull`: for EVERY real point -/
theorem cp_inside_iff_hull_checked (V : List (V3 ℚ)) (eqs : List (V3 ℚ × ℚ)) (ws : List ℚ)
    (F : List (Tri ℚ × V3 ℚ × ℚ)) (h : exactFacetsCheck V eqs ws F = true) (p : V3 ℝ) :
    CP.isInside1 (eqs.map planeR) p = true ↔ MemHull (V.map CCk.v3OfRat) p :=
  cp_inside_iff_hull (exactFacetsCheck_sound V eqs ws F h) p

/-- **per-run form of `sphero_inside_iff`**: when the driver's exact evaluation of `spheroExactCheck`
on the run's data answers `true`, the model accepts a real point iff its distance to the core is at
most `r` — for EVERY real point, boundary included. -/
theorem sphero_inside_iff_checked (V : List (V3 ℚ)) (r : ℚ) (Fs : List (FaceC ℚ)) (ws : List ℚ)
    (F : List (Tri ℚ × V3 ℚ × ℚ)) (h : spheroExactCheck V r Fs ws F = true) (p : V3 ℝ) :
    Sphero.isInside1 (r : ℝ) ((Fs.map faceR).map (·.plane)) ((Fs.map faceR).map (·.pts))
        ((Fs.map faceR).map (·.prism)) p = true ↔ MemSphero (V.map CCk.v3OfRat) (r : ℝ) p :=
  sphero_inside_iff (spheroExactCheck_sound V r Fs ws F h) p

/-- **a kernel-checked instance with `r > 0`: the unit cube rounded by `1/2`.**  All hypotheses of
`sphero_inside_iff` hold (the six extruded prisms are boxes again; `decide +kernel` on the checker). -/
theorem cube_spheroExact :
    SpheroExact ((boxV cube0 cube1).map CCk.v3OfRat) (((1/2 : ℚ)) : ℝ) ((boxFaces cube0 cube1 (1/2)).map faceR) :=
  spheroExactCheck_sound _ _ _ _ _ cube_sphero_check

example (p : V3 ℝ) :
    Sphero.isInside1 (((1/2 : ℚ)) : ℝ) (((boxFaces cube0 cube1 (1/2)).map faceR).map (·.plane))
        (((boxFaces cube0 cube1 (1/2)).map faceR).map (·.pts))
        (((boxFaces cube0 cube1 (1/2)).map faceR).map (·.prism)) p = true ↔
      MemSphero ((boxV cube0 cube1).map CCk.v3OfRat) (((1/2 : ℚ)) : ℝ) p :=
  sphero_inside_iff cube_spheroExact p

example : ExactFacets ((boxPlanes cube0 cube1).map planeR) ((boxV cube0 cube1).map CCk.v3OfRat) :=
  exactFacetsCheck_sound _ _ _ _ cube_exact

/-! ### soundness of the oracle's certificates -/

/-- **separating plane certificate.** If the driver's exact values satisfy `max_v (n·v+d) ≤ 0 < n·p+d`
then `p` is not a convex combination of `V`. -/
theorem plane_cert_sound (n : V3 ℝ) (d : ℝ) (V : List (V3 ℝ)) (p : V3 ℝ)
    (h1 : (planeCert n d V p).1 ≤ 0) (h2 : 0 < (planeCert n d V p).2) : ¬ MemHull V p := by
  have hq : ∀ e ∈ [(⟨n, d⟩ : Plane ℝ)], ∀ v ∈ V, CP.planeDist e v ≤ 0 := by
    intro e he v hv
    simp only [List.mem_singleton] at he
    subst he
    refine le_trans (maxOf_ge _ _ ?_) h1
    exact List.mem_map.mpr ⟨v, hv, rfl⟩
  apply cp_outside_of_rejected [⟨n, d⟩] V p hq
  simp only [CP.isInside1, CP.planeDists, List.map_cons, List.map_nil, List.all_cons, List.all_nil,
    Bool.and_true, decide_eq_false_iff_not, not_le, Scalar.lit, Scalar.ofNat_real, Nat.cast_zero]
  exact h2

/-- **far certificate (variational inequality of the projection).** If `(p − q)·(v − q) ≤ ε` for every
vertex then every point `x` of the hull has `|p − x|² ≥ |p − q|² − 2ε`; in particular
`|p − q|² − 2ε > r²` certifies that `p` is NOT within `r` of the core. -/
theorem far_cert_sound (q : V3 ℝ) (V : List (V3 ℝ)) (p : V3 ℝ) (r ε : ℝ)
    (h1 : (farCert q V p).1 ≤ ε) (h2 : r * r < (farCert q V p).2 - 2 * ε) : ¬ MemSphero V r p := by
  rintro ⟨x, ⟨ws, hlen, ⟨hw, hs⟩, rfl⟩, hx⟩
  simp only [Scalar.lit, Scalar.ofNat_real, Scalar.sum_real, Nat.cast_zero, Nat.cast_one] at hw hs
  simp only [farCert] at h1 h2
  have hv : ∀ v ∈ V, V3.dot (p - q) (v - q) ≤ ε := by
    intro v hv
    refine le_trans (maxOf_ge _ _ ?_) h1
    exact List.mem_map.mpr ⟨v, hv, rfl⟩
  have hsum := sum_zipWith_le (fun v => V3.dot (p - q) (v - q)) ε ws V hlen hw hv
  have hdot := dot_comb_sub (p - q) q ws V hlen
  rw [hs] at hsum hdot
  -- |p − x|² = |p − q|² − 2 (p−q)·(x−q) + |x−q|²
  have hexp : distSq p (comb ws V) = distSq p q - 2 * V3.dot (p - q) (comb ws V - q)
      + V3.normSq (comb ws V - q) := by
    generalize comb ws V = x
    obtain ⟨px, py, pz⟩ := p; obtain ⟨qx, qy, qz⟩ := q; obtain ⟨xx, xy, xz⟩ := x
    simp only [distSq, V3.normSq, V3.dot, V3.sub_x, V3.sub_y, V3.sub_z]; ring
  have hnn : 0 ≤ V3.normSq (comb ws V - q) := by
    simp only [V3.normSq, V3.dot]
    exact add_nonneg (add_nonneg (mul_self_nonneg _) (mul_self_nonneg _)) (mul_self_nonneg _)
  nlinarith [hexp, hnn, hsum, hdot, hx, h2]

/-- the certificates on the unit cube: the plane `x = 1` separates `(3/2, 1/4, 1/4)`; the projection
`q = (1, 1/4, 1/4)` of `p = (3, 1/4, 1/4)` satisfies the variational inequality with `ε = 0`, so `p` is
not within `r = 1` of the cube -/
example : ¬ MemHull cubeV ⟨3/2, 1/4, 1/4⟩ := by
  apply plane_cert_sound ⟨1, 0, 0⟩ (-1) <;>
    norm_num [planeCert, maxOf, Scalar.max, cubeV, V3.dot]

example : ¬ MemSphero cubeV 1 ⟨3, 1/4, 1/4⟩ := by
  apply far_cert_sound ⟨1, 1/4, 1/4⟩ cubeV _ 1 0 <;>
    norm_num [farCert, maxOf, Scalar.max, cubeV, V3.dot, distSq, V3.normSq]

/-! ### winding number of the generic `Polyhedron` -/

/-- the per-triangle term is invariant under cyclic rotation of the triangle -/
theorem winding_contribution_rot (p : V3 ℝ) (t : Tri ℝ) :
    Poly.contribution p t.rot = Poly.contribution p t := by
  rw [contribution_eq, contribution_eq]; simp only [Tri.rot]; exact contribD_rot _ _ _

/-- the per-triangle term is odd under reversal of the triangle -/
theorem winding_contribution_rev (p : V3 ℝ) (t : Tri ℝ) :
    Poly.contribution p t.rev = -Poly.contribution p t := by
  rw [contribution_eq, contribution_eq]; simp only [Tri.rev]; exact contribD_rev _ _ _

/-- the winding sum depends only on the surface as a 2-chain: permuting, rotating triangles,
cancelling opposite pairs, re-triangulating a face leave it (and the verdict) unchanged -/
theorem winding_chain_invariant {S S' : List (Tri ℝ)} (h : ChainEq S S') (p : V3 ℝ) :
    Poly.windingSum S p = Poly.windingSum S' p := by
  have := h (windPhi p) (windPhi_oddCyclic p)
  rw [← windingSum_eq_sumOver, ← windingSum_eq_sumOver] at this
  exact_mod_cast this

theorem poly_inside_chain_invariant {S S' : List (Tri ℝ)} (h : ChainEq S S') (p : V3 ℝ) :
    Poly.isInside1 S p = Poly.isInside1 S' p := by
  unfold Poly.isInside1 Poly.windingNumber; rw [winding_chain_invariant h p]

example (t : Tri ℝ) (S : List (Tri ℝ)) (p : V3 ℝ) :
    Poly.windingSum (t.rot :: S) p = Poly.windingSum (t :: S) p ∧
    Poly.windingSum (t :: t.rev :: S) p = Poly.windingSum S p :=
  ⟨winding_chain_invariant (ChainEq.rot t S) p, winding_chain_invariant (ChainEq.cancel t S) p⟩

/-- **additivity over tetrahedralisations**: if the surface is the boundary chain of the
tetrahedra `Ts`, the winding sum is the sum of the winding sums of the single tetrahedra -/
theorem winding_additive {S : List (Tri ℝ)} {Ts : List (Tet ℝ)}
    (h : ChainEq S (Ts.flatMap Tet.bdry)) (p : V3 ℝ) :
    Poly.windingSum S p = (Ts.map fun T => Poly.windingSum T.bdry p).sum :=
  windingSum_additive h p

/-- **C05 (generic polyhedron): the single-tetrahedron winding lemma.**  For ANY tetrahedron `T`
(either orientation, degenerate or not) and ANY point `p` on none of its four face planes — `p` may
share `x`, `y` or `z` coordinates with vertices, lie on the vertical line of a vertex or an edge, … —
the model's winding sum over the four faces is `2·sgn(orient T)` if `p ∈ T` and `0` otherwise.
Proof: the lexicographic tie-breaking of the code is the shear `(x + εy + ε²z/2, y + εz, z)` for all
small `ε > 0` (`Lemmas/Inside3DShear.lean`); in generic position the four barycentric identities
exclude all sign patterns on which the count is wrong (`Lemmas/Inside3DTet.lean`, 1024 patterns
evaluated by the kernel). -/
theorem poly_tet_winding (T : Tet ℝ) (p : V3 ℝ) (hoff : ∀ x ∈ bary T p, x ≠ 0) :
    Poly.windingSum T.bdry p =
      2 * (if inTet T p = true then sgn (orient T.a T.b T.c T.d) else 0) :=
  tet_winding T p hoff

/-- the lemma extended to a point IN THE PLANE of the face opposite to `T.a` (but not on that closed
triangle): the situation of a cone tetrahedron over a surface triangle and a query point coplanar
with it, e.g. a lattice point of a voxel solid -/
theorem poly_tet_winding_coplanar (T : Tet ℝ) (p : V3 ℝ)
    (h1 : orient T.a p T.c T.d ≠ 0) (h2 : orient T.a T.b p T.d ≠ 0) (h3 : orient T.a T.b T.c p ≠ 0)
    (h0 : orient p T.b T.c T.d ≠ 0 ∨ inTet T p = false) :
    Poly.windingSum T.bdry p =
      2 * (if inTet T p = true then sgn (orient T.a T.b T.c T.d) else 0) :=
  tet_winding' T p h1 h2 h3 h0

/-- **the winding sum is twice the signed number of tetrahedra containing the point**, for every
surface that is the boundary chain of the tetrahedra `Ts` (any orientations) and every point that,
for each `T ∈ Ts`, is off the three face planes through `T.a` and not on the closed face opposite to
`T.a` (`offCone`, an exact test; implied by `offPlanes` = off all four face planes) -/
theorem poly_winding_eq_signed_count {S : List (Tri ℝ)} {Ts : List (Tet ℝ)}
    (h : ChainEq S (Ts.flatMap Tet.bdry)) (p : V3 ℝ) (hoff : offCone Ts p = true) :
    Poly.windingSum S p = 2 * signedCount Ts p :=
  windingSum_eq_signedCount' h p hoff

/-- **C05 (generic polyhedron).**  For EVERY closed surface that bounds a tetrahedralised solid —
convex or not, any genus, any number of components — and every point off the face planes of the
tetrahedra, the winding test accepts exactly the points of the solid. -/
theorem poly_inside_iff {S : List (Tri ℝ)} {Ts : List (Tet ℝ)}
    (h : ChainEq S (Ts.flatMap Tet.bdry)) (hor : ∀ T ∈ Ts, 0 ≤ orient T.a T.b T.c T.d)
    (p : V3 ℝ) (hoff : offCone Ts p = true) :
    Poly.isInside1 S p = true ↔ inTets Ts p = true := by
  rw [isInside1_iff_signedCount' h p hoff, signedCount_eq_count Ts p hor, countTets_ne_zero_iff]

/-- per-run form: `chainCheck`, the orientation test and `offCone` are what the driver op
`spec.in3.tetcount` evaluates exactly over ℚ on the run's surface triangles (the implementation's own
polytri output), tetrahedra and query points -/
theorem poly_inside_iff_checked {S : List (Tri ℚ)} {Ts : List (Tet ℚ)}
    (h : ChainCheck.chainCheck S (Ts.flatMap Tet.bdry) = true)
    (hor : (Ts.all fun T => decide (lit 0 ≤ orient T.a T.b T.c T.d)) = true)
    (p : V3 ℚ) (hoff : offCone Ts p = true) :
    Poly.isInside1 (S.map CCk.triOfRat) (CCk.v3OfRat p) = true ↔ inTets Ts p = true := by
  rw [← inTets_ofRat]
  apply poly_inside_iff (chainCheck_tets_rat_sound' h)
  · intro T' hT'
    obtain ⟨T, hT, rfl⟩ := List.mem_map.mp hT'
    have := List.all_eq_true.mp hor T hT
    rw [decide_eq_true_iff, lit0_rat] at this
    have e : orient (CCk.tetOfRat T).a (CCk.tetOfRat T).b (CCk.tetOfRat T).c (CCk.tetOfRat T).d =
        ((orient T.a T.b T.c T.d : ℚ) : ℝ) := orient_ofRat _ _ _ _
    rw [e]; exact_mod_cast this
  · rw [offCone_ofRat]; exact hoff

/-- **C05 (generic polyhedron, any closed surface): the code computes the signed ray-crossing
number.**  `S` any closed oriented triangulated surface (`ClosedSurface`: directed edges cancel in
pairs — no tetrahedralisation needed), `o` any apex, `p` not on a triangle of `S` and off the side
planes of the cone from `o` (`offCone`; `p` may be coplanar with triangles of `S` and share any
coordinates with vertices): the winding test accepts `p` iff the signed number of triangles crossed
by the ray from `p` pointing away from `o` is non-zero. -/
theorem poly_inside_iff_ray {S : List (Tri ℝ)} (hcl : CCk.ClosedSurface S) (o p : V3 ℝ)
    (hoff : offCone (coneTets o S) p = true) :
    Poly.isInside1 S p = true ↔ rayWinding o S p ≠ 0 :=
  isInside1_iff_signedCount' (cone_closed' hcl o) p hoff

theorem poly_winding_eq_ray {S : List (Tri ℝ)} (hcl : CCk.ClosedSurface S) (o p : V3 ℝ)
    (hoff : offCone (coneTets o S) p = true) :
    Poly.windingSum S p = 2 * rayWinding o S p :=
  windingSum_eq_signedCount' (cone_closed' hcl o) p hoff

/-- **the signed ray-crossing number of a closed surface is well defined**: it does not depend on
the apex (i.e. on the ray), as long as apex and point are in general position -/
theorem rayWinding_apex_indep {S : List (Tri ℝ)} (hcl : CCk.ClosedSurface S) (o o' p : V3 ℝ)
    (hoff : offCone (coneTets o S) p = true) (hoff' : offCone (coneTets o' S) p = true) :
    rayWinding o S p = rayWinding o' S p := by
  have h1 := poly_winding_eq_ray hcl o p hoff
  have h2 := poly_winding_eq_ray hcl o' p hoff'
  omega

/-- **apex-free form.**  For every closed surface and every point on none of its triangle planes a
generic apex EXISTS, all generic apexes give the same signed crossing number `w` (the winding number
of `S` about `p`), and the code accepts `p` iff `w ≠ 0`. -/
theorem poly_inside_iff_winding {S : List (Tri ℝ)} (hcl : CCk.ClosedSurface S) (p : V3 ℝ)
    (hp : ∀ t ∈ S, orient p t.a t.b t.c ≠ 0) :
    ∃ w : Int, (∃ o, offCone (coneTets o S) p = true) ∧
      (∀ o, offCone (coneTets o S) p = true → rayWinding o S p = w) ∧
      (Poly.isInside1 S p = true ↔ w ≠ 0) := by
  obtain ⟨ε0, h0, hk⟩ := generic_apex S p hp ⟨1, 0, 0⟩ ⟨0, 1, 0⟩ ⟨0, 0, 1⟩ ⟨0, 0, 0⟩
    (Or.inl (by unfold V3.det3 V3.dot V3.cross; norm_num))
  have hoff0 := offCone_of_offPlanes (hk ε0 h0 le_rfl)
  set o0 := p - curve ⟨1, 0, 0⟩ ⟨0, 1, 0⟩ ⟨0, 0, 1⟩ ⟨0, 0, 0⟩ ε0
  refine ⟨rayWinding o0 S p, ⟨o0, hoff0⟩, ?_, poly_inside_iff_ray hcl o0 p hoff0⟩
  intro o ho
  exact rayWinding_apex_indep hcl o o0 p ho hoff0

/-- per-run form: `closedCheck`, `offCone` and `rayWinding` are what the driver op `spec.in3.ray`
evaluates exactly over ℚ on the implementation's own polytri triangles -/
theorem poly_inside_iff_ray_checked {S : List (Tri ℚ)} (hcl : ChainCheck.closedCheck S = true)
    (o p : V3 ℚ) (hoff : offCone (coneTets o S) p = true) :
    Poly.isInside1 (S.map CCk.triOfRat) (CCk.v3OfRat p) = true ↔ rayWinding o S p ≠ 0 := by
  have h := poly_inside_iff_ray (closedCheck_rat_sound' hcl) (CCk.v3OfRat o) (CCk.v3OfRat p)
    (by rw [coneTets_ofRat, offCone_ofRat]; exact hoff)
  rw [h]
  unfold rayWinding
  rw [coneTets_ofRat, signedCount_ofRat]

/-- correctness relative to the single-tetrahedron lemma given as a hypothesis (superseded by
`poly_inside_iff`; kept because it does not need the points to be off the face planes when `hT` is
known otherwise) -/
theorem poly_inside_iff_of_tet_lemma {S : List (Tri ℝ)} {Ts : List (Tet ℝ)}
    (h : ChainEq S (Ts.flatMap Tet.bdry)) (p : V3 ℝ)
    (hT : ∀ T ∈ Ts, Poly.windingSum T.bdry p = 2 * (if inTet T p = true then 1 else 0)) :
    Poly.isInside1 S p = true ↔ inTets Ts p = true := by
  have hsum : Poly.windingSum S p = 2 * (countTets Ts p : Int) := by
    rw [winding_additive h p, ← sum_ite_count]
    congr 1
    exact List.map_congr_left hT
  unfold Poly.isInside1 Poly.windingNumber
  rw [hsum, fdiv_two_mul]
  simp only [bne_iff_ne]
  exact countTets_ne_zero_iff Ts p

/-- **geometric meaning of the per-triangle term (generic position).**  If no vertex of the
triangle shares its `x` coordinate with `p` and the projection of no edge passes through `p`,
the term is the orientation sign of the triangle seen from `p` when the vertical line through `p`
pierces the triangle, and `0` otherwise: the code computes (half) the degree of the radial
projection along `±z`. -/
theorem winding_contribution_generic (p : V3 ℝ) (t : Tri ℝ)
    (hxa : t.a.x ≠ p.x) (hxb : t.b.x ≠ p.x) (hxc : t.c.x ≠ p.x)
    (hab : cross2 p t.a t.b ≠ 0) (hbc : cross2 p t.b t.c ≠ 0) (hca : cross2 p t.c t.a ≠ 0) :
    Poly.contribution p t = if pierces p t = true then sgn (seenFrom p t) else 0 := by
  rw [contribution_eq, contribD_generic (t.a - p) (t.b - p) (t.c - p)
    (by simpa [sub_ne_zero] using hxa) (by simpa [sub_ne_zero] using hxb) (by simpa [sub_ne_zero] using hxc)
    hab hbc hca]
  simp only [pierces, seenFrom, Bool.or_eq_true, Bool.and_eq_true, decide_eq_true_iff, Scalar.lit,
    Scalar.ofNat_real, Nat.cast_zero, and_assoc]
  rfl

/-- the hypotheses are satisfiable: a triangle above the point, pierced by its vertical line -/
example : Poly.contribution (⟨1/4, 1/4, 0⟩ : V3 ℝ) ⟨⟨1, 0, 1⟩, ⟨0, 1, 1⟩, ⟨-1, -1, 1⟩⟩ = 1 := by
  rw [winding_contribution_generic] <;>
    norm_num [pierces, seenFrom, cross2, sgn, V3.det3, V3.dot, V3.cross, Scalar.lit]

/-! concrete evaluations of the model (single-tetrahedron lemma on instances, including query points
that share coordinates with vertices, where the lexicographic tie-breaking is exercised) -/

def tetU : Tet ℝ := ⟨⟨0,0,0⟩, ⟨2,0,0⟩, ⟨1,2,0⟩, ⟨1,1,2⟩⟩

macro "eval_winding" : tactic => `(tactic|
  (simp only [Poly.windingSum, tetT, tetU, Tet.bdry, List.map_cons, List.map_nil, List.sum_cons, List.sum_nil,
    Poly.contribution, Poly.vertexSign, Poly.computeCross, Poly.edgeSign, V3.sub_x, V3.sub_y, V3.sub_z]
   norm_num [sgn, Poly.signOr, Poly.mask, Scalar.lit]))

example : Poly.windingSum tetT.bdry ⟨1/4, 1/4, 1/4⟩ = 2 := by eval_winding
example : Poly.windingSum tetT.bdry ⟨1, 1, 1⟩ = 0 := by eval_winding          -- x, y, z shared with vertices
example : Poly.windingSum tetT.bdry ⟨1, 1/2, 1/2⟩ = 0 := by eval_winding
example : Poly.windingSum tetU.bdry ⟨1, 1, 1/2⟩ = 2 := by eval_winding        -- inside, x shared with two vertices, y with one
example : Poly.windingSum tetU.bdry ⟨1, 1, 3⟩ = 0 := by eval_winding          -- above the apex, on its vertical line
example : Poly.windingSum tetU.bdry ⟨1, 3, 1⟩ = 0 := by eval_winding
example : Poly.windingSum tetU.bdry ⟨1, 1, -1⟩ = 0 := by eval_winding         -- below, on the apex's vertical line

/-- the hypotheses of `poly_tet_winding` / `poly_inside_iff` are satisfiable on a point in
NON-generic position: `(1, 1, 1/2)` shares `x` with two vertices of `tetU` and `x`, `y` with its apex -/
example : Poly.isInside1 tetU.bdry ⟨1, 1, 1/2⟩ = true ↔ inTets [tetU] ⟨1, 1, 1/2⟩ = true := by
  apply poly_inside_iff (Ts := [tetU]) (by simpa using ChainEq.refl _)
  · intro T hT
    simp only [List.mem_singleton] at hT
    subst hT
    simp only [tetU, orient]; unfold_model; norm_num
  · apply offCone_of_offPlanes
    rw [offPlanes_iff]
    intro T hT x hx
    simp only [List.mem_singleton] at hT
    subst hT
    simp only [bary, tetU, orient, List.mem_cons, List.not_mem_nil, or_false] at hx
    rcases hx with rfl | rfl | rfl | rfl <;> unfold_model <;> norm_num

/-- the per-run forms on exact data: the surface of the unit tetrahedron, apex and query point with
rational coordinates; every hypothesis is evaluated by the kernel -/
def tetSq : List (Tri ℚ) := (⟨⟨0,0,0⟩, ⟨1,0,0⟩, ⟨0,1,0⟩, ⟨0,0,1⟩⟩ : Tet ℚ).bdry

example : Poly.isInside1 (tetSq.map CCk.triOfRat) (CCk.v3OfRat ⟨1/4, 1/5, 1/3⟩) = true :=
  (poly_inside_iff_ray_checked (S := tetSq) (by decide +kernel) ⟨1/7, 1/3, 1/5⟩ ⟨1/4, 1/5, 1/3⟩
    (by decide +kernel)).mpr (by decide +kernel)

example : Poly.isInside1 (tetSq.map CCk.triOfRat) (CCk.v3OfRat ⟨1, 1, 1⟩) = false := by
  rw [Bool.eq_false_iff]
  exact fun h => (poly_inside_iff_ray_checked (S := tetSq) (by decide +kernel) ⟨1/7, 1/3, 1/5⟩ ⟨1, 1, 1⟩
    (by decide +kernel)).mp h (by decide +kernel)

/-- a query point COPLANAR with a face (`z = 0`) and sharing `x`, `y` with vertices: outside -/
example : Poly.isInside1 (tetSq.map CCk.triOfRat) (CCk.v3OfRat ⟨1, 1, 0⟩) = false := by
  rw [Bool.eq_false_iff]
  exact fun h => (poly_inside_iff_ray_checked (S := tetSq) (by decide +kernel) ⟨1/7, 1/3, 1/5⟩ ⟨1, 1, 0⟩
    (by decide +kernel)).mp h (by decide +kernel)

/-! ### batch calls = map of single-point calls (on the models of the vectorised code) -/

theorem cp_batch_eq_map_single (eqs : List (Plane ℝ)) (pts : List (V3 ℝ)) :
    CP.isInside eqs pts = pts.map (CP.isInside1 eqs) := by
  unfold CP.isInside CP.isInside1
  simp only [List.map_map]; rfl

/-- **C05 (batches).** The `(T, N)` array summed along axis 0 gives, entry by entry and in input
order, what the single-point computation gives. -/
theorem poly_batch_eq_map_single (S : List (Tri ℝ)) (pts : List (V3 ℝ)) :
    Poly.isInside S pts = pts.map (Poly.isInside1 S) := by
  unfold Poly.isInside
  simp only
  rw [columnSums_eq (fun (t : Tri ℝ) p => Poly.contribution p t), List.map_map]
  rfl

theorem sphere_batch_eq_map_single (r : ℝ) (c : V3 ℝ) (pts : List (V3 ℝ)) :
    Sphere.isInside r c pts = pts.map (Sphere.isInside1 r c) := rfl

theorem ellipsoid_batch_eq_map_single (a b c : ℝ) (cen : V3 ℝ) (pts : List (V3 ℝ)) :
    Ellipsoid.isInside a b c cen pts = pts.map (Ellipsoid.isInside1 a b c cen) := rfl

/-- the two batch-level early exits and the sequential `(point, face)` loop of the
spheropolyhedron do not change any entry: when the prism construction does not raise, the batch
result is the map of the single-point predicate -/
example : Poly.isInside tetT.bdry [⟨1/4, 1/4, 1/4⟩, ⟨1, 1, 1⟩] =
    [Poly.isInside1 tetT.bdry ⟨1/4, 1/4, 1/4⟩, Poly.isInside1 tetT.bdry ⟨1, 1, 1⟩] :=
  poly_batch_eq_map_single _ _

theorem sphero_batch_eq_map_single (r : ℝ) (eqs : List (Plane ℝ)) (faces : List (List (V3 ℝ)))
    (extruded : List (List (Plane ℝ))) (pts : List (V3 ℝ)) :
    Sphero.isInside r eqs faces (.ok extruded) pts =
      .ok (pts.map (Sphero.isInside1 r eqs faces extruded)) := by
  have hloop : ∀ p, Sphero.isInside1 r eqs faces extruded p =
      (CP.isInside1 eqs p ||
        Sphero.spheroLoop r p (((CP.planeDists eqs p).map (Sphero.toCheck r)).zip (extruded.zip faces)) false) := by
    intro p; unfold Sphero.isInside1; rw [spheroLoop_eq]; simp
  unfold Sphero.isInside
  simp only [List.map_map]
  split_ifs with h1 h2
  · -- all points inside the core
    congr 1
    apply List.map_congr_left
    intro p hp
    rw [List.all_eq_true] at h1
    have := h1 _ (List.mem_map.mpr ⟨p, hp, rfl⟩)
    simp only [id, Function.comp] at this
    simp only [Function.comp_apply, Sphero.isInside1, CP.isInside1, this, Bool.true_or]
  · -- nothing to check
    congr 1
    apply List.map_congr_left
    intro p hp
    have hnone : ((CP.planeDists eqs p).map (Sphero.toCheck r)).any id = false := by
      simp only [Bool.not_eq_true', List.any_eq_false] at h2
      have := h2 _ (List.mem_map.mpr ⟨p, hp, rfl⟩)
      simpa [Function.comp] using this
    have hno : (((CP.planeDists eqs p).map (Sphero.toCheck r)).zip (extruded.zip faces)).any
        (fun c => c.1 && Sphero.checkFace r c.2.1 c.2.2 p) = false := by
      rw [List.any_eq_false]
      intro c hc
      have hc1 := (List.of_mem_zip hc).1
      rw [List.any_eq_false] at hnone
      have := hnone c.1 hc1
      simp only [id] at this
      simp [this]
    simp only [Function.comp_apply, Sphero.isInside1, CP.isInside1, hno, Bool.or_false]
  · -- general case
    simp only [bind, Except.bind, pure, Except.pure]
    congr 1
    have e1 : (List.map ((fun row => row.all fun d => decide (d ≤ lit 0)) ∘ CP.planeDists eqs) pts) =
      pts.map (CP.isInside1 eqs) := rfl
    have e2 : (List.map ((fun row => List.map (Sphero.toCheck r) row) ∘ CP.planeDists eqs) pts) =
      pts.map (fun p => (CP.planeDists eqs p).map (Sphero.toCheck r)) := rfl
    rw [e1, e2, zip_map_right, List.map_map, zipWith_or_map]
    apply List.map_congr_left
    intro p _
    rw [hloop p]; rfl

/-! ### argument conversion (`np.atleast_2d`) and the vertex-index round trip of `Polyhedron.is_inside` -/

/-- a `(3,)` argument gives a one-element result holding the single-point verdict; an `(N, 3)`
argument gives the verdicts in input order -/
theorem cp_arg_eq (eqs : List (Plane ℝ)) (pts : Points ℝ) :
    CP.isInsideArg eqs pts = (atleast2d pts).map (CP.isInside1 eqs) :=
  cp_batch_eq_map_single eqs _

theorem sphere_arg_eq (r : ℝ) (c : V3 ℝ) (pts : Points ℝ) :
    Sphere.isInsideArg r c pts = (atleast2d pts).map (Sphere.isInside1 r c) := rfl

theorem ellipsoid_arg_eq (a b c : ℝ) (cen : V3 ℝ) (pts : Points ℝ) :
    Ellipsoid.isInsideArg a b c cen pts = (atleast2d pts).map (Ellipsoid.isInside1 a b c cen) := rfl

theorem sphero_arg_eq (r : ℝ) (eqs : List (Plane ℝ)) (faces : List (List (V3 ℝ)))
    (extruded : List (List (Plane ℝ))) (pts : Points ℝ) :
    Sphero.isInsideArg r eqs faces (.ok extruded) pts =
      .ok ((atleast2d pts).map (Sphero.isInside1 r eqs faces extruded)) :=
  sphero_batch_eq_map_single r eqs faces extruded _

example (eqs : List (Plane ℝ)) (p : V3 ℝ) : CP.isInsideArg eqs (.row p) = [CP.isInside1 eqs p] :=
  cp_arg_eq eqs (.row p)

/-- **C05 (Polyhedron glue).**  Mapping the polytri triangles to vertex indices and back to rows of
`self.vertices` changes nothing when every triangle vertex is one of the vertices (duplicate rows
included: the last index wins and holds the same coordinates); the full call is the map of the
single-point verdict over `np.atleast_2d(points)`. -/
theorem poly_arg_eq (V : List (V3 ℝ)) (S : List (Tri ℝ)) (pts : Points ℝ)
    (hmem : ∀ t ∈ S, t.a ∈ V ∧ t.b ∈ V ∧ t.c ∈ V) :
    Poly.isInsideArg V S pts = .ok ((atleast2d pts).map (Poly.isInside1 S)) := by
  unfold Poly.isInsideArg
  rw [gather_eq V S hmem, ← poly_batch_eq_map_single]
  rfl

/-- a triangle vertex that is not a row of `vertices` raises `KeyError` (first triangle, first vertex) -/
theorem poly_arg_keyerror (V : List (V3 ℝ)) (t : Tri ℝ) (S : List (Tri ℝ)) (pts : Points ℝ)
    (h : t.a ∉ V) : Poly.isInsideArg V (t :: S) pts = .error "KeyError" := by
  unfold Poly.isInsideArg Poly.gather
  rw [List.mapM_cons, gatherVertex_error h]
  rfl

example : Poly.isInsideArg [⟨0,0,0⟩, ⟨1,0,0⟩, ⟨0,1,0⟩, ⟨0,0,1⟩, ⟨0,0,1⟩] tetT.bdry (.row (⟨1/4, 1/4, 1/4⟩ : V3 ℝ))
    = .ok [Poly.isInside1 tetT.bdry ⟨1/4, 1/4, 1/4⟩] := by
  apply poly_arg_eq
  intro t ht
  simp only [tetT, Tet.bdry, List.mem_cons, List.not_mem_nil, or_false] at ht
  rcases ht with rfl | rfl | rfl | rfl <;> simp


end
