import CoxeterVerif.Lemmas.CurvedMoments3
import CoxeterVerif.Lemmas.CurvedSpheroid3
import CoxeterVerif.Lemmas.CurvedSurfaceSymm
import CoxeterVerif.Lemmas.CurvedHistory
/-!
  # C10 — circle, ellipse, sphere and ellipsoid measures equal their defining integrals

  Model: `Model/Curved.lean` (every getter of the four classes, as coded).  Spec: `Spec/Curved.lean`.
  All statements are over ℝ (`instScalarReal`) and for ALL radii / semi-axes / centres.

  What "defining integral" means in each theorem (stated per section):
  * areas / volumes      — Lebesgue measure of the point set in `EuclideanSpace ℝ (Fin 2|3)` (Mathlib);
  * second moments       — Lebesgue integrals `∫_S 1, ∫_S x_i, ∫_S x_i x_j` over those point sets (§1b, §2b): the
                           records `CSpec.discCentred`, … of the spec are PROVED to be these integrals (polar
                           coordinates + symmetry + linear change of variables, `Lemmas/CurvedMoments*.lean`), the
                           translation law is proved for every finite measure (§0), `I = ∫(|r|²1 − r rᵀ)`;
  * perimeter            — `4 ∫₀^{π/2}` of the speed of `θ ↦ (a cos θ, b sin θ)` (Mathlib interval integral), relative
                           to the contract `IsEllipe` of `scipy.special.ellipe` (checked per run);
  * ellipsoid surface    — `surfaceIntegral a b c = ∫₀^π∫₀^{2π} |∂θ×∂φ|` (§8).  The code's formula is PROVED equal to it on
                           all spheroids (relative to the contracts of `ellipeinc/ellipkinc`); for three distinct axes
                           Legendre's formula is a per-run checked certificate (`_partial`).  The isoperimetric inequality
                           is proved for the surface integral of EVERY ellipsoid;
  * histories            — §9: shapes reached through setters have the getters of the fresh shape.
-/
open Curved MeasureTheory
set_option maxRecDepth 4000
noncomputable section
open C10

/-- unfold the C10 model and spec to real polynomial expressions -/
macro "unfold_curved" : tactic => `(tactic|
  simp only [Circle.planarMoments, Circle.polarMoment, Circle.inertiaTensor, Circle.area, Circle.perimeter,
    Circle.circumference, Circle.iq, Circle.eccentricity,
    Ellipse.planarMoments, Ellipse.polarMoment, Ellipse.inertiaTensor, Ellipse.area,
    Sphere.volume, Sphere.surfaceArea, Sphere.inertiaTensor, Sphere.iq, Sphere.diameter,
    Ellipsoid.volume, Ellipsoid.inertiaTensor,
    polarOf, inertia2D, diag, iq2, iq3, CP.translateInertia,
    CSpec.discAt, CSpec.ellipseAt, CSpec.discCentred, CSpec.ellipseCentred, CSpec.Mom2.shift,
    CSpec.Mom2.planar, CSpec.Mom2.polar, CSpec.ballAt, CSpec.ellipsoidAt, CSpec.ballCentred,
    CSpec.ellipsoidCentred, CSpec.Mom3.shift, CSpec.Mom3.inertia, CSpec.iq2, CSpec.iq3,
    Scalar.pi_real, V3.dot, Scalar.lit, Scalar.q, Scalar.sqr, Scalar.cube, Scalar.ofNat_real,
    Nat.cast_ofNat, Nat.cast_one, Nat.cast_zero])

/-! ## 0. The translation law of the spec is a theorem about integrals -/

variable {Ω : Type*} [MeasurableSpace Ω]

/-- **translation law of second moments = linearity of the integral**, for every finite measure and
all square-integrable coordinate functions:
`∫(f+a)(g+b) = ∫fg + a∫g + b∫f + ab·μ(Ω)` -/
theorem C10.integral_shift_mul (μ : Measure Ω) [IsFiniteMeasure μ] (f g : Ω → ℝ)
    (hf : MemLp f 2 μ) (hg : MemLp g 2 μ) (a b : ℝ) :
    ∫ ω, (f ω + a) * (g ω + b) ∂μ
      = (∫ ω, f ω * g ω ∂μ) + a * (∫ ω, g ω ∂μ) + b * (∫ ω, f ω ∂μ) + a * b * μ.real Set.univ := by
  have hfg : Integrable (fun ω => f ω * g ω) μ := hf.integrable_mul hg
  have hf1 : Integrable f μ := hf.integrable (by norm_num)
  have hg1 : Integrable g μ := hg.integrable (by norm_num)
  have e : (fun ω => (f ω + a) * (g ω + b)) = fun ω => f ω * g ω + a * g ω + b * f ω + a * b := by
    funext ω; ring
  rw [e, integral_add, integral_add, integral_add, integral_const_mul, integral_const_mul, integral_const]
  · simp [smul_eq_mul, mul_comm]
  · exact hfg
  · exact hg1.const_mul a
  · exact hfg.add (hg1.const_mul a)
  · exact hf1.const_mul b
  · exact (hfg.add (hg1.const_mul a)).add (hf1.const_mul b)
  · exact integrable_const _

/-- `CSpec.Mom3.shift` is exactly what the integrals `∫1, ∫x_i, ∫x_i x_j` of ANY finite measure do
when the body is translated by `c` (coordinates `X,Y,Z` ↦ `X+c.x, Y+c.y, Z+c.z`). -/
theorem C10.moments_shift_integral3 (μ : Measure Ω) [IsFiniteMeasure μ] (X Y Z : Ω → ℝ)
    (hX : MemLp X 2 μ) (hY : MemLp Y 2 μ) (hZ : MemLp Z 2 μ) (c : V3 ℝ) :
    momOf3 μ (fun ω => X ω + c.x) (fun ω => Y ω + c.y) (fun ω => Z ω + c.z) = (momOf3 μ X Y Z).shift c := by
  have iX : Integrable X μ := hX.integrable (by norm_num)
  have iY : Integrable Y μ := hY.integrable (by norm_num)
  have iZ : Integrable Z μ := hZ.integrable (by norm_num)
  simp only [momOf3, CSpec.Mom3.shift, CSpec.Mom3.mk.injEq, integral_shift_mul μ _ _ hX hX,
    integral_shift_mul μ _ _ hY hY, integral_shift_mul μ _ _ hZ hZ, integral_shift_mul μ _ _ hX hY,
    integral_shift_mul μ _ _ hX hZ, integral_shift_mul μ _ _ hY hZ, integral_shift μ _ iX,
    integral_shift μ _ iY, integral_shift μ _ iZ, Scalar.lit, Scalar.ofNat_real, Nat.cast_ofNat]
  and_intros <;> first | trivial | ring

/-- planar version of `moments_shift_integral3` -/
theorem C10.moments_shift_integral2 (μ : Measure Ω) [IsFiniteMeasure μ] (X Y : Ω → ℝ)
    (hX : MemLp X 2 μ) (hY : MemLp Y 2 μ) (cx cy : ℝ) :
    momOf2 μ (fun ω => X ω + cx) (fun ω => Y ω + cy) = (momOf2 μ X Y).shift cx cy := by
  have iX : Integrable X μ := hX.integrable (by norm_num)
  have iY : Integrable Y μ := hY.integrable (by norm_num)
  simp only [momOf2, CSpec.Mom2.shift, CSpec.Mom2.mk.injEq, integral_shift_mul μ _ _ hX hX,
    integral_shift_mul μ _ _ hY hY, integral_shift_mul μ _ _ hX hY, integral_shift μ _ iX,
    integral_shift μ _ iY, Scalar.lit, Scalar.ofNat_real, Nat.cast_ofNat]
  and_intros <;> first | trivial | ring

/-- non-vacuity: a four-point measure with arbitrary coordinates meets the hypotheses -/
example : momOf3 (Measure.count : Measure (Fin 4)) (fun ω => ![1, -1, 0, 0] ω + 2) (fun ω => ![0, 0, 1, -1] ω + 3)
      (fun ω => ![1, 1, -1, -1] ω + 5)
    = (momOf3 (Measure.count : Measure (Fin 4)) ![1, -1, 0, 0] ![0, 0, 1, -1] ![1, 1, -1, -1]).shift ⟨2, 3, 5⟩ :=
  moments_shift_integral3 _ _ _ _ MemLp.of_discrete MemLp.of_discrete MemLp.of_discrete ⟨2, 3, 5⟩

example : momOf2 (Measure.count : Measure (Fin 4)) (fun ω => ![1, -1, 0, 0] ω + 2) (fun ω => ![0, 0, 1, -1] ω + 3)
    = (momOf2 (Measure.count : Measure (Fin 4)) ![1, -1, 0, 0] ![0, 0, 1, -1]).shift 2 3 :=
  moments_shift_integral2 _ _ _ MemLp.of_discrete MemLp.of_discrete 2 3

/-! ## 1. Sphere / Ellipsoid: inertia tensor about the origin

Spec: centred second moments of the ellipsoid (`∫x² = V a²/5`, …; PROVED to be the Lebesgue integrals in §1b),
translated by the law above, `I = ∫(|r|²1 − r rᵀ)`.  The code instead builds the centroidal tensor
`V/5 diag(b²+c², a²+c², a²+b²)` and applies `translate_inertia_tensor`. -/

/-- **the generalized parallel-axis theorem** (what `translate_inertia_tensor` implements) is a
consequence of the translation law for every body whose first moments about its own centre vanish -/
theorem C10.parallel_axis_theorem (M : CSpec.Mom3 ℝ) (hf : M.f = ⟨0, 0, 0⟩) (c : V3 ℝ) :
    (M.shift c).inertia = CP.translateInertia c M.inertia M.m0 := by
  obtain ⟨m0, ⟨fx, fy, fz⟩, xx, yy, zz, xy, xz, yz⟩ := M
  obtain ⟨cx, cy, cz⟩ := c
  simp only [V3.mk.injEq] at hf
  obtain ⟨rfl, rfl, rfl⟩ := hf
  unfold_curved
  simp only [M3.mk.injEq]
  refine ⟨?_, ?_, ?_, ?_, ?_, ?_, ?_, ?_, ?_⟩ <;> ring

example : (CSpec.ellipsoidCentred Real.pi 3 2 1).f = ⟨0, 0, 0⟩ := by
  simp [CSpec.ellipsoidCentred, Scalar.lit]

/-- **Sphere.inertia_tensor is exact** for every radius and centre -/
theorem C10.sphere_inertia_exact (r : ℝ) (c : V3 ℝ) :
    Sphere.inertiaTensor r c = (CSpec.ballAt Real.pi r c).inertia := by
  obtain ⟨cx, cy, cz⟩ := c
  unfold_curved
  simp only [M3.mk.injEq]
  refine ⟨?_, ?_, ?_, ?_, ?_, ?_, ?_, ?_, ?_⟩ <;> ring

/-- **Ellipsoid.inertia_tensor is exact** for all semi-axes (any order) and every centre -/
theorem C10.ellipsoid_inertia_exact (a b c : ℝ) (cen : V3 ℝ) :
    Ellipsoid.inertiaTensor a b c cen = (CSpec.ellipsoidAt Real.pi a b c cen).inertia := by
  obtain ⟨cx, cy, cz⟩ := cen
  unfold_curved
  simp only [M3.mk.injEq]
  refine ⟨?_, ?_, ?_, ?_, ?_, ?_, ?_, ?_, ?_⟩ <;> ring

/-- the same in the explicit parallel-axis form `I₀ + V(|c|²1 − c cᵀ)` with the centred closed form -/
theorem C10.ellipsoid_inertia_parallel_axis (a b c : ℝ) (cen : V3 ℝ) :
    Ellipsoid.inertiaTensor a b c cen
      = CP.translateInertia cen (CSpec.ellipsoidCentred Real.pi a b c).inertia
          (CSpec.ellipsoidCentred Real.pi a b c).m0 := by
  rw [ellipsoid_inertia_exact]
  exact parallel_axis_theorem _ (by simp [CSpec.ellipsoidCentred]) cen

theorem C10.sphere_inertia_parallel_axis (r : ℝ) (cen : V3 ℝ) :
    Sphere.inertiaTensor r cen
      = CP.translateInertia cen (CSpec.ballCentred Real.pi r).inertia (CSpec.ballCentred Real.pi r).m0 := by
  rw [sphere_inertia_exact]
  exact parallel_axis_theorem _ (by simp [CSpec.ballCentred, CSpec.ellipsoidCentred]) cen

example : Sphere.inertiaTensor (1 : ℝ) ⟨2, 3, 5⟩ = (CSpec.ballAt Real.pi 1 ⟨2, 3, 5⟩).inertia :=
  sphere_inertia_exact 1 ⟨2, 3, 5⟩
example : Ellipsoid.inertiaTensor (3 : ℝ) 2 1 ⟨2, 3, 5⟩ = (CSpec.ellipsoidAt Real.pi 3 2 1 ⟨2, 3, 5⟩).inertia :=
  ellipsoid_inertia_exact 3 2 1 ⟨2, 3, 5⟩

theorem C10.ellipsoid_inertia_sphere (r : ℝ) (c : V3 ℝ) :
    Ellipsoid.inertiaTensor r r r c = Sphere.inertiaTensor r c := by
  simp only [Ellipsoid.inertiaTensor, Sphere.inertiaTensor, Ellipsoid.volume, Sphere.volume, diag,
    CP.translateInertia, Scalar.lit, Scalar.q, Scalar.sqr, Scalar.cube, Scalar.ofNat_real, Nat.cast_ofNat,
    M3.mk.injEq]
  refine ⟨?_, ?_, ?_, ?_, ?_, ?_, ?_, ?_, ?_⟩ <;> ring

/-! ## 1b. The centred second moments are THEOREMS about Lebesgue integrals (no trusted closed form)

`CSpec.ellipsoidCentred`, `ballCentred`, `ellipseCentred`, `discCentred` (the "textbook" records used above) are the
moment records `∫1, ∫x_i, ∫x_i x_j` of Lebesgue measure restricted to the point sets in `EuclideanSpace ℝ (Fin 2|3)`:
polar coordinates for `∫_B |x|²` (`integral_fun_norm_addHaar`), coordinate swaps / reflections for the symmetry,
the diagonal linear change of variables for the semi-axes (`Lemmas/CurvedMoments*.lean`), translation invariance for
the centre.  Consequently `Sphere/Ellipsoid.inertia_tensor` ARE the inertia integrals about the origin. -/

local notation "𝔼" n => EuclideanSpace ℝ (Fin n)

/-- the inertia tensor about the origin of a unit-density body `μ` with coordinate functions `X Y Z`, entry by entry
as the integral of `|r|² δ_ij − r_i r_j` -/
def C10.inertiaIntegral (μ : Measure Ω) (X Y Z : Ω → ℝ) : M3 ℝ :=
  ⟨∫ ω, (Y ω * Y ω + Z ω * Z ω) ∂μ, ∫ ω, -(X ω * Y ω) ∂μ, ∫ ω, -(X ω * Z ω) ∂μ,
   ∫ ω, -(X ω * Y ω) ∂μ, ∫ ω, (X ω * X ω + Z ω * Z ω) ∂μ, ∫ ω, -(Y ω * Z ω) ∂μ,
   ∫ ω, -(X ω * Z ω) ∂μ, ∫ ω, -(Y ω * Z ω) ∂μ, ∫ ω, (X ω * X ω + Y ω * Y ω) ∂μ⟩

/-- `CSpec.Mom3.inertia` of the raw moment record is that integral (linearity) -/
theorem C10.inertiaIntegral_eq (μ : Measure Ω) (X Y Z : Ω → ℝ) (hX : MemLp X 2 μ) (hY : MemLp Y 2 μ)
    (hZ : MemLp Z 2 μ) : inertiaIntegral μ X Y Z = (momOf3 μ X Y Z).inertia := by
  have hXY : ∫ ω, (X ω * X ω + Y ω * Y ω) ∂μ = (∫ ω, X ω * X ω ∂μ) + ∫ ω, Y ω * Y ω ∂μ :=
    integral_add (hX.integrable_mul hX) (hY.integrable_mul hY)
  have hXZ : ∫ ω, (X ω * X ω + Z ω * Z ω) ∂μ = (∫ ω, X ω * X ω ∂μ) + ∫ ω, Z ω * Z ω ∂μ :=
    integral_add (hX.integrable_mul hX) (hZ.integrable_mul hZ)
  have hYZ : ∫ ω, (Y ω * Y ω + Z ω * Z ω) ∂μ = (∫ ω, Y ω * Y ω ∂μ) + ∫ ω, Z ω * Z ω ∂μ :=
    integral_add (hY.integrable_mul hY) (hZ.integrable_mul hZ)
  simp only [inertiaIntegral, momOf3, CSpec.Mom3.inertia, integral_neg, hXY, hXZ, hYZ]

/-- **the moments of the solid ellipsoid (any centre) are the record of the spec** -/
theorem C10.ellipsoid_moments_integral (a b c : ℝ) (ha : 0 < a) (hb : 0 < b) (hc : 0 < c) (q : 𝔼 3) :
    momOf3 (volume.restrict (ellipsoidSetAt a b c q)) (fun p => p 0) (fun p => p 1) (fun p => p 2)
      = CSpec.ellipsoidAt Real.pi a b c ⟨q 0, q 1, q 2⟩ := by
  have hp := pos3 ha hb hc
  have := isFiniteMeasure_ellSet _ hp
  rw [ellipsoidSetAt_eq, momOf3_translate,
    moments_shift_integral3 (volume.restrict (ellSet ![a, b, c])) _ _ _ (memLp_coord_ellSet _ hp 0)
      (memLp_coord_ellSet _ hp 1) (memLp_coord_ellSet _ hp 2) ⟨q 0, q 1, q 2⟩,
    ← ellipsoidSet_eq, ellipsoid_centred_moments a b c ha hb hc]
  rfl

/-- **the moments of the solid ball** `closedBall q r` -/
theorem C10.ball_moments_integral (r : ℝ) (hr : 0 < r) (q : 𝔼 3) :
    momOf3 (volume.restrict (Metric.closedBall q r)) (fun p => p 0) (fun p => p 1) (fun p => p 2)
      = CSpec.ballAt Real.pi r ⟨q 0, q 1, q 2⟩ := by
  have h := ellipsoid_moments_integral r r r hr hr hr q
  rw [ellipsoidSetAt_eq] at h
  have e : (![r, r, r] : Fin 3 → ℝ) = fun _ => r := by funext i; fin_cases i <;> rfl
  rw [closedBall_eq_ellSetAt q r hr, ← e, h]
  rfl

/-- **the moments of the solid ellipse (any centre)** -/
theorem C10.ellipse_moments_integral (a b : ℝ) (ha : 0 < a) (hb : 0 < b) (q : 𝔼 2) :
    momOf2 (volume.restrict (ellipseSetAt a b q)) (fun p => p 0) (fun p => p 1)
      = CSpec.ellipseAt Real.pi a b (q 0) (q 1) := by
  have hp := pos2 ha hb
  have := isFiniteMeasure_ellSet _ hp
  rw [ellipseSetAt_eq, momOf2_translate,
    moments_shift_integral2 (volume.restrict (ellSet ![a, b])) _ _ (memLp_coord_ellSet _ hp 0)
      (memLp_coord_ellSet _ hp 1) (q 0) (q 1),
    ← ellipseSet_eq, ellipse_centred_moments a b ha hb]
  rfl

/-- **the moments of the disc** `closedBall q r` -/
theorem C10.disc_moments_integral (r : ℝ) (hr : 0 < r) (q : 𝔼 2) :
    momOf2 (volume.restrict (Metric.closedBall q r)) (fun p => p 0) (fun p => p 1)
      = CSpec.discAt Real.pi r (q 0) (q 1) := by
  have h := ellipse_moments_integral r r hr hr q
  rw [ellipseSetAt_eq] at h
  have e : (![r, r] : Fin 2 → ℝ) = fun _ => r := by funext i; fin_cases i <;> rfl
  rw [closedBall_eq_ellSetAt q r hr, ← e, h]
  simp only [CSpec.ellipseAt, CSpec.discAt, CSpec.ellipseCentred, CSpec.discCentred]

/-- **Ellipsoid.inertia_tensor is the inertia integral** `∫_E (|p|² 1 − p pᵀ) dp` over the solid ellipsoid with
semi-axes `a,b,c` (along x,y,z, any order of sizes) centred at `q`, for all positive semi-axes and every centre.
No trusted closed form: the integral is Mathlib's Lebesgue integral. -/
theorem C10.ellipsoid_inertia (a b c : ℝ) (ha : 0 < a) (hb : 0 < b) (hc : 0 < c) (q : 𝔼 3) :
    Ellipsoid.inertiaTensor a b c ⟨q 0, q 1, q 2⟩
      = inertiaIntegral (volume.restrict (ellipsoidSetAt a b c q)) (fun p => p 0) (fun p => p 1) (fun p => p 2) := by
  have hp := pos3 ha hb hc
  have := isFiniteMeasure_ellSet _ hp
  have hmem : ∀ i : Fin 3, MemLp (fun p : 𝔼 3 => p i) 2 (volume.restrict (ellipsoidSetAt a b c q)) := by
    intro i
    have : IsFiniteMeasure (volume.restrict (ellipsoidSetAt a b c q)) :=
      ⟨by rw [Measure.restrict_apply_univ, ellipsoidSetAt_eq, ellSetAt_eq, measure_preimage_add_right]
          exact (isBounded_ellSet _ hp).measure_lt_top⟩
    apply MemLp.of_bound (continuous_coord i).aestronglyMeasurable (a + b + c + |q i|)
    rw [ellipsoidSetAt_eq]
    apply ae_restrict_of_forall_mem (measurableSet_ellSetAt _ q)
    intro x hx
    rw [ellSetAt_eq] at hx
    have h1 := abs_coord_le_of_mem_ellSet _ hp hx i
    have h2 : (![a, b, c] : Fin 3 → ℝ) i ≤ a + b + c := by fin_cases i <;> simp <;> linarith
    have h3 : x i = (x + -q) i + q i := by simp
    rw [Real.norm_eq_abs, h3]
    exact (abs_add_le _ _).trans (by linarith)
  rw [inertiaIntegral_eq _ _ _ _ (hmem 0) (hmem 1) (hmem 2), ellipsoid_moments_integral a b c ha hb hc q,
    ellipsoid_inertia_exact]

/-- **Sphere.inertia_tensor is the inertia integral** over the solid ball `closedBall q r` -/
theorem C10.sphere_inertia (r : ℝ) (hr : 0 < r) (q : 𝔼 3) :
    Sphere.inertiaTensor r ⟨q 0, q 1, q 2⟩
      = inertiaIntegral (volume.restrict (Metric.closedBall q r)) (fun p => p 0) (fun p => p 1) (fun p => p 2) := by
  have h := ellipsoid_inertia r r r hr hr hr q
  rw [ellipsoidSetAt_eq] at h
  have e : (![r, r, r] : Fin 3 → ℝ) = fun _ => r := by funext i; fin_cases i <;> rfl
  rw [closedBall_eq_ellSetAt q r hr, ← e, ← h, ellipsoid_inertia_sphere]

example : Ellipsoid.inertiaTensor (3 : ℝ) 2 1 ⟨(EuclideanSpace.single 0 (7 : ℝ) : 𝔼 3) 0, (EuclideanSpace.single 0 (7 : ℝ) : 𝔼 3) 1,
      (EuclideanSpace.single 0 (7 : ℝ) : 𝔼 3) 2⟩
    = inertiaIntegral (volume.restrict (ellipsoidSetAt 3 2 1 (EuclideanSpace.single 0 (7 : ℝ)))) (fun p => p 0) (fun p => p 1)
        (fun p => p 2) :=
  ellipsoid_inertia 3 2 1 (by norm_num) (by norm_num) (by norm_num) _

/-! ## 2. Circle / Ellipse: planar and polar moments

Spec: `I_x = ∫y²`, `I_y = ∫x²`, `I_xy = ∫xy`, `J = ∫(x²+y²)` of the textbook centred record
translated to the centre.  The code adds `A·cx²` to `I_x` and `A·cy²` to `I_y` (swapped; the tests
in /repo assert this, so it is a listed known finding): `I_x`/`I_y` are right exactly when
`cx² = cy²`; `I_xy`, the polar moment and `inertia_tensor[2,2]` are right for every centre. -/

/-- exact characterisation: what `Circle.planar_moments_inertia` returns are the moments of the
disc centred at the TRANSPOSED centre `(cy, cx)` -/
theorem C10.circle_moments_transposed (r : ℝ) (c : V3 ℝ) :
    Circle.planarMoments r c = (CSpec.discAt Real.pi r c.y c.x).planar := by
  unfold_curved
  simp only [Prod.mk.injEq]
  refine ⟨?_, ?_, ?_⟩ <;> ring

/-- the planar moments of the circle are the defining integrals iff `r = 0` or `cx² = cy²` -/
theorem C10.circle_moments_iff (r : ℝ) (c : V3 ℝ) :
    Circle.planarMoments r c = (CSpec.discAt Real.pi r c.x c.y).planar ↔ (r = 0 ∨ c.x ^ 2 = c.y ^ 2) := by
  unfold_curved
  simp only [Prod.mk.injEq]
  constructor
  · rintro ⟨h1, -, -⟩
    have : Real.pi * r ^ 2 * (c.x ^ 2 - c.y ^ 2) = 0 := by linarith
    rcases mul_eq_zero.mp this with h | h
    · rcases mul_eq_zero.mp h with h | h
      · exact absurd h Real.pi_ne_zero
      · left; exact pow_eq_zero_iff (two_ne_zero) |>.mp h
    · right; linarith
  · rintro (rfl | h)
    · refine ⟨?_, ?_, ?_⟩ <;> ring
    · refine ⟨?_, ?_, ?_⟩
      · linear_combination Real.pi * r ^ 2 * h
      · linear_combination - Real.pi * r ^ 2 * h
      · ring

/-- PARTIAL (only for centres with `cx² = cy²`, e.g. the origin or `(t,t,·)`): missing is the general
centre, where the code is wrong (`circle_moments_fails`). -/
theorem C10.circle_moments_partial (r : ℝ) (c : V3 ℝ) (h : c.x ^ 2 = c.y ^ 2) :
    Circle.planarMoments r c = (CSpec.discAt Real.pi r c.x c.y).planar :=
  (circle_moments_iff r c).mpr (Or.inr h)

example : ((⟨1, -1, 7⟩ : V3 ℝ)).x ^ 2 = ((⟨1, -1, 7⟩ : V3 ℝ)).y ^ 2 := by norm_num

/-- the code violates the property at `Circle(1, (2,3,0))` -/
theorem C10.circle_moments_fails :
    ¬ (Circle.planarMoments (1 : ℝ) ⟨2, 3, 0⟩ = (CSpec.discAt Real.pi 1 2 3).planar) := by
  intro h
  rcases (circle_moments_iff 1 ⟨2, 3, 0⟩).mp h with h | h <;> norm_num at h

theorem C10.circle_ixy_exact (r : ℝ) (c : V3 ℝ) :
    (Circle.planarMoments r c).2.2 = (CSpec.discAt Real.pi r c.x c.y).planar.2.2 := by
  unfold_curved; ring

theorem C10.circle_polar_exact (r : ℝ) (c : V3 ℝ) :
    Circle.polarMoment r c = (CSpec.discAt Real.pi r c.x c.y).polar := by
  unfold_curved; ring

theorem C10.circle_inertia2d_zz (r : ℝ) (c : V3 ℝ) :
    (Circle.inertiaTensor r c).zz = (CSpec.discAt Real.pi r c.x c.y).polar := by
  unfold_curved; ring

theorem C10.ellipse_moments_iff (a b : ℝ) (c : V3 ℝ) :
    Ellipse.planarMoments a b c = (CSpec.ellipseAt Real.pi a b c.x c.y).planar
      ↔ (a = 0 ∨ b = 0 ∨ c.x ^ 2 = c.y ^ 2) := by
  unfold_curved
  simp only [Prod.mk.injEq]
  constructor
  · rintro ⟨h1, -, -⟩
    have : Real.pi * a * b * (c.x ^ 2 - c.y ^ 2) = 0 := by linarith
    rcases mul_eq_zero.mp this with h | h
    · rcases mul_eq_zero.mp h with h | h
      · rcases mul_eq_zero.mp h with h | h
        · exact absurd h Real.pi_ne_zero
        · exact Or.inl h
      · exact Or.inr (Or.inl h)
    · right; right; linarith
  · rintro (rfl | rfl | h)
    · refine ⟨?_, ?_, ?_⟩ <;> ring
    · refine ⟨?_, ?_, ?_⟩ <;> ring
    · refine ⟨?_, ?_, ?_⟩
      · linear_combination Real.pi * a * b * h
      · linear_combination - Real.pi * a * b * h
      · ring

/-- PARTIAL (only for centres with `cx² = cy²`): missing is the general centre, where the code is
wrong (`ellipse_moments_fails`). -/
theorem C10.ellipse_moments_partial (a b : ℝ) (c : V3 ℝ) (h : c.x ^ 2 = c.y ^ 2) :
    Ellipse.planarMoments a b c = (CSpec.ellipseAt Real.pi a b c.x c.y).planar :=
  (ellipse_moments_iff a b c).mpr (Or.inr (Or.inr h))

example : ((⟨0, 0, 0⟩ : V3 ℝ)).x ^ 2 = ((⟨0, 0, 0⟩ : V3 ℝ)).y ^ 2 := by norm_num

/-- the code violates the property at `Ellipse(2, 1, (2,3,0))` -/
theorem C10.ellipse_moments_fails :
    ¬ (Ellipse.planarMoments (2 : ℝ) 1 ⟨2, 3, 0⟩ = (CSpec.ellipseAt Real.pi 2 1 2 3).planar) := by
  intro h
  rcases (ellipse_moments_iff 2 1 ⟨2, 3, 0⟩).mp h with h | h | h <;> norm_num at h

theorem C10.ellipse_ixy_exact (a b : ℝ) (c : V3 ℝ) :
    (Ellipse.planarMoments a b c).2.2 = (CSpec.ellipseAt Real.pi a b c.x c.y).planar.2.2 := by
  unfold_curved; ring

theorem C10.ellipse_polar_exact (a b : ℝ) (c : V3 ℝ) :
    Ellipse.polarMoment a b c = (CSpec.ellipseAt Real.pi a b c.x c.y).polar := by
  unfold_curved; ring

theorem C10.ellipse_inertia2d_zz (a b : ℝ) (c : V3 ℝ) :
    (Ellipse.inertiaTensor a b c).zz = (CSpec.ellipseAt Real.pi a b c.x c.y).polar := by
  unfold_curved; ring

/-! ### 2b. the same statements against the Lebesgue integrals over the disc / solid ellipse

`(momOf2 (volume.restrict S) x y).planar = (∫_S y², ∫_S x², ∫_S xy)`, `.polar = ∫_S x² + ∫_S y²`. -/

/-- `Circle.planar_moments_inertia` equals the integrals `(∫y², ∫x², ∫xy)` over the disc iff `cx² = cy²` -/
theorem C10.circle_moments_integral_iff (r : ℝ) (hr : 0 < r) (q : 𝔼 2) (z : ℝ) :
    Circle.planarMoments r ⟨q 0, q 1, z⟩
        = (momOf2 (volume.restrict (Metric.closedBall q r)) (fun p => p 0) (fun p => p 1)).planar
      ↔ q 0 ^ 2 = q 1 ^ 2 := by
  rw [disc_moments_integral r hr q]
  have := circle_moments_iff r ⟨q 0, q 1, z⟩
  simp only [hr.ne', false_or] at this
  exact this

/-- PARTIAL (centres with `cx² = cy²` only; the general centre is wrong in the code: `circle_moments_integral_fails`) -/
theorem C10.circle_moments_integral_partial (r : ℝ) (hr : 0 < r) (q : 𝔼 2) (z : ℝ) (h : q 0 ^ 2 = q 1 ^ 2) :
    Circle.planarMoments r ⟨q 0, q 1, z⟩
      = (momOf2 (volume.restrict (Metric.closedBall q r)) (fun p => p 0) (fun p => p 1)).planar :=
  (circle_moments_integral_iff r hr q z).mpr h

example : ((!₂[1, -1] : 𝔼 2) 0) ^ 2 = ((!₂[1, -1] : 𝔼 2) 1) ^ 2 := by simp

/-- the code violates the property at `Circle(1, (2,3,0))`: its `(I_x, I_y, I_xy)` are not the integrals over that disc -/
theorem C10.circle_moments_integral_fails :
    ¬ (Circle.planarMoments (1 : ℝ) ⟨(!₂[2, 3] : 𝔼 2) 0, (!₂[2, 3] : 𝔼 2) 1, 0⟩
        = (momOf2 (volume.restrict (Metric.closedBall (!₂[2, 3] : 𝔼 2) 1)) (fun p => p 0) (fun p => p 1)).planar) := by
  rw [circle_moments_integral_iff 1 one_pos]
  norm_num

/-- `I_xy`, the polar moment and `inertia_tensor[2,2]` of the circle are the integrals, for every centre -/
theorem C10.circle_ixy_polar_integral (r : ℝ) (hr : 0 < r) (q : 𝔼 2) (z : ℝ) :
    (Circle.planarMoments r ⟨q 0, q 1, z⟩).2.2 = ∫ p in Metric.closedBall q r, p 0 * p 1 ∧
    Circle.polarMoment r ⟨q 0, q 1, z⟩
      = (∫ p in Metric.closedBall q r, p 0 * p 0) + ∫ p in Metric.closedBall q r, p 1 * p 1 ∧
    (Circle.inertiaTensor r ⟨q 0, q 1, z⟩).zz
      = (∫ p in Metric.closedBall q r, p 0 * p 0) + ∫ p in Metric.closedBall q r, p 1 * p 1 := by
  have h := disc_moments_integral r hr q
  have h1 : ∫ p in Metric.closedBall q r, p 0 * p 1 = (CSpec.discAt Real.pi r (q 0) (q 1)).planar.2.2 := by
    rw [← h]; rfl
  have h2 : (∫ p in Metric.closedBall q r, p 0 * p 0) + ∫ p in Metric.closedBall q r, p 1 * p 1
      = (CSpec.discAt Real.pi r (q 0) (q 1)).polar := by
    rw [← h]; rfl
  rw [h1, h2]
  exact ⟨circle_ixy_exact r ⟨q 0, q 1, z⟩, circle_polar_exact r ⟨q 0, q 1, z⟩, circle_inertia2d_zz r ⟨q 0, q 1, z⟩⟩

theorem C10.ellipse_moments_integral_iff (a b : ℝ) (ha : 0 < a) (hb : 0 < b) (q : 𝔼 2) (z : ℝ) :
    Ellipse.planarMoments a b ⟨q 0, q 1, z⟩
        = (momOf2 (volume.restrict (ellipseSetAt a b q)) (fun p => p 0) (fun p => p 1)).planar
      ↔ q 0 ^ 2 = q 1 ^ 2 := by
  rw [ellipse_moments_integral a b ha hb q]
  have := ellipse_moments_iff a b ⟨q 0, q 1, z⟩
  simp only [ha.ne', hb.ne', false_or] at this
  exact this

/-- PARTIAL (centres with `cx² = cy²` only; see `ellipse_moments_integral_fails`) -/
theorem C10.ellipse_moments_integral_partial (a b : ℝ) (ha : 0 < a) (hb : 0 < b) (q : 𝔼 2) (z : ℝ)
    (h : q 0 ^ 2 = q 1 ^ 2) :
    Ellipse.planarMoments a b ⟨q 0, q 1, z⟩
      = (momOf2 (volume.restrict (ellipseSetAt a b q)) (fun p => p 0) (fun p => p 1)).planar :=
  (ellipse_moments_integral_iff a b ha hb q z).mpr h

example : ((0 : 𝔼 2) 0) ^ 2 = ((0 : 𝔼 2) 1) ^ 2 := by simp

theorem C10.ellipse_moments_integral_fails :
    ¬ (Ellipse.planarMoments (2 : ℝ) 1 ⟨(!₂[2, 3] : 𝔼 2) 0, (!₂[2, 3] : 𝔼 2) 1, 0⟩
        = (momOf2 (volume.restrict (ellipseSetAt 2 1 (!₂[2, 3] : 𝔼 2))) (fun p => p 0) (fun p => p 1)).planar) := by
  rw [ellipse_moments_integral_iff 2 1 (by norm_num) one_pos]
  norm_num

theorem C10.ellipse_ixy_polar_integral (a b : ℝ) (ha : 0 < a) (hb : 0 < b) (q : 𝔼 2) (z : ℝ) :
    (Ellipse.planarMoments a b ⟨q 0, q 1, z⟩).2.2 = ∫ p in ellipseSetAt a b q, p 0 * p 1 ∧
    Ellipse.polarMoment a b ⟨q 0, q 1, z⟩
      = (∫ p in ellipseSetAt a b q, p 0 * p 0) + ∫ p in ellipseSetAt a b q, p 1 * p 1 ∧
    (Ellipse.inertiaTensor a b ⟨q 0, q 1, z⟩).zz
      = (∫ p in ellipseSetAt a b q, p 0 * p 0) + ∫ p in ellipseSetAt a b q, p 1 * p 1 := by
  have h := ellipse_moments_integral a b ha hb q
  have h1 : ∫ p in ellipseSetAt a b q, p 0 * p 1 = (CSpec.ellipseAt Real.pi a b (q 0) (q 1)).planar.2.2 := by
    rw [← h]; rfl
  have h2 : (∫ p in ellipseSetAt a b q, p 0 * p 0) + ∫ p in ellipseSetAt a b q, p 1 * p 1
      = (CSpec.ellipseAt Real.pi a b (q 0) (q 1)).polar := by
    rw [← h]; rfl
  rw [h1, h2]
  exact ⟨ellipse_ixy_exact a b ⟨q 0, q 1, z⟩, ellipse_polar_exact a b ⟨q 0, q 1, z⟩,
    ellipse_inertia2d_zz a b ⟨q 0, q 1, z⟩⟩

example : (0 : ℝ) < 2 ∧ (0 : ℝ) < 1 := by norm_num

/-! ## 3. Areas and volumes are Lebesgue measures of the point sets -/

theorem C10.disc_area_measure (c : EuclideanSpace ℝ (Fin 2)) (r : ℝ) (hr : 0 ≤ r) :
    volume (Metric.closedBall c r) = ENNReal.ofReal (Circle.area r) := by
  rw [EuclideanSpace.volume_closedBall_fin_two, ← ENNReal.ofReal_pow hr,
    ← ENNReal.ofReal_mul (by positivity)]
  simp only [Circle.area, Scalar.sqr, Scalar.pi_real]
  congr 1; ring

theorem C10.ball_volume_measure (c : EuclideanSpace ℝ (Fin 3)) (r : ℝ) (hr : 0 ≤ r) :
    volume (Metric.closedBall c r) = ENNReal.ofReal (Sphere.volume r) := by
  rw [EuclideanSpace.volume_closedBall_fin_three, ← ENNReal.ofReal_pow hr,
    ← ENNReal.ofReal_mul (by positivity)]
  simp only [Sphere.volume, Scalar.cube, Scalar.q, Scalar.pi_real, Scalar.ofNat_real, Nat.cast_ofNat]
  congr 1; ring

theorem C10.ellipse_area_measure (a b : ℝ) (ha : 0 < a) (hb : 0 < b) :
    volume (ellipseSet a b) = ENNReal.ofReal (Ellipse.area a b) := by
  set g : EuclideanSpace ℝ (Fin 2) →ₗ[ℝ] EuclideanSpace ℝ (Fin 2) :=
    Matrix.toLpLin 2 2 (Matrix.diagonal ![a⁻¹, b⁻¹]) with hg
  have hdet : LinearMap.det g = a⁻¹ * b⁻¹ := by
    rw [hg, LinearMap.det_toLpLin, Matrix.det_diagonal, Fin.prod_univ_two]; simp
  have hset : ellipseSet a b = g ⁻¹' Metric.closedBall 0 1 := by
    ext p
    simp only [ellipseSet, Set.mem_ofPred_eq, Set.mem_preimage, mem_closedBall_zero_iff,
      EuclideanSpace.norm_eq, Real.sqrt_le_one, Fin.sum_univ_two, hg]
    simp [Matrix.toLpLin_apply, Matrix.mulVec_diagonal, div_eq_inv_mul, mul_pow, inv_pow, sq_abs]
  have hne : LinearMap.det g ≠ 0 := by rw [hdet]; positivity
  rw [hset, Measure.addHaar_preimage_linearMap volume hne, EuclideanSpace.volume_closedBall_fin_two, hdet]
  simp only [Ellipse.area, Scalar.pi_real]
  rw [ENNReal.ofReal_one, one_pow, one_mul, ← ENNReal.ofReal_mul (abs_nonneg _)]
  congr 1
  rw [abs_of_pos (by positivity)]
  field_simp

theorem C10.ellipsoid_volume_measure (a b c : ℝ) (ha : 0 < a) (hb : 0 < b) (hc : 0 < c) :
    volume (ellipsoidSet a b c) = ENNReal.ofReal (Ellipsoid.volume a b c) := by
  set g : EuclideanSpace ℝ (Fin 3) →ₗ[ℝ] EuclideanSpace ℝ (Fin 3) :=
    Matrix.toLpLin 2 2 (Matrix.diagonal ![a⁻¹, b⁻¹, c⁻¹]) with hg
  have hdet : LinearMap.det g = a⁻¹ * b⁻¹ * c⁻¹ := by
    rw [hg, LinearMap.det_toLpLin, Matrix.det_diagonal, Fin.prod_univ_three]; simp
  have hset : ellipsoidSet a b c = g ⁻¹' Metric.closedBall 0 1 := by
    ext p
    simp only [ellipsoidSet, Set.mem_ofPred_eq, Set.mem_preimage, mem_closedBall_zero_iff,
      EuclideanSpace.norm_eq, Real.sqrt_le_one, Fin.sum_univ_three, hg]
    simp [Matrix.toLpLin_apply, Matrix.mulVec_diagonal, div_eq_inv_mul, mul_pow, inv_pow, sq_abs]
  have hne : LinearMap.det g ≠ 0 := by rw [hdet]; positivity
  rw [hset, Measure.addHaar_preimage_linearMap volume hne, EuclideanSpace.volume_closedBall_fin_three, hdet]
  simp only [Ellipsoid.volume, Scalar.pi_real, Scalar.q, Scalar.ofNat_real, Nat.cast_ofNat]
  rw [ENNReal.ofReal_one, one_pow, one_mul, ← ENNReal.ofReal_mul (abs_nonneg _)]
  congr 1
  rw [abs_of_pos (by positivity)]
  field_simp

/-- **Ellipse.area is the Lebesgue measure of the solid ellipse**, any centre -/
theorem C10.ellipse_area_measure_at (a b : ℝ) (ha : 0 < a) (hb : 0 < b) (q : EuclideanSpace ℝ (Fin 2)) :
    volume (ellipseSetAt a b q) = ENNReal.ofReal (Ellipse.area a b) := by
  have : ellipseSetAt a b q = (fun h => h + (-q)) ⁻¹' ellipseSet a b := by
    ext p; simp [ellipseSetAt, ellipseSet, sub_eq_add_neg]
  rw [this, measure_preimage_add_right, ellipse_area_measure a b ha hb]

/-- **Ellipsoid.volume is the Lebesgue measure of the solid ellipsoid**, any centre -/
theorem C10.ellipsoid_volume_measure_at (a b c : ℝ) (ha : 0 < a) (hb : 0 < b) (hc : 0 < c)
    (q : EuclideanSpace ℝ (Fin 3)) :
    volume (ellipsoidSetAt a b c q) = ENNReal.ofReal (Ellipsoid.volume a b c) := by
  have : ellipsoidSetAt a b c q = (fun h => h + (-q)) ⁻¹' ellipsoidSet a b c := by
    ext p; simp [ellipsoidSetAt, ellipsoidSet, sub_eq_add_neg]
  rw [this, measure_preimage_add_right, ellipsoid_volume_measure a b c ha hb hc]

example : volume (ellipsoidSetAt 3 2 1 0) = ENNReal.ofReal (Ellipsoid.volume (3 : ℝ) 2 1) :=
  ellipsoid_volume_measure_at 3 2 1 (by norm_num) (by norm_num) (by norm_num) 0
example : volume (ellipseSetAt 1 2 0) = ENNReal.ofReal (Ellipse.area (1 : ℝ) 2) :=
  ellipse_area_measure_at 1 2 (by norm_num) (by norm_num) 0

/-- the `m0` of the spec records is the same area / volume -/
theorem C10.spec_m0_eq (a b c r : ℝ) :
    (CSpec.discCentred Real.pi r).m0 = Circle.area r ∧ (CSpec.ellipseCentred Real.pi a b).m0 = Ellipse.area a b ∧
    (CSpec.ballCentred Real.pi r).m0 = Sphere.volume r ∧
    (CSpec.ellipsoidCentred Real.pi a b c).m0 = Ellipsoid.volume a b c := by
  unfold_curved
  and_intros <;> first | trivial | ring

theorem C10.ellipse_area_symm (a b : ℝ) : Ellipse.area a b = Ellipse.area b a := by
  simp only [Ellipse.area]; ring
theorem C10.ellipse_area_homog (k a b : ℝ) : Ellipse.area (k * a) (k * b) = k ^ 2 * Ellipse.area a b := by
  simp only [Ellipse.area]; ring
theorem C10.ellipse_area_circle (r : ℝ) : Ellipse.area r r = Circle.area r := by
  simp only [Ellipse.area, Circle.area, Scalar.sqr]; ring
theorem C10.circle_area_homog (k r : ℝ) : Circle.area (k * r) = k ^ 2 * Circle.area r := by
  simp only [Circle.area, Scalar.sqr]; ring
theorem C10.circle_perimeter_homog (k r : ℝ) : Circle.perimeter (k * r) = k * Circle.perimeter r := by
  simp only [Circle.perimeter]; ring
theorem C10.ellipsoid_volume_perm (a b c : ℝ) :
    Ellipsoid.volume a b c = Ellipsoid.volume b a c ∧ Ellipsoid.volume a b c = Ellipsoid.volume a c b := by
  simp only [Ellipsoid.volume]; constructor <;> ring
theorem C10.ellipsoid_volume_homog (k a b c : ℝ) :
    Ellipsoid.volume (k * a) (k * b) (k * c) = k ^ 3 * Ellipsoid.volume a b c := by
  simp only [Ellipsoid.volume]; ring
theorem C10.ellipsoid_volume_sphere (r : ℝ) : Ellipsoid.volume r r r = Sphere.volume r := by
  simp only [Ellipsoid.volume, Sphere.volume, Scalar.cube]; ring
theorem C10.sphere_volume_homog (k r : ℝ) : Sphere.volume (k * r) = k ^ 3 * Sphere.volume r := by
  simp only [Sphere.volume, Scalar.cube]; ring
theorem C10.sphere_surface_homog (k r : ℝ) : Sphere.surfaceArea (k * r) = k ^ 2 * Sphere.surfaceArea r := by
  simp only [Sphere.surfaceArea, Scalar.sqr]; ring

/-! ## 4. Eccentricity -/

theorem C10.eccentricity_symm (a b : ℝ) : Ellipse.eccentricity a b = Ellipse.eccentricity b a := by
  simp only [eccentricity_eq, min_comm a b, max_comm a b]

/-- the code's `sqrt(1 - b²/a²)` (axes sorted) is focal distance / semi-major axis -/
theorem C10.eccentricity_def (a b : ℝ) (ha : 0 < a) (hb : 0 < b) :
    Ellipse.eccentricity a b = CSpec.eccentricity a b := by
  rw [eccentricity_eq]
  simp only [CSpec.eccentricity, Scalar.max_real, Scalar.min_real, Scalar.sqrt_real]
  have hM : 0 < Max.max a b := lt_max_of_lt_left ha
  have hm : 0 ≤ Min.min a b := (lt_min ha hb).le
  have hmM : Min.min a b ≤ Max.max a b := min_le_max
  generalize Max.max a b = M at *
  generalize Min.min a b = m at *
  have h1 : 1 - m ^ 2 / M ^ 2 = (M * M - m * m) / (M * M) := by field_simp
  have h2 : 0 ≤ M * M - m * m := by nlinarith
  rw [h1, Real.sqrt_div h2, Real.sqrt_mul_self hM.le]

example : Ellipse.eccentricity (1 : ℝ) 2 = CSpec.eccentricity 1 2 :=
  eccentricity_def 1 2 (by norm_num) (by norm_num)

theorem C10.eccentricity_range (a b : ℝ) (ha : 0 < a) (hb : 0 < b) :
    0 ≤ Ellipse.eccentricity a b ∧ Ellipse.eccentricity a b < 1 := by
  have h0 : 0 ≤ Ellipse.eccentricity a b := by rw [eccentricity_eq]; exact Real.sqrt_nonneg _
  refine ⟨h0, ?_⟩
  have h := eccentricity_sq a b ha hb
  have hM : 0 < Max.max a b := lt_max_of_lt_left ha
  have hm : 0 < Min.min a b := lt_min ha hb
  have : 0 < (Min.min a b) ^ 2 / (Max.max a b) ^ 2 := by positivity
  nlinarith

theorem C10.eccentricity_eq_zero_iff (a b : ℝ) (ha : 0 < a) (hb : 0 < b) :
    Ellipse.eccentricity a b = 0 ↔ a = b := by
  have hM : 0 < Max.max a b := lt_max_of_lt_left ha
  have hm : 0 < Min.min a b := lt_min ha hb
  have h := eccentricity_sq a b ha hb
  constructor
  · intro h0
    rw [h0] at h
    have h1 : (Min.min a b) ^ 2 / (Max.max a b) ^ 2 = 1 := by linarith
    rw [div_eq_one_iff_eq (by positivity)] at h1
    have h2 : Min.min a b = Max.max a b := (sq_eq_sq₀ hm.le hM.le).mp h1
    exact le_antisymm ((le_max_left a b).trans (h2 ▸ min_le_right a b))
      ((le_max_right a b).trans (h2 ▸ min_le_left a b))
  · rintro rfl
    rw [eccentricity_eq]; simp [ha.ne']

theorem C10.eccentricity_homog (k a b : ℝ) (hk : 0 < k) :
    Ellipse.eccentricity (k * a) (k * b) = Ellipse.eccentricity a b := by
  simp only [eccentricity_eq, ← mul_min_of_nonneg _ _ hk.le, ← mul_max_of_nonneg _ _ hk.le, mul_pow]
  rw [mul_div_mul_left _ _ (by positivity)]

theorem C10.circle_eccentricity (r : ℝ) (hr : 0 < r) : Circle.eccentricity r = Ellipse.eccentricity r r := by
  rw [(eccentricity_eq_zero_iff r r hr hr).mpr rfl]; simp [Circle.eccentricity, Scalar.lit]

/-! ## 5. Perimeter = arc length -/

/-- **pointwise identity behind `4 a E(e²)`**: for `a ≥ b > 0` the Legendre integrand
`a √(1 − e² sin²θ)` (with the code's `e²`) is `√(a² cos²θ + b² sin²θ)` -/
theorem C10.perimeter_integrand (a b θ : ℝ) (hab : b ≤ a) (hb : 0 < b) :
    a * Real.sqrt (1 - Ellipse.ellipeArg a b * Real.sin θ ^ 2)
      = Real.sqrt (a ^ 2 * Real.cos θ ^ 2 + b ^ 2 * Real.sin θ ^ 2) := by
  have ha : 0 < a := lt_of_lt_of_le hb hab
  rw [ellipeArg_eq a b ha hb, min_eq_right hab, max_eq_left hab]
  have h1 : a ^ 2 * Real.cos θ ^ 2 + b ^ 2 * Real.sin θ ^ 2
      = a ^ 2 * (1 - (1 - b ^ 2 / a ^ 2) * Real.sin θ ^ 2) := by
    have := Real.sin_sq_add_cos_sq θ
    field_simp
    linear_combination (a ^ 2) * this
  rw [h1, Real.sqrt_mul (sq_nonneg a), Real.sqrt_sq ha.le]

example : (2 : ℝ) * Real.sqrt (1 - Ellipse.ellipeArg 2 1 * Real.sin 1 ^ 2)
    = Real.sqrt (2 ^ 2 * Real.cos 1 ^ 2 + 1 ^ 2 * Real.sin 1 ^ 2) :=
  perimeter_integrand 2 1 1 (by norm_num) (by norm_num)

/-- the same integrand is the speed of `θ ↦ (a cos θ, b sin θ)` at the complementary angle -/
theorem C10.perimeter_integrand_speed (a b θ : ℝ) (hab : b ≤ a) (hb : 0 < b) :
    a * Real.sqrt (1 - Ellipse.ellipeArg a b * Real.sin θ ^ 2) = CSpec.arcSpeed a b (Real.pi / 2 - θ) := by
  rw [perimeter_integrand a b θ hab hb, arcSpeed_real, Real.sin_pi_div_two_sub, Real.cos_pi_div_two_sub]

theorem C10.perimeter_symm (ellipe : ℝ → ℝ) (a b : ℝ) :
    Ellipse.perimeter ellipe a b = Ellipse.perimeter ellipe b a := by
  simp only [perimeter_eq, Ellipse.ellipeArg, eccentricity_symm a b, max_comm a b]

/-- degree-1 homogeneity (the argument of `ellipe` is scale free) -/
theorem C10.perimeter_homog (ellipe : ℝ → ℝ) (k a b : ℝ) (hk : 0 < k) :
    Ellipse.perimeter ellipe (k * a) (k * b) = k * Ellipse.perimeter ellipe a b := by
  simp only [perimeter_eq, Ellipse.ellipeArg, eccentricity_homog k a b hk,
    ← mul_max_of_nonneg _ _ hk.le]
  ring

/-- circle limit: with `E(0) = π/2` the ellipse perimeter at `a = b = r` is the circle's `2πr` -/
theorem C10.perimeter_circle (ellipe : ℝ → ℝ) (h0 : ellipe 0 = Real.pi / 2) (r : ℝ) (hr : 0 < r) :
    Ellipse.perimeter ellipe r r = Circle.perimeter r := by
  rw [perimeter_eq, ellipeArg_eq r r hr hr]
  simp only [min_self, max_self, Circle.perimeter, Scalar.lit, Scalar.ofNat_real, Nat.cast_ofNat,
    Scalar.pi_real]
  rw [div_self (by positivity), sub_self, h0]; ring

/-- **Ellipse.perimeter is the arc length** `4 ∫₀^{π/2} |γ'(θ)| dθ` of `γ(θ) = (a cos θ, b sin θ)`, for
all positive semi-axes in either order, relative to the contract of `scipy.special.ellipe`. -/
theorem C10.perimeter_eq_arclength (ellipe : ℝ → ℝ) (hE : IsEllipe ellipe) (a b : ℝ) (ha : 0 < a) (hb : 0 < b) :
    Ellipse.perimeter ellipe a b = 4 * ∫ θ in (0:ℝ)..Real.pi / 2, CSpec.arcSpeed a b θ := by
  rcases le_total b a with h | h
  · exact perimeter_eq_arclength_ordered ellipe hE a b hb h
  · rw [perimeter_symm, perimeter_eq_arclength_ordered ellipe hE b a ha h, arcSpeed_quarter_swap]

/-- non-vacuity: Legendre's integral itself satisfies the contract -/
example : IsEllipe (fun m => ∫ θ in (0:ℝ)..Real.pi / 2, Real.sqrt (1 - m * Real.sin θ ^ 2)) :=
  fun _ _ _ => rfl

/-- the circle's perimeter is the same arc-length integral (no contract needed) -/
theorem C10.circle_perimeter_eq_arclength (r : ℝ) (hr : 0 ≤ r) :
    Circle.perimeter r = 4 * ∫ θ in (0:ℝ)..Real.pi / 2, CSpec.arcSpeed r r θ := by
  have : ∀ θ, CSpec.arcSpeed r r θ = r := by
    intro θ
    rw [arcSpeed_real, ← mul_add, Real.sin_sq_add_cos_sq, mul_one, Real.sqrt_sq hr]
  simp only [this, intervalIntegral.integral_const, Circle.perimeter, Scalar.lit, Scalar.ofNat_real,
    Nat.cast_ofNat, Scalar.pi_real, smul_eq_mul]
  ring

/-! ## 6. Isoperimetric quotients -/

theorem C10.iq2_eq_spec (A P : ℝ) : iq2 A P = CSpec.iq2 A P := by
  simp only [iq2, CSpec.iq2, Scalar.lit, Scalar.sqr, Scalar.ofNat_real, Nat.cast_ofNat, Scalar.pi_real]
  rcases eq_or_ne P 0 with rfl | hP
  · simp
  · have := Real.pi_ne_zero
    field_simp

theorem C10.iq3_eq_spec (V S : ℝ) : iq3 V S = CSpec.iq3 V S := by
  simp only [iq3, CSpec.iq3, Scalar.lit, Scalar.sqr, Scalar.cube, Scalar.ofNat_real, Nat.cast_ofNat,
    Scalar.pi_real]
  rcases eq_or_ne S 0 with rfl | hS
  · simp
  · have := Real.pi_ne_zero
    field_simp
    ring

theorem C10.circle_iq_eq_one (r : ℝ) : Circle.iq r = 1 := by
  simp [Circle.iq, Scalar.lit]

/-- the literal `1` agrees with the definition `4πA/P²` on the circle's own measures -/
theorem C10.circle_iq_consistent (r : ℝ) (hr : r ≠ 0) :
    iq2 (Circle.area r) (Circle.perimeter r) = Circle.iq r := by
  simp only [iq2, Circle.area, Circle.perimeter, Circle.iq, Scalar.lit, Scalar.sqr, Scalar.ofNat_real,
    Nat.cast_ofNat, Nat.cast_one, Scalar.pi_real]
  have := Real.pi_ne_zero
  field_simp
  ring

theorem C10.sphere_iq_eq_one (r : ℝ) : Sphere.iq r = 1 := by
  simp [Sphere.iq, Scalar.lit]

theorem C10.sphere_iq_consistent (r : ℝ) (hr : r ≠ 0) :
    iq3 (Sphere.volume r) (Sphere.surfaceArea r) = Sphere.iq r := by
  simp only [iq3, Sphere.volume, Sphere.surfaceArea, Sphere.iq, Scalar.lit, Scalar.q, Scalar.sqr,
    Scalar.cube, Scalar.ofNat_real, Nat.cast_ofNat, Nat.cast_one, Scalar.pi_real]
  have := Real.pi_ne_zero
  field_simp
  ring

/-- the ellipse quotient is clamped: at most 1 whatever `ellipe` returns -/
theorem C10.ellipse_iq_le_one (ellipe : ℝ → ℝ) (a b : ℝ) : Ellipse.iq ellipe a b ≤ 1 := by
  simp only [Ellipse.iq, Scalar.min_real, Scalar.lit, Scalar.ofNat_real, Nat.cast_one]
  exact min_le_right _ _

theorem C10.ellipse_iq_eq (ellipe : ℝ → ℝ) (a b : ℝ) :
    Ellipse.iq ellipe a b = Min.min (iq2 (Ellipse.area a b) (Ellipse.perimeter ellipe a b)) 1 := by
  simp only [Ellipse.iq, Scalar.min_real, Scalar.lit, Scalar.ofNat_real, Nat.cast_one]

/-- **how the code computes the quotient**: from the AREA and the PERIMETER, `min(4π·(πab)/(4·max·E(e²))², 1)` — not
from the eccentricity.  (Harness: the model's value at `Float` is compared with the implementation relative to itself, so
an implementation that recovers `b/a` as `√(1 − e²)` from the rounded eccentricity is a model/implementation
disagreement on needles.) -/
theorem C10.ellipse_iq_def (ellipe : ℝ → ℝ) (a b : ℝ) :
    Ellipse.iq ellipe a b
      = Min.min (4 * Real.pi * (Real.pi * a * b) / (4 * Max.max a b * ellipe (Ellipse.ellipeArg a b)) ^ 2) 1 := by
  rw [ellipse_iq_eq, perimeter_eq]
  simp only [iq2, Ellipse.area, Scalar.lit, Scalar.sqr, Scalar.ofNat_real, Nat.cast_ofNat, Scalar.pi_real, pow_two]

/-- over ℝ the same quotient is `π² √(1 − e²) / (4 E(e²)²)` with `e` the eccentricity (the "scale-free" form): the two
differ by ROUNDING only (`1 − e²` cancels for needles), which is why the oracle compares `iq` relative to itself -/
theorem C10.ellipse_iq_eccentricity_form (ellipe : ℝ → ℝ) (a b : ℝ) (ha : 0 < a) (hb : 0 < b)
    (hE : ellipe (Ellipse.ellipeArg a b) ≠ 0) :
    iq2 (Ellipse.area a b) (Ellipse.perimeter ellipe a b)
      = Real.pi ^ 2 * Real.sqrt (1 - Ellipse.eccentricity a b ^ 2) / (4 * ellipe (Ellipse.ellipeArg a b) ^ 2) := by
  have hM : 0 < Max.max a b := lt_max_of_lt_left ha
  have hm : 0 < Min.min a b := lt_min ha hb
  have hs : Real.sqrt (1 - Ellipse.eccentricity a b ^ 2) = Min.min a b / Max.max a b := by
    rw [eccentricity_sq a b ha hb, sub_sub_cancel, ← div_pow, Real.sqrt_sq (by positivity)]
  have hab : a * b = Min.min a b * Max.max a b := (min_mul_max a b).symm
  rw [hs, perimeter_eq]
  simp only [iq2, Ellipse.area, Scalar.lit, Scalar.sqr, Scalar.ofNat_real, Nat.cast_ofNat, Scalar.pi_real]
  rw [mul_assoc Real.pi a b, hab]
  have hpi := Real.pi_ne_zero
  field_simp

example : (0 : ℝ) < 1000 ∧ (0 : ℝ) < 1 / 1000 := by norm_num

/-- the perimeter is at least `π(a+b)` (Jensen on the arc-length integrand) -/
theorem C10.perimeter_ge (ellipe : ℝ → ℝ) (hE : IsEllipe ellipe) (a b : ℝ) (ha : 0 < a) (hb : 0 < b) :
    Real.pi * (a + b) ≤ Ellipse.perimeter ellipe a b := by
  rw [perimeter_eq_arclength ellipe hE a b ha hb]
  have := quarter_arc_ge a b
  linarith

/-- **isoperimetric inequality for the ellipse**: the UNCLAMPED quotient `4πA/P²` of the code's area
and perimeter is at most `4ab/(a+b)² ≤ 1` (so the clamp never hides anything), relative to the
contract of `ellipe`. -/
theorem C10.ellipse_isoperimetric (ellipe : ℝ → ℝ) (hE : IsEllipe ellipe) (a b : ℝ) (ha : 0 < a) (hb : 0 < b) :
    iq2 (Ellipse.area a b) (Ellipse.perimeter ellipe a b) ≤ 4 * a * b / (a + b) ^ 2 := by
  have hP := perimeter_ge ellipe hE a b ha hb
  have hpi := Real.pi_pos
  have hP0 : 0 < Real.pi * (a + b) := by positivity
  simp only [iq2, Ellipse.area, Scalar.lit, Scalar.sqr, Scalar.ofNat_real, Nat.cast_ofNat, Scalar.pi_real]
  set P := Ellipse.perimeter ellipe a b
  have hPP : (Real.pi * (a + b)) ^ 2 ≤ P * P := by nlinarith
  rw [div_le_div_iff₀ (by nlinarith) (by positivity)]
  have hab : 0 < a * b := by positivity
  nlinarith [mul_le_mul_of_nonneg_left hPP (by positivity : 0 ≤ 4 * a * b)]

/-- "at most 1, equal to 1 only for the circle": for `a ≠ b` the quotient is strictly below 1 -/
theorem C10.ellipse_iq_lt_one (ellipe : ℝ → ℝ) (hE : IsEllipe ellipe) (a b : ℝ) (ha : 0 < a) (hb : 0 < b)
    (hne : a ≠ b) : Ellipse.iq ellipe a b < 1 := by
  rw [ellipse_iq_eq]
  apply lt_of_le_of_lt (min_le_left _ _)
  apply lt_of_le_of_lt (ellipse_isoperimetric ellipe hE a b ha hb)
  rw [div_lt_one (by positivity)]
  have : 0 < (a - b) ^ 2 := by positivity
  nlinarith

example : (0 : ℝ) < 2 ∧ (0 : ℝ) < 1 ∧ (2 : ℝ) ≠ 1 := by norm_num

/-- and for the circular ellipse the quotient is exactly 1 (given `E(0) = π/2`) -/
theorem C10.ellipse_iq_circle (ellipe : ℝ → ℝ) (h0 : ellipe 0 = Real.pi / 2) (r : ℝ) (hr : 0 < r) :
    Ellipse.iq ellipe r r = 1 := by
  rw [ellipse_iq_eq, perimeter_circle ellipe h0 r hr, ellipse_area_circle, circle_iq_consistent r hr.ne',
    circle_iq_eq_one, min_self]

/-! ## 7. Ellipsoid surface area: structure of the code's formula

Proved here: invariance under all permutations of the semi-axes (they are sorted first), degree-2
homogeneity, the sphere value, and the consequences for `iq`.  §8 proves the formula equal to the surface
integral on spheroids and the isoperimetric inequality.  NOT proved: that Legendre's formula
`2π(c² + ab/sinφ · (E(φ,m) sin²φ + F(φ,m) cos²φ))` equals the surface integral for THREE DISTINCT axes;
this is a certificate checked numerically per run against adaptive quadrature of that surface integral. -/

theorem C10.surface_area_swap12 (E K : ℝ → ℝ → ℝ) (a b c : ℝ) :
    Ellipsoid.surfaceArea E K a b c = Ellipsoid.surfaceArea E K b a c := by
  unfold Ellipsoid.surfaceArea; rw [sort3_swap12 a b c]

theorem C10.surface_area_swap23 (E K : ℝ → ℝ → ℝ) (a b c : ℝ) :
    Ellipsoid.surfaceArea E K a b c = Ellipsoid.surfaceArea E K a c b := by
  unfold Ellipsoid.surfaceArea; rw [sort3_swap23 a b c]

/-- all six orderings of the semi-axes give the same surface area -/
theorem C10.surface_area_perm (E K : ℝ → ℝ → ℝ) (a b c : ℝ) :
    Ellipsoid.surfaceArea E K b a c = Ellipsoid.surfaceArea E K a b c ∧
    Ellipsoid.surfaceArea E K a c b = Ellipsoid.surfaceArea E K a b c ∧
    Ellipsoid.surfaceArea E K c b a = Ellipsoid.surfaceArea E K a b c ∧
    Ellipsoid.surfaceArea E K b c a = Ellipsoid.surfaceArea E K a b c ∧
    Ellipsoid.surfaceArea E K c a b = Ellipsoid.surfaceArea E K a b c := by
  refine ⟨(surface_area_swap12 E K a b c).symm, (surface_area_swap23 E K a b c).symm, ?_, ?_, ?_⟩
  · rw [surface_area_swap12 E K c b a, surface_area_swap23 E K b c a, surface_area_swap12 E K b a c]
  · rw [surface_area_swap23 E K b c a, surface_area_swap12 E K b a c]
  · rw [surface_area_swap12 E K c a b, surface_area_swap23 E K a c b]

theorem C10.ellipticPart_homog (E K : ℝ → ℝ → ℝ) (k a b c : ℝ) (hk : 0 < k) :
    Ellipsoid.ellipticPart E K (k * a) (k * b) (k * c) = Ellipsoid.ellipticPart E K a b c := by
  have hphi : Ellipsoid.saPhi (k * a) (k * c) = Ellipsoid.saPhi a c := by
    simp only [Ellipsoid.saPhi]; rw [mul_div_mul_left _ _ hk.ne']
  have hm : Ellipsoid.saM (k * a) (k * b) (k * c) = Ellipsoid.saM a b c := by
    simp only [Ellipsoid.saM, Scalar.sqr]
    have e1 : k * a * (k * a) * (k * b * (k * b) - k * c * (k * c)) = (k ^ 4) * (a * a * (b * b - c * c)) := by ring
    have e2 : k * b * (k * b) * (k * a * (k * a) - k * c * (k * c)) = (k ^ 4) * (b * b * (a * a - c * c)) := by ring
    rw [e1, e2, mul_div_mul_left _ _ (by positivity)]
  unfold Ellipsoid.ellipticPart
  simp only [hphi, hm, Scalar.lt_real, mul_lt_mul_iff_right₀ hk]

/-- degree-2 homogeneity (`phi` and `m` are scale free) -/
theorem C10.surface_area_homog (E K : ℝ → ℝ → ℝ) (k a b c : ℝ) (hk : 0 < k) :
    Ellipsoid.surfaceArea E K (k * a) (k * b) (k * c) = k ^ 2 * Ellipsoid.surfaceArea E K a b c := by
  unfold Ellipsoid.surfaceArea
  rw [sort3_scale hk.le]
  simp only [ellipticPart_homog E K k _ _ _ hk, Scalar.sqr]
  ring

/-- sphere limit: at `a = b = c = r` the `else` branch gives `4πr²` -/
theorem C10.surface_area_sphere (E K : ℝ → ℝ → ℝ) (r : ℝ) :
    Ellipsoid.surfaceArea E K r r r = Sphere.surfaceArea r := by
  unfold Ellipsoid.surfaceArea
  rw [sort3_sorted le_rfl le_rfl]
  simp only [Ellipsoid.ellipticPart, lt_irrefl, if_false, Sphere.surfaceArea, Scalar.lit,
    Scalar.sqr, Scalar.ofNat_real, Nat.cast_ofNat, Nat.cast_one]
  ring

/-- over ℝ the arguments handed to `ellipeinc/ellipkinc` are inside their domain: `0 ≤ m ≤ 1` and
`0 ≤ φ ≤ π/2` for sorted positive axes with `c < a`.  (In floating point `m` can round to `1 + 2⁻⁵²`
when `a` and `b` are 1 ulp apart, and scipy then returns nan: known finding
`Ellipsoid.surface_area:nan:m-rounds-above-1:near-oblate-tie`; rounding is outside these theorems.) -/
theorem C10.saM_range (a b c : ℝ) (hc : 0 < c) (hcb : c ≤ b) (hba : b ≤ a) (hca : c < a) :
    0 ≤ Ellipsoid.saM a b c ∧ Ellipsoid.saM a b c ≤ 1 := by
  simp only [Ellipsoid.saM, Scalar.sqr]
  have hb : 0 < b := lt_of_lt_of_le hc hcb
  have ha : 0 < a := lt_of_lt_of_le hb hba
  have h1 : 0 ≤ b * b - c * c := by nlinarith
  have h2 : 0 < a * a - c * c := by nlinarith
  have hden : 0 < b * b * (a * a - c * c) := by positivity
  constructor
  · exact div_nonneg (mul_nonneg (by positivity) h1) hden.le
  · rw [div_le_one hden]
    nlinarith [mul_le_mul_of_nonneg_right (mul_self_le_mul_self hb.le hba) (mul_self_nonneg c)]

theorem C10.saPhi_range (a c : ℝ) (hc : 0 < c) (hca : c < a) :
    0 < Ellipsoid.saPhi a c ∧ Ellipsoid.saPhi a c ≤ Real.pi / 2 := by
  simp only [Ellipsoid.saPhi, Scalar.acos_real]
  have ha : 0 < a := lt_trans hc hca
  constructor
  · rw [Real.arccos_pos, div_lt_one ha]; exact hca
  · rw [Real.arccos_le_pi_div_two]; positivity

example : (0 : ℝ) < 1 ∧ (1 : ℝ) ≤ 2 ∧ (2 : ℝ) ≤ 3 ∧ (1 : ℝ) < 3 := by norm_num

/-- PARTIAL: the three structural facts about `Ellipsoid.surface_area` bundled (all axes); missing is
Legendre's formula = surface integral for three DISTINCT axes (spheroids: `spheroid_surface_area`, §8). -/
theorem C10.ellipsoid_surface_area_partial (E K : ℝ → ℝ → ℝ) (a b c k r : ℝ) (hk : 0 < k) :
    (Ellipsoid.surfaceArea E K b a c = Ellipsoid.surfaceArea E K a b c ∧
     Ellipsoid.surfaceArea E K a c b = Ellipsoid.surfaceArea E K a b c) ∧
    Ellipsoid.surfaceArea E K (k * a) (k * b) (k * c) = k ^ 2 * Ellipsoid.surfaceArea E K a b c ∧
    Ellipsoid.surfaceArea E K r r r = 4 * Real.pi * r ^ 2 := by
  refine ⟨⟨(surface_area_swap12 E K a b c).symm, (surface_area_swap23 E K a b c).symm⟩,
    surface_area_homog E K k a b c hk, ?_⟩
  rw [surface_area_sphere]
  simp only [Sphere.surfaceArea, Scalar.lit, Scalar.sqr, Scalar.ofNat_real, Nat.cast_ofNat, Scalar.pi_real]
  ring

example : (0 : ℝ) < 3 := by norm_num

theorem C10.ellipsoid_iq_sphere (E K : ℝ → ℝ → ℝ) (r : ℝ) (hr : r ≠ 0) : Ellipsoid.iq E K r r r = 1 := by
  unfold Ellipsoid.iq
  rw [surface_area_sphere, ellipsoid_volume_sphere, sphere_iq_consistent r hr, sphere_iq_eq_one]

theorem C10.ellipsoid_iq_perm (E K : ℝ → ℝ → ℝ) (a b c : ℝ) :
    Ellipsoid.iq E K b a c = Ellipsoid.iq E K a b c ∧ Ellipsoid.iq E K a c b = Ellipsoid.iq E K a b c := by
  unfold Ellipsoid.iq
  rw [← surface_area_swap12 E K a b c, ← surface_area_swap23 E K a b c, ← (ellipsoid_volume_perm a b c).1,
    ← (ellipsoid_volume_perm a b c).2]
  exact ⟨rfl, rfl⟩

/-- the area element of the standard parametrisation at a sphere is `r² sin θ` (integral `4πr²`) -/
theorem C10.surfElement_sphere (r θ φ : ℝ) :
    CSpec.surfElement r r r θ φ = r ^ 2 * Real.sin θ := by
  simp only [CSpec.surfElement, Scalar.sqrt_real, Scalar.sin_real, Scalar.cos_real]
  have h : r * r * r * r * Real.sin θ * Real.sin θ * Real.cos φ * Real.cos φ
      + r * r * r * r * Real.sin θ * Real.sin θ * Real.sin φ * Real.sin φ
      + r * r * r * r * Real.cos θ * Real.cos θ = (r ^ 2) ^ 2 := by
    have h1 := Real.sin_sq_add_cos_sq θ
    have h2 := Real.sin_sq_add_cos_sq φ
    linear_combination (r ^ 4 * Real.sin θ ^ 2) * h2 + r ^ 4 * h1
  rw [h, Real.sqrt_sq (by positivity)]; ring

/-- the surface integrand has the same degree-2 homogeneity as the code's formula -/
theorem C10.surfElement_homog (k a b c θ φ : ℝ) :
    CSpec.surfElement (k * a) (k * b) (k * c) θ φ = k ^ 2 * CSpec.surfElement a b c θ φ := by
  simp only [CSpec.surfElement, Scalar.sqrt_real, Scalar.sin_real, Scalar.cos_real]
  have h : ∀ x y z : ℝ, k * b * (k * b) * (k * c) * (k * c) * x + k * a * (k * a) * (k * c) * (k * c) * y
      + k * a * (k * a) * (k * b) * (k * b) * z
      = (k ^ 2) ^ 2 * (b * b * c * c * x + a * a * c * c * y + a * a * b * b * z) := by intros; ring
  have := h (Real.sin θ * Real.sin θ * Real.cos φ * Real.cos φ) (Real.sin θ * Real.sin θ * Real.sin φ * Real.sin φ)
    (Real.cos θ * Real.cos θ)
  simp only [← mul_assoc] at this ⊢
  rw [this, Real.sqrt_mul (by positivity), Real.sqrt_sq (by positivity)]; ring


/-! ## 8. Ellipsoid surface: the defining surface integral, spheroids in full, isoperimetric inequality

`surfaceIntegral a b c = ∫₀^π ∫₀^{2π} |∂θ × ∂φ| dφ dθ` (Mathlib interval integrals of `CSpec.surfElement`).

* the code's formula EQUALS that integral for every spheroid `(a, a, c)` — oblate, spherical or prolate — in every order
  of the constructor arguments, relative to the contracts `IsEllipeinc / IsEllipkinc` of scipy's incomplete elliptic
  integrals (evaluated in closed form at `m = 1` / `m = 0`; the surface integral by the fundamental theorem of calculus);
* for EVERY ellipsoid the surface integral satisfies `S ≥ (4π/3)(ab+bc+ca)`, hence `36πV²/S³ ≤ 27(abc)²/(ab+bc+ca)³ ≤ 1`
  with equality only for the sphere: `Ellipsoid.iq ≤ 1` is a theorem wherever the code's value is (at least) the surface
  integral — unconditionally (given the contracts) on spheroids, and relative to the per-run checked certificate
  `Ellipsoid.surfaceArea = surfaceIntegral` (Legendre's formula, NOT proved for three distinct axes) in general. -/

/-- **`Ellipsoid.surface_area` of a spheroid is the surface integral** (spec axis order: the distinct axis is the polar
axis of the parametrisation), for `a > c` (oblate), `a = c`, `a < c` (prolate) -/
theorem C10.spheroid_surface_area (E K : ℝ → ℝ → ℝ) (hE : IsEllipeinc E) (hK : IsEllipkinc K) (a c : ℝ)
    (ha : 0 < a) (hc : 0 < c) : Ellipsoid.surfaceArea E K a a c = surfaceIntegral a a c := by
  rcases lt_trichotomy c a with h | h | h
  · rw [surfaceArea_oblate_code E K hE hK a c hc h, surfaceIntegral_oblate a c hc h]
  · subst h
    rw [surface_area_sphere, surfaceIntegral_sphere c hc.le]
    simp only [Sphere.surfaceArea, Scalar.lit, Scalar.sqr, Scalar.ofNat_real, Nat.cast_ofNat, Scalar.pi_real]; ring
  · rw [surfaceArea_prolate_code E K hE hK c a ha h, surfaceIntegral_prolate c a ha h]

/-- the same for the other two placements of the distinct semi-axis among the constructor arguments -/
theorem C10.spheroid_surface_area_perm (E K : ℝ → ℝ → ℝ) (hE : IsEllipeinc E) (hK : IsEllipkinc K) (a c : ℝ)
    (ha : 0 < a) (hc : 0 < c) :
    Ellipsoid.surfaceArea E K a c a = surfaceIntegral a a c ∧ Ellipsoid.surfaceArea E K c a a = surfaceIntegral a a c := by
  refine ⟨?_, ?_⟩
  · rw [← surface_area_swap23, spheroid_surface_area E K hE hK a c ha hc]
  · rw [surface_area_swap12 E K c a a, ← surface_area_swap23, spheroid_surface_area E K hE hK a c ha hc]

/-- non-vacuity: Legendre's integrals themselves satisfy the contracts -/
example : IsEllipeinc (fun φ m => ∫ t in (0:ℝ)..φ, Real.sqrt (1 - m * Real.sin t ^ 2)) ∧
    IsEllipkinc (fun φ m => ∫ t in (0:ℝ)..φ, (Real.sqrt (1 - m * Real.sin t ^ 2))⁻¹) :=
  ⟨fun _ _ _ _ _ _ => rfl, fun _ _ _ _ _ _ => rfl⟩

/-- closed forms (oblate: `arsinh`, prolate: `arcsin`) of the surface integral -/
theorem C10.spheroid_surface_closed_form (a c : ℝ) (hc : 0 < c) (hca : c < a) :
    surfaceIntegral a a c
      = 2 * Real.pi * (a ^ 2 + a * c ^ 2 / Real.sqrt (a ^ 2 - c ^ 2) * Real.arsinh (Real.sqrt (a ^ 2 - c ^ 2) / c)) ∧
    surfaceIntegral c c a
      = 2 * Real.pi * (c ^ 2 + a ^ 2 * c / Real.sqrt (a ^ 2 - c ^ 2) * Real.arcsin (Real.sqrt (a ^ 2 - c ^ 2) / a)) :=
  ⟨surfaceIntegral_oblate a c hc hca, surfaceIntegral_prolate a c hc hca⟩

example : (0 : ℝ) < 1 ∧ (1 : ℝ) < 2 := by norm_num

/-- structural facts of the surface integral matching those of the code: sphere value, degree-2 homogeneity,
monotonicity in a semi-axis, and the lower bound `(4π/3)(ab+bc+ca)` -/
theorem C10.surfaceIntegral_facts (a b c k : ℝ) (ha : 0 ≤ a) :
    surfaceIntegral a a a = 4 * Real.pi * a ^ 2 ∧
    surfaceIntegral (k * a) (k * b) (k * c) = k ^ 2 * surfaceIntegral a b c ∧
    (∀ a', a ≤ a' → surfaceIntegral a b c ≤ surfaceIntegral a' b c) ∧
    4 * Real.pi / 3 * (a * b + b * c + c * a) ≤ surfaceIntegral a b c := by
  refine ⟨surfaceIntegral_sphere a ha, ?_, fun a' h => surfaceIntegral_mono_left a a' b c ha h, surfaceIntegral_ge a b c⟩
  unfold surfaceIntegral
  simp only [surfElement_homog, intervalIntegral.integral_const_mul]

/-- the surface integral is symmetric in the two equatorial semi-axes and monotone in all three (the symmetry in
the POLAR axis — a genuine change of variables on the sphere — is not proved; the code's formula is symmetric in all
three: `surface_area_perm`) -/
theorem C10.surfaceIntegral_symm_mono (a b c : ℝ) :
    surfaceIntegral b a c = surfaceIntegral a b c ∧
    (∀ a' b' c', 0 ≤ a → 0 ≤ b → 0 ≤ c → a ≤ a' → b ≤ b' → c ≤ c' → surfaceIntegral a b c ≤ surfaceIntegral a' b' c') :=
  ⟨surfaceIntegral_swap12 a b c, fun a' b' c' ha hb hc h1 h2 h3 => surfaceIntegral_mono a a' b b' c c' ha hb hc h1 h2 h3⟩

/-- **isoperimetric inequality for every ellipsoid**: whenever the reported surface area is at least the surface
integral (in particular when it equals it), `iq = 36πV²/S³ ≤ 27(abc)²/(ab+bc+ca)³ ≤ 1`, and `< 1` unless `a = b = c` -/
theorem C10.ellipsoid_isoperimetric (E K : ℝ → ℝ → ℝ) (a b c : ℝ) (ha : 0 < a) (hb : 0 < b) (hc : 0 < c)
    (hS : surfaceIntegral a b c ≤ Ellipsoid.surfaceArea E K a b c) :
    Ellipsoid.iq E K a b c ≤ iqBound a b c ∧ Ellipsoid.iq E K a b c ≤ 1 ∧
      (¬ (a = b ∧ b = c) → Ellipsoid.iq E K a b c < 1) := by
  have h := iq3_surfaceIntegral_le a b c ha hb hc _ hS
  exact ⟨h, h.trans (iqBound_le_one a b c ha hb hc), fun hne => lt_of_le_of_lt h (iqBound_lt_one a b c ha hb hc hne)⟩

/-- the isoperimetric clause relative to the Legendre certificate (checked numerically per run) -/
theorem C10.ellipsoid_iq_of_legendre (E K : ℝ → ℝ → ℝ) (a b c : ℝ) (ha : 0 < a) (hb : 0 < b) (hc : 0 < c)
    (hL : Ellipsoid.surfaceArea E K a b c = surfaceIntegral a b c) :
    Ellipsoid.iq E K a b c ≤ 1 ∧ (Ellipsoid.iq E K a b c = 1 ↔ (a = b ∧ b = c)) := by
  obtain ⟨-, h1, h2⟩ := ellipsoid_isoperimetric E K a b c ha hb hc hL.ge
  refine ⟨h1, ⟨fun h => by_contra fun hne => (h2 hne).ne h, ?_⟩⟩
  rintro ⟨rfl, rfl⟩
  exact ellipsoid_iq_sphere E K a ha.ne'

/-- **"iq at most 1, equal to 1 only for the sphere" for spheroids** (any argument order), relative only to the
contracts of the incomplete elliptic integrals -/
theorem C10.spheroid_iq (E K : ℝ → ℝ → ℝ) (hE : IsEllipeinc E) (hK : IsEllipkinc K) (a c : ℝ) (ha : 0 < a) (hc : 0 < c) :
    Ellipsoid.iq E K a a c ≤ 1 ∧ (Ellipsoid.iq E K a a c = 1 ↔ a = c) ∧
    Ellipsoid.iq E K a c a = Ellipsoid.iq E K a a c ∧ Ellipsoid.iq E K c a a = Ellipsoid.iq E K a a c := by
  obtain ⟨h1, h2⟩ := ellipsoid_iq_of_legendre E K a a c ha ha hc (spheroid_surface_area E K hE hK a c ha hc)
  refine ⟨h1, ?_, ?_, ?_⟩
  · rw [h2]; exact ⟨fun h => h.2, fun h => ⟨rfl, h⟩⟩
  · exact ((ellipsoid_iq_perm E K a a c).2)
  · rw [← (ellipsoid_iq_perm E K c a a).1]; exact ((ellipsoid_iq_perm E K a a c).2)

example : (0 : ℝ) < 2 ∧ (0 : ℝ) < 1 := by norm_num

/-! ## 9. Shapes reached through their setters

The property speaks about the shape with its CURRENT attributes, however it got them.  In the model (as in the code)
the classes store nothing but the attributes: after any history of statements — axis / radius assignments (failing ones
included), centre assignments, reads of any getter, `to_hoomd` — every attribute is the value of its last successful
assignment, so every getter equals the getter of the freshly constructed shape.  The harness drives the implementation
through such histories and compares with `St.run` (op `c10.history.run`) and with the fresh shape. -/

/-- **history independence**: if a history assigns (successfully) `a, b, c` and the centre at least once, the final state
is the one of the fresh shape with the last assigned values, whatever the initial shape and whatever else happened -/
theorem C10.history_independent (s : St ℝ) (steps : List (Step ℝ)) (a b c : ℝ) (q : V3 ℝ)
    (ha : lastA steps = some a) (hb : lastB steps = some b) (hc : lastC steps = some c) (hq : lastCen steps = some q) :
    s.run steps = ⟨a, b, c, q⟩ := by
  have h1 := St.run_a s steps
  have h2 := St.run_b s steps
  have h3 := St.run_c s steps
  have h4 := St.run_cen s steps
  rw [ha] at h1; rw [hb] at h2; rw [hc] at h3; rw [hq] at h4
  cases h : s.run steps with
  | mk a' b' c' q' =>
    rw [h] at h1 h2 h3 h4
    simp only [Option.getD_some] at h1 h2 h3 h4
    rw [h1, h2, h3, h4]

/-- the one-axis classes (Circle, Sphere: `radius = a`) and the two-axis class: the attributes they read -/
theorem C10.history_independent_partial (s : St ℝ) (steps : List (Step ℝ)) :
    (s.run steps).a = (lastA steps).getD s.a ∧ (s.run steps).b = (lastB steps).getD s.b ∧
    (s.run steps).c = (lastC steps).getD s.c ∧ (s.run steps).cen = (lastCen steps).getD s.cen :=
  ⟨St.run_a s steps, St.run_b s steps, St.run_c s steps, St.run_cen s steps⟩

/-- reads, `to_hoomd` and failed assignments change nothing -/
theorem C10.history_noop (s : St ℝ) (v : ℝ) (hv : ¬ 0 < v) :
    s.step .read = s ∧ s.step .toHoomd = s ∧ s.step (.setA v) = s ∧ s.step (.setB v) = s ∧ s.step (.setC v) = s ∧
    s.raises (.setA v) = true ∧ s.raises .read = false ∧ s.raises .toHoomd = false := by
  simp [St.step_eq, St.raises_eq, hv]

/-- read-back of a successful assignment -/
theorem C10.history_read_back (s : St ℝ) (v : ℝ) (hv : 0 < v) (q : V3 ℝ) :
    s.step (.setA v) = { s with a := v } ∧ s.step (.setB v) = { s with b := v } ∧ s.step (.setC v) = { s with c := v } ∧
    s.step (.setCen q) = { s with cen := q } ∧ s.raises (.setA v) = false := by
  simp [St.step_eq, St.raises_eq, hv]

/-- consequence for the measures (here: the two getters that a cache would most plausibly serve): after ANY history
ending in the attributes `(a,b,c,q)` they are those of the fresh `Ellipsoid(a,b,c,q)` -/
theorem C10.ellipsoid_getters_after_history (E K : ℝ → ℝ → ℝ) (s : St ℝ) (steps : List (Step ℝ)) (a b c : ℝ) (q : V3 ℝ)
    (ha : lastA steps = some a) (hb : lastB steps = some b) (hc : lastC steps = some c) (hq : lastCen steps = some q) :
    let t := s.run steps
    Ellipsoid.surfaceArea E K t.a t.b t.c = Ellipsoid.surfaceArea E K a b c ∧
    Ellipsoid.iq E K t.a t.b t.c = Ellipsoid.iq E K a b c ∧
    Ellipsoid.inertiaTensor t.a t.b t.c t.cen = Ellipsoid.inertiaTensor a b c q := by
  rw [history_independent s steps a b c q ha hb hc hq]
  exact ⟨rfl, rfl, rfl⟩

/-- non-vacuity: the history the harness uses (warm, assign in a shuffled order, a failed assignment in between) -/
example : (⟨7, 8, 9, ⟨1, 1, 1⟩⟩ : St ℝ).run
      [.read, .setC 1, .toHoomd, .setA (-5), .setCen ⟨2, 3, 5⟩, .setA 3, .read, .setB 2]
    = ⟨3, 2, 1, ⟨2, 3, 5⟩⟩ := by
  apply history_independent <;> simp [lastA, lastB, lastC, lastCen, assignA, assignB, assignC, assignCen]
