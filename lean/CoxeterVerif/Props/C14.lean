import CoxeterVerif.Lemmas.DistToSurface
/-!
  # C14 — distance_to_surface is the radial distance from the centre to the boundary

  Model: `Model/DistToSurface.lean` (namespace `DTS`), spec: `Spec/DistToSurface.lean`.
  All statements are over ℝ, for every angle `θ` (not only `[0, 2π)`), every `a, b, r > 0`,
  every edge / vertex, every number of vertices.  Coordinates are relative to the centre the
  code measures from.

  Proved in full
  * `ellipse_dts_eq`, `ellipse_dts_on_boundary`, `circle_dts`, `ellipse_dts_periodic`,
    `circle_dts_periodic`
  * `cpoly_dts_periodic`, `spg_dts_periodic`   (angles outside `[0, 2π)` are handled by `mod`)
  * `cpoly_edge_dts_eq`, `cpoly_dts_on_line`   (all three formula branches return THE positive
    parameter at which the ray meets the supporting line of the selected edge)
  * `cpoly_edge_dts_on_segment`                (a ray in the edge's angular sector meets the
    segment itself, and the code returns that distance)
  * `spg_outward_unit_normal`                  (`_get_outward_unit_normal`, all slope / sign cases:
    unit, perpendicular to the edge, pointing away from the centre)
  * `spg_arc_on_circle`, `spg_arc_root_largest` (arc branch: the returned root is on the vertex
    circle and is the larger root)
  `_partial`
  * `cpoly_dts_selects_edge_partial`: the angular bin `[α_i, α_{i+1}]` of the vertex angles the
    code computes selects an edge the ray really meets, and the coded branch returns that distance
    (hypotheses: `α_i < α_{i+1}`, `α_{i+1} − α_i < π`, `cos a ≠ 0` for a generic edge).
  * `cpoly_dts_on_boundary_partial`: the WHOLE function (mod, roll to the smallest angle, bins, wrap
    bin, `2π + eps` closing bound, three branches): if the computed vertex angles increase along
    the rolled list with gaps `< π` (`DTS.ChainOK`), then for every real `θ` the slot is assigned,
    `d > 0` and `centre + d(cos θ, sin θ)` is on an edge segment of the polygon.
    NOT proved: `ChainOK` from "convex, counter-clockwise, centre strictly inside" (a statement
    about `atan2` of consecutive vertices of a convex polygon); `cos θ ≠ 0` is assumed when the
    polygon has a generic edge (over ℝ `tan(π/2)` is a junk value; in floating point `cos` never
    vanishes and the oracle covers those angles).
  * The spheropolygon's straight part (offset vertices form the offset polygon; the arc ranges tile
    the complement of the straight parts) is correspondence + oracle only.
-/
open Scalar
set_option maxRecDepth 4000
noncomputable section

/-! ## Circle and ellipse -/

/-- the coded expression is the polar equation `ab / √(a² sin²θ + b² cos²θ)` -/
theorem ellipse_dts_eq (a b θ : ℝ) (ha : 0 < a) (hb : 0 < b) :
    DTS.ellipseDts a b θ =
      a * b / Real.sqrt (a * a * (Real.sin θ * Real.sin θ) + b * b * (Real.cos θ * Real.cos θ)) := by
  unfold DTS.ellipseDts
  simp only [Scalar.lit, Scalar.ofNat_real, Scalar.sqrt_real, Scalar.sin_real, Scalar.cos_real,
    Nat.cast_one]
  rw [ellipse_core a b _ _ ha hb (sin_mul_self_add_cos_mul_self θ)]
  rw [Real.sqrt_div (by positivity), Real.sqrt_mul_self (by positivity)]

/-- **C14 ellipse.** For all `θ` and all `a, b > 0` the returned `d` is positive and
`centre + d (cos θ, sin θ)` lies on the ellipse `x²/a² + y²/b² = 1`. -/
theorem ellipse_dts_on_boundary (a b θ : ℝ) (ha : 0 < a) (hb : 0 < b) :
    0 < DTS.ellipseDts a b θ ∧ Spec.onEllipse a b (Spec.rayPoint (DTS.ellipseDts a b θ) θ) := by
  have hD := ellipse_den_pos a b _ _ ha hb (sin_mul_self_add_cos_mul_self θ)
  have hs : 0 < Real.sqrt (a * a * (Real.sin θ * Real.sin θ) + b * b * (Real.cos θ * Real.cos θ)) :=
    Real.sqrt_pos.mpr hD
  have hss := Real.mul_self_sqrt hD.le
  rw [ellipse_dts_eq a b θ ha hb]
  refine ⟨div_pos (mul_pos ha hb) hs, ?_⟩
  unfold Spec.onEllipse Spec.rayPoint
  simp only [Scalar.lit, Scalar.ofNat_real, Scalar.sin_real, Scalar.cos_real, Nat.cast_one]
  have ha' : a ≠ 0 := ha.ne'
  have hb' : b ≠ 0 := hb.ne'
  set S := Real.sqrt (a * a * (Real.sin θ * Real.sin θ) + b * b * (Real.cos θ * Real.cos θ)) with hSdef
  have hs' : S ≠ 0 := hs.ne'
  field_simp
  linear_combination (-1 : ℝ) * hss

example : Spec.onEllipse (2 : ℝ) 3 (Spec.rayPoint (DTS.ellipseDts 2 3 (-7)) (-7)) :=
  (ellipse_dts_on_boundary 2 3 (-7) (by norm_num) (by norm_num)).2

/-- **C14 circle.** `d = r`, and the point is on the circle `x²/r² + y²/r² = 1`. -/
theorem circle_dts (r θ : ℝ) (hr : 0 < r) :
    DTS.circleDts r θ = r ∧ Spec.onEllipse r r (Spec.rayPoint (DTS.circleDts r θ) θ) := by
  have h1 : DTS.circleDts r θ = r := by simp [DTS.circleDts, Scalar.lit]
  refine ⟨h1, ?_⟩
  rw [h1]
  unfold Spec.onEllipse Spec.rayPoint
  simp only [Scalar.lit, Scalar.ofNat_real, Scalar.sin_real, Scalar.cos_real, Nat.cast_one]
  have hr' : r ≠ 0 := hr.ne'
  field_simp
  nlinarith [sin_mul_self_add_cos_mul_self θ]

example : Spec.onEllipse (5 : ℝ) 5 (Spec.rayPoint (DTS.circleDts 5 100) 100) :=
  (circle_dts 5 100 (by norm_num)).2

/-- periodicity: any whole number of turns gives the same distance -/
theorem ellipse_dts_periodic (a b θ : ℝ) (k : ℤ) :
    DTS.ellipseDts a b (θ + k * (2 * Real.pi)) = DTS.ellipseDts a b θ := by
  unfold DTS.ellipseDts
  simp only [Scalar.sin_real, Scalar.cos_real, Real.sin_add_int_mul_two_pi, Real.cos_add_int_mul_two_pi]

theorem circle_dts_periodic (r θ : ℝ) (k : ℤ) :
    DTS.circleDts r (θ + k * (2 * Real.pi)) = DTS.circleDts r θ := rfl

example : DTS.ellipseDts (1 : ℝ) 2 (0.3 + (-2 : ℤ) * (2 * Real.pi)) = DTS.ellipseDts 1 2 0.3 :=
  ellipse_dts_periodic 1 2 0.3 (-2)

/-! ## Convex polygon -/

/-- angles outside `[0, 2π)`: the polygon code only sees `θ mod 2π` -/
theorem cpoly_dts_periodic (R : M2 ℝ) (flip : Bool) (V : List (P2 ℝ)) (c : P2 ℝ) (θ : ℝ) (k : ℤ) :
    DTS.cpolyDtsFrom R flip V c (θ + k * (2 * Real.pi)) = DTS.cpolyDtsFrom R flip V c θ := by
  unfold DTS.cpolyDtsFrom
  rw [← DTS.twoPi_real, DTS.fmod_add_int_mul]

/-- same for the spheropolygon (arc loop and kernel) -/
theorem spg_dts_periodic (Rk : M2 ℝ) (fk f : Bool) (V : List (P2 ℝ)) (c : P2 ℝ) (r θ : ℝ) (k : ℤ) :
    DTS.spgDts Rk fk f V c r (θ + k * (2 * Real.pi)) = DTS.spgDts Rk fk f V c r θ := by
  unfold DTS.spgDts
  rw [← DTS.twoPi_real, DTS.fmod_add_int_mul]

example : DTS.cpolyDtsFrom M2.id false [⟨1, 0⟩, ⟨0, 1⟩, ⟨-1, -1⟩] ⟨0, 0⟩ (-7 + (3 : ℤ) * (2 * Real.pi))
    = DTS.cpolyDtsFrom M2.id false [⟨1, 0⟩, ⟨0, 1⟩, ⟨-1, -1⟩] ⟨0, 0⟩ (-7 : ℝ) :=
  cpoly_dts_periodic _ _ _ _ _ 3

/-- the angle the loop works with is in `[0, 2π)` -/
theorem cpoly_angle_range (θ : ℝ) :
    0 ≤ DTS.fmod θ DTS.twoPi ∧ DTS.fmod θ DTS.twoPi < DTS.twoPi := DTS.fmod_range θ

/-- intercept of a non-vertical edge: `y_int = cross(p1, p2) / (p1.x − p2.x)` -/
theorem yint_eq (p1 p2 : P2 ℝ) (hx : p1.x - p2.x ≠ 0) :
    p1.y - (p1.y - p2.y) / (p1.x - p2.x) * p1.x = Spec.cross p1 p2 / (p1.x - p2.x) := by
  unfold Spec.cross; field_simp; ring

/-- **C14 polygon, all three branches.** If the ray in direction `a` meets the supporting line
of the edge `p1 → p2` at the positive parameter `d0` (the line not passing through the centre),
then the coded formula of whichever branch the edge falls into returns exactly `d0`.
Guard of the generic (`tan`) branch: `cos a ≠ 0`. -/
theorem cpoly_edge_dts_eq (p1 p2 : P2 ℝ) (a d0 : ℝ) (hd0 : 0 < d0)
    (hcr : Spec.cross p1 p2 ≠ 0)
    (hline : Spec.onLine (Spec.rayPoint d0 a) p1 p2)
    (hcos : p1.x ≠ p2.x → p1.y ≠ p2.y → Real.cos a ≠ 0) :
    DTS.edgeDist (DTS.mkEdge p1 p2) a = d0 := by
  have hsc := sin_mul_self_add_cos_mul_self a
  unfold Spec.onLine Spec.rayPoint at hline
  simp only [Spec.cross, P2.sub_x, P2.sub_y, Scalar.lit, Scalar.ofNat_real, Scalar.sin_real,
    Scalar.cos_real, Nat.cast_zero] at hline hcr
  unfold DTS.mkEdge
  simp only [Scalar.eqb_real, Scalar.lit, Scalar.ofNat_real, Nat.cast_zero, decide_eq_true_eq]
  by_cases hx : p1.x - p2.x = 0
  · -- vertical edge (`np.inf` sentinel)
    rw [if_pos hx]
    have hxe : p2.x = p1.x := by linarith
    have hy : p2.y - p1.y ≠ 0 := by
      intro h
      apply hcr
      have : p2.y = p1.y := by linarith
      rw [hxe, this]; ring
    have hX : d0 * Real.cos a = p1.x := by
      rw [hxe] at hline
      have : (p2.y - p1.y) * (d0 * Real.cos a - p1.x) = 0 := by linarith
      have := (mul_eq_zero.mp this).resolve_left hy
      linarith
    have hc : Real.cos a ≠ 0 := by
      intro h
      apply hcr
      rw [h, mul_zero] at hX
      rw [hxe, ← hX]; ring
    simp only [DTS.edgeDist, Scalar.sqrt_real, Scalar.sin_real, Scalar.lit, Scalar.ofNat_real,
      Nat.cast_one]
    have e : p1.x * p1.x / (1 - Real.sin a * Real.sin a) = d0 * d0 := by
      have : 1 - Real.sin a * Real.sin a = Real.cos a * Real.cos a := by linarith
      rw [this, ← hX]; field_simp
    rw [e, Real.sqrt_mul_self hd0.le]
  · rw [if_neg hx]
    by_cases hm : (p1.y - p2.y) / (p1.x - p2.x) = 0
    · -- horizontal edge (`slopes[i] == 0`)
      have hye : p1.y = p2.y := by
        rcases div_eq_zero_iff.mp hm with h | h
        · linarith
        · exact absurd h hx
      have hY : d0 * Real.sin a = p1.y := by
        rw [← hye] at hline
        have : (p2.x - p1.x) * (d0 * Real.sin a - p1.y) = 0 := by linarith
        have hx' : p2.x - p1.x ≠ 0 := fun h => hx (by linarith)
        have := (mul_eq_zero.mp this).resolve_left hx'
        linarith
      have hs : Real.sin a ≠ 0 := by
        intro h
        apply hcr
        rw [h, mul_zero] at hY
        rw [← hye, ← hY]; ring
      simp only [DTS.edgeDist, Scalar.eqb_real, hm, Scalar.sqrt_real, Scalar.cos_real, Scalar.lit,
        Scalar.ofNat_real, Nat.cast_one, Nat.cast_zero, decide_true, if_true]
      have e : (p1.y - 0 * p1.x) * (p1.y - 0 * p1.x) / (1 - Real.cos a * Real.cos a) = d0 * d0 := by
        have : 1 - Real.cos a * Real.cos a = Real.sin a * Real.sin a := by linarith
        rw [this, ← hY]; field_simp; ring
      rw [e, Real.sqrt_mul_self hd0.le]
    · -- generic edge (`tan` branch)
      have hyne : p1.y ≠ p2.y := by
        intro h; apply hm; rw [h, sub_self, zero_div]
      have hxne : p1.x ≠ p2.x := fun h => hx (by linarith)
      have hc : Real.cos a ≠ 0 := hcos hxne hyne
      simp only [DTS.edgeDist, Scalar.eqb_real, hm, Scalar.sqrt_real, Scalar.tan_real, Scalar.lit,
        Scalar.ofNat_real, Nat.cast_zero, decide_false, Bool.false_eq_true, if_false]
      rw [yint_eq p1 p2 hx]
      set m := (p1.y - p2.y) / (p1.x - p2.x) with hmdef
      set C := p1.x * p2.y - p1.y * p2.x with hC
      have hCe : Spec.cross p1 p2 = C := rfl
      rw [hCe]
      -- line equation in slope form: d0 cos a (tan a − m) = C / (p1.x − p2.x)
      have hlin : d0 * Real.cos a * (Real.tan a - m) = C / (p1.x - p2.x) := by
        rw [Real.tan_eq_sin_div_cos, hmdef, hC]
        field_simp
        linear_combination (-1 : ℝ) * hline
      have hC0 : C / (p1.x - p2.x) ≠ 0 := div_ne_zero hcr hx
      have htm : Real.tan a - m ≠ 0 := by
        intro h; rw [h, mul_zero] at hlin; exact hC0 hlin.symm
      have hxv : C / (p1.x - p2.x) / (Real.tan a - m) = d0 * Real.cos a := by
        rw [← hlin]; field_simp
      rw [hxv]
      have hyv : Real.tan a * (d0 * Real.cos a) = d0 * Real.sin a := by
        rw [Real.tan_eq_sin_div_cos]; field_simp
      rw [hyv]
      have e : d0 * Real.cos a * (d0 * Real.cos a) + d0 * Real.sin a * (d0 * Real.sin a) = d0 * d0 := by
        linear_combination (d0 * d0) * hsc
      rw [e, Real.sqrt_mul_self hd0.le]

/-- `cpoly_dts_on_line`: under the same guards the returned point lies on the supporting line of
the selected edge, in direction `a` (it is `rayPoint d a` with `d > 0`). -/
theorem cpoly_dts_on_line (p1 p2 : P2 ℝ) (a d0 : ℝ) (hd0 : 0 < d0)
    (hcr : Spec.cross p1 p2 ≠ 0)
    (hline : Spec.onLine (Spec.rayPoint d0 a) p1 p2)
    (hcos : p1.x ≠ p2.x → p1.y ≠ p2.y → Real.cos a ≠ 0) :
    0 < DTS.edgeDist (DTS.mkEdge p1 p2) a ∧
      Spec.onLine (Spec.rayPoint (DTS.edgeDist (DTS.mkEdge p1 p2) a) a) p1 p2 := by
  rw [cpoly_edge_dts_eq p1 p2 a d0 hd0 hcr hline hcos]
  exact ⟨hd0, hline⟩

/-- vertical edge `x = 1`, direction `0`: distance 1 -/
example : DTS.edgeDist (DTS.mkEdge (⟨1, -1⟩ : P2 ℝ) ⟨1, 1⟩) 0 = 1 := by
  apply cpoly_edge_dts_eq _ _ 0 1 (by norm_num)
  · norm_num [Spec.cross]
  · simp [Spec.onLine, Spec.rayPoint, Spec.cross, Scalar.lit]
  · intro h; exact absurd rfl h

/-- horizontal edge `y = 2`, direction `π/2`: distance 2 -/
example : DTS.edgeDist (DTS.mkEdge (⟨1, 2⟩ : P2 ℝ) ⟨-3, 2⟩) (Real.pi / 2) = 2 := by
  apply cpoly_edge_dts_eq _ _ (Real.pi / 2) 2 (by norm_num)
  · norm_num [Spec.cross]
  · simp [Spec.onLine, Spec.rayPoint, Spec.cross, Scalar.lit]
  · intro _ h; exact absurd rfl h

/-- generic edge `y = −2x + 3`, direction `0`: distance 3/2 (tan branch, `cos 0 = 1 ≠ 0`) -/
example : DTS.edgeDist (DTS.mkEdge (⟨2, -1⟩ : P2 ℝ) ⟨1, 1⟩) 0 = 3 / 2 := by
  apply cpoly_edge_dts_eq _ _ 0 (3 / 2) (by norm_num)
  · norm_num [Spec.cross]
  · simp [Spec.onLine, Spec.rayPoint, Spec.cross, Scalar.lit]; norm_num
  · intro _ _; simp

/-- **C14 polygon, edge level.** If the direction `a` lies in the angular sector of the edge
`p1 → p2` seen from the centre (`cross(p1,p2) > 0`: counter-clockwise edge with the centre strictly
on its inner side; `cross(p1,u) ≥ 0`, `cross(u,p2) ≥ 0`), the value of the coded branch is positive
and `centre + d (cos a, sin a)` lies ON THE SEGMENT `[p1, p2]` — including `a` exactly at a vertex
direction and exactly horizontal / vertical edges. -/
theorem cpoly_edge_dts_on_segment (p1 p2 : P2 ℝ) (a : ℝ)
    (hC : 0 < Spec.cross p1 p2)
    (hA : 0 ≤ Spec.cross p1 ⟨Real.cos a, Real.sin a⟩)
    (hB : 0 ≤ Spec.cross ⟨Real.cos a, Real.sin a⟩ p2)
    (hcos : p1.x ≠ p2.x → p1.y ≠ p2.y → Real.cos a ≠ 0) :
    0 < DTS.edgeDist (DTS.mkEdge p1 p2) a ∧
      Spec.onSegment (Spec.rayPoint (DTS.edgeDist (DTS.mkEdge p1 p2) a) a) p1 p2 := by
  have hu : (⟨Real.cos a, Real.sin a⟩ : P2 ℝ).x ≠ 0 ∨ (⟨Real.cos a, Real.sin a⟩ : P2 ℝ).y ≠ 0 := by
    by_contra h
    rw [not_or, not_not, not_not] at h
    have := sin_mul_self_add_cos_mul_self a
    simp only at h
    rw [h.1, h.2] at this
    norm_num at this
  obtain ⟨d, s, hd, hs0, hs1, hx, hy⟩ := ray_hits_segment_of_sector p1 p2 _ hu hC hA hB
  simp only at hx hy
  have hline : Spec.onLine (Spec.rayPoint d a) p1 p2 := by
    unfold Spec.onLine Spec.rayPoint
    simp only [Spec.cross, P2.sub_x, P2.sub_y, Scalar.lit, Scalar.ofNat_real, Scalar.sin_real,
      Scalar.cos_real, Nat.cast_zero]
    rw [hx, hy]; ring
  rw [cpoly_edge_dts_eq p1 p2 a d hd hC.ne' hline hcos]
  refine ⟨hd, s, ?_, ?_, ?_, ?_⟩
  · simpa [Scalar.lit] using hs0
  · simpa [Scalar.lit] using hs1
  · simpa [Spec.rayPoint] using hx
  · simpa [Spec.rayPoint] using hy

/-- unit-square edge `(1,-1) → (1,1)` and the direction exactly at its end vertex `(1,1)`
    (`a = π/4`) — sector conditions hold with equality at the vertex -/
example : Spec.onSegment
    (Spec.rayPoint (DTS.edgeDist (DTS.mkEdge (⟨1, -1⟩ : P2 ℝ) ⟨1, 1⟩) (Real.pi / 4)) (Real.pi / 4)) ⟨1, -1⟩ ⟨1, 1⟩ := by
  refine (cpoly_edge_dts_on_segment _ _ (Real.pi / 4) ?_ ?_ ?_ ?_).2
  · norm_num [Spec.cross]
  · simp only [Spec.cross, Real.cos_pi_div_four, Real.sin_pi_div_four]
    have := Real.sqrt_nonneg 2; linarith
  · simp only [Spec.cross, Real.cos_pi_div_four, Real.sin_pi_div_four]; linarith
  · intro h; exact absurd rfl h

/-- **`cpoly_dts_selects_edge_partial`.** With the vertex angles the code computes
(`α = np.mod(np.arctan2(y, x), 2π)`), a direction in the closed bin `[α1, α2]` of two consecutive
vertices (`α1 < α2`, `α2 − α1 < π`, neither vertex at the centre) meets the segment `[p1, p2]`, and
the coded formula returns that distance.  `a'` is the direction `a` up to whole turns, which covers
the wrap-around last bin (`a' = a + 2π`).
Missing for the full statement: (i) `binsFold` returns this edge's value when `a` is in its bin
(sortedness of the rolled angle list), (ii) `α2 − α1 < π` from convexity with the centre strictly
inside; both are hypotheses here. -/
theorem cpoly_dts_selects_edge_partial (p1 p2 : P2 ℝ) (a a' α1 α2 : ℝ)
    (hp1 : P2.norm p1 ≠ 0) (hp2 : P2.norm p2 ≠ 0)
    (hα1 : P2.norm p1 * Real.cos α1 = p1.x ∧ P2.norm p1 * Real.sin α1 = p1.y)
    (hα2 : P2.norm p2 * Real.cos α2 = p2.x ∧ P2.norm p2 * Real.sin α2 = p2.y)
    (ha' : Real.cos a' = Real.cos a ∧ Real.sin a' = Real.sin a)
    (hlo : α1 ≤ a') (hhi : a' ≤ α2) (hlt : α1 < α2) (hpi : α2 - α1 < Real.pi)
    (hcos : p1.x ≠ p2.x → p1.y ≠ p2.y → Real.cos a ≠ 0) :
    0 < DTS.edgeDist (DTS.mkEdge p1 p2) a ∧
      Spec.onSegment (Spec.rayPoint (DTS.edgeDist (DTS.mkEdge p1 p2) a) a) p1 p2 := by
  have h1 : 0 < P2.norm p1 := lt_of_le_of_ne (P2.norm_nonneg p1) (Ne.symm hp1)
  have h2 : 0 < P2.norm p2 := lt_of_le_of_ne (P2.norm_nonneg p2) (Ne.symm hp2)
  have hsec := sector_of_angles (P2.norm p1) (P2.norm p2) α1 α2 a' h1 h2 hlo hhi hlt hpi
  simp only at hsec
  rw [hα1.1, hα1.2, hα2.1, hα2.2, ha'.1, ha'.2] at hsec
  exact cpoly_edge_dts_on_segment p1 p2 a hsec.1 hsec.2.1 hsec.2.2 hcos

/-- edge `(1,0) → (0,1)` of the diamond, direction `π/4` between the vertex angles `0` and `π/2` -/
example : 0 < DTS.edgeDist (DTS.mkEdge (⟨1, 0⟩ : P2 ℝ) ⟨0, 1⟩) (Real.pi / 4) ∧
    Spec.onSegment (Spec.rayPoint (DTS.edgeDist (DTS.mkEdge (⟨1, 0⟩ : P2 ℝ) ⟨0, 1⟩) (Real.pi / 4)) (Real.pi / 4))
      ⟨1, 0⟩ ⟨0, 1⟩ := by
  have hpi := Real.pi_pos
  apply cpoly_dts_selects_edge_partial _ _ (Real.pi / 4) (Real.pi / 4) 0 (Real.pi / 2)
  · simp [P2.norm_real]
  · simp [P2.norm_real]
  · simp [P2.norm_real]
  · simp [P2.norm_real]
  · exact ⟨rfl, rfl⟩
  · positivity
  · linarith
  · positivity
  · linarith
  · intro _ _; rw [Real.cos_pi_div_four]; positivity

/-- the vertex angles of the model satisfy the polar hypotheses of the previous theorem -/
theorem cpoly_vertex_angle_polar (v : P2 ℝ) :
    P2.norm v * Real.cos (DTS.fmod (Scalar.atan2 v.y v.x) DTS.twoPi) = v.x ∧
    P2.norm v * Real.sin (DTS.fmod (Scalar.atan2 v.y v.x) DTS.twoPi) = v.y :=
  polar_vertexAngle v

/-! ## Convex polygon: the whole loop -/

/-- what is known about the value in a slot: positive, and on an edge of the polygon -/
def DTS.Good (a : ℝ) (E : P2 ℝ × P2 ℝ → Prop) (o : Option ℝ) : Prop :=
  ∀ d, o = some d → 0 < d ∧ ∃ e, E e ∧ Spec.onSegment (Spec.rayPoint d a) e.1 e.2

open DTS in
theorem cpoly_binsFold_good (a : ℝ) (ha2 : a < twoPi) (f : P2 ℝ) (E : P2 ℝ × P2 ℝ → Prop) :
    ∀ (W : List (P2 ℝ)) (acc : Option ℝ), ChainOK f W →
      (∀ e ∈ cycPairs f W, e.1.x ≠ e.2.x → e.1.y ≠ e.2.y → Real.cos a ≠ 0) →
      (∀ e ∈ cycPairs f W, E e) → DTS.Good a E acc →
      DTS.Good a E (binsFold a (vang f) (rowsAux f W) acc) := by
  intro W
  induction W with
  | nil => intro acc _ _ _ h; simpa [rowsAux, binsFold] using h
  | cons p W' ih =>
    intro acc hch hcos hE hacc
    cases W' with
    | nil =>
      simp only [rowsAux]
      rw [binsFold_single]
      obtain ⟨hp, hf, hlt, hpi⟩ := hch
      split_ifs with hin
      · intro d hd
        have hd' : edgeDist (mkEdge p f) a = d := by simpa using hd
        rw [← hd']
        have hpol2 : P2.norm f * Real.cos (vang f + twoPi) = f.x ∧
            P2.norm f * Real.sin (vang f + twoPi) = f.y := by
          have hc := Real.cos_add_int_mul_two_pi (vang f) 1
          have hs := Real.sin_add_int_mul_two_pi (vang f) 1
          simp only [Int.cast_one, one_mul] at hc hs
          rw [twoPi_real, hc, hs]
          exact polar_vertexAngle f
        have hcs := hcos (p, f) (by simp [cycPairs])
        simp only [Bool.or_eq_true, Bool.and_eq_true, decide_eq_true_eq] at hin
        have hf0 := (vang_range f).1
        rcases hin with ⟨h1, _⟩ | ⟨h1, h2⟩
        · have := cpoly_dts_selects_edge_partial p f a a (vang p) (vang f + twoPi) hp hf
            (polar_vertexAngle p) hpol2 ⟨rfl, rfl⟩ h1 (by linarith) hlt hpi hcs
          exact ⟨this.1, (p, f), hE _ (by simp [cycPairs]), this.2⟩
        · have hc := Real.cos_add_int_mul_two_pi a 1
          have hs := Real.sin_add_int_mul_two_pi a 1
          simp only [Int.cast_one, one_mul] at hc hs
          rw [← twoPi_real] at hc hs
          have := cpoly_dts_selects_edge_partial p f a (a + twoPi) (vang p) (vang f + twoPi) hp hf
            (polar_vertexAngle p) hpol2 ⟨hc, hs⟩ (by linarith) (by linarith) hlt hpi hcs
          exact ⟨this.1, (p, f), hE _ (by simp [cycPairs]), this.2⟩
      · exact hacc
    | cons q rest =>
      simp only [rowsAux]
      rw [binsFold_cons _ _ _ _ _ _ (rowsAux_ne_nil f q rest)]
      obtain ⟨hp, hq, hlt, hpi, hrest⟩ := hch
      apply ih _ hrest
      · intro e he; exact hcos e (by simp [cycPairs, he])
      · intro e he; exact hE e (by simp [cycPairs, he])
      · split_ifs with hin
        · intro d hd
          have hd' : edgeDist (mkEdge p q) a = d := by simpa using hd
          rw [← hd']
          simp only [Bool.and_eq_true, decide_eq_true_eq] at hin
          have hcs := hcos (p, q) (by simp [cycPairs])
          have := cpoly_dts_selects_edge_partial p q a a (vang p) (vang q) hp hq
            (polar_vertexAngle p) (polar_vertexAngle q) ⟨rfl, rfl⟩ hin.1 hin.2.le hlt hpi hcs
          exact ⟨this.1, (p, q), hE _ (by simp [cycPairs]), this.2⟩
        · exact hacc



/-- **C14 polygon, function level (`_partial`).**  Let `W` be the centred, aligned vertex list
rolled to its smallest vertex angle (what the loop runs over).  If the vertex angles the code
computes increase along `W` with gaps `< π`, the wrap gap included (`ChainOK`: the angular meaning
of "convex, counter-clockwise, centre strictly inside"), then for EVERY real `θ` — with `cos θ ≠ 0`
whenever the polygon has an edge that is neither horizontal nor vertical — the slot is assigned,
the returned `d` is positive, and `centre + d (cos θ, sin θ)` lies on an edge segment of the polygon.
Missing for the unconditional statement: deriving `ChainOK` from convexity + interior centre. -/
theorem cpoly_dts_on_boundary_partial (R : M2 ℝ) (flip : Bool) (V : List (P2 ℝ)) (c : P2 ℝ) (θ : ℝ)
    (p0 : P2 ℝ) (T : List (P2 ℝ))
    (hW : DTS.rollL (DTS.argmin (DTS.vertexAngles (DTS.alignedVerts R flip V c)))
      (DTS.alignedVerts R flip V c) = p0 :: T)
    (hchain : DTS.ChainOK p0 (p0 :: T))
    (hcos : ∀ e ∈ Spec.edgesOf (p0 :: T), e.1.x ≠ e.2.x → e.1.y ≠ e.2.y → Real.cos θ ≠ 0) :
    ∃ d, DTS.cpolyDtsFrom R flip V c θ = some d ∧ 0 < d ∧
      Spec.onPolyBoundary (p0 :: T) (Spec.rayPoint d θ) := by
  obtain ⟨ha0, ha2⟩ := DTS.fmod_range θ
  set a := DTS.fmod θ DTS.twoPi with hadef
  have hca : Real.cos a = Real.cos θ := DTS.cos_fmod θ
  have hsa : Real.sin a = Real.sin θ := DTS.sin_fmod θ
  have hrows := DTS.binRows_eq _ p0 T hW
  have hfirst : ∃ x rest, DTS.rowsAux p0 (p0 :: T) = (DTS.vang p0, x) :: rest := by
    cases T with
    | nil => exact ⟨_, _, rfl⟩
    | cons q rest => exact ⟨_, _, rfl⟩
  obtain ⟨x, rest, hr⟩ := hfirst
  have hval : DTS.cpolyDtsFrom R flip V c θ =
      DTS.binsFold a (DTS.vang p0) (DTS.rowsAux p0 (p0 :: T)) none := by
    unfold DTS.cpolyDtsFrom
    simp only [hrows, ← hadef]
    rw [hr]
  rw [DTS.edgesOf_cons] at hcos
  have hgood := cpoly_binsFold_good a ha2 p0 (fun e => e ∈ DTS.cycPairs p0 (p0 :: T)) (p0 :: T) none
    hchain (by rw [hca]; exact hcos) (fun e he => he) (by intro d hd; exact absurd hd (by simp))
  have hsome : (DTS.binsFold a (DTS.vang p0) (DTS.rowsAux p0 (p0 :: T)) none).isSome = true := by
    by_cases h : a < DTS.vang p0
    · exact DTS.binsFold_cover_lt a ha0 p0 h _ _ (by simp)
    · exact DTS.binsFold_cover_ge a ha2 p0 _ _ p0 T rfl (not_lt.mp h)
  obtain ⟨d, hd⟩ := Option.isSome_iff_exists.mp hsome
  obtain ⟨hdpos, e, he, hseg⟩ := hgood d hd
  refine ⟨d, by rw [hval, hd], hdpos, e, ?_, ?_⟩
  · rw [DTS.edgesOf_cons]; exact he
  · have : Spec.rayPoint d θ = Spec.rayPoint d a := by
      simp only [Spec.rayPoint, Scalar.cos_real, Scalar.sin_real, hca, hsa]
    rw [this]; exact hseg

/-- the diamond `(1,0), (0,1), (−1,0), (0,−1)` about its centre, direction `θ = 0` (all four edges
are generic; vertex angles `0, π/2, π, 3π/2`): every hypothesis of the theorem holds -/
example : ∃ d, DTS.cpolyDtsFrom M2.id false [⟨1, 0⟩, ⟨0, 1⟩, ⟨-1, 0⟩, ⟨0, -1⟩] ⟨0, 0⟩ (0 : ℝ) = some d ∧ 0 < d ∧
    Spec.onPolyBoundary [⟨1, 0⟩, ⟨0, 1⟩, ⟨-1, 0⟩, ⟨0, -1⟩] (Spec.rayPoint d 0) := by
  have hA : DTS.alignedVerts M2.id false [⟨1, 0⟩, ⟨0, 1⟩, ⟨-1, 0⟩, ⟨0, -1⟩] (⟨0, 0⟩ : P2 ℝ) =
      [⟨1, 0⟩, ⟨0, 1⟩, ⟨-1, 0⟩, ⟨0, -1⟩] := by
    simp [DTS.alignedVerts, M2.apply, M2.id, Scalar.lit]
  have hang : DTS.vertexAngles ([⟨1, 0⟩, ⟨0, 1⟩, ⟨-1, 0⟩, ⟨0, -1⟩] : List (P2 ℝ)) =
      [0, Real.pi / 2, Real.pi, 3 * Real.pi / 2] := by
    have h : ∀ l : List (P2 ℝ), DTS.vertexAngles l = l.map DTS.vang := fun _ => rfl
    rw [h]
    simp only [List.map_cons, List.map_nil, DTS.vang_e1, DTS.vang_e2, DTS.vang_e3, DTS.vang_e4]
  have hpi := Real.pi_pos
  have hmin : DTS.argmin ([0, Real.pi / 2, Real.pi, 3 * Real.pi / 2] : List ℝ) = 0 := by
    simp only [DTS.argmin, DTS.argminAux]
    rw [if_neg (by linarith), if_neg (by linarith), if_neg (by linarith)]
  apply cpoly_dts_on_boundary_partial
  · rw [hA, hang, hmin]; rfl
  · simp only [DTS.ChainOK, DTS.vang_e1, DTS.vang_e2, DTS.vang_e3, DTS.vang_e4, DTS.twoPi_real,
      P2.norm_real]
    norm_num
    (repeat' apply And.intro) <;> linarith
  · intro _ _ _ _; simp

/-! ## Spheropolygon: outward unit normals -/

/-- **`_get_outward_unit_normal`, all slope / sign cases.** For an edge direction `vec ≠ 0` through
`pt` whose line misses the centre (`cross(vec, pt) ≠ 0`) the returned vector is a unit vector,
perpendicular to the edge, pointing away from the centre (`n · pt > 0`). -/
theorem spg_outward_unit_normal (vec pt : P2 ℝ) (hcr : Spec.cross vec pt ≠ 0) :
    let n := DTS.outwardUnitNormal vec pt
    n.x * n.x + n.y * n.y = 1 ∧ n.x * vec.x + n.y * vec.y = 0 ∧ 0 < n.x * pt.x + n.y * pt.y := by
  intro n
  simp only [Spec.cross] at hcr
  simp only [n, DTS.outwardUnitNormal, Scalar.eqb_real, Scalar.lit, Scalar.ofNat_real, Nat.cast_zero,
    Nat.cast_one, decide_eq_true_eq, Scalar.sqrt_real]
  by_cases hvx : vec.x = 0
  · rw [if_pos hvx]
    have hpx : pt.x ≠ 0 := by
      intro h; apply hcr; rw [hvx, h]; ring
    obtain ⟨h1, h2⟩ := sign_mul_self_pos pt.x hpx
    simp only [mul_one, mul_zero, add_zero, zero_mul, hvx]
    exact ⟨h2, trivial, h1⟩
  · rw [if_neg hvx]
    have hy : pt.y - vec.y / vec.x * pt.x = (vec.x * pt.y - vec.y * pt.x) / vec.x := by
      field_simp
    have hy0 : pt.y - vec.y / vec.x * pt.x ≠ 0 := by
      rw [hy]; exact div_ne_zero hcr hvx
    by_cases hm : vec.y / vec.x = 0
    · rw [if_pos hm]
      have hvy : vec.y = 0 := by
        rcases div_eq_zero_iff.mp hm with h | h
        · exact h
        · exact absurd h hvx
      obtain ⟨h1, h2⟩ := sign_mul_self_pos _ hy0
      have e : pt.y - vec.y / vec.x * pt.x = pt.y := by rw [hm]; ring
      simp only [mul_one, zero_mul, zero_add]
      refine ⟨h2, by rw [hvy]; ring, ?_⟩
      rw [e] at h1 ⊢; exact h1
    · rw [if_neg hm]
      set m := vec.y / vec.x with hmdef
      set y0 := pt.y - m * pt.x with hy0def
      have hN : 0 < Real.sqrt (-m * -m + 1 * 1) := Real.sqrt_pos.mpr (by nlinarith [mul_self_nonneg m])
      have hNN := Real.mul_self_sqrt (show (0:ℝ) ≤ -m * -m + 1 * 1 by nlinarith [mul_self_nonneg m])
      set N := Real.sqrt (-m * -m + 1 * 1) with hNdef
      have hN' : N ≠ 0 := hN.ne'
      have hvy : vec.y = m * vec.x := by rw [hmdef]; field_simp
      rcases lt_or_gt_of_ne hm with hneg | hpos
      · -- slope < 0 : nx > 0
        have hnx : 0 < -m / N := div_pos (by linarith) hN
        rw [if_neg (not_lt.mpr hneg.le)]
        rcases lt_or_gt_of_ne hy0 with hyn | hyp
        · have hflip : ((decide (0 < y0) && decide (-m / N < 0)) || (decide (y0 < 0) && decide (0 < -m / N))) = true := by
            simp [hyn, hnx]
          rw [if_pos hflip]
          refine ⟨?_, ?_, ?_⟩
          · field_simp; nlinarith
          · rw [hvy]; field_simp; ring
          · have : -m / N * -1 * pt.x + 1 / N * -1 * pt.y = -y0 / N := by rw [hy0def]; field_simp; ring
            rw [this]; exact div_pos (by linarith) hN
        · have hflip : ¬ ((decide (0 < y0) && decide (-m / N < 0)) || (decide (y0 < 0) && decide (0 < -m / N))) = true := by
            simp [hyp, hnx, not_lt.mpr hyp.le, not_lt.mpr hnx.le]
          rw [if_neg hflip]
          refine ⟨?_, ?_, ?_⟩
          · field_simp; nlinarith
          · rw [hvy]; field_simp; ring
          · have : -m / N * pt.x + 1 / N * pt.y = y0 / N := by rw [hy0def]; field_simp; ring
            rw [this]; exact div_pos hyp hN
      · -- slope > 0 : nx < 0
        have hnx : -m / N < 0 := div_neg_of_neg_of_pos (by linarith) hN
        rw [if_pos hpos]
        rcases lt_or_gt_of_ne hy0 with hyn | hyp
        · have hflip : ((decide (0 < y0) && decide (0 < -m / N)) || (decide (y0 < 0) && decide (-m / N < 0))) = true := by
            simp [hyn, hnx]
          rw [if_pos hflip]
          refine ⟨?_, ?_, ?_⟩
          · field_simp; nlinarith
          · rw [hvy]; field_simp; ring
          · have : -m / N * -1 * pt.x + 1 / N * -1 * pt.y = -y0 / N := by rw [hy0def]; field_simp; ring
            rw [this]; exact div_pos (by linarith) hN
        · have hflip : ¬ ((decide (0 < y0) && decide (0 < -m / N)) || (decide (y0 < 0) && decide (-m / N < 0))) = true := by
            simp [hyp, hnx, not_lt.mpr hyp.le, not_lt.mpr hnx.le]
          rw [if_neg hflip]
          refine ⟨?_, ?_, ?_⟩
          · field_simp; nlinarith
          · rw [hvy]; field_simp; ring
          · have : -m / N * pt.x + 1 / N * pt.y = y0 / N := by rw [hy0def]; field_simp; ring
            rw [this]; exact div_pos hyp hN

/-- edge direction `(−1, 2)` through `(2, 0)` (generic slope −2, intercept 4): all hypotheses hold -/
example : 0 < (DTS.outwardUnitNormal (⟨-1, 2⟩ : P2 ℝ) ⟨2, 0⟩).x * 2 + (DTS.outwardUnitNormal (⟨-1, 2⟩ : P2 ℝ) ⟨2, 0⟩).y * 0 :=
  (spg_outward_unit_normal ⟨-1, 2⟩ ⟨2, 0⟩ (by norm_num [Spec.cross])).2.2

/-! ## Spheropolygon: the arc branch -/

/-- **C14 spheropolygon, arc branch.** With a non-negative discriminant the root written by
the arc loop puts `centre + d (cos a, sin a)` on the circle of radius `r` about the core vertex
`v` (i.e. at distance exactly `r` from that vertex). -/
theorem spg_arc_on_circle (v : P2 ℝ) (r a : ℝ)
    (hdisc : 0 ≤ (2 * (v.x * Real.cos a + v.y * Real.sin a)) ^ 2 - 4 * (v.x * v.x + v.y * v.y - r * r)) :
    let d := DTS.arcDist v r a
    (d * Real.cos a - v.x) ^ 2 + (d * Real.sin a - v.y) ^ 2 = r ^ 2 := by
  intro d
  obtain ⟨hpx, hpy⟩ := polar_atan2Pos v
  have hN := P2.norm_mul_self v
  have hsc := sin_mul_self_add_cos_mul_self a
  set N := P2.norm v with hNdef
  set φ := DTS.atan2Pos v.y v.x with hφ
  have hb : -(2 : ℝ) * N * Real.cos (a - φ) = -(2 * (v.x * Real.cos a + v.y * Real.sin a)) := by
    rw [Real.cos_sub, ← hpx, ← hpy]; ring
  have hd : d = (2 * (v.x * Real.cos a + v.y * Real.sin a) +
      Real.sqrt ((2 * (v.x * Real.cos a + v.y * Real.sin a)) ^ 2 - 4 * (v.x * v.x + v.y * v.y - r * r))) / 2 := by
    simp only [d, DTS.arcDist, Scalar.lit, Scalar.ofNat_real, Scalar.sqrt_real, Scalar.cos_real,
      Nat.cast_ofNat, Nat.cast_one, mul_one, ← hNdef, ← hφ]
    rw [hb, hN]
    congr 2
    · ring
    · congr 1; ring
  have hsq := Real.mul_self_sqrt hdisc
  set S := Real.sqrt ((2 * (v.x * Real.cos a + v.y * Real.sin a)) ^ 2 - 4 * (v.x * v.x + v.y * v.y - r * r))
  rw [hd]
  linear_combination (1 / 4 : ℝ) * hsq +
    ((2 * (v.x * Real.cos a + v.y * Real.sin a) + S) / 2) ^ 2 * hsc

/-- the root taken is the larger of the two (the exit point of the ray, not the entry point) -/
theorem spg_arc_root_largest (v : P2 ℝ) (r a t : ℝ)
    (ht : (t * Real.cos a - v.x) ^ 2 + (t * Real.sin a - v.y) ^ 2 = r ^ 2) :
    t ≤ DTS.arcDist v r a := by
  obtain ⟨hpx, hpy⟩ := polar_atan2Pos v
  have hN := P2.norm_mul_self v
  have hsc := sin_mul_self_add_cos_mul_self a
  set N := P2.norm v with hNdef
  set φ := DTS.atan2Pos v.y v.x with hφ
  have hb : -(2 : ℝ) * N * Real.cos (a - φ) = -(2 * (v.x * Real.cos a + v.y * Real.sin a)) := by
    rw [Real.cos_sub, ← hpx, ← hpy]; ring
  set B := v.x * Real.cos a + v.y * Real.sin a with hB
  -- t² − 2 B t + (|v|² − r²) = 0
  have hq : t * t - 2 * B * t + (v.x * v.x + v.y * v.y - r * r) = 0 := by
    rw [hB]; nlinarith [ht, hsc]
  have hdisc : (2 * B) ^ 2 - 4 * (v.x * v.x + v.y * v.y - r * r) = (2 * (t - B)) ^ 2 := by
    nlinarith [hq]
  have hd : DTS.arcDist v r a = (2 * B +
      Real.sqrt ((2 * B) ^ 2 - 4 * (v.x * v.x + v.y * v.y - r * r))) / 2 := by
    simp only [DTS.arcDist, Scalar.lit, Scalar.ofNat_real, Scalar.sqrt_real, Scalar.cos_real,
      Nat.cast_ofNat, Nat.cast_one, mul_one, ← hNdef, ← hφ]
    rw [hb, hN]
    congr 2
    · ring
    · congr 1; ring
  rw [hd, hdisc, Real.sqrt_sq_eq_abs]
  have := le_abs_self (2 * (t - B))
  linarith

/-- vertex `(3, 0)`, radius `1`, direction `0`: the arc root is `4` (far side of the circle) -/
example : (DTS.arcDist (⟨3, 0⟩ : P2 ℝ) 1 0 * Real.cos 0 - 3) ^ 2 +
    (DTS.arcDist (⟨3, 0⟩ : P2 ℝ) 1 0 * Real.sin 0 - 0) ^ 2 = (1 : ℝ) ^ 2 := by
  have h := spg_arc_on_circle (⟨3, 0⟩ : P2 ℝ) 1 0 (by simp; norm_num)
  simpa using h

example : (2 : ℝ) ≤ DTS.arcDist (⟨3, 0⟩ : P2 ℝ) 1 0 :=
  spg_arc_root_largest _ _ _ 2 (by simp; norm_num)

end
