import CoxeterVerif.Lemmas.DistToSurfaceUnique
import CoxeterVerif.Lemmas.DistToSurfaceCheck
import CoxeterVerif.Lemmas.DistToSurfaceSpheroConvex
/-!
  # C14 — distance_to_surface is the radial distance from the centre to the boundary

  Model: `Model/DistToSurface.lean` (namespace `DTS`), spec: `Spec/DistToSurface.lean`.
  All statements are over ℝ, for every angle `θ` (not only `[0, 2π)`), every `a, b, r > 0`,
  every polygon / number of vertices.

  Proved in full
  * Circle / ellipse: `ellipse_dts_eq`, `ellipse_dts_on_boundary`, `circle_dts`, periodicity; both axis
    orderings explicitly: `ellipse_dts_axes`, `ellipse_dts_swap`, `ellipse_dts_ecc_major_x/_y`,
    `ellipse_eccentricity_form_fails`.
  * Convex polygon, edge level: `cpoly_edge_dts_eq`, `cpoly_dts_on_line`, `cpoly_edge_dts_on_segment`,
    `cpoly_dts_selects_edge`; loop level: `cpoly_binsFold_good`, `cpoly_at_on_boundary_of_chain`,
    `cpoly_dts_on_boundary_of_chain` (from the angular chain `DTS.ChainOK`).
  * Convex polygon, the WHOLE function with NO per-run hypothesis: `cpoly_at_correct` (reduced angle in
    the closed range `[0, 2π]`), **`cpoly_dts_correct`** (every strictly convex counter-clockwise polygon,
    every interior centre, every real `θ`), `cpoly_dts_correct_cw` (clockwise storage),
    `cpoly_centroid_strictlyInside` + `cpoly_dts_correct_centroid` (from the centroid),
    `cpoly_dts_unique` (the value is THE distance), `cpoly_dts_vertex_direction` (θ exactly at a vertex),
    `cpoly_at_two_pi` (the `2π + 1e-6` closing bound), `cpoly_dts_correct_checked` (soundness of the
    per-run decision of the hypotheses on the implementation's stored data).
    `ChainOK` is derived from convexity in `Lemmas/DistToSurfaceChain.lean`.
    Guard that remains: `cos θ ≠ 0` when the polygon has an edge that is neither horizontal nor vertical
    (over ℝ `tan(π/2)` is a junk value; in floating point `cos` never vanishes; the oracle covers it).
  * Spheropolygon, corner level: `spg_outward_unit_normal`, `spg_corner_offset_vertex` (the expanded
    vertex is the intersection of the two offset lines), `spg_corner_arc_correct` (inside the arc range:
    discriminant ≥ 0, root positive, point at distance exactly `r` from the core vertex),
    `spg_arc_on_circle`, `spg_arc_root_largest`; the repaired discriminant (/repo 5df35a1):
    `spg_arc_disc_identity`, `spg_arc_root_closed_form`, `spg_arc_root_eq_textbook`, `spg_arc_r0`.
  * Spheropolygon, the WHOLE function with NO per-run hypothesis (round 4): **`spg_dts_correct`** — every
    strictly convex counter-clockwise core with ≥ 3 vertices, every centre strictly inside, every `r > 0`,
    every real `θ` (guard `cos θ ≠ 0` only if the core has an edge that is neither horizontal nor vertical):
    assigned, `d > 0`, and the point is at distance EXACTLY `r` from the core POLYGON (`Spec.atDistExactly`);
    `spg_dts_correct_cw` (clockwise storage); `spg_offset_polygon_convex` (the offset polygon `new_verts`
    is strictly convex counter-clockwise around the centre — the former hypothesis `HP`, derived from the
    cyclic order of the edge normals, `Lemmas/DistToSurfaceSpheroConvex.lean`).
  Stepping stones kept under their names: `spg_dts_correct_partial`, `spg_dts_arc_or_offset_partial`
  (both with `HP` as a hypothesis; superseded by `spg_dts_correct`).
  Not covered by a theorem: rounding radius exactly `0` for the whole function (`spg_arc_r0` +
  the polygon theorems + the oracle cover it).
-/
open Scalar
set_option maxRecDepth 4000
noncomputable section

/-! ## Circle and ellipse -/

/-- the coded expression is the polar equation `ab / √(a² sin²θ + b² cos²θ)` -/
theorem ellipse_dts_eq (a b θ : ℝ) (ha : 0 < a) (hb : 0 < b) :
    DTS.ellipseDts a b θ =
      a * b / Real.sqrt (a * a * (Real.sin θ * Real.sin θ) + b * b * (Real.cos θ * Real.cos θ)) := by
  unfold DTS.ellipseDts
  simp only [Scalar.lit, Scalar.ofNat_real, Scalar.sqrt_real, Scalar.sin_real, Scalar.cos_real,
    Nat.cast_one]
  rw [ellipse_core a b _ _ ha hb (sin_mul_self_add_cos_mul_self θ)]
  rw [Real.sqrt_div (by positivity), Real.sqrt_mul_self (by positivity)]

/-- **C14 ellipse.** For all `θ` and all `a, b > 0` the returned `d` is positive and
`centre + d (cos θ, sin θ)` lies on the ellipse `x²/a² + y²/b² = 1`. -/
theorem ellipse_dts_on_boundary (a b θ : ℝ) (ha : 0 < a) (hb : 0 < b) :
    0 < DTS.ellipseDts a b θ ∧ Spec.onEllipse a b (Spec.rayPoint (DTS.ellipseDts a b θ) θ) := by
  have hD := ellipse_den_pos a b _ _ ha hb (sin_mul_self_add_cos_mul_self θ)
  have hs : 0 < Real.sqrt (a * a * (Real.sin θ * Real.sin θ) + b * b * (Real.cos θ * Real.cos θ)) :=
    Real.sqrt_pos.mpr hD
  have hss := Real.mul_self_sqrt hD.le
  rw [ellipse_dts_eq a b θ ha hb]
  refine ⟨div_pos (mul_pos ha hb) hs, ?_⟩
  unfold Spec.onEllipse Spec.rayPoint
  simp only [Scalar.lit, Scalar.ofNat_real, Scalar.sin_real, Scalar.cos_real, Nat.cast_one]
  have ha' : a ≠ 0 := ha.ne'
  have hb' : b ≠ 0 := hb.ne'
  set S := Real.sqrt (a * a * (Real.sin θ * Real.sin θ) + b * b * (Real.cos θ * Real.cos θ)) with hSdef
  have hs' : S ≠ 0 := hs.ne'
  field_simp
  linear_combination (-1 : ℝ) * hss

example : Spec.onEllipse (2 : ℝ) 3 (Spec.rayPoint (DTS.ellipseDts 2 3 (-7)) (-7)) :=
  (ellipse_dts_on_boundary 2 3 (-7) (by norm_num) (by norm_num)).2

/-- **C14 circle.** `d = r`, and the point is on the circle `x²/r² + y²/r² = 1`. -/
theorem circle_dts (r θ : ℝ) (hr : 0 < r) :
    DTS.circleDts r θ = r ∧ Spec.onEllipse r r (Spec.rayPoint (DTS.circleDts r θ) θ) := by
  have h1 : DTS.circleDts r θ = r := by simp [DTS.circleDts, Scalar.lit]
  refine ⟨h1, ?_⟩
  rw [h1]
  unfold Spec.onEllipse Spec.rayPoint
  simp only [Scalar.lit, Scalar.ofNat_real, Scalar.sin_real, Scalar.cos_real, Nat.cast_one]
  have hr' : r ≠ 0 := hr.ne'
  field_simp
  nlinarith [sin_mul_self_add_cos_mul_self θ]

example : Spec.onEllipse (5 : ℝ) 5 (Spec.rayPoint (DTS.circleDts 5 100) 100) :=
  (circle_dts 5 100 (by norm_num)).2

/-- periodicity: any whole number of turns gives the same distance -/
theorem ellipse_dts_periodic (a b θ : ℝ) (k : ℤ) :
    DTS.ellipseDts a b (θ + k * (2 * Real.pi)) = DTS.ellipseDts a b θ := by
  unfold DTS.ellipseDts
  simp only [Scalar.sin_real, Scalar.cos_real, Real.sin_add_int_mul_two_pi, Real.cos_add_int_mul_two_pi]

theorem circle_dts_periodic (r θ : ℝ) (k : ℤ) :
    DTS.circleDts r (θ + k * (2 * Real.pi)) = DTS.circleDts r θ := rfl

example : DTS.ellipseDts (1 : ℝ) 2 (0.3 + (-2 : ℤ) * (2 * Real.pi)) = DTS.ellipseDts 1 2 0.3 :=
  ellipse_dts_periodic 1 2 0.3 (-2)

/-! ### Ellipse: both axis orderings (`a < b` and `a > b`) -/

/-- **both axis orderings, explicitly.**  Along the axes the distance is the semi-axis of THAT axis
— `a` along `±x`, `b` along `±y` — whichever of `a`, `b` is larger. -/
theorem ellipse_dts_axes (a b : ℝ) (ha : 0 < a) (hb : 0 < b) :
    DTS.ellipseDts a b 0 = a ∧ DTS.ellipseDts a b (Real.pi / 2) = b ∧
    DTS.ellipseDts a b Real.pi = a ∧ DTS.ellipseDts a b (3 * Real.pi / 2) = b := by
  have h32 : 3 * Real.pi / 2 = Real.pi / 2 + Real.pi := by ring
  refine ⟨?_, ?_, ?_, ?_⟩
  · rw [ellipse_dts_eq a b _ ha hb, Real.sin_zero, Real.cos_zero]
    simp only [mul_zero, zero_add, mul_one]
    rw [Real.sqrt_mul_self hb.le]; field_simp
  · rw [ellipse_dts_eq a b _ ha hb, Real.sin_pi_div_two, Real.cos_pi_div_two]
    simp only [mul_zero, add_zero, mul_one]
    rw [Real.sqrt_mul_self ha.le]; field_simp
  · rw [ellipse_dts_eq a b _ ha hb, Real.sin_pi, Real.cos_pi]
    simp only [mul_zero, zero_add, mul_neg, mul_one, neg_neg]
    rw [Real.sqrt_mul_self hb.le]; field_simp
  · rw [ellipse_dts_eq a b _ ha hb, h32, Real.sin_add_pi, Real.cos_add_pi, Real.sin_pi_div_two,
      Real.cos_pi_div_two]
    simp only [mul_zero, add_zero, mul_neg, mul_one, neg_neg, neg_zero]
    rw [Real.sqrt_mul_self ha.le]; field_simp

/-- swapping the semi-axes is the reflection in the diagonal: `d_{a,b}(θ) = d_{b,a}(π/2 − θ)` -/
theorem ellipse_dts_swap (a b θ : ℝ) (ha : 0 < a) (hb : 0 < b) :
    DTS.ellipseDts a b θ = DTS.ellipseDts b a (Real.pi / 2 - θ) := by
  rw [ellipse_dts_eq a b θ ha hb, ellipse_dts_eq b a _ hb ha, Real.sin_pi_div_two_sub,
    Real.cos_pi_div_two_sub]
  congr 1
  · ring
  · congr 1; ring

/-- **major axis along `x` (`a ≥ b`)**: the eccentricity form with `e² = 1 − b²/a²`,
`d = b / √(1 − (e cos θ)²)` -/
theorem ellipse_dts_ecc_major_x (a b θ : ℝ) (hb : 0 < b) (hab : b ≤ a) :
    DTS.ellipseDts a b θ =
      b / Real.sqrt (1 - (Real.sqrt (1 - b * b / (a * a)) * Real.cos θ) ^ 2) := by
  have ha : 0 < a := lt_of_lt_of_le hb hab
  have he : 0 ≤ 1 - b * b / (a * a) := by
    rw [sub_nonneg, div_le_one (by positivity)]; nlinarith
  have hD := ellipse_den_pos a b _ _ ha hb (sin_mul_self_add_cos_mul_self θ)
  have hsc := sin_mul_self_add_cos_mul_self θ
  rw [ellipse_dts_eq a b θ ha hb, mul_pow, Real.sq_sqrt he]
  have e1 : 1 - (1 - b * b / (a * a)) * Real.cos θ ^ 2 =
      (a * a * (Real.sin θ * Real.sin θ) + b * b * (Real.cos θ * Real.cos θ)) / (a * a) := by
    field_simp; nlinarith
  rw [e1, Real.sqrt_div hD.le, Real.sqrt_mul_self ha.le]
  field_simp

/-- **major axis along `y` (`a ≤ b`)**: `e² = 1 − a²/b²`, `d = a / √(1 − (e sin θ)²)` — the angle
is still measured from the `x` axis, so it is `sin θ`, not `cos θ`, that enters -/
theorem ellipse_dts_ecc_major_y (a b θ : ℝ) (ha : 0 < a) (hab : a ≤ b) :
    DTS.ellipseDts a b θ =
      a / Real.sqrt (1 - (Real.sqrt (1 - a * a / (b * b)) * Real.sin θ) ^ 2) := by
  have hb : 0 < b := lt_of_lt_of_le ha hab
  have he : 0 ≤ 1 - a * a / (b * b) := by
    rw [sub_nonneg, div_le_one (by positivity)]; nlinarith
  have hD := ellipse_den_pos a b _ _ ha hb (sin_mul_self_add_cos_mul_self θ)
  have hsc := sin_mul_self_add_cos_mul_self θ
  rw [ellipse_dts_eq a b θ ha hb, mul_pow, Real.sq_sqrt he]
  have e1 : 1 - (1 - a * a / (b * b)) * Real.sin θ ^ 2 =
      (a * a * (Real.sin θ * Real.sin θ) + b * b * (Real.cos θ * Real.cos θ)) / (b * b) := by
    field_simp; nlinarith
  rw [e1, Real.sqrt_div hD.le, Real.sqrt_mul_self hb.le]
  field_simp

/-- the "textbook" eccentricity form `min(a,b) / √(1 − (e cos θ)²)`, `e = √(1 − min²/max²)` -/
def eccentricityForm (a b θ : ℝ) : ℝ :=
  Min.min a b / Real.sqrt (1 - (Real.sqrt (1 - (Min.min a b) ^ 2 / (Max.max a b) ^ 2) * Real.cos θ) ^ 2)

/-- it is NOT the distance to the surface when the major axis is along `y`: for `a = 1`, `b = 2`,
`θ = 0` it gives `2` while the boundary is at `1` (the curve it describes is the ellipse turned by
a quarter turn) -/
theorem ellipse_eccentricity_form_fails :
    ¬ ∀ a b θ : ℝ, 0 < a → 0 < b → DTS.ellipseDts a b θ = eccentricityForm a b θ := by
  intro h
  have h1 := h 1 2 0 (by norm_num) (by norm_num)
  rw [(ellipse_dts_axes 1 2 (by norm_num) (by norm_num)).1] at h1
  unfold eccentricityForm at h1
  rw [Real.cos_zero, mul_one, min_eq_left (by norm_num : (1:ℝ) ≤ 2), max_eq_right (by norm_num : (1:ℝ) ≤ 2),
    Real.sq_sqrt (by norm_num)] at h1
  have : (1:ℝ) - (1 - 1 ^ 2 / 2 ^ 2) = (1 / 2) * (1 / 2) := by norm_num
  rw [this, Real.sqrt_mul_self (by norm_num)] at h1
  norm_num at h1

example : DTS.ellipseDts (1 : ℝ) 2 0 = 1 ∧ DTS.ellipseDts (2 : ℝ) 1 0 = 2 :=
  ⟨(ellipse_dts_axes 1 2 (by norm_num) (by norm_num)).1, (ellipse_dts_axes 2 1 (by norm_num) (by norm_num)).1⟩

example : DTS.ellipseDts (1 : ℝ) 2 0.3 = DTS.ellipseDts 2 1 (Real.pi / 2 - 0.3) :=
  ellipse_dts_swap 1 2 0.3 (by norm_num) (by norm_num)


/-! ## Convex polygon -/

/-- angles outside `[0, 2π)`: the polygon code only sees `θ mod 2π` -/
theorem cpoly_dts_periodic (R : M2 ℝ) (flip : Bool) (V : List (P2 ℝ)) (c : P2 ℝ) (θ : ℝ) (k : ℤ) :
    DTS.cpolyDtsFrom R flip V c (θ + k * (2 * Real.pi)) = DTS.cpolyDtsFrom R flip V c θ := by
  unfold DTS.cpolyDtsFrom
  rw [← DTS.twoPi_real, DTS.fmod_add_int_mul]

/-- same for the spheropolygon (arc loop and kernel) -/
theorem spg_dts_periodic (Rk : M2 ℝ) (fk f : Bool) (V : List (P2 ℝ)) (c : P2 ℝ) (r θ : ℝ) (k : ℤ) :
    DTS.spgDts Rk fk f V c r (θ + k * (2 * Real.pi)) = DTS.spgDts Rk fk f V c r θ := by
  unfold DTS.spgDts
  rw [← DTS.twoPi_real, DTS.fmod_add_int_mul]

example : DTS.cpolyDtsFrom M2.id false [⟨1, 0⟩, ⟨0, 1⟩, ⟨-1, -1⟩] ⟨0, 0⟩ (-7 + (3 : ℤ) * (2 * Real.pi))
    = DTS.cpolyDtsFrom M2.id false [⟨1, 0⟩, ⟨0, 1⟩, ⟨-1, -1⟩] ⟨0, 0⟩ (-7 : ℝ) :=
  cpoly_dts_periodic _ _ _ _ _ 3

/-- the angle the loop works with is in `[0, 2π)` -/
theorem cpoly_angle_range (θ : ℝ) :
    0 ≤ DTS.fmod θ DTS.twoPi ∧ DTS.fmod θ DTS.twoPi < DTS.twoPi := DTS.fmod_range θ

/-- intercept of a non-vertical edge: `y_int = cross(p1, p2) / (p1.x − p2.x)` -/
theorem yint_eq (p1 p2 : P2 ℝ) (hx : p1.x - p2.x ≠ 0) :
    p1.y - (p1.y - p2.y) / (p1.x - p2.x) * p1.x = Spec.cross p1 p2 / (p1.x - p2.x) := by
  unfold Spec.cross; field_simp; ring

/-- **C14 polygon, all three branches.** If the ray in direction `a` meets the supporting line
of the edge `p1 → p2` at the positive parameter `d0` (the line not passing through the centre),
then the coded formula of whichever branch the edge falls into returns exactly `d0`.
Guard of the generic (`tan`) branch: `cos a ≠ 0`. -/
theorem cpoly_edge_dts_eq (p1 p2 : P2 ℝ) (a d0 : ℝ) (hd0 : 0 < d0)
    (hcr : Spec.cross p1 p2 ≠ 0)
    (hline : Spec.onLine (Spec.rayPoint d0 a) p1 p2)
    (hcos : p1.x ≠ p2.x → p1.y ≠ p2.y → Real.cos a ≠ 0) :
    DTS.edgeDist (DTS.mkEdge p1 p2) a = d0 := by
  have hsc := sin_mul_self_add_cos_mul_self a
  unfold Spec.onLine Spec.rayPoint at hline
  simp only [Spec.cross, P2.sub_x, P2.sub_y, Scalar.lit, Scalar.ofNat_real, Scalar.sin_real,
    Scalar.cos_real, Nat.cast_zero] at hline hcr
  unfold DTS.mkEdge
  simp only [Scalar.eqb_real, Scalar.lit, Scalar.ofNat_real, Nat.cast_zero, decide_eq_true_eq]
  by_cases hx : p1.x - p2.x = 0
  · -- vertical edge (`np.inf` sentinel)
    rw [if_pos hx]
    have hxe : p2.x = p1.x := by linarith
    have hy : p2.y - p1.y ≠ 0 := by
      intro h
      apply hcr
      have : p2.y = p1.y := by linarith
      rw [hxe, this]; ring
    have hX : d0 * Real.cos a = p1.x := by
      rw [hxe] at hline
      have : (p2.y - p1.y) * (d0 * Real.cos a - p1.x) = 0 := by linarith
      have := (mul_eq_zero.mp this).resolve_left hy
      linarith
    have hc : Real.cos a ≠ 0 := by
      intro h
      apply hcr
      rw [h, mul_zero] at hX
      rw [hxe, ← hX]; ring
    simp only [DTS.edgeDist, Scalar.sqrt_real, Scalar.sin_real, Scalar.lit, Scalar.ofNat_real,
      Nat.cast_one]
    have e : p1.x * p1.x / (1 - Real.sin a * Real.sin a) = d0 * d0 := by
      have : 1 - Real.sin a * Real.sin a = Real.cos a * Real.cos a := by linarith
      rw [this, ← hX]; field_simp
    rw [e, Real.sqrt_mul_self hd0.le]
  · rw [if_neg hx]
    by_cases hm : (p1.y - p2.y) / (p1.x - p2.x) = 0
    · -- horizontal edge (`slopes[i] == 0`)
      have hye : p1.y = p2.y := by
        rcases div_eq_zero_iff.mp hm with h | h
        · linarith
        · exact absurd h hx
      have hY : d0 * Real.sin a = p1.y := by
        rw [← hye] at hline
        have : (p2.x - p1.x) * (d0 * Real.sin a - p1.y) = 0 := by linarith
        have hx' : p2.x - p1.x ≠ 0 := fun h => hx (by linarith)
        have := (mul_eq_zero.mp this).resolve_left hx'
        linarith
      have hs : Real.sin a ≠ 0 := by
        intro h
        apply hcr
        rw [h, mul_zero] at hY
        rw [← hye, ← hY]; ring
      simp only [DTS.edgeDist, Scalar.eqb_real, hm, Scalar.sqrt_real, Scalar.cos_real, Scalar.lit,
        Scalar.ofNat_real, Nat.cast_one, Nat.cast_zero, decide_true, if_true]
      have e : (p1.y - 0 * p1.x) * (p1.y - 0 * p1.x) / (1 - Real.cos a * Real.cos a) = d0 * d0 := by
        have : 1 - Real.cos a * Real.cos a = Real.sin a * Real.sin a := by linarith
        rw [this, ← hY]; field_simp; ring
      rw [e, Real.sqrt_mul_self hd0.le]
    · -- generic edge (`tan` branch)
      have hyne : p1.y ≠ p2.y := by
        intro h; apply hm; rw [h, sub_self, zero_div]
      have hxne : p1.x ≠ p2.x := fun h => hx (by linarith)
      have hc : Real.cos a ≠ 0 := hcos hxne hyne
      simp only [DTS.edgeDist, Scalar.eqb_real, hm, Scalar.sqrt_real, Scalar.tan_real, Scalar.lit,
        Scalar.ofNat_real, Nat.cast_zero, decide_false, Bool.false_eq_true, if_false]
      rw [yint_eq p1 p2 hx]
      set m := (p1.y - p2.y) / (p1.x - p2.x) with hmdef
      set C := p1.x * p2.y - p1.y * p2.x with hC
      have hCe : Spec.cross p1 p2 = C := rfl
      rw [hCe]
      -- line equation in slope form: d0 cos a (tan a − m) = C / (p1.x − p2.x)
      have hlin : d0 * Real.cos a * (Real.tan a - m) = C / (p1.x - p2.x) := by
        rw [Real.tan_eq_sin_div_cos, hmdef, hC]
        field_simp
        linear_combination (-1 : ℝ) * hline
      have hC0 : C / (p1.x - p2.x) ≠ 0 := div_ne_zero hcr hx
      have htm : Real.tan a - m ≠ 0 := by
        intro h; rw [h, mul_zero] at hlin; exact hC0 hlin.symm
      have hxv : C / (p1.x - p2.x) / (Real.tan a - m) = d0 * Real.cos a := by
        rw [← hlin]; field_simp
      rw [hxv]
      have hyv : Real.tan a * (d0 * Real.cos a) = d0 * Real.sin a := by
        rw [Real.tan_eq_sin_div_cos]; field_simp
      rw [hyv]
      have e : d0 * Real.cos a * (d0 * Real.cos a) + d0 * Real.sin a * (d0 * Real.sin a) = d0 * d0 := by
        linear_combination (d0 * d0) * hsc
      rw [e, Real.sqrt_mul_self hd0.le]

/-- `cpoly_dts_on_line`: under the same guards the returned point lies on the supporting line of
the selected edge, in direction `a` (it is `rayPoint d a` with `d > 0`). -/
theorem cpoly_dts_on_line (p1 p2 : P2 ℝ) (a d0 : ℝ) (hd0 : 0 < d0)
    (hcr : Spec.cross p1 p2 ≠ 0)
    (hline : Spec.onLine (Spec.rayPoint d0 a) p1 p2)
    (hcos : p1.x ≠ p2.x → p1.y ≠ p2.y → Real.cos a ≠ 0) :
    0 < DTS.edgeDist (DTS.mkEdge p1 p2) a ∧
      Spec.onLine (Spec.rayPoint (DTS.edgeDist (DTS.mkEdge p1 p2) a) a) p1 p2 := by
  rw [cpoly_edge_dts_eq p1 p2 a d0 hd0 hcr hline hcos]
  exact ⟨hd0, hline⟩

/-- vertical edge `x = 1`, direction `0`: distance 1 -/
example : DTS.edgeDist (DTS.mkEdge (⟨1, -1⟩ : P2 ℝ) ⟨1, 1⟩) 0 = 1 := by
  apply cpoly_edge_dts_eq _ _ 0 1 (by norm_num)
  · norm_num [Spec.cross]
  · simp [Spec.onLine, Spec.rayPoint, Spec.cross, Scalar.lit]
  · intro h; exact absurd rfl h

/-- horizontal edge `y = 2`, direction `π/2`: distance 2 -/
example : DTS.edgeDist (DTS.mkEdge (⟨1, 2⟩ : P2 ℝ) ⟨-3, 2⟩) (Real.pi / 2) = 2 := by
  apply cpoly_edge_dts_eq _ _ (Real.pi / 2) 2 (by norm_num)
  · norm_num [Spec.cross]
  · simp [Spec.onLine, Spec.rayPoint, Spec.cross, Scalar.lit]
  · intro _ h; exact absurd rfl h

/-- generic edge `y = −2x + 3`, direction `0`: distance 3/2 (tan branch, `cos 0 = 1 ≠ 0`) -/
example : DTS.edgeDist (DTS.mkEdge (⟨2, -1⟩ : P2 ℝ) ⟨1, 1⟩) 0 = 3 / 2 := by
  apply cpoly_edge_dts_eq _ _ 0 (3 / 2) (by norm_num)
  · norm_num [Spec.cross]
  · simp [Spec.onLine, Spec.rayPoint, Spec.cross, Scalar.lit]; norm_num
  · intro _ _; simp

/-- **C14 polygon, edge level.** If the direction `a` lies in the angular sector of the edge
`p1 → p2` seen from the centre (`cross(p1,p2) > 0`: counter-clockwise edge with the centre strictly
on its inner side; `cross(p1,u) ≥ 0`, `cross(u,p2) ≥ 0`), the value of the coded branch is positive
and `centre + d (cos a, sin a)` lies ON THE SEGMENT `[p1, p2]` — including `a` exactly at a vertex
direction and exactly horizontal / vertical edges. -/
theorem cpoly_edge_dts_on_segment (p1 p2 : P2 ℝ) (a : ℝ)
    (hC : 0 < Spec.cross p1 p2)
    (hA : 0 ≤ Spec.cross p1 ⟨Real.cos a, Real.sin a⟩)
    (hB : 0 ≤ Spec.cross ⟨Real.cos a, Real.sin a⟩ p2)
    (hcos : p1.x ≠ p2.x → p1.y ≠ p2.y → Real.cos a ≠ 0) :
    0 < DTS.edgeDist (DTS.mkEdge p1 p2) a ∧
      Spec.onSegment (Spec.rayPoint (DTS.edgeDist (DTS.mkEdge p1 p2) a) a) p1 p2 := by
  have hu : (⟨Real.cos a, Real.sin a⟩ : P2 ℝ).x ≠ 0 ∨ (⟨Real.cos a, Real.sin a⟩ : P2 ℝ).y ≠ 0 := by
    by_contra h
    rw [not_or, not_not, not_not] at h
    have := sin_mul_self_add_cos_mul_self a
    simp only at h
    rw [h.1, h.2] at this
    norm_num at this
  obtain ⟨d, s, hd, hs0, hs1, hx, hy⟩ := ray_hits_segment_of_sector p1 p2 _ hu hC hA hB
  simp only at hx hy
  have hline : Spec.onLine (Spec.rayPoint d a) p1 p2 := by
    unfold Spec.onLine Spec.rayPoint
    simp only [Spec.cross, P2.sub_x, P2.sub_y, Scalar.lit, Scalar.ofNat_real, Scalar.sin_real,
      Scalar.cos_real, Nat.cast_zero]
    rw [hx, hy]; ring
  rw [cpoly_edge_dts_eq p1 p2 a d hd hC.ne' hline hcos]
  refine ⟨hd, s, ?_, ?_, ?_, ?_⟩
  · simpa [Scalar.lit] using hs0
  · simpa [Scalar.lit] using hs1
  · simpa [Spec.rayPoint] using hx
  · simpa [Spec.rayPoint] using hy

/-- unit-square edge `(1,-1) → (1,1)` and the direction exactly at its end vertex `(1,1)`
    (`a = π/4`) — sector conditions hold with equality at the vertex -/
example : Spec.onSegment
    (Spec.rayPoint (DTS.edgeDist (DTS.mkEdge (⟨1, -1⟩ : P2 ℝ) ⟨1, 1⟩) (Real.pi / 4)) (Real.pi / 4)) ⟨1, -1⟩ ⟨1, 1⟩ := by
  refine (cpoly_edge_dts_on_segment _ _ (Real.pi / 4) ?_ ?_ ?_ ?_).2
  · norm_num [Spec.cross]
  · simp only [Spec.cross, Real.cos_pi_div_four, Real.sin_pi_div_four]
    have := Real.sqrt_nonneg 2; linarith
  · simp only [Spec.cross, Real.cos_pi_div_four, Real.sin_pi_div_four]; linarith
  · intro h; exact absurd rfl h

/-- **`cpoly_dts_selects_edge`.** With the vertex angles the code computes
(`α = np.mod(np.arctan2(y, x), 2π)`), a direction in the closed bin `[α1, α2]` of two consecutive
vertices (`α1 < α2`, `α2 − α1 < π`, neither vertex at the centre) meets the segment `[p1, p2]`, and
the coded formula returns that distance.  `a'` is the direction `a` up to whole turns, which covers
the wrap-around last bin (`a' = a + 2π`).
Missing for the full statement: (i) `binsFold` returns this edge's value when `a` is in its bin
(sortedness of the rolled angle list), (ii) `α2 − α1 < π` from convexity with the centre strictly
inside; both are hypotheses here. -/
theorem cpoly_dts_selects_edge (p1 p2 : P2 ℝ) (a a' α1 α2 : ℝ)
    (hp1 : P2.norm p1 ≠ 0) (hp2 : P2.norm p2 ≠ 0)
    (hα1 : P2.norm p1 * Real.cos α1 = p1.x ∧ P2.norm p1 * Real.sin α1 = p1.y)
    (hα2 : P2.norm p2 * Real.cos α2 = p2.x ∧ P2.norm p2 * Real.sin α2 = p2.y)
    (ha' : Real.cos a' = Real.cos a ∧ Real.sin a' = Real.sin a)
    (hlo : α1 ≤ a') (hhi : a' ≤ α2) (hlt : α1 < α2) (hpi : α2 - α1 < Real.pi)
    (hcos : p1.x ≠ p2.x → p1.y ≠ p2.y → Real.cos a ≠ 0) :
    0 < DTS.edgeDist (DTS.mkEdge p1 p2) a ∧
      Spec.onSegment (Spec.rayPoint (DTS.edgeDist (DTS.mkEdge p1 p2) a) a) p1 p2 := by
  have h1 : 0 < P2.norm p1 := lt_of_le_of_ne (P2.norm_nonneg p1) (Ne.symm hp1)
  have h2 : 0 < P2.norm p2 := lt_of_le_of_ne (P2.norm_nonneg p2) (Ne.symm hp2)
  have hsec := sector_of_angles (P2.norm p1) (P2.norm p2) α1 α2 a' h1 h2 hlo hhi hlt hpi
  simp only at hsec
  rw [hα1.1, hα1.2, hα2.1, hα2.2, ha'.1, ha'.2] at hsec
  exact cpoly_edge_dts_on_segment p1 p2 a hsec.1 hsec.2.1 hsec.2.2 hcos

/-- edge `(1,0) → (0,1)` of the diamond, direction `π/4` between the vertex angles `0` and `π/2` -/
example : 0 < DTS.edgeDist (DTS.mkEdge (⟨1, 0⟩ : P2 ℝ) ⟨0, 1⟩) (Real.pi / 4) ∧
    Spec.onSegment (Spec.rayPoint (DTS.edgeDist (DTS.mkEdge (⟨1, 0⟩ : P2 ℝ) ⟨0, 1⟩) (Real.pi / 4)) (Real.pi / 4))
      ⟨1, 0⟩ ⟨0, 1⟩ := by
  have hpi := Real.pi_pos
  apply cpoly_dts_selects_edge _ _ (Real.pi / 4) (Real.pi / 4) 0 (Real.pi / 2)
  · simp [P2.norm_real]
  · simp [P2.norm_real]
  · simp [P2.norm_real]
  · simp [P2.norm_real]
  · exact ⟨rfl, rfl⟩
  · positivity
  · linarith
  · positivity
  · linarith
  · intro _ _; rw [Real.cos_pi_div_four]; positivity

/-- the vertex angles of the model satisfy the polar hypotheses of the previous theorem -/
theorem cpoly_vertex_angle_polar (v : P2 ℝ) :
    P2.norm v * Real.cos (DTS.fmod (Scalar.atan2 v.y v.x) DTS.twoPi) = v.x ∧
    P2.norm v * Real.sin (DTS.fmod (Scalar.atan2 v.y v.x) DTS.twoPi) = v.y :=
  polar_vertexAngle v

/-! ## Convex polygon: the whole loop -/

/-- what is known about the value in a slot: positive, and on an edge of the polygon -/
def DTS.Good (a : ℝ) (E : P2 ℝ × P2 ℝ → Prop) (o : Option ℝ) : Prop :=
  ∀ d, o = some d → 0 < d ∧ ∃ e, E e ∧ Spec.onSegment (Spec.rayPoint d a) e.1 e.2

open DTS in
theorem cpoly_binsFold_good (a : ℝ) (ha2 : a ≤ twoPi) (f : P2 ℝ) (E : P2 ℝ × P2 ℝ → Prop) :
    ∀ (W : List (P2 ℝ)) (acc : Option ℝ), ChainOK f W →
      (∀ e ∈ cycPairs f W, e.1.x ≠ e.2.x → e.1.y ≠ e.2.y → Real.cos a ≠ 0) →
      (∀ e ∈ cycPairs f W, E e) → DTS.Good a E acc →
      DTS.Good a E (binsFold a (vang f) (rowsAux f W) acc) := by
  intro W
  induction W with
  | nil => intro acc _ _ _ h; simpa [rowsAux, binsFold] using h
  | cons p W' ih =>
    intro acc hch hcos hE hacc
    cases W' with
    | nil =>
      simp only [rowsAux]
      rw [binsFold_single]
      obtain ⟨hp, hf, hlt, hpi⟩ := hch
      split_ifs with hin
      · intro d hd
        have hd' : edgeDist (mkEdge p f) a = d := by simpa using hd
        rw [← hd']
        have hpol2 : P2.norm f * Real.cos (vang f + twoPi) = f.x ∧
            P2.norm f * Real.sin (vang f + twoPi) = f.y := by
          have hc := Real.cos_add_int_mul_two_pi (vang f) 1
          have hs := Real.sin_add_int_mul_two_pi (vang f) 1
          simp only [Int.cast_one, one_mul] at hc hs
          rw [twoPi_real, hc, hs]
          exact polar_vertexAngle f
        have hcs := hcos (p, f) (by simp [cycPairs])
        simp only [Bool.or_eq_true, Bool.and_eq_true, decide_eq_true_eq] at hin
        have hf0 := (vang_range f).1
        rcases hin with ⟨h1, _⟩ | ⟨h1, h2⟩
        · have := cpoly_dts_selects_edge p f a a (vang p) (vang f + twoPi) hp hf
            (polar_vertexAngle p) hpol2 ⟨rfl, rfl⟩ h1 (by linarith) hlt hpi hcs
          exact ⟨this.1, (p, f), hE _ (by simp [cycPairs]), this.2⟩
        · have hc := Real.cos_add_int_mul_two_pi a 1
          have hs := Real.sin_add_int_mul_two_pi a 1
          simp only [Int.cast_one, one_mul] at hc hs
          rw [← twoPi_real] at hc hs
          have := cpoly_dts_selects_edge p f a (a + twoPi) (vang p) (vang f + twoPi) hp hf
            (polar_vertexAngle p) hpol2 ⟨hc, hs⟩ (by linarith) (by linarith) hlt hpi hcs
          exact ⟨this.1, (p, f), hE _ (by simp [cycPairs]), this.2⟩
      · exact hacc
    | cons q rest =>
      simp only [rowsAux]
      rw [binsFold_cons _ _ _ _ _ _ (rowsAux_ne_nil f q rest)]
      obtain ⟨hp, hq, hlt, hpi, hrest⟩ := hch
      apply ih _ hrest
      · intro e he; exact hcos e (by simp [cycPairs, he])
      · intro e he; exact hE e (by simp [cycPairs, he])
      · split_ifs with hin
        · intro d hd
          have hd' : edgeDist (mkEdge p q) a = d := by simpa using hd
          rw [← hd']
          simp only [Bool.and_eq_true, decide_eq_true_eq] at hin
          have hcs := hcos (p, q) (by simp [cycPairs])
          have := cpoly_dts_selects_edge p q a a (vang p) (vang q) hp hq
            (polar_vertexAngle p) (polar_vertexAngle q) ⟨rfl, rfl⟩ hin.1 hin.2.le hlt hpi hcs
          exact ⟨this.1, (p, q), hE _ (by simp [cycPairs]), this.2⟩
        · exact hacc



/-- **C14 polygon, the loop for a reduced angle `a ∈ [0, 2π]` (closed at `2π`).**  Let `W` be the
centred, aligned vertex list rolled to its smallest vertex angle (what the loop runs over).  If the
vertex angles the code computes increase along `W` with gaps `< π`, the wrap gap included
(`ChainOK`; derived from convexity in `cpoly_dts_correct` below), then for every `a ∈ [0, 2π]` —
with `cos a ≠ 0` whenever the polygon has an edge that is neither horizontal nor vertical — the
slot is assigned, the returned `d` is positive, and `centre + d (cos a, sin a)` lies on an edge
segment of the polygon.  `a = 2π` (what `np.mod` returns in floating point for tiny negative
angles) is included: that is the purpose of the `2π + eps` closing bound of the last bin. -/
theorem cpoly_at_on_boundary_of_chain (R : M2 ℝ) (flip : Bool) (V : List (P2 ℝ)) (c : P2 ℝ) (a : ℝ)
    (ha0 : 0 ≤ a) (ha2 : a ≤ DTS.twoPi) (p0 : P2 ℝ) (T : List (P2 ℝ))
    (hW : DTS.rollL (DTS.argmin (DTS.vertexAngles (DTS.alignedVerts R flip V c)))
      (DTS.alignedVerts R flip V c) = p0 :: T)
    (hchain : DTS.ChainOK p0 (p0 :: T))
    (hcos : ∀ e ∈ Spec.edgesOf (p0 :: T), e.1.x ≠ e.2.x → e.1.y ≠ e.2.y → Real.cos a ≠ 0) :
    ∃ d, DTS.cpolyAt R flip V c a = some d ∧ 0 < d ∧
      Spec.onPolyBoundary (p0 :: T) (Spec.rayPoint d a) := by
  have hrows := DTS.binRows_eq _ p0 T hW
  have hfirst : ∃ x rest, DTS.rowsAux p0 (p0 :: T) = (DTS.vang p0, x) :: rest := by
    cases T with
    | nil => exact ⟨_, _, rfl⟩
    | cons q rest => exact ⟨_, _, rfl⟩
  obtain ⟨x, rest, hr⟩ := hfirst
  have hval : DTS.cpolyAt R flip V c a =
      DTS.binsFold a (DTS.vang p0) (DTS.rowsAux p0 (p0 :: T)) none := by
    unfold DTS.cpolyAt
    simp only [hrows]
    rw [hr]
  rw [DTS.edgesOf_cons] at hcos
  have hgood := cpoly_binsFold_good a ha2 p0 (fun e => e ∈ DTS.cycPairs p0 (p0 :: T)) (p0 :: T) none
    hchain hcos (fun e he => he) (by intro d hd; exact absurd hd (by simp))
  have hsome : (DTS.binsFold a (DTS.vang p0) (DTS.rowsAux p0 (p0 :: T)) none).isSome = true := by
    by_cases h : a < DTS.vang p0
    · exact DTS.binsFold_cover_lt a ha0 p0 h _ _ (by simp)
    · exact DTS.binsFold_cover_ge a ha2 p0 _ _ p0 T rfl (not_lt.mp h)
  obtain ⟨d, hd⟩ := Option.isSome_iff_exists.mp hsome
  obtain ⟨hdpos, e, he, hseg⟩ := hgood d hd
  refine ⟨d, by rw [hval, hd], hdpos, e, ?_, hseg⟩
  rw [DTS.edgesOf_cons]; exact he

/-- **C14 polygon, function level, from the angular chain.**  The same for the whole function
(`np.mod` first) and EVERY real `θ`. -/
theorem cpoly_dts_on_boundary_of_chain (R : M2 ℝ) (flip : Bool) (V : List (P2 ℝ)) (c : P2 ℝ) (θ : ℝ)
    (p0 : P2 ℝ) (T : List (P2 ℝ))
    (hW : DTS.rollL (DTS.argmin (DTS.vertexAngles (DTS.alignedVerts R flip V c)))
      (DTS.alignedVerts R flip V c) = p0 :: T)
    (hchain : DTS.ChainOK p0 (p0 :: T))
    (hcos : ∀ e ∈ Spec.edgesOf (p0 :: T), e.1.x ≠ e.2.x → e.1.y ≠ e.2.y → Real.cos θ ≠ 0) :
    ∃ d, DTS.cpolyDtsFrom R flip V c θ = some d ∧ 0 < d ∧
      Spec.onPolyBoundary (p0 :: T) (Spec.rayPoint d θ) := by
  obtain ⟨ha0, ha2⟩ := DTS.fmod_range θ
  have hca : Real.cos (DTS.fmod θ DTS.twoPi) = Real.cos θ := DTS.cos_fmod θ
  have hsa : Real.sin (DTS.fmod θ DTS.twoPi) = Real.sin θ := DTS.sin_fmod θ
  obtain ⟨d, hd, hpos, hb⟩ := cpoly_at_on_boundary_of_chain R flip V c (DTS.fmod θ DTS.twoPi) ha0 ha2.le
    p0 T hW hchain (by rw [hca]; exact hcos)
  refine ⟨d, by rw [DTS.cpolyDtsFrom_eq]; exact hd, hpos, ?_⟩
  have : Spec.rayPoint d θ = Spec.rayPoint d (DTS.fmod θ DTS.twoPi) := by
    simp only [Spec.rayPoint, Scalar.cos_real, Scalar.sin_real, hca, hsa]
  rw [this]; exact hb

/-- the diamond `(1,0), (0,1), (−1,0), (0,−1)` about its centre, direction `θ = 0` (all four edges
are generic; vertex angles `0, π/2, π, 3π/2`): every hypothesis of the theorem holds -/
example : ∃ d, DTS.cpolyDtsFrom M2.id false [⟨1, 0⟩, ⟨0, 1⟩, ⟨-1, 0⟩, ⟨0, -1⟩] ⟨0, 0⟩ (0 : ℝ) = some d ∧ 0 < d ∧
    Spec.onPolyBoundary [⟨1, 0⟩, ⟨0, 1⟩, ⟨-1, 0⟩, ⟨0, -1⟩] (Spec.rayPoint d 0) := by
  have hA : DTS.alignedVerts M2.id false [⟨1, 0⟩, ⟨0, 1⟩, ⟨-1, 0⟩, ⟨0, -1⟩] (⟨0, 0⟩ : P2 ℝ) =
      [⟨1, 0⟩, ⟨0, 1⟩, ⟨-1, 0⟩, ⟨0, -1⟩] := by
    simp [DTS.alignedVerts, M2.apply, M2.id, Scalar.lit]
  have hang : DTS.vertexAngles ([⟨1, 0⟩, ⟨0, 1⟩, ⟨-1, 0⟩, ⟨0, -1⟩] : List (P2 ℝ)) =
      [0, Real.pi / 2, Real.pi, 3 * Real.pi / 2] := by
    have h : ∀ l : List (P2 ℝ), DTS.vertexAngles l = l.map DTS.vang := fun _ => rfl
    rw [h]
    simp only [List.map_cons, List.map_nil, DTS.vang_e1, DTS.vang_e2, DTS.vang_e3, DTS.vang_e4]
  have hpi := Real.pi_pos
  have hmin : DTS.argmin ([0, Real.pi / 2, Real.pi, 3 * Real.pi / 2] : List ℝ) = 0 := by
    simp only [DTS.argmin, DTS.argminAux]
    rw [if_neg (by linarith), if_neg (by linarith), if_neg (by linarith)]
  apply cpoly_dts_on_boundary_of_chain
  · rw [hA, hang, hmin]; rfl
  · simp only [DTS.ChainOK, DTS.vang_e1, DTS.vang_e2, DTS.vang_e3, DTS.vang_e4, DTS.twoPi_real,
      P2.norm_real]
    norm_num
    (repeat' apply And.intro) <;> linarith
  · intro _ _ _ _; simp

/-! ## Convex polygon: the whole function from convexity (no per-run hypothesis) -/

theorem M2.id_apply (p : P2 ℝ) : (M2.id : M2 ℝ).apply p = p := by
  cases p; simp [M2.apply, M2.id, Scalar.lit]

theorem DTS.alignedVerts_id (flip : Bool) (V : List (P2 ℝ)) (c : P2 ℝ) :
    DTS.alignedVerts M2.id flip V c = if flip then (V.map (· - c)).reverse else V.map (· - c) := by
  unfold DTS.alignedVerts
  simp only [M2.id_apply]

theorem P2.sub_inj (c : P2 ℝ) : Function.Injective (fun v : P2 ℝ => v - c) := by
  intro u v h
  have hx : (u - c).x = (v - c).x := congrArg P2.x h
  have hy : (u - c).y = (v - c).y := congrArg P2.y h
  simp only [P2.sub_x, P2.sub_y] at hx hy
  cases u; cases v; simp only at hx hy; congr <;> linarith

/-- **C14 convex polygon, the loop from convexity.**  For every strictly convex counter-clockwise
polygon `V`, every `c` strictly inside and every reduced angle `a ∈ [0, 2π]` (closed: `a = 2π` is
what `np.mod` returns in floating point for tiny negative angles, and is served by the
`2π + 1e-6` closing bound of the last bin). -/
theorem cpoly_at_correct (V : List (P2 ℝ)) (c : P2 ℝ) (a : ℝ) (ha0 : 0 ≤ a) (ha2 : a ≤ DTS.twoPi)
    (hne : V ≠ [])
    (hconv : Spec.strictConvexCCW V) (hin : Spec.strictlyInsideCCW V c)
    (hcos : ∀ e ∈ Spec.edgesOf V, e.1.x ≠ e.2.x → e.1.y ≠ e.2.y → Real.cos a ≠ 0) :
    ∃ d, DTS.cpolyAt M2.id false V c a = some d ∧ 0 < d ∧
      Spec.onPolyBoundary V (c + Spec.rayPoint d a) := by
  have hA : DTS.alignedVerts M2.id false V c = V.map (· - c) := by
    rw [DTS.alignedVerts_id]; simp
  have hedge : ∀ e, e ∈ Spec.edgesOf (V.map (· - c)) ↔
      ∃ e0 ∈ Spec.edgesOf V, e = (e0.1 - c, e0.2 - c) := by
    intro e
    rw [DTS.edgesOf_map, List.mem_map]
    constructor
    · rintro ⟨e0, h0, rfl⟩; exact ⟨e0, h0, rfl⟩
    · rintro ⟨e0, h0, rfl⟩; exact ⟨e0, h0, rfl⟩
  have hconvA : Spec.strictConvexCCW (V.map (· - c)) := by
    refine ⟨hconv.1.map (P2.sub_inj c), ?_⟩
    intro e he w hw hw1 hw2
    obtain ⟨e0, h0, rfl⟩ := (hedge e).mp he
    obtain ⟨w0, hw0, rfl⟩ := List.mem_map.mp hw
    have := hconv.2 e0 h0 w0 hw0 (by rintro rfl; exact hw1 rfl) (by rintro rfl; exact hw2 rfl)
    simp only [Spec.cross, P2.sub_x, P2.sub_y, Scalar.lit, Scalar.ofNat_real, Nat.cast_zero] at this ⊢
    linarith
  have hinA : ∀ e ∈ Spec.edgesOf (V.map (· - c)), 0 < Spec.cross e.1 e.2 := by
    intro e he
    obtain ⟨e0, h0, rfl⟩ := (hedge e).mp he
    have := hin e0 h0
    simp only [Spec.cross, P2.sub_x, P2.sub_y, Scalar.lit, Scalar.ofNat_real, Nat.cast_zero] at this ⊢
    linarith
  obtain ⟨p0, T, hW, hchain, hE⟩ := DTS.rolled_chainOK (V.map (· - c)) (by simpa using hne) hconvA hinA
  obtain ⟨d, hd, hpos, e, he, hseg⟩ := cpoly_at_on_boundary_of_chain M2.id false V c a ha0 ha2 p0 T
    (by rw [hA]; exact hW) hchain (by
      intro e he
      obtain ⟨e0, h0, rfl⟩ := (hedge e).mp ((hE e).mp he)
      simp only [P2.sub_x, P2.sub_y]
      intro h1 h2
      exact hcos e0 h0 (fun h => h1 (by rw [h])) (fun h => h2 (by rw [h])))
  obtain ⟨e0, h0, rfl⟩ := (hedge e).mp ((hE e).mp he)
  refine ⟨d, hd, hpos, e0, h0, ?_⟩
  obtain ⟨s, hs0, hs1, hx, hy⟩ := hseg
  refine ⟨s, hs0, hs1, ?_, ?_⟩
  · simp only [P2.sub_x, P2.add_x] at hx ⊢; linarith
  · simp only [P2.sub_y, P2.add_y] at hy ⊢; linarith

/-- **C14 convex polygon (counter-clockwise storage).**  For EVERY strictly convex polygon `V`
(counter-clockwise, no repeated vertex), EVERY point `c` strictly inside it (in particular its
centroid, `cpoly_centroid_strictlyInside`), and EVERY real `θ` — with `cos θ ≠ 0` if the polygon
has an edge that is neither horizontal nor vertical — the function assigns the slot, the returned
`d` is positive and `c + d (cos θ, sin θ)` lies on an edge segment of `V`.  No per-run hypothesis:
`ChainOK` is derived from convexity (`Lemmas/DistToSurfaceChain.lean`). -/
theorem cpoly_dts_correct (V : List (P2 ℝ)) (c : P2 ℝ) (θ : ℝ) (hne : V ≠ [])
    (hconv : Spec.strictConvexCCW V) (hin : Spec.strictlyInsideCCW V c)
    (hcos : ∀ e ∈ Spec.edgesOf V, e.1.x ≠ e.2.x → e.1.y ≠ e.2.y → Real.cos θ ≠ 0) :
    ∃ d, DTS.cpolyDtsFrom M2.id false V c θ = some d ∧ 0 < d ∧
      Spec.onPolyBoundary V (c + Spec.rayPoint d θ) := by
  obtain ⟨ha0, ha2⟩ := DTS.fmod_range θ
  have hca : Real.cos (DTS.fmod θ DTS.twoPi) = Real.cos θ := DTS.cos_fmod θ
  have hsa : Real.sin (DTS.fmod θ DTS.twoPi) = Real.sin θ := DTS.sin_fmod θ
  obtain ⟨d, hd, hpos, hb⟩ := cpoly_at_correct V c (DTS.fmod θ DTS.twoPi) ha0 ha2.le hne hconv hin
    (by rw [hca]; exact hcos)
  refine ⟨d, by rw [DTS.cpolyDtsFrom_eq]; exact hd, hpos, ?_⟩
  have : Spec.rayPoint d θ = Spec.rayPoint d (DTS.fmod θ DTS.twoPi) := by
    simp only [Spec.rayPoint, Scalar.cos_real, Scalar.sin_real, hca, hsa]
  rw [this]; exact hb

/-- rectangle `[-2,2] × [-1,1]` measured from the off-centre interior point `(1/2, 1/4)`: all
hypotheses hold, for EVERY `θ` (the rectangle has only horizontal and vertical edges, so the
`cos θ ≠ 0` guard is vacuous) -/
example (θ : ℝ) : ∃ d, DTS.cpolyDtsFrom M2.id false [⟨2, -1⟩, ⟨2, 1⟩, ⟨-2, 1⟩, ⟨-2, -1⟩] ⟨1/2, 1/4⟩ θ = some d ∧
    0 < d ∧ Spec.onPolyBoundary [⟨2, -1⟩, ⟨2, 1⟩, ⟨-2, 1⟩, ⟨-2, -1⟩] ((⟨1/2, 1/4⟩ : P2 ℝ) + Spec.rayPoint d θ) := by
  apply cpoly_dts_correct
  · simp
  · refine ⟨by simp; norm_num, ?_⟩
    intro e he w hw h1 h2
    simp only [Spec.edgesOf, List.drop_succ_cons, List.drop_zero, List.take_succ_cons, List.take_zero,
      List.cons_append, List.nil_append, List.zip_cons_cons, List.zip_nil_right, List.mem_cons,
      List.not_mem_nil, or_false] at he hw
    rcases he with rfl | rfl | rfl | rfl <;> rcases hw with rfl | rfl | rfl | rfl <;>
      first
        | exact absurd rfl h1
        | exact absurd rfl h2
        | (simp [Spec.cross, Scalar.lit]; try norm_num)
  · intro e he
    simp only [Spec.edgesOf, List.drop_succ_cons, List.drop_zero, List.take_succ_cons, List.take_zero,
      List.cons_append, List.nil_append, List.zip_cons_cons, List.zip_nil_right, List.mem_cons,
      List.not_mem_nil, or_false] at he
    rcases he with rfl | rfl | rfl | rfl <;> (simp [Spec.cross, Scalar.lit]; try norm_num)
  · intro e he
    simp only [Spec.edgesOf, List.drop_succ_cons, List.drop_zero, List.take_succ_cons, List.take_zero,
      List.cons_append, List.nil_append, List.zip_cons_cons, List.zip_nil_right, List.mem_cons,
      List.not_mem_nil, or_false] at he
    rcases he with rfl | rfl | rfl | rfl <;> simp


/-- **C14 convex polygon (clockwise storage, `normal[2] < 0`).**  The code reverses the vertex list
(`verts[::-1]`, `flip = true`); for every polygon whose REVERSED list is strictly convex
counter-clockwise the same statement holds, with the boundary of the list as stored. -/
theorem cpoly_dts_correct_cw (V : List (P2 ℝ)) (c : P2 ℝ) (θ : ℝ) (hne : V ≠ [])
    (hconv : Spec.strictConvexCCW V.reverse) (hin : Spec.strictlyInsideCCW V.reverse c)
    (hcos : ∀ e ∈ Spec.edgesOf V, e.1.x ≠ e.2.x → e.1.y ≠ e.2.y → Real.cos θ ≠ 0) :
    ∃ d, DTS.cpolyDtsFrom M2.id true V c θ = some d ∧ 0 < d ∧
      Spec.onPolyBoundary V (c + Spec.rayPoint d θ) := by
  have hfl : DTS.cpolyDtsFrom M2.id true V c θ = DTS.cpolyDtsFrom M2.id false V.reverse c θ := by
    unfold DTS.cpolyDtsFrom
    rw [DTS.alignedVerts_id, DTS.alignedVerts_id]
    simp only [if_true, Bool.false_eq_true, if_false, List.map_reverse]
  obtain ⟨d, hd, hpos, hb⟩ := cpoly_dts_correct V.reverse c θ (by simpa using hne) hconv hin (by
    intro e he h1 h2
    obtain ⟨a, b⟩ := e
    exact hcos (b, a) ((DTS.mem_edgesOf_reverse V a b).mp he) (fun h => h1 h.symm) (fun h => h2 h.symm))
  exact ⟨d, by rw [hfl]; exact hd, hpos, DTS.onPolyBoundary_reverse V _ hb⟩

/-- the same rectangle stored clockwise (`normal = −z`, `flip = true`) -/
example (θ : ℝ) : ∃ d, DTS.cpolyDtsFrom M2.id true [⟨-2, -1⟩, ⟨-2, 1⟩, ⟨2, 1⟩, ⟨2, -1⟩] ⟨1/2, 1/4⟩ θ = some d ∧
    0 < d ∧ Spec.onPolyBoundary [⟨-2, -1⟩, ⟨-2, 1⟩, ⟨2, 1⟩, ⟨2, -1⟩] ((⟨1/2, 1/4⟩ : P2 ℝ) + Spec.rayPoint d θ) := by
  apply cpoly_dts_correct_cw
  · simp
  · refine ⟨by simp; norm_num, ?_⟩
    intro e he w hw h1 h2
    simp only [List.reverse_cons, List.reverse_nil, List.nil_append, List.cons_append,
      Spec.edgesOf, List.drop_succ_cons, List.drop_zero, List.take_succ_cons, List.take_zero,
      List.zip_cons_cons, List.zip_nil_right, List.mem_cons,
      List.not_mem_nil, or_false] at he hw
    rcases he with rfl | rfl | rfl | rfl <;> rcases hw with rfl | rfl | rfl | rfl <;>
      first
        | exact absurd rfl h1
        | exact absurd rfl h2
        | (simp [Spec.cross, Scalar.lit]; try norm_num)
  · intro e he
    simp only [List.reverse_cons, List.reverse_nil, List.nil_append, List.cons_append,
      Spec.edgesOf, List.drop_succ_cons, List.drop_zero, List.take_succ_cons, List.take_zero,
      List.zip_cons_cons, List.zip_nil_right, List.mem_cons,
      List.not_mem_nil, or_false] at he
    rcases he with rfl | rfl | rfl | rfl <;> (simp [Spec.cross, Scalar.lit]; try norm_num)
  · intro e he
    simp only [Spec.edgesOf, List.drop_succ_cons, List.drop_zero, List.take_succ_cons, List.take_zero,
      List.cons_append, List.nil_append, List.zip_cons_cons, List.zip_nil_right, List.mem_cons,
      List.not_mem_nil, or_false] at he
    rcases he with rfl | rfl | rfl | rfl <;> simp

/-- **the centre of the property is admissible.**  The area centroid (triangle-fan formula
`Spec.polyCentroid`, the oracle's exact centre; C04 ties `Polygon.centroid` to it) of a strictly
convex counter-clockwise polygon with at least three vertices is strictly inside it. -/
theorem cpoly_centroid_strictlyInside (V : List (P2 ℝ)) (h3 : 3 ≤ V.length)
    (hconv : Spec.strictConvexCCW V) : Spec.strictlyInsideCCW V (Spec.polyCentroid V) :=
  DTS.polyCentroid_strictlyInside V h3 hconv

/-- **C14 convex polygon, as the property states it**: measured from the centroid; the only
hypothesis about the polygon is strict convexity (counter-clockwise listing). -/
theorem cpoly_dts_correct_centroid (V : List (P2 ℝ)) (θ : ℝ) (h3 : 3 ≤ V.length)
    (hconv : Spec.strictConvexCCW V)
    (hcos : ∀ e ∈ Spec.edgesOf V, e.1.x ≠ e.2.x → e.1.y ≠ e.2.y → Real.cos θ ≠ 0) :
    ∃ d, DTS.cpolyDtsFrom M2.id false V (Spec.polyCentroid V) θ = some d ∧ 0 < d ∧
      Spec.onPolyBoundary V (Spec.polyCentroid V + Spec.rayPoint d θ) :=
  cpoly_dts_correct V _ θ (by intro h; rw [h] at h3; simp at h3) hconv
    (cpoly_centroid_strictlyInside V h3 hconv) hcos

/-- the triangle `(0,0), (3,0), (0,3)` (centroid `(1,1)`), direction `θ = 0` (`cos 0 ≠ 0`) -/
example : ∃ d, DTS.cpolyDtsFrom M2.id false [⟨0, 0⟩, ⟨3, 0⟩, ⟨0, 3⟩]
      (Spec.polyCentroid [⟨0, 0⟩, ⟨3, 0⟩, (⟨0, 3⟩ : P2 ℝ)]) 0 = some d ∧ 0 < d ∧
    Spec.onPolyBoundary [⟨0, 0⟩, ⟨3, 0⟩, ⟨0, 3⟩]
      (Spec.polyCentroid [⟨0, 0⟩, ⟨3, 0⟩, (⟨0, 3⟩ : P2 ℝ)] + Spec.rayPoint d 0) := by
  apply cpoly_dts_correct_centroid
  · simp
  · refine ⟨by simp, ?_⟩
    intro e he w hw h1 h2
    simp only [Spec.edgesOf, List.drop_succ_cons, List.drop_zero, List.take_succ_cons, List.take_zero,
      List.cons_append, List.nil_append, List.zip_cons_cons, List.zip_nil_right, List.mem_cons,
      List.not_mem_nil, or_false] at he hw
    rcases he with rfl | rfl | rfl <;> rcases hw with rfl | rfl | rfl <;>
      first
        | exact absurd rfl h1
        | exact absurd rfl h2
        | (simp [Spec.cross, Scalar.lit])
  · intro _ _ _ _; simp

/-- **the returned value is THE distance**: any positive `d'` with `c + d' (cos θ, sin θ)` on the
boundary equals the returned `d` (the boundary point on a ray from an interior point is unique). -/
theorem cpoly_dts_unique (V : List (P2 ℝ)) (c : P2 ℝ) (θ d' : ℝ) (hne : V ≠ [])
    (hconv : Spec.strictConvexCCW V) (hin : Spec.strictlyInsideCCW V c)
    (hcos : ∀ e ∈ Spec.edgesOf V, e.1.x ≠ e.2.x → e.1.y ≠ e.2.y → Real.cos θ ≠ 0)
    (hd' : 0 < d') (hb' : Spec.onPolyBoundary V (c + Spec.rayPoint d' θ)) :
    DTS.cpolyDtsFrom M2.id false V c θ = some d' := by
  obtain ⟨d, hd, hpos, hb⟩ := cpoly_dts_correct V c θ hne hconv hin hcos
  rw [hd, DTS.boundary_unique V c θ d d' hconv hin hpos hd' hb hb']

/-- **`θ` exactly at a vertex direction** (any branch of the angle: `θ = atan2 + 2πk`): the
function returns the distance from the centre to that vertex. -/
theorem cpoly_dts_vertex_direction (V : List (P2 ℝ)) (c v : P2 ℝ) (θ : ℝ)
    (hconv : Spec.strictConvexCCW V) (hin : Spec.strictlyInsideCCW V c) (hv : v ∈ V)
    (hθ : P2.norm (v - c) * Real.cos θ = v.x - c.x ∧ P2.norm (v - c) * Real.sin θ = v.y - c.y)
    (hcos : ∀ e ∈ Spec.edgesOf V, e.1.x ≠ e.2.x → e.1.y ≠ e.2.y → Real.cos θ ≠ 0) :
    DTS.cpolyDtsFrom M2.id false V c θ = some (P2.norm (v - c)) := by
  -- `v` starts an edge
  have hfst : (Spec.edgesOf V).map Prod.fst = V := by
    rw [DTS.edgesOf_eq_zip_rotate]; exact List.map_fst_zip (by simp)
  obtain ⟨e, he, hev⟩ : ∃ e ∈ Spec.edgesOf V, e.1 = v := by
    rw [← hfst] at hv
    obtain ⟨e, he, h⟩ := List.mem_map.mp hv
    exact ⟨e, he, h⟩
  have hc := hin e he
  simp only [Scalar.lit, Scalar.ofNat_real, Nat.cast_zero, hev] at hc
  have hn : 0 < P2.norm (v - c) := by
    rcases (P2.norm_nonneg (v - c)).lt_or_eq with h | h
    · exact h
    · exfalso
      have h2 := P2.norm_mul_self (v - c)
      rw [← h] at h2
      simp only [P2.sub_x, P2.sub_y] at h2
      have hx : v.x - c.x = 0 := by nlinarith [mul_self_nonneg (v.x - c.x), mul_self_nonneg (v.y - c.y)]
      have hy : v.y - c.y = 0 := by nlinarith [mul_self_nonneg (v.x - c.x), mul_self_nonneg (v.y - c.y)]
      simp only [Spec.cross, P2.sub_x, P2.sub_y] at hc
      have e1 : c.x - v.x = 0 := by linarith
      have e2 : c.y - v.y = 0 := by linarith
      rw [e1, e2] at hc
      simp at hc
  apply cpoly_dts_unique V c θ _ (List.ne_nil_of_mem hv) hconv hin hcos hn
  refine ⟨e, he, 0, ?_, ?_, ?_, ?_⟩
  · simp [Scalar.lit]
  · simp [Scalar.lit]
  · simp only [P2.add_x, Spec.rayPoint, Scalar.cos_real, hev]; linarith [hθ.1]
  · simp only [P2.add_y, Spec.rayPoint, Scalar.sin_real, hev]; linarith [hθ.2]

/-- the unit square about its centre, `θ = π/4 − 4π` pointing exactly at the vertex `(1,1)` -/
example : DTS.cpolyDtsFrom M2.id false [⟨1, -1⟩, ⟨1, 1⟩, ⟨-1, 1⟩, ⟨-1, -1⟩] ⟨0, 0⟩ (Real.pi / 4 + (-2 : ℤ) * (2 * Real.pi))
    = some (P2.norm ((⟨1, 1⟩ : P2 ℝ) - ⟨0, 0⟩)) := by
  apply cpoly_dts_vertex_direction
  · refine ⟨by simp; norm_num, ?_⟩
    intro e he w hw h1 h2
    simp only [Spec.edgesOf, List.drop_succ_cons, List.drop_zero, List.take_succ_cons, List.take_zero,
      List.cons_append, List.nil_append, List.zip_cons_cons, List.zip_nil_right, List.mem_cons,
      List.not_mem_nil, or_false] at he hw
    rcases he with rfl | rfl | rfl | rfl <;> rcases hw with rfl | rfl | rfl | rfl <;>
      first
        | exact absurd rfl h1
        | exact absurd rfl h2
        | (simp [Spec.cross, Scalar.lit]; try norm_num)
  · intro e he
    simp only [Spec.edgesOf, List.drop_succ_cons, List.drop_zero, List.take_succ_cons, List.take_zero,
      List.cons_append, List.nil_append, List.zip_cons_cons, List.zip_nil_right, List.mem_cons,
      List.not_mem_nil, or_false] at he
    rcases he with rfl | rfl | rfl | rfl <;> (simp [Spec.cross, Scalar.lit])
  · simp
  · rw [Real.cos_add_int_mul_two_pi, Real.sin_add_int_mul_two_pi, Real.cos_pi_div_four,
      Real.sin_pi_div_four, P2.norm_real]
    simp only [P2.sub_x, P2.sub_y, sub_zero, mul_one]
    have h2 : Real.sqrt (1 + 1) = Real.sqrt 2 := by norm_num
    rw [h2]
    have := Real.mul_self_sqrt (show (0:ℝ) ≤ 2 by norm_num)
    constructor <;> nlinarith
  · intro e he
    simp only [Spec.edgesOf, List.drop_succ_cons, List.drop_zero, List.take_succ_cons, List.take_zero,
      List.cons_append, List.nil_append, List.zip_cons_cons, List.zip_nil_right, List.mem_cons,
      List.not_mem_nil, or_false] at he
    rcases he with rfl | rfl | rfl | rfl <;> simp

/-- **the `2π + 1e-6` closing bound.**  When `np.mod` returns exactly `2π` (it does in floating
point for tiny negative angles such as `-1e-17`), the loop still assigns the slot — from the last
bin, whose upper bound is `2π + eps` — and the value is THE distance in direction `0 ≡ 2π`,
i.e. the same value the function returns for `θ = 0`. -/
theorem cpoly_at_two_pi (V : List (P2 ℝ)) (c : P2 ℝ) (hne : V ≠ [])
    (hconv : Spec.strictConvexCCW V) (hin : Spec.strictlyInsideCCW V c) :
    DTS.cpolyAt M2.id false V c DTS.twoPi = DTS.cpolyDtsFrom M2.id false V c 0 ∧
    (DTS.cpolyAt M2.id false V c DTS.twoPi).isSome = true := by
  have hc1 : Real.cos DTS.twoPi = 1 := by rw [DTS.twoPi_real]; exact Real.cos_two_pi
  have hs0 : Real.sin DTS.twoPi = 0 := by rw [DTS.twoPi_real]; exact Real.sin_two_pi
  obtain ⟨d, hd, hpos, hb⟩ := cpoly_at_correct V c DTS.twoPi DTS.twoPi_pos.le le_rfl hne hconv hin
    (by intro _ _ _ _; rw [hc1]; norm_num)
  have hray : Spec.rayPoint d DTS.twoPi = Spec.rayPoint d (0 : ℝ) := by
    simp only [Spec.rayPoint, Scalar.cos_real, Scalar.sin_real, hc1, hs0, Real.cos_zero, Real.sin_zero]
  rw [hray] at hb
  have h0 := cpoly_dts_unique V c 0 d hne hconv hin (by intro _ _ _ _; simp) hpos hb
  rw [hd, h0]; simp


/-- **the hypotheses as the driver decides them.**  `Spec.strictConvexCCWb` / `strictlyInsideCCWb`
are evaluated exactly over ℚ on the vertices and centre the implementation stores (op `c14.hyp`,
every case of every run): when they answer `true`, the theorem applies to that very object. -/
theorem cpoly_dts_correct_checked (V : List (P2 ℝ)) (c : P2 ℝ) (θ : ℝ) (flip : Bool) (hne : V ≠ [])
    (hck : Spec.strictConvexCCWb (if flip then V.reverse else V) = true ∧
      Spec.strictlyInsideCCWb (if flip then V.reverse else V) c = true)
    (hcos : ∀ e ∈ Spec.edgesOf V, e.1.x ≠ e.2.x → e.1.y ≠ e.2.y → Real.cos θ ≠ 0) :
    ∃ d, DTS.cpolyDtsFrom M2.id flip V c θ = some d ∧ 0 < d ∧
      Spec.onPolyBoundary V (c + Spec.rayPoint d θ) := by
  cases flip with
  | false =>
    simp only [Bool.false_eq_true, if_false] at hck
    exact cpoly_dts_correct V c θ hne (DTS.strictConvexCCWb_sound V hck.1)
      (DTS.strictlyInsideCCWb_sound V c hck.2) hcos
  | true =>
    simp only [if_true] at hck
    exact cpoly_dts_correct_cw V c θ hne (DTS.strictConvexCCWb_sound _ hck.1)
      (DTS.strictlyInsideCCWb_sound _ c hck.2) hcos

/-! ## Spheropolygon: outward unit normals -/

/-- **`_get_outward_unit_normal`, all slope / sign cases.** For an edge direction `vec ≠ 0` through
`pt` whose line misses the centre (`cross(vec, pt) ≠ 0`) the returned vector is a unit vector,
perpendicular to the edge, pointing away from the centre (`n · pt > 0`). -/
theorem spg_outward_unit_normal (vec pt : P2 ℝ) (hcr : Spec.cross vec pt ≠ 0) :
    let n := DTS.outwardUnitNormal vec pt
    n.x * n.x + n.y * n.y = 1 ∧ n.x * vec.x + n.y * vec.y = 0 ∧ 0 < n.x * pt.x + n.y * pt.y :=
  DTS.outwardUnitNormal_props vec pt hcr

/-- edge direction `(−1, 2)` through `(2, 0)` (generic slope −2, intercept 4): all hypotheses hold -/
example : 0 < (DTS.outwardUnitNormal (⟨-1, 2⟩ : P2 ℝ) ⟨2, 0⟩).x * 2 + (DTS.outwardUnitNormal (⟨-1, 2⟩ : P2 ℝ) ⟨2, 0⟩).y * 0 :=
  (spg_outward_unit_normal ⟨-1, 2⟩ ⟨2, 0⟩ (by norm_num [Spec.cross])).2.2

/-! ## Spheropolygon: the arc branch -/

/-- **the repaired discriminant is the textbook one.**  `4 (r² − (|v| sin(a − φ))²) = b² − 4ac`
(`|v| sin(a − φ) = cross(v, u)`, `b = −2 v·u`, `c = |v|² − r²`): the expression /repo 5df35a1 evaluates
differs from the old one only by `sin² + cos² = 1` — and by not cancelling in floating point. -/
theorem spg_arc_disc_identity (v : P2 ℝ) (r a : ℝ) :
    4 * (r * r - (v.x * Real.sin a - v.y * Real.cos a) * (v.x * Real.sin a - v.y * Real.cos a)) =
      (2 * (v.x * Real.cos a + v.y * Real.sin a)) ^ 2 - 4 * (v.x * v.x + v.y * v.y - r * r) :=
  DTS.arc_disc_identity v r a

/-- closed form of the coded root, every input: `v·u + √max(r² − cross(v,u)², 0)` -/
theorem spg_arc_root_closed_form (v : P2 ℝ) (r a : ℝ) :
    DTS.arcDist v r a = (v.x * Real.cos a + v.y * Real.sin a) +
      Real.sqrt (Max.max (r * r - (v.x * Real.sin a - v.y * Real.cos a) * (v.x * Real.sin a - v.y * Real.cos a)) 0) :=
  DTS.arcDist_new v r a

/-- where the textbook discriminant is non-negative the coded root IS the textbook root
`(−b + √(b² − 4ac)) / 2a` (the clip at `0` is inactive) -/
theorem spg_arc_root_eq_textbook (v : P2 ℝ) (r a : ℝ)
    (hdisc : 0 ≤ (2 * (v.x * Real.cos a + v.y * Real.sin a)) ^ 2 - 4 * (v.x * v.x + v.y * v.y - r * r)) :
    DTS.arcDist v r a = (2 * (v.x * Real.cos a + v.y * Real.sin a) +
      Real.sqrt ((2 * (v.x * Real.cos a + v.y * Real.sin a)) ^ 2 - 4 * (v.x * v.x + v.y * v.y - r * r))) / 2 :=
  DTS.arcDist_eq v r a hdisc

/-- **C14 spheropolygon, arc branch.** With a non-negative discriminant the root written by
the arc loop puts `centre + d (cos a, sin a)` on the circle of radius `r` about the core vertex
`v` (i.e. at distance exactly `r` from that vertex).  (Inside a corner's arc range the
discriminant IS non-negative: `spg_corner_arc_correct` has no such hypothesis.) -/
theorem spg_arc_on_circle (v : P2 ℝ) (r a : ℝ)
    (hdisc : 0 ≤ (2 * (v.x * Real.cos a + v.y * Real.sin a)) ^ 2 - 4 * (v.x * v.x + v.y * v.y - r * r)) :
    let d := DTS.arcDist v r a
    (d * Real.cos a - v.x) ^ 2 + (d * Real.sin a - v.y) ^ 2 = r ^ 2 := by
  intro d
  have hsc := sin_mul_self_add_cos_mul_self a
  have hd : d = (2 * (v.x * Real.cos a + v.y * Real.sin a) +
      Real.sqrt ((2 * (v.x * Real.cos a + v.y * Real.sin a)) ^ 2 - 4 * (v.x * v.x + v.y * v.y - r * r))) / 2 :=
    DTS.arcDist_eq v r a hdisc
  have hsq := Real.mul_self_sqrt hdisc
  set S := Real.sqrt ((2 * (v.x * Real.cos a + v.y * Real.sin a)) ^ 2 - 4 * (v.x * v.x + v.y * v.y - r * r))
  rw [hd]
  linear_combination (1 / 4 : ℝ) * hsq +
    ((2 * (v.x * Real.cos a + v.y * Real.sin a) + S) / 2) ^ 2 * hsc

/-- the root taken is the larger of the two (the exit point of the ray, not the entry point) -/
theorem spg_arc_root_largest (v : P2 ℝ) (r a t : ℝ)
    (ht : (t * Real.cos a - v.x) ^ 2 + (t * Real.sin a - v.y) ^ 2 = r ^ 2) :
    t ≤ DTS.arcDist v r a := by
  have hsc := sin_mul_self_add_cos_mul_self a
  set B := v.x * Real.cos a + v.y * Real.sin a with hB
  -- t² − 2 B t + (|v|² − r²) = 0
  have hq : t * t - 2 * B * t + (v.x * v.x + v.y * v.y - r * r) = 0 := by
    rw [hB]; nlinarith [ht, hsc]
  have hdisc : (2 * B) ^ 2 - 4 * (v.x * v.x + v.y * v.y - r * r) = (2 * (t - B)) ^ 2 := by
    nlinarith [hq]
  have hd := DTS.arcDist_eq v r a (by rw [← hB, hdisc]; exact sq_nonneg _)
  rw [← hB] at hd
  rw [hd, hdisc, Real.sqrt_sq_eq_abs]
  have := le_abs_self (2 * (t - B))
  linarith

/-- vertex `(3, 0)`, radius `1`, direction `0`: the arc root is `4` (far side of the circle) -/
example : (DTS.arcDist (⟨3, 0⟩ : P2 ℝ) 1 0 * Real.cos 0 - 3) ^ 2 +
    (DTS.arcDist (⟨3, 0⟩ : P2 ℝ) 1 0 * Real.sin 0 - 0) ^ 2 = (1 : ℝ) ^ 2 := by
  have h := spg_arc_on_circle (⟨3, 0⟩ : P2 ℝ) 1 0 (by simp; norm_num)
  simpa using h

example : (2 : ℝ) ≤ DTS.arcDist (⟨3, 0⟩ : P2 ℝ) 1 0 :=
  spg_arc_root_largest _ _ _ 2 (by simp; norm_num)

/-! ## Spheropolygon: corners, arc ranges, the whole function -/

/-- **the expanded vertices are the vertices of the offset polygon.**  For a convex corner
`v1 → v2 → v3` of a counter-clockwise polygon around the centre (origin strictly left of both
edges, strict left turn) the coded `new_vert = v2 + û r / sin(φ/2)` — `û` the normalised sum of
the two outward unit normals the code computes, `φ = arccos(v32·v12 / (|v32||v12|))` — is at signed
distance exactly `r` from the supporting lines of BOTH edges, i.e. it is the intersection of the
two lines pushed out by `r`; and the arc range the code stores is that of the two points
`v2 + r n1`, `v2 + r n2` (`n1`, `n2` the right-hand unit normals of the edges). -/
theorem spg_corner_offset_vertex (r : ℝ) (v1 v2 v3 : P2 ℝ)
    (h12 : 0 < Spec.cross v1 v2) (h23 : 0 < Spec.cross v2 v3)
    (hturn : 0 < Spec.cross (v2 - v1) (v3 - v2)) :
    let k := DTS.corner r v1 v2 v3
    let n1 := DTS.rightNormal v1 v2
    let n2 := DTS.rightNormal v2 v3
    n1.x * (k.newVert.x - v2.x) + n1.y * (k.newVert.y - v2.y) = r ∧
    n2.x * (k.newVert.x - v2.x) + n2.y * (k.newVert.y - v2.y) = r ∧
    k.theta1 = DTS.atan2Pos (v2.y + n1.y * r) (v2.x + n1.x * r) ∧
    k.theta2 = DTS.atan2Pos (v2.y + n2.y * r) (v2.x + n2.x * r) ∧ k.v = v2 :=
  DTS.corner_newVert_on_lines r v1 v2 v3 h12 h23 hturn

/-- the corner `(2,−1) → (2,1) → (−2,1)` of the rectangle `[−2,2] × [−1,1]`, `r = 1/2` -/
example : let k := DTS.corner (1 / 2 : ℝ) ⟨2, -1⟩ ⟨2, 1⟩ ⟨-2, 1⟩
    (DTS.rightNormal ⟨2, -1⟩ ⟨2, 1⟩).x * (k.newVert.x - 2) + (DTS.rightNormal ⟨2, -1⟩ ⟨2, 1⟩).y * (k.newVert.y - 1) = 1 / 2 :=
  (spg_corner_offset_vertex (1 / 2) ⟨2, -1⟩ ⟨2, 1⟩ ⟨-2, 1⟩ (by norm_num [Spec.cross]) (by norm_num [Spec.cross])
    (by norm_num [Spec.cross])).1

/-- **one corner, arc branch, inside its range**: the discriminant is non-negative (no hypothesis
about it any more), the root is positive and the point is at distance exactly `r` from the core
vertex. -/
theorem spg_corner_arc_correct (r : ℝ) (hr : 0 < r) (v1 v2 v3 : P2 ℝ) (a : ℝ) (ha0 : 0 ≤ a)
    (ha2 : a < DTS.twoPi) (h12 : 0 < Spec.cross v1 v2) (h23 : 0 < Spec.cross v2 v3)
    (hturn : 0 < Spec.cross (v2 - v1) (v3 - v2))
    (hin : DTS.inArc (DTS.corner r v1 v2 v3) a) :
    0 < DTS.arcDist (DTS.corner r v1 v2 v3).v r a ∧
    (DTS.arcDist (DTS.corner r v1 v2 v3).v r a * Real.cos a - v2.x) ^ 2 +
      (DTS.arcDist (DTS.corner r v1 v2 v3).v r a * Real.sin a - v2.y) ^ 2 = r ^ 2 :=
  DTS.corner_arc_correct r hr v1 v2 v3 a ha0 ha2 h12 h23 hturn hin

/-- **C14 spheropolygon, the whole function (`_partial`).**  Core polygon `V` strictly convex
counter-clockwise with at least three vertices, `c` strictly inside (the core centroid:
`cpoly_centroid_strictlyInside`), `r > 0`, EVERY real `θ`.  Hypothesis `HP`: the offset polygon
`new_verts` is strictly convex counter-clockwise around the centre — in the code this is what
`ConvexPolygon(new_verts)` verifies (Qhull) before the kernel call; the driver decides it exactly on
the implementation's kernel polygon in every case (op `c14.hyp`).  Then the slot is assigned,
`d > 0`, and the point `c + d (cos θ, sin θ)`
* is at distance exactly `r` from a core vertex (the arc loop took it: `θ` is in that vertex's arc
  range), or
* lies on an edge segment of the offset polygon (no arc range contains `θ`) AND is at signed distance
  exactly `r`, on the outer side, from the supporting line of a core edge (consecutive expanded
  vertices lie on the same offset line: `spg_corner_offset_vertex` + `DTS.newVerts_edges`).
Missing for "distance exactly `r` from the core POLYGON": `HP` from the convexity of the core
(normals in cyclic order), and that the arc ranges tile exactly the directions whose offset-edge
hit is beyond the end of the straight part (the nearest core feature is the one the code picks). -/
theorem spg_dts_arc_or_offset_partial (V : List (P2 ℝ)) (c : P2 ℝ) (r θ : ℝ) (hr : 0 < r)
    (h3 : 3 ≤ V.length) (hconv : Spec.strictConvexCCW V) (hin : Spec.strictlyInsideCCW V c)
    (HP : Spec.strictConvexCCW (DTS.spgNewVerts false V c r) ∧
      Spec.strictlyInsideCCW (DTS.spgNewVerts false V c r) P2.zero)
    (hcos : ∀ e ∈ Spec.edgesOf (DTS.spgNewVerts false V c r), e.1.x ≠ e.2.x → e.1.y ≠ e.2.y → Real.cos θ ≠ 0) :
    ∃ d, DTS.spgDts M2.id false false V c r θ = some d ∧ 0 < d ∧
      ((∃ v ∈ V, (c.x + d * Real.cos θ - v.x) ^ 2 + (c.y + d * Real.sin θ - v.y) ^ 2 = r ^ 2) ∨
       (Spec.onPolyBoundary (DTS.spgNewVerts false V c r) (Spec.rayPoint d θ) ∧
        ∃ e ∈ Spec.edgesOf V,
          (DTS.rightNormal e.1 e.2).x * (c.x + d * Real.cos θ - e.1.x) +
          (DTS.rightNormal e.1 e.2).y * (c.y + d * Real.sin θ - e.1.y) = r)) := by
  rcases DTS.spg_cases M2.id false V c r θ hr h3 hconv hin with ⟨hk, _⟩ | ⟨v, hv, d, hd, hpos, hcirc⟩
  · have hne : DTS.spgNewVerts false V c r ≠ [] := by
      intro h
      have := HP.2
      -- an empty offset polygon cannot be: the kernel would return `none`; derive from lengths
      have hl : (DTS.spgNewVerts false V c r).length = V.length := by
        simp [DTS.spgNewVerts, DTS.spgVerts, DTS.length_corners]
      rw [h] at hl; simp at hl; omega
    have hca : Real.cos (DTS.fmod θ DTS.twoPi) = Real.cos θ := DTS.cos_fmod θ
    have hsa : Real.sin (DTS.fmod θ DTS.twoPi) = Real.sin θ := DTS.sin_fmod θ
    obtain ⟨d, hd, hpos, hb⟩ := cpoly_dts_correct (DTS.spgNewVerts false V c r) P2.zero
      (DTS.fmod θ DTS.twoPi) hne HP.1 HP.2 (by rw [hca]; exact hcos)
    refine ⟨d, by rw [hk]; exact hd, hpos, Or.inr ?_⟩
    have : (P2.zero : P2 ℝ) + Spec.rayPoint d (DTS.fmod θ DTS.twoPi) = Spec.rayPoint d θ := by
      simp only [Spec.rayPoint, Scalar.cos_real, Scalar.sin_real, hca, hsa]
      cases hh : (P2.zero : P2 ℝ) with
      | mk x y =>
        have hx : x = 0 := by have := congrArg P2.x hh; simpa [P2.zero, Scalar.lit] using this.symm
        have hy : y = 0 := by have := congrArg P2.y hh; simpa [P2.zero, Scalar.lit] using this.symm
        subst hx; subst hy
        show (⟨0 + d * Real.cos θ, 0 + d * Real.sin θ⟩ : P2 ℝ) = _
        simp
    rw [this] at hb
    refine ⟨hb, ?_⟩
    obtain ⟨e, he, hdist⟩ := DTS.offset_edge_distance V c r h3 hconv hin _ hb
    exact ⟨e, he, by simpa [Spec.rayPoint] using hdist⟩
  · exact ⟨d, hd, hpos, Or.inl ⟨v, hv, hcirc⟩⟩


/-- the square `[−1,1]²` rounded by `r = 1/2` (offset polygon `[−3/2,3/2]²`, computed from the
model in `square_newVerts`): every hypothesis holds, for EVERY `θ` -/
example (θ : ℝ) : ∃ d, DTS.spgDts M2.id false false [⟨1, -1⟩, ⟨1, 1⟩, ⟨-1, 1⟩, ⟨-1, -1⟩] (⟨0, 0⟩ : P2 ℝ) (1 / 2) θ = some d ∧
    0 < d ∧
    ((∃ v ∈ [⟨1, -1⟩, ⟨1, 1⟩, ⟨-1, 1⟩, (⟨-1, -1⟩ : P2 ℝ)],
        ((⟨0, 0⟩ : P2 ℝ).x + d * Real.cos θ - v.x) ^ 2 + ((⟨0, 0⟩ : P2 ℝ).y + d * Real.sin θ - v.y) ^ 2 = (1 / 2 : ℝ) ^ 2) ∨
      (Spec.onPolyBoundary (DTS.spgNewVerts false [⟨1, -1⟩, ⟨1, 1⟩, ⟨-1, 1⟩, ⟨-1, -1⟩] (⟨0, 0⟩ : P2 ℝ) (1 / 2))
        (Spec.rayPoint d θ) ∧
       ∃ e ∈ Spec.edgesOf [⟨1, -1⟩, ⟨1, 1⟩, ⟨-1, 1⟩, (⟨-1, -1⟩ : P2 ℝ)],
          (DTS.rightNormal e.1 e.2).x * ((⟨0, 0⟩ : P2 ℝ).x + d * Real.cos θ - e.1.x) +
          (DTS.rightNormal e.1 e.2).y * ((⟨0, 0⟩ : P2 ℝ).y + d * Real.sin θ - e.1.y) = 1 / 2)) := by
  apply spg_dts_arc_or_offset_partial
  · norm_num
  · simp
  · refine ⟨by simp; norm_num, ?_⟩
    intro e he w hw h1 h2
    simp only [Spec.edgesOf, List.drop_succ_cons, List.drop_zero, List.take_succ_cons, List.take_zero,
      List.cons_append, List.nil_append, List.zip_cons_cons, List.zip_nil_right, List.mem_cons,
      List.not_mem_nil, or_false] at he hw
    rcases he with rfl | rfl | rfl | rfl <;> rcases hw with rfl | rfl | rfl | rfl <;>
      first
        | exact absurd rfl h1
        | exact absurd rfl h2
        | (simp [Spec.cross, Scalar.lit]; try norm_num)
  · intro e he
    simp only [Spec.edgesOf, List.drop_succ_cons, List.drop_zero, List.take_succ_cons, List.take_zero,
      List.cons_append, List.nil_append, List.zip_cons_cons, List.zip_nil_right, List.mem_cons,
      List.not_mem_nil, or_false] at he
    rcases he with rfl | rfl | rfl | rfl <;> (simp [Spec.cross, Scalar.lit])
  · rw [square_newVerts]
    refine ⟨⟨by simp; norm_num, ?_⟩, ?_⟩
    · intro e he w hw h1 h2
      simp only [Spec.edgesOf, List.drop_succ_cons, List.drop_zero, List.take_succ_cons, List.take_zero,
        List.cons_append, List.nil_append, List.zip_cons_cons, List.zip_nil_right, List.mem_cons,
        List.not_mem_nil, or_false] at he hw
      rcases he with rfl | rfl | rfl | rfl <;> rcases hw with rfl | rfl | rfl | rfl <;>
        first
          | exact absurd rfl h1
          | exact absurd rfl h2
          | (simp [Spec.cross, Scalar.lit]; try norm_num)
    · intro e he
      simp only [Spec.edgesOf, List.drop_succ_cons, List.drop_zero, List.take_succ_cons, List.take_zero,
        List.cons_append, List.nil_append, List.zip_cons_cons, List.zip_nil_right, List.mem_cons,
        List.not_mem_nil, or_false] at he
      rcases he with rfl | rfl | rfl | rfl <;> (simp [Spec.cross, Scalar.lit, P2.zero]; try norm_num)
  · rw [square_newVerts]
    intro e he
    simp only [Spec.edgesOf, List.drop_succ_cons, List.drop_zero, List.take_succ_cons, List.take_zero,
      List.cons_append, List.nil_append, List.zip_cons_cons, List.zip_nil_right, List.mem_cons,
      List.not_mem_nil, or_false] at he
    rcases he with rfl | rfl | rfl | rfl <;> simp

/-- **rounding radius `0`.**  The root written by the arc loop is `v·u = |v| cos(a − φ)` for EVERY
direction `a` (the clipped discriminant vanishes identically — in exact arithmetic the textbook
discriminant is `−4 cross(v,u)² ≤ 0`, exactly `0` at the vertex direction, which is where the code
before /repo 5df35a1 returned `nan` when rounding made it `−1 ulp`); at the vertex direction itself
(the only direction in the arc range when `r = 0`) it is `|v|`, the distance to the core vertex,
and non-negative. -/
theorem spg_arc_r0 (v : P2 ℝ) (a : ℝ) :
    DTS.arcDist v 0 a = v.x * Real.cos a + v.y * Real.sin a ∧
    (P2.norm v * Real.cos a = v.x ∧ P2.norm v * Real.sin a = v.y →
      DTS.arcDist v 0 a = P2.norm v ∧ 0 ≤ DTS.arcDist v 0 a ∧
      (DTS.arcDist v 0 a * Real.cos a - v.x) ^ 2 + (DTS.arcDist v 0 a * Real.sin a - v.y) ^ 2 = 0) := by
  have h0 := DTS.arcDist_r0 v a
  refine ⟨h0, ?_⟩
  intro h
  have hsc := sin_mul_self_add_cos_mul_self a
  have hB : v.x * Real.cos a + v.y * Real.sin a = P2.norm v := by
    rw [← h.1, ← h.2]
    linear_combination (P2.norm v) * hsc
  rw [h0, hB]
  refine ⟨rfl, P2.norm_nonneg v, ?_⟩
  rw [h.1, h.2]; ring

example : DTS.arcDist (⟨3, 0⟩ : P2 ℝ) 0 0 = P2.norm (⟨3, 0⟩ : P2 ℝ) :=
  ((spg_arc_r0 ⟨3, 0⟩ 0).2 (by simp [P2.norm_real])).1

/-- the clip is what makes the value well defined where the ray misses the vertex circle: vertex
`(3,0)`, `r = 1`, direction `π/2` — textbook discriminant `−32 < 0`, coded root `v·u = 0` -/
example : DTS.arcDist (⟨3, 0⟩ : P2 ℝ) 1 (Real.pi / 2) = 0 := by
  rw [spg_arc_root_closed_form]
  simp only [Real.cos_pi_div_two, Real.sin_pi_div_two]
  norm_num


/-- **C14 spheropolygon, at the strength of the property (`_partial`: one hypothesis left).**
Core polygon `V` strictly convex counter-clockwise with at least three vertices, `c` strictly inside
(the core centroid: `cpoly_centroid_strictlyInside`), `r > 0`, EVERY real `θ`: the slot is assigned,
`d > 0`, and `c + d (cos θ, sin θ)` is at distance EXACTLY `r` from the core POLYGON
(`Spec.atDistExactly`: a boundary point of the core is at distance `r`, and no point of the closed
convex core is closer) — i.e. it lies on the boundary of core ⊕ disc(r).
* arc loop took the value: the point is `v + e`, `|e| = r`, with `e` in the normal cone of the core
  vertex `v` (`DTS.arc_point_in_cone`, no hypothesis beyond the convex corner);
* no arc range contains `θ`: the offset-polygon hit has its foot ON the core edge, because a hit
  beyond the end of the straight part would be seen inside the neighbouring corner's arc range
  (`DTS.straight_foot`) — the arc ranges and straight parts tile the directions.
The only hypothesis that is not derived from the core's convexity is `HP` (the offset polygon
`new_verts` is strictly convex counter-clockwise around the centre), needed for the kernel call; it
is what `ConvexPolygon(new_verts)` verifies in the code and is decided exactly per case by `c14.hyp`
(sound: `DTS.strictConvexCCWb_sound`). -/
theorem spg_dts_correct_partial (V : List (P2 ℝ)) (c : P2 ℝ) (r θ : ℝ) (hr : 0 < r)
    (h3 : 3 ≤ V.length) (hconv : Spec.strictConvexCCW V) (hin : Spec.strictlyInsideCCW V c)
    (HP : Spec.strictConvexCCW (DTS.spgNewVerts false V c r) ∧
      Spec.strictlyInsideCCW (DTS.spgNewVerts false V c r) P2.zero)
    (hcos : ∀ e ∈ Spec.edgesOf (DTS.spgNewVerts false V c r), e.1.x ≠ e.2.x → e.1.y ≠ e.2.y → Real.cos θ ≠ 0) :
    ∃ d, DTS.spgDts M2.id false false V c r θ = some d ∧ 0 < d ∧
      Spec.atDistExactly V r (c + Spec.rayPoint d θ) := by
  have hray : ∀ d : ℝ, c + Spec.rayPoint d θ = ⟨c.x + d * Real.cos θ, c.y + d * Real.sin θ⟩ := by
    intro d; rfl
  rcases DTS.spg_cases_exact M2.id false V c r θ hr h3 hconv hin with ⟨hk, hno⟩ | ⟨d, hd, hpos, hex⟩
  · obtain ⟨d, hd, hpos, hb⟩ := spg_dts_arc_or_offset_partial V c r θ hr h3 hconv hin HP hcos
    refine ⟨d, hd, hpos, ?_⟩
    obtain ⟨ha0, ha2⟩ := DTS.fmod_range θ
    have hca : Real.cos (DTS.fmod θ DTS.twoPi) = Real.cos θ := DTS.cos_fmod θ
    have hsa : Real.sin (DTS.fmod θ DTS.twoPi) = Real.sin θ := DTS.sin_fmod θ
    -- the value is the kernel's: the point is on the offset polygon
    have hne : DTS.spgNewVerts false V c r ≠ [] := by
      intro h
      have hl : (DTS.spgNewVerts false V c r).length = V.length := by
        simp [DTS.spgNewVerts, DTS.spgVerts, DTS.length_corners]
      rw [h] at hl; simp at hl; omega
    obtain ⟨d', hd', hpos', hb'⟩ := cpoly_dts_correct (DTS.spgNewVerts false V c r) P2.zero
      (DTS.fmod θ DTS.twoPi) hne HP.1 HP.2 (by rw [hca]; exact hcos)
    have hdd : d = d' := by
      rw [hk, hd'] at hd; exact (Option.some.inj hd).symm
    subst hdd
    have hX : Spec.onPolyBoundary (DTS.spgNewVerts false V c r)
        ⟨d * Real.cos (DTS.fmod θ DTS.twoPi), d * Real.sin (DTS.fmod θ DTS.twoPi)⟩ := by
      have : (P2.zero : P2 ℝ) + Spec.rayPoint d (DTS.fmod θ DTS.twoPi) =
          ⟨d * Real.cos (DTS.fmod θ DTS.twoPi), d * Real.sin (DTS.fmod θ DTS.twoPi)⟩ := by
        show (⟨Scalar.lit 0 + d * Real.cos _, Scalar.lit 0 + d * Real.sin _⟩ : P2 ℝ) = _
        simp [Scalar.lit]
      rw [this] at hb'; exact hb'
    have := DTS.straight_exact V c r hr h3 hconv hin _ d ha0 ha2 hpos hno hX
    rw [hca, hsa] at this
    rw [hray]; exact this
  · exact ⟨d, hd, hpos, by rw [hray]; exact hex⟩

/-- the square `[−1,1]²` rounded by `r = 1/2`: every hypothesis holds, for EVERY `θ` -/
example (θ : ℝ) : ∃ d, DTS.spgDts M2.id false false [⟨1, -1⟩, ⟨1, 1⟩, ⟨-1, 1⟩, ⟨-1, -1⟩] (⟨0, 0⟩ : P2 ℝ) (1 / 2) θ = some d ∧
    0 < d ∧ Spec.atDistExactly [⟨1, -1⟩, ⟨1, 1⟩, ⟨-1, 1⟩, (⟨-1, -1⟩ : P2 ℝ)] (1 / 2)
      ((⟨0, 0⟩ : P2 ℝ) + Spec.rayPoint d θ) := by
  apply spg_dts_correct_partial
  · norm_num
  · simp
  · refine ⟨by simp; norm_num, ?_⟩
    intro e he w hw h1 h2
    simp only [Spec.edgesOf, List.drop_succ_cons, List.drop_zero, List.take_succ_cons, List.take_zero,
      List.cons_append, List.nil_append, List.zip_cons_cons, List.zip_nil_right, List.mem_cons,
      List.not_mem_nil, or_false] at he hw
    rcases he with rfl | rfl | rfl | rfl <;> rcases hw with rfl | rfl | rfl | rfl <;>
      first
        | exact absurd rfl h1
        | exact absurd rfl h2
        | (simp [Spec.cross, Scalar.lit]; try norm_num)
  · intro e he
    simp only [Spec.edgesOf, List.drop_succ_cons, List.drop_zero, List.take_succ_cons, List.take_zero,
      List.cons_append, List.nil_append, List.zip_cons_cons, List.zip_nil_right, List.mem_cons,
      List.not_mem_nil, or_false] at he
    rcases he with rfl | rfl | rfl | rfl <;> (simp [Spec.cross, Scalar.lit])
  · rw [square_newVerts]
    refine ⟨⟨by simp; norm_num, ?_⟩, ?_⟩
    · intro e he w hw h1 h2
      simp only [Spec.edgesOf, List.drop_succ_cons, List.drop_zero, List.take_succ_cons, List.take_zero,
        List.cons_append, List.nil_append, List.zip_cons_cons, List.zip_nil_right, List.mem_cons,
        List.not_mem_nil, or_false] at he hw
      rcases he with rfl | rfl | rfl | rfl <;> rcases hw with rfl | rfl | rfl | rfl <;>
        first
          | exact absurd rfl h1
          | exact absurd rfl h2
          | (simp [Spec.cross, Scalar.lit]; try norm_num)
    · intro e he
      simp only [Spec.edgesOf, List.drop_succ_cons, List.drop_zero, List.take_succ_cons, List.take_zero,
        List.cons_append, List.nil_append, List.zip_cons_cons, List.zip_nil_right, List.mem_cons,
        List.not_mem_nil, or_false] at he
      rcases he with rfl | rfl | rfl | rfl <;> (simp [Spec.cross, Scalar.lit, P2.zero]; try norm_num)
  · rw [square_newVerts]
    intro e he
    simp only [Spec.edgesOf, List.drop_succ_cons, List.drop_zero, List.take_succ_cons, List.take_zero,
      List.cons_append, List.nil_append, List.zip_cons_cons, List.zip_nil_right, List.mem_cons,
      List.not_mem_nil, or_false] at he
    rcases he with rfl | rfl | rfl | rfl <;> simp

/-! ## Spheropolygon: the offset polygon is convex; the whole function with no hypothesis left -/

/-- **the offset polygon is convex (the hypothesis `HP` of `spg_dts_correct_partial`, derived).**
For every strictly convex counter-clockwise core with at least two vertices, every centre strictly
inside and every `r > 0`, the polygon `new_verts` handed to `ConvexPolygon(...)` is strictly convex
counter-clockwise with the centre strictly inside: an expanded vertex of another corner is strictly
inside the offset line of an edge because the edge normals are in cyclic order
(`DTS.normal_cone_excl`, `DTS.offset_vertex_strict`), consecutive expanded vertices follow the edge
direction (`DTS.offset_edge_data`), and distinct corners have distinct expanded vertices. -/
theorem spg_offset_polygon_convex (V : List (P2 ℝ)) (c : P2 ℝ) (r : ℝ) (hr : 0 < r) (h2 : 2 ≤ V.length)
    (hconv : Spec.strictConvexCCW V) (hin : Spec.strictlyInsideCCW V c) :
    Spec.strictConvexCCW (DTS.spgNewVerts false V c r) ∧
    Spec.strictlyInsideCCW (DTS.spgNewVerts false V c r) P2.zero :=
  DTS.spg_offset_polygon_convex V c r hr h2 hconv hin

/-- **C14 spheropolygon, in full.**  For EVERY strictly convex counter-clockwise core `V` with at
least three vertices, EVERY `c` strictly inside it (the core centroid:
`cpoly_centroid_strictlyInside`), EVERY `r > 0` and EVERY real `θ` — with `cos θ ≠ 0` if the core has
an edge that is neither horizontal nor vertical — the function (mod 2π, corners, offset kernel, arc
loop) assigns the slot, `d > 0`, and `c + d (cos θ, sin θ)` is at distance EXACTLY `r` from the core
polygon, i.e. on the boundary of core ⊕ disc(r).  No per-run hypothesis. -/
theorem spg_dts_correct (V : List (P2 ℝ)) (c : P2 ℝ) (r θ : ℝ) (hr : 0 < r)
    (h3 : 3 ≤ V.length) (hconv : Spec.strictConvexCCW V) (hin : Spec.strictlyInsideCCW V c)
    (hcos : ∀ e ∈ Spec.edgesOf V, e.1.x ≠ e.2.x → e.1.y ≠ e.2.y → Real.cos θ ≠ 0) :
    ∃ d, DTS.spgDts M2.id false false V c r θ = some d ∧ 0 < d ∧
      Spec.atDistExactly V r (c + Spec.rayPoint d θ) := by
  apply spg_dts_correct_partial V c r θ hr h3 hconv hin
    (spg_offset_polygon_convex V c r hr (by omega) hconv hin)
  intro e he h1 h2
  obtain ⟨e0, he0, g1, g2⟩ := DTS.offset_edge_parallel V c r hr (by omega) hconv hin e he
  exact hcos e0 he0 (g1 h1) (g2 h2)

/-- the same for clockwise storage (`polygon.normal[2] < 0`: the code reverses the centred list) -/
theorem spg_dts_correct_cw (V : List (P2 ℝ)) (c : P2 ℝ) (r θ : ℝ) (hr : 0 < r)
    (h3 : 3 ≤ V.length) (hconv : Spec.strictConvexCCW V.reverse) (hin : Spec.strictlyInsideCCW V.reverse c)
    (hcos : ∀ e ∈ Spec.edgesOf V, e.1.x ≠ e.2.x → e.1.y ≠ e.2.y → Real.cos θ ≠ 0) :
    ∃ d, DTS.spgDts M2.id false true V c r θ = some d ∧ 0 < d ∧
      Spec.atDistExactly V.reverse r (c + Spec.rayPoint d θ) := by
  rw [DTS.spgDts_flip]
  apply spg_dts_correct V.reverse c r θ hr (by simpa using h3) hconv hin
  rintro ⟨a, b⟩ he h1 h2
  exact hcos (b, a) ((DTS.mem_edgesOf_reverse V a b).mp he) (fun h => h1 h.symm) (fun h => h2 h.symm)

/-- the square `[−1,1]²` rounded by `r = 1/2`, EVERY `θ`: only convexity of the core is checked -/
example (θ : ℝ) : ∃ d, DTS.spgDts M2.id false false [⟨1, -1⟩, ⟨1, 1⟩, ⟨-1, 1⟩, ⟨-1, -1⟩] (⟨0, 0⟩ : P2 ℝ) (1 / 2) θ = some d ∧
    0 < d ∧ Spec.atDistExactly [⟨1, -1⟩, ⟨1, 1⟩, ⟨-1, 1⟩, (⟨-1, -1⟩ : P2 ℝ)] (1 / 2)
      ((⟨0, 0⟩ : P2 ℝ) + Spec.rayPoint d θ) := by
  apply spg_dts_correct
  · norm_num
  · simp
  · refine ⟨by simp; norm_num, ?_⟩
    intro e he w hw h1 h2
    simp only [Spec.edgesOf, List.drop_succ_cons, List.drop_zero, List.take_succ_cons, List.take_zero,
      List.cons_append, List.nil_append, List.zip_cons_cons, List.zip_nil_right, List.mem_cons,
      List.not_mem_nil, or_false] at he hw
    rcases he with rfl | rfl | rfl | rfl <;> rcases hw with rfl | rfl | rfl | rfl <;>
      first
        | exact absurd rfl h1
        | exact absurd rfl h2
        | (simp [Spec.cross, Scalar.lit]; try norm_num)
  · intro e he
    simp only [Spec.edgesOf, List.drop_succ_cons, List.drop_zero, List.take_succ_cons, List.take_zero,
      List.cons_append, List.nil_append, List.zip_cons_cons, List.zip_nil_right, List.mem_cons,
      List.not_mem_nil, or_false] at he
    rcases he with rfl | rfl | rfl | rfl <;> (simp [Spec.cross, Scalar.lit])
  · intro e he
    simp only [Spec.edgesOf, List.drop_succ_cons, List.drop_zero, List.take_succ_cons, List.take_zero,
      List.cons_append, List.nil_append, List.zip_cons_cons, List.zip_nil_right, List.mem_cons,
      List.not_mem_nil, or_false] at he
    rcases he with rfl | rfl | rfl | rfl <;> simp


end
