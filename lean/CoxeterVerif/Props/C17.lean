import CoxeterVerif.Lemmas.FamiliesUniform
import CoxeterVerif.Lemmas.FamiliesZ5
import CoxeterVerif.Lemmas.FamiliesTables
import CoxeterVerif.Lemmas.FamiliesCorners423a
import CoxeterVerif.Lemmas.FamiliesCorners423b
import CoxeterVerif.Lemmas.FamiliesCorners423c
import CoxeterVerif.Lemmas.FamiliesCorners423d
import CoxeterVerif.Lemmas.FamiliesCorners523a
import CoxeterVerif.Lemmas.FamiliesCorners523b
import CoxeterVerif.Lemmas.FamiliesCorners523c
import CoxeterVerif.Lemmas.FamiliesCorners523d
import CoxeterVerif.Lemmas.FamiliesCert
import CoxeterVerif.Lemmas.FamiliesGap
import CoxeterVerif.Lemmas.FamiliesGapCheck
import CoxeterVerif.Lemmas.FamiliesGapExample
import CoxeterVerif.Lemmas.FamiliesSolidOther
/-!
  # C17 — parametric shape families generate exactly the documented shapes

  * `Fam.makeVertices` is the model of `TruncationPlaneShapeFamily.make_vertices`; the theorems about
    it hold for EVERY plane table, type list and parameter triple (no bound on the number of planes).
  * `Gen.fam323 / fam423 / fam523 / tt / doi` are regenerated from /repo on every run; the theorems
    about them are re-proved by the kernel against the repository's present content.
  * `Fam.ngon`, `prism`, `antiprism`, `pyramid`, `dipyramid` model `coxeter/families/common.py`;
    their theorems hold for every admissible `n`.
-/
open Scalar Fam
set_option maxRecDepth 4000
noncomputable section

/-! ## make_vertices -/

/-- **Soundness.** Every point returned by `make_vertices` satisfies every half-space within
`thresh = 1e-6`, and is the meeting point of three of the planes (taken at increasing positions of
the table) whose determinant exceeds `thresh` in absolute value: it lies on all three. -/
theorem make_vertices_sound (planes : List (V3 ℝ)) (types : List Nat) (a b c : ℝ) (p : V3 ℝ)
    (hp : p ∈ makeVertices planes types a b c) :
    (∀ r ∈ rows planes types a b c, V3.dot p r.1 ≤ r.2 + 1 / 1000000) ∧
    ∃ t : Row ℝ × Row ℝ × Row ℝ,
      [t.1, t.2.1, t.2.2].Sublist (rows planes types a b c) ∧ 1 / 1000000 < |tripleDet t| ∧
      V3.dot t.1.1 p = t.1.2 ∧ V3.dot t.2.1.1 p = t.2.1.2 ∧ V3.dot t.2.2.1 p = t.2.2.2 := by
  unfold makeVertices at hp
  have h1 := mem_uniqueRounded _ _ hp
  rw [List.mem_filter, inside_iff, mem_candidates] at h1
  obtain ⟨⟨t, ht, hd, rfl⟩, hin⟩ := h1
  rw [thresh_real] at hd hin
  refine ⟨hin, t, mem_triplesOf _ _ ht, hd, ?_⟩
  have hne : tripleDet t ≠ 0 := by
    intro h0; rw [h0, abs_zero] at hd; norm_num at hd
  exact solve3_spec t hne

/-- **Completeness up to the rounding grid.** Every point `x` that lies on three planes of the
table (at increasing positions) with `|det| > thresh` and satisfies every half-space within
`thresh` is represented in the output: some returned `p` has the same 6-decimal rounding, hence
agrees with `x` to `1e-6` in every coordinate. -/
theorem make_vertices_complete (planes : List (V3 ℝ)) (types : List Nat) (a b c : ℝ)
    (t : Row ℝ × Row ℝ × Row ℝ) (x : V3 ℝ)
    (ht : [t.1, t.2.1, t.2.2].Sublist (rows planes types a b c))
    (hd : 1 / 1000000 < |tripleDet t|)
    (h0 : V3.dot t.1.1 x = t.1.2) (h1 : V3.dot t.2.1.1 x = t.2.1.2) (h2 : V3.dot t.2.2.1 x = t.2.2.2)
    (hin : ∀ r ∈ rows planes types a b c, V3.dot x r.1 ≤ r.2 + 1 / 1000000) :
    ∃ p ∈ makeVertices planes types a b c, key p = key x ∧
      |p.x - x.x| ≤ 1 / 1000000 ∧ |p.y - x.y| ≤ 1 / 1000000 ∧ |p.z - x.z| ≤ 1 / 1000000 := by
  have hne : tripleDet t ≠ 0 := by
    intro h; rw [h, abs_zero] at hd; norm_num at hd
  have hx : x = solve3 t := solve3_unique t hne x h0 h1 h2
  have hmem : x ∈ (candidates (rows planes types a b c)).filter (inside (rows planes types a b c)) := by
    rw [List.mem_filter, inside_iff, mem_candidates, thresh_real]
    exact ⟨⟨t, triplesOf_complete _ _ _ _ ht, hd, hx.symm⟩, hin⟩
  obtain ⟨p, hp, hk⟩ := uniqueRounded_complete _ x hmem
  exact ⟨p, hp, hk, key_eq_close p x hk⟩

/-- hypotheses of `make_vertices_complete` are satisfiable: the corner (1,1,1) of the unit box -/
example : let R := rows [(⟨1, 0, 0⟩ : V3 ℝ), ⟨0, 1, 0⟩, ⟨0, 0, 1⟩] [0, 1, 2] 1 1 1
    ∃ t : Row ℝ × Row ℝ × Row ℝ, [t.1, t.2.1, t.2.2].Sublist R ∧ 1 / 1000000 < |tripleDet t| ∧
      V3.dot t.1.1 (⟨1, 1, 1⟩ : V3 ℝ) = t.1.2 := by
  refine ⟨((⟨1, 0, 0⟩, 1), (⟨0, 1, 0⟩, 1), (⟨0, 0, 1⟩, 1)), ?_, ?_, ?_⟩
  · simp [rows, distOf]
  · simp [tripleDet, V3.det3, V3.dot, V3.cross]; norm_num
  · simp [V3.dot]

/-- the three planes x ≤ 1, y ≤ 1, z ≤ 1 with their single triple -/
def exBoxRows : List (Row ℝ) := rows [(⟨1, 0, 0⟩ : V3 ℝ), ⟨0, 1, 0⟩, ⟨0, 0, 1⟩] [0, 1, 2] 1 1 1

theorem exBox_triple (t : Row ℝ × Row ℝ × Row ℝ) (h : [t.1, t.2.1, t.2.2].Sublist exBoxRows) :
    t = ((⟨1, 0, 0⟩, 1), (⟨0, 1, 0⟩, 1), (⟨0, 0, 1⟩, 1)) := by
  have hlen : exBoxRows = [(⟨1, 0, 0⟩, 1), (⟨0, 1, 0⟩, 1), (⟨0, 0, 1⟩, 1)] := by
    simp [exBoxRows, rows, distOf]
  rw [hlen] at h
  have := h.eq_of_length (by simp)
  rcases t with ⟨a, b, c⟩
  simp only [List.cons.injEq, and_true] at this
  rw [this.1, this.2.1, this.2.2]

/-- `make_vertices` on this table really returns a point near (1,1,1): the hypothesis
`p ∈ makeVertices …` of `make_vertices_sound` is inhabited -/
example : ∃ p ∈ makeVertices [(⟨1, 0, 0⟩ : V3 ℝ), ⟨0, 1, 0⟩, ⟨0, 0, 1⟩] [0, 1, 2] 1 1 1,
    |p.x - 1| ≤ 1 / 1000000 := by
  obtain ⟨p, hp, _, hx, _⟩ := make_vertices_complete [(⟨1, 0, 0⟩ : V3 ℝ), ⟨0, 1, 0⟩, ⟨0, 0, 1⟩] [0, 1, 2] 1 1 1
    ((⟨1, 0, 0⟩, 1), (⟨0, 1, 0⟩, 1), (⟨0, 0, 1⟩, 1)) ⟨1, 1, 1⟩
    (by simp [rows, distOf])
    (by simp [tripleDet, V3.det3, V3.dot, V3.cross]; norm_num)
    (by simp [V3.dot]) (by simp [V3.dot]) (by simp [V3.dot])
    (by intro r hr
        simp only [rows, distOf, List.zipWith_cons_cons, List.zipWith_nil_right, List.mem_cons,
          List.not_mem_nil, or_false] at hr
        rcases hr with rfl | rfl | rfl <;> simp [V3.dot])
  exact ⟨p, hp, hx⟩

/-- **No duplicates on the rounding grid.** No two returned points have the same 6-decimal
rounding (`np.unique` on the rounded rows): together with soundness and completeness, every
`1e-6` grid cell that contains an admissible meeting point is represented exactly once. -/
theorem make_vertices_keys_nodup (planes : List (V3 ℝ)) (types : List Nat) (a b c : ℝ) :
    (makeVertices planes types a b c).Pairwise (fun p q => key p ≠ key q) :=
  uniqueRounded_keys_nodup _

/-- the rounding of `np.round(·, 6)` (`rint(x·10⁶)/10⁶`, half to even) moves a number by at most 5e-7 -/
theorem round6_error (x : ℝ) : |round6 x - x| ≤ 1 / 2000000 := round6_close x

/-- **Exactness when the thresholds are not straddled.** If, for the given table and parameters,
(G1) every plane triple has determinant 0 or of absolute value > 1e-6, and (G2) the meeting point
of every independent triple either satisfies all half-spaces exactly or violates one by more than
1e-6, then `make_vertices` returns only vertices of the exact polytope `{x | ∀ j, P_j·x ≤ d_j}`
and every vertex of that polytope is returned up to the 6-decimal rounding grid. -/
theorem make_vertices_exact_of_gap (planes : List (V3 ℝ)) (types : List Nat) (a b c : ℝ)
    (G1 : ∀ t : Row ℝ × Row ℝ × Row ℝ, [t.1, t.2.1, t.2.2].Sublist (rows planes types a b c) →
      tripleDet t = 0 ∨ 1 / 1000000 < |tripleDet t|)
    (G2 : ∀ t : Row ℝ × Row ℝ × Row ℝ, [t.1, t.2.1, t.2.2].Sublist (rows planes types a b c) →
      tripleDet t ≠ 0 →
      (∀ r ∈ rows planes types a b c, V3.dot r.1 (solve3 t) ≤ r.2) ∨
      (∃ r ∈ rows planes types a b c, r.2 + 1 / 1000000 < V3.dot r.1 (solve3 t))) :
    (∀ p ∈ makeVertices planes types a b c, IsVertexR (rows planes types a b c) p) ∧
    (∀ x, IsVertexR (rows planes types a b c) x →
      ∃ p ∈ makeVertices planes types a b c, key p = key x ∧
        |p.x - x.x| ≤ 1 / 1000000 ∧ |p.y - x.y| ≤ 1 / 1000000 ∧ |p.z - x.z| ≤ 1 / 1000000) := by
  constructor
  · intro p hp
    obtain ⟨hin, t, hsub, hdet, h0, h1, h2⟩ := make_vertices_sound planes types a b c p hp
    have hne : tripleDet t ≠ 0 := by
      intro h; rw [h, abs_zero] at hdet; norm_num at hdet
    have hps : p = solve3 t := solve3_unique t hne p h0 h1 h2
    refine ⟨?_, t, hsub, hne, h0, h1, h2⟩
    rcases G2 t hsub hne with hex | ⟨r, hr, hviol⟩
    · rw [hps]; exact hex
    · exfalso
      have := hin r hr
      rw [hps, dot_comm] at this
      linarith
  · rintro x ⟨hfeas, t, hsub, hne, h0, h1, h2⟩
    have hdet : 1 / 1000000 < |tripleDet t| := by
      rcases G1 t hsub with h | h
      · exact absurd h hne
      · exact h
    refine make_vertices_complete planes types a b c t x hsub hdet h0 h1 h2 ?_
    intro r hr
    have := hfeas r hr
    rw [dot_comm]; linarith

/-- the gap hypotheses G1, G2 hold for the box table: its only triple has determinant 1 and its
meeting point (1,1,1) satisfies all three half-spaces exactly -/
example : IsVertexR exBoxRows ⟨1, 1, 1⟩ →
    ∃ p ∈ makeVertices [(⟨1, 0, 0⟩ : V3 ℝ), ⟨0, 1, 0⟩, ⟨0, 0, 1⟩] [0, 1, 2] 1 1 1, key p = key ⟨1, 1, 1⟩ := by
  intro hv
  have h := (make_vertices_exact_of_gap [(⟨1, 0, 0⟩ : V3 ℝ), ⟨0, 1, 0⟩, ⟨0, 0, 1⟩] [0, 1, 2] 1 1 1
    (by intro t ht
        rw [exBox_triple t ht]; right
        simp [tripleDet, V3.det3, V3.dot, V3.cross]; norm_num)
    (by intro t ht _
        rw [exBox_triple t ht]; left
        intro r hr
        simp only [rows, distOf, List.zipWith_cons_cons, List.zipWith_nil_right, List.mem_cons,
          List.not_mem_nil, or_false] at hr
        rcases hr with rfl | rfl | rfl <;>
          simp [solve3, tripleDet, V3.det3, V3.dot, V3.cross, V3.smul, V3.sdiv])).2 ⟨1, 1, 1⟩ hv
  obtain ⟨p, hp, hk, _⟩ := h
  exact ⟨p, hp, hk⟩

/-! ## get_shape: domains -/

/-- the golden ratio `S` and its inverse `s` as in `Family523` -/
def goldS : ℝ := (Real.sqrt 5 + 1) / 2
def golds : ℝ := (Real.sqrt 5 - 1) / 2

theorem sqrt5_sq : Real.sqrt 5 * Real.sqrt 5 = 5 := Real.mul_self_sqrt (by norm_num)

/-- the documented bounds of Family523 in closed form: `s√5 = (5−√5)/2`, `S² = (3+√5)/2` -/
theorem gold_bounds : golds * Real.sqrt 5 = (5 - Real.sqrt 5) / 2 ∧ goldS * goldS = (3 + Real.sqrt 5) / 2 := by
  unfold golds goldS
  constructor <;> nlinarith [sqrt5_sq]

/-- **Family323Plus.get_shape** raises ValueError iff `(a, c) ∉ [1,3]×[1,3]`; inside it builds
`ConvexPolyhedron(make_vertices(a, 1, c))`. (Bounds and `b` are the values extracted from the code.) -/
theorem domain_iff_323 (a c : ℝ) :
    (Gen.fam323.getShape a c = .error "ValueError" ↔ ¬ ((1 ≤ a ∧ a ≤ 3) ∧ (1 ≤ c ∧ c ≤ 3))) ∧
    (((1 ≤ a ∧ a ≤ 3) ∧ (1 ≤ c ∧ c ≤ 3)) →
      Gen.fam323.getShape a c = .ok (makeVertices Gen.fam323.planesS Gen.fam323.types a 1 c)) := by
  have h := Table.getShape_spec Gen.fam323 a c
  have e1 : (Gen.fam323.aLo.toScalar Gen.fam323.den : ℝ) = 1 := by
    rw [toScalar_real]; simp [Gen.fam323]
  have e2 : (Gen.fam323.aHi.toScalar Gen.fam323.den : ℝ) = 3 := by
    rw [toScalar_real]; simp [Gen.fam323]
  have e3 : (Gen.fam323.cLo.toScalar Gen.fam323.den : ℝ) = 1 := by
    rw [toScalar_real]; simp [Gen.fam323]
  have e4 : (Gen.fam323.cHi.toScalar Gen.fam323.den : ℝ) = 3 := by
    rw [toScalar_real]; simp [Gen.fam323]
  have e5 : (Gen.fam323.b.toScalar Gen.fam323.den : ℝ) = 1 := by
    rw [toScalar_real]; simp [Gen.fam323]
  rw [e1, e2, e3, e4, e5] at h
  exact h

example : Gen.fam323.getShape (2 : ℝ) 2 = .ok (makeVertices Gen.fam323.planesS Gen.fam323.types 2 1 2) :=
  (domain_iff_323 2 2).2 (by norm_num)
example : Gen.fam323.getShape (0 : ℝ) 2 = .error "ValueError" :=
  (domain_iff_323 0 2).1.mpr (by norm_num)

/-- **Family423.get_shape**: ValueError iff `(a, c) ∉ [1,2]×[2,3]`; `b = 2`. -/
theorem domain_iff_423 (a c : ℝ) :
    (Gen.fam423.getShape a c = .error "ValueError" ↔ ¬ ((1 ≤ a ∧ a ≤ 2) ∧ (2 ≤ c ∧ c ≤ 3))) ∧
    (((1 ≤ a ∧ a ≤ 2) ∧ (2 ≤ c ∧ c ≤ 3)) →
      Gen.fam423.getShape a c = .ok (makeVertices Gen.fam423.planesS Gen.fam423.types a 2 c)) := by
  have h := Table.getShape_spec Gen.fam423 a c
  have e1 : (Gen.fam423.aLo.toScalar Gen.fam423.den : ℝ) = 1 := by
    rw [toScalar_real]; simp [Gen.fam423]
  have e2 : (Gen.fam423.aHi.toScalar Gen.fam423.den : ℝ) = 2 := by
    rw [toScalar_real]; simp [Gen.fam423]
  have e3 : (Gen.fam423.cLo.toScalar Gen.fam423.den : ℝ) = 2 := by
    rw [toScalar_real]; simp [Gen.fam423]
  have e4 : (Gen.fam423.cHi.toScalar Gen.fam423.den : ℝ) = 3 := by
    rw [toScalar_real]; simp [Gen.fam423]
  have e5 : (Gen.fam423.b.toScalar Gen.fam423.den : ℝ) = 2 := by
    rw [toScalar_real]; simp [Gen.fam423]
  rw [e1, e2, e3, e4, e5] at h
  exact h

example : Gen.fam423.getShape (1 : ℝ) 3 = .ok (makeVertices Gen.fam423.planesS Gen.fam423.types 1 2 3) :=
  (domain_iff_423 1 3).2 (by norm_num)

/-- **Family523.get_shape**: ValueError iff `(a, c) ∉ [1, s√5]×[S², 3]`; `b = 2`. -/
theorem domain_iff_523 (a c : ℝ) :
    (Gen.fam523.getShape a c = .error "ValueError" ↔
      ¬ ((1 ≤ a ∧ a ≤ golds * Real.sqrt 5) ∧ (goldS * goldS ≤ c ∧ c ≤ 3))) ∧
    (((1 ≤ a ∧ a ≤ golds * Real.sqrt 5) ∧ (goldS * goldS ≤ c ∧ c ≤ 3)) →
      Gen.fam523.getShape a c = .ok (makeVertices Gen.fam523.planesS Gen.fam523.types a 2 c)) := by
  have h := Table.getShape_spec Gen.fam523 a c
  have e1 : (Gen.fam523.aLo.toScalar Gen.fam523.den : ℝ) = 1 := by
    rw [toScalar_real]; simp [Gen.fam523]
  have e2 : (Gen.fam523.aHi.toScalar Gen.fam523.den : ℝ) = golds * Real.sqrt 5 := by
    rw [toScalar_real, gold_bounds.1]; simp [Gen.fam523]; ring
  have e3 : (Gen.fam523.cLo.toScalar Gen.fam523.den : ℝ) = goldS * goldS := by
    rw [toScalar_real, gold_bounds.2]; simp [Gen.fam523]
  have e4 : (Gen.fam523.cHi.toScalar Gen.fam523.den : ℝ) = 3 := by
    rw [toScalar_real]; simp [Gen.fam523]; norm_num
  have e5 : (Gen.fam523.b.toScalar Gen.fam523.den : ℝ) = 2 := by
    rw [toScalar_real]; simp [Gen.fam523]; norm_num
  rw [e1, e2, e3, e4, e5] at h
  exact h

example : Gen.fam523.getShape (1 : ℝ) 3 = .ok (makeVertices Gen.fam523.planesS Gen.fam523.types 1 2 3) := by
  apply (domain_iff_523 1 3).2
  rw [gold_bounds.1, gold_bounds.2]
  have h5 : Real.sqrt 5 ≤ 3 := by
    rw [show (3:ℝ) = Real.sqrt 9 by rw [show (9:ℝ) = 3 ^ 2 by norm_num]; exact (Real.sqrt_sq (by norm_num)).symm]
    exact Real.sqrt_le_sqrt (by norm_num)
  refine ⟨⟨le_refl _, ?_⟩, ?_, le_refl _⟩ <;> linarith

/-- **TruncatedTetrahedronFamily.get_shape**: ValueError iff `truncation ∉ [0,1]`; inside it builds
`ConvexPolyhedron(make_vertices(1, 1, 3 − 2·truncation))` on the 323+ planes. -/
theorem domain_iff_tt (t : ℝ) :
    (Gen.tt.getShape Gen.fam323 t = .error "ValueError" ↔ ¬ (0 ≤ t ∧ t ≤ 1)) ∧
    ((0 ≤ t ∧ t ≤ 1) →
      Gen.tt.getShape Gen.fam323 t =
        .ok (makeVertices Gen.fam323.planesS Gen.fam323.types 1 1 (3 - 2 * t))) := by
  have e1 : (Gen.tt.tLo.toScalar Gen.tt.den : ℝ) = 0 := by rw [toScalar_real]; simp [Gen.tt]
  have e2 : (Gen.tt.tHi.toScalar Gen.tt.den : ℝ) = 1 := by rw [toScalar_real]; simp [Gen.tt]
  have e3 : (Gen.tt.a.toScalar Gen.tt.den : ℝ) = 1 := by rw [toScalar_real]; simp [Gen.tt]
  have e4 : (Gen.tt.cOf t : ℝ) = 3 - 2 * t := by
    unfold TTTable.cOf; rw [toScalar_real, toScalar_real]; simp [Gen.tt]
  have hin : (0 ≤ t ∧ t ≤ 1) →
      Gen.tt.domain Gen.fam323 t = .ok ((1:ℝ), (1:ℝ), 3 - 2 * t) := by
    intro ht
    unfold TTTable.domain
    have ho : ¬ outside (Gen.tt.tLo.toScalar Gen.tt.den : ℝ) (Gen.tt.tHi.toScalar Gen.tt.den) t = true := by
      rw [outside_iff, e1, e2]; exact fun hn => hn ht
    rw [if_neg ho, e3, e4]
    have h323 := Table.domain_ok Gen.fam323 (1:ℝ) (3 - 2 * t)
    have b1 : (Gen.fam323.aLo.toScalar Gen.fam323.den : ℝ) = 1 := by rw [toScalar_real]; simp [Gen.fam323]
    have b2 : (Gen.fam323.aHi.toScalar Gen.fam323.den : ℝ) = 3 := by rw [toScalar_real]; simp [Gen.fam323]
    have b3 : (Gen.fam323.cLo.toScalar Gen.fam323.den : ℝ) = 1 := by rw [toScalar_real]; simp [Gen.fam323]
    have b4 : (Gen.fam323.cHi.toScalar Gen.fam323.den : ℝ) = 3 := by rw [toScalar_real]; simp [Gen.fam323]
    have b5 : (Gen.fam323.b.toScalar Gen.fam323.den : ℝ) = 1 := by rw [toScalar_real]; simp [Gen.fam323]
    rw [b1, b2, b3, b4, b5] at h323
    exact h323 ⟨⟨le_refl _, by norm_num⟩, by linarith [ht.2], by linarith [ht.1]⟩
  constructor
  · constructor
    · intro h ht
      have := hin ht
      unfold TTTable.getShape at h
      rw [this] at h
      cases h
    · intro h
      unfold TTTable.getShape TTTable.domain
      have ho : outside (Gen.tt.tLo.toScalar Gen.tt.den : ℝ) (Gen.tt.tHi.toScalar Gen.tt.den) t = true := by
        rw [outside_iff, e1, e2]; exact h
      rw [if_pos ho]
  · intro ht
    unfold TTTable.getShape
    rw [hin ht]

example : Gen.tt.getShape Gen.fam323 (1 / 2 : ℝ) =
    .ok (makeVertices Gen.fam323.planesS Gen.fam323.types 1 1 (3 - 2 * (1 / 2))) :=
  (domain_iff_tt (1 / 2)).2 (by norm_num)
example : Gen.tt.getShape Gen.fam323 (-1 : ℝ) = .error "ValueError" :=
  (domain_iff_tt (-1)).1.mpr (by norm_num)

/-! ## get_shape: argument handling -/

/-- **Numbers are numbers.** Python ints (bools, numpy integers) and floats (numpy floating scalars)
reach the same code path: on numeric arguments `get_shape(a, c)` is the `getShape` of their values
(to which `domain_iff_323/423/523` apply). -/
theorem getShapeArg_numeric (T : Table) (a c : Arg ℝ) (av cv : ℝ)
    (ha : a.val? = some av) (hc : c.val? = some cv) : T.getShapeArg a c = T.getShape av cv := by
  unfold Table.getShapeArg Table.getShape Table.domain
  rw [ha, hc]
  by_cases h1 : outside (T.aLo.toScalar T.den : ℝ) (T.aHi.toScalar T.den) av = true
  · simp [h1]
  · by_cases h2 : outside (T.cLo.toScalar T.den : ℝ) (T.cHi.toScalar T.den) cv = true
    · simp [h1, h2]
    · simp [h1, h2]

/-- non-numbers raise TypeError at the first comparison that meets them: `a` first; `c` only if
`a` passed its interval test (an out-of-range `a` raises ValueError whatever `c` is) -/
theorem getShapeArg_errors (T : Table) (a c : Arg ℝ) :
    (a.val? = none → T.getShapeArg a c = .error "TypeError") ∧
    (∀ av, a.val? = some av → outside (T.aLo.toScalar T.den : ℝ) (T.aHi.toScalar T.den) av = true →
      T.getShapeArg a c = .error "ValueError") ∧
    (∀ av, a.val? = some av → outside (T.aLo.toScalar T.den : ℝ) (T.aHi.toScalar T.den) av = false →
      c.val? = none → T.getShapeArg a c = .error "TypeError") := by
  refine ⟨?_, ?_, ?_⟩
  · intro h; unfold Table.getShapeArg; rw [h]
  · intro av h ho; unfold Table.getShapeArg; rw [h]; simp [ho]
  · intro av h ho hc; unfold Table.getShapeArg; rw [h, hc]; simp [ho]

example : Gen.fam323.getShapeArg (.int 2 : Arg ℝ) (.real 2) = Gen.fam323.getShape 2 2 :=
  getShapeArg_numeric _ _ _ _ _ (by simp [Arg.val?, ofInt_real]) rfl

/-- **The `n` of the uniform families**: accepted iff it is an integer ≥ 3 (then `make_vertices(n)`
runs); integers < 3 raise ValueError (ZeroDivisionError for 0 in the four polyhedral families),
floats raise ValueError below 3 and TypeError otherwise, non-numbers TypeError. -/
theorem uniformArg_ok_iff (kind : Nat) (n : Arg ℝ) (m : Nat) :
    uniformArg kind n = .ok m ↔ ∃ i : Int, n = .int i ∧ 3 ≤ i ∧ m = i.toNat := by
  cases n with
  | other => simp [uniformArg]
  | real x =>
    simp only [uniformArg]
    split_ifs <;> simp
  | int i =>
    simp only [uniformArg]
    split_ifs with h1 h2
    · simp only [reduceCtorEq, Arg.int.injEq, exists_eq_left', false_iff, not_and]
      intro h3; omega
    · simp only [reduceCtorEq, Arg.int.injEq, exists_eq_left', false_iff, not_and]
      intro h3; omega
    · simp only [Except.ok.injEq, Arg.int.injEq, exists_eq_left']
      constructor
      · intro h; exact ⟨by omega, h.symm⟩
      · intro h; exact h.2.symm

theorem uniformGetShape_int (kind : Nat) {n : Nat} (hn : 3 ≤ n) :
    uniformGetShape kind (.int n : Arg ℝ) = uniformVertices kind n := by
  have : uniformArg kind (.int n : Arg ℝ) = .ok n :=
    (uniformArg_ok_iff kind _ n).mpr ⟨n, rfl, by omega, by simp⟩
  unfold uniformGetShape; rw [this]

example : uniformGetShape 2 (.int 7 : Arg ℝ) = antiprism 7 := by
  simpa [uniformVertices] using uniformGetShape_int 2 (n := 7) (by norm_num)
example : uniformGetShape 1 (.real 4 : Arg ℝ) = .error "TypeError" := by
  simp [uniformGetShape, uniformArg, Scalar.lit, Scalar.eqb]; norm_num

/-! ## the regenerated tables are the documented families; corner solids (kernel evaluation) -/

/-- `_planes`/`_plane_types` of the three classes are, as sets of (plane, type), the documented
plane families (5-, 2-, 3-fold axes …), without repeated planes; `b` and the accepted rectangles
are the documented ones; the truncation map is `a = 1, c = 3 − 2t, t ∈ [0,1]` on the 323+ tables;
the DOI dictionaries are the documented ones. -/
theorem tables_documented :
    Gen.fam323.isDoc doc323 = true ∧ Gen.fam423.isDoc doc423 = true ∧ Gen.fam523.isDoc doc523 = true ∧
    (Gen.tt.isDoc && Gen.ttUses323) = true ∧
    (Gen.doi.files == docDoi.files && Gen.doi.families == docDoi.families) = true :=
  ⟨FamTables.fam323_isDoc, FamTables.fam423_isDoc, FamTables.fam523_isDoc, FamTables.tt_isDoc,
   FamTables.doi_isDoc⟩

/-- **Determinant gap, all three tables, all parameters.** For the model's real plane tables of
323+, 423 and 523 EVERY triple of planes `make_vertices` looks at has determinant 0 or of absolute
value > 1e-6: the coded test `np.abs(dets) > thresh` is the test `det ≠ 0`.  Proved from the field
norm of ℤ[√5] (`Fam.det_gap_of_bounded`: a non-zero determinant times its conjugate is a non-zero
integer, and the conjugate is at most 6K³ for entries of size ≤ K); the kernel only checks the entry
bound `K` (1, 1, 6) on the regenerated tables — no enumeration of the 37 820 triples of 523. -/
theorem det_gap (a b c : ℝ) (t : Row ℝ × Row ℝ × Row ℝ) :
    ([t.1, t.2.1, t.2.2].Sublist (rows Gen.fam323.planesS Gen.fam323.types a b c) →
      tripleDet t = 0 ∨ 1 / 1000000 < |tripleDet t|) ∧
    ([t.1, t.2.1, t.2.2].Sublist (rows Gen.fam423.planesS Gen.fam423.types a b c) →
      tripleDet t = 0 ∨ 1 / 1000000 < |tripleDet t|) ∧
    ([t.1, t.2.1, t.2.2].Sublist (rows Gen.fam523.planesS Gen.fam523.types a b c) →
      tripleDet t = 0 ∨ 1 / 1000000 < |tripleDet t|) :=
  ⟨det_gap_rows Gen.fam323 1 (by decide) FamTables.fam323_within (by decide) a b c t,
   det_gap_rows Gen.fam423 1 (by decide) FamTables.fam423_within (by decide) a b c t,
   det_gap_rows Gen.fam523 6 (by decide) FamTables.fam523_within (by decide) a b c t⟩

/-- the same fact evaluated triple by triple by the kernel on the two small tables (independent
    confirmation of `det_gap` there) -/
theorem det_gap_kernel :
    detGap Gen.fam323.planes Gen.fam323.den = true ∧ detGap Gen.fam423.planes Gen.fam423.den = true :=
  ⟨FamTables.fam323_detGap, FamTables.fam423_detGap⟩

/-- **Exactness on the three tables needs only the half-space gap.** With `det_gap`, hypothesis (G1)
of `make_vertices_exact_of_gap` is discharged for Family323Plus / 423 / 523 (and the truncated
tetrahedron, which uses the 323+ table) at EVERY parameter triple: if no meeting point violates a
half-space by an amount in (0, 1e-6], `make_vertices` returns exactly the vertices of the polytope
(up to the 6-decimal grid). -/
theorem make_vertices_exact_tables (T : Table) (hT : T = Gen.fam323 ∨ T = Gen.fam423 ∨ T = Gen.fam523)
    (a b c : ℝ)
    (G2 : ∀ t : Row ℝ × Row ℝ × Row ℝ, [t.1, t.2.1, t.2.2].Sublist (rows T.planesS T.types a b c) →
      tripleDet t ≠ 0 →
      (∀ r ∈ rows T.planesS T.types a b c, V3.dot r.1 (solve3 t) ≤ r.2) ∨
      (∃ r ∈ rows T.planesS T.types a b c, r.2 + 1 / 1000000 < V3.dot r.1 (solve3 t))) :
    (∀ p ∈ makeVertices T.planesS T.types a b c, IsVertexR (rows T.planesS T.types a b c) p) ∧
    (∀ x, IsVertexR (rows T.planesS T.types a b c) x →
      ∃ p ∈ makeVertices T.planesS T.types a b c, key p = key x ∧
        |p.x - x.x| ≤ 1 / 1000000 ∧ |p.y - x.y| ≤ 1 / 1000000 ∧ |p.z - x.z| ≤ 1 / 1000000) := by
  apply make_vertices_exact_of_gap _ _ _ _ _ _ G2
  intro t ht
  rcases hT with rfl | rfl | rfl
  · exact (det_gap a b c t).1 ht
  · exact (det_gap a b c t).2.1 ht
  · exact (det_gap a b c t).2.2 ht

/-- **Exactness certified per run (323+, 423, truncated tetrahedron).** The tables are integral and
every double is a rational: if the check `halfspaceGap` — evaluated by the driver EXACTLY over ℚ on
the `(a, b, c)` that `get_shape` handed to `make_vertices` — returns `true`, then for those parameters
`make_vertices` returns only vertices of the exact polytope `{x | ∀ j, P_j·x ≤ d_j}` and every vertex
of it up to the 6-decimal grid.  (G1 by `det_gap`, G2 by soundness of the check; the value of the
check over ℚ is its value over ℝ: `halfspaceGap_cast`.) -/
theorem make_vertices_exact_certified (T : Table) (hT : T = Gen.fam323 ∨ T = Gen.fam423) (a b c : ℚ)
    (hchk : halfspaceGap (rows (T.planesS : List (V3 ℚ)) T.types a b c) = true) :
    (∀ p ∈ makeVertices (T.planesS : List (V3 ℝ)) T.types (a : ℝ) (b : ℝ) (c : ℝ),
      IsVertexR (rows T.planesS T.types (a : ℝ) (b : ℝ) (c : ℝ)) p) ∧
    (∀ x, IsVertexR (rows (T.planesS : List (V3 ℝ)) T.types (a : ℝ) (b : ℝ) (c : ℝ)) x →
      ∃ p ∈ makeVertices (T.planesS : List (V3 ℝ)) T.types (a : ℝ) (b : ℝ) (c : ℝ), key p = key x ∧
        |p.x - x.x| ≤ 1 / 1000000 ∧ |p.y - x.y| ≤ 1 / 1000000 ∧ |p.z - x.z| ≤ 1 / 1000000) := by
  have hrat : T.rational = true := by
    rcases hT with rfl | rfl
    · exact FamTables.fam323_rational
    · exact FamTables.fam423_rational
  apply make_vertices_exact_tables T (by rcases hT with h | h <;> simp [h])
  intro t ht hd
  have hR : rows (T.planesS : List (V3 ℝ)) T.types (a : ℝ) (b : ℝ) (c : ℝ)
      = (rows (T.planesS : List (V3 ℚ)) T.types a b c).map castRow := by
    rw [rows_cast, planesS_cast T hrat]
  rw [hR] at ht ⊢
  rw [halfspaceGap_cast] at hchk
  exact halfspaceGap_sound _ hchk t ht hd

/-- the certificate holds at the cube corner (3, 1, 3) of 323+ (kernel evaluation over ℚ in
`Lemmas/FamiliesGapExample.lean`), hence
every point `make_vertices(3, 1, 3)` returns is a vertex of the exact polytope -/
example : ∀ p ∈ makeVertices (Gen.fam323.planesS : List (V3 ℝ)) Gen.fam323.types ((3 : ℚ) : ℝ) ((1 : ℚ) : ℝ) ((3 : ℚ) : ℝ),
    IsVertexR (rows Gen.fam323.planesS Gen.fam323.types ((3 : ℚ) : ℝ) ((1 : ℚ) : ℝ) ((3 : ℚ) : ℝ)) p :=
  (make_vertices_exact_certified Gen.fam323 (Or.inl rfl) 3 1 3 FamTables.fam323_cube_gapcheck).1

/-- the hypothesis of `det_gap` is inhabited: the first three rows of the 323+ table -/
example : ∃ t : Row ℝ × Row ℝ × Row ℝ,
    [t.1, t.2.1, t.2.2].Sublist (rows Gen.fam323.planesS Gen.fam323.types 2 1 2) := by
  have h : ∃ r0 r1 r2 rest, rows (Gen.fam323.planesS : List (V3 ℝ)) Gen.fam323.types 2 1 2
      = r0 :: r1 :: r2 :: rest := by
    simp only [rows, Table.planesS, Gen.fam323, List.map_cons, List.zipWith_cons_cons]
    exact ⟨_, _, _, _, rfl⟩
  obtain ⟨r0, r1, r2, rest, h⟩ := h
  refine ⟨(r0, r1, r2), ?_⟩
  rw [h]
  exact List.Sublist.cons_cons _ (List.Sublist.cons_cons _ (List.Sublist.cons_cons _ (List.nil_sublist _)))

/-- **Corner solids of Family323Plus** (exact, ℤ arithmetic, all 364 plane triples): at (1,1),
(3,1), (1,3), (3,3) the polytope `{x | P_j·x ≤ D_j}` has EXACTLY the vertices of the octahedron
(±1,0,0)…, the tetrahedron in its two positions, the cube (±1,±1,±1). -/
theorem corners_323 :
    Gen.fam323.cornerIs ⟨1, 0⟩ ⟨1, 0⟩ octahedronT = true ∧
    Gen.fam323.cornerIs ⟨3, 0⟩ ⟨1, 0⟩ tetrahedronDualT = true ∧
    Gen.fam323.cornerIs ⟨1, 0⟩ ⟨3, 0⟩ tetrahedronT = true ∧
    Gen.fam323.cornerIs ⟨3, 0⟩ ⟨3, 0⟩ cubeT = true :=
  ⟨FamTables.c323_octahedron, FamTables.c323_tetrahedron_a3, FamTables.c323_tetrahedron_c3,
   FamTables.c323_cube⟩

/-- **Corner solids of Family423** (exact, all 2 600 triples): cuboctahedron (±1,±1,0)… at (1,2),
octahedron (±2,0,0)… at (2,2), cube at (1,3), rhombic dodecahedron (±1,±1,±1),(±2,0,0)… at (2,3). -/
theorem corners_423 :
    Gen.fam423.cornerIs ⟨1, 0⟩ ⟨2, 0⟩ cuboctahedronT = true ∧
    Gen.fam423.cornerIs ⟨2, 0⟩ ⟨2, 0⟩ (octahedronT.scale ⟨2, 0⟩ 1) = true ∧
    Gen.fam423.cornerIs ⟨1, 0⟩ ⟨3, 0⟩ cubeT = true ∧
    Gen.fam423.cornerIs ⟨2, 0⟩ ⟨3, 0⟩ rhombicDodecahedronT = true :=
  ⟨FamTables.c423_cuboctahedron, FamTables.c423_octahedron, FamTables.c423_cube,
   FamTables.c423_rhombicDodecahedron⟩

/-- **Corner solids of Family523** (exact in ℤ[√5]): at (1,S²), (s√5,S²), (1,3), (s√5,3) the polytope
of the 62 half-spaces has EXACTLY the vertices of the textbook icosidodecahedron (y,z exchanged),
icosahedron, dodecahedron and rhombic triacontahedron scaled by 1/φ (30, 12, 20, 32 points).
Soundness half (`cornerHas`): every textbook vertex satisfies all half-spaces and has three
independent tight planes.  Completeness (`cornerIsCert`): the kernel checks one certificate per pair
of planes (1 891 pairs per corner, regenerated by the translator from the table of /repo; the
certificates are untrusted, `Fam.isVertexSetCert_sound` proves the checker sound), instead of scanning
37 820 triples × 62 planes. -/
theorem corners_523 :
    Gen.fam523.cornerIsCert ⟨2, 0⟩ ⟨3, 1⟩ (icosidodecahedronT.swapYZ.scale ⟨-1, 1⟩ 2) Gen.cert523_0 = true ∧
    Gen.fam523.cornerIsCert ⟨5, -1⟩ ⟨3, 1⟩ (icosahedronT.scale ⟨-1, 1⟩ 2) Gen.cert523_1 = true ∧
    Gen.fam523.cornerIsCert ⟨2, 0⟩ ⟨6, 0⟩ (dodecahedronT.scale ⟨-1, 1⟩ 2) Gen.cert523_2 = true ∧
    Gen.fam523.cornerIsCert ⟨5, -1⟩ ⟨6, 0⟩ (rhombicTriacontahedronT.scale ⟨-1, 1⟩ 2) Gen.cert523_3 = true :=
  ⟨FamTables.c523_icosidodecahedron_exact, FamTables.c523_icosahedron_exact,
   FamTables.c523_dodecahedron_exact, FamTables.c523_rhombicTriacontahedron_exact⟩

/-- the textbook lists have 30, 12, 20, 32 points and (independent evaluation without certificates)
every one of them is a vertex of the 523 polytope at its corner -/
theorem corners_523_counts :
    (Gen.fam523.cornerHas ⟨2, 0⟩ ⟨3, 1⟩ (icosidodecahedronT.swapYZ.scale ⟨-1, 1⟩ 2) &&
      icosidodecahedronT.V.length == 30) = true ∧
    (Gen.fam523.cornerHas ⟨5, -1⟩ ⟨3, 1⟩ (icosahedronT.scale ⟨-1, 1⟩ 2) &&
      icosahedronT.V.length == 12) = true ∧
    (Gen.fam523.cornerHas ⟨2, 0⟩ ⟨6, 0⟩ (dodecahedronT.scale ⟨-1, 1⟩ 2) &&
      dodecahedronT.V.length == 20) = true ∧
    (Gen.fam523.cornerHas ⟨5, -1⟩ ⟨6, 0⟩ (rhombicTriacontahedronT.scale ⟨-1, 1⟩ 2) &&
      rhombicTriacontahedronT.V.length == 32) = true :=
  ⟨FamTables.c523_icosidodecahedron, FamTables.c523_icosahedron, FamTables.c523_dodecahedron,
   FamTables.c523_rhombicTriacontahedron⟩

/-! ### the same, as statements about the real polytope of the model's plane table
(`Fam.isVertexSet_sound`: the Boolean evaluator is sound for the polytope over ℝ) -/

/-- **Family323Plus, real form.** With the model's real plane table (`Gen.fam323.planesS`) and
`b = 1`, the vertices of `{x | ∀ j, P_j·x ≤ dist_j}` at the four corners of the rectangle are
exactly the octahedron, the two tetrahedra and the cube. -/
theorem corners_323_real (x : V3 ℝ) :
    (IsVertexR (rows Gen.fam323.planesS Gen.fam323.types 1 1 1) x ↔
      ∃ v ∈ octahedronT.V, x = V3.sdiv (ZV.toReal v) (octahedronT.td : ℝ)) ∧
    (IsVertexR (rows Gen.fam323.planesS Gen.fam323.types 3 1 1) x ↔
      ∃ v ∈ tetrahedronDualT.V, x = V3.sdiv (ZV.toReal v) (tetrahedronDualT.td : ℝ)) ∧
    (IsVertexR (rows Gen.fam323.planesS Gen.fam323.types 1 1 3) x ↔
      ∃ v ∈ tetrahedronT.V, x = V3.sdiv (ZV.toReal v) (tetrahedronT.td : ℝ)) ∧
    (IsVertexR (rows Gen.fam323.planesS Gen.fam323.types 3 1 3) x ↔
      ∃ v ∈ cubeT.V, x = V3.sdiv (ZV.toReal v) (cubeT.td : ℝ)) := by
  have hden : 0 < Gen.fam323.den := by decide
  have e (i : Int) : ((⟨i, 0⟩ : Z5).toScalar Gen.fam323.den : ℝ) = i := by
    rw [toScalar_real]; simp [Gen.fam323]
  have eb : (Gen.fam323.b.toScalar Gen.fam323.den : ℝ) = 1 := by
    rw [toScalar_real]; simp [Gen.fam323]
  have h1 := cornerIs_sound Gen.fam323 ⟨1, 0⟩ ⟨1, 0⟩ _ hden FamTables.c323_octahedron x
  have h2 := cornerIs_sound Gen.fam323 ⟨3, 0⟩ ⟨1, 0⟩ _ hden FamTables.c323_tetrahedron_a3 x
  have h3 := cornerIs_sound Gen.fam323 ⟨1, 0⟩ ⟨3, 0⟩ _ hden FamTables.c323_tetrahedron_c3 x
  have h4 := cornerIs_sound Gen.fam323 ⟨3, 0⟩ ⟨3, 0⟩ _ hden FamTables.c323_cube x
  simp only [e, eb, Int.cast_one, Int.cast_ofNat] at h1 h2 h3 h4
  exact ⟨h1, h2, h3, h4⟩

/-- the corner (1,1,1) of the cube is one of the vertices at (a, c) = (3, 3) -/
example : IsVertexR (rows Gen.fam323.planesS Gen.fam323.types 3 1 3)
    (V3.sdiv (ZV.toReal (zi 1 1 1)) (cubeT.td : ℝ)) :=
  ((corners_323_real _).2.2.2).mpr ⟨zi 1 1 1, by decide, rfl⟩

/-- **Family423, real form**: cuboctahedron, octahedron of radius 2, cube, rhombic dodecahedron. -/
theorem corners_423_real (x : V3 ℝ) :
    (IsVertexR (rows Gen.fam423.planesS Gen.fam423.types 1 2 2) x ↔
      ∃ v ∈ cuboctahedronT.V, x = V3.sdiv (ZV.toReal v) (cuboctahedronT.td : ℝ)) ∧
    (IsVertexR (rows Gen.fam423.planesS Gen.fam423.types 2 2 2) x ↔
      ∃ v ∈ (octahedronT.scale ⟨2, 0⟩ 1).V, x = V3.sdiv (ZV.toReal v) ((octahedronT.scale ⟨2, 0⟩ 1).td : ℝ)) ∧
    (IsVertexR (rows Gen.fam423.planesS Gen.fam423.types 1 2 3) x ↔
      ∃ v ∈ cubeT.V, x = V3.sdiv (ZV.toReal v) (cubeT.td : ℝ)) ∧
    (IsVertexR (rows Gen.fam423.planesS Gen.fam423.types 2 2 3) x ↔
      ∃ v ∈ rhombicDodecahedronT.V, x = V3.sdiv (ZV.toReal v) (rhombicDodecahedronT.td : ℝ)) := by
  have hden : 0 < Gen.fam423.den := by decide
  have e (i : Int) : ((⟨i, 0⟩ : Z5).toScalar Gen.fam423.den : ℝ) = i := by
    rw [toScalar_real]; simp [Gen.fam423]
  have eb : (Gen.fam423.b.toScalar Gen.fam423.den : ℝ) = 2 := by
    rw [toScalar_real]; simp [Gen.fam423]
  have h1 := cornerIs_sound Gen.fam423 ⟨1, 0⟩ ⟨2, 0⟩ _ hden FamTables.c423_cuboctahedron x
  have h2 := cornerIs_sound Gen.fam423 ⟨2, 0⟩ ⟨2, 0⟩ _ hden FamTables.c423_octahedron x
  have h3 := cornerIs_sound Gen.fam423 ⟨1, 0⟩ ⟨3, 0⟩ _ hden FamTables.c423_cube x
  have h4 := cornerIs_sound Gen.fam423 ⟨2, 0⟩ ⟨3, 0⟩ _ hden FamTables.c423_rhombicDodecahedron x
  simp only [e, eb, Int.cast_one, Int.cast_ofNat] at h1 h2 h3 h4
  exact ⟨h1, h2, h3, h4⟩

/-- **Family523, real form**: with `b = 2`, at (1,S²), (s√5,S²), (1,3), (s√5,3) the vertices of the
real polytope `{x | ∀ j, P_j·x ≤ dist_j}` of the model's plane table are exactly the points of the
scaled textbook icosidodecahedron (y,z exchanged), icosahedron, dodecahedron, rhombic
triacontahedron. -/
theorem corners_523_real (x : V3 ℝ) :
    (IsVertexR (rows Gen.fam523.planesS Gen.fam523.types 1 2 (goldS * goldS)) x ↔
      ∃ v ∈ (icosidodecahedronT.swapYZ.scale ⟨-1, 1⟩ 2).V,
        x = V3.sdiv (ZV.toReal v) ((icosidodecahedronT.swapYZ.scale ⟨-1, 1⟩ 2).td : ℝ)) ∧
    (IsVertexR (rows Gen.fam523.planesS Gen.fam523.types (golds * Real.sqrt 5) 2 (goldS * goldS)) x ↔
      ∃ v ∈ (icosahedronT.scale ⟨-1, 1⟩ 2).V, x = V3.sdiv (ZV.toReal v) ((icosahedronT.scale ⟨-1, 1⟩ 2).td : ℝ)) ∧
    (IsVertexR (rows Gen.fam523.planesS Gen.fam523.types 1 2 3) x ↔
      ∃ v ∈ (dodecahedronT.scale ⟨-1, 1⟩ 2).V, x = V3.sdiv (ZV.toReal v) ((dodecahedronT.scale ⟨-1, 1⟩ 2).td : ℝ)) ∧
    (IsVertexR (rows Gen.fam523.planesS Gen.fam523.types (golds * Real.sqrt 5) 2 3) x ↔
      ∃ v ∈ (rhombicTriacontahedronT.scale ⟨-1, 1⟩ 2).V,
        x = V3.sdiv (ZV.toReal v) ((rhombicTriacontahedronT.scale ⟨-1, 1⟩ 2).td : ℝ)) := by
  have hden : 0 < Gen.fam523.den := by decide
  have e1 : ((⟨2, 0⟩ : Z5).toScalar Gen.fam523.den : ℝ) = 1 := by
    rw [toScalar_real]; simp [Gen.fam523]
  have e2 : ((⟨5, -1⟩ : Z5).toScalar Gen.fam523.den : ℝ) = golds * Real.sqrt 5 := by
    rw [toScalar_real, gold_bounds.1]; simp [Gen.fam523]; ring
  have e3 : ((⟨3, 1⟩ : Z5).toScalar Gen.fam523.den : ℝ) = goldS * goldS := by
    rw [toScalar_real, gold_bounds.2]; simp [Gen.fam523]
  have e4 : ((⟨6, 0⟩ : Z5).toScalar Gen.fam523.den : ℝ) = 3 := by
    rw [toScalar_real]; simp [Gen.fam523]; norm_num
  have eb : (Gen.fam523.b.toScalar Gen.fam523.den : ℝ) = 2 := by
    rw [toScalar_real]; simp [Gen.fam523]; norm_num
  have h1 := cornerIsCert_sound Gen.fam523 ⟨2, 0⟩ ⟨3, 1⟩ _ _ hden FamTables.c523_icosidodecahedron_exact x
  have h2 := cornerIsCert_sound Gen.fam523 ⟨5, -1⟩ ⟨3, 1⟩ _ _ hden FamTables.c523_icosahedron_exact x
  have h3 := cornerIsCert_sound Gen.fam523 ⟨2, 0⟩ ⟨6, 0⟩ _ _ hden FamTables.c523_dodecahedron_exact x
  have h4 := cornerIsCert_sound Gen.fam523 ⟨5, -1⟩ ⟨6, 0⟩ _ _ hden FamTables.c523_rhombicTriacontahedron_exact x
  rw [e1, e3, eb] at h1
  rw [e2, e3, eb] at h2
  rw [e1, e4, eb] at h3
  rw [e2, e4, eb] at h4
  exact ⟨h1, h2, h3, h4⟩

/-- the vertex (1,1,1)/φ·… of the dodecahedron corner: `corners_523_real` is not vacuous -/
example : ∃ x : V3 ℝ, IsVertexR (rows Gen.fam523.planesS Gen.fam523.types 1 2 3) x :=
  ⟨_, ((corners_523_real _).2.2.1).mpr ⟨ZV.smul ⟨-1, 1⟩ (zi 2 2 2), by decide, rfl⟩⟩

/-! ## DOI lookup -/

/-- a DOI that is a key of neither dictionary raises KeyError (for every string) -/
theorem doi_unknown_keyerror (D : DoiTable) (doi : String)
    (h1 : lookup doi D.files = none) (h2 : lookup doi D.families = none) :
    D.get doi = .error "KeyError" := by
  simp [DoiTable.get, h1, h2]

example : Gen.doi.get "10.0000/unknown" = .error "KeyError" := by decide +kernel

/-- the three documented DOIs give the documented families, in order -/
theorem doi_known :
    Gen.doi.get "10.1103/PhysRevX.4.011024" = .ok ["Family323Plus", "Family423", "Family523"] ∧
    Gen.doi.get "10.1021/nn204012y" = .ok ["TruncatedTetrahedronFamily"] ∧
    Gen.doi.get "10.1126/science.1220869" = .ok ["file:science1220869.json"] := by
  refine ⟨?_, ?_, ?_⟩ <;> decide +kernel

/-! ## `_make_ngon` / RegularNGonFamily -/

theorem ngon_eq {n : Nat} (hn : 3 ≤ n) (z area angle : ℝ) :
    ngon n z area angle = .ok ((List.range n).map (ngonVertex n z area angle)) := by
  unfold ngon; rw [if_neg (by omega)]

/-- fewer than 3 vertices: ValueError -/
theorem ngon_small_valueerror {n : Nat} (hn : n < 3) (z area angle : ℝ) :
    ngon n z area angle = .error "ValueError" := by
  unfold ngon; rw [if_pos hn]

/-- **n vertices, the first on the +x axis.** -/
theorem ngon_first_vertex_on_x {n : Nat} (hn : 3 ≤ n) (z area : ℝ) (ha : 0 < area) :
    ∃ vs, ngon n z area 0 = .ok vs ∧ vs.length = n ∧
      vs.head? = some ⟨ngonScale n area, 0, z⟩ ∧ 0 < ngonScale n area := by
  refine ⟨_, ngon_eq hn z area 0, by simp, ?_, ngonScale_pos hn ha⟩
  obtain ⟨m, rfl⟩ : ∃ m, n = m + 1 := ⟨n - 1, by omega⟩
  rw [List.range_succ_eq_map]
  simp [ngonVertex_real]

/-- **Unit area.** The shoelace area of the polygon is the requested area (1 for the family). -/
theorem ngon_unit_area {n : Nat} (hn : 3 ≤ n) :
    ∃ vs, (regularNGon n : Except String (List (V3 ℝ))) = .ok vs ∧ shoelace vs = 1 := by
  refine ⟨(List.range n).map (ngonVertex n (lit 0) (lit 1) (lit 0)), ?_, ?_⟩
  · unfold regularNGon; exact ngon_eq hn _ _ _
  · rw [ngon_shoelace hn (lit 0) (lit 1) (lit 0) (by simp [Scalar.lit])]
    simp [Scalar.lit]

/-- **Regular.** Vertex `k` (any `k`, the vertex function has period `n`) lies on the circle of
radius `r = ngonScale n area` about the z-axis at height `z`, and all edges between consecutive
vertices (including the closing one) have the same squared length `2r²(1 − cos(2π/n))`. -/
theorem ngon_regular {n : Nat} (hn : 3 ≤ n) (z area angle : ℝ) (k : Nat) :
    ngonVertex n z area angle (k + n) = ngonVertex n z area angle k ∧
    (ngonVertex n z area angle k).x ^ 2 + (ngonVertex n z area angle k).y ^ 2
      = ngonScale n area * ngonScale n area ∧
    (ngonVertex n z area angle k).z = z ∧
    dist2 (ngonVertex n z area angle k) (ngonVertex n z area angle (k + 1))
      = 2 * (ngonScale n area * ngonScale n area) * (1 - Real.cos (2 * Real.pi / n)) :=
  ⟨ngonVertex_periodic hn z area angle k, ngon_on_circle n z area angle k, by simp [ngonVertex_real],
   ngon_edge_sq n z area angle k⟩

example : ∃ vs, (regularNGon 4 : Except String (List (V3 ℝ))) = .ok vs ∧ shoelace vs = 1 :=
  ngon_unit_area (by norm_num)

/-! ## uniform prism / antiprism / pyramid / dipyramid -/

/-- **Prism**: 2n vertices (two n-gons at z = ∓h/2), unit volume (base area × height with the
base area the shoelace area of the n-gon), all edges equal to `h`: ring edges of both n-gons and
the vertical edges. -/
theorem prism_spec {n : Nat} (hn : 3 ≤ n) :
    let h : ℝ := prismH n
    let lo := ngonVertex n (-h / 2) (1 / h) 0
    let hi := ngonVertex n (h / 2) (1 / h) 0
    (prism n : Except String (List (V3 ℝ))) = .ok ((List.range n).map lo ++ (List.range n).map hi) ∧
    ((List.range n).map lo ++ (List.range n).map hi).length = 2 * n ∧
    0 < h ∧
    prismVolume (shoelace ((List.range n).map lo)) ((hi 0).z - (lo 0).z) = 1 ∧
    ∀ k, dist2 (lo k) (lo (k + 1)) = h * h ∧ dist2 (hi k) (hi (k + 1)) = h * h ∧
         dist2 (lo k) (hi k) = h * h := by
  intro h lo hi
  have hH : 0 < h := prismH_pos hn
  refine ⟨?_, by simp; omega, hH, ?_, ?_⟩
  · unfold prism
    simp only [Scalar.lit, Scalar.ofNat_real]
    rw [ngon_eq hn, ngon_eq hn]
    simp [lo, hi, h]
  · rw [ngon_shoelace hn _ _ _ (by positivity)]
    simp only [prismVolume, lo, hi, ngonVertex_real]
    field_simp; ring
  · intro k
    refine ⟨?_, ?_, ?_⟩
    · rw [ngon_edge_sq]; exact prism_base_edge hn
    · rw [ngon_edge_sq]; exact prism_base_edge hn
    · simp only [dist2, V3.normSq, V3.dot, V3.sub_x, V3.sub_y, V3.sub_z, lo, hi, ngonVertex_real]
      ring

example : 0 < (prismH 4 : ℝ) := (prism_spec (n := 4) (by norm_num)).2.2.1

/-- **Antiprism**: 2n vertices (bottom n-gon turned by π/n at z = −h/2, top at z = h/2), all edges
equal to `s = antiprismS n`: ring edges of both n-gons and the 2n lateral edges
top_k–bottom_k, bottom_k–top_{k+1}.
Unit volume and the centroid are in `antiprism_volume_centroid`. -/
theorem antiprism_spec {n : Nat} (hn : 3 ≤ n) :
    let h : ℝ := antiprismH n
    let A : ℝ := antiprismArea n
    let s : ℝ := antiprismS n
    let lo := ngonVertex n (-h / 2) A (Real.pi / n)
    let hi := ngonVertex n (h / 2) A 0
    (antiprism n : Except String (List (V3 ℝ))) = .ok ((List.range n).map lo ++ (List.range n).map hi) ∧
    ((List.range n).map lo ++ (List.range n).map hi).length = 2 * n ∧
    ∀ k, dist2 (lo k) (lo (k + 1)) = s * s ∧ dist2 (hi k) (hi (k + 1)) = s * s ∧
         dist2 (hi k) (lo k) = s * s ∧ dist2 (lo k) (hi (k + 1)) = s * s := by
  intro h A s lo hi
  refine ⟨?_, by simp; omega, ?_⟩
  · unfold antiprism
    simp only [Scalar.lit, Scalar.ofNat_real]
    rw [ngon_eq hn, ngon_eq hn]
    simp [lo, hi, h, A]
  · intro k
    have hlat := antiprism_lateral_edge hn
    have hpy := Real.sin_sq_add_cos_sq ((k:ℝ) * delta n)
    refine ⟨?_, ?_, ?_, ?_⟩
    · rw [ngon_edge_sq]; exact antiprism_base_edge hn
    · rw [ngon_edge_sq]; exact antiprism_base_edge hn
    · simp only [dist2, V3.normSq, V3.dot, V3.sub_x, V3.sub_y, V3.sub_z, lo, hi, ngonVertex_real]
      rw [← hlat]
      simp only [add_zero]
      rw [Real.cos_add, Real.sin_add]
      have hp2 := Real.sin_sq_add_cos_sq (Real.pi / n)
      generalize Real.cos ((k:ℝ) * delta n) = ck at *
      generalize Real.sin ((k:ℝ) * delta n) = sk at *
      generalize Real.cos (Real.pi / n) = cy at *
      generalize Real.sin (Real.pi / n) = sy at *
      generalize ngonScale n A = r
      have e1 : sk ^ 2 = 1 - ck ^ 2 := by linarith
      have e2 : sy ^ 2 = 1 - cy ^ 2 := by linarith
      ring_nf
      rw [e1, e2]
      ring
    · simp only [dist2, V3.normSq, V3.dot, V3.sub_x, V3.sub_y, V3.sub_z, lo, hi, ngonVertex_real]
      rw [← hlat]
      have hk : ((k + 1 : ℕ) : ℝ) * delta n + 0 = ((k:ℝ) * delta n + Real.pi / n) + Real.pi / n := by
        push_cast; rw [delta_eq_two_mul]; ring
      rw [hk]
      generalize (k:ℝ) * delta n + Real.pi / n = θ
      rw [Real.cos_add, Real.sin_add]
      have hp1 := Real.sin_sq_add_cos_sq θ
      have hp2 := Real.sin_sq_add_cos_sq (Real.pi / n)
      generalize Real.cos θ = ck at *
      generalize Real.sin θ = sk at *
      generalize Real.cos (Real.pi / n) = cy at *
      generalize Real.sin (Real.pi / n) = sy at *
      generalize ngonScale n A = r
      have e1 : sk ^ 2 = 1 - ck ^ 2 := by linarith
      have e2 : sy ^ 2 = 1 - cy ^ 2 := by linarith
      ring_nf
      rw [e1, e2]
      ring

example : ((List.range 3).map (ngonVertex 3 (-(antiprismH 3 : ℝ) / 2) (antiprismArea 3) (Real.pi / (3:ℕ)))
    ++ (List.range 3).map (ngonVertex 3 ((antiprismH 3 : ℝ) / 2) (antiprismArea 3) 0)).length = 2 * 3 :=
  (antiprism_spec (n := 3) (by norm_num)).2.1

/-- **Pyramid** (n = 3, 4, 5): n+1 vertices, base at z = −h/4 and apex at z = 3h/4 (so the centroid,
a quarter of the height above the base, is at the origin), unit volume (base area × height / 3),
all edges equal: base edges and the n lateral edges. -/
theorem pyramid_spec {n : Nat} (hn : 3 ≤ n) (hn5 : n ≤ 5) :
    let h : ℝ := pyramidH n
    let base := ngonVertex n (-h / 4) (3 / h) 0
    let apex : V3 ℝ := ⟨0, 0, 3 * h / 4⟩
    (pyramid n : Except String (List (V3 ℝ))) = .ok ((List.range n).map base ++ [apex]) ∧
    ((List.range n).map base ++ [apex]).length = n + 1 ∧
    0 < h ∧
    pyramidVolume (shoelace ((List.range n).map base)) (apex.z - (base 0).z) = 1 ∧
    (base 0).z + (apex.z - (base 0).z) / 4 = 0 ∧
    ∀ k, dist2 (base k) apex = dist2 (base k) (base (k + 1)) := by
  intro h base apex
  have hH : 0 < h := pyramidH_pos hn hn5
  refine ⟨?_, by simp, hH, ?_, ?_, ?_⟩
  · unfold pyramid
    simp only [Scalar.lit, Scalar.ofNat_real]
    rw [ngon_eq hn]
    simp [base, apex, h]
  · rw [ngon_shoelace hn _ _ _ (by positivity)]
    simp only [pyramidVolume, base, apex, ngonVertex_real, Scalar.lit, Scalar.ofNat_real]
    field_simp; ring
  · simp only [base, apex, ngonVertex_real]; ring
  · intro k
    rw [ngon_edge_sq, ← pyramid_edges hn hn5]
    simp only [dist2, V3.normSq, V3.dot, V3.sub_x, V3.sub_y, V3.sub_z, base, apex, ngonVertex_real]
    have hp := Real.sin_sq_add_cos_sq ((k:ℝ) * delta n + 0)
    generalize Real.cos ((k:ℝ) * delta n + 0) = ck at *
    generalize Real.sin ((k:ℝ) * delta n + 0) = sk at *
    have e1 : sk ^ 2 = 1 - ck ^ 2 := by linarith
    ring_nf
    rw [e1]
    ring

example : 0 < (pyramidH 4 : ℝ) := (pyramid_spec (n := 4) (by norm_num) (by norm_num)).2.2.1

/-- **Dipyramid** (n = 3, 4, 5): n+2 vertices, base at z = 0 and apexes at z = ±h (symmetric about
the origin), unit volume (two pyramids of base area × h / 3), all edges equal. -/
theorem dipyramid_spec {n : Nat} (hn : 3 ≤ n) (hn5 : n ≤ 5) :
    let h : ℝ := dipyramidH n
    let base := ngonVertex n 0 (3 / 2 / h) 0
    let top : V3 ℝ := ⟨0, 0, h⟩
    let bot : V3 ℝ := ⟨0, 0, -h⟩
    (dipyramid n : Except String (List (V3 ℝ))) = .ok ((List.range n).map base ++ [top, bot]) ∧
    ((List.range n).map base ++ [top, bot]).length = n + 2 ∧
    0 < h ∧
    pyramidVolume (shoelace ((List.range n).map base)) (top.z - (base 0).z)
      + pyramidVolume (shoelace ((List.range n).map base)) ((base 0).z - bot.z) = 1 ∧
    ∀ k, dist2 (base k) top = dist2 (base k) (base (k + 1)) ∧
         dist2 (base k) bot = dist2 (base k) (base (k + 1)) := by
  intro h base top bot
  have hH : 0 < h := dipyramidH_pos hn hn5
  refine ⟨?_, by simp, hH, ?_, ?_⟩
  · unfold dipyramid
    simp only [Scalar.lit, Scalar.q, Scalar.ofNat_real]
    rw [ngon_eq hn]
    simp [base, top, bot, h]
  · rw [ngon_shoelace hn _ _ _ (by positivity)]
    simp only [pyramidVolume, base, top, bot, ngonVertex_real, Scalar.lit, Scalar.ofNat_real]
    field_simp; ring
  · intro k
    rw [ngon_edge_sq, ← dipyramid_edges hn hn5]
    simp only [dist2, V3.normSq, V3.dot, V3.sub_x, V3.sub_y, V3.sub_z, base, top, bot, ngonVertex_real]
    have hp := Real.sin_sq_add_cos_sq ((k:ℝ) * delta n + 0)
    generalize Real.cos ((k:ℝ) * delta n + 0) = ck at *
    generalize Real.sin ((k:ℝ) * delta n + 0) = sk at *
    have e1 : sk ^ 2 = 1 - ck ^ 2 := by linarith
    constructor <;> (ring_nf; rw [e1]; ring)

example : 0 < (dipyramidH 3 : ℝ) := (dipyramid_spec (n := 3) (by norm_num) (by norm_num)).2.2.1

/-! ## unit volume and centroid of the uniform solids

  The solid is the union of the cones from the origin over the boundary triangles of the returned
  vertex array (`Fam.prismSurface` … in Spec/Families.lean: rings closed cyclically, n-gon faces
  fanned from the axis); `Spec.vol` / `Spec.centroid` are the tetrahedron sums of Spec/Solid.lean
  (the specification of C01/C02).  Proved for EVERY admissible n: the sector between two
  consecutive ring vertices is rotated n times (`Fam.swept_spec`, using Σ cos(2πk/n) = Σ sin(2πk/n) = 0),
  the sector volume is a polynomial identity, and the coded closed forms of height / edge / base area
  make n sector volumes equal to 1. -/

theorem centroid_of_first_vol (Ts : List (Tet ℝ)) (hv : Spec.vol Ts = 1) (hf : Spec.first Ts = ⟨0, 0, 0⟩) :
    Spec.centroid Ts = ⟨0, 0, 0⟩ := by
  unfold Spec.centroid
  rw [hv, hf]
  apply V3.ext' <;> simp

/-- **Prism: unit volume, centroid at the origin**, every n ≥ 3. -/
theorem prism_volume_centroid {n : Nat} (hn : 3 ≤ n) :
    ∃ vs, (prism n : Except String (List (V3 ℝ))) = .ok vs ∧ vs.length = 2 * n ∧
      solidVolume (prismSurface n vs) = 1 ∧ Spec.centroid (conesOver (prismSurface n vs)) = ⟨0, 0, 0⟩ := by
  obtain ⟨h1, h2, -⟩ := prism_spec hn
  obtain ⟨hv, hf⟩ := prism_solid hn
  exact ⟨_, h1, h2, hv, centroid_of_first_vol _ hv hf⟩

/-- **Antiprism: unit volume, centroid at the origin**, every n ≥ 3 (the former `_partial` gap):
`n·(2/3)(h/2)r²(sin 2π/n + sin π/n) = 1` follows from the coded `s`, `h = √(1 − sec²(π/2n)/4)·s`,
`A = (n/4)cot(π/n)s²` and `cot(π/2n) + cot(π/n) = (2cos(π/n) + 1)/sin(π/n)`. -/
theorem antiprism_volume_centroid {n : Nat} (hn : 3 ≤ n) :
    ∃ vs, (antiprism n : Except String (List (V3 ℝ))) = .ok vs ∧ vs.length = 2 * n ∧
      solidVolume (antiprismSurface n vs) = 1 ∧
      Spec.centroid (conesOver (antiprismSurface n vs)) = ⟨0, 0, 0⟩ := by
  obtain ⟨h1, h2, -⟩ := antiprism_spec hn
  obtain ⟨hv, hf⟩ := antiprism_solid hn
  exact ⟨_, h1, h2, hv, centroid_of_first_vol _ hv hf⟩

/-- **Pyramid (n = 3, 4, 5): unit volume, centroid at the origin** (as a solid, not only by the
quarter-height rule of `pyramid_spec`). -/
theorem pyramid_volume_centroid {n : Nat} (hn : 3 ≤ n) (hn5 : n ≤ 5) :
    ∃ vs, (pyramid n : Except String (List (V3 ℝ))) = .ok vs ∧ vs.length = n + 1 ∧
      solidVolume (pyramidSurface n vs) = 1 ∧ Spec.centroid (conesOver (pyramidSurface n vs)) = ⟨0, 0, 0⟩ := by
  obtain ⟨h1, h2, -⟩ := pyramid_spec hn hn5
  obtain ⟨hv, hf⟩ := pyramid_solid hn hn5
  exact ⟨_, h1, h2, hv, centroid_of_first_vol _ hv hf⟩

/-- **Dipyramid (n = 3, 4, 5): unit volume, centroid at the origin.** -/
theorem dipyramid_volume_centroid {n : Nat} (hn : 3 ≤ n) (hn5 : n ≤ 5) :
    ∃ vs, (dipyramid n : Except String (List (V3 ℝ))) = .ok vs ∧ vs.length = n + 2 ∧
      solidVolume (dipyramidSurface n vs) = 1 ∧
      Spec.centroid (conesOver (dipyramidSurface n vs)) = ⟨0, 0, 0⟩ := by
  obtain ⟨h1, h2, -⟩ := dipyramid_spec hn hn5
  obtain ⟨hv, hf⟩ := dipyramid_solid hn hn5
  exact ⟨_, h1, h2, hv, centroid_of_first_vol _ hv hf⟩

example : ∃ vs, (antiprism 7 : Except String (List (V3 ℝ))) = .ok vs ∧ vs.length = 2 * 7 ∧
    solidVolume (antiprismSurface 7 vs) = 1 ∧ Spec.centroid (conesOver (antiprismSurface 7 vs)) = ⟨0, 0, 0⟩ :=
  antiprism_volume_centroid (by norm_num)

end
