import CoxeterVerif.Lemmas.Inside2DParity
import CoxeterVerif.Lemmas.Inside2DFrame
import CoxeterVerif.Lemmas.Inside2DCurved
/-!
  # C06 — 2-D point containment equals exact membership

  `vs` : the polygon's vertices in the rotated (`xy`) frame, any number, either orientation;
  `Ts` : ANY triangulation of the region whose boundary chain is the polygon (`EdgeChainEq2`;
         interior Steiner points allowed), all triangles oriented alike;
  `p`  : the query point, on none of the closed edges of the triangles (in particular not on
         the polygon's boundary).
  Then the model of `Polygon.is_inside` (half-plane classes with the `x = 0` tie rule, crossing
  indicators, edge signs, `Σ // 2 ≠ 0`) returns exactly "p is strictly inside one of the triangles".
  All statements are over ℝ and unbounded in the number of vertices / triangles / points.
-/
open Inside2D Inside2D.Polygon Spec.In2D Scalar
set_option maxRecDepth 4000
noncomputable section

/-! ### the half-turn term: antisymmetry, additivity, reversal, rotation of the start vertex -/

/-- the functional `e ↦ half_turn[e, p]` on directed edges -/
def htPhi (p : P2 ℝ) (e : Edge2) : Int := halfTurn p e.1 e.2

/-- **Antisymmetry.** Reversing an edge negates its half-turn term. -/
theorem halfTurn_antisymm (p a b : P2 ℝ) : halfTurn p b a = -halfTurn p a b := halfTurn_swap p a b

theorem htPhi_odd (p : P2 ℝ) : OddEdge2 (htPhi p) := fun a b => halfTurn_swap p a b

theorem halfTurnSum_eq_esum (vs : List (P2 ℝ)) (p : P2 ℝ) :
    halfTurnSum vs p = esum (htPhi p) (edges vs) := rfl

example : OddEdge2 (htPhi ⟨1/2, 1/3⟩) := htPhi_odd _

/-- **Additivity over a triangulation** (edge cancellation): the half-turn sum round the polygon
is the sum over the triangles of the half-turn sums round each of them. -/
theorem winding2_additive {vs : List (P2 ℝ)} {Ts : List (Tri2 ℝ)} (p : P2 ℝ)
    (h : EdgeChainEq2 (edges vs) (Ts.flatMap Tri2.bdry)) :
    halfTurnSum vs p =
      (Ts.map fun t => halfTurn p t.a t.b + halfTurn p t.b t.c + halfTurn p t.c t.a).sum := by
  rw [halfTurnSum_eq_esum, esum_bdry (htPhi_odd p) (Φ := fun t =>
    halfTurn p t.a t.b + halfTurn p t.b t.c + halfTurn p t.c t.a) _ h]
  intro T _; simp [Tri2.bdry, htPhi, add_assoc]

/-- the unit square and its two-triangle triangulation: the diagonal cancels -/
def unitSquare : List (P2 ℝ) := [⟨0, 0⟩, ⟨1, 0⟩, ⟨1, 1⟩, ⟨0, 1⟩]
def unitSquareTs : List (Tri2 ℝ) := [⟨⟨0, 0⟩, ⟨1, 0⟩, ⟨1, 1⟩⟩, ⟨⟨0, 0⟩, ⟨1, 1⟩, ⟨0, 1⟩⟩]

theorem unitSquare_chain : EdgeChainEq2 (edges unitSquare) (unitSquareTs.flatMap Tri2.bdry) := by
  intro G _ φ hφ
  simp only [unitSquare, unitSquareTs, edges, roll, Tri2.bdry, List.zip_cons_cons, List.zip_nil_right,
    List.cons_append, List.nil_append, List.flatMap_cons, List.flatMap_nil, List.append_nil,
    esum_cons, esum_nil]
  rw [hφ ⟨0, 0⟩ ⟨1, 1⟩]; abel

example (p : P2 ℝ) : halfTurnSum unitSquare p =
    (unitSquareTs.map fun t => halfTurn p t.a t.b + halfTurn p t.b t.c + halfTurn p t.c t.a).sum :=
  winding2_additive p unitSquare_chain

/-- **Reversal.** Reversing the vertex order negates the half-turn sum. -/
theorem winding_reverse (vs : List (P2 ℝ)) (p : P2 ℝ) :
    halfTurnSum vs.reverse p = -halfTurnSum vs p := by
  rw [halfTurnSum_eq_esum, halfTurnSum_eq_esum, esum_edges_reverse (htPhi_odd p)]

/-- the sum does not depend on which vertex the list starts with -/
theorem winding_roll (vs : List (P2 ℝ)) (p : P2 ℝ) : halfTurnSum (roll vs) p = halfTurnSum vs p := by
  rw [halfTurnSum_eq_esum, halfTurnSum_eq_esum, esum_edges_roll]

example (p : P2 ℝ) : halfTurnSum [⟨0, 1⟩, ⟨1, 1⟩, ⟨1, 0⟩, ⟨0, 0⟩] p = -halfTurnSum unitSquare p :=
  winding_reverse unitSquare p

/-- **Parity.** When the point is on none of the polygon's closed edges the half-turn sum is even,
so the floor division `// 2` loses nothing. -/
theorem halfTurnSum_even {vs : List (P2 ℝ)} {p : P2 ℝ}
    (hoff : ∀ e ∈ edges vs, onSegment e.1 e.2 p = false) : ∃ k : Int, halfTurnSum vs p = 2 * k := by
  have h := esum_mod4 (φ := htPhi p) (ψ := fun e => cls (rel e.2 p) - cls (rel e.1 p)) (edges vs)
    (fun e he => by
      have := two_ht_mod4 ((onSegment_false_iff e.1 e.2 p).mp (hoff e he))
      simpa [htPhi, halfTurn_eq_ht] using this)
  obtain ⟨k, hk⟩ := h
  rw [esum_edges_exact (fun v => cls (rel v p))] at hk
  exact ⟨k, by rw [halfTurnSum_eq_esum]; omega⟩

/-- **Orientation independence of the answer.** For a point off the polygon's closed edges,
`winding_number != 0` is the same for the reversed vertex order. -/
theorem isInside_reverse {vs : List (P2 ℝ)} {p : P2 ℝ}
    (hoff : ∀ e ∈ edges vs, onSegment e.1 e.2 p = false) :
    isInsideRot vs.reverse p = isInsideRot vs p := by
  obtain ⟨k, hk⟩ := halfTurnSum_even hoff
  unfold isInsideRot windingNumber
  rw [winding_reverse, hk, Int.fdiv_eq_ediv_of_nonneg _ (by decide), Int.fdiv_eq_ediv_of_nonneg _ (by decide)]
  have e1 : (-(2 * k)) / 2 = -k := by omega
  have e2 : (2 * k) / 2 = k := by omega
  rw [e1, e2, Bool.eq_iff_iff]
  simp only [bne_iff_ne, ne_eq, neg_eq_zero]

/-- the hypothesis of `halfTurnSum_even` / `isInside_reverse` holds for the unit square and (1/2, 1/3) -/
theorem unitSquare_off : ∀ e ∈ edges unitSquare, onSegment e.1 e.2 (⟨1/2, 1/3⟩ : P2 ℝ) = false := by
  intro e he
  simp only [unitSquare, edges, roll, List.cons_append, List.nil_append, List.zip_cons_cons,
    List.zip_nil_right, List.mem_cons, List.not_mem_nil, or_false] at he
  rcases he with rfl | rfl | rfl | rfl <;>
    simp only [onSegment, orient, dot2, eqb_real, Scalar.lit, Scalar.ofNat_real] <;> norm_num

example : isInsideRot unitSquare.reverse ⟨1/2, 1/3⟩ = isInsideRot unitSquare ⟨1/2, 1/3⟩ :=
  isInside_reverse unitSquare_off

example : ∃ k : Int, halfTurnSum unitSquare ⟨1/2, 1/3⟩ = 2 * k := halfTurnSum_even unitSquare_off

/-! ### one triangle -/

/-- **The half-turn sum round a positively oriented triangle** is `2` if the point is strictly
inside and `0` otherwise — for every point not on one of the three closed edges (points on the
lines through the edges but outside the edges, and points sharing an `x` or `y` coordinate with a
vertex, i.e. the tie rule, are covered). -/
theorem winding_triangle (t : Tri2 ℝ) (p : P2 ℝ) (hpos : 0 < orient t.a t.b t.c)
    (hoff : onBoundary t p = false) :
    halfTurn p t.a t.b + halfTurn p t.b t.c + halfTurn p t.c t.a = if inTriangle t p then 2 else 0 := by
  obtain ⟨h1, h2, h3⟩ := (onBoundary_false_iff t p).mp hoff
  have hp : 0 < crossR (rel t.a p) (rel t.b p) + crossR (rel t.b p) (rel t.c p) +
      crossR (rel t.c p) (rel t.a p) := by rw [← orient_tri_eq]; exact hpos
  rw [halfTurn_eq_ht, halfTurn_eq_ht, halfTurn_eq_ht, ht_triangle h1 h2 h3 hp]
  exact if_congr (inTriangle_pos_iff t p hpos).symm rfl rfl

/-- the triangle with the opposite orientation -/
def Spec.In2D.Tri2.flip (t : Tri2 ℝ) : Tri2 ℝ := ⟨t.a, t.c, t.b⟩

theorem orient_flip (t : Tri2 ℝ) : orient t.flip.a t.flip.b t.flip.c = -orient t.a t.b t.c := by
  unfold Tri2.flip orient; ring

theorem orient_swap (a b p : P2 ℝ) : orient b a p = -orient a b p := by unfold orient; ring

theorem onSegment_swap (a b p : P2 ℝ) : onSegment b a p = onSegment a b p := by
  unfold onSegment
  have hd : dot2 b a p = dot2 a b p := by unfold dot2; ring
  rw [orient_swap, hd, eqb_real, eqb_real]
  simp only [Scalar.lit, Scalar.ofNat_real, Nat.cast_zero, neg_eq_zero]

theorem onBoundary_flip (t : Tri2 ℝ) (p : P2 ℝ) : onBoundary t.flip p = onBoundary t p := by
  unfold onBoundary Tri2.flip
  simp only
  rw [onSegment_swap t.c t.b, onSegment_swap t.a t.c, onSegment_swap t.b t.a]
  cases onSegment t.b t.a p <;> cases onSegment t.c t.b p <;> cases onSegment t.a t.c p <;> rfl

theorem inTriangle_flip (t : Tri2 ℝ) (p : P2 ℝ) : inTriangle t.flip p = inTriangle t p := by
  unfold inTriangle Tri2.flip
  simp only
  rw [orient_swap t.c t.b, orient_swap t.a t.c, orient_swap t.b t.a]
  simp only [Scalar.lit, Scalar.ofNat_real, Nat.cast_zero, Left.neg_pos_iff, Left.neg_neg_iff]
  rw [Bool.eq_iff_iff]
  simp only [Bool.or_eq_true, Bool.and_eq_true, decide_eq_true_eq]
  tauto

/-- a negatively oriented triangle contributes `−2` / `0` -/
theorem winding_triangle_neg (t : Tri2 ℝ) (p : P2 ℝ) (hneg : orient t.a t.b t.c < 0)
    (hoff : onBoundary t p = false) :
    halfTurn p t.a t.b + halfTurn p t.b t.c + halfTurn p t.c t.a = if inTriangle t p then -2 else 0 := by
  have h := winding_triangle t.flip p (by rw [orient_flip]; linarith) (by rw [onBoundary_flip]; exact hoff)
  rw [inTriangle_flip] at h
  simp only [Tri2.flip] at h
  rw [halfTurn_swap p t.c t.a, halfTurn_swap p t.b t.c, halfTurn_swap p t.a t.b] at h
  split_ifs at h ⊢ <;> omega

/-- the triangle (0,0),(4,0),(0,4): the point (1,1) is inside, (3,3) is outside, and (0,5)
    (on the line of an edge, sharing `x` with two vertices) is allowed and outside -/
def sampleTri : Tri2 ℝ := ⟨⟨0, 0⟩, ⟨4, 0⟩, ⟨0, 4⟩⟩

example : 0 < orient sampleTri.a sampleTri.b sampleTri.c ∧ onBoundary sampleTri ⟨1, 1⟩ = false ∧
    inTriangle sampleTri ⟨1, 1⟩ = true := by
  refine ⟨by norm_num [sampleTri, orient], ?_, ?_⟩
  · simp only [onBoundary, onSegment, sampleTri, orient, dot2, eqb_real, Scalar.lit, Scalar.ofNat_real]
    norm_num
  · simp only [inTriangle, sampleTri, orient, Scalar.lit, Scalar.ofNat_real]
    norm_num

example : onBoundary sampleTri ⟨0, 5⟩ = false ∧ inTriangle sampleTri ⟨0, 5⟩ = false := by
  constructor
  · simp only [onBoundary, onSegment, sampleTri, orient, dot2, eqb_real, Scalar.lit, Scalar.ofNat_real]
    norm_num
  · simp only [inTriangle, sampleTri, orient, Scalar.lit, Scalar.ofNat_real]
    norm_num

/-- the clockwise copy of `sampleTri` satisfies the hypotheses of `winding_triangle_neg` at (1,1) -/
example : orient sampleTri.flip.a sampleTri.flip.b sampleTri.flip.c < 0 ∧
    onBoundary sampleTri.flip ⟨1, 1⟩ = false := by
  constructor
  · norm_num [sampleTri, Tri2.flip, orient]
  · simp only [onBoundary, onSegment, sampleTri, Tri2.flip, orient, dot2, eqb_real, Scalar.lit,
      Scalar.ofNat_real]
    norm_num

/-! ### whole polygons -/

theorem sum_ite_count (Ts : List (Tri2 ℝ)) (p : P2 ℝ) (c : Int) :
    (Ts.map fun t => if inTriangle t p then c else 0).sum = c * (count Ts p : Int) := by
  unfold count
  induction Ts with
  | nil => simp
  | cons t Ts ih =>
    simp only [List.map_cons, List.sum_cons, ih, List.filter_cons]
    cases inTriangle t p <;> simp; ring

theorem inRegion_iff_count (Ts : List (Tri2 ℝ)) (p : P2 ℝ) :
    inRegion Ts p = true ↔ count Ts p ≠ 0 := by
  unfold inRegion count
  rw [List.any_eq_true, Ne, List.length_eq_zero_iff, List.filter_eq_nil_iff]
  push Not; rfl

/-- **Half-turn sum of a triangulated polygon** (counter-clockwise triangulation):
twice the number of triangles strictly containing the point. -/
theorem halfTurnSum_triangulated {vs : List (P2 ℝ)} {Ts : List (Tri2 ℝ)} {p : P2 ℝ}
    (hchain : EdgeChainEq2 (edges vs) (Ts.flatMap Tri2.bdry))
    (hpos : ∀ t ∈ Ts, 0 < orient t.a t.b t.c)
    (hoff : ∀ t ∈ Ts, onBoundary t p = false) :
    halfTurnSum vs p = 2 * (count Ts p : Int) := by
  rw [winding2_additive p hchain, ← sum_ite_count]
  congr 1
  exact List.map_congr_left fun t ht => winding_triangle t p (hpos t ht) (hoff t ht)

/-- clockwise triangulation: minus twice the count -/
theorem halfTurnSum_triangulated_neg {vs : List (P2 ℝ)} {Ts : List (Tri2 ℝ)} {p : P2 ℝ}
    (hchain : EdgeChainEq2 (edges vs) (Ts.flatMap Tri2.bdry))
    (hneg : ∀ t ∈ Ts, orient t.a t.b t.c < 0)
    (hoff : ∀ t ∈ Ts, onBoundary t p = false) :
    halfTurnSum vs p = -2 * (count Ts p : Int) := by
  rw [winding2_additive p hchain, ← sum_ite_count]
  congr 1
  exact List.map_congr_left fun t ht => winding_triangle_neg t p (hneg t ht) (hoff t ht)

theorem isInsideRot_of_sum {vs : List (P2 ℝ)} {p : P2 ℝ} {n : Nat} {c : Int} (hc : c = 2 ∨ c = -2)
    (h : halfTurnSum vs p = c * (n : Int)) : isInsideRot vs p = true ↔ n ≠ 0 := by
  unfold isInsideRot windingNumber
  rw [h, Int.fdiv_eq_ediv_of_nonneg _ (by decide)]
  simp only [bne_iff_ne, ne_eq]
  rcases hc with rfl | rfl <;> omega

/-- **C06, polygons.**  For every polygon that is the boundary chain of a consistently oriented
triangulation (either orientation: counter-clockwise or clockwise vertex order), and every point
off the closed edges of the triangles, the model of `Polygon.is_inside` answers exactly
"the point is in the triangulated region". -/
theorem polygon_inside_iff {vs : List (P2 ℝ)} {Ts : List (Tri2 ℝ)} {p : P2 ℝ}
    (hchain : EdgeChainEq2 (edges vs) (Ts.flatMap Tri2.bdry))
    (hor : (∀ t ∈ Ts, 0 < orient t.a t.b t.c) ∨ (∀ t ∈ Ts, orient t.a t.b t.c < 0))
    (hoff : ∀ t ∈ Ts, onBoundary t p = false) :
    isInsideRot vs p = inRegion Ts p := by
  rw [Bool.eq_iff_iff, inRegion_iff_count]
  rcases hor with hpos | hneg
  · exact isInsideRot_of_sum (Or.inl rfl) (halfTurnSum_triangulated hchain hpos hoff)
  · exact isInsideRot_of_sum (Or.inr rfl) (halfTurnSum_triangulated_neg hchain hneg hoff)

/-- the winding number itself is the number of triangles containing the point -/
theorem windingNumber_eq_count {vs : List (P2 ℝ)} {Ts : List (Tri2 ℝ)} {p : P2 ℝ}
    (hchain : EdgeChainEq2 (edges vs) (Ts.flatMap Tri2.bdry))
    (hpos : ∀ t ∈ Ts, 0 < orient t.a t.b t.c)
    (hoff : ∀ t ∈ Ts, onBoundary t p = false) :
    windingNumber vs p = (count Ts p : Int) := by
  unfold windingNumber
  rw [halfTurnSum_triangulated hchain hpos hoff, Int.fdiv_eq_ediv_of_nonneg _ (by decide)]
  omega

theorem unitSquareTs_pos : ∀ t ∈ unitSquareTs, 0 < orient t.a t.b t.c := by
  intro t ht
  simp only [unitSquareTs, List.mem_cons, List.not_mem_nil, or_false] at ht
  rcases ht with rfl | rfl <;> norm_num [orient]

/-- hypotheses of `polygon_inside_iff` hold for the unit square and the inside point (1/2, 1/3) … -/
example : isInsideRot unitSquare ⟨1/2, 1/3⟩ = inRegion unitSquareTs ⟨1/2, 1/3⟩ :=
  polygon_inside_iff unitSquare_chain (Or.inl unitSquareTs_pos) (by
    intro t ht
    simp only [unitSquareTs, List.mem_cons, List.not_mem_nil, or_false] at ht
    rcases ht with rfl | rfl <;>
      simp only [onBoundary, onSegment, orient, dot2, eqb_real, Scalar.lit, Scalar.ofNat_real] <;>
      norm_num)

/-- … and the region test says "inside" there, "outside" at (3/2, 1/3) (evaluated by `norm_num`) -/
example : inRegion unitSquareTs ⟨1/2, 1/3⟩ = true := by
  simp only [inRegion, unitSquareTs, List.any_cons, List.any_nil, inTriangle, orient, Scalar.lit,
    Scalar.ofNat_real]
  norm_num

example : inRegion unitSquareTs ⟨3/2, 1/3⟩ = false := by
  simp only [inRegion, unitSquareTs, List.any_cons, List.any_nil, inTriangle, orient, Scalar.lit,
    Scalar.ofNat_real]
  norm_num

/-- the same square over ℝ at the point (1, 2), which shares its `x` with two vertices (the tie
    rule decides their class) and lies on the line of an edge: allowed, and outside -/
example : isInsideRot unitSquare ⟨1, 2⟩ = inRegion unitSquareTs ⟨1, 2⟩ :=
  polygon_inside_iff unitSquare_chain (Or.inl unitSquareTs_pos) (by
    intro t ht
    simp only [unitSquareTs, List.mem_cons, List.not_mem_nil, or_false] at ht
    rcases ht with rfl | rfl <;>
      simp only [onBoundary, onSegment, orient, dot2, eqb_real, Scalar.lit, Scalar.ofNat_real] <;>
      norm_num)

/-! direct evaluation of the model at exact rationals (by `decide`): a square in both orientations
    and a concave L-shaped hexagon, with points that share an `x` coordinate with vertices -/
def unitSquareQ : List (P2 Rat) := [⟨0, 0⟩, ⟨1, 0⟩, ⟨1, 1⟩, ⟨0, 1⟩]
def ellShapeQ : List (P2 Rat) := [⟨0, 0⟩, ⟨2, 0⟩, ⟨2, 1⟩, ⟨1, 1⟩, ⟨1, 2⟩, ⟨0, 2⟩]

example : isInsideRot unitSquareQ ⟨1/2, 1/3⟩ = true := by decide +kernel
example : isInsideRot unitSquareQ.reverse ⟨1/2, 1/3⟩ = true := by decide +kernel
example : isInsideRot unitSquareQ ⟨1, 2⟩ = false := by decide +kernel
example : isInsideRot unitSquareQ ⟨-1/2, 1/2⟩ = false := by decide +kernel
example : halfTurnSum unitSquareQ ⟨1/2, 1/3⟩ = 2 ∧ halfTurnSum unitSquareQ.reverse ⟨1/2, 1/3⟩ = -2 := by
  decide +kernel
example : isInsideRot ellShapeQ ⟨1/2, 3/2⟩ = true := by decide +kernel
example : isInsideRot ellShapeQ ⟨1, 1/2⟩ = true := by decide +kernel   -- x shared with (1,1), (1,2)
example : isInsideRot ellShapeQ ⟨3/2, 3/2⟩ = false := by decide +kernel -- in the notch
example : isInsideRot ellShapeQ.reverse ⟨1, 1/2⟩ = true := by decide +kernel
example : isInsideRotBatch ellShapeQ [⟨1/2, 3/2⟩, ⟨3/2, 3/2⟩, ⟨1, 1/2⟩] = [true, false, true] := by
  decide +kernel

/-! ### batch = map of single -/

theorem zipWith_add_map {β : Type} (f g : β → Int) (l : List β) :
    List.zipWith (· + ·) (l.map f) (l.map g) = l.map fun x => f x + g x := by
  induction l with
  | nil => rfl
  | cons a l ih => simp [ih]

theorem columnSums_eq {β γ : Type} (f : γ → β → Int) (es : List γ) (pts : List β) :
    columnSums (es.map fun e => pts.map fun p => f e p) pts.length =
      pts.map fun p => (es.map fun e => f e p).sum := by
  unfold columnSums
  induction es with
  | nil =>
    simp only [List.map_nil, List.foldr_nil, List.sum_nil]
    induction pts with
    | nil => rfl
    | cons a l ih => simp only [List.length_cons, List.replicate_succ, List.map_cons, ih]
  | cons e es ih =>
    simp only [List.map_cons, List.foldr_cons, List.sum_cons]
    rw [ih, zipWith_add_map]

/-- **Batch calls agree element-wise with single-point calls** (on the model of the vectorised
computation: the `(edges × points)` array summed along axis 0). -/
theorem polygon_batch_eq_map (vs pts : List (P2 ℝ)) :
    isInsideRotBatch vs pts = pts.map (isInsideRot vs) := by
  unfold isInsideRotBatch
  simp only
  rw [columnSums_eq (fun (e : P2 ℝ × P2 ℝ) p => halfTurn p e.1 e.2), List.map_map]
  rfl

theorem polygon_isInside_eq_map (R : M3 ℝ) (verts pts : List (V3 ℝ)) :
    Polygon.isInside R verts pts =
      pts.map fun p => isInsideRot (verts.map fun v => proj (rotate R v)) (proj (rotate R p)) := by
  unfold Polygon.isInside
  simp only
  rw [polygon_batch_eq_map, List.map_map]; rfl

/-- `(N,2)` points are treated as lying in the plane `z = 0` -/
theorem polygon_isInside2_eq (R : M3 ℝ) (verts : List (V3 ℝ)) (pts : List (P2 ℝ)) :
    Polygon.isInside2 R verts pts = Polygon.isInside R verts (pts.map fun p => ⟨p.x, p.y, 0⟩) := by
  unfold Polygon.isInside2 pad
  simp only [Scalar.lit, Scalar.ofNat_real, Nat.cast_zero]

example : isInsideRotBatch unitSquare [⟨1/2, 1/3⟩, ⟨3/2, 1/3⟩] =
    [isInsideRot unitSquare ⟨1/2, 1/3⟩, isInsideRot unitSquare ⟨3/2, 1/3⟩] :=
  polygon_batch_eq_map _ _

/-! ### the rotation into the `xy` frame (`kabsch` result as a parameter) -/

/- `IsOrtho R` (`RᵀR = 1`), `det3`, `IsFrame R n` are defined in `Lemmas/Inside2DFrame.lean` -/

/-- the rotation is an isometry: in-plane distances (hence the region and the point's position
relative to it) are the same in the rotated frame -/
theorem rotate_isometry {R : M3 ℝ} (h : IsOrtho R) (p q : V3 ℝ) :
    V3.normSq (rotate R p - rotate R q) = V3.normSq (p - q) := by
  obtain ⟨px, py, pz⟩ := p; obtain ⟨qx, qy, qz⟩ := q
  unfold rotate V3.normSq V3.dot
  simp only [V3.sub_x, V3.sub_y, V3.sub_z]
  linear_combination ((px - qx) ^ 2) * h.c11 + ((py - qy) ^ 2) * h.c22 + ((pz - qz) ^ 2) * h.c33 +
    (2 * (px - qx) * (py - qy)) * h.c12 + (2 * (px - qx) * (pz - qz)) * h.c13 +
    (2 * (py - qy) * (pz - qz)) * h.c23

/-- with `R n = ẑ` the rotated `z` coordinate is the height `n·p` above the polygon's plane:
all vertices of a planar polygon and all in-plane points get the same `z`, which the algorithm
then ignores -/
theorem rotate_z {R : M3 ℝ} (h : IsOrtho R) {n : V3 ℝ} (hn : rotate R n = ⟨0, 0, 1⟩) (p : V3 ℝ) :
    (rotate R p).z = V3.dot n p := by
  obtain ⟨nx, ny, nz⟩ := n; obtain ⟨px, py, pz⟩ := p
  unfold rotate at hn
  simp only [V3.mk.injEq] at hn
  obtain ⟨e1, e2, e3⟩ := hn
  have hx : nx = R.zx := by
    linear_combination (-nx) * h.c11 - ny * h.c12 - nz * h.c13 + R.xx * e1 + R.yx * e2 + R.zx * e3
  have hy : ny = R.zy := by
    linear_combination (-nx) * h.c12 - ny * h.c22 - nz * h.c23 + R.xy * e1 + R.yy * e2 + R.zy * e3
  have hz : nz = R.zz := by
    linear_combination (-nx) * h.c13 - ny * h.c23 - nz * h.c33 + R.xz * e1 + R.yz * e2 + R.zz * e3
  unfold rotate V3.dot
  simp only [hx, hy, hz]

/-- the rotation kabsch returns for the normal `−ẑ` (a half turn about `y`) satisfies the contract -/
example : IsOrtho ⟨-1, 0, 0, 0, 1, 0, 0, 0, -1⟩ ∧
    rotate (⟨-1, 0, 0, 0, 1, 0, 0, 0, -1⟩ : M3 ℝ) ⟨0, 0, -1⟩ = ⟨0, 0, 1⟩ := by
  refine ⟨⟨?_, ?_, ?_, ?_, ?_, ?_⟩, ?_⟩ <;> norm_num [rotate]

/-! ### circle -/

theorem iscloseZero_iff (z : ℝ) : iscloseZero z = true ↔ |z| ≤ 1 / 100000000 := by
  unfold iscloseZero
  simp only [Scalar.lit, Scalar.q, Scalar.ofNat_real, Scalar.abs_real, decide_eq_true_eq]
  norm_num

/-- **C06, circle.** For an in-plane point (`z` equal to the centre's `z`) and a non-negative
radius, `Circle.is_inside` is exactly membership in the closed disk.  (Since /repo bab419e the
out-of-plane switch is `isclose(z, 0, atol = 1e-8·r)`; for `dz = 0` it is passed iff `0 ≤ r`.) -/
theorem circle_inside_iff (r : ℝ) (c p : V3 ℝ) (hr : 0 ≤ r) (hz : p.z = c.z) :
    Circle.isInside1 r c p = inDisk r ⟨c.x, c.y⟩ ⟨p.x, p.y⟩ := by
  rw [Bool.eq_iff_iff, circle_window]
  unfold inDisk
  simp only [decide_eq_true_eq, hz, sub_self, abs_zero]
  unfold V3.norm V3.normSq V3.dot
  simp only [V3.sub_x, V3.sub_y, V3.sub_z, hz, sub_self, mul_zero, add_zero, Scalar.sqrt_real, Scalar.sqr]
  rw [Real.sqrt_le_left hr]
  constructor
  · rintro ⟨h, _⟩; linarith
  · intro h; exact ⟨by linarith, by positivity⟩

/-- inside the window `|dz| ≤ r / 10⁸` (relative to the circle) the answer is "the 3-D distance
    from the centre is at most `r`" -/
theorem circle_in_window (r : ℝ) (c p : V3 ℝ) (hz : |p.z - c.z| ≤ r / 100000000) :
    Circle.isInside1 r c p = decide (V3.norm (p - c) ≤ r) := by
  rw [Bool.eq_iff_iff, circle_window, decide_eq_true_eq]
  exact ⟨fun h => h.1, fun h => ⟨h, hz⟩⟩

/-- a point further than `r / 10⁸` from the circle's plane is never inside -/
theorem circle_out_of_plane (r : ℝ) (c p : V3 ℝ) (hz : r / 100000000 < |p.z - c.z|) :
    Circle.isInside1 r c p = false := by
  rw [Bool.eq_false_iff, Ne, circle_window]
  rintro ⟨_, h⟩; linarith

/-- **Scale covariance** (the reason of the repair bab419e): radius, centre and point scaled by
    `k > 0` give the same answer, for every point of space -/
theorem circle_scale {k : ℝ} (hk : 0 < k) (r : ℝ) (c p : V3 ℝ) :
    Circle.isInside1 (k * r) (V3.smul k c) (V3.smul k p) = Circle.isInside1 r c p :=
  circle_isInside1_scale hk r c p

/-- the out-of-plane offset `2e-9` of a circle of radius `1/1000` is outside the relative window
    (the code before bab419e accepted it: absolute window `1e-8`), and `2e-6` of radius `1000` is
    inside (it was rejected) -/
example : Circle.isInside1 (1/1000 : ℝ) ⟨0, 0, 0⟩ ⟨0, 0, 2/1000000000⟩ = false ∧
    Circle.isInside1 (1000 : ℝ) ⟨0, 0, 0⟩ ⟨0, 0, 2/1000000⟩ = true := by
  constructor
  · exact circle_out_of_plane _ _ _ (by norm_num)
  · rw [circle_window]
    refine ⟨?_, by norm_num⟩
    unfold V3.norm V3.normSq V3.dot
    simp only [V3.sub_x, V3.sub_y, V3.sub_z, Scalar.sqrt_real]
    rw [Real.sqrt_le_left (by norm_num)]; norm_num

example : Circle.isInside1 (2 : ℝ) ⟨1, -1, 3⟩ ⟨-1/2, -2, 3⟩ = inDisk (2 : ℝ) ⟨1, -1⟩ ⟨-1/2, -2⟩ :=
  circle_inside_iff 2 ⟨1, -1, 3⟩ ⟨-1/2, -2, 3⟩ (by norm_num) rfl

theorem circle_batch (r : ℝ) (c : V3 ℝ) (pts : List (V3 ℝ)) :
    Circle.isInside r c pts = pts.map (Circle.isInside1 r c) := rfl

/-! ### ellipse: the coded test is a one-sided bounding box -/

/-- what `Ellipse.is_inside` computes: the quarter-plane `x − cx ≤ a ∧ y − cy ≤ b` -/
theorem ellipse_inside_is_box (a b : ℝ) (c p : V3 ℝ) (ha : 0 < a) (hb : 0 < b) (hz : p.z = c.z) :
    Ellipse.isInside1 a b c p = true ↔ (p.x - c.x ≤ a ∧ p.y - c.y ≤ b) := by
  rw [ellipse_window, hz, sub_self, abs_zero, div_le_one ha, div_le_one hb]
  have : (0 : ℝ) ≤ Max.max a b / 100000000 := by
    have := le_max_left a b
    positivity
  constructor
  · rintro ⟨h1, h2, _⟩; exact ⟨h1, h2⟩
  · rintro ⟨h1, h2⟩; exact ⟨h1, h2, this⟩

/-- … and the same inside the whole out-of-plane window `|dz| ≤ max(a, b) / 10⁸` -/
theorem ellipse_in_window (a b : ℝ) (c p : V3 ℝ) (ha : 0 < a) (hb : 0 < b)
    (hz : |p.z - c.z| ≤ Max.max a b / 100000000) :
    Ellipse.isInside1 a b c p = true ↔ (p.x - c.x ≤ a ∧ p.y - c.y ≤ b) := by
  rw [ellipse_window, div_le_one ha, div_le_one hb]
  constructor
  · rintro ⟨h1, h2, _⟩; exact ⟨h1, h2⟩
  · rintro ⟨h1, h2⟩; exact ⟨h1, h2, hz⟩

/-- **C06, ellipse, the half that holds:** every point of the ellipse is accepted
(the box contains the ellipse).  The converse is false — `ellipse_inside_fails`. -/
theorem ellipse_inside_partial (a b : ℝ) (c p : V3 ℝ) (ha : 0 < a) (hb : 0 < b) (hz : p.z = c.z)
    (h : inEllipse a b ⟨c.x, c.y⟩ ⟨p.x, p.y⟩ = true) : Ellipse.isInside1 a b c p = true := by
  rw [ellipse_inside_is_box a b c p ha hb hz]
  unfold inEllipse at h
  simp only [decide_eq_true_eq, Scalar.sqr, Scalar.lit, Scalar.ofNat_real, Nat.cast_one] at h
  have h1 : (p.x - c.x) / a * ((p.x - c.x) / a) ≤ 1 := by nlinarith [mul_self_nonneg ((p.y - c.y) / b)]
  have h2 : (p.y - c.y) / b * ((p.y - c.y) / b) ≤ 1 := by nlinarith [mul_self_nonneg ((p.x - c.x) / a)]
  have e1 : (p.x - c.x) / a ≤ 1 := by nlinarith
  have e2 : (p.y - c.y) / b ≤ 1 := by nlinarith
  exact ⟨(div_le_one ha).mp e1, (div_le_one hb).mp e2⟩

example : inEllipse (1 : ℝ) 2 ⟨0, 0⟩ ⟨1/2, -1⟩ = true := by
  simp only [inEllipse, Scalar.sqr, Scalar.lit, Scalar.ofNat_real]; norm_num

/-- **C06 fails for `Ellipse.is_inside`:** the coded test is not membership in the ellipse.
Witness: `Ellipse(1, 2)` centred at the origin reports the point (−5, −5, 0) inside. -/
theorem ellipse_inside_fails :
    ¬ (∀ (a b : ℝ) (c p : V3 ℝ), 0 < a → 0 < b → p.z = c.z →
        Ellipse.isInside1 a b c p = inEllipse a b ⟨c.x, c.y⟩ ⟨p.x, p.y⟩) := by
  intro h
  have h1 := h 1 2 ⟨0, 0, 0⟩ ⟨-5, -5, 0⟩ (by norm_num) (by norm_num) rfl
  have hin : Ellipse.isInside1 (1 : ℝ) 2 ⟨0, 0, 0⟩ ⟨-5, -5, 0⟩ = true := by
    rw [ellipse_inside_is_box 1 2 ⟨0, 0, 0⟩ ⟨-5, -5, 0⟩ (by norm_num) (by norm_num) rfl]; norm_num
  have hout : inEllipse (1 : ℝ) 2 ⟨0, 0⟩ ⟨-5, -5⟩ = false := by
    simp only [inEllipse, Scalar.sqr, Scalar.lit, Scalar.ofNat_real]; norm_num
  rw [hin, hout] at h1
  exact Bool.noConfusion h1

/-- the second witness of the finding, in the positive quadrant: (0.9, 1.9) is outside the
    ellipse `x² + y²/4 ≤ 1` but inside the box -/
theorem ellipse_inside_fails_first_quadrant :
    Ellipse.isInside1 (1 : ℝ) 2 ⟨0, 0, 0⟩ ⟨9/10, 19/10, 0⟩ = true ∧
      inEllipse (1 : ℝ) 2 ⟨0, 0⟩ ⟨9/10, 19/10⟩ = false := by
  constructor
  · rw [ellipse_inside_is_box 1 2 ⟨0, 0, 0⟩ ⟨9/10, 19/10, 0⟩ (by norm_num) (by norm_num) rfl]; norm_num
  · simp only [inEllipse, Scalar.sqr, Scalar.lit, Scalar.ofNat_real]; norm_num

theorem ellipse_batch (a b : ℝ) (c : V3 ℝ) (pts : List (V3 ℝ)) :
    Ellipse.isInside a b c pts = pts.map (Ellipse.isInside1 a b c) := rfl


/-! ## Deepening round: certificates, triangulation-free theorems, the frame, the boundary -/

open In2DCert

/-! ### the triangulation certificate as a computable checker (run by the driver over ℚ) -/

/-- **C06, polygons, certificate form over ℝ.**  `certCheck` (boundary chain by edge cancellation +
consistent strict orientation) and `offCheck` are computable Boolean functions; when they return
`true` the model's answer is the membership in the triangulated region. -/
theorem polygon_inside_checked {vs : List (P2 ℝ)} {Ts : List (Tri2 ℝ)} {p : P2 ℝ}
    (hc : certCheck vs Ts = true) (ho : offCheck Ts p = true) :
    isInsideRot vs p = inRegion Ts p := by
  unfold certCheck at hc
  rw [Bool.and_eq_true] at hc
  refine polygon_inside_iff (chainCheck_sound hc.1) ?_ ?_
  · have h := hc.2
    unfold orientedCheck at h
    rw [Bool.or_eq_true, List.all_eq_true, List.all_eq_true] at h
    rcases h with h | h
    · left; intro t ht; simpa [Scalar.lit] using h t ht
    · right; intro t ht; simpa [Scalar.lit] using h t ht
  · unfold offCheck at ho
    rw [List.all_eq_true] at ho
    intro t ht; simpa using ho t ht

/-- **C06, polygons, as the driver runs it.**  The checkers and the spec are evaluated at exact
`ℚ` (every double is a rational) on the polygon's own vertices; if they accept, then the model
OVER ℝ on the same (cast) data, the model over `ℚ` (driver op `Q poly.inside`) and the exact
region test over `ℚ` (driver op `Q cert.region`) all agree. -/
theorem polygon_inside_certified {vs : List (P2 ℚ)} {Ts : List (Tri2 ℚ)} {p : P2 ℚ}
    (hc : certCheck vs Ts = true) (ho : offCheck Ts p = true) :
    isInsideRot (vs.map castP) (castP p) = inRegion Ts p ∧ isInsideRot vs p = inRegion Ts p := by
  unfold certCheck at hc
  rw [Bool.and_eq_true] at hc
  have h := polygon_inside_iff (chainCheck_sound_rat hc.1) (orientedCheck_sound_rat hc.2)
    (offCheck_sound_rat ho)
  rw [inRegion_cast] at h
  exact ⟨h, by rw [← isInsideRot_cast]; exact h⟩

/-- the certificate accepts the unit square with its two-triangle triangulation (exact evaluation
    over ℚ), and the point (1/2, 1/3) is off the triangles' edges -/
def unitSquareTsQ : List (Tri2 Rat) := [⟨⟨0, 0⟩, ⟨1, 0⟩, ⟨1, 1⟩⟩, ⟨⟨0, 0⟩, ⟨1, 1⟩, ⟨0, 1⟩⟩]
def ellShapeTsQ : List (Tri2 Rat) :=
  [⟨⟨0, 0⟩, ⟨2, 0⟩, ⟨2, 1⟩⟩, ⟨⟨0, 0⟩, ⟨2, 1⟩, ⟨1, 1⟩⟩, ⟨⟨0, 0⟩, ⟨1, 1⟩, ⟨1, 2⟩⟩, ⟨⟨0, 0⟩, ⟨1, 2⟩, ⟨0, 2⟩⟩]

example : certCheck unitSquareQ unitSquareTsQ = true ∧ offCheck unitSquareTsQ ⟨1/2, 1/3⟩ = true := by
  decide +kernel
example : certCheck ellShapeQ ellShapeTsQ = true ∧ offCheck ellShapeTsQ ⟨3/2, 3/2⟩ = true ∧
    certCheck ellShapeQ.reverse (ellShapeTsQ.map fun t => ⟨t.a, t.c, t.b⟩) = true := by decide +kernel
/-- a wrong "triangulation" (one triangle missing) is rejected -/
example : certCheck ellShapeQ ellShapeTsQ.tail = false := by decide +kernel
example : isInsideRot (unitSquareQ.map castP) (castP ⟨1/2, 1/3⟩) = inRegion unitSquareTsQ ⟨1/2, 1/3⟩ :=
  (polygon_inside_certified (by decide +kernel) (by decide +kernel)).1

/-! ### triangulation-free theorems (any closed polygon) -/

/-- **Every point strictly separated from all vertices by a line is classified outside** —
for ANY closed polygon (convex or not, simple or not), no triangulation: points outside the convex
hull of the vertices are never reported inside. -/
theorem outside_of_separated (vs : List (P2 ℝ)) (p d : P2 ℝ)
    (h : ∀ v ∈ vs, 0 < d.x * (v.x - p.x) + d.y * (v.y - p.y)) : isInsideRot vs p = false := by
  have h0 := halfTurnSum_halfplane vs p d h
  unfold isInsideRot windingNumber; rw [h0]; rfl

example : isInsideRot unitSquare ⟨-1/2, 7⟩ = false :=
  outside_of_separated unitSquare ⟨-1/2, 7⟩ ⟨1, 0⟩ (by
    intro v hv
    simp only [unitSquare, List.mem_cons, List.not_mem_nil, or_false] at hv
    rcases hv with rfl | rfl | rfl | rfl <;> norm_num)

/-- **Every point strictly left of all directed edges is classified inside** — for ANY closed
polygon with at least one vertex (the winding number is then positive); no triangulation. -/
theorem inside_of_leftOfAll {vs : List (P2 ℝ)} {p : P2 ℝ} (hne : vs ≠ [])
    (h : leftOfAll vs p = true) : isInsideRot vs p = true ∧ 0 < windingNumber vs p := by
  have hleft : ∀ e ∈ edges vs, 0 < orient e.1 e.2 p := by
    unfold leftOfAll at h
    rw [List.all_eq_true] at h
    intro e he; simpa [Scalar.lit] using h e he
  have hpos := halfTurnSum_pos_of_left hne hleft
  have hoff : ∀ e ∈ edges vs, onSegment e.1 e.2 p = false := by
    intro e he
    unfold onSegment
    rw [eqb_real]
    have := hleft e he
    simp only [Scalar.lit, Scalar.ofNat_real, Nat.cast_zero, Bool.and_eq_false_iff,
      decide_eq_false_iff_not]
    left; exact ne_of_gt this
  obtain ⟨k, hk⟩ := halfTurnSum_even hoff
  have hw : windingNumber vs p = k := by
    unfold windingNumber; rw [hk, Int.fdiv_eq_ediv_of_nonneg _ (by decide)]; omega
  have hkpos : 0 < k := by omega
  refine ⟨?_, by rw [hw]; exact hkpos⟩
  unfold isInsideRot; rw [hw]; simp only [bne_iff_ne, ne_eq]; omega

/-! ### strictly convex polygons: no triangulation at all -/

/-- **C06, convex polygons (counter-clockwise), no triangulation, no certificate about the
point:** for a strictly convex polygon (`convexCheck`, computable) and every point not on its
closed edges, the model's answer is "strictly left of every directed edge" — the definition of the
interior of a convex polygon as the intersection of its edges' open half-planes. -/
theorem convex_inside_iff {vs : List (P2 ℝ)} {p : P2 ℝ} (hc : convexCheck vs = true)
    (hoff : onPolygon vs p = false) : isInsideRot vs p = leftOfAll vs p :=
  convex_isInsideRot_eq hc hoff

theorem onPolygon_false_iff (vs : List (P2 ℝ)) (p : P2 ℝ) :
    onPolygon vs p = false ↔ ∀ e ∈ edges vs, onSegment e.1 e.2 p = false := by
  unfold onPolygon; rw [List.any_eq_false]
  constructor
  · intro h e he; simpa using h e he
  · intro h e he; simpa using h e he

theorem onPolygon_reverse (vs : List (P2 ℝ)) (p : P2 ℝ) : onPolygon vs.reverse p = onPolygon vs p := by
  rw [Bool.eq_iff_iff]
  unfold onPolygon
  simp only [List.any_eq_true]
  constructor
  · rintro ⟨e, he, h⟩
    exact ⟨(e.2, e.1), (mem_edges_reverse vs e).mp he, by rw [onSegment_swap]; exact h⟩
  · rintro ⟨e, he, h⟩
    exact ⟨(e.2, e.1), (mem_edges_reverse vs (e.2, e.1)).mpr he, by rw [onSegment_swap]; exact h⟩

theorem leftOfAll_reverse (vs : List (P2 ℝ)) (p : P2 ℝ) : leftOfAll vs.reverse p = rightOfAll vs p := by
  rw [Bool.eq_iff_iff]
  unfold leftOfAll rightOfAll
  simp only [List.all_eq_true, decide_eq_true_eq, Scalar.lit, Scalar.ofNat_real, Nat.cast_zero]
  constructor
  · intro h e he
    have := h (e.2, e.1) ((mem_edges_reverse vs (e.2, e.1)).mpr he)
    simp only at this
    rw [orient_swap] at this; linarith
  · intro h e he
    have := h (e.2, e.1) ((mem_edges_reverse vs e).mp he)
    simp only at this
    rw [orient_swap] at this; linarith

/-- clockwise convex polygons: "strictly right of every directed edge" -/
theorem convex_inside_iff_cw {vs : List (P2 ℝ)} {p : P2 ℝ} (hc : convexCheck vs.reverse = true)
    (hoff : onPolygon vs p = false) : isInsideRot vs p = rightOfAll vs p := by
  rw [← isInside_reverse ((onPolygon_false_iff vs p).mp hoff), ← leftOfAll_reverse]
  exact convex_isInsideRot_eq hc (by rw [onPolygon_reverse]; exact hoff)

/-- either orientation: the interior of the convex polygon -/
theorem convex_inside_iff_any {vs : List (P2 ℝ)} {p : P2 ℝ}
    (hc : convexCheck vs = true ∨ convexCheck vs.reverse = true)
    (hoff : onPolygon vs p = false) : isInsideRot vs p = inConvex vs p := by
  unfold inConvex
  rcases hc with hc | hc
  · have h1 := convex_inside_iff hc hoff
    rw [h1]
    cases hl : leftOfAll vs p
    · rw [Bool.false_or]
      symm; rw [Bool.eq_false_iff]
      intro hr
      have hne : vs.reverse ≠ [] := by
        have := ((convexCheck_iff vs).mp hc).1
        simpa using this
      have h2 := (inside_of_leftOfAll hne (by rw [leftOfAll_reverse]; exact hr)).1
      rw [isInside_reverse ((onPolygon_false_iff vs p).mp hoff), h1, hl] at h2
      exact Bool.noConfusion h2
    · rfl
  · have h1 := convex_inside_iff_cw hc hoff
    rw [h1]
    cases hr : rightOfAll vs p
    · rw [Bool.or_false]
      symm; rw [Bool.eq_false_iff]
      intro hl
      have hne : vs ≠ [] := by
        have := ((convexCheck_iff vs.reverse).mp hc).1
        simpa using this
      have h2 := (inside_of_leftOfAll hne hl).1
      rw [h1, hr] at h2
      exact Bool.noConfusion h2
    · rw [Bool.or_true]


/-- **Convex polygons as the driver runs it** (exact ℚ on the polygon's own vertices): if
`convexCheck` accepts the vertex list (or its reverse) and the point is on no closed edge, the
model over ℝ and the model over ℚ both equal `inConvex` evaluated over ℚ.  No triangulation is
involved anywhere. -/
theorem convex_inside_certified {vs : List (P2 ℚ)} {p : P2 ℚ}
    (hc : (convexCheck vs || convexCheck vs.reverse) = true) (hoff : onPolygon vs p = false) :
    isInsideRot (vs.map castP) (castP p) = inConvex vs p ∧ isInsideRot vs p = inConvex vs p := by
  have hc' : convexCheck (vs.map castP) = true ∨ convexCheck (vs.map castP).reverse = true := by
    rw [Bool.or_eq_true] at hc
    rcases hc with h | h
    · left; rw [convexCheck_cast]; exact h
    · right; rw [← List.map_reverse, convexCheck_cast]; exact h
  have h := convex_inside_iff_any hc' (by rw [onPolygon_cast]; exact hoff)
  have e : inConvex (vs.map castP) (castP p) = inConvex vs p := by
    unfold inConvex; rw [leftOfAll_cast, rightOfAll_cast]
  rw [e] at h
  exact ⟨h, by rw [← isInsideRot_cast]; exact h⟩

/-- a hexagon whose centre lies on all three long diagonals — no triangulation without Steiner
    points has the centre off its edges, yet the convex theorem applies (both orientations) -/
def hexQ : List (P2 Rat) := [⟨2, 0⟩, ⟨1, 2⟩, ⟨-1, 2⟩, ⟨-2, 0⟩, ⟨-1, -2⟩, ⟨1, -2⟩]

example : isInsideRot (hexQ.map castP) (castP ⟨0, 0⟩) = true ∧
    isInsideRot (hexQ.reverse.map castP) (castP ⟨0, 0⟩) = true ∧
    isInsideRot (hexQ.map castP) (castP ⟨3, 0⟩) = false ∧          -- on the line of no edge
    isInsideRot (hexQ.map castP) (castP ⟨0, 4⟩) = false ∧          -- on the lines of two edges
    isInsideRot (hexQ.map castP) (castP ⟨3, 2⟩) = false :=         -- on the line of the top edge
  ⟨(convex_inside_certified (vs := hexQ) (p := ⟨0, 0⟩) (by decide +kernel) (by decide +kernel)).1.trans (by decide +kernel),
   (convex_inside_certified (vs := hexQ.reverse) (p := ⟨0, 0⟩) (by decide +kernel) (by decide +kernel)).1.trans (by decide +kernel),
   (convex_inside_certified (vs := hexQ) (p := ⟨3, 0⟩) (by decide +kernel) (by decide +kernel)).1.trans (by decide +kernel),
   (convex_inside_certified (vs := hexQ) (p := ⟨0, 4⟩) (by decide +kernel) (by decide +kernel)).1.trans (by decide +kernel),
   (convex_inside_certified (vs := hexQ) (p := ⟨3, 2⟩) (by decide +kernel) (by decide +kernel)).1.trans (by decide +kernel)⟩

/-- the concave L hexagon is rejected by the convexity checker, in both orientations -/
example : convexCheck ellShapeQ = false ∧ convexCheck ellShapeQ.reverse = false := by decide +kernel

/-! ### the rotation into the `xy` plane: the answer is intrinsic -/

/-- 3-D triangle ↦ its image in the rotated frame -/
abbrev projP (R : M3 ℝ) (v : V3 ℝ) : P2 ℝ := proj (rotate R v)

/-- **C06, polygons embedded in any plane of 3-space.**  `R` is ANY matrix satisfying the Kabsch
contract for the stored normal `n` (`RᵀR = 1`, `det R = 1`, `R n = ẑ`); `Ts` is a triangulation in
space whose boundary chain is the polygon, consistently oriented as seen along `n`; `p` projects
onto none of the triangles' closed edges.  Then the model of `Polygon.is_inside` (rotate vertices
and point with `R`, drop `z`, winding number) returns the INTRINSIC membership `inRegion3 n Ts p` —
whatever admissible `R` Kabsch produced, for normals `+ẑ`, `−ẑ` (clockwise vertices, reflex first
corner, explicit normal) or tilted. -/
theorem polygon_inside3_iff {R : M3 ℝ} {n : V3 ℝ} (hR : IsFrame R n) {verts : List (V3 ℝ)}
    {Ts : List (Tri3 ℝ)} {p : V3 ℝ}
    (hchain : EdgeChainEq3 (edges verts) (Ts.flatMap Tri3.bdry))
    (hor : (∀ t ∈ Ts, 0 < orient3 n t.a t.b t.c) ∨ (∀ t ∈ Ts, orient3 n t.a t.b t.c < 0))
    (hoff : ∀ t ∈ Ts, onBoundary3 n t p = false) :
    Polygon.isInside R verts [p] = [inRegion3 n Ts p] := by
  rw [polygon_isInside_eq_map]
  simp only [List.map_cons, List.map_nil, List.cons.injEq, and_true]
  rw [← inRegion_rotate hR]
  apply polygon_inside_iff
  · have h := hchain.project (projP R)
    rw [flatMap_bdry_project] at h
    have e : edges (verts.map fun v => proj (rotate R v)) =
        (edges verts).map fun e => (projP R e.1, projP R e.2) := edges_map _ _
    rw [e]; exact h
  · rcases hor with h | h
    · left; intro t ht
      obtain ⟨s, hs, rfl⟩ := List.mem_map.mp ht
      show 0 < orient (projP R s.a) (projP R s.b) (projP R s.c)
      rw [orient_rotate hR]; exact h s hs
    · right; intro t ht
      obtain ⟨s, hs, rfl⟩ := List.mem_map.mp ht
      show orient (projP R s.a) (projP R s.b) (projP R s.c) < 0
      rw [orient_rotate hR]; exact h s hs
  · intro t ht
    obtain ⟨s, hs, rfl⟩ := List.mem_map.mp ht
    rw [onBoundary_rotate hR]; exact hoff s hs

/-- **The answer does not depend on the frame Kabsch returns, nor on the sign of the stored
normal**: two frames, one for `n` and one for `−n` (or both for `n`), give the same result. -/
theorem polygon_inside_frame_indep {R R' : M3 ℝ} {n : V3 ℝ} (hR : IsFrame R n)
    (hR' : IsFrame R' n ∨ IsFrame R' (-n)) {verts : List (V3 ℝ)} {Ts : List (Tri3 ℝ)} {p : V3 ℝ}
    (hchain : EdgeChainEq3 (edges verts) (Ts.flatMap Tri3.bdry))
    (hor : (∀ t ∈ Ts, 0 < orient3 n t.a t.b t.c) ∨ (∀ t ∈ Ts, orient3 n t.a t.b t.c < 0))
    (hoff : ∀ t ∈ Ts, onBoundary3 n t p = false) :
    Polygon.isInside R verts [p] = Polygon.isInside R' verts [p] := by
  rw [polygon_inside3_iff hR hchain hor hoff]
  rcases hR' with h | h
  · rw [polygon_inside3_iff h hchain hor hoff]
  · have hor' : (∀ t ∈ Ts, 0 < orient3 (-n) t.a t.b t.c) ∨ (∀ t ∈ Ts, orient3 (-n) t.a t.b t.c < 0) := by
      rcases hor with h1 | h1
      · right; intro t ht; rw [orient3_neg]; linarith [h1 t ht]
      · left; intro t ht; rw [orient3_neg]; linarith [h1 t ht]
    have hoff' : ∀ t ∈ Ts, onBoundary3 (-n) t p = false := by
      intro t ht
      have := hoff t ht
      unfold onBoundary3 onSegment3 dot3 at this ⊢
      simp only [orient3_neg, eqb_real, Scalar.lit, Scalar.ofNat_real, Nat.cast_zero, neg_eq_zero] at this ⊢
      have e : ∀ u v : V3 ℝ, V3.dot (-n) u * V3.dot (-n) v = V3.dot n u * V3.dot n v := by
        intro u v; unfold V3.dot; simp only [V3.neg_x, V3.neg_y, V3.neg_z]; ring
      simp only [e]; exact this
    rw [polygon_inside3_iff h hchain hor' hoff', inRegion3_neg]

/-- `(N,2)` points are the points `(x, y, 0)` of space, whatever the polygon's plane and normal -/
theorem polygon_inside2_iff {R : M3 ℝ} {n : V3 ℝ} (hR : IsFrame R n) {verts : List (V3 ℝ)}
    {Ts : List (Tri3 ℝ)} {q : P2 ℝ}
    (hchain : EdgeChainEq3 (edges verts) (Ts.flatMap Tri3.bdry))
    (hor : (∀ t ∈ Ts, 0 < orient3 n t.a t.b t.c) ∨ (∀ t ∈ Ts, orient3 n t.a t.b t.c < 0))
    (hoff : ∀ t ∈ Ts, onBoundary3 n t ⟨q.x, q.y, 0⟩ = false) :
    Polygon.isInside2 R verts [q] = [inRegion3 n Ts ⟨q.x, q.y, 0⟩] := by
  rw [polygon_isInside2_eq]
  exact polygon_inside3_iff hR hchain hor hoff

/-- the two matrices Kabsch returns for the normals `+ẑ` and `−ẑ` are frames -/
theorem frame_plus_z : IsFrame (⟨1, 0, 0, 0, 1, 0, 0, 0, 1⟩ : M3 ℝ) ⟨0, 0, 1⟩ := by
  refine ⟨⟨?_, ?_, ?_, ?_, ?_, ?_⟩, ?_, ?_⟩ <;> norm_num [det3, rotate]
theorem frame_minus_z : IsFrame (⟨-1, 0, 0, 0, 1, 0, 0, 0, -1⟩ : M3 ℝ) ⟨0, 0, -1⟩ := by
  refine ⟨⟨?_, ?_, ?_, ?_, ?_, ?_⟩, ?_, ?_⟩ <;> norm_num [det3, rotate]

/-- the normal `Polygon.__init__` computes from the first three vertices of a polygon in the
plane `z = const` is `(0, 0, orient v₀ v₁ v₂)`: it points to `−ẑ` exactly when the first corner
turns right (clockwise vertices, or a reflex first corner of a counter-clockwise polygon) -/
theorem normalDir_planar (a b c : P2 ℝ) (z : ℝ) :
    Polygon.normalDir ⟨a.x, a.y, z⟩ ⟨b.x, b.y, z⟩ ⟨c.x, c.y, z⟩ = ⟨0, 0, orient a b c⟩ := by
  unfold Polygon.normalDir V3.cross orient
  ext
  · simp
  · simp
  · simp; ring

/-- the unit square in the plane `z = 2` seen with the normal `−ẑ`: hypotheses of
    `polygon_inside3_iff` are satisfiable (chain by cancellation of the diagonal) -/
def sq3 : List (V3 ℝ) := [⟨0, 0, 2⟩, ⟨1, 0, 2⟩, ⟨1, 1, 2⟩, ⟨0, 1, 2⟩]
def sq3Ts : List (Tri3 ℝ) := [⟨⟨0, 0, 2⟩, ⟨1, 0, 2⟩, ⟨1, 1, 2⟩⟩, ⟨⟨0, 0, 2⟩, ⟨1, 1, 2⟩, ⟨0, 1, 2⟩⟩]

theorem sq3_chain : EdgeChainEq3 (edges sq3) (sq3Ts.flatMap Tri3.bdry) := by
  intro G _ φ hφ
  simp only [sq3, sq3Ts, edges, roll, Tri3.bdry, List.zip_cons_cons, List.zip_nil_right,
    List.cons_append, List.nil_append, List.flatMap_cons, List.flatMap_nil, List.append_nil,
    esum_cons, esum_nil]
  rw [hφ ⟨0, 0, 2⟩ ⟨1, 1, 2⟩]; abel

example : Polygon.isInside ⟨-1, 0, 0, 0, 1, 0, 0, 0, -1⟩ sq3 [⟨1/2, 1/3, 2⟩] =
    [inRegion3 ⟨0, 0, -1⟩ sq3Ts ⟨1/2, 1/3, 2⟩] :=
  polygon_inside3_iff frame_minus_z sq3_chain (Or.inr (by
    intro t ht
    simp only [sq3Ts, List.mem_cons, List.not_mem_nil, or_false] at ht
    rcases ht with rfl | rfl <;> norm_num [orient3, V3.dot, V3.cross])) (by
    intro t ht
    simp only [sq3Ts, List.mem_cons, List.not_mem_nil, or_false] at ht
    rcases ht with rfl | rfl <;>
      simp only [onBoundary3, onSegment3, orient3, dot3, V3.dot, V3.cross, eqb_real, Scalar.lit,
        Scalar.ofNat_real, V3.sub_x, V3.sub_y, V3.sub_z] <;> norm_num)

/-! ### argument handling of `is_inside` -/

/-- `(N,3)` input: the rows are the points -/
theorem polygon_arg_N3 (R : M3 ℝ) (verts : List (V3 ℝ)) (rows : List (List ℝ)) :
    Polygon.isInsideArg R verts ⟨3, rows⟩ = .ok (Polygon.isInside R verts (rows.map Polygon.rowV3)) := rfl

/-- `(N,2)` input: padded with `z = 0`, then rotated like every other point -/
theorem polygon_arg_N2 (R : M3 ℝ) (verts : List (V3 ℝ)) (rows : List (List ℝ)) :
    Polygon.isInsideArg R verts ⟨2, rows⟩ =
      .ok (Polygon.isInside R verts (rows.map fun r => ⟨(Polygon.rowP2 r).x, (Polygon.rowP2 r).y, 0⟩)) := by
  unfold Polygon.isInsideArg
  simp only [if_true]
  rw [polygon_isInside2_eq, List.map_map]; rfl

/-- any other width raises `ValueError` -/
theorem polygon_arg_other (R : M3 ℝ) (verts : List (V3 ℝ)) (w : Nat) (rows : List (List ℝ))
    (h2 : w ≠ 2) (h3 : w ≠ 3) : Polygon.isInsideArg R verts ⟨w, rows⟩ = .error "ValueError" := by
  unfold Polygon.isInsideArg; simp only [h2, h3, if_false]

/-- a single `(3,)` or `(2,)` point is the batch of one; a batch is the map of the single-point
    answers (in particular the order and number of results is that of the rows) -/
theorem polygon_arg_batch (R : M3 ℝ) (verts : List (V3 ℝ)) (rows : List (List ℝ)) :
    Polygon.isInsideArg R verts ⟨3, rows⟩ =
      .ok (rows.map fun r => isInsideRot (verts.map fun v => proj (rotate R v))
        (proj (rotate R (Polygon.rowV3 r)))) := by
  rw [polygon_arg_N3, polygon_isInside_eq_map, List.map_map]; rfl

theorem circle_arg_N3 (r : ℝ) (c : V3 ℝ) (rows : List (List ℝ)) :
    Circle.isInsideArg r c ⟨3, rows⟩ = .ok (rows.map fun row => Circle.isInside1 r c (Polygon.rowV3 row)) := by
  unfold Circle.isInsideArg Circle.isInside; simp only [if_true, List.map_map]; rfl

/-- `(N,2)` points are NOT accepted by circles and ellipses (broadcasting `(N,2) − (3,)` fails) -/
theorem circle_arg_N2 (r : ℝ) (c : V3 ℝ) (rows : List (List ℝ)) :
    Circle.isInsideArg r c ⟨2, rows⟩ = .error "ValueError" := rfl
theorem ellipse_arg_N2 (a b : ℝ) (c : V3 ℝ) (rows : List (List ℝ)) :
    Ellipse.isInsideArg a b c ⟨2, rows⟩ = .error "ValueError" := rfl
theorem ellipse_arg_N3 (a b : ℝ) (c : V3 ℝ) (rows : List (List ℝ)) :
    Ellipse.isInsideArg a b c ⟨3, rows⟩ =
      .ok (rows.map fun row => Ellipse.isInside1 a b c (Polygon.rowV3 row)) := by
  unfold Ellipse.isInsideArg Ellipse.isInside; simp only [if_true, List.map_map]; rfl

/-- a point further than `max(a, b) / 10⁸` from the ellipse's plane is never inside, and within
    the window the centre enters only through `p − c` (`ellipse_in_window`) -/
theorem ellipse_out_of_plane (a b : ℝ) (c p : V3 ℝ) (hz : Max.max a b / 100000000 < |p.z - c.z|) :
    Ellipse.isInside1 a b c p = false := by
  rw [Bool.eq_false_iff, Ne, ellipse_window]
  rintro ⟨_, _, h⟩; linarith

/-- translation covariance of the coded ellipse test (centre handling): moving centre and point
    together changes nothing -/
theorem ellipse_translate (a b : ℝ) (c p t : V3 ℝ) :
    Ellipse.isInside1 a b (c + t) (p + t) = Ellipse.isInside1 a b c p :=
  ellipse_isInside1_translate a b c p t

theorem circle_translate (r : ℝ) (c p t : V3 ℝ) :
    Circle.isInside1 r (c + t) (p + t) = Circle.isInside1 r c p :=
  circle_isInside1_translate r c p t

/-- **Scale covariance of `Ellipse.is_inside`** (box test and out-of-plane switch): semi-axes,
    centre and point scaled by `k > 0` give the same answer, for every point of space -/
theorem ellipse_scale {k : ℝ} (hk : 0 < k) (a b : ℝ) (c p : V3 ℝ) :
    Ellipse.isInside1 (k * a) (k * b) (V3.smul k c) (V3.smul k p) = Ellipse.isInside1 a b c p :=
  ellipse_isInside1_scale hk a b c p

/-- batches inherit both covariances -/
theorem circle_batch_scale {k : ℝ} (hk : 0 < k) (r : ℝ) (c : V3 ℝ) (pts : List (V3 ℝ)) :
    Circle.isInside (k * r) (V3.smul k c) (pts.map (V3.smul k)) = Circle.isInside r c pts := by
  unfold Circle.isInside
  rw [List.map_map]
  exact List.map_congr_left fun p _ => circle_isInside1_scale hk r c p

theorem ellipse_batch_scale {k : ℝ} (hk : 0 < k) (a b : ℝ) (c : V3 ℝ) (pts : List (V3 ℝ)) :
    Ellipse.isInside (k * a) (k * b) (V3.smul k c) (pts.map (V3.smul k)) = Ellipse.isInside a b c pts := by
  unfold Ellipse.isInside
  rw [List.map_map]
  exact List.map_congr_left fun p _ => ellipse_isInside1_scale hk a b c p

/-! ### points exactly on the boundary (tie rule of the model; the property is silent there) -/

/-- both edges meeting at a vertex contribute `0` when the query point IS that vertex -/
theorem vertex_terms_vanish (p a b : P2 ℝ) : halfTurn p a p = 0 ∧ halfTurn p p b = 0 :=
  ⟨halfTurn_vertex_end p a, halfTurn_vertex_start p b⟩

/-- an edge whose line contains the query point contributes `0` -/
theorem collinear_term_vanishes {p a b : P2 ℝ} (h : orient a b p = 0) : halfTurn p a b = 0 :=
  halfTurn_on_line h

/-- **tie rule on an open edge, counter-clockwise triangle:** the sum is `+1`, `1 // 2 = 0`:
    reported OUTSIDE -/
theorem on_edge_ccw_false {a b c p : P2 ℝ} (hpos : 0 < orient a b c) (hcol : orient a b p = 0)
    (hin : dot2 a b p < 0) : halfTurnSum [a, b, c] p = 1 ∧ isInsideRot [a, b, c] p = false := by
  have h := triangle_on_edge_sum hpos hcol hin
  have hs : halfTurnSum [a, b, c] p = 1 := by
    unfold halfTurnSum edges roll
    simp only [List.cons_append, List.nil_append, List.zip_cons_cons, List.zip_nil_right, List.map_cons,
      List.map_nil, List.sum_cons, List.sum_nil]
    omega
  refine ⟨hs, ?_⟩
  unfold isInsideRot windingNumber; rw [hs]; decide

/-- **tie rule on an open edge, clockwise triangle:** the sum is `−1`, `−1 // 2 = −1 ≠ 0`
    (floor division): reported INSIDE.  So the docstring's "points on the boundary return False"
    holds only for polygons that are counter-clockwise in the rotated frame. -/
theorem on_edge_cw_true {a b c p : P2 ℝ} (hpos : 0 < orient a b c) (hcol : orient a b p = 0)
    (hin : dot2 a b p < 0) : halfTurnSum [a, c, b] p = -1 ∧ isInsideRot [a, c, b] p = true := by
  have h := triangle_on_edge_sum_neg hpos hcol hin
  have hs : halfTurnSum [a, c, b] p = -1 := by
    unfold halfTurnSum edges roll
    simp only [List.cons_append, List.nil_append, List.zip_cons_cons, List.zip_nil_right, List.map_cons,
      List.map_nil, List.sum_cons, List.sum_nil]
    omega
  refine ⟨hs, ?_⟩
  unfold isInsideRot windingNumber; rw [hs]; decide

/-- **tie rule on an open boundary edge of a triangulated polygon** (counter-clockwise): if the
edge `(a, b)` carrying the point belongs to the triangle `⟨a, b, c⟩` and the point is on no closed
edge of the OTHER triangles, the half-turn sum is `1 + 2·count`, so the model answers `False`
unless another triangle contains the point (impossible for a genuine triangulation). -/
theorem polygon_on_edge_ccw {vs : List (P2 ℝ)} {Ts : List (Tri2 ℝ)} {a b c p : P2 ℝ}
    (hchain : EdgeChainEq2 (edges vs) ((⟨a, b, c⟩ :: Ts).flatMap Tri2.bdry))
    (hpos0 : 0 < orient a b c) (hpos : ∀ t ∈ Ts, 0 < orient t.a t.b t.c)
    (hcol : orient a b p = 0) (hin : dot2 a b p < 0)
    (hoff : ∀ t ∈ Ts, onBoundary t p = false) :
    halfTurnSum vs p = 1 + 2 * (count Ts p : Int) ∧ isInsideRot vs p = inRegion Ts p := by
  have hs : halfTurnSum vs p = 1 + 2 * (count Ts p : Int) := by
    rw [winding2_additive p hchain, List.map_cons, List.sum_cons, triangle_on_edge_sum hpos0 hcol hin,
      ← sum_ite_count]
    congr 2
    exact List.map_congr_left fun t ht => winding_triangle t p (hpos t ht) (hoff t ht)
  refine ⟨hs, ?_⟩
  rw [Bool.eq_iff_iff, inRegion_iff_count]
  unfold isInsideRot windingNumber
  rw [hs, Int.fdiv_eq_ediv_of_nonneg _ (by decide)]
  simp only [bne_iff_ne, ne_eq]
  omega

/-- the clockwise counterpart: the sum is `−1 − 2·count`, the model answers `True` -/
theorem polygon_on_edge_cw {vs : List (P2 ℝ)} {Ts : List (Tri2 ℝ)} {a b c p : P2 ℝ}
    (hchain : EdgeChainEq2 (edges vs) ((⟨a, c, b⟩ :: Ts).flatMap Tri2.bdry))
    (hpos0 : 0 < orient a b c) (hneg : ∀ t ∈ Ts, orient t.a t.b t.c < 0)
    (hcol : orient a b p = 0) (hin : dot2 a b p < 0)
    (hoff : ∀ t ∈ Ts, onBoundary t p = false) :
    halfTurnSum vs p = -1 - 2 * (count Ts p : Int) ∧ isInsideRot vs p = true := by
  have hs : halfTurnSum vs p = -1 - 2 * (count Ts p : Int) := by
    rw [winding2_additive p hchain, List.map_cons, List.sum_cons,
      triangle_on_edge_sum_neg hpos0 hcol hin]
    have : (Ts.map fun t => halfTurn p t.a t.b + halfTurn p t.b t.c + halfTurn p t.c t.a).sum =
        -2 * (count Ts p : Int) := by
      rw [← sum_ite_count]
      congr 1
      exact List.map_congr_left fun t ht => winding_triangle_neg t p (hneg t ht) (hoff t ht)
    rw [this]; ring
  refine ⟨hs, ?_⟩
  unfold isInsideRot windingNumber
  rw [hs, Int.fdiv_eq_ediv_of_nonneg _ (by decide)]
  simp only [bne_iff_ne, ne_eq]
  omega

/-- exact evaluations: boundary points of the unit square in both orientations, and a vertex -/
example : isInsideRot unitSquareQ ⟨1, 1/2⟩ = false ∧ isInsideRot unitSquareQ.reverse ⟨1, 1/2⟩ = true ∧
    isInsideRot unitSquareQ ⟨1/2, 0⟩ = false ∧ isInsideRot unitSquareQ.reverse ⟨1/2, 0⟩ = true ∧
    isInsideRot unitSquareQ ⟨0, 0⟩ = false ∧ isInsideRot unitSquareQ.reverse ⟨0, 0⟩ = false ∧
    isInsideRot unitSquareQ ⟨1, 1⟩ = false ∧ isInsideRot unitSquareQ.reverse ⟨1, 1⟩ = false := by
  decide +kernel

example : (0 : ℝ) < orient (⟨0, 0⟩ : P2 ℝ) ⟨4, 0⟩ ⟨0, 4⟩ ∧ orient (⟨0, 0⟩ : P2 ℝ) ⟨4, 0⟩ ⟨1, 0⟩ = 0 ∧
    dot2 (⟨0, 0⟩ : P2 ℝ) ⟨4, 0⟩ ⟨1, 0⟩ < 0 := by
  refine ⟨?_, ?_, ?_⟩ <;> norm_num [orient, dot2]


/-! ### winding number and the even–odd rule (any closed polygon) -/

/-- **The winding number computed by `Polygon.is_inside` and the crossing number of the even–odd
rule have the same parity** — for EVERY closed polygon (simple or not, any orientation) and every
point off its closed edges.  No triangulation. -/
theorem winding_parity_crossing {vs : List (P2 ℝ)} {p : P2 ℝ} (hoff : onPolygon vs p = false) :
    windingNumber vs p % 2 = (crossNumber vs p : Int) % 2 := by
  obtain ⟨k, hk⟩ := halfTurnSum_crossNumber ((onPolygon_false_iff vs p).mp hoff)
  unfold windingNumber
  rw [hk, Int.fdiv_eq_ediv_of_nonneg _ (by decide)]
  omega

/-- hence, whenever the winding number is `−1`, `0` or `1` (as it is for every simple polygon; a
condition on the model's own integer output that the driver evaluates per point), the model's
answer IS the even–odd rule. -/
theorem inside_eq_evenOdd {vs : List (P2 ℝ)} {p : P2 ℝ} (hoff : onPolygon vs p = false)
    (hsmall : -1 ≤ windingNumber vs p ∧ windingNumber vs p ≤ 1) :
    isInsideRot vs p = evenOdd vs p := by
  have h := winding_parity_crossing hoff
  unfold isInsideRot evenOdd
  rw [Bool.eq_iff_iff]
  simp only [bne_iff_ne, ne_eq, beq_iff_eq]
  omega

/-- the same as the driver runs it (exact ℚ on the polygon's own vertices) -/
theorem inside_eq_evenOdd_certified {vs : List (P2 ℚ)} {p : P2 ℚ} (hoff : onPolygon vs p = false)
    (hsmall : -1 ≤ windingNumber vs p ∧ windingNumber vs p ≤ 1) :
    isInsideRot (vs.map castP) (castP p) = evenOdd vs p ∧ isInsideRot vs p = evenOdd vs p := by
  have hw : windingNumber (vs.map castP) (castP p) = windingNumber vs p := by
    unfold windingNumber; rw [halfTurnSum_cast]
  have h := inside_eq_evenOdd (vs := vs.map castP) (p := castP p) (by rw [onPolygon_cast]; exact hoff)
    (by rw [hw]; exact hsmall)
  rw [evenOdd_cast] at h
  exact ⟨h, by rw [← isInsideRot_cast]; exact h⟩

example : isInsideRot (ellShapeQ.map castP) (castP ⟨1, 1/2⟩) = evenOdd ellShapeQ ⟨1, 1/2⟩ ∧
    evenOdd ellShapeQ ⟨1, 1/2⟩ = true ∧ evenOdd ellShapeQ ⟨3/2, 3/2⟩ = false :=
  ⟨(inside_eq_evenOdd_certified (vs := ellShapeQ) (p := ⟨1, 1/2⟩) (by decide +kernel) (by decide +kernel)).1,
   by decide +kernel, by decide +kernel⟩

/-- a doubly wound square (winding number 2, crossing number 2): the parity statement holds, the
    model says "inside", the even–odd rule says "outside" — the hypothesis `|winding| ≤ 1` of
    `inside_eq_evenOdd` cannot be dropped -/
example : windingNumber (unitSquareQ ++ unitSquareQ) ⟨1/2, 1/3⟩ = 2 ∧
    crossNumber (unitSquareQ ++ unitSquareQ) ⟨1/2, 1/3⟩ = 2 ∧
    isInsideRot (unitSquareQ ++ unitSquareQ) ⟨1/2, 1/3⟩ = true ∧
    evenOdd (unitSquareQ ++ unitSquareQ) ⟨1/2, 1/3⟩ = false := by decide +kernel


/-! ### polygons parallel to the `xy` plane, either normal, any admissible frame, `(N,3)` and `(N,2)`
    points — with the driver-checked certificate -/

/-- the point `(x, y, z₀)` of the plane `z = z₀` -/
def liftZ (z0 : ℝ) (q : P2 ℝ) : V3 ℝ := ⟨q.x, q.y, z0⟩
def liftT (z0 : ℝ) (t : Tri2 ℝ) : Tri3 ℝ := ⟨liftZ z0 t.a, liftZ z0 t.b, liftZ z0 t.c⟩

theorem chain_lift {E F : List Edge2} (h : EdgeChainEq2 E F) (g : P2 ℝ → V3 ℝ) :
    EdgeChainEq3 (E.map fun e => (g e.1, g e.2)) (F.map fun e => (g e.1, g e.2)) := by
  intro G _ φ hφ
  have := h G (fun e => φ (g e.1, g e.2)) (fun a b => hφ (g a) (g b))
  simpa [esum, List.map_map, Function.comp_def] using this

theorem flatMap_bdry_lift (z0 : ℝ) (Ts : List (Tri2 ℝ)) :
    (Ts.flatMap Tri2.bdry).map (fun e => (liftZ z0 e.1, liftZ z0 e.2)) =
      (Ts.map (liftT z0)).flatMap Tri3.bdry := by
  induction Ts with
  | nil => rfl
  | cons T Ts ih =>
    simp only [List.flatMap_cons, List.map_append, List.map_cons, ih]
    rfl

theorem orient3_lift (s z0 : ℝ) (a b p : P2 ℝ) :
    orient3 ⟨0, 0, s⟩ (liftZ z0 a) (liftZ z0 b) (liftZ z0 p) = s * orient a b p := by
  unfold orient3 orient liftZ V3.dot V3.cross
  simp only [V3.sub_x, V3.sub_y, V3.sub_z]; ring

theorem dot3_lift (s z0 : ℝ) (a b p : P2 ℝ) :
    dot3 ⟨0, 0, s⟩ (liftZ z0 a) (liftZ z0 b) (liftZ z0 p) = dot2 a b p := by
  unfold dot3 dot2 liftZ V3.dot
  simp only [V3.sub_x, V3.sub_y, V3.sub_z]; ring

theorem inTriangle3_lift {s : ℝ} (hs : s = 1 ∨ s = -1) (z0 : ℝ) (t : Tri2 ℝ) (p : P2 ℝ) :
    inTriangle3 ⟨0, 0, s⟩ (liftT z0 t) (liftZ z0 p) = inTriangle t p := by
  unfold inTriangle3 inTriangle liftT
  simp only [orient3_lift, Scalar.lit, Scalar.ofNat_real, Nat.cast_zero]
  rcases hs with rfl | rfl
  · simp only [one_mul]
  · simp only [neg_mul, one_mul, Left.neg_pos_iff, Left.neg_neg_iff]
    rw [Bool.or_comm]

theorem onBoundary3_lift {s : ℝ} (hs : s = 1 ∨ s = -1) (z0 : ℝ) (t : Tri2 ℝ) (p : P2 ℝ) :
    onBoundary3 ⟨0, 0, s⟩ (liftT z0 t) (liftZ z0 p) = onBoundary t p := by
  unfold onBoundary3 onBoundary onSegment3 onSegment liftT
  simp only [orient3_lift, dot3_lift, eqb_real, Scalar.lit, Scalar.ofNat_real, Nat.cast_zero]
  rcases hs with rfl | rfl
  · simp only [one_mul]
  · simp only [neg_mul, one_mul, neg_eq_zero]

/-- **C06 for polygons parallel to the `xy` plane, as the driver certifies it.**  `vs`, `Ts`, `p`
are the exact rational in-plane coordinates; `certCheck` / `offCheck` are the computable checkers
(run over ℚ); the polygon lies in the plane `z = z₀`; the stored normal is `(0, 0, s)` with
`s = ±1` (`−1`: clockwise vertices, reflex first corner or an explicit opposite normal); `R` is ANY
matrix satisfying the Kabsch contract for that normal.  Then `Polygon.is_inside` on the `(N,3)`
point `(p, z₀)` returns the exact membership `inRegion Ts p`. -/
theorem polygon_inside_xy_certified {vs : List (P2 ℚ)} {Ts : List (Tri2 ℚ)} {p : P2 ℚ}
    (hc : certCheck vs Ts = true) (ho : offCheck Ts p = true) (z0 : ℝ) {s : ℝ} (hs : s = 1 ∨ s = -1)
    {R : M3 ℝ} (hR : IsFrame R ⟨0, 0, s⟩) :
    Polygon.isInside R (vs.map fun v => liftZ z0 (castP v)) [liftZ z0 (castP p)] = [inRegion Ts p] := by
  unfold certCheck at hc
  rw [Bool.and_eq_true] at hc
  have hchain := chainCheck_sound_rat hc.1
  have hor := orientedCheck_sound_rat hc.2
  have hoff := offCheck_sound_rat ho
  have h3 := polygon_inside3_iff hR (verts := vs.map fun v => liftZ z0 (castP v))
    (Ts := (Ts.map castT).map (liftT z0)) (p := liftZ z0 (castP p))
    (by
      have h := chain_lift hchain (liftZ z0)
      rw [flatMap_bdry_lift] at h
      have e : edges (vs.map fun v => liftZ z0 (castP v)) =
          (edges (vs.map castP)).map fun e => (liftZ z0 e.1, liftZ z0 e.2) := by
        rw [← edges_map (liftZ z0), List.map_map]; rfl
      rw [e]; exact h)
    (by
      have sgn : ∀ t : Tri2 ℝ, orient3 ⟨0, 0, s⟩ (liftT z0 t).a (liftT z0 t).b (liftT z0 t).c =
          s * orient t.a t.b t.c := fun t => orient3_lift s z0 t.a t.b t.c
      rcases hs with rfl | rfl
      · rcases hor with h | h
        · left; intro t ht; obtain ⟨u, hu, rfl⟩ := List.mem_map.mp ht; rw [sgn]; linarith [h u hu]
        · right; intro t ht; obtain ⟨u, hu, rfl⟩ := List.mem_map.mp ht; rw [sgn]; linarith [h u hu]
      · rcases hor with h | h
        · right; intro t ht; obtain ⟨u, hu, rfl⟩ := List.mem_map.mp ht; rw [sgn]; linarith [h u hu]
        · left; intro t ht; obtain ⟨u, hu, rfl⟩ := List.mem_map.mp ht; rw [sgn]; linarith [h u hu])
    (by
      intro t ht
      obtain ⟨u, hu, rfl⟩ := List.mem_map.mp ht
      rw [onBoundary3_lift hs]; exact hoff u hu)
  rw [h3]
  congr 1
  unfold inRegion3
  rw [List.any_map]
  have : ((fun t => inTriangle3 ⟨0, 0, s⟩ t (liftZ z0 (castP p))) ∘ liftT z0) =
      fun t => inTriangle t (castP p) := by
    funext t; exact inTriangle3_lift hs z0 t (castP p)
  rw [this]
  exact inRegion_cast Ts p

/-- … and `(N,2)` points `(x, y)` are the points `(x, y, 0)`: for a polygon in the plane `z = 0`
with either normal the `(N,2)` call returns the exact membership too (this is the statement that
fails if the `(N,2)` path skips the rotation: for `s = −1` every admissible `R` mirrors `x`). -/
theorem polygon_inside_xy_N2_certified {vs : List (P2 ℚ)} {Ts : List (Tri2 ℚ)} {p : P2 ℚ}
    (hc : certCheck vs Ts = true) (ho : offCheck Ts p = true) {s : ℝ} (hs : s = 1 ∨ s = -1)
    {R : M3 ℝ} (hR : IsFrame R ⟨0, 0, s⟩) :
    Polygon.isInside2 R (vs.map fun v => liftZ 0 (castP v)) [castP p] = [inRegion Ts p] := by
  rw [polygon_isInside2_eq]
  exact polygon_inside_xy_certified hc ho 0 hs hR

example : Polygon.isInside2 ⟨-1, 0, 0, 0, 1, 0, 0, 0, -1⟩ (ellShapeQ.map fun v => liftZ 0 (castP v))
    [castP ⟨3/2, 1/2⟩] = [true] :=
  (polygon_inside_xy_N2_certified (vs := ellShapeQ) (Ts := ellShapeTsQ) (p := ⟨3/2, 1/2⟩)
    (by decide +kernel) (by decide +kernel) (Or.inr rfl) frame_minus_z).trans (by
      congr 1; decide +kernel)

end
