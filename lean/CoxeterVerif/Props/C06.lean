import CoxeterVerif.Lemmas.Winding2D
/-!
  # C06 — 2-D point containment equals exact membership

  `vs` : the polygon's vertices in the rotated (`xy`) frame, any number, either orientation;
  `Ts` : ANY triangulation of the region whose boundary chain is the polygon (`EdgeChainEq`;
         interior Steiner points allowed), all triangles oriented alike;
  `p`  : the query point, on none of the closed edges of the triangles (in particular not on
         the polygon's boundary).
  Then the model of `Polygon.is_inside` (half-plane classes with the `x = 0` tie rule, crossing
  indicators, edge signs, `Σ // 2 ≠ 0`) returns exactly "p is strictly inside one of the triangles".
  All statements are over ℝ and unbounded in the number of vertices / triangles / points.
-/
open Inside2D Inside2D.Polygon Spec.In2D Scalar
set_option maxRecDepth 4000
noncomputable section

/-! ### the half-turn term: antisymmetry, additivity, reversal, rotation of the start vertex -/

/-- the functional `e ↦ half_turn[e, p]` on directed edges -/
def htPhi (p : P2 ℝ) (e : Edge2) : Int := halfTurn p e.1 e.2

/-- **Antisymmetry.** Reversing an edge negates its half-turn term. -/
theorem halfTurn_antisymm (p a b : P2 ℝ) : halfTurn p b a = -halfTurn p a b := halfTurn_swap p a b

theorem htPhi_odd (p : P2 ℝ) : OddEdge (htPhi p) := fun a b => halfTurn_swap p a b

theorem halfTurnSum_eq_esum (vs : List (P2 ℝ)) (p : P2 ℝ) :
    halfTurnSum vs p = esum (htPhi p) (edges vs) := rfl

example : OddEdge (htPhi ⟨1/2, 1/3⟩) := htPhi_odd _

/-- **Additivity over a triangulation** (edge cancellation): the half-turn sum round the polygon
is the sum over the triangles of the half-turn sums round each of them. -/
theorem winding_additive {vs : List (P2 ℝ)} {Ts : List (Tri2 ℝ)} (p : P2 ℝ)
    (h : EdgeChainEq (edges vs) (Ts.flatMap Tri2.bdry)) :
    halfTurnSum vs p =
      (Ts.map fun t => halfTurn p t.a t.b + halfTurn p t.b t.c + halfTurn p t.c t.a).sum := by
  rw [halfTurnSum_eq_esum, esum_bdry (htPhi_odd p) (Φ := fun t =>
    halfTurn p t.a t.b + halfTurn p t.b t.c + halfTurn p t.c t.a) _ h]
  intro T _; simp [Tri2.bdry, htPhi, add_assoc]

/-- the unit square and its two-triangle triangulation: the diagonal cancels -/
def unitSquare : List (P2 ℝ) := [⟨0, 0⟩, ⟨1, 0⟩, ⟨1, 1⟩, ⟨0, 1⟩]
def unitSquareTs : List (Tri2 ℝ) := [⟨⟨0, 0⟩, ⟨1, 0⟩, ⟨1, 1⟩⟩, ⟨⟨0, 0⟩, ⟨1, 1⟩, ⟨0, 1⟩⟩]

theorem unitSquare_chain : EdgeChainEq (edges unitSquare) (unitSquareTs.flatMap Tri2.bdry) := by
  intro G _ φ hφ
  simp only [unitSquare, unitSquareTs, edges, roll, Tri2.bdry, List.zip_cons_cons, List.zip_nil_right,
    List.cons_append, List.nil_append, List.flatMap_cons, List.flatMap_nil, List.append_nil,
    esum_cons, esum_nil]
  rw [hφ ⟨0, 0⟩ ⟨1, 1⟩]; abel

example (p : P2 ℝ) : halfTurnSum unitSquare p =
    (unitSquareTs.map fun t => halfTurn p t.a t.b + halfTurn p t.b t.c + halfTurn p t.c t.a).sum :=
  winding_additive p unitSquare_chain

/-- **Reversal.** Reversing the vertex order negates the half-turn sum. -/
theorem winding_reverse (vs : List (P2 ℝ)) (p : P2 ℝ) :
    halfTurnSum vs.reverse p = -halfTurnSum vs p := by
  rw [halfTurnSum_eq_esum, halfTurnSum_eq_esum, esum_edges_reverse (htPhi_odd p)]

/-- the sum does not depend on which vertex the list starts with -/
theorem winding_roll (vs : List (P2 ℝ)) (p : P2 ℝ) : halfTurnSum (roll vs) p = halfTurnSum vs p := by
  rw [halfTurnSum_eq_esum, halfTurnSum_eq_esum, esum_edges_roll]

example (p : P2 ℝ) : halfTurnSum [⟨0, 1⟩, ⟨1, 1⟩, ⟨1, 0⟩, ⟨0, 0⟩] p = -halfTurnSum unitSquare p :=
  winding_reverse unitSquare p

/-- **Parity.** When the point is on none of the polygon's closed edges the half-turn sum is even,
so the floor division `// 2` loses nothing. -/
theorem halfTurnSum_even {vs : List (P2 ℝ)} {p : P2 ℝ}
    (hoff : ∀ e ∈ edges vs, onSegment e.1 e.2 p = false) : ∃ k : Int, halfTurnSum vs p = 2 * k := by
  have h := esum_mod4 (φ := htPhi p) (ψ := fun e => cls (rel e.2 p) - cls (rel e.1 p)) (edges vs)
    (fun e he => by
      have := two_ht_mod4 ((onSegment_false_iff e.1 e.2 p).mp (hoff e he))
      simpa [htPhi, halfTurn_eq_ht] using this)
  obtain ⟨k, hk⟩ := h
  rw [esum_edges_exact (fun v => cls (rel v p))] at hk
  exact ⟨k, by rw [halfTurnSum_eq_esum]; omega⟩

/-- **Orientation independence of the answer.** For a point off the polygon's closed edges,
`winding_number != 0` is the same for the reversed vertex order. -/
theorem isInside_reverse {vs : List (P2 ℝ)} {p : P2 ℝ}
    (hoff : ∀ e ∈ edges vs, onSegment e.1 e.2 p = false) :
    isInsideRot vs.reverse p = isInsideRot vs p := by
  obtain ⟨k, hk⟩ := halfTurnSum_even hoff
  unfold isInsideRot windingNumber
  rw [winding_reverse, hk, Int.fdiv_eq_ediv_of_nonneg _ (by decide), Int.fdiv_eq_ediv_of_nonneg _ (by decide)]
  have e1 : (-(2 * k)) / 2 = -k := by omega
  have e2 : (2 * k) / 2 = k := by omega
  rw [e1, e2, Bool.eq_iff_iff]
  simp only [bne_iff_ne, ne_eq, neg_eq_zero]

/-- the hypothesis of `halfTurnSum_even` / `isInside_reverse` holds for the unit square and (1/2, 1/3) -/
theorem unitSquare_off : ∀ e ∈ edges unitSquare, onSegment e.1 e.2 (⟨1/2, 1/3⟩ : P2 ℝ) = false := by
  intro e he
  simp only [unitSquare, edges, roll, List.cons_append, List.nil_append, List.zip_cons_cons,
    List.zip_nil_right, List.mem_cons, List.not_mem_nil, or_false] at he
  rcases he with rfl | rfl | rfl | rfl <;>
    simp only [onSegment, orient, dot2, eqb_real, Scalar.lit, Scalar.ofNat_real] <;> norm_num

example : isInsideRot unitSquare.reverse ⟨1/2, 1/3⟩ = isInsideRot unitSquare ⟨1/2, 1/3⟩ :=
  isInside_reverse unitSquare_off

example : ∃ k : Int, halfTurnSum unitSquare ⟨1/2, 1/3⟩ = 2 * k := halfTurnSum_even unitSquare_off

/-! ### one triangle -/

/-- **The half-turn sum round a positively oriented triangle** is `2` if the point is strictly
inside and `0` otherwise — for every point not on one of the three closed edges (points on the
lines through the edges but outside the edges, and points sharing an `x` or `y` coordinate with a
vertex, i.e. the tie rule, are covered). -/
theorem winding_triangle (t : Tri2 ℝ) (p : P2 ℝ) (hpos : 0 < orient t.a t.b t.c)
    (hoff : onBoundary t p = false) :
    halfTurn p t.a t.b + halfTurn p t.b t.c + halfTurn p t.c t.a = if inTriangle t p then 2 else 0 := by
  obtain ⟨h1, h2, h3⟩ := (onBoundary_false_iff t p).mp hoff
  have hp : 0 < crossR (rel t.a p) (rel t.b p) + crossR (rel t.b p) (rel t.c p) +
      crossR (rel t.c p) (rel t.a p) := by rw [← orient_tri_eq]; exact hpos
  rw [halfTurn_eq_ht, halfTurn_eq_ht, halfTurn_eq_ht, ht_triangle h1 h2 h3 hp]
  exact if_congr (inTriangle_pos_iff t p hpos).symm rfl rfl

/-- the triangle with the opposite orientation -/
def Spec.In2D.Tri2.flip (t : Tri2 ℝ) : Tri2 ℝ := ⟨t.a, t.c, t.b⟩

theorem orient_flip (t : Tri2 ℝ) : orient t.flip.a t.flip.b t.flip.c = -orient t.a t.b t.c := by
  unfold Tri2.flip orient; ring

theorem orient_swap (a b p : P2 ℝ) : orient b a p = -orient a b p := by unfold orient; ring

theorem onSegment_swap (a b p : P2 ℝ) : onSegment b a p = onSegment a b p := by
  unfold onSegment
  have hd : dot2 b a p = dot2 a b p := by unfold dot2; ring
  rw [orient_swap, hd, eqb_real, eqb_real]
  simp only [Scalar.lit, Scalar.ofNat_real, Nat.cast_zero, neg_eq_zero]

theorem onBoundary_flip (t : Tri2 ℝ) (p : P2 ℝ) : onBoundary t.flip p = onBoundary t p := by
  unfold onBoundary Tri2.flip
  simp only
  rw [onSegment_swap t.c t.b, onSegment_swap t.a t.c, onSegment_swap t.b t.a]
  cases onSegment t.b t.a p <;> cases onSegment t.c t.b p <;> cases onSegment t.a t.c p <;> rfl

theorem inTriangle_flip (t : Tri2 ℝ) (p : P2 ℝ) : inTriangle t.flip p = inTriangle t p := by
  unfold inTriangle Tri2.flip
  simp only
  rw [orient_swap t.c t.b, orient_swap t.a t.c, orient_swap t.b t.a]
  simp only [Scalar.lit, Scalar.ofNat_real, Nat.cast_zero, Left.neg_pos_iff, Left.neg_neg_iff]
  rw [Bool.eq_iff_iff]
  simp only [Bool.or_eq_true, Bool.and_eq_true, decide_eq_true_eq]
  tauto

/-- a negatively oriented triangle contributes `−2` / `0` -/
theorem winding_triangle_neg (t : Tri2 ℝ) (p : P2 ℝ) (hneg : orient t.a t.b t.c < 0)
    (hoff : onBoundary t p = false) :
    halfTurn p t.a t.b + halfTurn p t.b t.c + halfTurn p t.c t.a = if inTriangle t p then -2 else 0 := by
  have h := winding_triangle t.flip p (by rw [orient_flip]; linarith) (by rw [onBoundary_flip]; exact hoff)
  rw [inTriangle_flip] at h
  simp only [Tri2.flip] at h
  rw [halfTurn_swap p t.c t.a, halfTurn_swap p t.b t.c, halfTurn_swap p t.a t.b] at h
  split_ifs at h ⊢ <;> omega

/-- the triangle (0,0),(4,0),(0,4): the point (1,1) is inside, (3,3) is outside, and (0,5)
    (on the line of an edge, sharing `x` with two vertices) is allowed and outside -/
def sampleTri : Tri2 ℝ := ⟨⟨0, 0⟩, ⟨4, 0⟩, ⟨0, 4⟩⟩

example : 0 < orient sampleTri.a sampleTri.b sampleTri.c ∧ onBoundary sampleTri ⟨1, 1⟩ = false ∧
    inTriangle sampleTri ⟨1, 1⟩ = true := by
  refine ⟨by norm_num [sampleTri, orient], ?_, ?_⟩
  · simp only [onBoundary, onSegment, sampleTri, orient, dot2, eqb_real, Scalar.lit, Scalar.ofNat_real]
    norm_num
  · simp only [inTriangle, sampleTri, orient, Scalar.lit, Scalar.ofNat_real]
    norm_num

example : onBoundary sampleTri ⟨0, 5⟩ = false ∧ inTriangle sampleTri ⟨0, 5⟩ = false := by
  constructor
  · simp only [onBoundary, onSegment, sampleTri, orient, dot2, eqb_real, Scalar.lit, Scalar.ofNat_real]
    norm_num
  · simp only [inTriangle, sampleTri, orient, Scalar.lit, Scalar.ofNat_real]
    norm_num

/-- the clockwise copy of `sampleTri` satisfies the hypotheses of `winding_triangle_neg` at (1,1) -/
example : orient sampleTri.flip.a sampleTri.flip.b sampleTri.flip.c < 0 ∧
    onBoundary sampleTri.flip ⟨1, 1⟩ = false := by
  constructor
  · norm_num [sampleTri, Tri2.flip, orient]
  · simp only [onBoundary, onSegment, sampleTri, Tri2.flip, orient, dot2, eqb_real, Scalar.lit,
      Scalar.ofNat_real]
    norm_num

/-! ### whole polygons -/

theorem sum_ite_count (Ts : List (Tri2 ℝ)) (p : P2 ℝ) (c : Int) :
    (Ts.map fun t => if inTriangle t p then c else 0).sum = c * (count Ts p : Int) := by
  unfold count
  induction Ts with
  | nil => simp
  | cons t Ts ih =>
    simp only [List.map_cons, List.sum_cons, ih, List.filter_cons]
    cases inTriangle t p <;> simp; ring

theorem inRegion_iff_count (Ts : List (Tri2 ℝ)) (p : P2 ℝ) :
    inRegion Ts p = true ↔ count Ts p ≠ 0 := by
  unfold inRegion count
  rw [List.any_eq_true, Ne, List.length_eq_zero_iff, List.filter_eq_nil_iff]
  push Not; rfl

/-- **Half-turn sum of a triangulated polygon** (counter-clockwise triangulation):
twice the number of triangles strictly containing the point. -/
theorem halfTurnSum_triangulated {vs : List (P2 ℝ)} {Ts : List (Tri2 ℝ)} {p : P2 ℝ}
    (hchain : EdgeChainEq (edges vs) (Ts.flatMap Tri2.bdry))
    (hpos : ∀ t ∈ Ts, 0 < orient t.a t.b t.c)
    (hoff : ∀ t ∈ Ts, onBoundary t p = false) :
    halfTurnSum vs p = 2 * (count Ts p : Int) := by
  rw [winding_additive p hchain, ← sum_ite_count]
  congr 1
  exact List.map_congr_left fun t ht => winding_triangle t p (hpos t ht) (hoff t ht)

/-- clockwise triangulation: minus twice the count -/
theorem halfTurnSum_triangulated_neg {vs : List (P2 ℝ)} {Ts : List (Tri2 ℝ)} {p : P2 ℝ}
    (hchain : EdgeChainEq (edges vs) (Ts.flatMap Tri2.bdry))
    (hneg : ∀ t ∈ Ts, orient t.a t.b t.c < 0)
    (hoff : ∀ t ∈ Ts, onBoundary t p = false) :
    halfTurnSum vs p = -2 * (count Ts p : Int) := by
  rw [winding_additive p hchain, ← sum_ite_count]
  congr 1
  exact List.map_congr_left fun t ht => winding_triangle_neg t p (hneg t ht) (hoff t ht)

theorem isInsideRot_of_sum {vs : List (P2 ℝ)} {p : P2 ℝ} {n : Nat} {c : Int} (hc : c = 2 ∨ c = -2)
    (h : halfTurnSum vs p = c * (n : Int)) : isInsideRot vs p = true ↔ n ≠ 0 := by
  unfold isInsideRot windingNumber
  rw [h, Int.fdiv_eq_ediv_of_nonneg _ (by decide)]
  simp only [bne_iff_ne, ne_eq]
  rcases hc with rfl | rfl <;> omega

/-- **C06, polygons.**  For every polygon that is the boundary chain of a consistently oriented
triangulation (either orientation: counter-clockwise or clockwise vertex order), and every point
off the closed edges of the triangles, the model of `Polygon.is_inside` answers exactly
"the point is in the triangulated region". -/
theorem polygon_inside_iff {vs : List (P2 ℝ)} {Ts : List (Tri2 ℝ)} {p : P2 ℝ}
    (hchain : EdgeChainEq (edges vs) (Ts.flatMap Tri2.bdry))
    (hor : (∀ t ∈ Ts, 0 < orient t.a t.b t.c) ∨ (∀ t ∈ Ts, orient t.a t.b t.c < 0))
    (hoff : ∀ t ∈ Ts, onBoundary t p = false) :
    isInsideRot vs p = inRegion Ts p := by
  rw [Bool.eq_iff_iff, inRegion_iff_count]
  rcases hor with hpos | hneg
  · exact isInsideRot_of_sum (Or.inl rfl) (halfTurnSum_triangulated hchain hpos hoff)
  · exact isInsideRot_of_sum (Or.inr rfl) (halfTurnSum_triangulated_neg hchain hneg hoff)

/-- the winding number itself is the number of triangles containing the point -/
theorem windingNumber_eq_count {vs : List (P2 ℝ)} {Ts : List (Tri2 ℝ)} {p : P2 ℝ}
    (hchain : EdgeChainEq (edges vs) (Ts.flatMap Tri2.bdry))
    (hpos : ∀ t ∈ Ts, 0 < orient t.a t.b t.c)
    (hoff : ∀ t ∈ Ts, onBoundary t p = false) :
    windingNumber vs p = (count Ts p : Int) := by
  unfold windingNumber
  rw [halfTurnSum_triangulated hchain hpos hoff, Int.fdiv_eq_ediv_of_nonneg _ (by decide)]
  omega

theorem unitSquareTs_pos : ∀ t ∈ unitSquareTs, 0 < orient t.a t.b t.c := by
  intro t ht
  simp only [unitSquareTs, List.mem_cons, List.not_mem_nil, or_false] at ht
  rcases ht with rfl | rfl <;> norm_num [orient]

/-- hypotheses of `polygon_inside_iff` hold for the unit square and the inside point (1/2, 1/3) … -/
example : isInsideRot unitSquare ⟨1/2, 1/3⟩ = inRegion unitSquareTs ⟨1/2, 1/3⟩ :=
  polygon_inside_iff unitSquare_chain (Or.inl unitSquareTs_pos) (by
    intro t ht
    simp only [unitSquareTs, List.mem_cons, List.not_mem_nil, or_false] at ht
    rcases ht with rfl | rfl <;>
      simp only [onBoundary, onSegment, orient, dot2, eqb_real, Scalar.lit, Scalar.ofNat_real] <;>
      norm_num)

/-- … and the region test says "inside" there, "outside" at (3/2, 1/3) (evaluated by `norm_num`) -/
example : inRegion unitSquareTs ⟨1/2, 1/3⟩ = true := by
  simp only [inRegion, unitSquareTs, List.any_cons, List.any_nil, inTriangle, orient, Scalar.lit,
    Scalar.ofNat_real]
  norm_num

example : inRegion unitSquareTs ⟨3/2, 1/3⟩ = false := by
  simp only [inRegion, unitSquareTs, List.any_cons, List.any_nil, inTriangle, orient, Scalar.lit,
    Scalar.ofNat_real]
  norm_num

/-- the same square over ℝ at the point (1, 2), which shares its `x` with two vertices (the tie
    rule decides their class) and lies on the line of an edge: allowed, and outside -/
example : isInsideRot unitSquare ⟨1, 2⟩ = inRegion unitSquareTs ⟨1, 2⟩ :=
  polygon_inside_iff unitSquare_chain (Or.inl unitSquareTs_pos) (by
    intro t ht
    simp only [unitSquareTs, List.mem_cons, List.not_mem_nil, or_false] at ht
    rcases ht with rfl | rfl <;>
      simp only [onBoundary, onSegment, orient, dot2, eqb_real, Scalar.lit, Scalar.ofNat_real] <;>
      norm_num)

/-! direct evaluation of the model at exact rationals (by `decide`): a square in both orientations
    and a concave L-shaped hexagon, with points that share an `x` coordinate with vertices -/
def unitSquareQ : List (P2 Rat) := [⟨0, 0⟩, ⟨1, 0⟩, ⟨1, 1⟩, ⟨0, 1⟩]
def ellShapeQ : List (P2 Rat) := [⟨0, 0⟩, ⟨2, 0⟩, ⟨2, 1⟩, ⟨1, 1⟩, ⟨1, 2⟩, ⟨0, 2⟩]

example : isInsideRot unitSquareQ ⟨1/2, 1/3⟩ = true := by decide +kernel
example : isInsideRot unitSquareQ.reverse ⟨1/2, 1/3⟩ = true := by decide +kernel
example : isInsideRot unitSquareQ ⟨1, 2⟩ = false := by decide +kernel
example : isInsideRot unitSquareQ ⟨-1/2, 1/2⟩ = false := by decide +kernel
example : halfTurnSum unitSquareQ ⟨1/2, 1/3⟩ = 2 ∧ halfTurnSum unitSquareQ.reverse ⟨1/2, 1/3⟩ = -2 := by
  decide +kernel
example : isInsideRot ellShapeQ ⟨1/2, 3/2⟩ = true := by decide +kernel
example : isInsideRot ellShapeQ ⟨1, 1/2⟩ = true := by decide +kernel   -- x shared with (1,1), (1,2)
example : isInsideRot ellShapeQ ⟨3/2, 3/2⟩ = false := by decide +kernel -- in the notch
example : isInsideRot ellShapeQ.reverse ⟨1, 1/2⟩ = true := by decide +kernel
example : isInsideRotBatch ellShapeQ [⟨1/2, 3/2⟩, ⟨3/2, 3/2⟩, ⟨1, 1/2⟩] = [true, false, true] := by
  decide +kernel

/-! ### batch = map of single -/

theorem zipWith_add_map {β : Type} (f g : β → Int) (l : List β) :
    List.zipWith (· + ·) (l.map f) (l.map g) = l.map fun x => f x + g x := by
  induction l with
  | nil => rfl
  | cons a l ih => simp [ih]

theorem columnSums_eq {β γ : Type} (f : γ → β → Int) (es : List γ) (pts : List β) :
    columnSums (es.map fun e => pts.map fun p => f e p) pts.length =
      pts.map fun p => (es.map fun e => f e p).sum := by
  unfold columnSums
  induction es with
  | nil =>
    simp only [List.map_nil, List.foldr_nil, List.sum_nil]
    induction pts with
    | nil => rfl
    | cons a l ih => simp only [List.length_cons, List.replicate_succ, List.map_cons, ih]
  | cons e es ih =>
    simp only [List.map_cons, List.foldr_cons, List.sum_cons]
    rw [ih, zipWith_add_map]

/-- **Batch calls agree element-wise with single-point calls** (on the model of the vectorised
computation: the `(edges × points)` array summed along axis 0). -/
theorem polygon_batch_eq_map (vs pts : List (P2 ℝ)) :
    isInsideRotBatch vs pts = pts.map (isInsideRot vs) := by
  unfold isInsideRotBatch
  simp only
  rw [columnSums_eq (fun (e : P2 ℝ × P2 ℝ) p => halfTurn p e.1 e.2), List.map_map]
  rfl

theorem polygon_isInside_eq_map (R : M3 ℝ) (verts pts : List (V3 ℝ)) :
    Polygon.isInside R verts pts =
      pts.map fun p => isInsideRot (verts.map fun v => proj (rotate R v)) (proj (rotate R p)) := by
  unfold Polygon.isInside
  simp only
  rw [polygon_batch_eq_map, List.map_map]; rfl

/-- `(N,2)` points are treated as lying in the plane `z = 0` -/
theorem polygon_isInside2_eq (R : M3 ℝ) (verts : List (V3 ℝ)) (pts : List (P2 ℝ)) :
    Polygon.isInside2 R verts pts = Polygon.isInside R verts (pts.map fun p => ⟨p.x, p.y, 0⟩) := by
  unfold Polygon.isInside2 pad
  simp only [Scalar.lit, Scalar.ofNat_real, Nat.cast_zero]

example : isInsideRotBatch unitSquare [⟨1/2, 1/3⟩, ⟨3/2, 1/3⟩] =
    [isInsideRot unitSquare ⟨1/2, 1/3⟩, isInsideRot unitSquare ⟨3/2, 1/3⟩] :=
  polygon_batch_eq_map _ _

/-! ### the rotation into the `xy` frame (`kabsch` result as a parameter) -/

/-- `RᵀR = 1` -/
structure IsOrtho (R : M3 ℝ) : Prop where
  c11 : R.xx * R.xx + R.yx * R.yx + R.zx * R.zx = 1
  c22 : R.xy * R.xy + R.yy * R.yy + R.zy * R.zy = 1
  c33 : R.xz * R.xz + R.yz * R.yz + R.zz * R.zz = 1
  c12 : R.xx * R.xy + R.yx * R.yy + R.zx * R.zy = 0
  c13 : R.xx * R.xz + R.yx * R.yz + R.zx * R.zz = 0
  c23 : R.xy * R.xz + R.yy * R.yz + R.zy * R.zz = 0

/-- the rotation is an isometry: in-plane distances (hence the region and the point's position
relative to it) are the same in the rotated frame -/
theorem rotate_isometry {R : M3 ℝ} (h : IsOrtho R) (p q : V3 ℝ) :
    V3.normSq (rotate R p - rotate R q) = V3.normSq (p - q) := by
  obtain ⟨px, py, pz⟩ := p; obtain ⟨qx, qy, qz⟩ := q
  unfold rotate V3.normSq V3.dot
  simp only [V3.sub_x, V3.sub_y, V3.sub_z]
  linear_combination ((px - qx) ^ 2) * h.c11 + ((py - qy) ^ 2) * h.c22 + ((pz - qz) ^ 2) * h.c33 +
    (2 * (px - qx) * (py - qy)) * h.c12 + (2 * (px - qx) * (pz - qz)) * h.c13 +
    (2 * (py - qy) * (pz - qz)) * h.c23

/-- with `R n = ẑ` the rotated `z` coordinate is the height `n·p` above the polygon's plane:
all vertices of a planar polygon and all in-plane points get the same `z`, which the algorithm
then ignores -/
theorem rotate_z {R : M3 ℝ} (h : IsOrtho R) {n : V3 ℝ} (hn : rotate R n = ⟨0, 0, 1⟩) (p : V3 ℝ) :
    (rotate R p).z = V3.dot n p := by
  obtain ⟨nx, ny, nz⟩ := n; obtain ⟨px, py, pz⟩ := p
  unfold rotate at hn
  simp only [V3.mk.injEq] at hn
  obtain ⟨e1, e2, e3⟩ := hn
  have hx : nx = R.zx := by
    linear_combination (-nx) * h.c11 - ny * h.c12 - nz * h.c13 + R.xx * e1 + R.yx * e2 + R.zx * e3
  have hy : ny = R.zy := by
    linear_combination (-nx) * h.c12 - ny * h.c22 - nz * h.c23 + R.xy * e1 + R.yy * e2 + R.zy * e3
  have hz : nz = R.zz := by
    linear_combination (-nx) * h.c13 - ny * h.c23 - nz * h.c33 + R.xz * e1 + R.yz * e2 + R.zz * e3
  unfold rotate V3.dot
  simp only [hx, hy, hz]

/-- the rotation kabsch returns for the normal `−ẑ` (a half turn about `y`) satisfies the contract -/
example : IsOrtho ⟨-1, 0, 0, 0, 1, 0, 0, 0, -1⟩ ∧
    rotate (⟨-1, 0, 0, 0, 1, 0, 0, 0, -1⟩ : M3 ℝ) ⟨0, 0, -1⟩ = ⟨0, 0, 1⟩ := by
  refine ⟨⟨?_, ?_, ?_, ?_, ?_, ?_⟩, ?_⟩ <;> norm_num [rotate]

/-! ### circle -/

theorem iscloseZero_iff (z : ℝ) : iscloseZero z = true ↔ |z| ≤ 1 / 100000000 := by
  unfold iscloseZero
  simp only [Scalar.lit, Scalar.q, Scalar.ofNat_real, Scalar.abs_real, decide_eq_true_eq]
  norm_num

/-- **C06, circle.** For an in-plane point (`z` equal to the centre's `z`) and a non-negative
radius, `Circle.is_inside` is exactly membership in the closed disk. -/
theorem circle_inside_iff (r : ℝ) (c p : V3 ℝ) (hr : 0 ≤ r) (hz : p.z = c.z) :
    Circle.isInside1 r c p = inDisk r ⟨c.x, c.y⟩ ⟨p.x, p.y⟩ := by
  rw [Bool.eq_iff_iff]
  unfold Circle.isInside1 inDisk
  simp only [Bool.and_eq_true, decide_eq_true_eq, iscloseZero_iff, V3.sub_z, hz, sub_self, abs_zero]
  unfold V3.norm V3.normSq V3.dot
  simp only [V3.sub_x, V3.sub_y, V3.sub_z, hz, sub_self, mul_zero, add_zero, Scalar.sqrt_real, Scalar.sqr]
  rw [Real.sqrt_le_left hr]
  constructor
  · rintro ⟨h, _⟩; linarith
  · intro h; exact ⟨by linarith, by norm_num⟩

/-- a point further than `1e-8` from the circle's plane is never inside -/
theorem circle_out_of_plane (r : ℝ) (c p : V3 ℝ) (hz : 1 / 100000000 < |p.z - c.z|) :
    Circle.isInside1 r c p = false := by
  unfold Circle.isInside1
  have : iscloseZero (p.z - c.z) = false := by
    rw [Bool.eq_false_iff, Ne, iscloseZero_iff]; exact not_le.mpr hz
  simp only [V3.sub_z]
  rw [this, Bool.and_false]

example : Circle.isInside1 (2 : ℝ) ⟨1, -1, 3⟩ ⟨-1/2, -2, 3⟩ = inDisk (2 : ℝ) ⟨1, -1⟩ ⟨-1/2, -2⟩ :=
  circle_inside_iff 2 ⟨1, -1, 3⟩ ⟨-1/2, -2, 3⟩ (by norm_num) rfl

theorem circle_batch (r : ℝ) (c : V3 ℝ) (pts : List (V3 ℝ)) :
    Circle.isInside r c pts = pts.map (Circle.isInside1 r c) := rfl

/-! ### ellipse: the coded test is a one-sided bounding box -/

/-- what `Ellipse.is_inside` computes: the quarter-plane `x − cx ≤ a ∧ y − cy ≤ b` -/
theorem ellipse_inside_is_box (a b : ℝ) (c p : V3 ℝ) (ha : 0 < a) (hb : 0 < b) (hz : p.z = c.z) :
    Ellipse.isInside1 a b c p = true ↔ (p.x - c.x ≤ a ∧ p.y - c.y ≤ b) := by
  unfold Ellipse.isInside1
  simp only [Bool.and_eq_true, decide_eq_true_eq, iscloseZero_iff, V3.sub_x, V3.sub_y, V3.sub_z, hz,
    sub_self, abs_zero, Scalar.lit, Scalar.ofNat_real, Nat.cast_one, Bool.and_true, div_le_one ha,
    div_le_one hb]
  constructor
  · rintro ⟨h, _⟩; exact h
  · intro h; exact ⟨h, by norm_num⟩

/-- **C06, ellipse, the half that holds:** every point of the ellipse is accepted
(the box contains the ellipse).  The converse is false — `ellipse_inside_fails`. -/
theorem ellipse_inside_partial (a b : ℝ) (c p : V3 ℝ) (ha : 0 < a) (hb : 0 < b) (hz : p.z = c.z)
    (h : inEllipse a b ⟨c.x, c.y⟩ ⟨p.x, p.y⟩ = true) : Ellipse.isInside1 a b c p = true := by
  rw [ellipse_inside_is_box a b c p ha hb hz]
  unfold inEllipse at h
  simp only [decide_eq_true_eq, Scalar.sqr, Scalar.lit, Scalar.ofNat_real, Nat.cast_one] at h
  have h1 : (p.x - c.x) / a * ((p.x - c.x) / a) ≤ 1 := by nlinarith [mul_self_nonneg ((p.y - c.y) / b)]
  have h2 : (p.y - c.y) / b * ((p.y - c.y) / b) ≤ 1 := by nlinarith [mul_self_nonneg ((p.x - c.x) / a)]
  have e1 : (p.x - c.x) / a ≤ 1 := by nlinarith
  have e2 : (p.y - c.y) / b ≤ 1 := by nlinarith
  exact ⟨(div_le_one ha).mp e1, (div_le_one hb).mp e2⟩

example : inEllipse (1 : ℝ) 2 ⟨0, 0⟩ ⟨1/2, -1⟩ = true := by
  simp only [inEllipse, Scalar.sqr, Scalar.lit, Scalar.ofNat_real]; norm_num

/-- **C06 fails for `Ellipse.is_inside`:** the coded test is not membership in the ellipse.
Witness: `Ellipse(1, 2)` centred at the origin reports the point (−5, −5, 0) inside. -/
theorem ellipse_inside_fails :
    ¬ (∀ (a b : ℝ) (c p : V3 ℝ), 0 < a → 0 < b → p.z = c.z →
        Ellipse.isInside1 a b c p = inEllipse a b ⟨c.x, c.y⟩ ⟨p.x, p.y⟩) := by
  intro h
  have h1 := h 1 2 ⟨0, 0, 0⟩ ⟨-5, -5, 0⟩ (by norm_num) (by norm_num) rfl
  have hin : Ellipse.isInside1 (1 : ℝ) 2 ⟨0, 0, 0⟩ ⟨-5, -5, 0⟩ = true := by
    rw [ellipse_inside_is_box 1 2 ⟨0, 0, 0⟩ ⟨-5, -5, 0⟩ (by norm_num) (by norm_num) rfl]; norm_num
  have hout : inEllipse (1 : ℝ) 2 ⟨0, 0⟩ ⟨-5, -5⟩ = false := by
    simp only [inEllipse, Scalar.sqr, Scalar.lit, Scalar.ofNat_real]; norm_num
  rw [hin, hout] at h1
  exact Bool.noConfusion h1

/-- the second witness of the finding, in the positive quadrant: (0.9, 1.9) is outside the
    ellipse `x² + y²/4 ≤ 1` but inside the box -/
theorem ellipse_inside_fails_first_quadrant :
    Ellipse.isInside1 (1 : ℝ) 2 ⟨0, 0, 0⟩ ⟨9/10, 19/10, 0⟩ = true ∧
      inEllipse (1 : ℝ) 2 ⟨0, 0⟩ ⟨9/10, 19/10⟩ = false := by
  constructor
  · rw [ellipse_inside_is_box 1 2 ⟨0, 0, 0⟩ ⟨9/10, 19/10, 0⟩ (by norm_num) (by norm_num) rfl]; norm_num
  · simp only [inEllipse, Scalar.sqr, Scalar.lit, Scalar.ofNat_real]; norm_num

theorem ellipse_batch (a b : ℝ) (c : V3 ℝ) (pts : List (V3 ℝ)) :
    Ellipse.isInside a b c pts = pts.map (Ellipse.isInside1 a b c) := rfl

end
