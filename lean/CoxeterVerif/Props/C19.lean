import CoxeterVerif.Lemmas.Codec
import CoxeterVerif.Lemmas.CodecObj
import CoxeterVerif.Lemmas.CodecText
import CoxeterVerif.Lemmas.CodecPolygon
/-!
  # C19 — GSD, repr and HOOMD representations round-trip the shape

  Model: `Model/Codec.lean` (the code as it is), meaning: `Spec/Codec.lean`.
  All statements are over ℝ, for every shape of the ten classes, every number of vertices/faces,
  every dict, every attribute list. External answers (`Ext`: planarity / simplicity / convexity /
  reordering / hull tests; `Meas`: centroid and measure getters) are universally quantified; what
  is assumed about them is written as hypotheses:
  * `Valid E s` — the object `s` exists (passed its constructor) and the external tests answer
    about its stored vertices what they answered at construction; a convex cycle is a fixed point
    of `_reorder_verts` (checked on every generated polygon, both orientations, by the harness);
  * `Spec.Equivariant M` — the centroid getter commutes with translations (property C09).
-/
open C19 Scalar
set_option maxRecDepth 4000

/-- a shape object that exists: it passed its own constructor, and the external predicates answer
about the stored vertices as they did then. -/
def C19.Valid (E : Ext ℝ) : Shape ℝ → Prop
  | .circle r _ | .sphere r _ => 0 < r
  | .ellipse a b _ => 0 < a ∧ 0 < b
  | .ellipsoid a b c _ => 0 < a ∧ 0 < b ∧ 0 < c
  | .polygon vs n =>
      E.planarOk vs = true ∧ E.isSimple vs = true ∧ (E.isConvex vs = true → E.reorder vs = vs)
        ∧ V3.norm n = 1 ∧ E.normalOk vs n = true
  | .convexPolygon vs n =>
      E.planarOk vs = true ∧ E.isSimple vs = true ∧ E.isConvex vs = true ∧ E.reorder vs = vs
        ∧ V3.norm n = 1 ∧ E.normalOk vs n = true
  | .spheropolygon vs r n =>
      0 ≤ r ∧ E.planarOk vs = true ∧ E.isConvex vs = true ∧ E.reorder vs = vs
        ∧ V3.norm n = 1 ∧ E.normalOk vs n = true
  | .polyhedron _ _ => True
  | .convexPolyhedron vs _ => E.hullAll vs = true
  | .spheropolyhedron vs r => E.hullAll vs = true ∧ 0 ≤ r

/-! ## GSD -/

/-- **C19 GSD round trip**, all ten classes: decoding `gsd_shape_spec` with the matching
dimensionality gives the same class (for a `Polygon` with a convex cycle the `ConvexPolygon`
subclass), the same vertices, the same radii / semi-axes, and for a mesh the same faces. -/
theorem gsd_roundtrip (E : Ext ℝ) (s : Shape ℝ) (hv : Valid E s) (dim : Nat)
    (hdim : ∀ d, Spec.dimOf s.cls = some d → dim = d) :
    ∃ s', fromGsd E (gsdSpec s) dim = .ok s' ∧ Spec.GsdRoundTrip (E.isConvex s.verts) s s' := by
  cases s with
  | circle r c =>
    have hd : dim = 2 := hdim 2 rfl
    have hr : (0:ℝ) < r := hv
    refine ⟨.circle r V3.zero, ?_, ⟨rfl, rfl, rfl, fun h => by cases h⟩⟩
    simp [fromGsd, gsdSpec, Dict.has, getItem, Dict.get?, Val.isStr, asNum, mkCircle, bind,
      Except.bind, hr, hd]
  | sphere r c =>
    have hd : dim = 3 := hdim 3 rfl
    have hr : (0:ℝ) < r := hv
    refine ⟨.sphere r V3.zero, ?_, ⟨rfl, rfl, rfl, fun h => by cases h⟩⟩
    simp [fromGsd, gsdSpec, Dict.has, getItem, Dict.get?, Val.isStr, asNum, mkSphere, bind,
      Except.bind, hr, hd]
  | ellipse a b c =>
    have hd : dim = 2 := hdim 2 rfl
    obtain ⟨ha, hb⟩ := hv
    refine ⟨.ellipse a b V3.zero, ?_, ⟨rfl, rfl, rfl, fun h => by cases h⟩⟩
    simp [fromGsd, gsdSpec, Dict.has, getItem, Dict.get?, Val.isStr, asNum, mkEllipse, bind,
      Except.bind, ha, hb, hd]
  | ellipsoid a b c cen =>
    have hd : dim = 3 := hdim 3 rfl
    obtain ⟨ha, hb, hc⟩ := hv
    refine ⟨.ellipsoid a b c V3.zero, ?_, ⟨rfl, rfl, rfl, fun h => by cases h⟩⟩
    simp [fromGsd, gsdSpec, Dict.has, getItem, Dict.get?, Val.isStr, asNum, mkEllipsoid, bind,
      Except.bind, ha, hb, hc, hd]
  | polygon vs n =>
    obtain ⟨h1, h2, h3, _, _⟩ := hv
    by_cases hc : E.isConvex vs = true
    · refine ⟨.convexPolygon vs (computedNormal vs), ?_, ⟨by simp [Shape.cls, Shape.verts, Spec.gsdTarget, hc], rfl, rfl,
        fun h => by cases h⟩⟩
      simp [fromGsd, gsdSpec, Dict.has, getItem, Dict.get?, Val.isStr, asMat, mkConvexPolygon,
        convexPolygonCore, pickNormal, bind, Except.bind, pure, Except.pure, h1, hc, h3 hc]
    · have hc' : E.isConvex vs = false := by simpa using hc
      refine ⟨.polygon vs (computedNormal vs), ?_, ⟨by simp [Shape.cls, Shape.verts, Spec.gsdTarget, hc'], rfl, rfl,
        fun h => by cases h⟩⟩
      simp [fromGsd, gsdSpec, Dict.has, getItem, Dict.get?, Val.isStr, asMat, mkConvexPolygon,
        convexPolygonCore, mkPolygon, pickNormal, bind, Except.bind, pure, Except.pure, h1, h2, hc']
  | convexPolygon vs n =>
    obtain ⟨h1, _, h3, h4, _⟩ := hv
    refine ⟨.convexPolygon vs (computedNormal vs), ?_, ⟨rfl, rfl, rfl, fun h => by cases h⟩⟩
    simp [fromGsd, gsdSpec, Dict.has, getItem, Dict.get?, Val.isStr, asMat, mkConvexPolygon,
      convexPolygonCore, pickNormal, bind, Except.bind, pure, Except.pure, h1, h3, h4]
  | spheropolygon vs r n =>
    obtain ⟨hr, h1, h3, h4, _⟩ := hv
    refine ⟨.spheropolygon vs r (computedNormal vs), ?_, ⟨rfl, rfl, rfl, fun h => by cases h⟩⟩
    simp [fromGsd, gsdSpec, Dict.has, getItem, Dict.get?, Val.isStr, asMat, asNum, mkSpheropolygon,
      convexPolygonCore, pickNormal, bind, Except.bind, pure, Except.pure, h1, h3, h4, hr]
  | polyhedron vs f =>
    refine ⟨.polyhedron vs f, ?_, ⟨rfl, rfl, rfl, fun _ => rfl⟩⟩
    simp [fromGsd, gsdSpec, Dict.has, getItem, Dict.get?, Val.isStr, asMat, asIdx, mkPolyhedron,
      bind, Except.bind, pure, Except.pure]
  | convexPolyhedron vs f =>
    have h1 : E.hullAll vs = true := hv
    refine ⟨.convexPolyhedron vs (E.hullFaces vs), ?_, ⟨rfl, rfl, rfl, fun h => by cases h⟩⟩
    simp [fromGsd, gsdSpec, Dict.has, getItem, Dict.get?, Val.isStr, asMat, mkConvexPolyhedron,
      bind, Except.bind, pure, Except.pure, h1]
  | spheropolyhedron vs r =>
    obtain ⟨h1, hr⟩ := hv
    refine ⟨.spheropolyhedron vs r, ?_, ⟨rfl, rfl, rfl, fun h => by cases h⟩⟩
    simp [fromGsd, gsdSpec, Dict.has, getItem, Dict.get?, Val.isStr, asMat, asNum,
      mkSpheropolyhedron, bind, Except.bind, pure, Except.pure, h1, hr]

/-- **C19 GSD dispatch, every class, every value of `dimensions`**: the class that comes back is
`Spec.gsdDispatch` — for the six vertex based classes the `dimensions` argument is ignored (and a
`rounding_radius` key, whatever its value — 0 included — selects the spheropolytope class); `Sphere` /
`Circle` and `Ellipsoid` / `Ellipse` are told apart by `dimensions == 2` alone; the two-key spec of an
`Ellipse` read with `dimensions ≠ 2` raises `KeyError` (no `c`). -/
theorem gsd_dispatch (E : Ext ℝ) (s : Shape ℝ) (hv : Valid E s) (dim : Nat) :
    match Spec.gsdDispatch dim (E.isConvex s.verts) s.cls with
    | some c => ∃ s', fromGsd E (gsdSpec s) dim = .ok s' ∧ s'.cls = c ∧ s'.verts = s.verts ∧
        (c ≠ .ellipse → s'.radii = s.radii)
    | none => fromGsd E (gsdSpec s) dim = .error "KeyError" := by
  cases s with
  | circle r c =>
    have hr : (0:ℝ) < r := hv
    by_cases hd : dim = 2
    · exact ⟨.circle r V3.zero, by simp [fromGsd, gsdSpec, Dict.has, getItem, Dict.get?, Val.isStr, asNum, mkCircle, bind,
        Except.bind, hr, hd], by simp [Shape.cls, hd], rfl, fun _ => rfl⟩
    · exact ⟨.sphere r V3.zero, by simp [fromGsd, gsdSpec, Dict.has, getItem, Dict.get?, Val.isStr, asNum, mkSphere, bind,
        Except.bind, hr, hd], by simp [Shape.cls, hd], rfl, fun _ => rfl⟩
  | sphere r c =>
    have hr : (0:ℝ) < r := hv
    by_cases hd : dim = 2
    · exact ⟨.circle r V3.zero, by simp [fromGsd, gsdSpec, Dict.has, getItem, Dict.get?, Val.isStr, asNum, mkCircle, bind,
        Except.bind, hr, hd], by simp [Shape.cls, hd], rfl, fun _ => rfl⟩
    · exact ⟨.sphere r V3.zero, by simp [fromGsd, gsdSpec, Dict.has, getItem, Dict.get?, Val.isStr, asNum, mkSphere, bind,
        Except.bind, hr, hd], by simp [Shape.cls, hd], rfl, fun _ => rfl⟩
  | ellipse a b c =>
    obtain ⟨ha, hb⟩ := hv
    by_cases hd : dim = 2
    · simp only [Spec.gsdDispatch, Shape.cls, hd, if_true]
      exact ⟨.ellipse a b V3.zero, by simp [fromGsd, gsdSpec, Dict.has, getItem, Dict.get?, Val.isStr, asNum, mkEllipse,
        bind, Except.bind, ha, hb], rfl, rfl, fun _ => rfl⟩
    · simp only [Spec.gsdDispatch, Shape.cls, hd, if_false]
      simp [fromGsd, gsdSpec, Dict.has, getItem, Dict.get?, Val.isStr, asNum, bind, Except.bind, hd]
  | ellipsoid a b c cen =>
    obtain ⟨ha, hb, hc⟩ := hv
    by_cases hd : dim = 2
    · exact ⟨.ellipse a b V3.zero, by simp [fromGsd, gsdSpec, Dict.has, getItem, Dict.get?, Val.isStr, asNum, mkEllipse,
        bind, Except.bind, ha, hb, hd], by simp [Shape.cls, hd], rfl, fun h => by
          simp [hd] at h⟩
    · exact ⟨.ellipsoid a b c V3.zero, by simp [fromGsd, gsdSpec, Dict.has, getItem, Dict.get?, Val.isStr, asNum,
        mkEllipsoid, bind, Except.bind, ha, hb, hc, hd], by simp [Shape.cls, hd], rfl, fun _ => rfl⟩
  | polygon vs n =>
    obtain ⟨s', h1, h2⟩ := gsd_roundtrip E (.polygon vs n) hv dim (fun d h => by cases h)
    exact ⟨s', h1, h2.cls, h2.verts, fun _ => h2.radii⟩
  | convexPolygon vs n =>
    obtain ⟨s', h1, h2⟩ := gsd_roundtrip E (.convexPolygon vs n) hv dim (fun d h => by cases h)
    exact ⟨s', h1, h2.cls, h2.verts, fun _ => h2.radii⟩
  | spheropolygon vs r n =>
    obtain ⟨s', h1, h2⟩ := gsd_roundtrip E (.spheropolygon vs r n) hv dim (fun d h => by cases h)
    exact ⟨s', h1, h2.cls, h2.verts, fun _ => h2.radii⟩
  | polyhedron vs f =>
    obtain ⟨s', h1, h2⟩ := gsd_roundtrip E (.polyhedron vs f) hv dim (fun d h => by cases h)
    exact ⟨s', h1, h2.cls, h2.verts, fun _ => h2.radii⟩
  | convexPolyhedron vs f =>
    obtain ⟨s', h1, h2⟩ := gsd_roundtrip E (.convexPolyhedron vs f) hv dim (fun d h => by cases h)
    exact ⟨s', h1, h2.cls, h2.verts, fun _ => h2.radii⟩
  | spheropolyhedron vs r =>
    obtain ⟨s', h1, h2⟩ := gsd_roundtrip E (.spheropolyhedron vs r) hv dim (fun d h => by cases h)
    exact ⟨s', h1, h2.cls, h2.verts, fun _ => h2.radii⟩

/-- externals used by the examples: any array of ≥ 3 rows is planar and simple, cycles of at most
four points are convex, the reorder leaves them alone, any normal is accepted, every point set
is its own hull with one (dummy) face. -/
def C19.exE : Ext ℝ where
  planarOk := fun vs => decide (3 ≤ vs.length)
  isSimple := fun _ => true
  isConvex := fun vs => decide (vs.length ≤ 4)
  reorder := fun vs => vs
  normalOk := fun _ _ => true
  hullAll := fun vs => decide (4 ≤ vs.length)
  hullFaces := fun _ => [[0, 1, 2]]

/-- a clockwise 3 × 2 rectangle far from the origin -/
def C19.exRect : List (V3 ℝ) := [⟨10, 20, 5⟩, ⟨10, 22, 5⟩, ⟨13, 22, 5⟩, ⟨13, 20, 5⟩]
/-- an L-shaped (non-convex) hexagon away from the origin -/
def C19.exL : List (V3 ℝ) := [⟨5, 5, 0⟩, ⟨7, 5, 0⟩, ⟨7, 6, 0⟩, ⟨6, 6, 0⟩, ⟨6, 7, 0⟩, ⟨5, 7, 0⟩]
/-- a tetrahedron away from the origin -/
def C19.exTetV : List (V3 ℝ) := [⟨3, 3, 3⟩, ⟨4, 3, 3⟩, ⟨3, 4, 3⟩, ⟨3, 3, 4⟩]

example : Valid exE (.polygon exRect ⟨0, 0, -1⟩) ∧ Valid exE (.spheropolygon exRect 1 ⟨0, 0, -1⟩)
    ∧ Valid exE (.ellipsoid 1 2 3 ⟨7, 8, 9⟩) ∧ Valid exE (.spheropolyhedron exTetV (1/2)) := by
  refine ⟨⟨by simp [exE, exRect], rfl, fun _ => rfl, norm_ez, rfl⟩,
    ⟨by norm_num, by simp [exE, exRect], by simp [exE, exRect], rfl, norm_ez, rfl⟩,
    ⟨by norm_num, by norm_num, by norm_num⟩, ⟨by simp [exE, exTetV], by norm_num⟩⟩

/-- rounding radius exactly 0 (legal: only negative radii are refused) still decodes to the
spheropolytope classes — the dispatch looks at the PRESENCE of the key (seeded change r1-C19-1 tested
its truthiness) -/
example : Valid exE (.spheropolygon exRect 0 ⟨0, 0, -1⟩) ∧ Valid exE (.spheropolyhedron exTetV 0) :=
  ⟨⟨le_refl _, by simp [exE, exRect], by simp [exE, exRect], rfl, norm_ez, rfl⟩, ⟨by simp [exE, exTetV], le_refl _⟩⟩

example : ∃ s', fromGsd exE (gsdSpec (.spheropolygon exRect 0 ⟨0, 0, -1⟩)) 7 = .ok s' ∧ s'.cls = .spheropolygon := by
  have h := gsd_dispatch exE (.spheropolygon exRect 0 ⟨0, 0, -1⟩)
    ⟨le_refl _, by simp [exE, exRect], by simp [exE, exRect], rfl, norm_ez, rfl⟩ 7
  obtain ⟨s', h1, h2, -⟩ := h
  exact ⟨s', h1, h2⟩

/-- **non-convex cycle → `Polygon`.** The `ConvexPolygon` attempt raises `ValueError`, the fallback
constructs the general polygon on the same vertices. -/
theorem gsd_nonconvex_polygon (E : Ext ℝ) (vs : List (V3 ℝ)) (dim : Nat)
    (hp : E.planarOk vs = true) (hs : E.isSimple vs = true) (hc : E.isConvex vs = false) :
    fromGsd E [("type", .str "Polygon"), ("vertices", .mat (rows vs))] dim
      = .ok (.polygon vs (computedNormal vs)) := by
  simp [fromGsd, Dict.has, getItem, Dict.get?, Val.isStr, asMat, mkConvexPolygon,
    convexPolygonCore, mkPolygon, pickNormal, bind, Except.bind, pure, Except.pure, hp, hs, hc]

example : exE.planarOk exL = true ∧ exE.isSimple exL = true ∧ exE.isConvex exL = false := by
  simp [exE, exL]

/-- **missing `type` → ValueError**, whatever else the dict holds. -/
theorem gsd_missing_type (E : Ext ℝ) (d : Dict ℝ) (dim : Nat) (h : "type" ∉ Dict.keys d) :
    fromGsd E d dim = .error "ValueError" := by
  have : Dict.has d "type" = false := by
    rw [← Bool.not_eq_true, Dict.has_iff]; exact h
  simp [fromGsd, this]

example : "type" ∉ Dict.keys ([("diameter", .num 2), ("vertices", .mat [])] : Dict ℝ) := by
  simp [Dict.keys]

/-- **unknown `type` → ValueError**: any value that is not one of the five schema strings
(a different string, or not a string at all), whatever the other keys. -/
theorem gsd_bad_type (E : Ext ℝ) (d : Dict ℝ) (dim : Nat) (ty : Val ℝ)
    (hty : Dict.get? d "type" = some ty) (hbad : ∀ t, t ∈ Spec.gsdTypes → ty.isStr t = false) :
    fromGsd E d dim = .error "ValueError" := by
  have hk : Dict.has d "type" = true := by
    rw [Dict.has_iff, ← Dict.get?_isSome_iff, hty]; rfl
  have h1 := hbad "Sphere" (by simp [Spec.gsdTypes])
  have h2 := hbad "Ellipsoid" (by simp [Spec.gsdTypes])
  have h3 := hbad "Polygon" (by simp [Spec.gsdTypes])
  have h4 := hbad "ConvexPolyhedron" (by simp [Spec.gsdTypes])
  have h5 := hbad "Mesh" (by simp [Spec.gsdTypes])
  simp [fromGsd, hk, getItem, hty, bind, Except.bind, h1, h2, h3, h4, h5]

example : ∀ t, t ∈ Spec.gsdTypes → (Val.str "Cylinder" : Val ℝ).isStr t = false := by
  simp [Spec.gsdTypes, Val.isStr]

/-! ## repr -/

/-- **C19 repr round trip**: evaluating the call that `__repr__` prints constructs the same class,
or its general-polytope base class for the two convex subclasses that inherit `__repr__`, with the
same vertices, faces, radii, centre and normal. -/
theorem repr_roundtrip (E : Ext ℝ) (s : Shape ℝ) (hv : Valid E s) :
    ∃ s', evalCall E (reprCall s) = .ok s' ∧ Spec.ReprRoundTrip s s' := by
  cases s with
  | circle r c =>
    have hr : (0:ℝ) < r := hv
    refine ⟨.circle r c, ?_, ⟨rfl, rfl, rfl, rfl, rfl, rfl⟩⟩
    simp [evalCall, reprCall, reqArg, optV3, asV3, v3list, Dict.get?, asNum, mkCircle, bind,
      Except.bind, pure, Except.pure, hr]
  | sphere r c =>
    have hr : (0:ℝ) < r := hv
    refine ⟨.sphere r c, ?_, ⟨rfl, rfl, rfl, rfl, rfl, rfl⟩⟩
    simp [evalCall, reprCall, reqArg, optV3, asV3, v3list, Dict.get?, asNum, mkSphere, bind,
      Except.bind, pure, Except.pure, hr]
  | ellipse a b c =>
    obtain ⟨ha, hb⟩ := hv
    refine ⟨.ellipse a b c, ?_, ⟨rfl, rfl, rfl, rfl, rfl, rfl⟩⟩
    simp [evalCall, reprCall, reqArg, optV3, asV3, v3list, Dict.get?, asNum, mkEllipse, bind,
      Except.bind, pure, Except.pure, ha, hb]
  | ellipsoid a b c cen =>
    obtain ⟨ha, hb, hc⟩ := hv
    refine ⟨.ellipsoid a b c cen, ?_, ⟨rfl, rfl, rfl, rfl, rfl, rfl⟩⟩
    simp [evalCall, reprCall, reqArg, optV3, asV3, v3list, Dict.get?, asNum, mkEllipsoid, bind,
      Except.bind, pure, Except.pure, ha, hb, hc]
  | polygon vs n =>
    obtain ⟨h1, h2, _, h4, h5⟩ := hv
    refine ⟨.polygon vs n, ?_, ⟨rfl, rfl, rfl, rfl, rfl, rfl⟩⟩
    simp [evalCall, reprCall, reqArg, optV3, asV3, v3list, Dict.get?, asMat, mkPolygon, pickNormal,
      bind, Except.bind, pure, Except.pure, h1, h2, h4, h5, V3.sdiv_one]
  | convexPolygon vs n =>
    obtain ⟨h1, h2, _, _, h4, h5⟩ := hv
    refine ⟨.polygon vs n, ?_, ⟨rfl, rfl, rfl, rfl, rfl, rfl⟩⟩
    simp [evalCall, reprCall, reqArg, optV3, asV3, v3list, Dict.get?, asMat, mkPolygon, pickNormal,
      bind, Except.bind, pure, Except.pure, h1, h2, h4, h5, V3.sdiv_one]
  | spheropolygon vs r n =>
    obtain ⟨hr, h1, h3, h4, h5, h6⟩ := hv
    refine ⟨.spheropolygon vs r n, ?_, ⟨rfl, rfl, rfl, rfl, rfl, rfl⟩⟩
    simp [evalCall, reprCall, reqArg, optV3, asV3, v3list, Dict.get?, asMat, asNum, mkSpheropolygon,
      convexPolygonCore, pickNormal, bind, Except.bind, pure, Except.pure, hr, h1, h3, h4, h5, h6,
      V3.sdiv_one]
  | polyhedron vs f =>
    refine ⟨.polyhedron vs f, ?_, ⟨rfl, rfl, rfl, rfl, rfl, rfl⟩⟩
    simp [evalCall, reprCall, reqArg, Dict.get?, asMat, asIdx, mkPolyhedron, bind, Except.bind,
      pure, Except.pure]
  | convexPolyhedron vs f =>
    refine ⟨.polyhedron vs f, ?_, ⟨rfl, rfl, rfl, rfl, rfl, rfl⟩⟩
    simp [evalCall, reprCall, reqArg, Dict.get?, asMat, asIdx, mkPolyhedron, bind, Except.bind,
      pure, Except.pure]
  | spheropolyhedron vs r =>
    obtain ⟨h1, hr⟩ := hv
    refine ⟨.spheropolyhedron vs r, ?_, ⟨rfl, rfl, rfl, rfl, rfl, rfl⟩⟩
    simp [evalCall, reprCall, reqArg, Dict.get?, asMat, asNum, mkSpheropolyhedron, bind,
      Except.bind, pure, Except.pure, h1, hr]

example : Valid exE (.convexPolygon exRect ⟨0, 0, -1⟩) ∧ Valid exE (.convexPolyhedron exTetV [[0, 2, 1]]) :=
  ⟨⟨by simp [exE, exRect], rfl, by simp [exE, exRect], rfl, norm_ez, rfl⟩, by simp [Valid, exE, exTetV]⟩

/-! ### repr at the level of the printed text -/

/-- **the evaluator covers every token `__repr__` emits**: for every shape of the ten classes (any
number of vertices / faces, negative coordinates printed with a unary minus, nested lists, integer
index lists), reading the printed tokens back gives exactly the constructor call `reprCall s` — the
keyword names, their order, and every number. `RealFmt`: every number is finite (a real). -/
theorem repr_text_roundtrip (nk : NumFmt ℝ) (hnk : Spec.RealFmt nk) (s : Shape ℝ) :
    parseCall (reprTokens nk s) = .ok (reprCall s) :=
  parseCall_printCall hnk _ (reprCall_argOk s)

/-- **C19 repr round trip on the text**: `eval(repr(shape))` (tokens in, object out). -/
theorem repr_eval_text (E : Ext ℝ) (nk : NumFmt ℝ) (hnk : Spec.RealFmt nk) (s : Shape ℝ) (hv : Valid E s) :
    ∃ s', evalText E (reprTokens nk s) = .ok s' ∧ Spec.ReprRoundTrip s s' := by
  obtain ⟨s', h1, h2⟩ := repr_roundtrip E s hv
  exact ⟨s', by simp only [evalText, repr_text_roundtrip nk hnk s, h1], h2⟩

/-- the sign classifier of the examples: negative numbers print with a minus sign -/
noncomputable def C19.exFmt : NumFmt ℝ := fun x => .fin (decide (x < 0))

example : Spec.RealFmt exFmt := fun x => ⟨decide (x < 0), rfl⟩

/-- the text of a polygon in the half space x < 0: minus signs, nested lists -/
example : reprTokens exFmt (.polygon [⟨-1, 0, 0⟩, ⟨-2, 0, 0⟩, ⟨-2, 1, 0⟩] ⟨0, 0, 1⟩) =
    [.name "coxeter.shapes.Polygon", .lpar, .name "vertices", .eq,
      .lbr, .lbr, .minus, .num (- -1), .comma, .num 0, .comma, .num 0, .rbr, .comma,
            .lbr, .minus, .num (- -2), .comma, .num 0, .comma, .num 0, .rbr, .comma,
            .lbr, .minus, .num (- -2), .comma, .num 1, .comma, .num 0, .rbr, .rbr, .comma,
      .name "normal", .eq, .lbr, .num 0, .comma, .num 0, .comma, .num 1, .rbr, .rpar] := by
  have h1 : decide ((1:ℝ) < 0) = false := by norm_num
  simp [h1, reprTokens, printCall, reprCall, commaSep, printKw, printVal, printList, prNum, exFmt, rows, v3list]

/-- **non-finite numbers**: a radius that `float.__repr__` prints as `inf` / `-inf` / `nan` appears in
the text as a bare NAME; evaluating it in an environment that binds only `coxeter` is a `NameError`
(`Circle(inf)`, `Sphere(inf)` pass their constructors: `inf > 0`). The property quantifies over the
generated (finite) shapes, where this cannot happen (`repr_eval_text`). -/
theorem repr_nonfinite_name_error (E : Ext ℝ) (nk : NumFmt ℝ) (r : ℝ) (c : V3 ℝ)
    (h : nk r = .nan ∨ ∃ b, nk r = .inf b) :
    evalText E (reprTokens nk (.circle r c)) = .error "NameError" ∧
    evalText E (reprTokens nk (.sphere r c)) = .error "NameError" := by
  rcases h with h | ⟨b, h⟩
  · constructor <;>
      simp [evalText, reprTokens, printCall, reprCall, commaSep, printKw, printVal, prNum, h, parseCall,
        sepBy, parseKw, parseArg, parseNumber]
  · cases b <;> constructor <;>
      simp [evalText, reprTokens, printCall, reprCall, commaSep, printKw, printVal, prNum, h, parseCall,
        sepBy, parseKw, parseArg, parseNumber]

example : (fun _ => NumKind.inf false : NumFmt ℝ) 1 = .nan ∨ ∃ b, (fun _ => NumKind.inf false : NumFmt ℝ) 1 = .inf b :=
  Or.inr ⟨false, rfl⟩

/-! ## to_json -/

/-- **`to_json` returns exactly the requested attributes**: when it returns, the key set is the
requested set (each once, duplicates in the request collapse) and every key is bound to
`getattr(self, key)`. -/
theorem to_json_exact_keys (getattr : String → Except String (Val ℝ)) (attrs : List String)
    (d : Dict ℝ) (h : toJson getattr attrs [] = .ok d) : Spec.ExactAttrs getattr attrs d where
  subset := fun k hk => by
    have := (toJson_keys attrs [] d h k).mp hk
    simpa [Dict.keys] using this
  complete := toJson_get attrs [] d h
  nodup := toJson_nodup attrs [] d h (by simp [Dict.keys])

/-- without repeated names in the request, the keys come out in request order -/
theorem to_json_keys_in_order (getattr : String → Except String (Val ℝ)) (attrs : List String)
    (hn : attrs.Nodup) :
    ∀ (acc d : Dict ℝ), (∀ a, a ∈ attrs → a ∉ Dict.keys acc) → toJson getattr attrs acc = .ok d →
      Dict.keys d = Dict.keys acc ++ attrs := by
  induction attrs with
  | nil => intro acc d _ h; simp only [toJson, Except.ok.injEq] at h; simp [h]
  | cons a rest ih =>
    intro acc d hdis h
    obtain ⟨v, _, h2⟩ := toJson_cons_ok h
    have hn' := List.nodup_cons.mp hn
    have ha : a ∉ Dict.keys acc := hdis a (List.mem_cons_self ..)
    rw [ih hn'.2 _ _ ?_ h2, Dict.keys_set]
    · simp [ha]
    · intro b hb hmem
      rcases (Dict.mem_keys_set _ _ _ _).mp hmem with h3 | h3
      · exact hdis b (List.mem_cons_of_mem _ hb) h3
      · exact hn'.1 (h3 ▸ hb)

/-- it does return whenever every requested getter does -/
theorem to_json_total (getattr : String → Except String (Val ℝ)) (attrs : List String)
    (h : ∀ a, a ∈ attrs → ∃ v, getattr a = .ok v) : ∃ d, toJson getattr attrs [] = .ok d :=
  toJson_total attrs [] h

example : toJson (getattrOf ["volume", "radius"] (fun a => .ok (.str a))) ["radius", "volume", "radius"] []
    = .ok ([("radius", .str "radius"), ("volume", .str "volume")] : Dict ℝ) := by
  simp [toJson, getattrOf, Dict.set, bind, Except.bind]

/-- **unknown attribute → AttributeError**: if a requested name is not an attribute of the class
(and the getters of the attributes requested before it return), `to_json` raises AttributeError. -/
theorem to_json_unknown_attr (known : List String) (val : String → Except String (Val ℝ))
    (pre : List String) (a : String) (post : List String) (ha : a ∉ known)
    (hpre : ∀ b, b ∈ pre → b ∈ known ∧ ∃ v, val b = .ok v) :
    toJson (getattrOf known val) (pre ++ a :: post) [] = .error "AttributeError" := by
  apply toJson_first_error
  · intro b hb
    obtain ⟨hk, v, hv⟩ := hpre b hb
    exact ⟨v, by simp [getattrOf, hk, hv]⟩
  · simp [getattrOf, ha]

example : toJson (getattrOf ["volume", "radius"] (fun a => .ok (.str a))) ["radius", "colour", "volume"]
    ([] : Dict ℝ) = .error "AttributeError" :=
  to_json_unknown_attr _ _ ["radius"] "colour" ["volume"] (by simp) (by simp)

/-! ## `_map_dict_keys` -/

/-- the model's lookup is the library lookup with default -/
theorem map_dict_keys_lookup (m : List (String × String)) (k : String) :
    mappingGet m k = Spec.rename m k := mappingGet_eq_rename m k

/-- the mapping constant is HOOMD's vocabulary -/
theorem hoomd_mapping_constant : hoomdDictMapping = Spec.hoomdNames := rfl

/-- **renaming law**: when the renamed keys do not collide, the result is the entry-by-entry
renaming: mapped keys renamed, the others kept, same values, same order, nothing lost. -/
theorem map_dict_keys_renamed (m : List (String × String)) (d : Dict ℝ)
    (h : (Dict.keys (Spec.renamed m d)).Nodup) : mapDictKeys d m = Spec.renamed m d := by
  unfold mapDictKeys
  rw [mapDictKeysFrom_nodup]
  · simp [Spec.renamed, mappingGet_eq_rename]
  · simpa [Dict.keys, Spec.renamed, mappingGet_eq_rename, Function.comp_def] using h

/-- **no key lost, none invented** (no hypothesis): the keys of the result are exactly the images
of the keys of the input. -/
theorem map_dict_keys_no_key_lost (m : List (String × String)) (d : Dict ℝ) (k' : String) :
    k' ∈ Dict.keys (mapDictKeys d m) ↔ ∃ k, k ∈ Dict.keys d ∧ k' = Spec.rename m k := by
  unfold mapDictKeys
  rw [mapDictKeysFrom_mem]
  simp [Dict.keys, mappingGet_eq_rename]

example : (Dict.keys (Spec.renamed Spec.hoomdNames
    ([("vertices", .live), ("radius", .num 1), ("inertia_tensor", .mat []), ("area", .num 2)] : Dict ℝ))).Nodup := by
  simp [Spec.renamed, Spec.rename, Spec.hoomdNames, Dict.keys, List.lookup]

example : mapDictKeys ([("vertices", .live), ("radius", .num 1), ("inertia_tensor", .mat []), ("area", .num 2)] : Dict ℝ)
    hoomdDictMapping =
    [("vertices", .live), ("sweep_radius", .num 1), ("moment_inertia", .mat []), ("area", .num 2)] := by
  simp [mapDictKeys, mapDictKeysFrom, hoomdDictMapping, mappingGet, Dict.set]

/-! ## to_hoomd -/

/-- **documented key set per class** (as a set: the code emits `sweep_radius` last), and
`Circle` / `Ellipse` have no `to_hoomd`. -/
theorem hoomd_keys (M : Meas ℝ) (s : Shape ℝ) :
    match Spec.hoomdKeys s.cls with
    | some ks => ∃ d s', toHoomd M s = .ok (d, s') ∧ (Dict.keys d).Perm ks
    | none => toHoomd M s = .error "AttributeError" := by
  cases s with
  | circle r c => rfl
  | ellipse a b c => rfl
  | sphere r c =>
    refine ⟨_, _, by simp only [toHoomd, toHoomdRaw, sphereToHoomd_eq]; rfl, ?_⟩
    rw [Dict.keys_resolve]; simp only [Dict.keys, List.map]; decide
  | ellipsoid a b c cen =>
    refine ⟨_, _, by simp only [toHoomd, toHoomdRaw, ellipsoidToHoomd_eq]; rfl, ?_⟩
    rw [Dict.keys_resolve]; simp only [Dict.keys, List.map]; decide
  | polygon vs n =>
    refine ⟨_, _, by simp only [toHoomd, toHoomdRaw, polygonToHoomd_eq]; rfl, ?_⟩
    rw [Dict.keys_resolve]; simp only [Dict.keys, List.map]; decide
  | convexPolygon vs n =>
    refine ⟨_, _, by simp only [toHoomd, toHoomdRaw, polygonToHoomd_eq]; rfl, ?_⟩
    rw [Dict.keys_resolve]; simp only [Dict.keys, List.map]; decide
  | spheropolygon vs r n =>
    refine ⟨_, _, by simp only [toHoomd, toHoomdRaw, spheropolygonToHoomd_eq]; rfl, ?_⟩
    rw [Dict.keys_resolve]; simp only [Dict.keys, List.map]; decide
  | polyhedron vs f =>
    refine ⟨_, _, by simp only [toHoomd, toHoomdRaw, polyhedronToHoomd_eq]; rfl, ?_⟩
    rw [Dict.keys_resolve]; simp only [Dict.keys, List.map]; decide
  | convexPolyhedron vs f =>
    refine ⟨_, _, by simp only [toHoomd, toHoomdRaw, polyhedronToHoomd_eq]; rfl, ?_⟩
    rw [Dict.keys_resolve]; simp only [Dict.keys, List.map]; decide
  | spheropolyhedron vs r =>
    refine ⟨_, _, by simp only [toHoomd, toHoomdRaw, spheropolyhedronToHoomd_eq]; rfl, ?_⟩
    rw [Dict.keys_resolve]; simp only [Dict.keys, List.map]; decide

example : ∃ d s', toHoomd exM (.polygon exRect ⟨0, 0, -1⟩) = .ok (d, s') ∧
    (Dict.keys d).Perm ["vertices", "centroid", "sweep_radius", "area", "moment_inertia"] :=
  hoomd_keys exM (.polygon exRect ⟨0, 0, -1⟩)

/-- **`Polygon.to_hoomd` (and `ConvexPolygon`) describes the centred polygon**: the (x, y) vertices
are the original ones minus the centroid, `centroid` is 0, `area` and `moment_inertia` are the
getters' values ON THAT centred vertex set, `sweep_radius` is 0, the returned arrays are copies
(they do not depend on the final state), and the shape is left where it was. -/
theorem hoomd_centred_polygon (M : Meas ℝ) (hM : Spec.Equivariant M) (vs : List (V3 ℝ)) (n : V3 ℝ)
    (h : vs ≠ []) :
    (∃ d, toHoomd M (.polygon vs n) = .ok (d, .polygon vs n) ∧
      Spec.HoomdCentred M 2 "area" true vs d ∧ Dict.get? d "sweep_radius" = some (.num 0)) ∧
    (∃ d, toHoomd M (.convexPolygon vs n) = .ok (d, .convexPolygon vs n) ∧
      Spec.HoomdCentred M 2 "area" true vs d ∧ Dict.get? d "sweep_radius" = some (.num 0)) := by
  have hr := restore_recomputed hM h V3.zero
  have hc := centre_recomputed M vs V3.zero
  have h0 := cen_centred hM h
  constructor <;>
  · refine ⟨_, by simp only [toHoomd, toHoomdRaw, polygonToHoomd_eq, bind, Except.bind, pure, Except.pure, hr]; rfl, ?_⟩
    rw [hc, h0]
    refine ⟨⟨?_, ?_, ?_, fun _ => ?_⟩, ?_⟩ <;>
      simp [resolve, Dict.get?, copyOf, Spec.coords, v3list_zero]

example : exRect ≠ [] ∧ Spec.Equivariant exM := ⟨by simp [exRect], exM_equivariant⟩

/-- **`Polyhedron.to_hoomd` (and `ConvexPolyhedron`, whose centroid is the cached `_centroid`)
describes the centred polyhedron**, leaves the shape where it was. -/
theorem hoomd_centred_polyhedron (M : Meas ℝ) (hM : Spec.Equivariant M) (vs : List (V3 ℝ))
    (f : List (List Nat)) (h : vs ≠ []) :
    (∃ d, toHoomd M (.polyhedron vs f) = .ok (d, .polyhedron vs f) ∧
      Spec.HoomdCentred M 3 "volume" true vs d ∧ Dict.get? d "faces" = some (.idx f) ∧
      Dict.get? d "sweep_radius" = some (.num 0)) ∧
    (∃ d, toHoomd M (.convexPolyhedron vs f) = .ok (d, .convexPolyhedron vs f) ∧
      Spec.HoomdCentred M 3 "volume" true vs d ∧ Dict.get? d "faces" = some (.idx f) ∧
      Dict.get? d "sweep_radius" = some (.num 0)) := by
  have h0 := cen_centred hM h
  constructor
  · have hr := restore_recomputed hM h V3.zero
    have hc := centre_recomputed M vs V3.zero
    refine ⟨_, by simp only [toHoomd, toHoomdRaw, polyhedronToHoomd_eq, centroidOf, bind, Except.bind, pure, Except.pure, hr]; rfl, ?_⟩
    rw [hc, h0]
    refine ⟨⟨?_, ?_, ?_, fun _ => ?_⟩, ?_, ?_⟩ <;>
      simp [resolve, Dict.get?, copyOf, Spec.coords, v3list_zero, rows]
  · have hr := restore_cached hM h
    have hc := centre_cached M vs
    have hcc := centre_cached_cache M vs
    refine ⟨_, by simp only [toHoomd, toHoomdRaw, polyhedronToHoomd_eq, centroidOf, bind, Except.bind, pure, Except.pure, hr]; rfl, ?_⟩
    rw [hcc, hc, h0]
    refine ⟨⟨?_, ?_, ?_, fun _ => ?_⟩, ?_, ?_⟩ <;>
      simp [resolve, Dict.get?, copyOf, Spec.coords, v3list_zero, rows]

example : exTetV ≠ [] := by simp [exTetV]

/-- **`ConvexSpheropolyhedron.to_hoomd` describes the centred spheropolyhedron** (no inertia tensor
is documented for this class); `sweep_radius` is the rounding radius. -/
theorem hoomd_centred_spheropolyhedron (M : Meas ℝ) (hM : Spec.Equivariant M) (vs : List (V3 ℝ))
    (r : ℝ) (h : vs ≠ []) :
    ∃ d, toHoomd M (.spheropolyhedron vs r) = .ok (d, .spheropolyhedron vs r) ∧
      Spec.HoomdCentred M 3 "volume" false vs d ∧ Dict.get? d "sweep_radius" = some (.num r) := by
  have h0 := cen_centred hM h
  have hr := restore_cached hM h
  have hc := centre_cached M vs
  refine ⟨_, by simp only [toHoomd, toHoomdRaw, spheropolyhedronToHoomd_eq, bind, Except.bind, pure, Except.pure, hr]; rfl, ?_⟩
  rw [hc]
  refine ⟨⟨?_, ?_, ?_, fun hh => by cases hh⟩, ?_⟩ <;>
    simp [resolve, Dict.get?, copyOf, Spec.coords, rows]

example : exTetV ≠ [] ∧ Valid exE (.spheropolyhedron exTetV (1/2)) :=
  ⟨by simp [exTetV], by simp [Valid, exE, exTetV]⟩

/-- **`Sphere.to_hoomd` / `Ellipsoid.to_hoomd`**: centre 0, volume and inertia tensor taken at
centre 0, sizes unchanged, the centre restored. -/
theorem hoomd_centred_curved (M : Meas ℝ) (r a b c : ℝ) (cen : V3 ℝ) :
    (∃ d, toHoomd M (.sphere r cen) = .ok (d, .sphere r cen) ∧ Spec.HoomdCentredCurved M d ∧
      Dict.get? d "diameter" = some (.num (2 * r))) ∧
    (∃ d, toHoomd M (.ellipsoid a b c cen) = .ok (d, .ellipsoid a b c cen) ∧
      Spec.HoomdCentredCurved M d ∧ Dict.get? d "a" = some (.num a) ∧
      Dict.get? d "b" = some (.num b) ∧ Dict.get? d "c" = some (.num c)) := by
  constructor
  · refine ⟨_, by simp only [toHoomd, toHoomdRaw, sphereToHoomd_eq, bind, Except.bind, pure, Except.pure]; rfl, ?_⟩
    refine ⟨⟨?_, ?_, ?_⟩, ?_⟩ <;> simp [resolve, copyOf, Dict.get?, v3list_zero]
  · refine ⟨_, by simp only [toHoomd, toHoomdRaw, ellipsoidToHoomd_eq, bind, Except.bind, pure, Except.pure]; rfl, ?_⟩
    refine ⟨⟨?_, ?_, ?_⟩, ?_, ?_, ?_⟩ <;> simp [resolve, copyOf, Dict.get?, v3list_zero]

example : ∃ d, toHoomd exM (.sphere 2 ⟨5, 6, 7⟩) = .ok (d, .sphere 2 ⟨5, 6, 7⟩) ∧
    Spec.HoomdCentredCurved exM d := by
  obtain ⟨d, h1, h2, _⟩ := (hoomd_centred_curved exM 2 1 1 1 ⟨5, 6, 7⟩).1
  exact ⟨d, h1, h2⟩

/-! ### ConvexSpheropolygon: the code violates the property (known finding) -/

/-- what IS true of `ConvexSpheropolygon.to_hoomd` as coded, for every spheropolygon: the four
documented keys, `centroid` reported as `[0,0,0]`, `sweep_radius` = the rounding radius, the shape
left where it was — but `vertices` are the ORIGINAL (uncentred, 3-column) vertices and `area` is
evaluated on them. Missing from the property: `vertices = original − centroid`
(`hoomd_spheropolygon_not_centred_fails`). -/
theorem hoomd_spheropolygon_partial (M : Meas ℝ) (vs : List (V3 ℝ)) (r : ℝ) (n : V3 ℝ) :
    ∃ d, toHoomd M (.spheropolygon vs r n) = .ok (d, .spheropolygon vs r n) ∧
      Dict.keys d = ["vertices", "sweep_radius", "area", "centroid"] ∧
      Dict.get? d "vertices" = some (.mat (rows vs)) ∧
      Dict.get? d "centroid" = some (.vec [0, 0, 0]) ∧
      Dict.get? d "sweep_radius" = some (.num r) ∧
      Dict.get? d "area" = some (.num (M.scalar "area" vs)) := by
  have hb : (setCentroid M .recomputed ⟨vs, V3.zero⟩ (M.cen vs)).verts = vs := by
    simp only [setCentroid, centroidOf, map_shift_none]
  refine ⟨_, by simp only [toHoomd, toHoomdRaw, spheropolygonToHoomd_eq, bind, Except.bind, pure, Except.pure, hb]; rfl, ?_⟩
  refine ⟨?_, ?_, ?_, ?_, ?_⟩ <;> simp [resolve, Dict.get?, Dict.keys, copyOf, Shape.verts]

example : ∃ d, toHoomd exM (.spheropolygon unitSquare 1 ⟨0, 0, 1⟩) = .ok (d, .spheropolygon unitSquare 1 ⟨0, 0, 1⟩) ∧
    Dict.get? d "vertices" = some (.mat (rows unitSquare)) := by
  obtain ⟨d, h1, _, h2, _⟩ := hoomd_spheropolygon_partial exM unitSquare 1 ⟨0, 0, 1⟩
  exact ⟨d, h1, h2⟩

/-- **the code violates the property** on the unit square with rounding radius 1 (centroid
`(1/2,1/2,0)`, an equivariant centroid getter): whatever dict `to_hoomd` returns, it is NOT the
description of the centred shape — with two or with three coordinate columns, with or without an
inertia tensor. -/
theorem hoomd_spheropolygon_not_centred_fails :
    ¬ ∃ (d : Dict ℝ) (s' : Shape ℝ) (cols : Nat) (inertia : Bool),
        toHoomd exM (.spheropolygon unitSquare 1 ⟨0, 0, 1⟩) = .ok (d, s') ∧
        Spec.HoomdCentred exM cols "area" inertia unitSquare d := by
  rintro ⟨d, s', cols, inertia, hd, hc⟩
  obtain ⟨d', h1, _, h2, _⟩ := hoomd_spheropolygon_partial exM unitSquare 1 ⟨0, 0, 1⟩
  rw [h1] at hd
  obtain ⟨rfl, -⟩ := Prod.mk.inj (Except.ok.inj hd)
  have hv := hc.vertices
  rw [h2, exM_cen_unitSquare] at hv
  by_cases h2c : cols = 2
  · simp [Spec.coords, Spec.centred, rows, unitSquare, h2c] at hv
  · simp [Spec.coords, Spec.centred, rows, unitSquare, h2c] at hv


/-! ## to_hoomd with the measure models of C01 / C02 as getters, on objects that carry their caches

`CPObj` / `PHObj` (`Model/Codec.lean`) hold what the real getters read: `_vertices`, the cached
`_centroid`, `_volume`, simplex normals of a `ConvexPolyhedron`; `_vertices`, `_equations` of a
`Polyhedron`.  `measCP` / `measPH` are the values a FRESHLY CONSTRUCTED object on a vertex array
reports (C01 / C02 measure models).  The only hypothesis is the surface certificate of C01 / C02
(`Closed` / `Closed0`: the simplices bound a solid — checked per run by `chainCheck`), which is what
makes "centroid" commute with translations. -/

/-- **`Polygon.to_hoomd` / `ConvexPolygon.to_hoomd`, measured** (getters = the measure model of C04:
`Poly2.centroid`, `Poly2.area`, `Poly2.inertiaTensor` with the stored normal `n` and the two kabsch
matrices): vertices (x, y) = input − centroid, `centroid` = 0, `area` and `moment_inertia` = the
model's values on the centred vertex set, shape restored.  Polygons cache nothing, so the state is
the vertex array alone and the step is idempotent.  Hypothesis: the centroid getter commutes with
translations AT this vertex array (`polygon_centroid_equivariant`: true for planar cycles). -/
theorem hoomd_centred_polygon_measured (n : V3 ℝ) (R R2 : M3 ℝ) (vs : List (V3 ℝ))
    (hM : Spec.EquivariantAt (measPolygon n R R2) vs) :
    ∃ d, polygonToHoomd (measPolygon n R R2) ⟨vs, V3.zero⟩ = .ok (d, ⟨vs, V3.zero⟩) ∧
      Spec.HoomdCentred (measPolygon n R R2) 2 "area" true vs d ∧
      Dict.get? d "sweep_radius" = some (.num 0) ∧
      (∀ d' s', polygonToHoomd (measPolygon n R R2) ⟨vs, V3.zero⟩ = .ok (d', s') →
        polygonToHoomd (measPolygon n R R2) s' = .ok (d', s')) := by
  have hr := restore_recomputed_at hM V3.zero
  have hc := centre_recomputed (measPolygon n R R2) vs V3.zero
  have h0 := cen_centred_at hM
  have hstate : setCentroid (measPolygon n R R2) .recomputed
      (setCentroid (measPolygon n R R2) .recomputed ⟨vs, V3.zero⟩ V3.zero) ((measPolygon n R R2).cen vs)
        = ⟨vs, V3.zero⟩ := by
    have : (setCentroid (measPolygon n R R2) .recomputed
      (setCentroid (measPolygon n R R2) .recomputed ⟨vs, V3.zero⟩ V3.zero) ((measPolygon n R R2).cen vs)).cache
        = V3.zero := rfl
    cases hs : setCentroid (measPolygon n R R2) .recomputed
      (setCentroid (measPolygon n R R2) .recomputed ⟨vs, V3.zero⟩ V3.zero) ((measPolygon n R R2).cen vs) with
    | mk v c => rw [hs] at hr this; simp only at hr this; rw [hr, this]
  have hcall : polygonToHoomd (measPolygon n R R2) ⟨vs, V3.zero⟩ = .ok
      ([("vertices", .mat ((setCentroid (measPolygon n R R2) .recomputed ⟨vs, V3.zero⟩ V3.zero).verts.map
            fun v => [v.x, v.y])),
        ("centroid", .vec (v3list ((measPolygon n R R2).cen
            (setCentroid (measPolygon n R R2) .recomputed ⟨vs, V3.zero⟩ V3.zero).verts))),
        ("area", .num ((measPolygon n R R2).scalar "area"
            (setCentroid (measPolygon n R R2) .recomputed ⟨vs, V3.zero⟩ V3.zero).verts)),
        ("moment_inertia", .mat ((measPolygon n R R2).tensor
            (setCentroid (measPolygon n R R2) .recomputed ⟨vs, V3.zero⟩ V3.zero).verts)),
        ("sweep_radius", .num (lit 0))], ⟨vs, V3.zero⟩) := by
    rw [polygonToHoomd_eq]; simp only [hstate]
  refine ⟨_, hcall, ?_, ?_, ?_⟩
  · rw [hc, h0]
    refine ⟨?_, ?_, ?_, fun _ => ?_⟩ <;> simp [Dict.get?, Spec.coords, v3list_zero]
  · simp [Dict.get?]
  · intro d' s' h
    rw [hcall] at h
    obtain ⟨rfl, rfl⟩ := Prod.mk.inj (Except.ok.inj h)
    exact hcall

/-- **`Polygon.to_hoomd`, measured, under the certificates of C04** (no equivariance hypothesis left):
`R` a frame for the stored normal, vertices and a triangulation bounded by the cycle in the plane
`n · v = d`, non-zero area ⇒ the dict describes the centred polygon with the values of the C04
measure model, and a second call returns the same dict and state. -/
theorem hoomd_centred_polygon_certified {vs : List (V3 ℝ)} {n : V3 ℝ} {dd : ℝ} {R : M3 ℝ} (R2 : M3 ℝ)
    {Ts : List (Tri ℝ)} (hF : IsFrame R n) (hpl : InPlane n dd vs) (hT : TrisInPlane n dd Ts)
    (h : Triangulates vs Ts) (hA : Spec3.area n Ts ≠ 0) :
    ∃ d, polygonToHoomd (measPolygon n R R2) ⟨vs, V3.zero⟩ = .ok (d, ⟨vs, V3.zero⟩) ∧
      Spec.HoomdCentred (measPolygon n R R2) 2 "area" true vs d ∧
      polygonToHoomd (measPolygon n R R2) ⟨vs, V3.zero⟩ = .ok (d, ⟨vs, V3.zero⟩) := by
  obtain ⟨d, h1, h2, -, -⟩ := hoomd_centred_polygon_measured n R R2 vs
    (polygon_centroid_equivariant R2 hF hpl hT h hA)
  exact ⟨d, h1, h2, h1⟩

/-- the certificates are satisfiable: the unit square of C04 with its two-triangle fan, `R = 1` -/
example : IsFrame (M3.one : M3 ℝ) ⟨0, 0, 1⟩ ∧ InPlane ⟨0, 0, 1⟩ 0 exSq ∧ TrisInPlane ⟨0, 0, 1⟩ 0 exSqT ∧
    Triangulates exSq exSqT ∧ Spec3.area ⟨0, 0, 1⟩ exSqT ≠ 0 := by
  refine ⟨⟨isRot_one, by simp [M3.mulVec, M3.one, Scalar.lit]⟩, ?_, ?_, ?_, ?_⟩
  · intro v hv
    simp only [exSq, List.mem_cons, List.not_mem_nil, or_false] at hv
    rcases hv with rfl | rfl | rfl | rfl <;> simp [V3.dot]
  · intro t ht
    simp only [exSqT, List.mem_cons, List.not_mem_nil, or_false] at ht
    rcases ht with rfl | rfl <;> simp [V3.dot]
  · intro φ hφ
    have c := hφ ⟨0,0,0⟩ ⟨1,1,0⟩
    simp [sumEdges, cycleEdges, exSq, exSqT, triEdges, Poly2.rotl] at c ⊢
    linarith
  · simp only [Spec3.area, exSqT]; unfold Spec3.triArea; unfold_model; norm_num

/-- **`ConvexPolyhedron.to_hoomd`, measured**: on an object whose caches are fresh, the call returns
the description of the CENTRED shape — vertices = input − centroid, `centroid` = (0,0,0), `volume` and
`moment_inertia` = what the measure model of C01 computes on that centred vertex set — and leaves
behind THE SAME OBJECT, every cache included (so nothing a later call reads has changed). -/
theorem hoomd_centred_convex_polyhedron_measured (simp : List (Nat × Nat × Nat)) (f : List (List Nat))
    (vs : List (V3 ℝ)) (hc : Closed (trisOf vs simp)) :
    ∃ d, (CPObj.fresh simp f vs).toHoomd = .ok (d, CPObj.fresh simp f vs) ∧
      Spec.HoomdCentred (measCP simp) 3 "volume" true vs d ∧
      Dict.get? d "faces" = some (.idx f) ∧ Dict.get? d "sweep_radius" = some (.num 0) ∧
      Dict.keys d = ["vertices", "faces", "centroid", "volume", "moment_inertia", "sweep_radius"] := by
  have h0 : ((CPObj.fresh simp f vs).setCentroid V3.zero).centroid = V3.zero :=
    CPObj.setCentroid_centroid simp f vs hc V3.zero
  refine ⟨_, by rw [CPObj.toHoomd_eq]; simp only [CPObj.centre_restore simp f vs hc]; rfl, ?_⟩
  rw [h0, CPObj.centre_fresh simp f vs hc]
  refine ⟨⟨?_, ?_, ?_, fun _ => ?_⟩, ?_, ?_, ?_⟩ <;>
    simp [Dict.get?, Dict.keys, Spec.coords, v3list_zero, rows, measCP, CPObj.fresh,
      CPObj.inertiaTensor, CPObj.tris]

/-- the four outward faces of the tetrahedron `exTetV` as index triples, and the tetrahedron itself -/
def C19.exSimp : List (Nat × Nat × Nat) := [(0, 2, 1), (0, 1, 3), (1, 2, 3), (0, 3, 2)]
def C19.exTet : Tet ℝ := ⟨⟨3, 3, 3⟩, ⟨4, 3, 3⟩, ⟨3, 4, 3⟩, ⟨3, 3, 4⟩⟩

theorem C19.exTet_closed : Closed (trisOf exTetV exSimp) := by
  refine ⟨[exTet], ?_, ?_⟩
  · have : trisOf exTetV exSimp = [exTet].flatMap Tet.bdry := by
      simp [trisOf, exTetV, exSimp, exTet, Tet.bdry]
    rw [this]; exact ChainEq.refl _
  · unfold Spec.vol Spec.tetVol exTet; unfold_model; norm_num

example : ∃ d, (CPObj.fresh exSimp [[0, 2, 1], [0, 1, 3], [1, 2, 3], [0, 3, 2]] exTetV).toHoomd
      = .ok (d, CPObj.fresh exSimp [[0, 2, 1], [0, 1, 3], [1, 2, 3], [0, 3, 2]] exTetV) ∧
    Spec.HoomdCentred (measCP exSimp) 3 "volume" true exTetV d := by
  obtain ⟨d, h1, h2, -⟩ := hoomd_centred_convex_polyhedron_measured exSimp _ exTetV exTet_closed
  exact ⟨d, h1, h2⟩

/-- what a history of `to_hoomd` calls and centroid moves does to the vertex array: the positions at
which `to_hoomd` is asked, and the final position (`cen` = the centroid getter) -/
noncomputable def C19.Spec.track (cen : List (V3 ℝ) → V3 ℝ) : List (HOp ℝ) → List (V3 ℝ) → List (List (V3 ℝ)) × List (V3 ℝ)
  | [], vs => ([], vs)
  | .toHoomd :: r, vs => (vs :: (C19.Spec.track cen r vs).1, (C19.Spec.track cen r vs).2)
  | .setCentroid v :: r, vs => C19.Spec.track cen r (vs.map fun p => p + (v - cen vs))

/-- **any history** of `to_hoomd` calls and centroid-setter moves on a `ConvexPolyhedron`: every
`to_hoomd` in it returns the description of the shape AS IT IS THEN, centred; the object stays fresh
(it is the object a constructor call on its current vertices would give). In particular
`to_hoomd` twice = once. -/
theorem hoomd_convex_polyhedron_history (simp : List (Nat × Nat × Nat)) (f : List (List Nat))
    (ops : List (HOp ℝ)) :
    ∀ (vs : List (V3 ℝ)), Closed (trisOf vs simp) →
      ∃ ds, CPObj.run ops (CPObj.fresh simp f vs)
          = .ok (ds, CPObj.fresh simp f (Spec.track (measCP simp).cen ops vs).2) ∧
        List.Forall₂ (fun p d => Spec.HoomdCentred (measCP simp) 3 "volume" true p d)
          (Spec.track (measCP simp).cen ops vs).1 ds := by
  induction ops with
  | nil => intro vs _; exact ⟨[], rfl, List.Forall₂.nil⟩
  | cons op r ih =>
    intro vs hc
    cases op with
    | toHoomd =>
      obtain ⟨d, h1, h2, -⟩ := hoomd_centred_convex_polyhedron_measured simp f vs hc
      obtain ⟨ds, h3, h4⟩ := ih vs hc
      refine ⟨d :: ds, ?_, List.Forall₂.cons h2 h4⟩
      simp only [CPObj.run, h1, h3, bind, Except.bind, pure, Except.pure, Spec.track]
    | setCentroid v =>
      have hc' := CPObj.closed_moved simp vs hc (v - (CPObj.fresh simp f vs).centroid)
      obtain ⟨ds, h3, h4⟩ := ih _ hc'
      refine ⟨ds, ?_, ?_⟩
      · simp only [CPObj.run, CPObj.setCentroid_fresh simp f vs hc]
        exact h3
      · exact h4

/-- **`to_hoomd` twice = once** (seeded change r2-C19-2: a restore step that forgets the caches
breaks exactly this) -/
theorem hoomd_convex_polyhedron_idempotent (simp : List (Nat × Nat × Nat)) (f : List (List Nat))
    (vs : List (V3 ℝ)) (hc : Closed (trisOf vs simp)) :
    ∃ d, CPObj.run [.toHoomd, .toHoomd] (CPObj.fresh simp f vs) = .ok ([d, d], CPObj.fresh simp f vs) := by
  obtain ⟨d, h1, -⟩ := hoomd_centred_convex_polyhedron_measured simp f vs hc
  exact ⟨d, by simp only [CPObj.run, h1, bind, Except.bind, pure, Except.pure]⟩

/-- **`ConvexSpheropolyhedron.to_hoomd`, measured**: vertices = input − centroid of the core (C01
centroid), `centroid` = [0,0,0], `sweep_radius` = r, `volume` = the rounded body's volume getter on
the CENTRED core; the core object is left as it was, caches included. -/
theorem hoomd_centred_spheropolyhedron_measured (vol : CPObj ℝ → ℝ → ℝ) (r : ℝ)
    (simp : List (Nat × Nat × Nat)) (f : List (List Nat)) (vs : List (V3 ℝ)) (hc : Closed (trisOf vs simp)) :
    ∃ d, CPObj.spheroToHoomd vol r (CPObj.fresh simp f vs) = .ok (d, CPObj.fresh simp f vs) ∧
      Dict.get? d "vertices" = some (.mat (rows (Spec.centred vs ((measCP simp).cen vs)))) ∧
      Dict.get? d "centroid" = some (.vec [0, 0, 0]) ∧
      Dict.get? d "sweep_radius" = some (.num r) ∧
      Dict.get? d "volume" =
        some (.num (vol (CPObj.fresh simp f (Spec.centred vs ((measCP simp).cen vs))) r)) := by
  refine ⟨_, by rw [CPObj.spheroToHoomd_eq]; simp only [CPObj.centre_restore simp f vs hc]; rfl, ?_⟩
  rw [CPObj.centre_fresh simp f vs hc]
  refine ⟨?_, ?_, ?_, ?_⟩ <;> simp [Dict.get?, measCP, CPObj.fresh]

/-- **`Polyhedron.to_hoomd`, measured** (general mesh; `tri` = the triangles polytri yields for the
faces): vertices = input − Eberly centroid, `centroid` = (0,0,0), `volume` (from the REFRESHED
`_equations` and the face areas) and `moment_inertia` as the measure model of C02 computes them on
the centred vertex set; the object, `_equations` included, is left as it was. -/
theorem hoomd_centred_polyhedron_measured (faces : List (List Nat)) (tri : List (Nat × Nat × Nat))
    (vs : List (V3 ℝ)) (hc : Closed0 (trisOf vs tri)) :
    ∃ d, (PHObj.fresh faces tri vs).toHoomd = .ok (d, PHObj.fresh faces tri vs) ∧
      Spec.HoomdCentred (measPH faces tri) 3 "volume" true vs d ∧
      Dict.get? d "faces" = some (.idx faces) ∧ Dict.get? d "sweep_radius" = some (.num 0) ∧
      Dict.keys d = ["vertices", "faces", "centroid", "volume", "moment_inertia", "sweep_radius"] := by
  have h0 : ((PHObj.fresh faces tri vs).setCentroid V3.zero).centroid = V3.zero :=
    PHObj.setCentroid_centroid faces tri vs hc V3.zero
  refine ⟨_, by rw [PHObj.toHoomd_eq]; simp only [PHObj.centre_restore faces tri vs hc]; rfl, ?_⟩
  rw [h0, PHObj.centre_fresh faces tri vs]
  refine ⟨⟨?_, ?_, ?_, fun _ => ?_⟩, ?_, ?_, ?_⟩ <;>
    simp [Dict.get?, Dict.keys, Spec.coords, v3list_zero, rows, measPH, PHObj.fresh]

theorem hoomd_polyhedron_history (faces : List (List Nat)) (tri : List (Nat × Nat × Nat))
    (ops : List (HOp ℝ)) :
    ∀ (vs : List (V3 ℝ)), Closed0 (trisOf vs tri) →
      ∃ ds, PHObj.run ops (PHObj.fresh faces tri vs)
          = .ok (ds, PHObj.fresh faces tri (Spec.track (measPH faces tri).cen ops vs).2) ∧
        List.Forall₂ (fun p d => Spec.HoomdCentred (measPH faces tri) 3 "volume" true p d)
          (Spec.track (measPH faces tri).cen ops vs).1 ds := by
  induction ops with
  | nil => intro vs _; exact ⟨[], rfl, List.Forall₂.nil⟩
  | cons op r ih =>
    intro vs hc
    cases op with
    | toHoomd =>
      obtain ⟨d, h1, h2, -⟩ := hoomd_centred_polyhedron_measured faces tri vs hc
      obtain ⟨ds, h3, h4⟩ := ih vs hc
      refine ⟨d :: ds, ?_, List.Forall₂.cons h2 h4⟩
      simp only [PHObj.run, h1, h3, bind, Except.bind, pure, Except.pure, Spec.track]
    | setCentroid v =>
      have hc' := PHObj.closed_moved tri vs hc (v - (PHObj.fresh faces tri vs).centroid)
      obtain ⟨ds, h3, h4⟩ := ih _ hc'
      exact ⟨ds, by simp only [PHObj.run, PHObj.setCentroid_fresh]; exact h3, h4⟩

example : Closed0 (trisOf exTetV exSimp) := exTet_closed.closed0

/-- a history on the tetrahedron: export, move the centroid to (10, −20, 5), export twice -/
example : ∃ ds, PHObj.run [.toHoomd, .setCentroid ⟨10, -20, 5⟩, .toHoomd, .toHoomd]
      (PHObj.fresh [[0, 2, 1], [0, 1, 3], [1, 2, 3], [0, 3, 2]] exSimp exTetV) = .ok (ds,
        PHObj.fresh [[0, 2, 1], [0, 1, 3], [1, 2, 3], [0, 3, 2]] exSimp
          (Spec.track (measPH [[0, 2, 1], [0, 1, 3], [1, 2, 3], [0, 3, 2]] exSimp).cen
            [.toHoomd, .setCentroid ⟨10, -20, 5⟩, .toHoomd, .toHoomd] exTetV).2) := by
  obtain ⟨ds, h, -⟩ := hoomd_polyhedron_history [[0, 2, 1], [0, 1, 3], [1, 2, 3], [0, 3, 2]] exSimp
    [.toHoomd, .setCentroid ⟨10, -20, 5⟩, .toHoomd, .toHoomd] exTetV exTet_closed.closed0
  exact ⟨ds, h⟩
